(* Proofs about the TLCP / DTLCP handshake codecs, messages other than the hellos:
   finished, serverHelloDone, clientKeyExchange, serverKeyExchange, certificateVerify,
   certificate, certificateRequest, helloVerifyRequest.  Per message M and stack X:
     X_M_decode_encode : wf m -> X_M_dec (X_M_enc m) = Ok (m in decoded form)
     X_M_encode_decode : X_M_dec bs = Ok m -> bytes_ok bs -> canonical bs -> X_M_enc m = bs
     X_M_strict        : X_M_dec bs = Ok m -> (framing premise where the Go code relies on it) -> strict bs
     X_M_total         : X_M_dec bs <> Panic _                                                        *)
From V Require Import Model.Codec Model.CodecT Model.CodecD Model.CodecSpec Model.CodecAll Proofs.CodecBaseProofs.
From Coq Require Import ZArith ZifyNat ZifyN ZifyBool.
#[local] Ltac Zify.zify_post_hook ::= Z.div_mod_to_equations.
Open Scope N_scope.

Lemma of_opt_ok : forall A (o : option A) v, of_opt o = Ok v -> o = Some v.
Proof. intros A [a|] v H; cbn in H; congruence. Qed.
Lemma of_opt_total : forall A (o : option A) s, of_opt o <> Panic s.
Proof. intros A [a|] s; cbn; discriminate. Qed.

(* ================= framing ================= *)
Lemma outer_ok_T_enc : forall x body, len body < 16777216 -> outer_ok ST (t_hdr x body) = true.
Proof.
  intros. unfold t_hdr, outer_ok, u24. cbn [app hlen].
  rewrite be24_u24 by auto. rewrite !len_cons.
  apply andb_true_intro; split; [apply N.leb_le | apply N.eqb_eq]; lia.
Qed.
Lemma outer_ok_T_inv : forall bs, outer_ok ST bs = true -> bytes_ok bs ->
  exists x body, bs = t_hdr x body /\ len body < 16777216 /\ x < 256 /\ bytes_ok body.
Proof.
  intros [|x [|a [|b [|c body]]]] H Hok; try discriminate.
  unfold outer_ok in H. cbn [hlen] in H. apply andb_prop in H as [_ H]. apply N.eqb_eq in H.
  rewrite !len_cons in H.
  apply bytes_ok_cons in Hok as [Hx Hok]. apply bytes_ok_cons in Hok as [Ha Hok].
  apply bytes_ok_cons in Hok as [Hb Hok]. apply bytes_ok_cons in Hok as [Hc Hok].
  exists x, body. unfold t_hdr.
  replace (len body) with (be24 a b c) by lia. rewrite u24_be24 by auto.
  repeat split; auto. replace (len body) with (be24 a b c) by lia. apply be24_lt; auto.
Qed.

Lemma body_of_T : forall x body, body_of ST (t_hdr x body) = body.
Proof. reflexivity. Qed.

(* ================= TLCP finished ================= *)
Lemma T_fin_decode_encode : forall vd, wf_body vd -> T_fin_dec (T_fin_enc vd) = Ok vd.
Proof.
  intros vd [Hok Hl]. unfold T_fin_dec, T_fin_enc, t_hdr.
  change (tFinished :: u24 (len vd) ++ vd) with ([tFinished] ++ vec24 vd).
  rewrite take_app by reflexivity.
  rewrite <- (app_nil_r (vec24 vd)), rd_vec24_enc by auto. reflexivity.
Qed.

Lemma T_fin_inv : forall bs vd, T_fin_dec bs = Ok vd -> bytes_ok bs ->
  exists x, bs = t_hdr x vd /\ len vd < 16777216 /\ x < 256 /\ bytes_ok vd.
Proof.
  unfold T_fin_dec; intros bs vd H Hok. apply of_opt_ok in H.
  destruct (take 1 bs) as [[a s]|] eqn:E1; try discriminate.
  apply take_inv in E1 as (-> & Ha). apply bytes_ok_app in Hok as [Hoa Hos].
  destruct (rd_vec24 s) as [[v s']|] eqn:E2; try discriminate.
  apply rd_vec24_inv in E2 as (-> & Hv & Hov & _); auto.
  destruct (empty s') eqn:E3; try discriminate. apply empty_true in E3 as ->. inversion H; subst v.
  destruct a as [|x [|? ?]]; repeat rewrite len_cons in Ha; rewrite ?len_nil in Ha; try lia.
  apply bytes_ok_cons in Hoa as [Hx _].
  exists x. rewrite app_nil_r. unfold t_hdr, vec24. auto.
Qed.

Lemma T_fin_encode_decode : forall bs vd, T_fin_dec bs = Ok vd -> bytes_ok bs ->
  canonical ST mFIN bs = true -> T_fin_enc vd = bs.
Proof.
  intros bs vd H Hok Hc. apply T_fin_inv in H as (x & -> & _ & _ & _); auto.
  unfold canonical, framed in Hc. cbn in Hc.
  apply andb_prop in Hc as [Hc _]. apply andb_prop in Hc as [Hc _]. apply andb_prop in Hc as [Hc _].
  apply N.eqb_eq in Hc. subst x. reflexivity.
Qed.

(* finished checks its own outer length: no framing premise *)
Lemma T_fin_strict : forall bs vd, T_fin_dec bs = Ok vd -> bytes_ok bs -> strict ST mFIN bs = true.
Proof.
  intros bs vd H Hok. apply T_fin_inv in H as (x & -> & Hl & _ & _); auto.
  unfold strict. rewrite outer_ok_T_enc by auto. reflexivity.
Qed.

Lemma T_fin_total : forall bs s, T_fin_dec bs <> Panic s.
Proof. intros; apply of_opt_total. Qed.

Lemma canonical_framed : forall st m bs, canonical st m bs = true ->
  type_ok (mt_type m) bs = true /\ outer_ok st bs = true /\ (st = SD -> frag_whole bs = true).
Proof.
  unfold canonical, framed; intros st m bs H.
  apply andb_prop in H as [H _]. apply andb_prop in H as [H H3]. apply andb_prop in H as [H1 H2].
  repeat split; auto. intros ->; auto.
Qed.
Lemma type_ok_hdr : forall t x body, type_ok t (t_hdr x body) = true -> x = t.
Proof. unfold type_ok, t_hdr; intros. apply N.eqb_eq; auto. Qed.

(* ================= TLCP serverHelloDone ================= *)
Lemma T_shd_decode_encode : T_shd_dec (T_shd_enc tt) = Ok tt.
Proof. reflexivity. Qed.
Lemma T_shd_encode_decode : forall bs u, T_shd_dec bs = Ok u -> bytes_ok bs ->
  canonical ST mSHD bs = true -> T_shd_enc u = bs.
Proof.
  unfold T_shd_dec; intros bs u H Hok Hc.
  destruct (len bs =? 4) eqn:E; try discriminate. apply N.eqb_eq in E.
  apply canonical_framed in Hc as (Ht & Ho & _).
  apply outer_ok_T_inv in Ho as (x & body & -> & Hl & _ & _); auto.
  apply type_ok_hdr in Ht as ->. unfold t_hdr, u24 in E. cbn [app] in E. rewrite !len_cons in E.
  assert (Hb : len body = 0) by lia. apply len_0 in Hb as ->. reflexivity.
Qed.
(* the Go code only checks len(data) == 4: the three length bytes are not looked at *)
Lemma T_shd_strict : forall bs u, T_shd_dec bs = Ok u -> outer_ok ST bs = true -> strict ST mSHD bs = true.
Proof.
  unfold T_shd_dec; intros bs u H Ho.
  destruct (len bs =? 4) eqn:E; try discriminate. apply N.eqb_eq in E.
  unfold strict. rewrite Ho. cbn [andb strict_body]. unfold body_of. cbn [hlen].
  rewrite empty_len, len_skipn. apply N.eqb_eq. lia.
Qed.
Lemma T_shd_total : forall bs s, T_shd_dec bs <> Panic s.
Proof. intros; unfold T_shd_dec; destruct (len bs =? 4); discriminate. Qed.

(* ================= TLCP clientKeyExchange ================= *)
Lemma T_ckx_decode_encode : forall ct, wf_body ct -> T_ckx_dec (T_ckx_enc ct) = Ok ct.
Proof.
  intros ct [Hok Hl]. unfold T_ckx_dec, T_ckx_enc, t_hdr, u24. cbn [app].
  replace (len (_ :: _ :: _ :: _ :: ct) <? 4) with false by (symmetry; apply N.ltb_ge; lens).
  rewrite !idx_nth by lens. cbn [rbind]. simpl nth.
  rewrite be24_u24 by auto.
  replace (len ct =? _) with true by (symmetry; apply N.eqb_eq; lens). cbn [negb].
  apply from_4.
Qed.

Lemma T_ckx_inv : forall bs ct, T_ckx_dec bs = Ok ct -> bytes_ok bs ->
  exists x, bs = t_hdr x ct /\ len ct < 16777216 /\ x < 256 /\ bytes_ok ct.
Proof.
  unfold T_ckx_dec; intros bs ct H Hok.
  destruct (len bs <? 4) eqn:E; try discriminate. apply N.ltb_ge in E.
  destruct (open4 bs E) as (x & a & b & c & r & ->).
  rewrite !idx_nth in H by lens. cbn [rbind] in H. simpl nth in H.
  destruct (be24 a b c =? _) eqn:E2; try discriminate. apply N.eqb_eq in E2. cbn [negb] in H.
  rewrite (from_app [x; a; b; c] r) in H by reflexivity. inversion H; subst r.
  apply bytes_ok_cons in Hok as [Hx Hok]. apply bytes_ok_cons in Hok as [Ha Hok].
  apply bytes_ok_cons in Hok as [Hb Hok]. apply bytes_ok_cons in Hok as [Hc Hok].
  exists x. unfold t_hdr. rewrite !len_cons in E2.
  replace (len ct) with (be24 a b c) by lia. rewrite u24_be24 by auto.
  repeat split; auto. replace (len ct) with (be24 a b c) by lia. apply be24_lt; auto.
Qed.

Lemma T_ckx_encode_decode : forall bs ct, T_ckx_dec bs = Ok ct -> bytes_ok bs ->
  canonical ST mCKX bs = true -> T_ckx_enc ct = bs.
Proof.
  intros bs ct H Hok Hc. apply T_ckx_inv in H as (x & -> & _); auto.
  apply canonical_framed in Hc as (Ht & _). apply type_ok_hdr in Ht as ->. reflexivity.
Qed.
(* clientKeyExchange checks its own outer length: no framing premise *)
Lemma T_ckx_strict : forall bs ct, T_ckx_dec bs = Ok ct -> bytes_ok bs -> strict ST mCKX bs = true.
Proof.
  intros bs ct H Hok. apply T_ckx_inv in H as (x & -> & Hl & _); auto.
  unfold strict. rewrite outer_ok_T_enc by auto. reflexivity.
Qed.
Lemma T_ckx_total : forall bs s, T_ckx_dec bs <> Panic s.
Proof.
  intros bs s. unfold T_ckx_dec.
  destruct (len bs <? 4) eqn:E; try discriminate. apply N.ltb_ge in E.
  rewrite !idx_nth by lia. cbn [rbind].
  destruct (negb _); try discriminate. rewrite from_ok by lia. discriminate.
Qed.

(* ================= TLCP serverKeyExchange ================= *)
Lemma T_skx_decode_encode : forall k, wf_body k -> T_skx_dec (T_skx_enc k) = Ok k.
Proof.
  intros k [Hok Hl]. unfold T_skx_dec, T_skx_enc, t_hdr, u24. cbn [app].
  replace (len (_ :: _ :: _ :: _ :: k) <? 4) with false by (symmetry; apply N.ltb_ge; lens).
  apply from_4.
Qed.
Lemma T_skx_encode_decode : forall bs k, T_skx_dec bs = Ok k -> bytes_ok bs ->
  canonical ST mSKX bs = true -> T_skx_enc k = bs.
Proof.
  unfold T_skx_dec; intros bs k H Hok Hc.
  apply canonical_framed in Hc as (Ht & Ho & _).
  apply outer_ok_T_inv in Ho as (x & body & -> & Hl & _ & _); auto.
  apply type_ok_hdr in Ht as ->.
  destruct (len _ <? 4); try discriminate.
  unfold t_hdr, u24 in H. cbn [app] in H. rewrite from_4 in H.
  inversion H; subst. reflexivity.
Qed.
(* the Go code does not look at the header at all: strictness holds only under framing *)
Lemma T_skx_strict : forall bs k, T_skx_dec bs = Ok k -> outer_ok ST bs = true -> strict ST mSKX bs = true.
Proof. intros; unfold strict; rewrite H0; reflexivity. Qed.
Lemma T_skx_total : forall bs s, T_skx_dec bs <> Panic s.
Proof.
  intros bs s. unfold T_skx_dec.
  destruct (len bs <? 4) eqn:E; try discriminate. apply N.ltb_ge in E.
  rewrite from_ok by lia. discriminate.
Qed.

(* ================= TLCP certificateVerify ================= *)
Lemma T_cv_decode_encode : forall sg, wf_sig sg -> T_cv_dec (T_cv_enc sg) = Ok sg.
Proof.
  intros sg [Hok Hl]. unfold T_cv_dec, T_cv_enc, t_hdr, u24. cbn [app].
  rewrite take_4.
  rewrite <- (app_nil_r (vec16 sg)), rd_vec16_enc by auto. reflexivity.
Qed.
Lemma T_cv_body : forall x body sg, T_cv_dec (t_hdr x body) = Ok sg -> bytes_ok body ->
  body = vec16 sg /\ len sg < 65536.
Proof.
  unfold T_cv_dec, t_hdr, u24; intros x body sg H Hok. cbn [app] in H.
  rewrite take_4 in H. apply of_opt_ok in H.
  destruct (rd_vec16 body) as [[v s']|] eqn:E2; try discriminate.
  apply rd_vec16_inv in E2 as (-> & Hv & _ & _); auto.
  destruct (empty s') eqn:E3; try discriminate. apply empty_true in E3 as ->. inversion H; subst v.
  rewrite app_nil_r. auto.
Qed.
Lemma T_cv_encode_decode : forall bs sg, T_cv_dec bs = Ok sg -> bytes_ok bs ->
  canonical ST mCV bs = true -> T_cv_enc sg = bs.
Proof.
  intros bs sg H Hok Hc.
  apply canonical_framed in Hc as (Ht & Ho & _).
  apply outer_ok_T_inv in Ho as (x & body & -> & Hl & _ & Hb); auto.
  apply type_ok_hdr in Ht as ->. apply T_cv_body in H as (-> & _); auto.
Qed.
Lemma exact2_vec16 : forall v, len v < 65536 -> exact 2 anyb (vec16 v) = true.
Proof.
  intros. unfold exact. rewrite cut2_vec16. rewrite <- (app_nil_r (vec16 v)), rd_vec16_enc by auto. reflexivity.
Qed.
(* the Go code skips the header (Skip(4)): strictness of the body, the header under framing *)
Lemma T_cv_strict : forall bs sg, T_cv_dec bs = Ok sg -> bytes_ok bs -> outer_ok ST bs = true ->
  strict ST mCV bs = true.
Proof.
  intros bs sg H Hok Ho. unfold strict. rewrite Ho. cbn [andb].
  apply outer_ok_T_inv in Ho as (x & body & -> & Hl & _ & Hb); auto.
  apply T_cv_body in H as (-> & Hs); auto. rewrite body_of_T. cbn [strict_body]. apply exact2_vec16; auto.
Qed.
Lemma T_cv_total : forall bs s, T_cv_dec bs <> Panic s.
Proof. intros; apply of_opt_total. Qed.

(* ================= DTLCP header ================= *)
Lemma d_hdr_app : forall x n seq off flen body,
  d_hdr x n seq off flen ++ body = x :: (u24 n ++ u16 seq ++ u24 off ++ u24 flen ++ body).
Proof. reflexivity. Qed.

Lemma d_msg_wf : forall typ h body, dh_off h = 0 -> dh_flen h = 0 ->
  d_msg typ h body = d_hdr typ (len body) (dh_seq h) 0 (len body) ++ body.
Proof. intros typ h body H1 H2. unfold d_msg. rewrite H1, H2. reflexivity. Qed.

Lemma d_unhdr_hdr : forall x n seq off flen body,
  n < 16777216 -> seq < 65536 -> off < 16777216 -> flen < 16777216 ->
  d_unhdr (d_hdr x n seq off flen ++ body) =
  if 0 <? flen
  then (if len body <? flen then None else Some (x, n, mkDH seq off flen, firstn (N.to_nat flen) body))
  else Some (x, n, mkDH seq off flen, body).
Proof.
  intros. unfold d_unhdr. rewrite d_hdr_app. cbn [rd_u8].
  rewrite rd_u24_enc, rd_u16_enc, rd_u24_enc, rd_u24_enc by auto. reflexivity.
Qed.

Lemma d_unhdr_whole : forall x seq body, len body < 16777216 -> seq < 65536 ->
  d_unhdr (d_hdr x (len body) seq 0 (len body) ++ body) = Some (x, len body, mkDH seq 0 (len body), body).
Proof.
  intros. rewrite d_unhdr_hdr by (auto; lia).
  destruct (0 <? len body) eqn:E.
  - rewrite N.ltb_irrefl. unfold len. rewrite Nat2N.id, firstn_all. reflexivity.
  - apply N.ltb_ge in E. assert (len body = 0) by lia. rewrite H1. reflexivity.
Qed.

Lemma d_unhdr_inv : forall bs x n h body, d_unhdr bs = Some (x, n, h, body) -> bytes_ok bs ->
  exists rest, bs = d_hdr x n (dh_seq h) (dh_off h) (dh_flen h) ++ rest /\
    x < 256 /\ n < 16777216 /\ dh_seq h < 65536 /\ dh_off h < 16777216 /\ dh_flen h < 16777216 /\
    bytes_ok rest /\ dh_flen h <= len rest /\
    body = (if 0 <? dh_flen h then firstn (N.to_nat (dh_flen h)) rest else rest).
Proof.
  unfold d_unhdr; intros bs x n h body H Hok.
  destruct (rd_u8 bs) as [[x' s0]|] eqn:E0; try discriminate.
  apply rd_u8_inv in E0 as (-> & Hx & Hok0); auto.
  destruct (rd_u24 s0) as [[n' s1]|] eqn:E1; try discriminate.
  apply rd_u24_inv in E1 as (-> & Hn & Hok1); auto.
  destruct (rd_u16 s1) as [[sq s2]|] eqn:E2; try discriminate.
  apply rd_u16_inv in E2 as (-> & Hsq & Hok2); auto.
  destruct (rd_u24 s2) as [[off s3]|] eqn:E3; try discriminate.
  apply rd_u24_inv in E3 as (-> & Hoff & Hok3); auto.
  destruct (rd_u24 s3) as [[fl s4]|] eqn:E4; try discriminate.
  apply rd_u24_inv in E4 as (-> & Hfl & Hok4); auto.
  exists s4. unfold u8. rewrite N.mod_small by auto.
  destruct (0 <? fl) eqn:Ef.
  - destruct (len s4 <? fl) eqn:El; try discriminate. apply N.ltb_ge in El.
    inversion H; subst. cbn [dh_seq dh_off dh_flen]. rewrite Ef. repeat split; auto.
  - inversion H; subst. cbn [dh_seq dh_off dh_flen]. rewrite Ef. apply N.ltb_ge in Ef.
    repeat split; auto. lia.
Qed.

Lemma outer_ok_D_enc : forall x seq off flen body, len body < 16777216 ->
  outer_ok SD (d_hdr x (len body) seq off flen ++ body) = true.
Proof.
  intros. rewrite d_hdr_app. unfold outer_ok, u24, u16. cbn [app hlen].
  rewrite be24_u24 by auto. rewrite !len_cons.
  apply andb_true_intro; split; [apply N.leb_le | apply N.eqb_eq]; lia.
Qed.
Lemma frag_whole_enc : forall x n seq body, n < 16777216 ->
  frag_whole (d_hdr x n seq 0 n ++ body) = true.
Proof.
  intros. rewrite d_hdr_app. unfold frag_whole, u24, u16. cbn [app].
  rewrite !be24_u24 by (auto; lia). rewrite !N.eqb_refl. reflexivity.
Qed.
Lemma body_of_D : forall x n seq off flen body, body_of SD (d_hdr x n seq off flen ++ body) = body.
Proof. reflexivity. Qed.

Lemma framed_D_inv : forall bs, outer_ok SD bs = true -> frag_whole bs = true -> bytes_ok bs ->
  exists x seq body, bs = d_hdr x (len body) seq 0 (len body) ++ body /\
    len body < 16777216 /\ x < 256 /\ seq < 65536 /\ bytes_ok body.
Proof.
  intros bs Ho Hf Hok.
  assert (H12 : 12 <= len bs).
  { unfold outer_ok in Ho. destruct bs as [|? [|? [|? [|? ?]]]]; try discriminate.
    apply andb_prop in Ho as [Ho _]. apply N.leb_le in Ho. exact Ho. }
  destruct (open12 bs H12) as (x & a & b & c & s1 & s2 & o1 & o2 & o3 & f1 & f2 & f3 & body & ->).
  unfold outer_ok in Ho. cbn [hlen] in Ho. apply andb_prop in Ho as [_ Ho]. apply N.eqb_eq in Ho.
  unfold frag_whole in Hf. apply andb_prop in Hf as [Hf1 Hf2]. apply N.eqb_eq in Hf1, Hf2.
  rewrite !len_cons in Ho.
  repeat (apply bytes_ok_cons in Hok as [? Hok]).
  assert (Ef : f1 = a /\ f2 = b /\ f3 = c) by (unfold be24 in *; lia). destruct Ef as (-> & -> & ->).
  assert (Eo : o1 = 0 /\ o2 = 0 /\ o3 = 0) by (unfold be24 in *; lia). destruct Eo as (-> & -> & ->).
  exists x, (be16 s1 s2), body. rewrite d_hdr_app.
  replace (len body) with (be24 a b c) by lia.
  rewrite u24_be24, u16_be16 by auto. change (u24 0) with [0; 0; 0].
  repeat split; auto.
  - replace (len body) with (be24 a b c) by lia. apply be24_lt; auto.
  - apply be16_lt; auto.
Qed.

(* hand-indexed header fields of an opened message *)
Lemma d_fields_open : forall a0 a1 a2 a3 a4 a5 a6 a7 a8 a9 a10 a11 r st,
  d_fields (a0 :: a1 :: a2 :: a3 :: a4 :: a5 :: a6 :: a7 :: a8 :: a9 :: a10 :: a11 :: r) st =
  Ok (mkDH (be16 a4 a5) (be24 a6 a7 a8) (be24 a9 a10 a11)).
Proof.
  intros. unfold d_fields. rewrite !idx_nth by lens. reflexivity.
Qed.
Lemma d_fields_hdr : forall x n seq off flen body st,
  seq < 65536 -> off < 16777216 -> flen < 16777216 ->
  d_fields (d_hdr x n seq off flen ++ body) st = Ok (mkDH seq off flen).
Proof.
  intros. rewrite d_hdr_app. unfold u24, u16. cbn [app]. rewrite d_fields_open.
  rewrite be16_u16, !be24_u24 by auto. reflexivity.
Qed.
Lemma d_fields_total : forall bs st st', 12 <= len bs -> d_fields bs st <> Panic st'.
Proof.
  intros bs st st' H. destruct (open12 bs H) as (a0 & a1 & a2 & a3 & a4 & a5 & a6 & a7 & a8 & a9 & a10 & a11 & r & ->).
  rewrite d_fields_open. discriminate.
Qed.
Lemma d_hdr_fields_eq : forall a0 a1 a2 a3 a4 a5 a6 a7 a8 a9 a10 a11,
  a0 < 256 -> a1 < 256 -> a2 < 256 -> a3 < 256 -> a4 < 256 -> a5 < 256 -> a6 < 256 -> a7 < 256 ->
  a8 < 256 -> a9 < 256 -> a10 < 256 -> a11 < 256 ->
  d_hdr a0 (be24 a1 a2 a3) (be16 a4 a5) (be24 a6 a7 a8) (be24 a9 a10 a11) =
  [a0; a1; a2; a3; a4; a5; a6; a7; a8; a9; a10; a11].
Proof. intros. unfold d_hdr. rewrite !u24_be24, u16_be16 by auto. reflexivity. Qed.

Lemma type_ok_dhdr : forall t x n seq off flen body, type_ok t (d_hdr x n seq off flen ++ body) = true -> x = t.
Proof. intros. rewrite d_hdr_app in H. apply N.eqb_eq; auto. Qed.

(* ================= DTLCP finished ================= *)
Lemma D_fin_decode_encode : forall h vd, wf_dh h -> wf_body vd -> len vd <= 65536 ->
  D_fin_dec (D_fin_enc (h, vd)) = Ok (mkDH (dh_seq h) 0 (len vd), vd).
Proof.
  intros h vd (Hs & Ho & Hf) [Hok Hl] Hm. unfold D_fin_dec, D_fin_enc. cbn [fst snd].
  rewrite d_msg_wf, d_unhdr_whole by auto. rewrite N.eqb_refl. cbn [negb].
  replace (maxHandshake <? len vd) with false by (symmetry; apply N.ltb_ge; exact Hm).
  cbn [of_opt]. do 2 f_equal. rewrite N.sub_diag. cbn [N.to_nat repeat]. rewrite app_nil_r.
  unfold len. rewrite Nat2N.id. apply firstn_all.
Qed.

Lemma D_hdr_dec_framed : forall bs x n h body, d_unhdr bs = Some (x, n, h, body) -> bytes_ok bs ->
  outer_ok SD bs = true -> frag_whole bs = true ->
  bs = d_hdr x (len body) (dh_seq h) 0 (len body) ++ body /\ n = len body /\ dh_off h = 0 /\
  dh_flen h = len body /\ len body < 16777216 /\ bytes_ok body /\ dh_seq h < 65536.
Proof.
  intros bs x n h body H Hok Ho Hf.
  apply framed_D_inv in Ho as (x' & seq & body' & -> & Hl & Hx & Hs & Hb); auto.
  rewrite d_unhdr_whole in H by auto. inversion H; subst. cbn [dh_seq dh_off dh_flen]. repeat split; auto.
Qed.

Lemma D_fin_encode_decode : forall bs h vd, D_fin_dec bs = Ok (h, vd) -> bytes_ok bs ->
  canonical SD mFIN bs = true -> D_fin_enc (h, vd) = bs.
Proof.
  unfold D_fin_dec; intros bs h vd H Hok Hc. apply of_opt_ok in H.
  apply canonical_framed in Hc as (_ & Ho & Hf). specialize (Hf eq_refl).
  destruct (d_unhdr bs) as [[[[x n] h'] body]|] eqn:E; try discriminate.
  apply D_hdr_dec_framed in E as (E & -> & Hoff & Hfl & Hl & Hb & Hs); auto.
  destruct (x =? tFinished) eqn:Ex; try discriminate. apply N.eqb_eq in Ex. subst x. cbn [negb] in H.
  destruct (maxHandshake <? len body); try discriminate. inversion H; subst h' vd.
  rewrite N.sub_diag. cbn [N.to_nat repeat]. rewrite app_nil_r.
  replace (firstn (N.to_nat (len body)) body) with body
    by (unfold len; rewrite Nat2N.id, firstn_all; reflexivity).
  rewrite E. unfold D_fin_enc, d_msg. cbn [fst snd]. rewrite Hoff, Hfl.
  destruct (len body =? 0); reflexivity.
Qed.

(* dtlcpUnmarshalHeader does not compare the length field with anything: strictness needs framing *)
Lemma D_fin_strict : forall bs m, D_fin_dec bs = Ok m -> outer_ok SD bs = true -> strict SD mFIN bs = true.
Proof. intros; unfold strict; rewrite H0; reflexivity. Qed.
Lemma D_fin_total : forall bs s, D_fin_dec bs <> Panic s.
Proof. intros; apply of_opt_total. Qed.

Lemma frag_whole_inv : forall x n seq off flen body,
  frag_whole (d_hdr x n seq off flen ++ body) = true -> n < 16777216 -> off < 16777216 -> flen < 16777216 ->
  off = 0 /\ flen = n.
Proof.
  intros x n seq off flen body H Hn Ho Hf. rewrite d_hdr_app in H. unfold frag_whole, u24, u16 in H. cbn [app] in H.
  rewrite !be24_u24 in H by auto. apply andb_prop in H as [H1 H2]. apply N.eqb_eq in H1, H2. auto.
Qed.
Lemma d_msg_whole : forall typ seq body h, dh_seq h = seq -> dh_off h = 0 -> dh_flen h = len body ->
  d_msg typ h body = d_hdr typ (len body) seq 0 (len body) ++ body.
Proof.
  intros typ seq body h <- Ho Hf. unfold d_msg. rewrite Ho, Hf. destruct (len body =? 0); reflexivity.
Qed.

(* ================= DTLCP serverHelloDone ================= *)
Lemma D_shd_decode_encode : forall h, wf_dh h -> D_shd_dec (D_shd_enc (h, tt)) = Ok (mkDH (dh_seq h) 0 0, tt).
Proof.
  intros h (Hs & Ho & Hf). unfold D_shd_dec, D_shd_enc. cbn [fst].
  rewrite <- (app_nil_r (d_hdr _ _ _ _ _)).
  replace (len _ <? 12) with false by (symmetry; apply N.ltb_ge; rewrite d_hdr_app; unfold u24, u16; lens).
  rewrite d_fields_hdr by (auto; lia). cbn [rbind].
  rewrite d_hdr_app. unfold u24, u16. cbn [app]. rewrite !idx_nth by lens. cbn [rbind]. simpl nth.
  reflexivity.
Qed.
Lemma D_shd_encode_decode : forall bs h u, D_shd_dec bs = Ok (h, u) -> bytes_ok bs ->
  canonical SD mSHD bs = true -> D_shd_enc (h, u) = bs.
Proof.
  unfold D_shd_dec; intros bs h u H Hok Hc.
  apply canonical_framed in Hc as (_ & Ho & Hf). specialize (Hf eq_refl).
  apply framed_D_inv in Ho as (x & seq & body & -> & Hl & Hx & Hs & Hb); auto.
  destruct (len _ <? 12); try discriminate.
  rewrite d_fields_hdr in H by (auto; lia). cbn [rbind] in H.
  rewrite d_hdr_app in H. unfold u24, u16 in H. cbn [app] in H.
  rewrite !idx_nth in H by lens. cbn [rbind] in H. simpl nth in H.
  rewrite be24_u24 in H by auto.
  destruct (len body =? 0) eqn:E1; try discriminate. apply N.eqb_eq in E1. cbn [negb] in H.
  destruct (x =? tServerHelloDone) eqn:E2; try discriminate. apply N.eqb_eq in E2. subst x.
  inversion H; subst h. apply len_0 in E1 as ->. rewrite app_nil_r. reflexivity.
Qed.
(* the decoder requires length = 0 but does not compare it with the size *)
Lemma D_shd_strict : forall bs m, D_shd_dec bs = Ok m -> outer_ok SD bs = true -> strict SD mSHD bs = true.
Proof.
  unfold D_shd_dec; intros bs m H Ho. unfold strict. rewrite Ho. cbn [andb strict_body].
  destruct (len bs <? 12) eqn:E; try discriminate. apply N.ltb_ge in E.
  destruct (open12 bs E) as (a0 & a1 & a2 & a3 & a4 & a5 & a6 & a7 & a8 & a9 & a10 & a11 & r & ->).
  rewrite d_fields_open in H. cbn [rbind] in H. rewrite !idx_nth in H by lens. cbn [rbind] in H. simpl nth in H.
  destruct (be24 a1 a2 a3 =? 0) eqn:E1; try discriminate. apply N.eqb_eq in E1.
  unfold outer_ok in Ho. cbn [hlen] in Ho. apply andb_prop in Ho as [_ Ho]. apply N.eqb_eq in Ho.
  rewrite !len_cons in Ho. assert (Hr : len r = 0) by lia. apply len_0 in Hr as ->. reflexivity.
Qed.
Lemma D_shd_total : forall bs s, D_shd_dec bs <> Panic s.
Proof.
  intros bs s. unfold D_shd_dec.
  destruct (len bs <? 12) eqn:E; try discriminate. apply N.ltb_ge in E.
  destruct (open12 bs E) as (a0 & a1 & a2 & a3 & a4 & a5 & a6 & a7 & a8 & a9 & a10 & a11 & r & ->).
  rewrite d_fields_open. cbn [rbind]. rewrite !idx_nth by lens. cbn [rbind].
  destruct (negb _); try discriminate. destruct (_ =? _); discriminate.
Qed.

(* ================= DTLCP clientKeyExchange ================= *)
Lemma D_ckx_decode_encode : forall h ct, wf_dh h -> wf_body ct ->
  D_ckx_dec (D_ckx_enc (h, ct)) = Ok (mkDH (dh_seq h) 0 (len ct), ct).
Proof.
  intros h ct (Hs & Ho & Hf) [Hok Hl]. unfold D_ckx_dec, D_ckx_enc. cbn [fst snd].
  rewrite d_msg_wf by auto.
  replace (len _ <? 12) with false by (symmetry; apply N.ltb_ge; rewrite d_hdr_app; unfold u24, u16; lens).
  rewrite d_fields_hdr by (auto; lia). cbn [rbind].
  rewrite d_hdr_app. unfold u24, u16. cbn [app]. rewrite !idx_nth by lens. cbn [rbind]. simpl nth.
  rewrite be24_u24 by auto.
  replace (len ct =? _) with true by (symmetry; apply N.eqb_eq; lens). cbn [negb].
  rewrite from_12. reflexivity.
Qed.
Lemma D_ckx_inv : forall bs h ct, D_ckx_dec bs = Ok (h, ct) -> bytes_ok bs ->
  exists x, bs = d_hdr x (len ct) (dh_seq h) (dh_off h) (dh_flen h) ++ ct /\ len ct < 16777216 /\
            dh_seq h < 65536 /\ dh_off h < 16777216 /\ dh_flen h < 16777216 /\ bytes_ok ct.
Proof.
  unfold D_ckx_dec; intros bs h ct H Hok.
  destruct (len bs <? 12) eqn:E; try discriminate. apply N.ltb_ge in E.
  destruct (open12 bs E) as (a0 & a1 & a2 & a3 & a4 & a5 & a6 & a7 & a8 & a9 & a10 & a11 & r & ->).
  rewrite d_fields_open in H. cbn [rbind] in H. rewrite !idx_nth in H by lens. cbn [rbind] in H. simpl nth in H.
  destruct (be24 a1 a2 a3 =? _) eqn:E1; try discriminate. apply N.eqb_eq in E1. cbn [negb] in H.
  rewrite from_12 in H. cbn [rbind] in H. inversion H; subst h r.
  repeat (apply bytes_ok_cons in Hok as [? Hok]).
  exists a0. cbn [dh_seq dh_off dh_flen]. rewrite !len_cons in E1.
  replace (len ct) with (be24 a1 a2 a3) by lia.
  rewrite d_hdr_fields_eq by auto.
  repeat split; auto using be24_lt, be16_lt.
Qed.
Lemma D_ckx_encode_decode : forall bs h ct, D_ckx_dec bs = Ok (h, ct) -> bytes_ok bs ->
  canonical SD mCKX bs = true -> D_ckx_enc (h, ct) = bs.
Proof.
  intros bs h ct H Hok Hc. apply canonical_framed in Hc as (Ht & _ & Hf). specialize (Hf eq_refl).
  apply D_ckx_inv in H as (x & -> & Hl & Hs & Ho & Hfl & _); auto.
  apply type_ok_dhdr in Ht as ->. apply frag_whole_inv in Hf as [Ho' Hf']; auto.
  unfold D_ckx_enc. cbn [fst snd]. rewrite (d_msg_whole _ (dh_seq h)) by auto. rewrite Ho', Hf'. reflexivity.
Qed.
(* clientKeyExchange compares the length field with the size itself *)
Lemma D_ckx_strict : forall bs m, D_ckx_dec bs = Ok m -> bytes_ok bs -> strict SD mCKX bs = true.
Proof.
  intros bs [h ct] H Hok. apply D_ckx_inv in H as (x & -> & Hl & _); auto.
  unfold strict. rewrite outer_ok_D_enc by auto. reflexivity.
Qed.
Lemma D_ckx_total : forall bs s, D_ckx_dec bs <> Panic s.
Proof.
  intros bs s. unfold D_ckx_dec.
  destruct (len bs <? 12) eqn:E; try discriminate. apply N.ltb_ge in E.
  destruct (open12 bs E) as (a0 & a1 & a2 & a3 & a4 & a5 & a6 & a7 & a8 & a9 & a10 & a11 & r & ->).
  rewrite d_fields_open. cbn [rbind]. rewrite !idx_nth by lens. cbn [rbind].
  destruct (negb _); try discriminate. rewrite from_12. discriminate.
Qed.

(* ================= DTLCP serverKeyExchange ================= *)
Lemma D_skx_decode_encode : forall h k, wf_dh h -> wf_body k ->
  D_skx_dec (D_skx_enc (h, k)) = Ok (mkDH (dh_seq h) 0 (len k), k).
Proof.
  intros h k (Hs & Ho & Hf) [Hok Hl]. unfold D_skx_dec, D_skx_enc. cbn [fst snd].
  rewrite d_msg_wf by auto.
  replace (len _ <? 12) with false by (symmetry; apply N.ltb_ge; rewrite d_hdr_app; unfold u24, u16; lens).
  rewrite d_fields_hdr by (auto; lia). cbn [rbind].
  rewrite d_hdr_app. unfold u24, u16. cbn [app]. rewrite from_12. reflexivity.
Qed.
Lemma D_skx_encode_decode : forall bs h k, D_skx_dec bs = Ok (h, k) -> bytes_ok bs ->
  canonical SD mSKX bs = true -> D_skx_enc (h, k) = bs.
Proof.
  unfold D_skx_dec; intros bs h k H Hok Hc.
  apply canonical_framed in Hc as (Ht & Ho & Hf). specialize (Hf eq_refl).
  apply framed_D_inv in Ho as (x & seq & body & -> & Hl & Hx & Hs & Hb); auto.
  apply type_ok_dhdr in Ht as ->.
  destruct (len _ <? 12); try discriminate.
  rewrite d_fields_hdr in H by (auto; lia). cbn [rbind] in H.
  rewrite d_hdr_app in H. unfold u24, u16 in H. cbn [app] in H. rewrite from_12 in H. cbn [rbind] in H.
  inversion H; subst. unfold D_skx_enc. cbn [fst snd]. apply d_msg_whole; reflexivity.
Qed.
(* the Go code reads the fragment fields and copies the rest: the length field is not looked at *)
Lemma D_skx_strict : forall bs m, D_skx_dec bs = Ok m -> outer_ok SD bs = true -> strict SD mSKX bs = true.
Proof. intros; unfold strict; rewrite H0; reflexivity. Qed.
Lemma D_skx_total : forall bs s, D_skx_dec bs <> Panic s.
Proof.
  intros bs s. unfold D_skx_dec.
  destruct (len bs <? 12) eqn:E; try discriminate. apply N.ltb_ge in E.
  destruct (open12 bs E) as (a0 & a1 & a2 & a3 & a4 & a5 & a6 & a7 & a8 & a9 & a10 & a11 & r & ->).
  rewrite d_fields_open. cbn [rbind]. rewrite from_12. discriminate.
Qed.

(* ================= DTLCP certificateVerify ================= *)
Lemma D_cv_decode_encode : forall h sg, wf_dh h -> wf_sig sg ->
  D_cv_dec (D_cv_enc (h, sg)) = Ok (mkDH (dh_seq h) 0 (len (vec16 sg)), sg).
Proof.
  intros h sg (Hs & Ho & Hf) [Hok Hl]. unfold D_cv_dec, D_cv_enc. cbn [fst snd].
  rewrite d_msg_wf, d_unhdr_whole by (auto; lens). rewrite N.eqb_refl. cbn [negb].
  rewrite <- (app_nil_r (vec16 sg)), rd_vec16_enc by auto. reflexivity.
Qed.
Lemma D_cv_encode_decode : forall bs h sg, D_cv_dec bs = Ok (h, sg) -> bytes_ok bs ->
  canonical SD mCV bs = true -> D_cv_enc (h, sg) = bs.
Proof.
  unfold D_cv_dec; intros bs h sg H Hok Hc. apply of_opt_ok in H.
  apply canonical_framed in Hc as (_ & Ho & Hf). specialize (Hf eq_refl).
  destruct (d_unhdr bs) as [[[[x n] h'] body]|] eqn:E; try discriminate.
  apply D_hdr_dec_framed in E as (E & -> & Hoff & Hfl & Hl & Hb & Hs); auto.
  destruct (x =? tCertificateVerify) eqn:Ex; try discriminate. apply N.eqb_eq in Ex. subst x. cbn [negb] in H.
  destruct (rd_vec16 body) as [[v s']|] eqn:E2; try discriminate.
  apply rd_vec16_inv in E2 as (E2 & Hv & _ & _); auto.
  destruct (empty s') eqn:E3; try discriminate. apply empty_true in E3 as ->. inversion H; subst h' v.
  rewrite app_nil_r in E2. subst body.
  rewrite E. unfold D_cv_enc. cbn [fst snd]. apply d_msg_whole; auto.
Qed.
Lemma D_cv_strict : forall bs m, D_cv_dec bs = Ok m -> bytes_ok bs -> outer_ok SD bs = true ->
  frag_whole bs = true -> strict SD mCV bs = true.
Proof.
  unfold D_cv_dec; intros bs [h sg] H Hok Ho Hf. apply of_opt_ok in H. unfold strict. rewrite Ho. cbn [andb].
  destruct (d_unhdr bs) as [[[[x n] h'] body]|] eqn:E; try discriminate.
  apply D_hdr_dec_framed in E as (E & -> & Hoff & Hfl & Hl & Hb & Hs); auto.
  destruct (negb _); try discriminate.
  destruct (rd_vec16 body) as [[v s']|] eqn:E2; try discriminate.
  apply rd_vec16_inv in E2 as (E2 & Hv & _ & _); auto.
  destruct (empty s') eqn:E3; try discriminate. apply empty_true in E3 as ->.
  rewrite app_nil_r in E2. rewrite E, body_of_D. cbn [strict_body]. subst body. apply exact2_vec16; auto.
Qed.
Lemma D_cv_total : forall bs s, D_cv_dec bs <> Panic s.
Proof. intros; apply of_opt_total. Qed.

(* ================= DTLCP helloVerifyRequest ================= *)
Lemma exact1_vec8 : forall v, len v < 256 -> exact 1 anyb (vec8 v) = true.
Proof.
  intros. unfold exact. rewrite cut1_vec8. rewrite <- (app_nil_r (vec8 v)), rd_vec8_enc by auto. reflexivity.
Qed.
Lemma D_hvr_decode_encode : forall h v ck, wf_dh h -> wf_hvr (v, ck) ->
  D_hvr_dec (D_hvr_enc (h, (v, ck))) = Ok (mkDH (dh_seq h) 0 (len (u16 v ++ vec8 ck)), (v, ck)).
Proof.
  intros h v ck (Hs & Ho & Hf) (Hv & Hok & Hl). cbn [fst snd] in *. unfold D_hvr_dec, D_hvr_enc. cbn [fst snd].
  rewrite d_msg_wf, d_unhdr_whole by (auto; lens). rewrite N.eqb_refl. cbn [negb].
  rewrite rd_u16_enc by auto. rewrite <- (app_nil_r (vec8 ck)), rd_vec8_enc by auto. reflexivity.
Qed.
Lemma D_hvr_body : forall body v ck,
  match rd_u16 body with
  | Some (ver, s) => match rd_vec8 s with
                     | Some (c, s') => if empty s' then Some (ver, c) else None
                     | None => None
                     end
  | None => None
  end = Some (v, ck) -> bytes_ok body -> body = u16 v ++ vec8 ck /\ len ck < 256.
Proof.
  intros body v ck H Hb.
  destruct (rd_u16 body) as [[ver s]|] eqn:E1; try discriminate.
  apply rd_u16_inv in E1 as (-> & Hv & Hs); auto.
  destruct (rd_vec8 s) as [[c s']|] eqn:E2; try discriminate.
  apply rd_vec8_inv in E2 as (-> & Hc & _ & _); auto.
  destruct (empty s') eqn:E3; try discriminate. apply empty_true in E3 as ->. inversion H; subst.
  rewrite app_nil_r. auto.
Qed.
Lemma D_hvr_encode_decode : forall bs h m, D_hvr_dec bs = Ok (h, m) -> bytes_ok bs ->
  canonical SD mHVR bs = true -> D_hvr_enc (h, m) = bs.
Proof.
  unfold D_hvr_dec; intros bs h [v ck] H Hok Hc. apply of_opt_ok in H.
  apply canonical_framed in Hc as (_ & Ho & Hf). specialize (Hf eq_refl).
  destruct (d_unhdr bs) as [[[[x n] h'] body]|] eqn:E; try discriminate.
  apply D_hdr_dec_framed in E as (E & -> & Hoff & Hfl & Hl & Hb & Hs); auto.
  destruct (x =? tHelloVerifyRequest) eqn:Ex; try discriminate. apply N.eqb_eq in Ex. subst x. cbn [negb] in H.
  assert (H' : match rd_u16 body with
               | Some (ver, s) => match rd_vec8 s with
                                  | Some (c, s') => if empty s' then Some (ver, c) else None
                                  | None => None end
               | None => None end = Some (v, ck) /\ h' = h).
  { destruct (rd_u16 body) as [[ver s]|]; try discriminate.
    destruct (rd_vec8 s) as [[c s']|]; try discriminate.
    destruct (empty s'); try discriminate. inversion H; subst; auto. }
  destruct H' as [H' ->]. apply D_hvr_body in H' as (Hbody & _); auto.
  rewrite E. unfold D_hvr_enc. cbn [fst snd]. rewrite <- Hbody. apply d_msg_whole; auto.
Qed.
Lemma D_hvr_strict : forall bs m, D_hvr_dec bs = Ok m -> bytes_ok bs -> outer_ok SD bs = true ->
  frag_whole bs = true -> strict SD mHVR bs = true.
Proof.
  unfold D_hvr_dec; intros bs [h [v ck]] H Hok Ho Hf. apply of_opt_ok in H. unfold strict. rewrite Ho. cbn [andb].
  destruct (d_unhdr bs) as [[[[x n] h'] body]|] eqn:E; try discriminate.
  apply D_hdr_dec_framed in E as (E & -> & Hoff & Hfl & Hl & Hb & Hs); auto.
  destruct (negb _); try discriminate.
  assert (H' : match rd_u16 body with
               | Some (ver, s) => match rd_vec8 s with
                                  | Some (c, s') => if empty s' then Some (ver, c) else None
                                  | None => None end
               | None => None end = Some (v, ck)).
  { destruct (rd_u16 body) as [[ver s]|]; try discriminate.
    destruct (rd_vec8 s) as [[c s']|]; try discriminate.
    destruct (empty s'); try discriminate. inversion H; subst; auto. }
  apply D_hvr_body in H' as (Hbody & Hc); auto.
  rewrite E, body_of_D. cbn [strict_body]. rewrite Hbody. unfold strict_hvr, u16. cbn [app].
  apply exact1_vec8; auto.
Qed.
Lemma D_hvr_total : forall bs s, D_hvr_dec bs <> Panic s.
Proof. intros; apply of_opt_total. Qed.

(* ================= certificate (both stacks: cert_dec_at) ================= *)
Lemma certs_enc_cons : forall c cs, certs_enc (c :: cs) = vec24 c ++ certs_enc cs.
Proof. reflexivity. Qed.

Lemma cert_count_enc : forall s cs fuel n,
  Forall (fun c => bytes_ok c /\ 1 <= len c) cs -> len (certs_enc cs) < 16777216 ->
  (length cs < fuel)%nat ->
  cert_count s fuel (len (certs_enc cs)) (certs_enc cs) n = Ok (n + length cs)%nat.
Proof.
  induction cs as [|c cs IH]; intros fuel n Hwf Hl Hf.
  - destruct fuel; cbn; rewrite Nat.add_0_r; reflexivity.
  - inversion Hwf as [|? ? [Hc Hc1] Hcs]; subst. rewrite certs_enc_cons in *.
    destruct fuel as [|k]; [cbn in Hf; lia|]. cbn [length] in Hf.
    autorewrite with lens in Hl.
    cbn [cert_count].
    replace (len (vec24 c ++ certs_enc cs) =? 0) with false by (symmetry; apply N.eqb_neq; lens).
    replace (len (vec24 c ++ certs_enc cs) <? 4) with false by (symmetry; apply N.ltb_ge; lens).
    assert (Ed : vec24 c ++ certs_enc cs =
                 (len c / 65536) mod 256 :: (len c / 256) mod 256 :: len c mod 256 :: (c ++ certs_enc cs)).
    { unfold vec24, u24. rewrite <- app_assoc. reflexivity. }
    assert (Eld : len (vec24 c ++ certs_enc cs) = 3 + len c + len (certs_enc cs)) by lens.
    rewrite Eld, Ed.
    rewrite !idx_nth by lens. cbn [rbind]. simpl nth. rewrite be24_u24 by lia.
    rewrite u32_small by lia.
    replace (_ <? 3 + len c) with false by (symmetry; apply N.ltb_ge; lia).
    rewrite from_ok by lens. cbn [rbind]. rewrite to_nat_3_plus. cbn [skipn]. rewrite skipn_app_exact.
    replace (u32 _) with (len (certs_enc cs)).
    2:{ unfold u32.
        replace (3 + len c + len (certs_enc cs) + 4294967296 - (3 + len c)) with (len (certs_enc cs) + 1 * 4294967296) by lia.
        rewrite N.mod_add by lia. rewrite N.mod_small; lia. }
    rewrite IH; auto; try lia. f_equal. cbn [length]. lia.
Qed.

Lemma cert_collect_enc : forall s cs,
  Forall (fun c => bytes_ok c /\ 1 <= len c) cs -> len (certs_enc cs) < 16777216 ->
  cert_collect s (length cs) (certs_enc cs) = Ok cs.
Proof.
  induction cs as [|c cs IH]; intros Hwf Hl; [reflexivity|].
  inversion Hwf as [|? ? [Hc Hc1] Hcs]; subst. rewrite certs_enc_cons in *.
  autorewrite with lens in Hl. cbn [length cert_collect].
  assert (Ed : vec24 c ++ certs_enc cs =
               (len c / 65536) mod 256 :: (len c / 256) mod 256 :: len c mod 256 :: (c ++ certs_enc cs)).
  { unfold vec24, u24. rewrite <- app_assoc. reflexivity. }
  rewrite Ed.
  rewrite !idx_nth by lens. cbn [rbind]. simpl nth. rewrite be24_u24 by lia.
  rewrite sub_ok by lens. cbn [rbind].
  replace (3 + len c - 3) with (len c) by lia.
  change (N.to_nat 3) with 3%nat. cbn [skipn]. rewrite firstn_app_exact.
  rewrite from_ok by lens. cbn [rbind]. rewrite to_nat_3_plus. cbn [skipn]. rewrite skipn_app_exact.
  rewrite IH; auto. lia.
Qed.

(* what a successful count says, for any certsLen *)
Lemma cert_count_inv : forall s fuel cl d n n', cert_count s fuel cl d n = Ok n' ->
  (n <= n')%nat /\ exists cs, cert_collect s (n' - n) d = Ok cs /\
    (bytes_ok d -> cl = len d -> len d < 4294967296 -> certs_enc cs = d /\ Forall bytes_ok cs).
Proof.
  induction fuel as [|k IH]; intros cl d n n' H.
  - cbn in H. destruct (cl =? 0) eqn:E; try discriminate. inversion H; subst. split; auto.
    rewrite Nat.sub_diag. exists []. split; auto. intros _ Hc _. apply N.eqb_eq in E. rewrite E in Hc.
    symmetry in Hc. apply len_0 in Hc as ->. auto.
  - cbn [cert_count] in H. destruct (cl =? 0) eqn:E.
    { inversion H; subst. split; auto. rewrite Nat.sub_diag. exists []. split; auto.
      intros _ Hc _. apply N.eqb_eq in E. rewrite E in Hc. symmetry in Hc. apply len_0 in Hc as ->. auto. }
    destruct (len d <? 4) eqn:E4; try discriminate. apply N.ltb_ge in E4.
    destruct (open3 d) as (b0 & b1 & b2 & r & ->); [lia|].
    rewrite !idx_nth in H by lens. cbn [rbind] in H. simpl nth in H.
    destruct (u32 (len (b0 :: b1 :: b2 :: r)) <? 3 + be24 b0 b1 b2) eqn:E5; try discriminate.
    apply N.ltb_ge in E5.
    assert (Hle : 3 + be24 b0 b1 b2 <= len (b0 :: b1 :: b2 :: r)).
    { etransitivity; [exact E5|]. unfold u32. apply N.mod_le. lia. }
    rewrite from_ok in H by auto. cbn [rbind] in H. rewrite to_nat_3_plus in H. cbn [skipn] in H.
    apply IH in H as (Hn & cs' & Hcol & Henc).
    split; [lia|].
    replace (n' - n)%nat with (S (n' - S n)) by lia. cbn [cert_collect].
    rewrite !idx_nth by lens. cbn [rbind]. simpl nth.
    rewrite sub_ok by (auto; lia). cbn [rbind].
    rewrite from_ok by auto. cbn [rbind]. rewrite to_nat_3_plus. cbn [skipn]. rewrite Hcol. cbn [rbind].
    eexists; split; [reflexivity|].
    intros Hok Hcl Hlt.
    replace (3 + be24 b0 b1 b2 - 3) with (be24 b0 b1 b2) by lia. change (N.to_nat 3) with 3%nat. cbn [skipn].
    repeat rewrite len_cons in *.
    repeat (apply bytes_ok_cons in Hok as [? Hok]).
    destruct Henc as [Henc Hall].
    + apply bytes_ok_skipn; auto.
    + subst cl. unfold u32. rewrite len_skipn.
      replace (1 + (1 + (1 + len r)) + 4294967296 - (3 + be24 b0 b1 b2))
        with (len r - be24 b0 b1 b2 + 1 * 4294967296) by lia.
      rewrite N.mod_add by lia. rewrite N.mod_small; lia.
    + rewrite len_skipn. lia.
    + split.
      * rewrite certs_enc_cons, Henc. unfold vec24. rewrite len_firstn by lia.
        rewrite u24_be24 by auto. cbn [app]. rewrite firstn_skipn. reflexivity.
      * constructor; auto. apply bytes_ok_firstn; auto.
Qed.

Lemma cert_count_total : forall s fuel cl d n st, (length d < fuel)%nat -> cert_count s fuel cl d n <> Panic st.
Proof.
  induction fuel as [|k IH]; intros cl d n st Hf; [lia|].
  cbn [cert_count]. destruct (cl =? 0); try discriminate.
  destruct (len d <? 4) eqn:E4; try discriminate. apply N.ltb_ge in E4.
  destruct (open3 d) as (b0 & b1 & b2 & r & ->); [lia|].
  rewrite !idx_nth by lens. cbn [rbind]. simpl nth.
  destruct (u32 (len (b0 :: b1 :: b2 :: r)) <? 3 + be24 b0 b1 b2) eqn:E5; try discriminate.
  apply N.ltb_ge in E5.
  assert (Hle : 3 + be24 b0 b1 b2 <= len (b0 :: b1 :: b2 :: r)).
  { etransitivity; [exact E5|]. unfold u32. apply N.mod_le. lia. }
  rewrite from_ok by auto. cbn [rbind]. rewrite to_nat_3_plus. cbn [skipn].
  apply IH. rewrite skipn_length. cbn [length] in Hf. lia.
Qed.

Lemma cert_dec_at_enc : forall hdr h s cs, len hdr = h -> h <= 12 -> wf_certs cs ->
  cert_dec_at h s (hdr ++ vec24 (certs_enc cs)) = Ok cs.
Proof.
  intros hdr h s cs Hh H12 [Hwf Hl]. unfold cert_dec_at. subst h.
  replace (len hdr + 1) with (len hdr + 1) by lia.
  rewrite <- (N.add_0_r (len hdr)) at 1.
  rewrite !idx_app_r. unfold vec24 at 1 2 3, u24. cbn [app].
  rewrite !idx_nth by lens. cbn [rbind]. simpl nth. rewrite be24_u24 by lia.
  replace (u32 _ =? u32 _) with true.
  2:{ symmetry. apply N.eqb_eq. f_equal. unfold vec24, u24. lens. }
  cbn [negb].
  rewrite !from_app_r. unfold vec24, u24. cbn [app].
  change (from (?a :: ?b :: ?c :: certs_enc cs) 3 ?st) with (from ([a; b; c] ++ certs_enc cs) 3 st).
  rewrite !from_app by reflexivity. cbn [rbind].
  rewrite cert_count_enc; auto; try lia.
  - cbn [rbind]. cbn [Nat.add]. apply cert_collect_enc; auto. lia.
  - assert (Hx : (length cs <= length (certs_enc cs))%nat).
    { clear - Hwf. induction cs as [|c cs IH]; [cbn; lia|]. inversion Hwf as [|? ? [_ H1] Hrest]; subst.
      rewrite certs_enc_cons, app_length. unfold vec24, u24. cbn [length app]. specialize (IH Hrest). lia. }
    lia.
Qed.

Lemma cert_dec_at_inv : forall h s data cs, cert_dec_at h s data = Ok cs -> bytes_ok data ->
  len data < 4294967296 - 16 -> h <= 12 -> h + 3 <= len data ->
  exists hdr, len hdr = h /\ data = hdr ++ vec24 (certs_enc cs) /\ Forall bytes_ok cs /\ len (certs_enc cs) < 16777216.
Proof.
  unfold cert_dec_at; intros h s data cs H Hok Hlt H12 Hh.
  rewrite !idx_nth in H by lia. cbn [rbind] in H.
  set (hdr := firstn (N.to_nat h) data). set (rest := skipn (N.to_nat h) data).
  assert (Hd : data = hdr ++ rest) by (symmetry; apply firstn_skipn).
  assert (Hlh : len hdr = h) by (apply len_firstn; lia).
  assert (Hr : 3 <= len rest) by (unfold rest; rewrite len_skipn; lia).
  destruct (open3 rest Hr) as (b4 & b5 & b6 & d & Er).
  assert (N4 : nth (N.to_nat h) data 0 = b4).
  { rewrite Hd, app_nth2 by (unfold len in Hlh; lia). replace (N.to_nat h - length hdr)%nat with 0%nat by (unfold len in Hlh; lia). rewrite Er. reflexivity. }
  assert (N5 : nth (N.to_nat (h + 1)) data 0 = b5).
  { rewrite Hd, app_nth2 by (unfold len in Hlh; lia). replace (N.to_nat (h + 1) - length hdr)%nat with 1%nat by (unfold len in Hlh; lia). rewrite Er. reflexivity. }
  assert (N6 : nth (N.to_nat (h + 2)) data 0 = b6).
  { rewrite Hd, app_nth2 by (unfold len in Hlh; lia). replace (N.to_nat (h + 2) - length hdr)%nat with 2%nat by (unfold len in Hlh; lia). rewrite Er. reflexivity. }
  rewrite N4, N5, N6 in H.
  destruct (u32 (len data) =? u32 (be24 b4 b5 b6 + h + 3)) eqn:E; try discriminate. cbn [negb] in H.
  apply N.eqb_eq in E.
  rewrite Hd in Hok. apply bytes_ok_app in Hok as [Hoh Hor]. rewrite Er in Hor.
  repeat (apply bytes_ok_cons in Hor as [? Hor]).
  assert (Hb : be24 b4 b5 b6 < 16777216) by (apply be24_lt; auto).
  rewrite !u32_small in E by lia.
  assert (Hfrom : forall st, from data (h + 3) st = Ok d).
  { intros st. rewrite Hd, <- Hlh, from_app_r, Er. apply (from_app [b4; b5; b6] d). reflexivity. }
  rewrite !Hfrom in H. cbn [rbind] in H.
  assert (Hld : len d = be24 b4 b5 b6).
  { rewrite Hd, Er in E. autorewrite with lens in E. lia. }
  destruct (cert_count s (S (length d)) (be24 b4 b5 b6) d 0) as [n| |st] eqn:Ec; try discriminate.
  cbn [rbind] in H.
  apply cert_count_inv in Ec as (_ & cs' & Hcol & Henc). rewrite Nat.sub_0_r in Hcol.
  rewrite Hcol in H. inversion H; subst cs'.
  destruct Henc as [Henc Hall]; auto; try lia.
  exists hdr. rewrite Henc. split; auto. split; [|split; auto; lia].
  rewrite Hd at 1. f_equal. rewrite Er. unfold vec24. rewrite Hld, u24_be24 by auto. reflexivity.
Qed.

Lemma cert_dec_at_total : forall h s data st, h + 3 <= len data -> cert_dec_at h s data <> Panic st.
Proof.
  unfold cert_dec_at; intros h s data st Hh.
  rewrite !idx_nth by lia. cbn [rbind].
  destruct (negb _); try discriminate.
  rewrite !from_ok by lia. cbn [rbind].
  destruct (cert_count _ _ _ _ _) as [n| |st'] eqn:Ec.
  - cbn [rbind]. apply cert_count_inv in Ec as (_ & cs' & Hcol & _). rewrite Nat.sub_0_r in Hcol.
    rewrite Hcol. discriminate.
  - discriminate.
  - exfalso. eapply cert_count_total; [|exact Ec]. lia.
Qed.

Lemma app_len_inj : forall (a a' b b' : bytes), len a = len a' -> a ++ b = a' ++ b' -> a = a' /\ b = b'.
Proof.
  induction a as [|x a IH]; intros [|y a'] b b' Hl H; repeat rewrite len_cons in Hl; rewrite ?len_nil in Hl; try lia.
  - auto.
  - cbn [app] in H. inversion H; subst. destruct (IH a' b b') as [-> ->]; auto. lia.
Qed.
Lemma len_d_hdr : forall x n seq off flen, len (d_hdr x n seq off flen) = 12.
Proof. reflexivity. Qed.

Lemma exact3_vec24 : forall p v, len v < 16777216 -> exact 3 p (vec24 v) = p v.
Proof.
  intros. unfold exact. rewrite cut3_vec24. rewrite <- (app_nil_r (vec24 v)), rd_vec24_enc by auto. reflexivity.
Qed.
Lemma all_vecs3_certs : forall cs fuel, len (certs_enc cs) < 16777216 -> (length (certs_enc cs) <= fuel)%nat ->
  all_vecs fuel 3 anyb (certs_enc cs) = true.
Proof.
  induction cs as [|c cs IH]; intros fuel Hl Hf.
  - destruct fuel; reflexivity.
  - rewrite certs_enc_cons in *. autorewrite with lens in Hl.
    destruct fuel as [|k]. { rewrite app_length in Hf. unfold vec24, u24 in Hf. cbn [length app] in Hf. lia. }
    assert (Hne : vec24 c ++ certs_enc cs <> []) by (unfold vec24, u24; cbn; discriminate).
    destruct (vec24 c ++ certs_enc cs) as [|z zs] eqn:Ez; [congruence|]. rewrite <- Ez. clear Hne.
    cbn [all_vecs]. rewrite Ez at 1. rewrite cut3_vec24, rd_vec24_enc by lia. cbn [anyb andb].
    apply IH; [lia|]. rewrite <- Ez, app_length in Hf. unfold vec24, u24 in Hf. cbn [length app] in Hf. lia.
Qed.

(* ---------- TLCP ---------- *)
Lemma T_cert_decode_encode : forall cs, wf_certs cs -> T_cert_dec (T_cert_enc cs) = Ok cs.
Proof.
  intros cs Hwf. unfold T_cert_dec, T_cert_enc, t_hdr.
  replace (len _ <? 7) with false by (symmetry; apply N.ltb_ge; unfold vec24, u24; lens).
  change (tCertificate :: u24 (len (vec24 (certs_enc cs))) ++ vec24 (certs_enc cs))
    with ((tCertificate :: u24 (len (vec24 (certs_enc cs)))) ++ vec24 (certs_enc cs)).
  apply cert_dec_at_enc; auto. lia.
Qed.

Lemma T_cert_body : forall x body cs, T_cert_dec (t_hdr x body) = Ok cs -> bytes_ok body -> x < 256 ->
  len body < 16777216 -> body = vec24 (certs_enc cs) /\ len (certs_enc cs) < 16777216.
Proof.
  unfold T_cert_dec; intros x body cs H Hb Hx Hl.
  destruct (len (t_hdr x body) <? 7) eqn:E; try discriminate. apply N.ltb_ge in E.
  assert (Elen : len (t_hdr x body) = 4 + len body) by (unfold t_hdr, u24; lens).
  apply cert_dec_at_inv in H as (hdr & Hh & Hd & _ & Hc); try lia.
  2:{ unfold t_hdr. apply bytes_ok_cons; split; auto. apply bytes_ok_app; split; auto using u24_ok. }
  change (t_hdr x body) with ((x :: u24 (len body)) ++ body) in Hd.
  apply app_len_inj in Hd as [_ Hd]; [auto | rewrite Hh; reflexivity].
Qed.

Lemma T_cert_encode_decode : forall bs cs, T_cert_dec bs = Ok cs -> bytes_ok bs ->
  canonical ST mCERT bs = true -> T_cert_enc cs = bs.
Proof.
  intros bs cs H Hok Hc. apply canonical_framed in Hc as (Ht & Ho & _).
  apply outer_ok_T_inv in Ho as (x & body & -> & Hl & Hx & Hb); auto.
  apply type_ok_hdr in Ht as ->. apply T_cert_body in H as (-> & _); auto.
Qed.
(* certificate compares the inner list length with the size, never the header length field *)
Lemma T_cert_strict : forall bs cs, T_cert_dec bs = Ok cs -> bytes_ok bs -> outer_ok ST bs = true ->
  strict ST mCERT bs = true.
Proof.
  intros bs cs H Hok Ho. unfold strict. rewrite Ho. cbn [andb].
  apply outer_ok_T_inv in Ho as (x & body & -> & Hl & Hx & Hb); auto.
  apply T_cert_body in H as (-> & Hc); auto. rewrite body_of_T. cbn [strict_body]. unfold strict_cert.
  rewrite exact3_vec24 by auto. apply all_vecs3_certs; auto.
Qed.
Lemma T_cert_total : forall bs s, T_cert_dec bs <> Panic s.
Proof.
  intros bs s. unfold T_cert_dec. destruct (len bs <? 7) eqn:E; try discriminate. apply N.ltb_ge in E.
  apply cert_dec_at_total. lia.
Qed.

(* ---------- DTLCP ---------- *)
Lemma D_cert_decode_encode : forall h cs, wf_dh h -> wf_certs cs ->
  D_cert_dec (D_cert_enc (h, cs)) = Ok (mkDH (dh_seq h) 0 (len (vec24 (certs_enc cs))), cs).
Proof.
  intros h cs (Hs & Ho & Hf) Hwf. unfold D_cert_dec, D_cert_enc. cbn [fst snd].
  rewrite d_msg_wf by auto. destruct Hwf as [Hwf1 Hwf2].
  replace (len _ <? 15) with false by (symmetry; apply N.ltb_ge; rewrite len_app, len_d_hdr; lens).
  rewrite d_fields_hdr by (auto; lens). cbn [rbind].
  rewrite cert_dec_at_enc; auto; try reflexivity; try lia. split; auto.
Qed.

Lemma D_cert_body : forall x seq off flen body cs st,
  cert_dec_at 12 st (d_hdr x (len body) seq off flen ++ body) = Ok cs -> bytes_ok body -> x < 256 ->
  len body < 16777216 -> 3 <= len body ->
  body = vec24 (certs_enc cs) /\ len (certs_enc cs) < 16777216.
Proof.
  intros x seq off flen body cs st H Hb Hx Hl H3.
  apply cert_dec_at_inv in H as (hdr & Hh & Hd & _ & Hc); try lia.
  - apply app_len_inj in Hd as [_ Hd]; [auto | rewrite Hh; reflexivity].
  - apply bytes_ok_app; split; auto. unfold d_hdr. apply bytes_ok_cons; split; auto.
    repeat (apply bytes_ok_app; split); auto using u24_ok, u16_ok.
  - rewrite len_app, len_d_hdr. lia.
  - rewrite len_app, len_d_hdr. lia.
Qed.

Lemma D_cert_encode_decode : forall bs h cs, D_cert_dec bs = Ok (h, cs) -> bytes_ok bs ->
  canonical SD mCERT bs = true -> D_cert_enc (h, cs) = bs.
Proof.
  unfold D_cert_dec; intros bs h cs H Hok Hc.
  apply canonical_framed in Hc as (Ht & Ho & Hf). specialize (Hf eq_refl).
  apply framed_D_inv in Ho as (x & seq & body & -> & Hl & Hx & Hs & Hb); auto.
  apply type_ok_dhdr in Ht as ->.
  destruct (len _ <? 15) eqn:E; try discriminate. apply N.ltb_ge in E. rewrite len_app, len_d_hdr in E.
  rewrite d_fields_hdr in H by (auto; lia). cbn [rbind] in H.
  destruct (cert_dec_at _ _ _) as [cs'| |] eqn:Ec; try discriminate. cbn [rbind] in H. inversion H; subst h cs'.
  apply D_cert_body in Ec as (Ebody & _); auto; try lia.
  unfold D_cert_enc. cbn [fst snd]. rewrite <- Ebody. apply d_msg_whole; reflexivity.
Qed.
Lemma D_cert_strict : forall bs m, D_cert_dec bs = Ok m -> bytes_ok bs -> outer_ok SD bs = true ->
  strict SD mCERT bs = true.
Proof.
  unfold D_cert_dec; intros bs [h cs] H Hok Ho. unfold strict. rewrite Ho. cbn [andb].
  destruct (len bs <? 15) eqn:E; try discriminate. apply N.ltb_ge in E.
  destruct (open12 bs) as (a0 & a1 & a2 & a3 & a4 & a5 & a6 & a7 & a8 & a9 & a10 & a11 & body & ->); [lia|].
  unfold outer_ok in Ho. cbn [hlen] in Ho. apply andb_prop in Ho as [_ Ho]. apply N.eqb_eq in Ho.
  rewrite !len_cons in Ho, E.
  repeat (apply bytes_ok_cons in Hok as [? Hok]).
  rewrite d_fields_open in H. cbn [rbind] in H.
  destruct (cert_dec_at _ _ _) as [cs'| |] eqn:Ec; try discriminate. cbn [rbind] in H. inversion H; subst cs'.
  change (a0 :: a1 :: a2 :: a3 :: a4 :: a5 :: a6 :: a7 :: a8 :: a9 :: a10 :: a11 :: body)
    with ([a0; a1; a2; a3; a4; a5; a6; a7; a8; a9; a10; a11] ++ body) in Ec.
  rewrite <- d_hdr_fields_eq in Ec by auto.
  assert (Eb : be24 a1 a2 a3 = len body) by lia. rewrite Eb in Ec.
  assert (Hlb : len body < 16777216) by (rewrite <- Eb; apply be24_lt; auto).
  apply D_cert_body in Ec as (Ebody & Hc); auto; try lia.
  change (body_of SD _) with body. cbn [strict_body]. unfold strict_cert. rewrite Ebody.
  rewrite exact3_vec24 by auto. apply all_vecs3_certs; auto.
Qed.
Lemma D_cert_total : forall bs s, D_cert_dec bs <> Panic s.
Proof.
  intros bs s. unfold D_cert_dec. destruct (len bs <? 15) eqn:E; try discriminate. apply N.ltb_ge in E.
  destruct (d_fields bs 260) as [h| |st] eqn:Ef.
  - cbn [rbind]. destruct (cert_dec_at 12 280 bs) as [cs| |st] eqn:Ec; cbn [rbind]; try discriminate.
    exfalso. eapply cert_dec_at_total; [|exact Ec]. lia.
  - discriminate.
  - exfalso. eapply d_fields_total; [|exact Ef]. lia.
Qed.

(* ================= certificateRequest (both stacks: creq_dec_at) ================= *)
Lemma cas_enc_cons : forall c cs, cas_enc (c :: cs) = vec16 c ++ cas_enc cs.
Proof. reflexivity. Qed.

Lemma cas_loop_enc : forall s cas fuel,
  Forall (fun c => len c < 65536) cas -> (length (cas_enc cas) < fuel)%nat ->
  cas_loop s fuel (cas_enc cas) = Ok cas.
Proof.
  induction cas as [|c cas IH]; intros fuel Hwf Hf.
  - destruct fuel; reflexivity.
  - inversion Hwf as [|? ? Hc Hcs]; subst. rewrite cas_enc_cons in *.
    assert (Ed : vec16 c ++ cas_enc cas = (len c / 256) mod 256 :: len c mod 256 :: (c ++ cas_enc cas)).
    { unfold vec16, u16. rewrite <- app_assoc. reflexivity. }
    rewrite Ed in *. destruct fuel as [|k]; [cbn in Hf; lia|].
    cbn [cas_loop].
    replace (len _ <? 2) with false by (symmetry; apply N.ltb_ge; lens).
    rewrite !idx_nth by lens. cbn [rbind]. simpl nth. rewrite be16_u16 by auto.
    rewrite from_ok by lens. cbn [rbind]. change (N.to_nat 2) with 2%nat. cbn [skipn].
    replace (len (c ++ cas_enc cas) <? len c) with false by (symmetry; apply N.ltb_ge; lens).
    rewrite sub_ok by lens. cbn [rbind]. rewrite N.sub_0_r. change (N.to_nat 0) with 0%nat. cbn [skipn].
    rewrite firstn_app_exact. rewrite from_ok by lens. cbn [rbind]. rewrite skipn_app_exact.
    rewrite IH; auto. cbn [length] in Hf. rewrite app_length in Hf. lia.
Qed.

Lemma cas_loop_inv : forall s fuel d l, cas_loop s fuel d = Ok l -> bytes_ok d ->
  cas_enc l = d /\ Forall (fun c => bytes_ok c /\ len c < 65536) l.
Proof.
  induction fuel as [|k IH]; intros d l H Hok.
  - destruct d; cbn in H; try discriminate. inversion H; subst. split; auto.
  - destruct d as [|z zs] eqn:Ed. { cbn in H. inversion H; subst. split; auto. }
    rewrite <- Ed in *. cbn [cas_loop] in H. rewrite Ed in H at 1.
    destruct (len d <? 2) eqn:E2; try discriminate. apply N.ltb_ge in E2.
    clear Ed z zs. destruct (open2 d E2) as (c0 & c1 & r & ->).
    rewrite !idx_nth in H by lens. cbn [rbind] in H. simpl nth in H.
    rewrite from_ok in H by lens. cbn [rbind] in H. change (N.to_nat 2) with 2%nat in H. cbn [skipn] in H.
    destruct (len r <? be16 c0 c1) eqn:E3; try discriminate. apply N.ltb_ge in E3.
    rewrite sub_ok in H by lia. cbn [rbind] in H. rewrite N.sub_0_r in H. change (N.to_nat 0) with 0%nat in H. cbn [skipn] in H.
    rewrite from_ok in H by lia. cbn [rbind] in H.
    destruct (cas_loop s k (skipn (N.to_nat (be16 c0 c1)) r)) as [l'| |] eqn:El; try discriminate.
    cbn [rbind] in H. inversion H; subst l.
    apply bytes_ok_cons in Hok as [H0 Hok]. apply bytes_ok_cons in Hok as [H1 Hok].
    apply IH in El as (Henc & Hall); [|apply bytes_ok_skipn; auto].
    split.
    + rewrite cas_enc_cons, Henc. unfold vec16. rewrite len_firstn by auto. rewrite u16_be16 by auto.
      cbn [app]. rewrite firstn_skipn. reflexivity.
    + constructor; auto. split; [apply bytes_ok_firstn; auto|]. rewrite len_firstn by auto. apply be16_lt; auto.
Qed.

Lemma cas_loop_total : forall s fuel d st, (length d < fuel)%nat -> cas_loop s fuel d <> Panic st.
Proof.
  induction fuel as [|k IH]; intros d st Hf; [lia|].
  destruct d as [|z zs] eqn:Ed; [cbn; discriminate|]. rewrite <- Ed in *. cbn [cas_loop]. rewrite Ed at 1.
  destruct (len d <? 2) eqn:E2; try discriminate. apply N.ltb_ge in E2.
  clear Ed z zs. destruct (open2 d E2) as (c0 & c1 & r & ->).
  rewrite !idx_nth by lens. cbn [rbind]. simpl nth.
  rewrite from_ok by lens. cbn [rbind]. change (N.to_nat 2) with 2%nat. cbn [skipn].
  destruct (len r <? be16 c0 c1) eqn:E3; try discriminate. apply N.ltb_ge in E3.
  rewrite sub_ok by lia. cbn [rbind]. rewrite from_ok by lia. cbn [rbind].
  destruct (cas_loop s k _) as [l'| |st'] eqn:El; cbn [rbind]; try discriminate.
  exfalso. eapply IH; [|exact El]. rewrite skipn_length. cbn [length] in Hf. lia.
Qed.

Lemma creq_dec_at_enc : forall hdr h s types cas, len hdr = h -> wf_creq (types, cas) ->
  creq_dec_at h s (hdr ++ creq_body_enc types cas) = Ok (types, cas).
Proof.
  intros hdr h s types cas Hh (Hot & Hlt & Hcas & Hlc). cbn [fst snd] in *. subst h.
  unfold creq_dec_at, creq_body_enc.
  rewrite <- (N.add_0_r (len hdr)) at 1. rewrite idx_app_r, from_app_r.
  unfold u8 at 1 2. cbn [app]. rewrite idx_nth by lens. cbn [rbind]. simpl nth.
  rewrite N.mod_small by lia.
  rewrite from_ok by lens. cbn [rbind]. change (N.to_nat 1) with 1%nat. cbn [skipn].
  replace (len types =? 0) with false by (symmetry; apply N.eqb_neq; lia).
  replace (len (types ++ vec16 (cas_enc cas)) <=? len types) with false by (symmetry; apply N.leb_gt; lens).
  cbn [orb]. rewrite firstn_app_exact, N.eqb_refl. cbn [negb].
  rewrite from_app by reflexivity. cbn [rbind].
  replace (len (vec16 (cas_enc cas)) <? 2) with false by (symmetry; apply N.ltb_ge; lens).
  assert (Ed : vec16 (cas_enc cas) = (len (cas_enc cas) / 256) mod 256 :: len (cas_enc cas) mod 256 :: cas_enc cas)
    by reflexivity.
  rewrite Ed. rewrite !idx_nth by lens. cbn [rbind]. simpl nth. rewrite be16_u16 by auto.
  rewrite from_ok by lens. cbn [rbind]. change (N.to_nat 2) with 2%nat. cbn [skipn].
  rewrite N.ltb_irrefl. rewrite from_ok by lia. cbn [rbind].
  replace (N.to_nat (len (cas_enc cas))) with (length (cas_enc cas)) by (unfold len; lia).
  rewrite firstn_all, skipn_all.
  rewrite cas_loop_enc; [reflexivity| |lia].
  eapply Forall_impl; [|exact Hcas]. cbn. intros c [_ Hc]; exact Hc.
Qed.

Lemma creq_dec_at_inv : forall h s data types cas, creq_dec_at h s data = Ok (types, cas) -> bytes_ok data ->
  h + 1 <= len data ->
  exists hdr, len hdr = h /\ data = hdr ++ creq_body_enc types cas /\
              1 <= len types < 256 /\ len (cas_enc cas) < 65536.
Proof.
  unfold creq_dec_at; intros h s data types cas H Hok Hh.
  set (hdr := firstn (N.to_nat h) data). set (rest := skipn (N.to_nat h) data).
  assert (Hd : data = hdr ++ rest) by (symmetry; apply firstn_skipn).
  assert (Hlh : len hdr = h) by (apply len_firstn; lia).
  assert (Hr : 1 <= len rest) by (unfold rest; rewrite len_skipn; lia).
  destruct rest as [|n d] eqn:Er; [rewrite len_nil in Hr; lia|].
  rewrite Hd in Hok. apply bytes_ok_app in Hok as [Hoh Hor]. apply bytes_ok_cons in Hor as [Hn Hod].
  rewrite Hd in H. rewrite <- Hlh in H. rewrite <- (N.add_0_r (len hdr)) in H at 1.
  rewrite idx_app_r, from_app_r in H. rewrite idx_nth in H by lens. cbn [rbind] in H. simpl nth in H.
  rewrite (from_app [n] d) in H by reflexivity. cbn [rbind] in H.
  destruct ((n =? 0) || (len d <=? n)) eqn:E1; try discriminate.
  apply orb_false_elim in E1 as [E1a E1b]. apply N.eqb_neq in E1a. apply N.leb_gt in E1b.
  destruct (len (firstn (N.to_nat n) d) =? n) eqn:E2; try discriminate. cbn [negb] in H.
  rewrite from_ok in H by lia. cbn [rbind] in H.
  set (d2 := skipn (N.to_nat n) d) in *.
  destruct (len d2 <? 2) eqn:E3; try discriminate. apply N.ltb_ge in E3.
  assert (Hod2 : bytes_ok d2) by (apply bytes_ok_skipn; auto).
  destruct (open2 d2 E3) as (x0 & x1 & d3 & Ed2). rewrite Ed2 in *.
  apply bytes_ok_cons in Hod2 as [Hx0 Hod3]. apply bytes_ok_cons in Hod3 as [Hx1 Hod3].
  rewrite !idx_nth in H by lens. cbn [rbind] in H. simpl nth in H.
  rewrite from_ok in H by lens. cbn [rbind] in H. change (N.to_nat 2) with 2%nat in H. cbn [skipn] in H.
  destruct (len d3 <? be16 x0 x1) eqn:E4; try discriminate. apply N.ltb_ge in E4.
  rewrite from_ok in H by lia. cbn [rbind] in H.
  destruct (cas_loop s _ _) as [l| |] eqn:El; try discriminate. cbn [rbind] in H.
  destruct (empty (skipn (N.to_nat (be16 x0 x1)) d3)) eqn:E5; try discriminate.
  inversion H; subst types l. apply empty_true in E5.
  apply cas_loop_inv in El as (Henc & Hall); [|apply bytes_ok_firstn; auto].
  assert (Ed3 : d3 = cas_enc cas).
  { rewrite <- (firstn_skipn (N.to_nat (be16 x0 x1)) d3), E5, app_nil_r. auto. }
  exists hdr. split; auto.
  assert (Hlt : len (firstn (N.to_nat n) d) = n) by (apply len_firstn; lia).
  split; [|split; [lia|]].
  - assert (Hl3 : len d3 = be16 x0 x1).
    { assert (Hz : len (skipn (N.to_nat (be16 x0 x1)) d3) = 0) by (rewrite E5; reflexivity).
      rewrite len_skipn in Hz. lia. }
    transitivity (hdr ++ n :: d); [exact Hd|]. f_equal.
    unfold creq_body_enc. rewrite Hlt. unfold u8. rewrite N.mod_small by auto. cbn [app]. f_equal.
    transitivity (firstn (N.to_nat n) d ++ d2); [symmetry; apply firstn_skipn|]. f_equal.
    rewrite Ed2. unfold vec16. rewrite <- Ed3. rewrite Hl3, u16_be16 by auto. reflexivity.
  - rewrite <- Ed3. assert (Hz : len (skipn (N.to_nat (be16 x0 x1)) d3) = 0) by (rewrite E5; reflexivity).
    rewrite len_skipn in Hz. pose proof (be16_lt x0 x1 Hx0 Hx1). lia.
Qed.

Lemma creq_dec_at_total : forall h s data st, h + 1 <= len data -> creq_dec_at h s data <> Panic st.
Proof.
  unfold creq_dec_at; intros h s data st Hh.
  rewrite idx_nth by lia. cbn [rbind]. rewrite from_ok by lia. cbn [rbind].
  set (n := nth (N.to_nat h) data 0). set (d := skipn (N.to_nat (h + 1)) data).
  destruct ((n =? 0) || (len d <=? n)) eqn:E1; try discriminate.
  apply orb_false_elim in E1 as [E1a E1b]. apply N.leb_gt in E1b.
  destruct (negb _); try discriminate.
  rewrite from_ok by lia. cbn [rbind].
  set (d2 := skipn (N.to_nat n) d).
  destruct (len d2 <? 2) eqn:E3; try discriminate. apply N.ltb_ge in E3.
  rewrite !idx_nth by lia. cbn [rbind]. rewrite from_ok by lia. cbn [rbind].
  set (cl := be16 _ _). set (d3 := skipn (N.to_nat 2) d2).
  destruct (len d3 <? cl) eqn:E4; try discriminate. apply N.ltb_ge in E4.
  rewrite from_ok by lia. cbn [rbind].
  destruct (cas_loop s _ _) as [l| |st'] eqn:El; cbn [rbind]; try discriminate.
  - destruct (empty _); discriminate.
  - exfalso. eapply cas_loop_total; [|exact El]. lia.
Qed.

Lemma exact2_vec16_p : forall p v, len v < 65536 -> exact 2 p (vec16 v) = p v.
Proof.
  intros. unfold exact. rewrite cut2_vec16. rewrite <- (app_nil_r (vec16 v)), rd_vec16_enc by auto. reflexivity.
Qed.
Lemma all_vecs2_cas : forall cas fuel, Forall (fun c => len c < 65536) cas -> (length (cas_enc cas) <= fuel)%nat ->
  all_vecs fuel 2 anyb (cas_enc cas) = true.
Proof.
  induction cas as [|c cas IH]; intros fuel Hwf Hf.
  - destruct fuel; reflexivity.
  - inversion Hwf as [|? ? Hc Hcs]; subst. rewrite cas_enc_cons in *.
    destruct fuel as [|k]. { rewrite app_length in Hf. unfold vec16, u16 in Hf. cbn [length app] in Hf. lia. }
    destruct (vec16 c ++ cas_enc cas) as [|z zs] eqn:Ez. { unfold vec16, u16 in Ez; cbn in Ez; discriminate. }
    rewrite <- Ez. cbn [all_vecs]. rewrite Ez at 1. rewrite cut2_vec16, rd_vec16_enc by lia. cbn [anyb andb].
    apply IH; auto. rewrite <- Ez, app_length in Hf. unfold vec16, u16 in Hf. cbn [length app] in Hf. lia.
Qed.
Lemma strict_creq_enc : forall types cas, 1 <= len types < 256 -> len (cas_enc cas) < 65536 ->
  Forall (fun c => len c < 65536) cas -> strict_creq (creq_body_enc types cas) = true.
Proof.
  intros. unfold strict_creq, creq_body_enc. rewrite cut1_vec8, app_assoc. fold (vec8 types).
  rewrite rd_vec8_enc by lia. rewrite exact2_vec16_p by auto. apply all_vecs2_cas; auto.
Qed.

Lemma len_creq_body : forall types cas, len (creq_body_enc types cas) = 3 + len types + len (cas_enc cas).
Proof. intros; unfold creq_body_enc; lens. Qed.
Lemma creq_body_ok : forall types cas, bytes_ok types -> Forall (fun c => bytes_ok c /\ len c < 65536) cas ->
  bytes_ok (creq_body_enc types cas).
Proof.
  intros types cas Ht Hc. unfold creq_body_enc. apply bytes_ok_app; split; [apply u8_ok|].
  apply bytes_ok_app; split; auto. apply vec16_ok.
  induction Hc as [|c cs [Hc _] _ IH]; [constructor|]. rewrite cas_enc_cons. apply bytes_ok_app; split; auto using vec16_ok.
Qed.

(* ---------- TLCP ---------- *)
Lemma T_creq_decode_encode : forall m, wf_creq m -> T_creq_dec (T_creq_enc m) = Ok m.
Proof.
  intros [types cas] Hwf. pose proof Hwf as (Hot & Hlt & Hcas & Hlc). cbn [fst snd] in *.
  unfold T_creq_dec, T_creq_enc, t_hdr. cbn [fst snd].
  set (body := creq_body_enc types cas).
  assert (Hlb : len body = 3 + len types + len (cas_enc cas)) by apply len_creq_body.
  unfold u24. cbn [app].
  replace (len (_ :: _ :: _ :: _ :: body) <? 5) with false by (symmetry; apply N.ltb_ge; lens).
  rewrite !idx_nth by lens. cbn [rbind]. simpl nth. rewrite be24_u24 by lia.
  replace (u32 _ =? len body) with true.
  2:{ symmetry. apply N.eqb_eq. rewrite !len_cons. rewrite (u32_small (1 + _)) by lia. unfold u32.
      replace (1 + (1 + (1 + (1 + len body))) + 4294967296 - 4) with (len body + 1 * 4294967296) by lia.
      rewrite N.mod_add by lia. apply N.mod_small. lia. }
  cbn [negb].
  change (tCertificateRequest :: ?a :: ?b :: ?c :: body) with ([tCertificateRequest; a; b; c] ++ body).
  apply creq_dec_at_enc; auto.
Qed.

Lemma T_creq_inv : forall bs types cas, T_creq_dec bs = Ok (types, cas) -> bytes_ok bs -> len bs < 4294967296 ->
  exists x, bs = t_hdr x (creq_body_enc types cas) /\ 1 <= len types < 256 /\ len (cas_enc cas) < 65536.
Proof.
  unfold T_creq_dec; intros bs types cas H Hok Hlt.
  destruct (len bs <? 5) eqn:E; try discriminate. apply N.ltb_ge in E.
  destruct (open4 bs) as (x & a & b & c & r & ->); [lia|].
  rewrite !idx_nth in H by lens. cbn [rbind] in H. simpl nth in H.
  destruct (u32 _ =? be24 a b c) eqn:E2; try discriminate. apply N.eqb_eq in E2. cbn [negb] in H.
  rewrite (u32_small (len _)) in E2 by auto. unfold u32 in E2. rewrite !len_cons in E2, E, Hlt.
  replace (1 + (1 + (1 + (1 + len r))) + 4294967296 - 4) with (len r + 1 * 4294967296) in E2 by lia.
  rewrite N.mod_add in E2 by lia. rewrite N.mod_small in E2 by lia.
  pose proof Hok as Hok'. repeat (apply bytes_ok_cons in Hok' as [? Hok']).
  apply creq_dec_at_inv in H as (hdr & Hh & Hd & Hb1 & Hb2); auto; [|lens].
  change (x :: a :: b :: c :: r) with ([x; a; b; c] ++ r) in Hd.
  apply app_len_inj in Hd as [_ Hd]; [|rewrite Hh; reflexivity].
  exists x. split; auto. unfold t_hdr. rewrite <- Hd, E2, u24_be24 by auto. reflexivity.
Qed.

Lemma T_creq_encode_decode : forall bs m, T_creq_dec bs = Ok m -> bytes_ok bs ->
  canonical ST mCREQ bs = true -> T_creq_enc m = bs.
Proof.
  intros bs [types cas] H Hok Hc. apply canonical_framed in Hc as (Ht & Ho & _).
  assert (Hlt : len bs < 4294967296).
  { apply outer_ok_T_inv in Ho as (x & body & -> & Hl & _); auto. unfold t_hdr, u24. lens. }
  apply T_creq_inv in H as (x & -> & _); auto.
  apply type_ok_hdr in Ht as ->. reflexivity.
Qed.
(* certificateRequest compares the length field with the size itself (uint32 arithmetic: below 4 GB) *)
Lemma T_creq_strict : forall bs m, T_creq_dec bs = Ok m -> bytes_ok bs -> len bs < 4294967296 ->
  strict ST mCREQ bs = true.
Proof.
  intros bs [types cas] H Hok Hlt. pose proof H as H'.
  apply T_creq_inv in H as (x & -> & Hb1 & Hb2); auto.
  unfold strict. rewrite outer_ok_T_enc by (rewrite len_creq_body; lia). rewrite body_of_T. cbn [andb strict_body].
  apply strict_creq_enc; auto.
  unfold T_creq_dec in H'. destruct (len _ <? 5); try discriminate.
  unfold t_hdr, u24 in H'. cbn [app] in H'. rewrite !idx_nth in H' by lens. cbn [rbind] in H'.
  destruct (negb _); try discriminate.
  unfold creq_dec_at in H'.
  (* the CA list comes out of cas_loop: every entry below 2^16 *)
  assert (Hcas : exists d, cas_enc cas = d /\ Forall (fun c => len c < 65536) cas).
  { exists (cas_enc cas). split; auto.
    assert (Hokb : bytes_ok (creq_body_enc types cas)).
    { unfold t_hdr in Hok. apply bytes_ok_cons in Hok as [_ Hok]. apply bytes_ok_app in Hok as [_ Hok]. exact Hok. }
    unfold creq_body_enc in Hokb. apply bytes_ok_app in Hokb as [_ Hokb]. apply bytes_ok_app in Hokb as [_ Hokb].
    unfold vec16 in Hokb. apply bytes_ok_app in Hokb as [_ Hokb].
    clear - Hokb Hb2. induction cas as [|c cas IH]; [constructor|].
    rewrite cas_enc_cons in *. autorewrite with lens in Hb2. apply bytes_ok_app in Hokb as [_ Hokb].
    constructor; [lia|]. apply IH; auto. lia. }
  destruct Hcas as (_ & _ & Hcas). exact Hcas.
Qed.
Lemma T_creq_total : forall bs s, T_creq_dec bs <> Panic s.
Proof.
  intros bs s. unfold T_creq_dec. destruct (len bs <? 5) eqn:E; try discriminate. apply N.ltb_ge in E.
  rewrite !idx_nth by lia. cbn [rbind]. destruct (negb _); try discriminate.
  apply creq_dec_at_total. lia.
Qed.

Lemma cas_small : forall cas, len (cas_enc cas) < 65536 -> Forall (fun c => len c < 65536) cas.
Proof.
  induction cas as [|c cas IH]; intros H; [constructor|].
  rewrite cas_enc_cons in H. autorewrite with lens in H. constructor; [lia|]. apply IH; lia.
Qed.

(* ---------- DTLCP ---------- *)
Lemma D_creq_decode_encode : forall h m, wf_dh h -> wf_creq m ->
  D_creq_dec (D_creq_enc (h, m)) = Ok (mkDH (dh_seq h) 0 (len (creq_body_enc (fst m) (snd m))), m).
Proof.
  intros h [types cas] (Hs & Ho & Hf) Hwf. pose proof Hwf as (Hot & Hlt & Hcas & Hlc). cbn [fst snd] in *.
  unfold D_creq_dec, D_creq_enc. cbn [fst snd].
  set (body := creq_body_enc types cas).
  assert (Hlb : len body = 3 + len types + len (cas_enc cas)) by apply len_creq_body.
  rewrite d_msg_wf by auto.
  replace (len _ <? 13) with false by (symmetry; apply N.ltb_ge; rewrite len_app, len_d_hdr; lia).
  rewrite d_fields_hdr by (auto; lia). cbn [rbind].
  assert (Ei : forall st, idx (d_hdr tCertificateRequest (len body) (dh_seq h) 0 (len body) ++ body) 1 st = Ok ((len body / 65536) mod 256)
            /\ idx (d_hdr tCertificateRequest (len body) (dh_seq h) 0 (len body) ++ body) 2 st = Ok ((len body / 256) mod 256)
            /\ idx (d_hdr tCertificateRequest (len body) (dh_seq h) 0 (len body) ++ body) 3 st = Ok (len body mod 256)).
  { intros st. rewrite d_hdr_app. unfold u24, u16. cbn [app]. rewrite !idx_nth by lens. simpl nth. auto. }
  destruct (Ei 301%nat) as (-> & _ & _). destruct (Ei 302%nat) as (_ & -> & _). destruct (Ei 303%nat) as (_ & _ & ->).
  cbn [rbind]. rewrite be24_u24 by lia.
  replace (u32 _ =? len body) with true.
  2:{ symmetry. apply N.eqb_eq. rewrite len_app, len_d_hdr. rewrite (u32_small (12 + _)) by lia. unfold u32.
      replace (12 + len body + 4294967296 - 12) with (len body + 1 * 4294967296) by lia.
      rewrite N.mod_add by lia. apply N.mod_small. lia. }
  cbn [negb]. unfold body. rewrite creq_dec_at_enc; auto.
Qed.

Lemma D_creq_inv : forall bs h types cas, D_creq_dec bs = Ok (h, (types, cas)) -> bytes_ok bs -> len bs < 4294967296 ->
  exists x, bs = d_hdr x (len (creq_body_enc types cas)) (dh_seq h) (dh_off h) (dh_flen h) ++ creq_body_enc types cas /\
    1 <= len types < 256 /\ len (cas_enc cas) < 65536 /\ dh_seq h < 65536 /\ dh_off h < 16777216 /\ dh_flen h < 16777216.
Proof.
  unfold D_creq_dec; intros bs h types cas H Hok Hlt.
  destruct (len bs <? 13) eqn:E; try discriminate. apply N.ltb_ge in E.
  destruct (open12 bs) as (a0 & a1 & a2 & a3 & a4 & a5 & a6 & a7 & a8 & a9 & a10 & a11 & r & ->); [lia|].
  rewrite d_fields_open in H. cbn [rbind] in H. rewrite !idx_nth in H by lens. cbn [rbind] in H. simpl nth in H.
  destruct (u32 _ =? be24 a1 a2 a3) eqn:E2; try discriminate. apply N.eqb_eq in E2. cbn [negb] in H.
  rewrite (u32_small (len _)) in E2 by auto. unfold u32 in E2. rewrite !len_cons in E2, E, Hlt.
  replace (1 + (1 + (1 + (1 + (1 + (1 + (1 + (1 + (1 + (1 + (1 + (1 + len r))))))))))) + 4294967296 - 12)
    with (len r + 1 * 4294967296) in E2 by lia.
  rewrite N.mod_add in E2 by lia. rewrite N.mod_small in E2 by lia.
  destruct (creq_dec_at _ _ _) as [m| |] eqn:Ec; try discriminate. cbn [rbind] in H. inversion H; subst h m.
  pose proof Hok as Hok'. repeat (apply bytes_ok_cons in Hok' as [? Hok']).
  apply creq_dec_at_inv in Ec as (hdr & Hh & Hd & Hb1 & Hb2); auto; [|lens].
  change (a0 :: a1 :: a2 :: a3 :: a4 :: a5 :: a6 :: a7 :: a8 :: a9 :: a10 :: a11 :: r)
    with ([a0; a1; a2; a3; a4; a5; a6; a7; a8; a9; a10; a11] ++ r) in Hd.
  apply app_len_inj in Hd as [_ Hd]; [|rewrite Hh; reflexivity].
  exists a0. cbn [dh_seq dh_off dh_flen]. rewrite <- Hd, E2. rewrite d_hdr_fields_eq by auto.
  repeat split; auto using be16_lt, be24_lt; lia.
Qed.

Lemma D_creq_encode_decode : forall bs h m, D_creq_dec bs = Ok (h, m) -> bytes_ok bs ->
  canonical SD mCREQ bs = true -> D_creq_enc (h, m) = bs.
Proof.
  intros bs h [types cas] H Hok Hc. apply canonical_framed in Hc as (Ht & Ho & Hf). specialize (Hf eq_refl).
  assert (Hlt : len bs < 4294967296).
  { apply framed_D_inv in Ho as (x & seq & body & -> & Hl & _); auto. rewrite len_app, len_d_hdr. lia. }
  apply D_creq_inv in H as (x & -> & Hb1 & Hb2 & Hs & Hoff & Hfl); auto.
  apply type_ok_dhdr in Ht as ->.
  apply frag_whole_inv in Hf as [Ho' Hf']; auto; [|rewrite len_creq_body; lia].
  unfold D_creq_enc. cbn [fst snd]. rewrite (d_msg_whole _ (dh_seq h)) by auto. rewrite Ho', Hf'. reflexivity.
Qed.
(* certificateRequest compares the length field with the size itself (uint32 arithmetic: below 4 GB) *)
Lemma D_creq_strict : forall bs m, D_creq_dec bs = Ok m -> bytes_ok bs -> len bs < 4294967296 ->
  strict SD mCREQ bs = true.
Proof.
  intros bs [h [types cas]] H Hok Hlt.
  apply D_creq_inv in H as (x & -> & Hb1 & Hb2 & _); auto.
  unfold strict. rewrite outer_ok_D_enc by (rewrite len_creq_body; lia). rewrite body_of_D. cbn [andb strict_body].
  apply strict_creq_enc; auto using cas_small.
Qed.
Lemma D_creq_total : forall bs s, D_creq_dec bs <> Panic s.
Proof.
  intros bs s. unfold D_creq_dec. destruct (len bs <? 13) eqn:E; try discriminate. apply N.ltb_ge in E.
  destruct (d_fields bs 300) as [h| |st] eqn:Ef.
  - cbn [rbind]. rewrite !idx_nth by lia. cbn [rbind]. destruct (negb _); try discriminate.
    destruct (creq_dec_at 12 320 bs) as [m| |st] eqn:Ec; cbn [rbind]; try discriminate.
    exfalso. eapply creq_dec_at_total; [|exact Ec]. lia.
  - discriminate.
  - exfalso. eapply d_fields_total; [|exact Ef]. lia.
Qed.
