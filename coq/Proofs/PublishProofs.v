From Coq Require Import List Bool.
From V Require Import Model.Publish.
Import ListNotations.

Definition pinv (s : pstate) : Prop :=
  (p_pub s = false -> publish_last (p_h s) = true /\ guarded (p_w s) = true) /\
  (p_pub s = true -> no_acc (p_h s) = true).

Lemma pinv_step : forall s s', pinv s -> pstep s s' -> pinv s'.
Proof.
  intros s s' [Hf Ht] St. destruct St as [h w b|h w b|h w b|h w|h w b|h w b]; unfold pinv; cbn [p_h p_w p_pub] in *.
  - (* handshake thread: access *)
    split; intro E.
    + destruct (Hf E) as [A B]. cbn [publish_last] in A. split; assumption.
    + specialize (Ht E). cbn in Ht. discriminate.
  - split; intro E.
    + destruct (Hf E) as [A B]. cbn [publish_last] in A. split; assumption.
    + specialize (Ht E). cbn in Ht. exact Ht.
  - (* publishing store *)
    split; intro E; [discriminate|].
    destruct b.
    + specialize (Ht eq_refl). cbn in Ht. exact Ht.
    + destruct (Hf eq_refl) as [A _]. cbn [publish_last] in A. exact A.
  - split; intro E; [discriminate|]. apply Ht; reflexivity.
  - (* other thread: access *)
    split; intro E.
    + destruct (Hf E) as [_ B]. cbn in B. discriminate.
    + apply Ht; exact E.
  - split; intro E.
    + destruct (Hf E) as [A B]. cbn [guarded] in B. split; assumption.
    + apply Ht; exact E.
Qed.

Theorem publish_then_observe_race_free : forall h0 w0 s,
  publish_last h0 = true -> guarded w0 = true ->
  preach (mkP h0 w0 false) s -> ~ prace s.
Proof.
  intros h0 w0 s Hp Hg R.
  assert (I : pinv s).
  { induction R as [|s s' R IH St].
    - split; cbn; intro E; [split; assumption|discriminate].
    - eapply pinv_step; eassumption. }
  intros [h [w [Eh Ew]]]. destruct I as [Hf Ht].
  destruct (p_pub s) eqn:E.
  - specialize (Ht eq_refl). rewrite Eh in Ht. cbn in Ht. discriminate.
  - destruct (Hf eq_refl) as [_ B]. rewrite Ew in B. cbn in B. discriminate.
Qed.

(* the premise is needed: a handshake thread that touches the field after publishing can meet
   the other thread there *)
Lemma publish_early_races : exists s, preach (mkP [HPub; HAcc] [WObs; WAcc] false) s /\ prace s.
Proof.
  exists (mkP [HAcc] [WAcc] true). split.
  - eapply PR_step; [eapply PR_step; [apply PR_refl|apply PH_pub]|apply PW_obs].
  - exists [], []. split; reflexivity.
Qed.
