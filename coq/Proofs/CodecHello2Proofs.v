(* ClientHello, second part: soundness of the canonical parser, strictness of what the decoder
   accepts, and the per-stack ClientHello theorems. *)
From V Require Import Model.Codec Model.CodecT Model.CodecD Model.CodecSpec Model.CodecAll
  Proofs.CodecBaseProofs Proofs.CodecProofs Proofs.CodecHelloProofs.
From Coq Require Import ZArith ZifyNat ZifyN ZifyBool.
#[local] Ltac Zify.zify_post_hook ::= Z.div_mod_to_equations.
Open Scope N_scope.

(* ================= canonical pieces ================= *)
Lemma canon_tas_inv : forall fuel s l, canon_tas fuel s = Some l -> bytes_ok s ->
  flat_map enc_ta l = s /\ Forall wf_ta l.
Proof.
  induction fuel as [|k IH]; intros s l H Hok.
  - destruct s; cbn in H; try discriminate. inversion H; subst. split; auto.
  - destruct s as [|t r]. { cbn in H. inversion H; subst. split; auto. }
    cbn [canon_tas] in H. apply bytes_ok_cons in Hok as [Ht Hr].
    destruct (t =? 0) eqn:E0.
    { apply N.eqb_eq in E0. subst t. destruct (canon_tas k r) as [l'|] eqn:El; try discriminate. inversion H; subst l.
      apply IH in El as (<- & Hall); auto. split; [reflexivity|]. constructor; auto.
      split; [constructor|]. left; auto. }
    destruct ((t =? 4) || (t =? 5)) eqn:E45.
    { destruct (take 32 r) as [[id r']|] eqn:Et; try discriminate.
      apply take_inv in Et as (-> & Hid). apply bytes_ok_app in Hr as [Hido Hr'].
      destruct (canon_tas k r') as [l'|] eqn:El; try discriminate. inversion H; subst l.
      apply IH in El as (<- & Hall); auto.
      apply orb_prop in E45. split.
      - cbn [flat_map]. unfold enc_ta at 1. cbn [ta_type ta_id]. rewrite E0.
        replace ((t =? 4) || (t =? 5)) with true by (symmetry; apply orb_true_intro; auto).
        unfold u8. rewrite N.mod_small by auto. reflexivity.
      - constructor; auto. split; auto. right; left. cbn [ta_type ta_id]. split; auto.
        destruct E45 as [E|E]; apply N.eqb_eq in E; auto. }
    destruct (t =? 2) eqn:E2; try discriminate.
    rewrite cut2_vec16 in H. destruct (rd_vec16 r) as [[id r']|] eqn:Ev; try discriminate.
    apply rd_vec16_inv in Ev as (-> & Hid & Hido & Hr'); auto.
    destruct (canon_tas k r') as [l'|] eqn:El; try discriminate. inversion H; subst l.
    apply IH in El as (<- & Hall); auto. apply N.eqb_eq in E2. subst t. split.
    + reflexivity.
    + constructor; auto. split; auto.
Qed.

Lemma canon_alpn_inv : forall fuel s l, canon_alpn fuel s = Some l -> bytes_ok s ->
  flat_map vec8 l = s /\ Forall (fun p => bytes_ok p /\ 1 <= len p < 256) l.
Proof.
  induction fuel as [|k IH]; intros s l H Hok.
  - destruct s; cbn in H; try discriminate. inversion H; subst. split; auto.
  - destruct s as [|z zs] eqn:Es. { cbn in H. inversion H; subst. split; auto. }
    rewrite <- Es in *. cbn [canon_alpn] in H. rewrite Es in H at 1. clear Es z zs.
    rewrite cut1_vec8 in H. destruct (rd_vec8 s) as [[p r]|] eqn:Ev; try discriminate.
    apply rd_vec8_inv in Ev as (-> & Hp & Hpo & Hr); auto.
    destruct (empty p) eqn:Ee; try discriminate. apply empty_false in Ee.
    destruct (canon_alpn k r) as [l'|] eqn:El; try discriminate. inversion H; subst l.
    apply IH in El as (<- & Hall); [|assumption]. split; [reflexivity|]. constructor; auto.
Qed.

Definition piece (c : bool) (t : N) (d : bytes) : bytes := if c then u16 t ++ vec16 d else [].

Lemma piece_sni : forall s o r v, opt_ext extServerName s = Some (o, r) -> bytes_ok s -> canon_sni o = Some v ->
  s = piece (nonnil v) extServerName (vec16 (u8 0 ++ vec16 v)) ++ r /\ bytes_ok r /\
  bytes_ok v /\ len v < 65531 /\ ends_with_dot v = false.
Proof.
  intros s o r v X Hok Hc.
  assert (T : extServerName < 65536) by (unfold extServerName; lia).
  destruct (opt_ext_inv _ _ _ _ X Hok T) as [[-> ->]|(d & -> & -> & Hd & Hdo & Hro)].
  - inversion Hc; subst v. repeat split; auto using bytes_ok_nil; cbn; try lia.
  - unfold canon_sni in Hc. rewrite cut2_vec16 in Hc.
    destruct (rd_vec16 d) as [[nl rest]|] eqn:E1; try discriminate.
    destruct nl as [|[|?] e]; try discriminate. destruct rest; try discriminate.
    apply rd_vec16_inv in E1 as (-> & Hnl & Hnlo & _); auto.
    apply bytes_ok_cons in Hnlo as [_ Heo].
    rewrite cut2_vec16 in Hc. destruct (rd_vec16 e) as [[name [|? ?]]|] eqn:E2; try discriminate.
    apply rd_vec16_inv in E2 as (-> & Hn & Hno & _); auto.
    destruct (empty name || ends_with_dot name) eqn:E3; try discriminate. inversion Hc; subst v.
    apply orb_false_elim in E3 as [E3a E3b]. rewrite !app_nil_r in *.
    replace (nonnil name) with true by (destruct name; [discriminate | reflexivity]).
    unfold piece. rewrite <- app_assoc. repeat split; auto.
    rewrite len_vec16, len_cons, len_vec16 in Hd. lia.
Qed.

Lemma piece_tca : forall s o r v, opt_ext extTrustedCAKeys s = Some (o, r) -> bytes_ok s -> canon_tca o = Some v ->
  s = piece (nonnil v) extTrustedCAKeys (vec16 (flat_map enc_ta v)) ++ r /\ bytes_ok r /\
  Forall wf_ta v /\ len (flat_map enc_ta v) < 65534.
Proof.
  intros s o r v X Hok Hc.
  assert (T : extTrustedCAKeys < 65536) by (unfold extTrustedCAKeys; lia).
  destruct (opt_ext_inv _ _ _ _ X Hok T) as [[-> ->]|(d & -> & -> & Hd & Hdo & Hro)].
  - inversion Hc; subst v. repeat split; auto using bytes_ok_nil; cbn; try lia.
  - unfold canon_tca in Hc. rewrite cut2_vec16 in Hc.
    destruct (rd_vec16 d) as [[tl [|? ?]]|] eqn:E1; try discriminate.
    apply rd_vec16_inv in E1 as (-> & Htl & Htlo & _); auto.
    destruct (empty tl) eqn:Ee; try discriminate.
    apply canon_tas_inv in Hc as (Henc & Hall); auto. rewrite app_nil_r in *.
    assert (Hnn : nonnil v = true).
    { destruct v; [|reflexivity]. cbn in Henc. subst tl. discriminate. }
    rewrite Hnn. unfold piece. rewrite Henc, <- app_assoc. repeat split; auto.
    rewrite len_vec16 in Hd. lia.
Qed.

Lemma piece_status : forall s o r v, opt_ext extStatusRequest s = Some (o, r) -> bytes_ok s -> canon_status o = Some v ->
  s = piece v extStatusRequest (u8 1 ++ u16 0 ++ u16 0) ++ r /\ bytes_ok r.
Proof.
  intros s o r v X Hok Hc.
  assert (T : extStatusRequest < 65536) by (unfold extStatusRequest; lia).
  destruct (opt_ext_inv _ _ _ _ X Hok T) as [[-> ->]|(d & -> & -> & Hd & Hdo & Hro)].
  - inversion Hc; subst v. split; auto.
  - unfold canon_status in Hc.
    destruct d as [|[|[| |]] [|[|?] [|[|?] [|[|?] [|[|?] [|? ?]]]]]]; try discriminate.
    inversion Hc; subst v. unfold piece. rewrite <- app_assoc. split; auto.
Qed.

Lemma piece_groups : forall t s o r v, t < 65536 -> opt_ext t s = Some (o, r) -> bytes_ok s ->
  canon_groups o = Some v ->
  s = piece (nonnil v) t (vec16 (u16s v)) ++ r /\ bytes_ok r /\
  Forall (fun x => x < 65536) v /\ 2 * len v < 65534.
Proof.
  intros t s o r v T X Hok Hc.
  destruct (opt_ext_inv _ _ _ _ X Hok T) as [[-> ->]|(d & -> & -> & Hd & Hdo & Hro)].
  - inversion Hc; subst v. repeat split; auto using bytes_ok_nil; cbn; try lia.
  - unfold canon_groups, canon_u16s in Hc. rewrite cut2_vec16 in Hc.
    destruct (rd_vec16 d) as [[cs [|? ?]]|] eqn:E1; try discriminate.
    apply rd_vec16_inv in E1 as (-> & Hcs & Hcso & _); auto.
    destruct (rd_u16s cs) as [l|] eqn:E2; try discriminate.
    apply (rd_u16s_inv (length cs)) in E2 as (<- & Hall & Hlen); auto.
    rewrite app_nil_r in *.
    assert (Hv : l = v /\ l <> []).
    { destruct l as [|x l']; try discriminate.
      inversion Hc; subst. split; auto; discriminate. }
    destruct Hv as (-> & Hne).
    replace (nonnil v) with true by (destruct v; [congruence | reflexivity]).
    unfold piece. rewrite <- app_assoc. repeat split; auto.
    rewrite len_vec16, len_u16s in Hd. lia.
Qed.

Lemma piece_alpn : forall s o r v, opt_ext extALPN s = Some (o, r) -> bytes_ok s -> canon_alpns o = Some v ->
  s = piece (nonnil v) extALPN (vec16 (flat_map vec8 v)) ++ r /\ bytes_ok r /\
  Forall (fun p => bytes_ok p /\ 1 <= len p < 256) v /\ len (flat_map vec8 v) < 65534.
Proof.
  intros s o r v X Hok Hc.
  assert (T : extALPN < 65536) by (unfold extALPN; lia).
  destruct (opt_ext_inv _ _ _ _ X Hok T) as [[-> ->]|(d & -> & -> & Hd & Hdo & Hro)].
  - inversion Hc; subst v. repeat split; auto using bytes_ok_nil; cbn; try lia.
  - unfold canon_alpns in Hc. rewrite cut2_vec16 in Hc.
    destruct (rd_vec16 d) as [[pl [|? ?]]|] eqn:E1; try discriminate.
    apply rd_vec16_inv in E1 as (-> & Hpl & Hplo & _); auto.
    destruct (empty pl) eqn:Ee; try discriminate.
    apply canon_alpn_inv in Hc as (Henc & Hall); auto. rewrite app_nil_r in *.
    assert (Hnn : nonnil v = true).
    { destruct v; [|reflexivity]. cbn in Henc. subst pl. discriminate. }
    rewrite Hnn. unfold piece. rewrite Henc, <- app_assoc. repeat split; auto.
    rewrite len_vec16 in Hd. lia.
Qed.

Lemma piece_cid : forall s o r v, opt_ext extClientID s = Some (o, r) -> bytes_ok s -> canon_cid o = Some v ->
  s = piece (nonnil v) extClientID (vec16 v) ++ r /\ bytes_ok r /\ bytes_ok v /\ len v < 65534.
Proof.
  intros s o r v X Hok Hc.
  assert (T : extClientID < 65536) by (unfold extClientID; lia).
  destruct (opt_ext_inv _ _ _ _ X Hok T) as [[-> ->]|(d & -> & -> & Hd & Hdo & Hro)].
  - inversion Hc; subst v. repeat split; auto using bytes_ok_nil; cbn; try lia.
  - unfold canon_cid in Hc. rewrite cut2_vec16 in Hc.
    destruct (rd_vec16 d) as [[id [|? ?]]|] eqn:E1; try discriminate.
    apply rd_vec16_inv in E1 as (-> & Hid & Hido & _); auto.
    destruct (empty id) eqn:Ee; try discriminate. inversion Hc; subst v. rewrite app_nil_r in *.
    replace (nonnil id) with true by (destruct id; [discriminate | reflexivity]).
    unfold piece. rewrite <- app_assoc. repeat split; auto.
    rewrite len_vec16 in Hd. lia.
Qed.

Lemma ch_exts_enc_pieces : forall m,
  ch_exts_enc m =
  piece (nonnil (ch_sni m)) extServerName (vec16 (u8 0 ++ vec16 (ch_sni m))) ++
  piece (nonnil (ch_tas m)) extTrustedCAKeys (vec16 (flat_map enc_ta (ch_tas m))) ++
  piece (ch_ocsp m) extStatusRequest (u8 1 ++ u16 0 ++ u16 0) ++
  piece (nonnil (ch_curves m)) extSupportedGroups (vec16 (u16s (ch_curves m))) ++
  piece (nonnil (ch_sigalgs m)) extSignatureAlgorithms (vec16 (u16s (ch_sigalgs m))) ++
  piece (nonnil (ch_alpn m)) extALPN (vec16 (flat_map vec8 (ch_alpn m))) ++
  piece (nonnil (ch_cid m)) extClientID (vec16 (ch_cid m)).
Proof.
  intros. unfold ch_exts_enc, piece. rewrite !match_nonnil, !nonnil_nonempty. reflexivity.
Qed.

(* the canonical parser accepts only what marshal produces *)
Lemma canon_ch_sound : forall cookie body m, canon_ch_body cookie body = Some m -> bytes_ok body ->
  ch_body_enc cookie m = body /\ wf_ch cookie m.
Proof.
  unfold canon_ch_body; intros cookie body m H Hok.
  destruct (rd_u16 body) as [[vers s0]|] eqn:E0; try discriminate.
  apply rd_u16_inv in E0 as (-> & Hv & Hok0); auto.
  destruct (take 32 s0) as [[random s1]|] eqn:E1; try discriminate.
  apply take_inv in E1 as (-> & Hrl). apply bytes_ok_app in Hok0 as [Hro Hok1].
  rewrite cut1_vec8 in H.
  destruct (rd_vec8 s1) as [[sid s2]|] eqn:E2; try discriminate.
  apply rd_vec8_inv in E2 as (-> & Hsl & Hso & Hok2); auto.
  assert (Eck : exists ck s3, (if cookie then cut 1 s2 else Some ([], s2)) = Some (ck, s3) /\
                s2 = (if cookie then vec8 ck else []) ++ s3 /\ len ck < 256 /\ bytes_ok ck /\ bytes_ok s3 /\
                (cookie = false -> ck = [])).
  { destruct cookie.
    - rewrite cut1_vec8 in *. destruct (rd_vec8 s2) as [[ck s3]|] eqn:E; try discriminate.
      apply rd_vec8_inv in E as (-> & ? & ? & ?); auto. exists ck, s3. repeat split; auto; try discriminate.
    - exists [], s2. repeat split; auto using bytes_ok_nil; cbn; try lia. }
  destruct Eck as (ck & s3 & Eck & -> & Hckl & Hcko & Hok3 & Hckf). rewrite Eck in H. clear Eck.
  rewrite cut2_vec16 in H.
  destruct (rd_vec16 s3) as [[cs s4]|] eqn:E4; try discriminate.
  apply rd_vec16_inv in E4 as (-> & Hcsl & Hcso & Hok4); auto.
  destruct (rd_u16s cs) as [suites|] eqn:E5; try discriminate.
  apply (rd_u16s_inv (length cs)) in E5 as (<- & Hsu & Hsul); auto.
  rewrite cut1_vec8 in H.
  destruct (rd_vec8 s4) as [[comp s5]|] eqn:E6; try discriminate.
  apply rd_vec8_inv in E6 as (-> & Hcol & Hcoo & Hok5); auto.
  rewrite len_u16s in Hcsl.
  destruct (empty s5) eqn:Ee.
  { apply empty_true in Ee as ->. inversion H; subst m. split.
    - unfold ch_body_enc. cbn. reflexivity.
    - unfold wf_ch, wf_blob; cbn -[N.mul]. repeat split; auto using bytes_ok_nil; try lia. }
  rewrite cut2_vec16 in H.
  destruct (rd_vec16 s5) as [[blk s6]|] eqn:E7; try discriminate.
  apply rd_vec16_inv in E7 as (-> & Hbl & Hbo & _); auto.
  destruct (negb (empty s6) || empty blk) eqn:E8; try discriminate.
  apply orb_false_elim in E8 as [E8a E8b]. apply negb_false_iff in E8a. apply empty_true in E8a as ->.
  destruct (opt_ext extServerName blk) as [[o0 b1]|] eqn:X0; try discriminate.
  destruct (opt_ext extTrustedCAKeys b1) as [[o3 b2]|] eqn:X3; try discriminate.
  destruct (opt_ext extStatusRequest b2) as [[o5 b3]|] eqn:X5; try discriminate.
  destruct (opt_ext extSupportedGroups b3) as [[o10 b4]|] eqn:X10; try discriminate.
  destruct (opt_ext extSignatureAlgorithms b4) as [[o13 b5]|] eqn:X13; try discriminate.
  destruct (opt_ext extALPN b5) as [[o16 b6]|] eqn:X16; try discriminate.
  destruct (opt_ext extClientID b6) as [[o66 b7]|] eqn:X66; try discriminate.
  destruct (negb (empty b7)) eqn:E9; try discriminate.
  apply negb_false_iff in E9. apply empty_true in E9 as ->.
  destruct (canon_sni o0) as [sni|] eqn:C0; try discriminate.
  destruct (canon_tca o3) as [tas|] eqn:C3; try discriminate.
  destruct (canon_status o5) as [ocsp|] eqn:C5; try discriminate.
  destruct (canon_groups o10) as [curves|] eqn:C10; try discriminate.
  destruct (canon_groups o13) as [sigalgs|] eqn:C13; try discriminate.
  destruct (canon_alpns o16) as [alpn|] eqn:C16; try discriminate.
  destruct (canon_cid o66) as [cid|] eqn:C66; try discriminate.
  inversion H; subst m. clear H.
  destruct (piece_sni _ _ _ _ X0 Hbo C0) as (P0 & Hb1 & Hsno & Hsnl & Hdot).
  destruct (piece_tca _ _ _ _ X3 Hb1 C3) as (P3 & Hb2 & Htas & Ltas).
  destruct (piece_status _ _ _ _ X5 Hb2 C5) as (P5 & Hb3).
  assert (T10 : extSupportedGroups < 65536) by (unfold extSupportedGroups; lia).
  destruct (piece_groups _ _ _ _ _ T10 X10 Hb3 C10) as (P10 & Hb4 & Hcu & Lcu).
  assert (T13 : extSignatureAlgorithms < 65536) by (unfold extSignatureAlgorithms; lia).
  destruct (piece_groups _ _ _ _ _ T13 X13 Hb4 C13) as (P13 & Hb5 & Hsa & Lsa).
  destruct (piece_alpn _ _ _ _ X16 Hb5 C16) as (P16 & Hb6 & Hal & Lal).
  destruct (piece_cid _ _ _ _ X66 Hb6 C66) as (P66 & _ & Hcio & Hcil).
  assert (Eexts : ch_exts_enc (mkCH vers random sid ck suites comp sni tas ocsp curves sigalgs alpn cid) = blk).
  { rewrite ch_exts_enc_pieces. cbn [ch_sni ch_tas ch_ocsp ch_curves ch_sigalgs ch_alpn ch_cid].
    rewrite P0, P3, P5, P10, P13, P16, P66, app_nil_r. reflexivity. }
  split.
  - unfold ch_body_enc. cbn [ch_vers ch_random ch_sid ch_cookie ch_suites ch_comp]. rewrite Eexts, E8b.
    rewrite app_nil_r. reflexivity.
  - unfold wf_ch, wf_blob. cbn [ch_vers ch_random ch_sid ch_cookie ch_suites ch_comp ch_sni ch_tas ch_ocsp ch_curves ch_sigalgs ch_alpn ch_cid].
    rewrite Eexts. repeat split; auto; lia.
Qed.

(* ================= strictness of what the ClientHello decoder accepts ================= *)
Lemma sni_loop_strict : forall fuel s cur r, sni_loop fuel s cur = Some r -> bytes_ok s ->
  forall f', (length s <= f')%nat -> strict_names f' s = true.
Proof.
  induction fuel as [|k IH]; intros s cur r H Hok f' Hf.
  - destruct s; [destruct f'; reflexivity | cbn in H; discriminate].
  - destruct s as [|nt s1]; [destruct f'; reflexivity|].
    cbn [sni_loop rd_u8] in H. apply bytes_ok_cons in Hok as [_ Hok1].
    destruct (rd_vec16 s1) as [[name s2]|] eqn:E; try discriminate.
    pose proof E as E'. apply rd_vec16_inv in E' as (-> & _ & _ & Hok2); auto.
    destruct f' as [|f'']; [cbn in Hf; lia|]. cbn [strict_names]. rewrite cut2_vec16, E.
    assert (Hf2 : (length s2 <= f'')%nat).
    { cbn [length] in Hf. rewrite app_length in Hf. lia. }
    destruct (empty name); try discriminate.
    destruct (negb (nt =? 0)); [eapply IH; eauto|].
    destruct (negb (empty cur)); [eapply IH; eauto|].
    destruct (ends_with_dot name); try discriminate. eapply IH; eauto.
Qed.

Lemma ta_loop_strict : forall fuel s l, ta_loop fuel s = Some l -> bytes_ok s ->
  forall f', (length s <= f')%nat -> strict_tas f' s = true.
Proof.
  induction fuel as [|k IH]; intros s l H Hok f' Hf.
  - destruct s; [destruct f'; reflexivity | cbn in H; discriminate].
  - destruct s as [|t s1]; [destruct f'; reflexivity|].
    cbn [ta_loop] in H. apply bytes_ok_cons in Hok as [_ Hok1].
    destruct f' as [|f'']; [cbn in Hf; lia|]. cbn [strict_tas]. cbn [length] in Hf.
    destruct (t =? 0) eqn:E0.
    { apply N.eqb_eq in E0. subst t. cbn [N.eqb orb].
      destruct (ta_loop k s1) as [r|] eqn:El; try discriminate. eapply IH; eauto. lia. }
    destruct ((t =? 4) || (t =? 5)) eqn:E45.
    { destruct (take 32 s1) as [[id s2]|] eqn:Et; try discriminate.
      apply take_inv in Et as (-> & Hid). apply bytes_ok_app in Hok1 as [_ Hok2].
      destruct (ta_loop k s2) as [r|] eqn:El; try discriminate.
      rewrite skipn32 by auto. replace (32 <=? _) with true by (symmetry; apply N.leb_le; lens).
      cbn [andb]. eapply IH; eauto. rewrite app_length in Hf. lia. }
    destruct (t =? 2) eqn:E2.
    { destruct (rd_vec16 s1) as [[id s2]|] eqn:Ev; try discriminate.
      pose proof Ev as Ev'. apply rd_vec16_inv in Ev' as (-> & _ & _ & Hok2); auto.
      destruct (ta_loop k s2) as [r|] eqn:El; try discriminate.
      rewrite cut2_vec16, Ev. eapply IH; eauto. rewrite app_length in Hf. lia. }
    eapply IH; eauto. lia.
Qed.

Lemma alpn_loop_strict : forall fuel s l, alpn_loop fuel s = Some l -> bytes_ok s ->
  forall f', (length s <= f')%nat -> all_vecs f' 1 anyb s = true.
Proof.
  induction fuel as [|k IH]; intros s l H Hok f' Hf.
  - destruct s; [destruct f'; reflexivity | cbn in H; discriminate].
  - destruct s as [|z zs] eqn:Es; [destruct f'; reflexivity|].
    rewrite <- Es in *. cbn [alpn_loop] in H. rewrite Es in H at 1.
    destruct (rd_vec8 s) as [[p s1]|] eqn:E; try discriminate.
    pose proof E as E'. apply rd_vec8_inv in E' as (E' & _ & _ & Hok1); auto.
    destruct (empty p); try discriminate.
    destruct (alpn_loop k s1) as [r|] eqn:El; try discriminate.
    destruct f' as [|f'']; [rewrite Es in Hf; cbn in Hf; lia|].
    cbn [all_vecs]. rewrite Es at 1. rewrite cut1_vec8, E. cbn [anyb andb].
    eapply IH; eauto. rewrite E' in Hf. rewrite app_length, length_vec8 in Hf. lia.
Qed.

Lemma even_u16s : forall cs l, rd_u16s cs = Some l -> bytes_ok cs -> evenb_len cs = true.
Proof.
  intros cs l H Hok. apply (rd_u16s_inv (length cs)) in H as (_ & _ & Hl); auto.
  unfold evenb_len. apply Nat.even_spec. exists (length l). unfold len in Hl. lia.
Qed.

Lemma ch_ext_strict : forall merge m e m', ch_ext merge m e = Some m' -> bytes_ok (snd e) ->
  strict_ch_ext (fst e) (snd e) = true.
Proof.
  intros merge m [t d] m' H Hok. cbn [fst snd] in *. unfold ch_ext in H. unfold strict_ch_ext.
  destruct (t =? extServerName).
  { destruct (rd_vec16 d) as [[nl d1]|] eqn:E1; try discriminate.
    apply rd_vec16_inv in E1 as (-> & Hnl & Hnlo & _); auto.
    destruct (empty nl); try discriminate.
    destruct (sni_loop (length nl) nl (ch_sni m)) as [name|] eqn:El; try discriminate.
    destruct (empty d1) eqn:Ee; try discriminate. apply empty_true in Ee as ->. rewrite app_nil_r.
    rewrite exact2_vec16_p by auto. eapply sni_loop_strict; eauto. }
  destruct (t =? extTrustedCAKeys).
  { destruct (rd_vec16 d) as [[tl d1]|] eqn:E1; try discriminate.
    apply rd_vec16_inv in E1 as (-> & Htl & Htlo & _); auto.
    destruct (empty tl); try discriminate.
    destruct (ta_loop (length tl) tl) as [tas|] eqn:El; try discriminate.
    destruct (empty d1) eqn:Ee; try discriminate. apply empty_true in Ee as ->. rewrite app_nil_r.
    rewrite exact2_vec16_p by auto. eapply ta_loop_strict; eauto. }
  destruct (t =? extStatusRequest).
  { destruct (rd_u8 d) as [[st d1]|] eqn:E1; try discriminate.
    apply rd_u8_inv in E1 as (-> & _ & Hd1); auto.
    destruct (rd_vec16 d1) as [[x d2]|] eqn:E2; try discriminate.
    pose proof E2 as E2'. apply rd_vec16_inv in E2' as (-> & _ & _ & Hd2); auto.
    destruct (rd_vec16 d2) as [[y d3]|] eqn:E3; try discriminate.
    apply rd_vec16_inv in E3 as (-> & Hy & _ & _); auto.
    destruct (empty d3) eqn:Ee; try discriminate. apply empty_true in Ee as ->. rewrite app_nil_r in *.
    unfold u8. cbn [app]. rewrite cut2_vec16, E2. apply exact2_vec16; auto. }
  destruct (t =? extSupportedGroups).
  { cbn [orb]. destruct (rd_vec16 d) as [[cs d1]|] eqn:E1; try discriminate.
    apply rd_vec16_inv in E1 as (-> & Hcs & Hcso & _); auto.
    destruct (empty cs); try discriminate.
    destruct (rd_u16s cs) as [l|] eqn:El; try discriminate.
    destruct (empty d1) eqn:Ee; try discriminate. apply empty_true in Ee as ->. rewrite app_nil_r.
    rewrite exact2_vec16_p by auto. eapply even_u16s; eauto. }
  destruct (t =? extSignatureAlgorithms).
  { cbn [orb]. destruct (rd_vec16 d) as [[cs d1]|] eqn:E1; try discriminate.
    apply rd_vec16_inv in E1 as (-> & Hcs & Hcso & _); auto.
    destruct (empty cs); try discriminate.
    destruct (rd_u16s cs) as [l|] eqn:El; try discriminate.
    destruct (empty d1) eqn:Ee; try discriminate. apply empty_true in Ee as ->. rewrite app_nil_r.
    rewrite exact2_vec16_p by auto. eapply even_u16s; eauto. }
  cbn [orb].
  destruct (t =? extALPN).
  { destruct (rd_vec16 d) as [[pl d1]|] eqn:E1; try discriminate.
    apply rd_vec16_inv in E1 as (-> & Hpl & Hplo & _); auto.
    destruct (empty pl); try discriminate.
    destruct (alpn_loop (length pl) pl) as [ps|] eqn:El; try discriminate.
    destruct (empty d1) eqn:Ee; try discriminate. apply empty_true in Ee as ->. rewrite app_nil_r.
    rewrite exact2_vec16_p by auto. eapply alpn_loop_strict; eauto. }
  destruct (t =? extClientID).
  { destruct (rd_vec16 d) as [[id d1]|] eqn:E1; try discriminate.
    apply rd_vec16_inv in E1 as (-> & Hid & _ & _); auto.
    destruct (empty d1) eqn:Ee; try discriminate. apply empty_true in Ee as ->. rewrite app_nil_r.
    apply exact2_vec16; auto. }
  reflexivity.
Qed.

(* strict_ch on a body of the decoded shape *)
Lemma strict_ch_shape : forall cookie a b random sid ck cs comp rest,
  len random = 32 -> len sid < 256 -> len ck < 256 -> len cs < 65536 -> len comp < 256 ->
  (cookie = false -> ck = []) ->
  strict_ch cookie (a :: b :: random ++ vec8 sid ++ (if cookie then vec8 ck else []) ++ vec16 cs ++ vec8 comp ++ rest) =
  evenb_len cs && (empty rest || exact 2 (fun v => all_exts (length v) strict_ch_ext v) rest).
Proof.
  intros cookie a b random sid ck cs comp rest Hr Hs Hck Hcs Hco Hckf. unfold strict_ch. cbv beta iota zeta.
  rewrite skipn32 by auto.
  match goal with |- context [skipn 2 (a :: b :: ?x)] => change (skipn 2 (a :: b :: x)) with x end.
  replace (32 <=? _) with true by (symmetry; apply N.leb_le; lens).
  rewrite cut1_vec8, rd_vec8_enc by auto.
  destruct cookie.
  - rewrite cut1_vec8, rd_vec8_enc by auto. rewrite cut2_vec16, rd_vec16_enc by auto.
    rewrite cut1_vec8, rd_vec8_enc by auto. reflexivity.
  - cbn [app]. rewrite cut2_vec16, rd_vec16_enc by auto.
    rewrite cut1_vec8, rd_vec8_enc by auto. reflexivity.
Qed.

Lemma ch_body_strict : forall cookie merge body m, ch_body_dec cookie merge body = Some m -> bytes_ok body ->
  strict_ch cookie body = true.
Proof.
  unfold ch_body_dec; intros cookie merge body m H Hok.
  destruct (rd_u16 body) as [[vers s0]|] eqn:E0; try discriminate.
  apply rd_u16_inv in E0 as (-> & Hv & Hok0); auto.
  destruct (take 32 s0) as [[random s1]|] eqn:E1; try discriminate.
  apply take_inv in E1 as (-> & Hrl). apply bytes_ok_app in Hok0 as [Hro Hok1].
  destruct (rd_vec8 s1) as [[sid s2]|] eqn:E2; try discriminate.
  apply rd_vec8_inv in E2 as (-> & Hsl & Hso & Hok2); auto.
  assert (Eck : exists ck s3, (if cookie then rd_vec8 s2 else Some ([], s2)) = Some (ck, s3) /\
                s2 = (if cookie then vec8 ck else []) ++ s3 /\ len ck < 256 /\ bytes_ok s3 /\
                (cookie = false -> ck = [])).
  { destruct cookie.
    - destruct (rd_vec8 s2) as [[ck s3]|] eqn:E; try discriminate.
      apply rd_vec8_inv in E as (-> & ? & ? & ?); auto. exists ck, s3. repeat split; auto; try discriminate.
    - exists [], s2. repeat split; auto; cbn; try lia. }
  destruct Eck as (ck & s3 & Eck & -> & Hckl & Hok3 & Hckf). rewrite Eck in H. clear Eck.
  unfold ch_rest_dec in H.
  destruct (rd_vec16 s3) as [[cs s4]|] eqn:E4; try discriminate.
  apply rd_vec16_inv in E4 as (-> & Hcsl & Hcso & Hok4); auto.
  destruct (rd_u16s cs) as [suites|] eqn:E5; try discriminate.
  destruct (rd_vec8 s4) as [[comp s5]|] eqn:E6; try discriminate.
  apply rd_vec8_inv in E6 as (-> & Hcol & Hcoo & Hok5); auto.
  change (u16 vers ++ random ++ vec8 sid ++ (if cookie then vec8 ck else []) ++ vec16 cs ++ vec8 comp ++ s5)
    with ((vers / 256) mod 256 :: vers mod 256 :: random ++ vec8 sid ++ (if cookie then vec8 ck else []) ++
          vec16 cs ++ vec8 comp ++ s5).
  rewrite strict_ch_shape by auto.
  rewrite (even_u16s _ _ E5) by auto. cbn [andb].
  destruct (empty s5) eqn:Ee; [reflexivity|]. cbn [orb].
  destruct (rd_vec16 s5) as [[exts s6]|] eqn:E7; try discriminate.
  apply rd_vec16_inv in E7 as (-> & Hel & Heo & _); auto.
  destruct (negb (empty s6)) eqn:E8; try discriminate. apply negb_false_iff in E8. apply empty_true in E8 as ->.
  rewrite app_nil_r. rewrite exact2_vec16_p by auto.
  destruct (exts_split exts) as [l|] eqn:El; try discriminate.
  unfold exts_split in El. apply tlv16_inv in El as (<- & Hall); auto.
  apply fold_opt_Forall in H.
  apply all_exts_enc; [|lia].
  rewrite Forall_forall in *. intros e He. destruct (Hall e He) as (Ht & Hd & Hdo). destruct (H e He) as (a & b & Hab).
  repeat split; auto. eapply ch_ext_strict; eauto.
Qed.

Lemma len_ch_body : forall cookie m, wf_ch cookie m -> len (ch_body_enc cookie m) < 16777216.
Proof.
  intros cookie m (Hv & Hro & Hrl & [Hso Hsl] & [Hcko Hckl] & Hck & Hsu & Hsul & [Hcoo Hcol] & [Hsno Hsnl] & Hdot &
    Htas & Hcu & Hsa & Hal & [Hcio Hcil] & Ltas & Lcu & Lsa & Lal & Lex).
  unfold ch_body_enc. destruct cookie, (empty (ch_exts_enc m)); lens.
Qed.

(* ---------- TLCP clientHello ---------- *)
Lemma T_ch_decode_encode : forall m, wf_ch false m -> T_ch_dec (T_ch_enc m) = Ok m.
Proof.
  intros m Hwf. unfold T_ch_dec, T_ch_enc, t_hdr, u24. cbn [app]. rewrite take_4.
  rewrite ch_body_decode_encode by auto. reflexivity.
Qed.
Lemma T_ch_hdr : forall x body, T_ch_dec (t_hdr x body) = of_opt (ch_body_dec false true body).
Proof. intros. unfold T_ch_dec, t_hdr, u24. cbn [app]. rewrite take_4. reflexivity. Qed.

Lemma T_ch_encode_decode : forall bs m, T_ch_dec bs = Ok m -> bytes_ok bs ->
  canonical ST mCH bs = true -> T_ch_enc m = bs.
Proof.
  intros bs m H Hok Hc. pose proof Hc as Hc'. apply canonical_framed in Hc as (Ht & Ho & _).
  apply outer_ok_T_inv in Ho as (x & body & -> & Hl & Hx & Hb); auto.
  apply type_ok_hdr in Ht as ->.
  unfold canonical in Hc'. apply andb_prop in Hc' as [_ Hc']. rewrite body_of_T in Hc'.
  destruct (canon_ch_body false body) as [m'|] eqn:Ec; try discriminate.
  apply canon_ch_sound in Ec as (Eenc & Hwf); auto.
  rewrite T_ch_hdr in H. apply of_opt_ok in H. rewrite <- Eenc in H.
  rewrite ch_body_decode_encode in H by auto. inversion H; subst m'.
  unfold T_ch_enc. rewrite Eenc. reflexivity.
Qed.
(* clientHello skips the header (Skip(4)): the header length is right only under framing *)
Lemma T_ch_strict : forall bs m, T_ch_dec bs = Ok m -> bytes_ok bs -> outer_ok ST bs = true ->
  strict ST mCH bs = true.
Proof.
  intros bs m H Hok Ho. unfold strict. rewrite Ho. cbn [andb].
  apply outer_ok_T_inv in Ho as (x & body & -> & Hl & Hx & Hb); auto.
  rewrite T_ch_hdr in H. apply of_opt_ok in H. rewrite body_of_T. cbn [strict_body].
  eapply ch_body_strict; eauto.
Qed.
Lemma T_ch_total : forall bs s, T_ch_dec bs <> Panic s.
Proof. intros; apply of_opt_total. Qed.

(* ---------- DTLCP clientHello ---------- *)
Lemma D_ch_decode_encode : forall h m, wf_dh h -> wf_ch true m ->
  D_ch_dec (D_ch_enc (h, m)) = Ok (mkDH (dh_seq h) 0 (len (ch_body_enc true m)), m).
Proof.
  intros h m (Hs & Ho & Hf) Hwf. unfold D_ch_dec, D_ch_enc. cbn [fst snd].
  rewrite d_msg_wf, d_unhdr_whole by (eauto using len_ch_body). rewrite N.eqb_refl. cbn [negb].
  rewrite ch_body_decode_encode by auto. reflexivity.
Qed.
Lemma D_ch_encode_decode : forall bs h m, D_ch_dec bs = Ok (h, m) -> bytes_ok bs ->
  canonical SD mCH bs = true -> D_ch_enc (h, m) = bs.
Proof.
  unfold D_ch_dec; intros bs h m H Hok Hc. apply of_opt_ok in H. pose proof Hc as Hc'.
  apply canonical_framed in Hc as (_ & Ho & Hf). specialize (Hf eq_refl).
  destruct (d_unhdr bs) as [[[[x n] h'] body]|] eqn:E; try discriminate.
  apply D_hdr_dec_framed in E as (E & -> & Hoff & Hfl & Hl & Hb & Hs); auto.
  destruct (x =? tClientHello) eqn:Ex; try discriminate. apply N.eqb_eq in Ex. subst x. cbn [negb] in H.
  destruct (ch_body_dec true false body) as [m0|] eqn:Ed; try discriminate. inversion H; subst h' m0.
  unfold canonical in Hc'. apply andb_prop in Hc' as [_ Hc']. rewrite E, body_of_D in Hc'.
  destruct (canon_ch_body true body) as [m'|] eqn:Ec; try discriminate.
  apply canon_ch_sound in Ec as (Eenc & Hwf); auto.
  rewrite <- Eenc in Ed. rewrite ch_body_decode_encode in Ed by auto.
  inversion Ed; subst m'.
  rewrite E. unfold D_ch_enc. cbn [fst snd]. rewrite Eenc. apply d_msg_whole; auto.
Qed.
Lemma D_ch_strict : forall bs m, D_ch_dec bs = Ok m -> bytes_ok bs -> outer_ok SD bs = true ->
  frag_whole bs = true -> strict SD mCH bs = true.
Proof.
  unfold D_ch_dec; intros bs [h m] H Hok Ho Hf. apply of_opt_ok in H. unfold strict. rewrite Ho. cbn [andb].
  destruct (d_unhdr bs) as [[[[x n] h'] body]|] eqn:E; try discriminate.
  apply D_hdr_dec_framed in E as (E & -> & Hoff & Hfl & Hl & Hb & Hs); auto.
  destruct (negb _); try discriminate.
  destruct (ch_body_dec true false body) as [m0|] eqn:Ed; try discriminate.
  rewrite E, body_of_D. cbn [strict_body]. eapply ch_body_strict; eauto.
Qed.
Lemma D_ch_total : forall bs s, D_ch_dec bs <> Panic s.
Proof. intros; apply of_opt_total. Qed.
