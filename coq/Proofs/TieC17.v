(* C17: message size limit, handshake header length and the bound on reassembly buffers *)
From Coq Require Import ZArith List.
From V Require Import Model.GenConsts Model.Fragment.
Open Scope Z_scope.
Definition tie : Prop :=
  Z.of_nat Fragment.maxHandshake = GenConsts.D.maxHandshake /\
  GenConsts.D.dtlcpHeaderLen = 12 /\ GenConsts.D.maxHandshakeFragments = 256.
Lemma tie_holds : tie.
Proof. unfold tie. vm_compute. repeat split. Qed.
