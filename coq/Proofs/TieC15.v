(* C15: header length and plaintext limit of Model/RecordD *)
From Coq Require Import ZArith List.
From V Require Import Model.GenConsts Model.RecordD.
Open Scope Z_scope.
Definition tie : Prop :=
  RecordD.hdr_len = GenConsts.D.recordHeaderLen /\
  RecordD.max_plaintext = GenConsts.D.maxPlaintext /\
  GenConsts.D.dtlcpHeaderLen = 12 /\
  GenConsts.D.aeadNonceLength - GenConsts.D.noncePrefixLength = 8 /\
  (* the path MTU the record and flight writers fall back to when none is configured *)
  GenConsts.D.maxPayloadSizeForWrite_pmtu <> nil /\ GenConsts.D.writeFlight_pmtu <> nil /\
  Forall (fun x => x = RecordD.eff_pmtu 0) GenConsts.D.maxPayloadSizeForWrite_pmtu /\
  Forall (fun x => x = RecordD.eff_pmtu 0) GenConsts.D.writeFlight_pmtu.
Lemma tie_holds : tie.
Proof.
  unfold tie. repeat split; try (vm_compute; reflexivity); try (vm_compute; discriminate);
  repeat (constructor; try (vm_compute; reflexivity)).
Qed.
