(* C15: header length and plaintext limit of Model/RecordD *)
From Coq Require Import ZArith List.
From V Require Import Model.GenConsts Model.RecordD.
Open Scope Z_scope.
Definition tie : Prop :=
  RecordD.hdr_len = GenConsts.D.recordHeaderLen /\
  RecordD.max_plaintext = GenConsts.D.maxPlaintext /\
  GenConsts.D.dtlcpHeaderLen = 12 /\
  GenConsts.D.aeadNonceLength - GenConsts.D.noncePrefixLength = 8.
Lemma tie_holds : tie.
Proof. unfold tie. vm_compute. repeat split. Qed.
