(* Proofs about Model/Replay.v. Statements are fixed; fill in the proofs. *)
From V Require Import Model.Replay.
Open Scope N_scope.

(* ------------------------------------------------------------------ *)
(* bit-level lemmas                                                    *)
(* ------------------------------------------------------------------ *)

Lemma tb_u64 x i : i < 64 -> N.testbit (u64 x) i = N.testbit x i.
Proof. intros Hi. unfold u64, M64. apply N.mod_pow2_bits_low. assumption. Qed.

Lemma tb_shl64 x d i : i < 64 ->
  N.testbit (shl64 x d) i = if (d <=? i) then N.testbit x (i - d) else false.
Proof.
  intros Hi. unfold shl64.
  destruct (64 <=? d) eqn:E.
  - apply N.leb_le in E. rewrite N.bits_0.
    destruct (d <=? i) eqn:E2; [apply N.leb_le in E2; lia|reflexivity].
  - apply N.leb_gt in E. rewrite tb_u64 by lia.
    destruct (d <=? i) eqn:E2.
    + apply N.leb_le in E2. rewrite N.shiftl_spec_high' by lia. reflexivity.
    + apply N.leb_gt in E2. rewrite N.shiftl_spec_low by lia. reflexivity.
Qed.

Lemma tb_one i : N.testbit 1 i = (i =? 0).
Proof. destruct i; reflexivity. Qed.

(* land with a single shifted bit is nonzero iff that bit is set *)
Lemma land_bit_zero bm d : d < 64 ->
  (N.land bm (shl64 1 d) =? 0) = negb (N.testbit bm d).
Proof.
  intros Hd. destruct (N.testbit bm d) eqn:Hb; cbn [negb].
  - apply N.eqb_neq. intro H0.
    assert (H : N.testbit (N.land bm (shl64 1 d)) d = false) by (rewrite H0; apply N.bits_0).
    rewrite N.land_spec, Hb, tb_shl64, N.leb_refl, N.sub_diag in H by lia. discriminate.
  - apply N.eqb_eq. apply N.bits_inj. intro i. rewrite N.land_spec, N.bits_0.
    destruct (N.lt_ge_cases i 64) as [Hi|Hi].
    + rewrite tb_shl64 by lia.
      destruct (d <=? i) eqn:E; [|apply andb_false_r].
      apply N.leb_le in E. rewrite tb_one.
      destruct (i - d =? 0) eqn:E2; [|apply andb_false_r].
      apply N.eqb_eq in E2. assert (Hid : i = d) by lia. subst i. rewrite Hb. reflexivity.
    + unfold shl64. assert (64 <=? d = false) as -> by (apply N.leb_gt; lia).
      unfold u64, M64. rewrite N.mod_pow2_bits_high by lia. apply andb_false_r.
Qed.

(* ------------------------------------------------------------------ *)
(* one-step invariant over an abstract "seen" predicate                *)
(* ------------------------------------------------------------------ *)

Definition upd (seen : N -> bool) (s : N) : N -> bool :=
  fun x => if x =? s then true else seen x.

(* Inv: bits < size of the bitmap describe exactly the seen numbers within size of right;
   nothing seen is above right *)
Definition Inv (w : win) (seen : N -> bool) : Prop :=
  (forall s, seen s = true -> s <= right w) /\
  (forall i, i < eff_size w -> i <= right w -> N.testbit (bitmap w) i = seen (right w - i)) /\
  (forall i, i < eff_size w -> right w < i -> N.testbit (bitmap w) i = false).

Lemma eff_le64 w : eff_size w <= 64.
Proof.
  unfold eff_size. destruct (64 <? size w) eqn:E; [lia|]. apply N.ltb_ge in E. assumption.
Qed.

Lemma eff_size_eq w w' : size w' = size w -> eff_size w' = eff_size w.
Proof. intro H. unfold eff_size. rewrite H. reflexivity. Qed.

Lemma Inv_ext w f g : (forall x, f x = g x) -> Inv w f -> Inv w g.
Proof.
  intros Hfg (H1 & H2 & H3). unfold Inv. repeat split.
  - intros s Hs. apply H1. rewrite Hfg. assumption.
  - intros i Hi Hle. rewrite <- Hfg. apply H2; assumption.
  - assumption.
Qed.

Theorem check_sound w seen seq w' b :
  Inv w seen -> check w seq = (w', b) ->
  (b = true -> seen seq = false) /\
  Inv w' (if b then upd seen seq else seen) /\
  size w' = size w /\
  right w' = (if b then N.max (right w) seq else right w) /\
  (b = false -> seen seq = true \/ (seq <= right w /\ eff_size w <= right w - seq)).
Proof.
  intros (Hmax & Hbits & Hhigh) Hc.
  assert (Hsz : eff_size w <= 64) by apply eff_le64.
  assert (He : forall r bm, eff_size (mkWin r (size w) bm) = eff_size w) by reflexivity.
  unfold check in Hc.
  destruct (right w <? seq) eqn:E1.
  - apply N.ltb_lt in E1. inversion Hc; subst; clear Hc.
    cbn [right size bitmap].
    split; [|split; [|split; [reflexivity|split; [lia|discriminate]]]].
    + intros _. destruct (seen seq) eqn:S; [|reflexivity]. apply Hmax in S. lia.
    + unfold Inv, upd; cbn [right size bitmap]. rewrite !He. repeat split.
      * intros s. destruct (s =? seq) eqn:E; [apply N.eqb_eq in E; lia|].
        intro S. apply Hmax in S. lia.
      * intros i Hi Hle. rewrite tb_u64, N.lor_spec, tb_one by lia.
        destruct (seq - i =? seq) eqn:E.
        -- apply N.eqb_eq in E. assert (Hi0 : i = 0) by lia. subst i.
           rewrite N.eqb_refl. apply orb_true_r.
        -- apply N.eqb_neq in E. assert (Hi0 : i <> 0) by lia.
           assert ((i =? 0) = false) as -> by (apply N.eqb_neq; assumption).
           rewrite orb_false_r.
           destruct (eff_size w <=? seq - right w) eqn:E3.
           ++ apply N.leb_le in E3. rewrite N.bits_0.
              destruct (seen (seq - i)) eqn:S; [|reflexivity].
              apply Hmax in S. lia.
           ++ apply N.leb_gt in E3. rewrite tb_shl64 by lia.
              destruct (seq - right w <=? i) eqn:E4.
              ** apply N.leb_le in E4.
                 destruct (N.le_gt_cases (i - (seq - right w)) (right w)) as [Hc|Hc].
                 --- rewrite Hbits by lia. f_equal. lia.
                 --- rewrite Hhigh by lia.
                     destruct (seen (seq - i)) eqn:S; [|reflexivity]. apply Hmax in S. lia.
              ** apply N.leb_gt in E4.
                 destruct (seen (seq - i)) eqn:S; [|reflexivity]. apply Hmax in S. lia.
      * intros i Hi Hlt. rewrite tb_u64, N.lor_spec, tb_one by lia.
        assert ((i =? 0) = false) as -> by (apply N.eqb_neq; lia). rewrite orb_false_r.
        destruct (eff_size w <=? seq - right w) eqn:E3; [apply N.bits_0|].
        apply N.leb_gt in E3.
        rewrite tb_shl64 by lia.
        destruct (seq - right w <=? i) eqn:E4; [|reflexivity].
        apply N.leb_le in E4. apply Hhigh; lia.
  - apply N.ltb_ge in E1.
    destruct (eff_size w <=? right w - seq) eqn:E2.
    + apply N.leb_le in E2. inversion Hc; subst; clear Hc.
      split; [discriminate|]. split; [repeat split; assumption|].
      split; [reflexivity|]. split; [reflexivity|]. intros _. right. lia.
    + apply N.leb_gt in E2. assert (Hd: right w - seq < 64) by lia.
      rewrite land_bit_zero in Hc by assumption. rewrite negb_involutive in Hc.
      destruct (N.testbit (bitmap w) (right w - seq)) eqn:Hb.
      * inversion Hc; subst; clear Hc.
        split; [discriminate|]. split; [repeat split; assumption|].
        split; [reflexivity|]. split; [reflexivity|]. intros _. left.
        rewrite Hbits in Hb by lia.
        replace (right w' - (right w' - seq)) with seq in Hb by lia. assumption.
      * inversion Hc; subst; clear Hc. cbn [right size bitmap].
        split; [|split; [|split; [reflexivity|split; [lia|discriminate]]]].
        -- intros _. rewrite Hbits in Hb by lia.
           replace (right w - (right w - seq)) with seq in Hb by lia. assumption.
        -- unfold Inv, upd; cbn [right size bitmap]. rewrite !He. repeat split.
           ++ intros s. destruct (s =? seq) eqn:E; [apply N.eqb_eq in E; lia|]. apply Hmax.
           ++ intros i Hi Hle. rewrite tb_u64, N.lor_spec, tb_shl64 by lia.
              destruct (right w - i =? seq) eqn:E.
              ** apply N.eqb_eq in E. assert (Hi' : i = right w - seq) by lia. subst i.
                 rewrite N.leb_refl, N.sub_diag. cbn [N.testbit]. apply orb_true_r.
              ** apply N.eqb_neq in E. rewrite Hbits by lia.
                 destruct (right w - seq <=? i) eqn:E5; [|apply orb_false_r].
                 apply N.leb_le in E5. rewrite tb_one.
                 assert ((i - (right w - seq) =? 0) = false) as -> by (apply N.eqb_neq; lia).
                 apply orb_false_r.
           ++ intros i Hi Hlt. rewrite tb_u64, N.lor_spec, tb_shl64, Hhigh by lia.
              destruct (right w - seq <=? i) eqn:E5; [|reflexivity].
              apply N.leb_le in E5. rewrite tb_one.
              assert ((i - (right w - seq) =? 0) = false) as -> by (apply N.eqb_neq; lia).
              reflexivity.
Qed.

(* ------------------------------------------------------------------ *)
(* list-as-set facts                                                   *)
(* ------------------------------------------------------------------ *)

Lemma mem_true_iff s l : mem s l = true <-> In s l.
Proof.
  unfold mem. rewrite existsb_exists. split.
  - intros (x & Hin & Hx). apply N.eqb_eq in Hx. subst x. assumption.
  - intros Hin. exists s. split; [assumption|apply N.eqb_refl].
Qed.

Lemma mem_false_iff s l : mem s l = false <-> ~ In s l.
Proof.
  rewrite <- mem_true_iff. destruct (mem s l); split; intro H.
  - discriminate.
  - exfalso. apply H. reflexivity.
  - intro H'. discriminate.
  - reflexivity.
Qed.

Lemma mem_cons x s l : mem x (s :: l) = (x =? s) || mem x l.
Proof. reflexivity. Qed.

Lemma mem_le_maxl s l : mem s l = true -> s <= maxl l.
Proof.
  induction l as [|x t IH]; cbn [maxl].
  - intro H. discriminate.
  - rewrite mem_cons. intro H. apply orb_true_iff in H. destruct H as [H|H].
    + apply N.eqb_eq in H. subst x. lia.
    + specialize (IH H). lia.
Qed.

Lemma maxl_app a b : maxl (a ++ b) = N.max (maxl a) (maxl b).
Proof.
  induction a as [|x t IH]; cbn [maxl app].
  - lia.
  - rewrite IH. lia.
Qed.

Lemma maxl_rev l : maxl (rev l) = maxl l.
Proof.
  induction l as [|x t IH]; cbn [rev maxl].
  - reflexivity.
  - rewrite maxl_app, IH. cbn [maxl]. lia.
Qed.

Lemma mem_rev s l : mem s (rev l) = mem s l.
Proof.
  destruct (mem s l) eqn:E.
  - apply mem_true_iff. apply mem_true_iff in E. apply in_rev in E. assumption.
  - apply mem_false_iff. apply mem_false_iff in E. intro H. apply E. apply in_rev. assumption.
Qed.

(* ------------------------------------------------------------------ *)
(* the refinement relation between a window and the accepted set       *)
(* ------------------------------------------------------------------ *)

Definition R (w : win) (acc : list N) : Prop :=
  Inv w (fun s => mem s acc) /\ right w = maxl acc.

Lemma R_set w a b :
  (forall s, mem s a = mem s b) -> maxl a = maxl b -> R w a -> R w b.
Proof.
  intros Hm Hx (HI & Hr). unfold R. split; [|congruence].
  eapply Inv_ext; [|exact HI]. intro x. cbv beta. apply Hm.
Qed.

Lemma spec_check_fst W acc s :
  fst (spec_check W acc s) = if snd (spec_check W acc s) then s :: acc else acc.
Proof.
  unfold spec_check. destruct (mem s acc); [reflexivity|].
  destruct ((maxl acc <? s) || (maxl acc - s <? W)); reflexivity.
Qed.

Lemma check_step w acc s w' b :
  R w acc -> check w s = (w', b) ->
  b = snd (spec_check (eff_size w) acc s) /\
  size w' = size w /\
  R w' (if b then s :: acc else acc) /\
  (b = true -> mem s acc = false).
Proof.
  intros (HI & Hr) Hc.
  destruct (check_sound w _ s w' b HI Hc) as (Hnew & HI' & Hsz & Hr' & Hrej).
  cbv beta in Hnew, Hrej.
  split; [|split; [assumption|split; [|assumption]]].
  - unfold spec_check. destruct b.
    + rewrite (Hnew eq_refl). rewrite <- Hr.
      (* accepted: either newer, or within the window *)
      unfold check in Hc.
      destruct (right w <? s) eqn:E1; [reflexivity|].
      apply N.ltb_ge in E1. cbn [orb].
      destruct (eff_size w <=? right w - s) eqn:E2; [inversion Hc|].
      apply N.leb_gt in E2.
      assert (right w - s <? eff_size w = true) as -> by (apply N.ltb_lt; assumption).
      reflexivity.
    + destruct (Hrej eq_refl) as [Hm|(Hle & Hfar)].
      * rewrite Hm. reflexivity.
      * destruct (mem s acc); [reflexivity|]. rewrite <- Hr.
        assert (right w <? s = false) as -> by (apply N.ltb_ge; assumption).
        assert (right w - s <? eff_size w = false) as -> by (apply N.ltb_ge; assumption).
        reflexivity.
  - unfold R. destruct b.
    + split.
      * eapply Inv_ext; [|exact HI']. intro x. unfold upd. rewrite mem_cons.
        destruct (x =? s); reflexivity.
      * rewrite Hr'. cbn [maxl]. rewrite Hr. lia.
    + split; [assumption|congruence].
Qed.

Lemma run_cons w s t :
  run w (s :: t) =
  (fst (run (fst (check w s)) t), snd (check w s) :: snd (run (fst (check w s)) t)).
Proof.
  cbn [run]. destruct (check w s) as [w1 b]. cbn [fst snd].
  destruct (run w1 t) as [w2 bs]. reflexivity.
Qed.

Lemma spec_run_cons W acc s t :
  spec_run W acc (s :: t) =
  (fst (spec_run W (fst (spec_check W acc s)) t),
   snd (spec_check W acc s) :: snd (spec_run W (fst (spec_check W acc s)) t)).
Proof.
  cbn [spec_run]. destruct (spec_check W acc s) as [a1 b]. cbn [fst snd].
  destruct (spec_run W a1 t) as [a2 bs]. reflexivity.
Qed.

(* decisions agree *)
Lemma run_refines seqs : forall w acc,
  R w acc -> snd (run w seqs) = snd (spec_run (eff_size w) acc seqs).
Proof.
  induction seqs as [|s t IH]; intros w acc HR.
  - reflexivity.
  - rewrite run_cons, spec_run_cons. cbn [snd].
    destruct (check w s) as [w1 b] eqn:Hc. cbn [fst snd].
    destruct (check_step w acc s w1 b HR Hc) as (Hb & Hsz & HR1 & _).
    rewrite spec_check_fst, <- Hb. f_equal.
    rewrite <- (eff_size_eq _ _ Hsz). apply IH. assumption.
Qed.

(* final state: R holds against the accepted numbers; size unchanged; accepted is
   duplicate-free and disjoint from what was accepted before *)
Lemma run_state seqs : forall w acc,
  R w acc ->
  let w' := fst (run w seqs) in
  let l := accepted seqs (snd (run w seqs)) in
  R w' (rev l ++ acc) /\ size w' = size w /\
  NoDup l /\ (forall x, In x l -> mem x acc = false).
Proof.
  induction seqs as [|s t IH]; intros w acc HR.
  - cbn [run fst snd accepted rev app].
    split; [assumption|]. split; [reflexivity|]. split; [constructor|].
    intros x Hx. destruct Hx.
  - cbv zeta. rewrite run_cons. cbn [fst snd].
    destruct (check w s) as [w1 b] eqn:Hc. cbn [fst snd].
    destruct (check_step w acc s w1 b HR Hc) as (_ & Hsz & HR1 & Hnew).
    specialize (IH w1 _ HR1). cbv zeta in IH.
    destruct IH as (HR2 & Hsz2 & Hnd & Hdisj).
    destruct b; cbn [accepted].
    + cbn [rev]. rewrite <- app_assoc. cbn [app].
      split; [assumption|]. split; [congruence|]. split.
      * constructor; [|assumption]. intro Hin. apply Hdisj in Hin.
        rewrite mem_cons, N.eqb_refl in Hin. discriminate.
      * intros x [Hx|Hx].
        -- subst x. apply Hnew. reflexivity.
        -- apply Hdisj in Hx. rewrite mem_cons in Hx.
           apply orb_false_iff in Hx. apply Hx.
    + split; [assumption|]. split; [congruence|]. split; assumption.
Qed.

Lemma R_init sz : R (new_window sz) [].
Proof.
  unfold new_window, R, Inv. cbn [right size bitmap maxl].
  split; [|reflexivity].
  split; [|split].
  - intros s H. discriminate.
  - intros i _ Hi. rewrite N.bits_0. reflexivity.
  - intros i _ _. apply N.bits_0.
Qed.

(* the state reached from the initial window of a connection *)
Lemma conn_state cfg seqs :
  let w' := fst (run (conn_window cfg) seqs) in
  let l := accepted seqs (snd (run (conn_window cfg) seqs)) in
  R w' l /\ eff_size w' = w_eff cfg /\ NoDup l.
Proof.
  cbv zeta. unfold w_eff, conn_window.
  pose proof (R_init (cfg_size cfg)) as HR.
  destruct (run_state seqs _ _ HR) as (HR' & Hsz & Hnd & _). cbv zeta in HR', Hsz, Hnd.
  split; [|split; [apply eff_size_eq; assumption|assumption]].
  rewrite app_nil_r in HR'.
  eapply R_set; [| |exact HR'].
  - intro s. apply mem_rev.
  - apply maxl_rev.
Qed.

(* ------------------------------------------------------------------ *)
(* the five theorems                                                   *)
(* ------------------------------------------------------------------ *)

(* the effective window is never smaller than 32, never smaller than the configured
   size up to 64, never larger than 64 *)
Theorem w_eff_bounds : forall cfg : Z,
  32 <= w_eff cfg /\ w_eff cfg <= 64 /\
  ((0 < cfg)%Z -> N.min (Z.to_N cfg) 64 <= w_eff cfg) /\
  ((cfg <= 0)%Z -> w_eff cfg = 64).
Proof.
  intro cfg.
  assert (H0 : ((cfg <= 0)%Z -> cfg_size cfg = 64) /\
               ((0 < cfg)%Z -> cfg_size cfg = Z.to_N cfg)).
  { unfold cfg_size. destruct (cfg <=? 0)%Z eqn:E0;
      [apply Z.leb_le in E0|apply Z.leb_gt in E0]; split; intro H; try reflexivity; lia. }
  destruct H0 as [Ha Hb].
  unfold w_eff, eff_size, conn_window, new_window. cbn [size].
  generalize dependent (cfg_size cfg). intros n Ha Hb.
  destruct (n <? 32) eqn:E1; [apply N.ltb_lt in E1|apply N.ltb_ge in E1];
    (destruct (64 <? _) eqn:E2; [apply N.ltb_lt in E2|apply N.ltb_ge in E2]); lia.
Qed.

(* refinement: for every configured size and every delivery sequence the bitmap window
   takes exactly the decisions of the set-based window of width w_eff *)
Theorem window_refines_set : forall cfg seqs,
  snd (run (conn_window cfg) seqs) = snd (spec_run (w_eff cfg) [] seqs).
Proof.
  intros cfg seqs. unfold w_eff. apply run_refines.
  unfold conn_window. apply R_init.
Qed.

(* no sequence number is accepted twice, whatever the delivery order *)
Theorem at_most_once : forall cfg seqs,
  NoDup (accepted seqs (snd (run (conn_window cfg) seqs))).
Proof.
  intros cfg seqs. apply (conn_state cfg seqs).
Qed.

(* accept rule, stated on the implementation model directly: after any history, a number
   that was not accepted before is accepted when it is newer than everything accepted so
   far or lies less than w_eff behind the newest *)
Theorem accept_rule : forall cfg seqs s,
  let acc := accepted seqs (snd (run (conn_window cfg) seqs)) in
  ~ In s acc ->
  (maxl acc < s \/ maxl acc - s < w_eff cfg) ->
  snd (check (fst (run (conn_window cfg) seqs)) s) = true.
Proof.
  intros cfg seqs s acc Hnin Hrule.
  destruct (conn_state cfg seqs) as (HR & Hsz & _). cbv zeta in HR, Hsz.
  fold acc in HR.
  destruct (check (fst (run (conn_window cfg) seqs)) s) as [w1 b] eqn:Hc.
  destruct (check_step _ _ _ _ _ HR Hc) as (Hb & _). cbn [snd]. rewrite Hb.
  rewrite Hsz. unfold spec_check.
  apply mem_false_iff in Hnin. rewrite Hnin.
  assert ((maxl acc <? s) || (maxl acc - s <? w_eff cfg) = true) as ->.
  { apply orb_true_iff. destruct Hrule as [H|H]; [left|right]; apply N.ltb_lt; assumption. }
  reflexivity.
Qed.

(* and a number accepted before is refused *)
Theorem replay_refused : forall cfg seqs s,
  In s (accepted seqs (snd (run (conn_window cfg) seqs))) ->
  snd (check (fst (run (conn_window cfg) seqs)) s) = false.
Proof.
  intros cfg seqs s Hin.
  destruct (conn_state cfg seqs) as (HR & Hsz & _). cbv zeta in HR, Hsz.
  destruct (check (fst (run (conn_window cfg) seqs)) s) as [w1 b] eqn:Hc.
  destruct (check_step _ _ _ _ _ HR Hc) as (Hb & _). cbn [snd]. rewrite Hb.
  unfold spec_check. apply mem_true_iff in Hin. rewrite Hin. reflexivity.
Qed.

Print Assumptions w_eff_bounds.
Print Assumptions window_refines_set.
Print Assumptions at_most_once.
Print Assumptions accept_rule.
Print Assumptions replay_refused.
