From V Require Import Model.ReplayConn Proofs.ReplayProofs.
Open Scope N_scope.

(* the connection-level run is the window run over the genuine records *)
Lemma conn_run_window : forall its w,
  fst (conn_run w its) = fst (run w (gens its)) /\
  delivered (snd (conn_run w its)) = accepted (gens its) (snd (run w (gens its))).
Proof.
  induction its as [|it its IH]; intros w; [split; reflexivity|].
  destruct it as [s|]; cbn [conn_run conn_step gens flat_map app].
  - cbn [run]. destruct (check w s) as [w1 b] eqn:E.
    specialize (IH w1). destruct (conn_run w1 its) as [w2 os] eqn:E2.
    change (flat_map (fun it => match it with Gen s => [s] | Bogus => [] end) its) with (gens its) in *.
    destruct (run w1 (gens its)) as [w3 bs] eqn:E3. cbn [fst snd] in *.
    destruct IH as [IH1 IH2]. split; [exact IH1|].
    cbn [accepted]. destruct b; cbn [delivered flat_map app]; fold (delivered os); rewrite IH2; reflexivity.
  - specialize (IH w). destruct (conn_run w its) as [w2 os] eqn:E2. cbn [fst snd] in *.
    change (flat_map (fun it => match it with Gen s => [s] | Bogus => [] end) its) with (gens its) in *.
    destruct IH as [IH1 IH2]. split; [exact IH1|].
    cbn [delivered flat_map app]. fold (delivered os). exact IH2.
Qed.

(* whatever is not a genuine record is never delivered and changes nothing: removing it from
   the history leaves the window and every other outcome as they were *)
Definition is_gen (it : item) : bool := match it with Gen _ => true | Bogus => false end.

Lemma bogus_inert : forall its w,
  fst (conn_run w its) = fst (conn_run w (filter is_gen its)) /\
  delivered (snd (conn_run w its)) = delivered (snd (conn_run w (filter is_gen its))).
Proof.
  induction its as [|it its IH]; intros w; [split; reflexivity|].
  destruct it as [s|]; cbn [filter is_gen conn_run conn_step].
  - destruct (check w s) as [w1 b]. specialize (IH w1).
    destruct (conn_run w1 its) as [w2 os]. destruct (conn_run w1 (filter is_gen its)) as [w3 os3].
    cbn [fst snd] in *. destruct IH as [IH1 IH2]. split; [exact IH1|].
    destruct b; cbn [delivered flat_map app]; fold (delivered os); fold (delivered os3); rewrite IH2; reflexivity.
  - specialize (IH w). destruct (conn_run w its) as [w2 os].
    cbn [fst snd] in *. destruct IH as [IH1 IH2]. split; [exact IH1|].
    cbn [delivered flat_map app]. fold (delivered os). exact IH2.
Qed.

Lemma outcome_positions : forall its w,
  Forall2 (fun it o => match o with
                       | Delivered s => it = Gen s
                       | Nothing => True
                       | Failed => False end) its (snd (conn_run w its)).
Proof.
  induction its as [|it its IH]; intros w; [constructor|].
  cbn [conn_run]. destruct (conn_step w it) as [w1 o] eqn:E.
  specialize (IH w1). destruct (conn_run w1 its) as [w2 os]. cbn [snd] in *.
  constructor; [|exact IH].
  destruct it as [s|]; cbn [conn_step] in E.
  - destruct (check w s) as [w' b]. inversion E; subst. destruct b; [reflexivity|exact I].
  - inversion E; subst. exact I.
Qed.

(* established = the window after the Finished (number 0) *)
Lemma run_established : forall cfg seqs,
  run (conn_window cfg) (0 :: seqs) =
  (fst (run (established cfg) seqs), snd (check (conn_window cfg) 0) :: snd (run (established cfg) seqs)).
Proof.
  intros cfg seqs. unfold established. cbn [run].
  destruct (check (conn_window cfg) 0) as [w1 b]. cbn [fst snd].
  destruct (run w1 seqs) as [w2 bs]. reflexivity.
Qed.

Lemma finished_accepted : forall cfg, snd (check (conn_window cfg) 0) = true.
Proof.
  intros cfg. pose proof (w_eff_bounds cfg) as [Hlo _]. unfold w_eff in Hlo.
  unfold check.
  assert (R : right (conn_window cfg) = 0) by reflexivity.
  assert (B : bitmap (conn_window cfg) = 0) by reflexivity.
  rewrite R, B. change (0 <? 0) with false. cbn iota. change (0 - 0) with 0.
  destruct (eff_size (conn_window cfg) <=? 0) eqn:E.
  - apply N.leb_le in E. lia.
  - reflexivity.
Qed.

Lemma conn_delivered_accepted : forall cfg its,
  accepted (0 :: gens its) (snd (run (conn_window cfg) (0 :: gens its))) =
  0 :: delivered (snd (conn_run (established cfg) its)).
Proof.
  intros cfg its. rewrite run_established. cbn [snd accepted]. rewrite finished_accepted.
  destruct (conn_run_window its (established cfg)) as [_ H]. rewrite H. reflexivity.
Qed.

Theorem conn_at_most_once : forall cfg its,
  NoDup (delivered (snd (conn_run (established cfg) its))) /\ ~ In 0 (delivered (snd (conn_run (established cfg) its))).
Proof.
  intros cfg its. pose proof (at_most_once cfg (0 :: gens its)) as H.
  rewrite conn_delivered_accepted in H. apply NoDup_cons_iff in H. tauto.
Qed.

Theorem conn_accept_rule : forall cfg its s,
  let acc := 0 :: delivered (snd (conn_run (established cfg) its)) in
  ~ In s acc ->
  (maxl acc < s \/ maxl acc - s < w_eff cfg) ->
  snd (conn_step (fst (conn_run (established cfg) its)) (Gen s)) = Delivered s.
Proof.
  intros cfg its s acc Hn Hr. subst acc. rewrite <- conn_delivered_accepted in Hn, Hr.
  pose proof (accept_rule cfg (0 :: gens its) s Hn Hr) as H.
  rewrite run_established in H. cbn [fst] in H.
  destruct (conn_run_window its (established cfg)) as [Hw _]. rewrite <- Hw in H.
  cbn [conn_step]. destruct (check (fst (conn_run (established cfg) its)) s) as [w' b].
  cbn [snd] in *. rewrite H. reflexivity.
Qed.

Theorem conn_bogus_inert : forall cfg its,
  fst (conn_run (established cfg) its) = fst (conn_run (established cfg) (filter is_gen its)) /\
  delivered (snd (conn_run (established cfg) its)) = delivered (snd (conn_run (established cfg) (filter is_gen its))).
Proof. intros. apply bogus_inert. Qed.

Theorem conn_only_genuine : forall cfg its,
  Forall2 (fun it o => match o with
                       | Delivered s => it = Gen s
                       | Nothing => True
                       | Failed => False end) its (snd (conn_run (established cfg) its)).
Proof. intros. apply outcome_positions. Qed.
