(* C09, stream stack: invariants of the machine of Model/ConnT.v, for every handshake layer, every
   record protection and every record sequence. *)
From V Require Import Model.Codec Model.ConnT Proofs.CodecBaseProofs.
From Coq Require Import ZArith ZifyNat ZifyN ZifyBool Lia.
Open Scope nat_scope.

(* 4 + maxHandshake - 1 : the most readHandshake holds while it waits for more records *)
Definition handWait : nat := 64 * 1024 + 3.      (* 65539 *)
(* plus one record: the most c.hand ever holds *)
Definition handPeak : nat := 80 * 1024 + 3.      (* 81923 *)

(* readHandshake waits for more input: fewer than 4 bytes, or an announced length within
   maxHandshake that is not there yet *)
Definition waiting (h : bytes) : Prop :=
  match h with
  | _ :: a :: b :: d :: _ => be24n a b d <= maxHandshakeT /\ length h < 4 + be24n a b d
  | _ => True
  end.

Lemma waiting_len : forall h, waiting h -> length h <= handWait.
Proof.
  intros h H. unfold handWait. destruct h as [|x [|a [|b [|d t]]]]; cbn [length] in *; try lia.
  unfold waiting in H. cbn [length] in H. unfold maxHandshakeT in H. lia.
Qed.

Section Inv.
  Variable S : Type.
  Variable on_msg : S -> bytes -> option (S * want * option N).
  Variable on_ccs : S -> option (S * want).
  Variable dec : bool -> N -> bytes -> option bytes.

  Notation tconn := (tconn S).
  Notation drive := (drive S on_msg).
  Notation body_step := (body_step S on_ccs dec).
  Notation tstep := (tstep S on_msg on_ccs dec).
  Notation trun := (trun S on_msg on_ccs dec).
  Notation after_return := (after_return S on_msg).

  Definition inv (c : tconn) : Prop :=
    t_retry c <= 17 /\
    length (t_hand c) <= handPeak /\
    (t_alive c = true ->
       t_retry c <= 16 /\
       match t_want c with
       | WMsg => waiting (t_hand c)
       | WCcs => length (t_hand c) <= (16 * 1024 - 1)
       | WApp => length (t_hand c) <= (16 * 1024) /\ (t_armed c = true \/ t_peek c = true -> t_hand c = []) /\
                 (t_peek c = true -> t_armed c = false)
       end).

  (* ---------- drive ---------- *)
  (* result of drive: never longer; a live connection still in readHandshake waits; if the
     handshake layer moved on to something else, the first message is gone *)
  Lemma drive_spec : forall fuel (c : tconn),
    length (t_hand c) < fuel ->
    let c' := drive fuel c in
    length (t_hand c') <= length (t_hand c) /\
    t_retry c' = t_retry c /\
    (t_alive c' = true -> t_want c' = WMsg -> waiting (t_hand c')) /\
    (t_alive c = true -> t_want c = WMsg -> t_want c' <> WMsg ->
       match t_hand c with
       | _ :: a :: b :: d :: _ => length (t_hand c') + 4 + be24n a b d <= length (t_hand c)
       | _ => False
       end) /\
    (t_want c' = WApp -> t_want c <> WApp -> t_armed c' = false /\ t_peek c' = false).
  Proof.
    induction fuel as [|k IH]; intros c Hf; [lia|].
    cbn [ConnT.drive].
    destruct (t_alive c) eqn:Ea; cbn [negb orb].
    2:{ cbn zeta. repeat split; auto; try lia; try congruence. }
    destruct (want_eqb (t_want c) WMsg) eqn:Ew; cbn [negb].
    2:{ cbn zeta. assert (t_want c <> WMsg) by (destruct (t_want c); cbn in Ew; congruence).
        repeat split; auto; try lia; try congruence; intros; congruence. }
    assert (Hw : t_want c = WMsg) by (destruct (t_want c); cbn in Ew; congruence).
    destruct (t_hand c) as [|x [|a [|b [|d t]]]] eqn:Eh.
    1-4: (cbn zeta; rewrite Eh; repeat split; auto; try lia; intros; try congruence; exact I).
    remember (be24n a b d) as n eqn:Hn.
    destruct (maxHandshakeT <? n) eqn:E1.
    { cbn zeta. cbn [kill t_hand t_retry t_alive t_want t_armed t_peek]. rewrite Eh.
      repeat split; auto; try lia; intros; try congruence. }
    apply Nat.ltb_ge in E1.
    destruct (length (x :: a :: b :: d :: t) <? 4 + n) eqn:E2.
    { cbn zeta. rewrite Eh. apply Nat.ltb_lt in E2.
      repeat split; auto; try lia; intros; try congruence;
      try (unfold waiting; rewrite <- Hn; split; assumption). }
    apply Nat.ltb_ge in E2.
    set (h := x :: a :: b :: d :: t) in *.
    assert (Hrest : length (skipn (4 + n) h) + 4 + n <= length h).
    { rewrite skipn_length. lia. }
    destruct (on_msg (t_hs c) (firstn (4 + n) h)) as [[[s w] v]|] eqn:Eo.
    2:{ cbn zeta. cbn [kill set_hand t_hand t_retry t_alive t_want t_armed t_peek].
        repeat split; auto; try lia; intros; try congruence. }
    set (c1 := mkT S true w s (skipn (4 + n) h) (t_retry c)
                   match v with Some x0 => Some x0 | None => t_vers c end
                   (t_cipher c) (t_delivered c) false false).
    assert (Hf1 : length (t_hand c1) < k) by (cbn [c1 t_hand]; lia).
    pose proof (IH c1 Hf1) as IH1. cbn zeta in IH1.
    destruct IH1 as (I1 & I2 & I3 & I4 & I5).
    cbn zeta. fold c1.
    cbn [c1 t_hand t_retry t_alive t_want] in I1, I2.
    assert (I5' : t_want (drive k c1) = WApp -> t_armed (drive k c1) = false /\ t_peek (drive k c1) = false).
    { intros A.
      destruct (want_eqb w WApp) eqn:Eww.
      + assert (w = WApp) by (destruct w; cbn in Eww; congruence). subst w.
        destruct k as [|k']; [lia|].
        cbn [ConnT.drive c1 t_alive t_want want_eqb negb orb]. cbn [t_armed t_peek]. auto.
      + apply I5; auto. cbn [c1 t_want]. destruct w; cbn in Eww; congruence. }
    split; [lia|]. split; [exact I2|]. split; [exact I3|]. split.
    - intros _ _ _. lia.
    - intros A _. apply I5'. exact A.
  Qed.

  (* appending one record's plaintext to a waiting buffer and driving *)
  Lemma consumed_bound : forall h0 data L,
    waiting h0 -> length data <= maxPlaintext ->
    match h0 ++ data with
    | _ :: a :: b :: d :: _ => L + 4 + be24n a b d <= length (h0 ++ data)
    | _ => False
    end -> L <= 16 * 1024 - 1.
  Proof.
    intros h0 data L Hwait Hd Hc. unfold maxPlaintext in Hd.
    destruct h0 as [|x [|a [|b [|d t]]]].
    1-4: (destruct data as [|d0 [|d1 [|d2 [|d3 dt]]]]; cbn [app length] in Hc; try contradiction;
          cbn [length] in Hd; lia).
    cbn [app length] in Hc. unfold waiting in Hwait. rewrite app_length in Hc. cbn [length] in Hwait. lia.
  Qed.

  Lemma drive_after_append : forall (c : tconn) data,
    t_alive c = true -> t_want c = WMsg -> waiting (t_hand c) -> length data <= maxPlaintext ->
    t_retry c <= 16 ->
    let c1 := set_hand S c (t_hand c ++ data) in
    inv (drive (Datatypes.S (length (t_hand c1))) c1).
  Proof.
    intros c data Ha Hw Hwait Hd Hr c1.
    pose proof (drive_spec (Datatypes.S (length (t_hand c1))) c1 (Nat.lt_succ_diag_r _)) as D.
    cbn zeta in D. destruct D as (D1 & D2 & D3 & D4 & D5).
    set (c' := drive (Datatypes.S (length (t_hand c1))) c1) in *.
    assert (Hc1 : length (t_hand c1) <= handWait + maxPlaintext).
    { cbn [c1 set_hand t_hand]. rewrite app_length. pose proof (waiting_len _ Hwait). lia. }
    assert (A1 : t_alive c1 = true) by exact Ha.
    assert (W1 : t_want c1 = WMsg) by exact Hw.
    unfold inv. cbn [c1 set_hand t_retry] in D2.
    split; [lia|]. split; [unfold handPeak, handWait, maxPlaintext in *; lia|].
    intros Ha'. split; [lia|].
    destruct (t_want c') eqn:Ew'.
    - apply D3; auto.
    - assert (Hne : WCcs <> WMsg) by discriminate.
      pose proof (D4 A1 W1 Hne) as Hc. cbn [c1 set_hand t_hand] in Hc.
      apply (consumed_bound (t_hand c) data); assumption.
    - assert (Hne : WApp <> WMsg) by discriminate.
      pose proof (D4 A1 W1 Hne) as Hc. cbn [c1 set_hand t_hand] in Hc.
      pose proof (consumed_bound (t_hand c) data _ Hwait Hd Hc) as Hb.
      assert (Hnw : t_want c1 <> WApp) by congruence.
      destruct (D5 eq_refl Hnw) as [F1 F2].
      split; [lia|]. split; [intros [F|F]; congruence | intros; assumption].
  Qed.

  (* ---------- one step ---------- *)
  Lemma inv_kill : forall c : tconn, inv c -> inv (kill c).
  Proof.
    intros c (A & B & C). unfold inv. cbn [kill t_retry t_hand t_alive].
    split; [exact A|]. split; [exact B|]. intros; discriminate.
  Qed.

  Lemma inv_retry : forall c : tconn, inv c -> t_alive c = true -> inv (retry_or_die S c).
  Proof.
    intros c (A & B & C) Ha. destruct (C Ha) as (R & W). unfold retry_or_die.
    destruct (maxUselessRecords <? Datatypes.S (t_retry c)) eqn:E.
    - unfold inv. cbn [kill set_retry t_retry t_hand t_alive]. split; [lia|]. split; [exact B|]. intros; discriminate.
    - apply Nat.ltb_ge in E. unfold maxUselessRecords in E.
      unfold inv. cbn [set_retry t_retry t_hand t_alive t_want t_armed t_peek].
      split; [lia|]. split; [exact B|]. intros _. split; [lia|]. exact W.
  Qed.

  Lemma inv_enter : forall (c : tconn) r, inv c -> inv (enter S c r).
  Proof.
    intros c r H. unfold enter.
    destruct (t_peek c) eqn:Ep; [exact H|]. destruct H as (A & B & C).
    destruct (t_armed c && (r_typ r =? 21)%N && r_buffered r) eqn:E.
    - unfold inv. cbn [set_flags t_retry t_hand t_alive t_want t_armed t_peek].
      split; [exact A|]. split; [exact B|]. intros Ha. destruct (C Ha) as (R & W). split; [exact R|].
      destruct (t_want c); auto. destruct W as (W1 & W2 & W3). split; [exact W1|].
      split; [|reflexivity]. intros _. apply W2.
      apply andb_true_iff in E as [E _]. apply andb_true_iff in E as [E _]. left; exact E.
    - unfold inv. cbn [set_flags t_retry t_hand t_alive t_want t_armed t_peek].
      split; [exact A|]. split; [exact B|]. intros Ha. destruct (C Ha) as (R & W). split; [exact R|].
      destruct (t_want c); auto. destruct W as (W1 & W2 & W3). split; [exact W1|].
      split; [intros [F|F]; discriminate | reflexivity].
  Qed.

  Lemma enter_same : forall (c : tconn) r,
    t_alive (enter S c r) = t_alive c /\ t_want (enter S c r) = t_want c /\ t_hand (enter S c r) = t_hand c /\
    t_retry (enter S c r) = t_retry c /\ t_hs (enter S c r) = t_hs c /\ t_delivered (enter S c r) = t_delivered c.
  Proof.
    intros. unfold enter. destruct (t_peek c); [auto 10|].
    destruct (t_armed c && (r_typ r =? 21)%N && r_buffered r); cbn; auto 10.
  Qed.

  Lemma set_retry0_inv : forall c : tconn, inv c -> inv (set_retry S c 0).
  Proof.
    intros c (A & B & C). unfold inv. cbn [set_retry t_retry t_hand t_alive t_want t_armed t_peek].
    split; [lia|]. split; [exact B|]. intros Ha. destruct (C Ha) as (R & W). split; [lia|exact W].
  Qed.

  (* a live state with an empty handshake buffer, whatever it wants next *)
  Lemma inv_empty : forall (c : tconn), t_retry c <= 16 -> t_hand c = [] ->
    (t_want c = WApp -> t_peek c = true -> t_armed c = false) -> inv c.
  Proof.
    intros c R E P. unfold inv. rewrite E. cbn [length]. unfold handPeak.
    split; [lia|]. split; [lia|]. intros _. split; [exact R|].
    destruct (t_want c); [exact I | lia |]. split; [lia|]. split; [auto | auto].
  Qed.

  Lemma inv_tstep : forall (c : tconn) r, inv c -> inv (tstep c r).
  Proof.
    intros c0 r Hinv0. unfold ConnT.tstep.
    destruct (t_alive c0) eqn:Ea0; cbn [negb]; [|exact Hinv0].
    pose proof (inv_enter c0 r Hinv0) as Hinv.
    destruct (enter_same c0 r) as (Ea & _).
    set (c := enter S c0 r) in *. rewrite Ea0 in Ea.
    destruct (hdr_ok S c (r_typ r) (r_vers r) (length (r_body r))); cbn [negb]; [|apply inv_kill; exact Hinv].
    unfold ConnT.body_step.
    destruct (dec (t_cipher c) (r_typ r) (r_body r)) as [data|]; [|apply inv_kill; exact Hinv].
    destruct (maxPlaintext <? length data) eqn:Emp; [apply inv_kill; exact Hinv|].
    apply Nat.ltb_ge in Emp.
    destruct (negb (t_cipher c) && (r_typ r =? 23)%N); [apply inv_kill; exact Hinv|].
    set (cr := if negb (r_typ r =? 21)%N && negb (r_typ r =? 20)%N && (0 <? length data) then set_retry S c 0 else c).
    assert (Hcr : inv cr) by (unfold cr; destruct (_ && _ && _); [apply set_retry0_inv|]; exact Hinv).
    assert (Ecr : t_alive cr = true /\ t_want cr = t_want c /\ t_hand cr = t_hand c /\ t_armed cr = t_armed c /\ t_peek cr = t_peek c).
    { unfold cr; destruct (_ && _ && _); cbn; auto. }
    destruct Ecr as (Eca & Ecw & Ech & Ecar & Ecp).
    clearbody cr. rewrite <- !Ecw.
    pose proof Hcr as (A & B & C). destruct (C Eca) as (R & W).
    destruct (r_typ r =? 21)%N eqn:T21.
    { (* alert *)
      destruct data as [|lvl [|code [|x t]]]; try (apply inv_kill; exact Hcr).
      destruct (code =? 0)%N; [apply inv_kill; exact Hcr|].
      destruct (lvl =? 1)%N; [apply inv_retry; assumption | apply inv_kill; exact Hcr]. }
    destruct (r_typ r =? 20)%N eqn:T20.
    { (* change_cipher_spec *)
      destruct data as [|one rest]; [apply inv_kill; exact Hcr|].
      destruct one as [|[p|p|]]; try (apply inv_kill; exact Hcr).
      destruct rest as [|x t]; [|apply inv_kill; exact Hcr].
      destruct (empty (t_hand cr)) eqn:Ee; cbn [negb]; [|apply inv_kill; exact Hcr].
      apply empty_true in Ee.
      destruct (want_eqb (t_want cr) WCcs); cbn [negb]; [|apply inv_kill; exact Hcr].
      destruct (on_ccs (t_hs cr)) as [[s w]|]; [|apply inv_kill; exact Hcr].
      unfold ConnT.after_return. cbn [t_alive negb t_want].
      destruct w.
      - cbn [t_hand]. rewrite Ee. cbn [length ConnT.drive t_alive t_want want_eqb negb orb t_hand].
        apply inv_empty; cbn [t_retry t_hand t_want]; auto; try (intros; discriminate).
      - apply inv_empty; cbn [t_retry t_hand t_want]; auto; try (intros; discriminate).
      - cbn [t_peek t_hand]. rewrite Ee. cbn [empty negb]. rewrite andb_false_r.
        apply inv_empty; cbn [t_retry t_hand t_want t_peek]; auto; try (intros; discriminate). }
    destruct (r_typ r =? 23)%N eqn:T23.
    { (* application data *)
      destruct (negb (want_eqb (t_want cr) WApp) || want_eqb (t_want cr) WCcs) eqn:Eq; [apply inv_kill; exact Hcr|].
      destruct (length data =? 0) eqn:El; [apply inv_retry; assumption|].
      apply orb_false_iff in Eq as [Eq _]. apply negb_false_iff in Eq.
      assert (Hwa : t_want cr = WApp) by (destruct (t_want cr); cbn in Eq; congruence).
      rewrite Hwa in W. destruct W as (W1 & W2 & W3).
      unfold ConnT.after_return. cbn [t_alive negb t_want]. rewrite Hwa.
      cbn [t_peek t_hand]. cbn [want_eqb andb].
      destruct (empty (t_hand cr)) eqn:Ee; cbn [negb].
      - apply empty_true in Ee. destruct (t_peek cr) eqn:Epk.
        + apply inv_empty; cbn [set_flags t_retry t_hand t_want t_peek]; auto; try (intros; discriminate).
        + apply inv_empty; cbn [t_retry t_hand t_want t_peek]; auto; try (intros; discriminate).
      - unfold inv. cbn [kill t_retry t_hand t_alive]. split; [lia|]. split; [exact B|]. intros; discriminate. }
    destruct (r_typ r =? 22)%N eqn:T22; [|apply inv_kill; exact Hcr].
    (* handshake *)
    destruct ((length data =? 0) || want_eqb (t_want cr) WCcs) eqn:Eq; [apply inv_kill; exact Hcr|].
    apply orb_false_iff in Eq as [El Eq].
    unfold ConnT.after_return. cbn [set_hand t_alive t_want negb]. rewrite Eca. cbn [negb].
    destruct (t_want cr) eqn:Ewc.
    - cbn [t_hand]. apply (drive_after_append cr data Eca Ewc W Emp R).
    - cbn in Eq. discriminate.
    - destruct W as (W1 & W2 & W3).
      cbn [t_peek t_hand set_hand]. cbn [want_eqb andb].
      (* Conn.Read refuses the record, in its read loop and in its read-ahead call alike *)
      assert (Hne : empty (t_hand cr ++ data) = false).
      { apply Nat.eqb_neq in El. destruct (t_hand cr); destruct data; cbn [app empty length] in *; try reflexivity. lia. }
      rewrite Hne. cbn [negb].
      unfold inv. cbn [kill set_hand t_retry t_hand t_alive]. rewrite app_length.
      unfold handPeak, maxPlaintext in *. split; [lia|]. split; [lia|]. intros; discriminate.
  Qed.

  Theorem inv_trun : forall rs (c : tconn), inv c -> inv (trun c rs).
  Proof.
    induction rs as [|r rs IH]; intros c H; cbn [ConnT.trun fold_left]; [exact H|].
    apply IH. apply inv_tstep. exact H.
  Qed.

  (* ---------- non-advancing records ---------- *)
  (* the record is dropped: readRecordOrCCS recursed through retryReadRecord instead of returning *)
  Definition stall_step (c : tconn) (r : trec) : bool :=
    let c1 := enter S c r in
    t_alive c && hdr_ok S c1 (r_typ r) (r_vers r) (length (r_body r)) &&
    negb (snd (body_step c1 (r_typ r) (r_body r))).

  Fixpoint all_stall (c : tconn) (rs : list trec) : Prop :=
    match rs with
    | [] => True
    | r :: t => stall_step c r = true /\ all_stall (tstep c r) t
    end.

  Lemma retry_or_die_fields : forall c : tconn,
    t_retry (retry_or_die S c) = Datatypes.S (t_retry c) /\ t_hand (retry_or_die S c) = t_hand c /\
    t_want (retry_or_die S c) = t_want c /\ t_delivered (retry_or_die S c) = t_delivered c /\
    (t_alive (retry_or_die S c) = true -> Datatypes.S (t_retry c) <= 16).
  Proof.
    intros c. unfold retry_or_die. destruct (maxUselessRecords <? Datatypes.S (t_retry c)) eqn:E; cbn.
    - repeat split; auto. intros; discriminate.
    - apply Nat.ltb_ge in E. unfold maxUselessRecords in E. repeat split; auto.
  Qed.

  Lemma body_step_cases : forall (c : tconn) typ body,
    snd (body_step c typ body) = true \/ body_step c typ body = (retry_or_die S c, false).
  Proof.
    intros c typ body. unfold ConnT.body_step.
    destruct (dec (t_cipher c) typ body) as [data|]; [|left; reflexivity].
    destruct (maxPlaintext <? length data); [left; reflexivity|].
    destruct (negb (t_cipher c) && (typ =? 23)%N); [left; reflexivity|].
    destruct (typ =? 21)%N eqn:T21.
    { cbn [negb andb].
      destruct data as [|lvl [|code [|x t]]]; try (left; reflexivity).
      destruct (code =? 0)%N; [left; reflexivity|]. destruct (lvl =? 1)%N; [|left; reflexivity].
      right; reflexivity. }
    destruct (typ =? 20)%N eqn:T20.
    { cbn [negb andb].
      destruct data as [|one rest]; [left; reflexivity|].
      destruct one as [|[p|p|]]; try (left; reflexivity).
      destruct rest; [|left; reflexivity].
      destruct (negb (empty (t_hand c))); [left; reflexivity|].
      destruct (negb (want_eqb (t_want c) WCcs)); [left; reflexivity|].
      destruct (on_ccs (t_hs c)) as [[s w]|]; left; reflexivity. }
    destruct (typ =? 23)%N eqn:T23.
    { destruct (length data =? 0) eqn:El.
      - apply Nat.eqb_eq in El. rewrite El. cbn [Nat.ltb Nat.leb negb andb].
        destruct (negb (want_eqb (t_want c) WApp) || want_eqb (t_want c) WCcs); [left; reflexivity|].
        right; reflexivity.
      - destruct (negb (typ =? 21)%N && negb (typ =? 20)%N && (0 <? length data)).
        + cbn [set_retry t_want]. destruct (negb (want_eqb (t_want c) WApp) || want_eqb (t_want c) WCcs); left; reflexivity.
        + destruct (negb (want_eqb (t_want c) WApp) || want_eqb (t_want c) WCcs); left; reflexivity. }
    destruct (typ =? 22)%N.
    - destruct (negb false && negb false && (0 <? length data)).
      + cbn [set_retry t_want]. destruct ((length data =? 0) || want_eqb (t_want c) WCcs); left; reflexivity.
      + destruct ((length data =? 0) || want_eqb (t_want c) WCcs); left; reflexivity.
    - left; reflexivity.
  Qed.

  (* a dropped record changes nothing but the counter, which it increments; the connection
     survives only while the counter stays within maxUselessRecords *)
  Lemma stall_step_spec : forall (c : tconn) r, stall_step c r = true ->
    t_retry (tstep c r) = Datatypes.S (t_retry c) /\ t_hand (tstep c r) = t_hand c /\
    t_want (tstep c r) = t_want c /\ t_delivered (tstep c r) = t_delivered c /\
    (t_alive (tstep c r) = true -> Datatypes.S (t_retry c) <= 16).
  Proof.
    intros c0 r H. unfold stall_step in H. cbn zeta in H.
    apply andb_true_iff in H as [H Hs]. apply andb_true_iff in H as [Ha Hh].
    unfold ConnT.tstep. rewrite Ha, Hh. cbn [negb].
    destruct (enter_same c0 r) as (E1 & E2 & E3 & E4 & E5 & E6).
    apply negb_true_iff in Hs.
    destruct (body_step_cases (enter S c0 r) (r_typ r) (r_body r)) as [B|B]; [congruence|].
    rewrite B.
    destruct (retry_or_die_fields (enter S c0 r)) as (F1 & F2 & F3 & F4 & F5).
    rewrite F1, F2, F3, F4, E2, E3, E4, E6. rewrite E4 in F5. auto.
  Qed.

  Theorem stall_bound : forall rs (c : tconn),
    all_stall c rs -> t_alive (trun c rs) = true -> t_retry c + length rs <= 16 \/ rs = [].
  Proof.
    induction rs as [|r rs IH]; intros c Hs Ha; [right; reflexivity|left].
    destruct Hs as [H1 H2]. cbn [ConnT.trun fold_left] in Ha.
    destruct (stall_step_spec c r H1) as (R & _ & _ & _ & A).
    destruct (IH _ H2 Ha) as [IH1|IH1]; [|subst rs].
    - rewrite R in IH1. cbn [length]. lia.
    - cbn [ConnT.trun fold_left] in Ha. specialize (A Ha). cbn [length]. lia.
  Qed.

  (* ---------- byte level ---------- *)
  Notation fill := (fill).
  Lemma fill_some : forall t raw need raw' t',
    fill raw t need = Some (raw', t') ->
    raw' ++ concat t' = raw ++ concat t /\ need <= length raw' /\ length raw <= length raw'.
  Proof.
    induction t as [|ch t IH]; intros raw need raw' t' H; cbn [ConnT.fill] in H.
    - destruct (need <=? length raw) eqn:E; [|discriminate]. injection H as <- <-.
      apply Nat.leb_le in E. auto.
    - destruct (need <=? length raw) eqn:E.
      + injection H as <- <-. apply Nat.leb_le in E. auto.
      + apply IH in H as (H1 & H2 & H3). rewrite H1. cbn [concat]. rewrite app_assoc.
        rewrite app_length in H3. repeat split; auto; lia.
  Qed.

  Lemma fill_none : forall t raw need, fill raw t need = None -> length (raw ++ concat t) < need.
  Proof.
    induction t as [|ch t IH]; intros raw need H; cbn [ConnT.fill] in H.
    - destruct (need <=? length raw) eqn:E; [discriminate|]. apply Nat.leb_gt in E.
      cbn [concat]. rewrite app_nil_r. exact E.
    - destruct (need <=? length raw) eqn:E; [discriminate|].
      apply IH in H. cbn [concat]. rewrite app_assoc. exact H.
  Qed.

  (* if no transport read returns more than K bytes, rawInput stops growing below need + K *)
  Lemma fill_bound : forall K t raw need raw' t',
    Forall (fun ch => length ch <= K) t -> fill raw t need = Some (raw', t') ->
    Forall (fun ch => length ch <= K) t' /\ (length raw' <= length raw \/ length raw' < need + K).
  Proof.
    induction t as [|ch t IH]; intros raw need raw' t' HK H; cbn [ConnT.fill] in H.
    - destruct (need <=? length raw); [|discriminate]. injection H as <- <-. auto.
    - destruct (need <=? length raw) eqn:E.
      + injection H as <- <-. auto.
      + apply Nat.leb_gt in E. inversion HK as [|? ? Hch Ht]; subst.
        destruct (IH _ _ _ _ Ht H) as (A & B). split; [exact A|].
        rewrite app_length in B. right. lia.
  Qed.

  Lemma hdr_ok_len : forall (c : tconn) typ vers n, hdr_ok S c typ vers n = true -> n <= maxCiphertext.
  Proof.
    intros c typ vers n H. unfold hdr_ok in H.
    destruct (negb (want_eqb (t_want c) WApp) && (typ =? 128)%N); [discriminate|].
    destruct (match t_vers c with Some v => _ | None => _ end); [discriminate|].
    destruct (maxCiphertext <? n) eqn:E; [discriminate|]. apply Nat.ltb_ge in E. exact E.
  Qed.

  Notation brun := (brun S on_msg on_ccs dec).

  (* progress: every iteration of the read loop takes at least one record header off the bytes
     still to be consumed, so the loop never runs longer than there is input *)
  Theorem brun_progress : forall fuel (c : tconn) raw t peak,
    pending_bytes raw t < recordHeaderLen * fuel ->
    snd (fst (brun fuel c raw t peak)) <> OutOfFuel.
  Proof.
    induction fuel as [|k IH]; intros c raw t peak H; [unfold recordHeaderLen in H; lia|].
    cbn [ConnT.brun].
    destruct (t_alive c); cbn [negb]; [|cbn; discriminate].
    destruct (ConnT.fill raw t recordHeaderLen) as [[raw1 t1]|] eqn:F1; [|cbn; discriminate].
    destruct (hdr_ok _ _ _ _ _); cbn [negb]; [|cbn; discriminate].
    set (n := N.to_nat (be16 (nth 3 raw1 0%N) (nth 4 raw1 0%N))).
    destruct (ConnT.fill raw1 t1 (recordHeaderLen + n)) as [[raw2 t2]|] eqn:F2; [|cbn; discriminate].
    apply IH.
    apply fill_some in F1 as (A1 & B1 & C1). apply fill_some in F2 as (A2 & B2 & C2).
    unfold pending_bytes in *. rewrite skipn_length.
    assert (length raw2 + length (concat t2) = length raw + length (concat t)).
    { rewrite <- !app_length. rewrite A2, A1. reflexivity. }
    unfold recordHeaderLen in *. lia.
  Qed.

  (* rawInput never holds more than one maximal record plus what one transport read returns *)
  Theorem brun_raw_bound : forall K fuel (c : tconn) raw t peak,
    Forall (fun ch => length ch <= K) t ->
    let R := recordHeaderLen + maxCiphertext + K in
    length raw <= R -> peak <= R ->
    snd (brun fuel c raw t peak) <= R /\ length (snd (fst (fst (fst (brun fuel c raw t peak))))) <= R.
  Proof.
    intros K. induction fuel as [|k IH]; intros c raw t peak HK R Hr Hp; cbn [ConnT.brun].
    - cbn [fst snd]. split; [lia|exact Hr].
    - destruct (t_alive c); cbn [negb]; [|cbn [fst snd]; split; [lia|exact Hr]].
      destruct (ConnT.fill raw t recordHeaderLen) as [[raw1 t1]|] eqn:F1.
      2:{ apply fill_none in F1. cbn [fst snd]. unfold R, recordHeaderLen in *. split; lia. }
      destruct (fill_bound K _ _ _ _ _ HK F1) as (HK1 & B1).
      assert (Hr1 : length raw1 <= R) by (unfold R, recordHeaderLen in *; lia).
      destruct (hdr_ok S c _ _ _) eqn:Eh; cbn [negb].
      2:{ cbn [fst snd]. split; lia. }
      apply hdr_ok_len in Eh.
      set (n := N.to_nat (be16 (nth 3 raw1 0%N) (nth 4 raw1 0%N))) in *.
      destruct (ConnT.fill raw1 t1 (recordHeaderLen + n)) as [[raw2 t2]|] eqn:F2.
      2:{ apply fill_none in F2. cbn [fst snd]. unfold R, recordHeaderLen in *. split; lia. }
      destruct (fill_bound K _ _ _ _ _ HK1 F2) as (HK2 & B2).
      assert (Hr2 : length raw2 <= R) by (unfold R, recordHeaderLen in *; lia).
      apply IH; auto.
      + rewrite skipn_length. lia.
      + lia.
  Qed.

  Lemma inv_init : forall s w, inv (init s w).
  Proof. intros s w. apply inv_empty; unfold init; cbn [t_retry t_hand t_want t_peek t_armed]; auto; try lia. Qed.
End Inv.

(* ---------- the machine without fix F8: no bound after completion ---------- *)
Definition id_dec (_ : bool) (_ : N) (b : bytes) : option bytes := Some b.
Definition no_msg (_ : unit) (_ : bytes) : option (unit * want * option N) := None.
Definition no_ccs (_ : unit) : option (unit * want) := None.
Definition hs_rec : trec := mkRec 22%N 257%N [7%N] false.

Lemma F8_step : forall c : tconn unit,
  t_alive c = true -> t_want c = WApp -> t_vers c = None -> t_cipher c = false ->
  let c' := tstep_F8 unit no_msg no_ccs id_dec c hs_rec in
  t_alive c' = true /\ t_want c' = WApp /\ t_vers c' = None /\ t_cipher c' = false /\
  length (t_hand c') = length (t_hand c) + 1.
Proof.
  intros c Ha Hw Hv Hc.
  destruct c as [al wa hs hand rt ve ci de ar pe]. cbn [t_alive t_want t_vers t_cipher] in *. subst.
  cbn zeta.
  assert (L : forall h : bytes, length (h ++ [7%N]) = length h + 1) by (intros; rewrite app_length; reflexivity).
  destruct ar, pe; vm_compute; rewrite ?L; repeat split; auto.
Qed.

Lemma F8_grows : forall k (c : tconn unit),
  t_alive c = true -> t_want c = WApp -> t_vers c = None -> t_cipher c = false ->
  let c' := fold_left (tstep_F8 unit no_msg no_ccs id_dec) (repeat hs_rec k) c in
  t_alive c' = true /\ length (t_hand c') = length (t_hand c) + k.
Proof.
  induction k as [|k IH]; intros c Ha Hw Hv Hc; cbn [repeat fold_left].
  - split; [exact Ha | lia].
  - destruct (F8_step c Ha Hw Hv Hc) as (A & B & C & D & E).
    destruct (IH _ A B C D) as (I1 & I2). split; [exact I1|]. rewrite I2, E. lia.
Qed.

Theorem F8_unbounded : forall B, exists rs,
  let c := fold_left (tstep_F8 unit no_msg no_ccs id_dec) rs (init tt WApp) in
  t_alive c = true /\ B < length (t_hand c).
Proof.
  intros B. exists (repeat hs_rec (S B)).
  destruct (F8_grows (S B) (init tt WApp) eq_refl eq_refl eq_refl eq_refl) as (A & L).
  cbn zeta. split; [exact A|]. rewrite L. cbn. lia.
Qed.

(* with the fix the first such record ends the connection *)
Lemma fixed_dies : t_alive (tstep unit no_msg no_ccs id_dec (init tt WApp) hs_rec) = false.
Proof. vm_compute. reflexivity. Qed.

(* ---------- the statements used by Props/C09.v ---------- *)
Theorem t_buffers : forall S on_msg on_ccs dec (s : S) w rs,
  let c := trun S on_msg on_ccs dec (init s w) rs in
  length (t_hand c) <= handPeak /\ t_retry c <= 17 /\
  (t_alive c = true ->
     t_retry c <= maxUselessRecords /\
     match t_want c with
     | WMsg => length (t_hand c) <= handWait
     | WCcs => length (t_hand c) <= 16 * 1024 - 1
     | WApp => length (t_hand c) <= 16 * 1024
     end).
Proof.
  intros S on_msg on_ccs dec s w rs c.
  pose proof (inv_trun S on_msg on_ccs dec rs (init s w) (inv_init S on_msg on_ccs s w)) as (A & B & C).
  fold c in A, B, C. split; [exact B|]. split; [exact A|].
  intros Ha. destruct (C Ha) as (R & W). split; [exact R|].
  destruct (t_want c); [apply waiting_len; exact W | exact W | apply W].
Qed.

Theorem t_progress : forall S on_msg on_ccs dec fuel (c : tconn S) raw t peak,
  pending_bytes raw t < recordHeaderLen * fuel ->
  snd (fst (brun S on_msg on_ccs dec fuel c raw t peak)) <> OutOfFuel.
Proof. exact brun_progress. Qed.

Theorem t_rawinput : forall S on_msg on_ccs dec K fuel (c : tconn S) raw t peak,
  Forall (fun ch => length ch <= K) t ->
  let R := recordHeaderLen + maxCiphertext + K in
  length raw <= R -> peak <= R ->
  snd (brun S on_msg on_ccs dec fuel c raw t peak) <= R /\
  length (snd (fst (fst (fst (brun S on_msg on_ccs dec fuel c raw t peak))))) <= R.
Proof. exact brun_raw_bound. Qed.

Theorem t_stall : forall S on_msg on_ccs dec rs (c : tconn S),
  all_stall S on_msg on_ccs dec c rs -> t_alive (trun S on_msg on_ccs dec c rs) = true ->
  t_retry c + length rs <= maxUselessRecords \/ rs = [].
Proof. exact stall_bound. Qed.

(* non-vacuity: a handshake layer that takes one message and is then complete; the message
   arrives in two records with a warning alert in between, then application data *)
Definition ex_msg (_ : unit) (_ : bytes) : option (unit * want * option N) := Some (tt, WApp, Some 257%N).
Definition ex_run : tconn unit :=
  trun unit ex_msg no_ccs (fun _ _ b => Some b) (init tt WMsg)
    [mkRec 22 257 [1; 0; 0; 3; 9]%N false; mkRec 21 257 [1; 90]%N false; mkRec 22 257 [9; 9]%N false].
Example ex_run_ok : t_alive ex_run = true /\ t_want ex_run = WApp /\ t_hand ex_run = [] /\ t_retry ex_run = 0.
Proof. vm_compute. repeat split; reflexivity. Qed.
