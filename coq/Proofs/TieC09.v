(* C09: the buffer bounds of Model/ConnT and Model/ConnD are stated over the numbers the sources declare *)
From Coq Require Import ZArith List.
From V Require Import Model.GenConsts Model.ConnT Model.ConnD.
Open Scope Z_scope.
Definition tie : Prop :=
  Z.of_nat ConnT.maxCiphertext = GenConsts.T.maxCiphertext /\
  Z.of_nat ConnT.maxPlaintext = GenConsts.T.maxPlaintext /\
  Z.of_nat ConnT.maxHandshakeT = GenConsts.T.maxHandshake /\
  Z.of_nat ConnT.maxUselessRecords = GenConsts.T.maxUselessRecords /\
  Z.of_nat ConnT.recordHeaderLen = GenConsts.T.recordHeaderLen /\
  Z.of_nat ConnD.dRecordHeaderLen = GenConsts.D.recordHeaderLen /\
  Z.of_nat ConnD.dHeaderLen = GenConsts.D.dtlcpHeaderLen /\
  Z.of_nat ConnD.maxHandshakeFragments = GenConsts.D.maxHandshakeFragments /\
  Z.of_nat ConnD.dgramBuf = GenConsts.D.maxCiphertext + GenConsts.D.recordHeaderLen /\
  GenConsts.D.maxHandshake = 65536 /\ GenConsts.D.maxUselessRecords = 16 /\
  GenConsts.D.maxPlaintext = 16384.
Lemma tie_holds : tie.
Proof. unfold tie. vm_compute. repeat split. Qed.
