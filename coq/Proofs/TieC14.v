(* C14: message type codes, extension numbers and the message size limit of Model/Codec, for both stacks *)
From Coq Require Import ZArith NArith List.
From V Require Import Model.GenConsts Model.Codec.
Open Scope Z_scope.
Definition codes (cH sH hvr cert ske creq shd cv cke fin mh e0 e3 e5 e10 e13 e16 e66 : Z) : Prop :=
  Z.of_N Codec.tClientHello = cH /\ Z.of_N Codec.tServerHello = sH /\ Z.of_N Codec.tHelloVerifyRequest = hvr /\
  Z.of_N Codec.tCertificate = cert /\ Z.of_N Codec.tServerKeyExchange = ske /\
  Z.of_N Codec.tCertificateRequest = creq /\ Z.of_N Codec.tServerHelloDone = shd /\
  Z.of_N Codec.tCertificateVerify = cv /\ Z.of_N Codec.tClientKeyExchange = cke /\ Z.of_N Codec.tFinished = fin /\
  Z.of_N Codec.maxHandshake = mh /\
  Z.of_N Codec.extServerName = e0 /\ Z.of_N Codec.extTrustedCAKeys = e3 /\ Z.of_N Codec.extStatusRequest = e5 /\
  Z.of_N Codec.extSupportedGroups = e10 /\ Z.of_N Codec.extSignatureAlgorithms = e13 /\
  Z.of_N Codec.extALPN = e16 /\ Z.of_N Codec.extClientID = e66.
Definition tie : Prop :=
  codes GenConsts.T.typeClientHello GenConsts.T.typeServerHello 3 GenConsts.T.typeCertificate
        GenConsts.T.typeServerKeyExchange GenConsts.T.typeCertificateRequest GenConsts.T.typeServerHelloDone
        GenConsts.T.typeCertificateVerify GenConsts.T.typeClientKeyExchange GenConsts.T.typeFinished
        GenConsts.T.maxHandshake GenConsts.T.extensionServerName GenConsts.T.extensionTrustedCAKeys
        GenConsts.T.extensionStatusRequest GenConsts.T.extensionSupportedGroups
        GenConsts.T.extensionSignatureAlgorithms GenConsts.T.extensionALPN GenConsts.T.extensionClientID /\
  codes GenConsts.D.typeClientHello GenConsts.D.typeServerHello GenConsts.D.typeHelloVerifyRequest
        GenConsts.D.typeCertificate
        GenConsts.D.typeServerKeyExchange GenConsts.D.typeCertificateRequest GenConsts.D.typeServerHelloDone
        GenConsts.D.typeCertificateVerify GenConsts.D.typeClientKeyExchange GenConsts.D.typeFinished
        GenConsts.D.maxHandshake GenConsts.D.extensionServerName GenConsts.D.extensionTrustedCAKeys
        GenConsts.D.extensionStatusRequest GenConsts.D.extensionSupportedGroups
        GenConsts.D.extensionSignatureAlgorithms GenConsts.D.extensionALPN GenConsts.D.extensionClientID /\
  GenConsts.D.dtlcpHeaderLen = 12 /\ GenConsts.T.finishedVerifyLength = 12 /\ GenConsts.D.finishedVerifyLength = 12 /\
  GenConsts.T.compressionNone = 0 /\ GenConsts.D.compressionNone = 0 /\
  GenConsts.T.CurveSM2 = 41 /\ GenConsts.D.CurveSM2 = 41.
Lemma tie_holds : tie.
Proof. unfold tie, codes. vm_compute. repeat split. Qed.
