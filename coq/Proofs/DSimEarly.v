(* No application data is handed to a program before its handshake has completed:
   for every script and every number of steps *)
From V Require Import Model.DSim Proofs.DSimBase.
From Coq Require Import Lia.

(* ------------------------------------------------------------------ the scan, one more event at the end *)
Fixpoint has_done (s : side) (t : list (N * ev)) : bool :=
  match t with
  | [] => false
  | (_, EDone s' true) :: r => side_eqb s s' || has_done s r
  | _ :: r => has_done s r
  end.

Definition last_check (cd sd : bool) (x : N * ev) : bool :=
  match snd x with EGot Cl => negb cd | EGot Sv => negb sd | _ => false end.

Lemma gbd_app : forall l cd sd x,
  got_before_done cd sd (l ++ [x]) =
  got_before_done cd sd l || last_check (cd || has_done Cl l) (sd || has_done Sv l) x.
Proof.
  induction l as [|[at_ e] l IH]; intros cd sd x.
  - destruct x as [a [| | |[] []|[]|]]; unfold last_check; simpl; rewrite ?orb_false_r; reflexivity.
  - destruct e as [| | |[] []|[]|]; simpl; rewrite ?IH; simpl;
      rewrite ?orb_true_r, ?orb_true_l, ?orb_assoc; reflexivity.
Qed.

Lemma has_done_app : forall s a b, has_done s (a ++ b) = has_done s a || has_done s b.
Proof.
  induction a as [|[at_ e] a IH]; intros b; simpl; [reflexivity|].
  destruct e as [| | |? []| |]; rewrite ?IH, ?orb_assoc; reflexivity.
Qed.

Lemma has_done_rev : forall s t, has_done s (rev t) = has_done s t.
Proof.
  induction t as [|[a e] t IH]; [reflexivity|]. simpl rev. rewrite has_done_app, IH.
  destruct e as [| | |? []| |]; simpl; rewrite ?orb_false_r; try reflexivity. apply orb_comm.
Qed.

Lemma gbd_cons : forall x t,
  got_before_done false false (rev (x :: t)) =
  got_before_done false false (rev t) || last_check (has_done Cl t) (has_done Sv t) x.
Proof. intros. simpl rev. rewrite gbd_app, !has_done_rev. reflexivity. Qed.

(* ------------------------------------------------------------------ the outputs of an endpoint *)
Definition app_ph (p : phase) : bool := match p with PC_App | PS_App => true | _ => false end.

Fixpoint outs_ok (d : bool) (os : list out) : bool :=
  match os with
  | [] => true
  | ODone true :: t => outs_ok true t
  | OGot :: t => d && outs_ok d t
  | _ :: t => outs_ok d t
  end.
Fixpoint outs_done (d : bool) (os : list out) : bool :=
  match os with
  | [] => d
  | ODone true :: t => outs_done true t
  | _ :: t => outs_done d t
  end.

Lemma outs_ok_true : forall os, outs_ok true os = true.
Proof. induction os as [|[dd|[]|] os IH]; simpl; auto. Qed.
Lemma outs_done_true : forall os, outs_done true os = true.
Proof. induction os as [|[dd|[]|] os IH]; simpl; auto. Qed.

Lemma outs_ok_app : forall a d b, outs_ok d (a ++ b) = outs_ok d a && outs_ok (outs_done d a) b.
Proof.
  induction a as [|[dd|[]|] a IH]; intros d b; simpl; rewrite ?IH, ?andb_assoc; reflexivity.
Qed.
Lemma outs_done_app : forall a d b, outs_done d (a ++ b) = outs_done (outs_done d a) b.
Proof. induction a as [|[dd|[]|] a IH]; intros d b; simpl; rewrite ?IH; reflexivity. Qed.

(* what an endpoint function returns, given the completion flag d of its side *)
Definition ne_ok (d : bool) (r : ep * list out) : Prop :=
  outs_ok d (snd r) = true /\ (app_ph (ph (fst r)) = true -> outs_done d (snd r) = true).

Lemma ne_ok_true : forall r, ne_ok true r.
Proof. intros r. split; [apply outs_ok_true|intros _; apply outs_done_true]. Qed.

Ltac brk :=
  repeat match goal with
  | |- context [if ?b then _ else _] => destruct b
  | |- context [let '(_, _) := ?x in _] => destruct x
  end.

Lemma fail_ne : forall e, ne_ok false (fail e).
Proof. intros e. split; simpl; [reflexivity|discriminate]. Qed.

Lemma client_msg_ne : forall c now e m, ne_ok false (client_msg c now e m).
Proof.
  intros c now e m. unfold client_msg, client_flight5, ne_ok.
  destruct (ph e) eqn:E; destruct m; try apply fail_ne; brk; simpl; rewrite ?E;
    split; try reflexivity; discriminate.
Qed.

Lemma server_msg_ne : forall c now e m, ne_ok false (server_msg c now e m).
Proof.
  intros c now e m. unfold server_msg, ne_ok.
  destruct (ph e) eqn:E; destruct m; try apply fail_ne; brk; simpl; rewrite ?E;
    split; try reflexivity; discriminate.
Qed.

Lemma recv_rec_ne : forall c now e r, app_ph (ph e) = false -> ne_ok false (recv_rec c now e r).
Proof.
  intros c now e r H. unfold recv_rec.
  assert (Same : forall os, outs_ok false os = true -> outs_done false os = false -> ne_ok false (e, os)).
  { intros os A B. split; [exact A|]. simpl. rewrite H. discriminate. }
  destruct (fin e); [apply Same; reflexivity|].
  destruct r as [epoch seq b|]; [|apply fail_ne].
  destruct (negb (epoch =? repoch e)).
  { destruct (_ && _); apply Same; reflexivity. }
  destruct (match b with BCcs => _ | _ => false end); [apply Same; reflexivity|].
  destruct (existsb _ _); [apply Same; reflexivity|].
  set (e1 := set_read e (repoch e) (seq :: seen e)).
  assert (Hp : app_ph (ph e1) = false) by exact H.
  assert (Same1 : forall os, outs_ok false os = true -> outs_done false os = false -> ne_ok false (e1, os)).
  { intros os A B. split; [exact A|]. simpl. rewrite H. discriminate. }
  clearbody e1. clear Same.
  destruct b; try apply fail_ne.
  - destruct (complete e1). { destruct (dwell e1); apply Same1; reflexivity. }
    destruct (expects_ccs (ph e1)); [apply Same1; reflexivity|].
    destruct (is_client (ph e1)); [apply client_msg_ne | apply server_msg_ne].
  - destruct (complete e1). { destruct (dwell e1); apply Same1; reflexivity. }
    simpl. destruct (ph e1); try apply fail_ne; split; simpl; try reflexivity; discriminate.
  - destruct (complete e1). { destruct (dwell e1); apply Same1; reflexivity. }
    destruct (expects_ccs (ph e1)); [apply Same1; reflexivity|].
    destruct (ph e1) as [| | | | | |[]| | | | | | |[]| |]; try apply fail_ne;
      unfold client_done, server_done, write_ccs_fin, write_app; split; simpl; reflexivity.
  - destruct (negb (complete e1) || expects_ccs (ph e1)); [apply fail_ne|].
    simpl. destruct (ph e1); try apply fail_ne; discriminate.
Qed.

Lemma recv_dgram_ne : forall c now d e d0,
  (app_ph (ph e) = true -> d0 = true) -> ne_ok d0 (recv_dgram c now e d).
Proof.
  induction d as [|r d IH]; intros e d0 H; simpl.
  - split; simpl; [reflexivity|exact H].
  - assert (H1 : ne_ok d0 (recv_rec c now e r)).
    { destruct d0; [apply ne_ok_true|]. apply recv_rec_ne.
      destruct (app_ph (ph e)); [discriminate H; reflexivity|reflexivity]. }
    destruct (recv_rec c now e r) as [e1 o1]. destruct H1 as [A B]. simpl in A, B.
    specialize (IH e1 (outs_done d0 o1) B).
    destruct (recv_dgram c now e1 d) as [e2 o2]. destruct IH as [C D]. simpl in C, D.
    split; simpl.
    + rewrite outs_ok_app, A, C. reflexivity.
    + rewrite outs_done_app. exact D.
Qed.

Lemma expire_ne : forall c now e d0,
  (app_ph (ph e) = true -> d0 = true) -> ne_ok d0 (expire c now e).
Proof.
  intros c now e d0 H. unfold expire, ne_ok, write_hello, write_app.
  destruct (ph e) eqn:E; brk; simpl; rewrite ?E; split; try reflexivity; try discriminate;
    simpl in H; exact H.
Qed.

(* ------------------------------------------------------------------ the network *)
Definition NE (n : net) : Prop :=
  got_before_done false false (rev (trace n)) = false /\
  forall s, app_ph (ph (get_ep n s)) = true -> has_done s (trace n) = true.

Lemma emit_ne : forall os n s,
  got_before_done false false (rev (trace n)) = false ->
  outs_ok (has_done s (trace n)) os = true ->
  got_before_done false false (rev (trace (emit n s os))) = false /\
  (forall s', has_done s' (trace n) = true -> has_done s' (trace (emit n s os)) = true) /\
  (outs_done (has_done s (trace n)) os = true -> has_done s (trace (emit n s os)) = true).
Proof.
  induction os as [|o os IH]; intros n s G O; simpl.
  - auto.
  - destruct o as [d|[]|]; simpl in O.
    + match goal with |- context [emit ?m s os] => specialize (IH m s) end.
      simpl trace in IH. rewrite gbd_cons in IH. simpl in IH. rewrite G in IH.
      apply IH; [reflexivity|exact O].
    + specialize (IH (log n (EDone s true)) s). simpl trace in IH. rewrite gbd_cons in IH.
      simpl in IH. rewrite G, side_eqb_refl in IH. simpl in IH.
      destruct (IH eq_refl O) as (A & B & C). split; [exact A|]. split.
      * intros s' Hs'. apply B. destruct s, s'; simpl; auto.
      * intros _. apply C. apply outs_done_true.
    + specialize (IH (log n (EDone s false)) s). simpl trace in IH. rewrite gbd_cons in IH.
      simpl in IH. rewrite G in IH. apply IH; [reflexivity|exact O].
    + apply andb_true_iff in O. destruct O as [O1 O2].
      specialize (IH (log n (EGot s)) s). simpl trace in IH. rewrite gbd_cons in IH.
      simpl in IH. rewrite G in IH. unfold last_check in IH. simpl in IH.
      apply IH; [|exact O2]. destruct s; rewrite O1; reflexivity.
Qed.

Lemma emit_NE : forall n s e os,
  NE n -> ne_ok (has_done s (trace n)) (e, os) -> NE (emit (put_ep n s e) s os).
Proof.
  intros n s e os [G P] [A B]. simpl in A, B.
  assert (T : trace (put_ep n s e) = trace n) by (destruct s; reflexivity).
  destruct (emit_ne os (put_ep n s e) s) as (X & Y & Z); rewrite ?T; try assumption.
  split; [exact X|]. intros s' Hs'.
  destruct (emit_fixed os (put_ep n s e) s) as (_ & Ec & Es & _).
  unfold get_ep in Hs'. rewrite Ec, Es in Hs'.
  destruct s, s'; simpl in Hs'.
  - apply Z. rewrite T. apply B. exact Hs'.
  - apply Y. rewrite T. apply (P Sv). exact Hs'.
  - apply Y. rewrite T. apply (P Cl). exact Hs'.
  - apply Z. rewrite T. apply B. exact Hs'.
Qed.

Definition neutral (x : ev) : bool := match x with EGot _ | EDone _ _ => false | _ => true end.

Lemma log_NE : forall n x, neutral x = true -> NE n -> NE (log n x).
Proof.
  intros n x Hx [G P]. split.
  - simpl trace. rewrite gbd_cons, G. destruct x; try discriminate; reflexivity.
  - intros s Hs. specialize (P s Hs). simpl trace. destruct x; try discriminate; simpl; exact P.
Qed.

Lemma hand_over_NE : forall c n p, NE n -> NE (hand_over c n p).
Proof.
  intros c n p H. unfold hand_over.
  pose proof (recv_dgram_ne c (now n) (p_data p) (get_ep n (other (p_from p)))
                (has_done (other (p_from p)) (trace n)) (proj2 H _)) as R.
  destruct (recv_dgram _ _ _ _) as [e os]. apply emit_NE; assumption.
Qed.

Lemma do_expire_NE : forall c n s, NE n -> NE (do_expire c n s).
Proof.
  intros c n s H. unfold do_expire.
  assert (H1 : NE (log n (EExpire s))) by (apply log_NE; [reflexivity|exact H]).
  pose proof (expire_ne c (now (log n (EExpire s))) (get_ep (log n (EExpire s)) s)
                (has_done s (trace (log n (EExpire s)))) (proj2 H1 _)) as R.
  destruct (expire _ _ _) as [e os]. apply emit_NE; assumption.
Qed.

Lemma step_NE : forall c fs n n', NE n -> step c fs n = Some n' -> NE n'.
Proof.
  intros c fs n n' H St. apply step_cases in St.
  destruct St; repeat first [apply hand_over_NE | apply do_expire_NE | apply log_NE; [reflexivity|]];
    try exact H.
  destruct H as [G P]. subst first e2.
  destruct (tie c); (split; [exact G|]); intros s Hs; destruct s; simpl in Hs |- *;
    first [apply (P Cl); exact Hs | apply (P Sv); exact Hs].
Qed.

Lemma init_NE : NE init.
Proof. split; [vm_compute; reflexivity|]. intros []; vm_compute; discriminate. Qed.

Theorem NE_invariant : forall fuel c fs, NE (fst (run fuel c fs init)).
Proof.
  intros. apply run_invariant with (P := NE).
  - intros; eapply step_NE; eauto.
  - apply init_NE.
Qed.
