(* Proofs about the concrete instances of Model/MitmWire.v: the free hash / PRF and the toy
   Finished codec satisfy the idealisation hypotheses (so the theorems of MitmProofs.v are not
   vacuous), the tlcp Finished codec is canonical, and the parsing layer never panics. *)
From V Require Import Model.MitmWire Model.CodecAll Proofs.MitmProofs Proofs.CodecAllProofs.
From Coq Require Import ZArith Lia.
Local Open Scope N_scope.

Lemma free_fin_roundtrip : forall v, free_fin_parse (free_fin_mk v) = Some v.
Proof.
  intros v. unfold free_fin_parse, free_fin_mk. cbn [app].
  change (20 =? 20) with true. change (0 =? 0) with true. cbn [andb].
  rewrite N.eqb_refl. reflexivity.
Qed.

Lemma free_crypto_ideal : crypto_ideal free_crypto.
Proof.
  unfold crypto_ideal. split; [|split; [|split]].
  - intros a b H; exact H.
  - intros k1 l1 d1 k2 l2 d2 H. cbn in H. destruct l1, l2; split; congruence.
  - intros k l d. apply free_fin_roundtrip.
  - intros v. reflexivity.
Qed.

Lemma free_fin_canonical : fin_canonical free_crypto.
Proof.
  unfold fin_canonical, free_crypto. cbn. intros m v H _.
  unfold free_fin_parse in H. destruct m as [|t [|a [|b [|c body]]]]; try discriminate.
  destruct (t =? 20) eqn:Et; cbn [andb] in H; [|discriminate].
  destruct (a =? 0) eqn:Ea; cbn [andb] in H; [|discriminate].
  destruct (b =? 0) eqn:Eb; cbn [andb] in H; [|discriminate].
  destruct (blen body =? c) eqn:Ec; [|discriminate].
  apply N.eqb_eq in Et, Ea, Eb, Ec. injection H as H. subst. reflexivity.
Qed.

Lemma free_fin_framed : forall v, framedb 4 (free_fin_mk v) = true.
Proof.
  intros v. unfold framedb, free_fin_mk. cbn [app body_len]. apply andb_true_iff. split; [|reflexivity].
  apply N.eqb_eq. unfold blen. cbn [length]. lia.
Qed.

(* the tlcp codec: type 20, 24-bit length, verify_data *)
Lemma t_fin_canonical : forall m v, t_fin_parse m = Some v -> m = t_fin_mk v.
Proof.
  intros m v H. unfold t_fin_parse in H. destruct m as [|t [|a [|b [|c body]]]]; try discriminate.
  destruct (t =? 20) eqn:Et; cbn [andb] in H; [|discriminate].
  destruct (a <? 256) eqn:Ea; cbn [andb] in H; [|discriminate].
  destruct (b <? 256) eqn:Eb; cbn [andb] in H; [|discriminate].
  destruct (c <? 256) eqn:Ec; cbn [andb] in H; [|discriminate].
  destruct (blen body =? a * 65536 + b * 256 + c) eqn:El; [|discriminate].
  apply N.eqb_eq in Et, El. apply N.ltb_lt in Ea, Eb, Ec. injection H as H. subst v t.
  unfold t_fin_mk, MitmWire.u24. rewrite El. cbn [app].
  assert (E1 : (a * 65536 + b * 256 + c) / 65536 = a).
  { symmetry. apply (N.div_unique _ 65536 a (b * 256 + c)); lia. }
  assert (E2 : ((a * 65536 + b * 256 + c) / 256) mod 256 = b).
  { assert (Q : (a * 65536 + b * 256 + c) / 256 = a * 256 + b).
    { symmetry. apply (N.div_unique _ 256 (a * 256 + b) c); lia. }
    rewrite Q. symmetry. apply (N.mod_unique _ 256 a b); lia. }
  assert (E3 : (a * 65536 + b * 256 + c) mod 256 = c).
  { symmetry. apply (N.mod_unique _ 256 (a * 256 + b) c); lia. }
  rewrite E1, E2, E3. reflexivity.
Qed.

Lemma t_fin_roundtrip : forall v, blen v < 16777216 -> t_fin_parse (t_fin_mk v) = Some v /\ framedb 4 (t_fin_mk v) = true.
Proof.
  intros v Hv. unfold t_fin_mk, t_fin_parse, MitmWire.u24. cbn [app].
  set (n := blen v) in *.
  assert (Ha : n / 65536 < 256) by (apply N.div_lt_upper_bound; lia).
  assert (Hb : (n / 256) mod 256 < 256) by (apply N.mod_lt; lia).
  assert (Hc : n mod 256 < 256) by (apply N.mod_lt; lia).
  assert (Hn : n = n / 65536 * 65536 + (n / 256) mod 256 * 256 + n mod 256).
  { pose proof (N.div_mod n 256 ltac:(lia)) as D1.
    pose proof (N.div_mod (n / 256) 256 ltac:(lia)) as D2.
    assert (Q : n / 256 / 256 = n / 65536) by (rewrite N.div_div by lia; reflexivity).
    rewrite Q in D2. lia. }
  split.
  - apply N.ltb_lt in Ha, Hb, Hc. rewrite Ha, Hb, Hc. change (20 =? 20) with true. cbn [andb].
    rewrite <- Hn. rewrite N.eqb_refl. reflexivity.
  - unfold framedb. cbn [body_len]. apply andb_true_iff. split; [|reflexivity].
    apply N.eqb_eq. rewrite <- Hn. unfold n, blen. cbn [length]. lia.
Qed.

(* readHandshake's parser (type switch + the C14 decoders) never panics, so neither does an
   endpoint driven through it, whatever it is handed *)
Lemma parse_msg_total : forall st m site, parse_msg st m <> Panic site.
Proof.
  intros st m site. unfold parse_msg. destruct (mt_of_type st (mtype m)); [apply all_total|discriminate].
Qed.

Lemma guarded_total : forall A st (step : A -> witem -> A) fail a it site,
  guarded st step fail a it <> Panicked site.
Proof.
  intros. unfold guarded. destruct it; [|discriminate].
  destruct (parse_msg st m) eqn:E; try discriminate. exfalso. eapply parse_msg_total; eauto.
Qed.

Lemma guarded_run_total : forall A st (step : A -> witem -> A) fail its a site,
  guarded_run st step fail a its <> Panicked site.
Proof.
  intros A st step fail its. induction its as [|it its IH]; intros a site; cbn [guarded_run]; [discriminate|].
  destruct (guarded st step fail a it) eqn:E; [apply IH|]. exfalso. eapply guarded_total; eauto.
Qed.

(* the datagram toy codec (12-byte header) *)
Lemma free_dfin_roundtrip : forall v, free_dfin_parse (free_dfin_mk v) = Some v.
Proof.
  intros v. unfold free_dfin_parse, free_dfin_mk. cbn [app].
  change (20 =? 20) with true. change (0 =? 0) with true. cbn [andb].
  rewrite N.eqb_refl. reflexivity.
Qed.

Lemma free_crypto_d_ideal : crypto_ideal free_crypto_d.
Proof.
  unfold crypto_ideal. split; [|split; [|split]].
  - intros a b H; exact H.
  - intros k1 l1 d1 k2 l2 d2 H. cbn in H. destruct l1, l2; split; congruence.
  - intros k l d. apply free_dfin_roundtrip.
  - intros v. reflexivity.
Qed.

Lemma free_dfin_framed : forall v, framedb 12 (free_dfin_mk v) = true.
Proof.
  intros v. unfold framedb, free_dfin_mk. cbn [app body_len]. apply andb_true_iff. split; [|reflexivity].
  apply N.eqb_eq. unfold blen. cbn [length]. lia.
Qed.
