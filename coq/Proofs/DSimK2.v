(* Complete enumeration: every configuration, every script of at most two faults over the
   finite space (indexes below 10, the four delays): the run is good and no side sends more
   than 10 datagrams. *)
From V Require Import Model.DSim Proofs.DSimBase Proofs.DSimReduce.


Lemma k2_0 : forallb (fun c => chk 10 c []) all_cfgs = true.
Proof. vm_cast_no_check (eq_refl true). Qed.

Lemma k2_1 : forallb (fun c => forallb (fun f => chk 10 c [f]) FS2) all_cfgs = true.
Proof. vm_cast_no_check (eq_refl true). Qed.

Lemma k2_2 : forallb (fun c => forallb (fun f => forallb (fun g => chk 10 c [f; g]) FS2) FS2) all_cfgs = true.
Proof. vm_cast_no_check (eq_refl true). Qed.

Theorem k2 : forall c fs, (length fs <= 2)%nat -> Forall (fun f => In f FS2) fs -> chk 10 c fs = true.
Proof.
  intros c fs L H. pose proof (all_cfgs_complete c) as Hc.
  destruct fs as [|f [|g [|h t]]].
  - pose proof k2_0 as K. rewrite forallb_forall in K. apply K. exact Hc.
  - pose proof k2_1 as K. rewrite forallb_forall in K. specialize (K c Hc).
    rewrite forallb_forall in K. inversion H; subst. apply K. assumption.
  - pose proof k2_2 as K. rewrite forallb_forall in K. specialize (K c Hc).
    inversion H as [|? ? Hf H']; subst. inversion H' as [|? ? Hg _]; subst.
    rewrite forallb_forall in K. specialize (K f Hf).
    rewrite forallb_forall in K. apply K. assumption.
  - simpl in L. exfalso. repeat apply le_S_n in L. inversion L.
Qed.
