(* C20: the major version bytes the model of the adapter routes to a stack are exactly the constants the
   adapter's detect() switch distinguishes, as read from the sources (Model/GenConsts.v is regenerated from the
   repository on every run): 1 to the TLCP stack first, 3 to the TLS stack second; every other byte is refused. *)
From Coq Require Import ZArith NArith List Bool.
From V Require Import Model.GenConsts Model.Pa.
Import ListNotations.

Definition first_segment (m : N) : transport := [[22; m; 1; 0; 5]]%N.
Definition routed_to (m : N) : option bool :=     (* Some true: TLCP, Some false: TLS, None: refused *)
  match fst (detect true true (first_segment m)) with
  | RTlcp => Some true
  | RTls => Some false
  | _ => None
  end.
Definition source_says (m : N) : option bool :=
  match GenConsts.PA.detect_case with
  | [a; b] => if Z.eqb (Z.of_N m) a then Some true else if Z.eqb (Z.of_N m) b then Some false else None
  | _ => None
  end.
Definition opt_eqb (x y : option bool) : bool :=
  match x, y with Some a, Some b => Bool.eqb a b | None, None => true | _, _ => false end.
Definition all_bytes : list N := map N.of_nat (seq 0 256).

Definition tie : Prop :=
  length GenConsts.PA.detect_case = 2%nat /\
  forall m, In m all_bytes -> opt_eqb (routed_to m) (source_says m) = true.
Lemma tie_holds : tie.
Proof.
  split; [vm_compute; reflexivity|].
  apply forallb_forall. vm_compute. reflexivity.
Qed.
