(* Proofs about Model/Lru.v.  Statements are fixed; fill in the proofs. *)
From V Require Import Model.Lru.
From Coq Require Import Permutation Sorting.Sorted.
From Coq Require Import ZifyN ZifyNat ZifyBool.
Open Scope N_scope.

(* ------------------------------------------------------------------ *)
(* Helper definitions.                                                  *)
(*                                                                      *)
(* Key observation: although the specification keeps its map in no      *)
(* particular order, every reachable spec state is in fact ordered by   *)
(* strictly descending stamp (new stamps are consed at the head, and    *)
(* sremove is a filter).  So the simulation relation can simply say     *)
(* that the concrete list is the stamp-erasure of the spec map, and     *)
(* that the spec map is stamp-descending below the clock.               *)
(* ------------------------------------------------------------------ *)

Definition strip (p : key * (val * N)) : key * val := (fst p, fst (snd p)).

(* stamps strictly descending, all strictly below [b] *)
Fixpoint desc (b : N) (m : list (key * (val * N))) : Prop :=
  match m with
  | [] => True
  | (_, (_, t)) :: r => t < b /\ desc t r
  end.

Lemma desc_mono : forall m b b', desc b m -> b <= b' -> desc b' m.
Proof.
  intros m; destruct m as [|[k [v t]] r]; intros b b' H Hle; cbn [desc] in *; [exact I|].
  destruct H as [H1 H2]. split; [lia|exact H2].
Qed.

Lemma lookup_strip : forall k m, lookup k (map strip m) = option_map fst (slookup k m).
Proof.
  intros k m; induction m as [|[k' [v t]] r IH]; [reflexivity|].
  change (map strip ((k', (v, t)) :: r)) with ((k', v) :: map strip r).
  cbn [lookup slookup].
  destruct (k =? k') eqn:E; [reflexivity|exact IH].
Qed.

Lemma remove_strip : forall k m, remove_key k (map strip m) = map strip (sremove k m).
Proof.
  intros k m; induction m as [|[k' [v t]] r IH]; [reflexivity|].
  change (map strip ((k', (v, t)) :: r)) with ((k', v) :: map strip r).
  cbn [remove_key sremove].
  destruct (k =? k') eqn:E; [exact IH|].
  change (map strip ((k', (v, t)) :: sremove k r)) with ((k', v) :: map strip (sremove k r)).
  rewrite IH. reflexivity.
Qed.

Lemma map_fst_strip : forall m, map fst (map strip m) = map fst m.
Proof.
  intros m; induction m as [|[k' [v t]] r IH]; [reflexivity|].
  change (map strip ((k', (v, t)) :: r)) with ((k', v) :: map strip r).
  cbn [map fst]. rewrite IH. reflexivity.
Qed.

Lemma removelast_map : forall (A B : Type) (f : A -> B) (l : list A),
  removelast (map f l) = map f (removelast l).
Proof.
  intros A B f l; induction l as [|a r IH]; [reflexivity|].
  destruct r as [|b r']; [reflexivity|].
  change (f a :: removelast (map f (b :: r')) = f a :: map f (removelast (b :: r'))).
  rewrite IH. reflexivity.
Qed.

Lemma length_removelast : forall (A : Type) (l : list A),
  l <> [] -> S (length (removelast l)) = length l.
Proof.
  intros A l; induction l as [|a r IH]; intros Hne; [congruence|].
  destruct r as [|b r']; [reflexivity|].
  change (S (S (length (removelast (b :: r')))) = S (length (b :: r'))).
  rewrite IH; [reflexivity|discriminate].
Qed.

Lemma desc_sremove : forall k m b, desc b m -> desc b (sremove k m).
Proof.
  intros k m; induction m as [|[k' [v t]] r IH]; intros b H; [exact I|].
  cbn [desc] in H. destruct H as [H1 H2].
  cbn [sremove]. destruct (k =? k') eqn:E.
  - apply IH. apply desc_mono with (b := t); [exact H2|lia].
  - cbn [desc]. split; [exact H1|apply IH; exact H2].
Qed.

Lemma in_sremove : forall k x m,
  In x (map fst (sremove k m)) -> In x (map fst m) /\ x <> k.
Proof.
  intros k x m; induction m as [|[k' e] r IH]; intros H; [destruct H|].
  cbn [sremove] in H. cbn [map fst In]. destruct (k =? k') eqn:E.
  - destruct (IH H) as [H1 H2]. split; [right; exact H1|exact H2].
  - cbn [map fst In] in H. destruct H as [H|H].
    + apply N.eqb_neq in E. subst x. split; [left; reflexivity|congruence].
    + destruct (IH H) as [H1 H2]. split; [right; exact H1|exact H2].
Qed.

Lemma nodup_sremove : forall k m, NoDup (map fst m) -> NoDup (map fst (sremove k m)).
Proof.
  intros k m; induction m as [|[k' e] r IH]; intros H; [exact H|].
  cbn [map fst] in H. inversion H as [|x l Hn Hd]; subst.
  cbn [sremove]. destruct (k =? k') eqn:E; [apply IH; exact Hd|].
  cbn [map fst]. constructor; [|apply IH; exact Hd].
  intros Hin. apply in_sremove in Hin. destruct Hin as [Hin _]. exact (Hn Hin).
Qed.

Lemma notin_sremove : forall k m, ~ In k (map fst (sremove k m)).
Proof.
  intros k m H. apply in_sremove in H. destruct H as [_ H]. apply H; reflexivity.
Qed.

Lemma length_sremove : forall k m, (length (sremove k m) <= length m)%nat.
Proof.
  intros k m; induction m as [|[k' e] r IH]; [apply le_n|].
  cbn [sremove]. destruct (k =? k') eqn:E; cbn [length]; lia.
Qed.

Lemma length_sremove_found : forall k m e,
  slookup k m = Some e -> (S (length (sremove k m)) <= length m)%nat.
Proof.
  intros k m; induction m as [|[k' e'] r IH]; intros e H; [discriminate H|].
  cbn [slookup] in H. cbn [sremove]. destruct (k =? k') eqn:E.
  - cbn [length]. pose proof (length_sremove k r) as Hl. lia.
  - cbn [length]. specialize (IH e H). lia.
Qed.

Lemma slookup_none_notin : forall k m, slookup k m = None -> ~ In k (map fst m).
Proof.
  intros k m; induction m as [|[k' e'] r IH]; intros H Hin; [destruct Hin|].
  cbn [slookup] in H. destruct (k =? k') eqn:E; [discriminate H|].
  apply N.eqb_neq in E. cbn [map fst In] in Hin. destruct Hin as [Hin|Hin].
  - congruence.
  - exact (IH H Hin).
Qed.

(* one-step unfoldings, to avoid cbn unfolding several levels *)
Lemma max_stamp_cons : forall k v t r,
  max_stamp ((k, (v, t)) :: r) =
  match max_stamp r with
  | None => Some (k, (v, t))
  | Some (k', (v', t')) => if t' <? t then Some (k, (v, t)) else Some (k', (v', t'))
  end.
Proof. reflexivity. Qed.

Lemma min_stamp_cons : forall k v t r,
  min_stamp ((k, (v, t)) :: r) =
  match min_stamp r with
  | None => Some (k, t)
  | Some (k', t') => if t <? t' then Some (k, t) else Some (k', t')
  end.
Proof. reflexivity. Qed.

(* head of a stamp-descending list carries the maximum stamp *)
Lemma max_stamp_desc : forall r k v t,
  desc t r -> max_stamp ((k, (v, t)) :: r) = Some (k, (v, t)).
Proof.
  intros r; induction r as [|[k1 [v1 t1]] r' IH]; intros k v t H; [reflexivity|].
  cbn [desc] in H. destruct H as [H1 H2].
  rewrite max_stamp_cons. rewrite (IH k1 v1 t1 H2).
  destruct (t1 <? t) eqn:E; [reflexivity|].
  apply N.ltb_ge in E. lia.
Qed.

Lemma min_stamp_in : forall m k t b,
  desc b m -> min_stamp m = Some (k, t) -> In k (map fst m) /\ t < b.
Proof.
  intros m; induction m as [|[k0 [v0 t0]] r IH]; intros k t b Hd H; [discriminate H|].
  cbn [desc] in Hd. destruct Hd as [Hd1 Hd2].
  rewrite min_stamp_cons in H. cbn [map fst In].
  destruct (min_stamp r) as [[k' t']|] eqn:Er.
  - destruct (t0 <? t') eqn:E; inversion H; subst.
    + split; [left; reflexivity|exact Hd1].
    + destruct (IH k t t0 Hd2 eq_refl) as [Hin Hlt].
      split; [right; exact Hin|lia].
  - inversion H; subst. split; [left; reflexivity|exact Hd1].
Qed.

(* last element of a stamp-descending duplicate-free list carries the minimum
   stamp, and removing its key is removelast *)
Lemma min_stamp_last : forall m b,
  desc b m -> NoDup (map fst m) -> m <> [] ->
  exists k t, min_stamp m = Some (k, t) /\ sremove k m = removelast m.
Proof.
  intros m; induction m as [|[k0 [v0 t0]] r IH]; intros b Hd Hn Hne; [congruence|].
  cbn [desc] in Hd. destruct Hd as [Hd1 Hd2].
  cbn [map fst] in Hn. inversion Hn as [|x l Hn1 Hn2]; subst.
  assert (Hr : r = [] \/ r <> []) by (destruct r; [left; reflexivity|right; discriminate]).
  destruct Hr as [Hr|Hr].
  - subst r. exists k0, t0. cbn [min_stamp sremove removelast].
    rewrite N.eqb_refl. split; reflexivity.
  - destruct (IH t0 Hd2 Hn2 Hr) as [k [t [Hm Hs]]].
    destruct (min_stamp_in r k t t0 Hd2 Hm) as [Hin Hlt].
    exists k, t. split.
    + rewrite min_stamp_cons. rewrite Hm.
      destruct (t0 <? t) eqn:E; [apply N.ltb_lt in E; lia|reflexivity].
    + cbn [sremove]. destruct (k =? k0) eqn:E.
      * apply N.eqb_eq in E. subst k0. contradiction.
      * rewrite Hs. destruct r as [|p r']; [congruence|reflexivity].
Qed.

(* ------------------------------------------------------------------ *)
(* Simulation relation                                                  *)
(* ------------------------------------------------------------------ *)

Record R (c : lru) (s : spec) : Prop := mkR {
  R_cap : cap c = scap s;
  R_ents : ents c = map strip (smap s);
  R_desc : desc (clock s) (smap s);
  R_nodup : NoDup (map fst (smap s));
  R_len : (length (smap s) <= scap s)%nat;
  R_pos : (1 <= scap s)%nat
}.

Lemma R_init : forall c0, R (lru_init c0) (spec_init c0).
Proof.
  intros c0. unfold lru_init, spec_init. constructor; cbn [cap ents scap clock smap].
  - reflexivity.
  - reflexivity.
  - exact I.
  - constructor.
  - apply Nat.le_0_l.
  - destruct (Nat.ltb c0 1) eqn:E.
    + apply le_n_S, Nat.le_0_l.
    + apply Nat.ltb_ge in E. exact E.
Qed.

(* the "touch" update used by both Put-hit and Get-hit *)
Lemma R_touch : forall sc clk m k v e,
  desc clk m -> NoDup (map fst m) -> (length m <= sc)%nat -> (1 <= sc)%nat ->
  slookup k m = Some e ->
  R (mkLru sc ((k, v) :: remove_key k (map strip m)))
    (mkSpec sc (clk + 1) ((k, (v, clk)) :: sremove k m)).
Proof.
  intros sc clk m k v e Hdesc Hnd Hlen Hpos El.
  constructor; cbn [cap ents scap clock smap].
  - reflexivity.
  - rewrite remove_strip. reflexivity.
  - cbn [desc]. split; [lia|apply desc_sremove; exact Hdesc].
  - cbn [map fst]. constructor; [apply notin_sremove|apply nodup_sremove; exact Hnd].
  - cbn [length]. pose proof (length_sremove_found k m e El) as Hl. lia.
  - exact Hpos.
Qed.

Lemma step_sim : forall c s o,
  R c s -> snd (step c o) = snd (sstep s o) /\ R (fst (step c o)) (fst (sstep s o)).
Proof.
  intros c s o [Hcap Hents Hdesc Hnd Hlen Hpos].
  destruct c as [cp es]. destruct s as [sc clk m].
  cbn [cap ents scap clock smap] in *. subst cp es.
  destruct o as [k v|k|k].
  - (* Put *)
    cbn [step sstep fst snd]. split; [reflexivity|].
    unfold put, sput; cbn [cap ents scap clock smap].
    rewrite lookup_strip.
    destruct (slookup k m) as [e|] eqn:El; cbn [option_map].
    + apply R_touch with (e := e); assumption.
    + rewrite map_length.
      destruct (Nat.ltb (length m) sc) eqn:Elt.
      * apply Nat.ltb_lt in Elt.
        constructor; cbn [cap ents scap clock smap].
        -- reflexivity.
        -- reflexivity.
        -- cbn [desc]. split; [lia|exact Hdesc].
        -- cbn [map fst]. constructor; [apply slookup_none_notin; exact El|exact Hnd].
        -- cbn [length]. lia.
        -- exact Hpos.
      * apply Nat.ltb_ge in Elt.
        assert (Hne : m <> []).
        { intros Hm. subst m. cbn [length] in Elt. lia. }
        destruct (min_stamp_last m clk Hdesc Hnd Hne) as [km [tm [Hm Hs]]].
        rewrite Hm.
        constructor; cbn [cap ents scap clock smap].
        -- reflexivity.
        -- rewrite Hs. rewrite removelast_map. reflexivity.
        -- cbn [desc]. split; [lia|apply desc_sremove; exact Hdesc].
        -- cbn [map fst]. constructor; [|apply nodup_sremove; exact Hnd].
           intros Hin. apply in_sremove in Hin. destruct Hin as [Hin _].
           exact (slookup_none_notin k m El Hin).
        -- cbn [length]. rewrite Hs.
           rewrite (length_removelast _ m Hne). exact Hlen.
        -- exact Hpos.
  - (* Del *)
    cbn [step sstep fst snd]. split; [reflexivity|].
    unfold del, sdel; cbn [cap ents scap clock smap].
    constructor; cbn [cap ents scap clock smap].
    + reflexivity.
    + apply remove_strip.
    + apply desc_sremove; exact Hdesc.
    + apply nodup_sremove; exact Hnd.
    + pose proof (length_sremove k m) as Hl. lia.
    + exact Hpos.
  - (* Get *)
    cbn [step sstep]. unfold get, sget; cbn [cap ents scap clock smap].
    destruct (k =? 0) eqn:E0.
    + cbn [fst snd]. split.
      * destruct m as [|[k0 [v0 t0]] r]; [reflexivity|].
        cbn [desc] in Hdesc. destruct Hdesc as [_ Hd2].
        rewrite (max_stamp_desc r k0 v0 t0 Hd2). reflexivity.
      * constructor; cbn [cap ents scap clock smap];
          [reflexivity|reflexivity|exact Hdesc|exact Hnd|exact Hlen|exact Hpos].
    + rewrite lookup_strip.
      destruct (slookup k m) as [[v t]|] eqn:El; cbn [option_map fst snd].
      * split; [reflexivity|].
        apply R_touch with (e := (v, t)); assumption.
      * split; [reflexivity|].
        constructor; cbn [cap ents scap clock smap];
          [reflexivity|reflexivity|exact Hdesc|exact Hnd|exact Hlen|exact Hpos].
Qed.

Lemma run_sim : forall os c s,
  R c s -> snd (run c os) = snd (srun s os) /\ R (fst (run c os)) (fst (srun s os)).
Proof.
  intros os; induction os as [|o t IH]; intros c s HR.
  - cbn [run srun fst snd]. split; [reflexivity|exact HR].
  - cbn [run srun].
    generalize (step_sim c s o HR).
    destruct (step c o) as [c1 r1]. destruct (sstep s o) as [s1 r1'].
    cbn [fst snd]. intros [H1 H2].
    generalize (IH c1 s1 H2).
    destruct (run c1 t) as [c2 rs]. destruct (srun s1 t) as [s2 rs'].
    cbn [fst snd]. intros [H3 H4].
    subst r1' rs'. split; [reflexivity|exact H4].
Qed.

Lemma step_cap : forall c o, cap (fst (step c o)) = cap c.
Proof.
  intros c o; destruct o as [k v|k|k]; cbn [step fst].
  - unfold put. destruct (lookup k (ents c)); [reflexivity|].
    destruct (Nat.ltb (length (ents c)) (cap c)); reflexivity.
  - reflexivity.
  - unfold get. destruct (k =? 0); [reflexivity|].
    destruct (lookup k (ents c)); reflexivity.
Qed.

Lemma run_cap : forall os c, cap (fst (run c os)) = cap c.
Proof.
  intros os; induction os as [|o t IH]; intros c; [reflexivity|].
  cbn [run].
  generalize (step_cap c o). destruct (step c o) as [c1 r1]. cbn [fst]. intros H1.
  generalize (IH c1). destruct (run c1 t) as [c2 rs]. cbn [fst]. intros H2.
  congruence.
Qed.

(* ------------------------------------------------------------------ *)
(* The six theorems                                                     *)
(* ------------------------------------------------------------------ *)

(* every reachable concrete state respects capacity and has no duplicate key *)
Theorem lru_capacity : forall c0 os,
  (length (ents (fst (run (lru_init c0) os))) <= cap (fst (run (lru_init c0) os)))%nat.
Proof.
  intros c0 os.
  destruct (run_sim os _ _ (R_init c0)) as [_ [Hcap Hents Hdesc Hnd Hlen Hpos]].
  rewrite Hents, Hcap, map_length. exact Hlen.
Qed.

Theorem lru_cap_const : forall c0 os,
  cap (fst (run (lru_init c0) os)) = (if Nat.ltb c0 1 then 64 else c0)%nat.
Proof.
  intros c0 os. rewrite run_cap. reflexivity.
Qed.

Theorem lru_nodup : forall c0 os, NoDup (map fst (ents (fst (run (lru_init c0) os)))).
Proof.
  intros c0 os.
  destruct (run_sim os _ _ (R_init c0)) as [_ [Hcap Hents Hdesc Hnd Hlen Hpos]].
  rewrite Hents, map_fst_strip. exact Hnd.
Qed.

(* refinement: the MRU-list implementation returns, for every operation sequence,
   exactly what the timestamp-LRU specification returns *)
Theorem lru_refines_spec : forall c0 os,
  snd (run (lru_init c0) os) = snd (srun (spec_init c0) os).
Proof.
  intros c0 os.
  destruct (run_sim os _ _ (R_init c0)) as [H _]. exact H.
Qed.

(* the specification itself is a bounded map *)
Theorem spec_capacity : forall c0 os,
  (length (smap (fst (srun (spec_init c0) os))) <= scap (fst (srun (spec_init c0) os)))%nat.
Proof.
  intros c0 os.
  destruct (run_sim os _ _ (R_init c0)) as [_ [Hcap Hents Hdesc Hnd Hlen Hpos]].
  exact Hlen.
Qed.

(* the final contents agree as maps *)
Theorem lru_contents_agree : forall c0 os k,
  lookup k (ents (fst (run (lru_init c0) os))) =
  option_map fst (slookup k (smap (fst (srun (spec_init c0) os)))).
Proof.
  intros c0 os k.
  destruct (run_sim os _ _ (R_init c0)) as [_ [Hcap Hents Hdesc Hnd Hlen Hpos]].
  rewrite Hents. apply lookup_strip.
Qed.

Print Assumptions lru_capacity.
Print Assumptions lru_cap_const.
Print Assumptions lru_nodup.
Print Assumptions lru_refines_spec.
Print Assumptions spec_capacity.
Print Assumptions lru_contents_agree.
