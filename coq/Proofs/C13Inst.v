(* C13 — the generic results of Proofs/ConcProofs.v instantiated on the skeleton that
   tools/skel generated from the Go sources for THIS run (Model/Skeleton.v).  Every lemma here
   is a computation (vm_compute) on that table: if the Go code changes its locking, the table
   changes and these stop compiling. *)
From Coq Require Import List NArith String Bool.
From V Require Import Model.Conc Model.Skeleton Proofs.ConcProofs.
Import ListNotations.
Open Scope string_scope.

(* --- the table has the expected shape (so that the statements below are not vacuous) *)
Definition entry_names (sk : skeleton) (c : string * list N) : list string := map (fn_name_of sk) (snd c).

Definition has_entries (pkg cls : string) (methods : list string) : bool :=
  existsb (fun sk => String.eqb (sk_name sk) pkg &&
    existsb (fun c => String.eqb (fst c) cls &&
      forallb (fun m => existsb (String.eqb (cls ++ "." ++ m)) (entry_names sk c)) methods) (sk_classes sk)) skeletons.

Definition c13_shape : bool :=
  has_entries "tlcp" "tlcp.Conn" ["Read"; "Write"; "Close"; "CloseWrite"; "Handshake"; "HandshakeContext"; "ConnectionState";
                                  "SetDeadline"; "SetReadDeadline"; "SetWriteDeadline"; "VerifyHostname"]
  && has_entries "tlcp" "tlcp.lruSessionCache" ["Put"; "Get"]
  && has_entries "dtlcp" "dtlcp.Conn" ["Read"; "Write"; "ReadFrom"; "WriteTo"; "Close"; "CloseWrite"; "Handshake"; "HandshakeContext";
                                       "ConnectionState"; "SetDeadline"; "SetReadDeadline"; "SetWriteDeadline"; "VerifyHostname"]
  && has_entries "pa" "pa.ProtocolSwitchServerConn" ["Read"; "Write"; "ProtectedConn"]
  && forallb (fun sk => String.eqb (sk_name sk) "pa" || Nat.leb 1 (List.length (writer_entries sk))) skeletons
  && forallb (fun sk => String.eqb (sk_name sk) "pa" || (Nat.eqb (List.length (ids_named sk ["Conn.Close"])) 1)) skeletons
  && forallb (fun sk => String.eqb (sk_name sk) "pa" || (Nat.eqb (List.length (mk_hs (marks_of sk))) 1)) skeletons.

(* every package with a handshake has publishing sites, and none of them uses the connection after the store *)
Definition c13_publish_last : bool :=
  forallb (fun p => negb (match snd p with [] => true | _ => false end) && forallb (fun x => N.eqb (snd x) 0) (snd p)) publish_sites
  && Nat.eqb (List.length publish_sites) 2.

(* the functions of the handshake itself (they run under handshakeMutex and the read-half lock, from
   handshakeFn): only these may store to the completion flag; a store from anywhere else could take
   the flag back after other goroutines have seen the handshake complete *)
Definition handshake_functions : list string :=
  ["tlcp.clientHandshakeState.handshake"; "tlcp.serverHandshakeState.handshake";
   "dtlcp.Conn.clientHandshake"; "dtlcp.Conn.serverHandshake"; "dtlcp.clientHandshakeState.handshake";
   "dtlcp.serverHandshakeState.doFullHandshake"; "dtlcp.serverHandshakeState.handshake"].

Definition c13_flag_writers_ok : bool :=
  forallb (fun p => forallb (fun w => existsb (String.eqb w) handshake_functions) (snd p)) flag_writers
  && Nat.eqb (List.length flag_writers) 2.

Lemma c13_flag_writers_check : c13_flag_writers_ok = true.
Proof. vm_cast_no_check (eq_refl true). Qed.

Lemma c13_publish_last_check : c13_publish_last = true.
Proof. vm_cast_no_check (eq_refl true). Qed.

Lemma c13_shape_check : c13_shape = true.
Proof. vm_cast_no_check (eq_refl true). Qed.

Lemma c13_lock_order_check : forallb lock_order_ok skeletons = true.
Proof. vm_cast_no_check (eq_refl true). Qed.

Lemma c13_lockset_check : forallb (fun sk => lockset_ok sk c13_exemptions c13_findings) skeletons = true.
Proof. vm_cast_no_check (eq_refl true). Qed.

Lemma c13_write_section_check : forallb write_section_ok skeletons = true.
Proof. vm_cast_no_check (eq_refl true). Qed.

Definition is_dtlcp (sk : skeleton) : bool := String.eqb (sk_name sk) "dtlcp".

Lemma c13_close_waits_check : forallb (fun sk => negb (is_dtlcp sk) || close_waits_ok sk) skeletons = true.
Proof. vm_cast_no_check (eq_refl true). Qed.

(* every listed finding is a real failure of the discipline on the current sources, and
   nothing else fails: with no field removed, exactly the findings' fields are reported *)
Definition finding_label (fd : finding) : string := own_prefix (fd_own fd) ++ "." ++ fd_field fd.

Definition findings_exact (sk : skeleton) : bool :=
  let ff := failing_fields sk c13_exemptions [] in
  forallb (fun f => existsb (fun fd => String.eqb (sk_name sk) (fd_pkg fd) && String.eqb f (finding_label fd)) c13_findings) ff
  && forallb (fun fd => negb (String.eqb (sk_name sk) (fd_pkg fd)) || existsb (String.eqb (finding_label fd)) ff) c13_findings.

Lemma c13_findings_exact_check : forallb findings_exact skeletons = true.
Proof. vm_cast_no_check (eq_refl true). Qed.

Lemma c13_findings_have_a_package_check :
  forallb (fun fd => existsb (fun sk => String.eqb (sk_name sk) (fd_pkg fd)) skeletons) c13_findings = true.
Proof. vm_cast_no_check (eq_refl true). Qed.

(* every exemption is needed (none is stale) *)
Lemma c13_exemptions_needed_check :
  existsb (fun sk => negb (lockset_ok sk [ExField "dtlcp" OConn "remoteAddr"] c13_findings)) skeletons
  && existsb (fun sk => negb (lockset_ok sk [ExHandshakePhase] c13_findings)) skeletons = true.
Proof. vm_cast_no_check (eq_refl true). Qed.

(* ------------------------------------------------------------------ instantiated theorems *)

Theorem c13_lock_order : forall sk c prog,
  In sk skeletons -> In c (sk_classes sk) -> runs_class sk c prog ->
  forall s, reachable label (init label prog) s -> forall D, ~ lock_cycle label s D.
Proof.
  intros sk c prog Hsk. apply lock_order_no_deadlock.
  pose proof c13_lock_order_check as H. rewrite forallb_forall in H. apply H. exact Hsk.
Qed.

Theorem c13_leaves : forall sk c t,
  In sk skeletons -> In c (sk_classes sk) -> In t (class_threads sk (snd c)) -> leaf_ok [] t = true.
Proof.
  intros sk c t Hsk Hc Ht. pose proof c13_lock_order_check as H. rewrite forallb_forall in H.
  apply (lock_order_sound sk (H sk Hsk) c t Hc Ht).
Qed.

Theorem c13_lockset : forall sk c prog,
  In sk skeletons -> In c (sk_classes sk) -> runs_class sk c prog ->
  forall s, reachable label (init label prog) s ->
  ~ race label (conflict (resolve sk c13_exemptions c13_findings)) s.
Proof.
  intros sk c prog Hsk. apply lockset_no_race.
  pose proof c13_lockset_check as H. rewrite forallb_forall in H. apply H. exact Hsk.
Qed.

Theorem c13_write_section : forall sk e,
  In sk skeletons -> In e (writer_entries sk) ->
  (exists n, emissions sk [] 0 (main_thread sk e) <> [] /\
             forall x, In x (emissions sk [] 0 (main_thread sk e)) -> x = (n, true))
  /\ forall b site K, In (LBlock b site false, K) (annot label [] (main_thread sk e)) ->
                      is_emission sk b = true -> In MOut K.
Proof.
  intros sk e Hsk. apply write_section_sound.
  pose proof c13_write_section_check as H. rewrite forallb_forall in H. apply H. exact Hsk.
Qed.

Theorem c13_close_waits : forall sk e,
  In sk skeletons -> is_dtlcp sk = true -> In e (ids_named sk ["Conn.Close"]) ->
  before_spin_ok (main_thread sk e) = true.
Proof.
  intros sk e Hsk Hd. apply close_waits_sound.
  pose proof c13_close_waits_check as H. rewrite forallb_forall in H. specialize (H sk Hsk).
  rewrite Hd in H. simpl in H. exact H.
Qed.
