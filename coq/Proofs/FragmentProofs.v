(* Proofs about Model/Fragment.v. Statements are fixed; fill in the proofs. *)
From V Require Import Model.Fragment.
From Coq Require Import ZArith ZifyNat ZifyN ZifyBool.
#[local] Ltac Zify.zify_post_hook ::= Z.div_mod_to_equations.

(* a buffer after a sequence of addFragment calls *)
Definition adds := list (nat * nat * list byte).
Definition add_all (fb : fragbuf) (l : adds) : fragbuf :=
  fold_left (fun b '(off, len, fr) => fst (add_fragment b off len fr)) l fb.

(* byte index i is covered by some accepted (in-bounds) fragment *)
Definition covered (n : nat) (l : adds) (i : nat) : Prop :=
  exists off len fr, In (off, len, fr) l /\ off + len <= n /\ off <= i < off + len.

(* ================= helper lemmas: lists ================= *)

Lemma length_upd_nth : forall A (f : A -> A) l i, length (upd_nth i f l) = length l.
Proof. induction l as [|x t IH]; intros [|j]; simpl; auto. Qed.

Lemma nth_upd_nth_eq : forall A (f : A -> A) l i d,
  i < length l -> nth i (upd_nth i f l) d = f (nth i l d).
Proof.
  induction l as [|x t IH]; intros [|j] d H; simpl in *; try lia; auto.
  apply IH; lia.
Qed.

Lemma nth_upd_nth_neq : forall A (f : A -> A) l i j d,
  i <> j -> nth j (upd_nth i f l) d = nth j l d.
Proof.
  induction l as [|x t IH]; intros [|i] [|j] d H; simpl; auto; try lia;
    try (apply IH; lia).
Qed.

Lemma Forall_upd_nth : forall A (P : A -> Prop) (f : A -> A) l i,
  (forall x, P x -> P (f x)) -> Forall P l -> Forall P (upd_nth i f l).
Proof.
  induction l as [|x t IH]; intros [|j] Hf H; simpl; auto;
    inversion H; subst; constructor; auto.
Qed.

Lemma length_copy_at : forall dst off src, length (copy_at dst off src) = length dst.
Proof.
  induction dst as [|d t IH]; intros [|o] src; simpl; auto.
  destruct src; simpl; auto.
Qed.

Lemma nth_copy_at_in : forall dst off src i d,
  off <= i < off + length src -> i < length dst ->
  nth i (copy_at dst off src) d = nth (i - off) src d.
Proof.
  induction dst as [|x t IH]; intros off src i d H1 H2; simpl in H2; try lia.
  destruct off as [|o].
  - destruct src as [|s st]; simpl in H1; try lia.
    destruct i as [|i]; simpl; auto.
    rewrite IH by (simpl; lia). rewrite Nat.sub_0_r. reflexivity.
  - destruct i as [|i]; try lia. simpl. apply IH; lia.
Qed.

Lemma nth_copy_at_out : forall dst off src i d,
  ~ (off <= i < off + length src) ->
  nth i (copy_at dst off src) d = nth i dst d.
Proof.
  induction dst as [|x t IH]; intros off src i d H1.
  - destruct off; reflexivity.
  - destruct off as [|o].
    + destruct src as [|s st]; simpl in *; auto.
      destruct i as [|i]; try lia. apply IH. lia.
    + destruct i as [|i]; simpl; auto. apply IH. lia.
Qed.

Lemma nth_firstn_lt : forall (l : list byte) n k d, k < n -> nth k (firstn n l) d = nth k l d.
Proof.
  induction l as [|x t IH]; intros [|n] [|k] d H; simpl; try lia; auto.
  apply IH; lia.
Qed.

Lemma nth_skipn : forall (l : list byte) n k d, nth k (skipn n l) d = nth (n + k) l d.
Proof.
  induction l as [|x t IH]; intros [|n] k d; simpl; auto.
  destruct k; reflexivity.
Qed.

Lemma nth_repeat_same : forall (x : byte) k i, nth i (repeat x k) x = x.
Proof. induction k as [|k IH]; intros [|i]; simpl; auto. Qed.

Lemma forallb_firstn_nth : forall (p : N -> bool) l m, m <= length l ->
  (forallb p (firstn m l) = true <-> forall k, k < m -> p (nth k l 0%N) = true).
Proof.
  induction l as [|a l IH]; intros [|m] H; simpl in *; try lia.
  - split; auto. intros _ k Hk; lia.
  - split; auto. intros _ k Hk; lia.
  - rewrite andb_true_iff, IH by lia. split.
    + intros [A B] [|k] Hk; auto. apply B; lia.
    + intros H2; split; [apply (H2 0); lia | intros k Hk; apply (H2 (S k)); lia].
Qed.

(* ================= helper lemmas: bits ================= *)

Definition bit_set (recv : list byte) (i : nat) : bool :=
  N.testbit (nth (i / 8) recv 0%N) (N.of_nat (i mod 8)).

Definition small (b : N) : Prop := forall k, (8 <= k)%N -> N.testbit b k = false.

Lemma set_bit_length : forall recv i, length (set_bit recv i) = length recv.
Proof. intros; apply length_upd_nth. Qed.

Lemma set_bit_spec : forall recv i j, i / 8 < length recv ->
  (bit_set (set_bit recv i) j = true <-> (j = i \/ bit_set recv j = true)).
Proof.
  intros recv i j H. unfold bit_set, set_bit.
  destruct (Nat.eq_dec (i / 8) (j / 8)) as [E|E].
  - rewrite <- E. rewrite nth_upd_nth_eq by exact H.
    rewrite N.lor_spec, N.shiftl_1_l, N.pow2_bits_eqb.
    rewrite orb_true_iff, N.eqb_eq. split.
    + intros [A|A]; [right; exact A | left; lia].
    + intros [A|A]; [right; subst; reflexivity | left; exact A].
  - rewrite nth_upd_nth_neq by exact E. split; auto.
    intros [A|A]; [subst; congruence | exact A].
Qed.

Lemma set_bit_small : forall recv i, Forall small recv -> Forall small (set_bit recv i).
Proof.
  intros recv i H. unfold set_bit. apply Forall_upd_nth; auto.
  intros b Hb k Hk. rewrite N.lor_spec, N.shiftl_1_l, N.pow2_bits_eqb.
  rewrite (Hb k Hk). cbn [orb]. apply N.eqb_neq. lia.
Qed.

Lemma set_bits_length : forall len recv off, length (set_bits recv off len) = length recv.
Proof.
  induction len as [|k IH]; intros recv off; simpl; auto.
  rewrite IH. apply set_bit_length.
Qed.

Lemma set_bits_small : forall len recv off,
  Forall small recv -> Forall small (set_bits recv off len).
Proof.
  induction len as [|k IH]; intros recv off H; simpl; auto.
  apply IH. apply set_bit_small. exact H.
Qed.

Lemma set_bits_spec : forall len recv off j, off + len <= 8 * length recv ->
  (bit_set (set_bits recv off len) j = true <->
   (off <= j < off + len \/ bit_set recv j = true)).
Proof.
  induction len as [|k IH]; intros recv off j H.
  - simpl. split; auto. intros [A|A]; auto. lia.
  - cbn [set_bits]. rewrite IH by (rewrite set_bit_length; lia).
    rewrite set_bit_spec by lia.
    split.
    + intros [A|[A|A]]; auto; left; lia.
    + intros [A|A]; auto. destruct (Nat.eq_dec j off); auto. left; lia.
Qed.

Lemma byte_255 : forall b, small b ->
  (b = 255%N <-> forall j, j < 8 -> N.testbit b (N.of_nat j) = true).
Proof.
  intros b Hs. change 255%N with (N.ones 8). split.
  - intros -> j Hj. apply N.ones_spec_low. lia.
  - intros H. apply N.bits_inj. intro k. destruct (N.lt_ge_cases k 8) as [L|G].
    + rewrite N.ones_spec_low by exact L. rewrite <- (N2Nat.id k). apply H. lia.
    + rewrite N.ones_spec_high by exact G. apply Hs; exact G.
Qed.

Lemma mask_spec : forall b r,
  N.land b (N.shiftl 1 (N.of_nat r) - 1) = (N.shiftl 1 (N.of_nat r) - 1)%N <->
  forall j, j < r -> N.testbit b (N.of_nat j) = true.
Proof.
  intros b r.
  replace (N.shiftl 1 (N.of_nat r) - 1)%N with (N.ones (N.of_nat r))
    by (unfold N.ones; rewrite N.sub_1_r; reflexivity).
  split.
  - intros H j Hj.
    assert (T : N.testbit (N.land b (N.ones (N.of_nat r))) (N.of_nat j) = true)
      by (rewrite H; apply N.ones_spec_low; lia).
    rewrite N.land_spec, N.ones_spec_low in T by lia.
    rewrite andb_true_r in T. exact T.
  - intros H. apply N.bits_inj; intro k. rewrite N.land_spec.
    destruct (N.lt_ge_cases k (N.of_nat r)) as [L|G].
    + rewrite N.ones_spec_low by exact L. rewrite andb_true_r.
      rewrite <- (N2Nat.id k). apply H. lia.
    + rewrite N.ones_spec_high by exact G. apply andb_false_r.
Qed.

Lemma complete_spec : forall fb,
  length (fb_recv fb) = (fb_n fb + 7) / 8 -> Forall small (fb_recv fb) ->
  (complete fb = true <-> forall i, i < fb_n fb -> bit_set (fb_recv fb) i = true).
Proof.
  intros fb HL HS. unfold complete. cbv zeta. unfold byte in *.
  rewrite andb_true_iff, forallb_firstn_nth by lia.
  split.
  - intros [A B] i Hi. unfold bit_set. unfold byte in *.
    destruct (Nat.lt_ge_cases (i / 8) (fb_n fb / 8)) as [L|G].
    + specialize (A _ L). apply N.eqb_eq in A. rewrite A.
      change 255%N with (N.ones 8). apply N.ones_spec_low. lia.
    + assert (Hq : i / 8 = fb_n fb / 8) by lia.
      destruct (fb_n fb mod 8 =? 0) eqn:E.
      * apply Nat.eqb_eq in E. lia.
      * apply N.eqb_eq in B. rewrite Hq. apply (proj1 (mask_spec _ _) B). lia.
  - intros H. split.
    + intros k Hk. apply N.eqb_eq. apply byte_255.
      * rewrite Forall_forall in HS. apply HS. apply nth_In. lia.
      * intros j Hj. specialize (H (8 * k + j)). unfold bit_set in H. unfold byte in *.
        replace ((8 * k + j) / 8) with k in H by lia.
        replace ((8 * k + j) mod 8) with j in H by lia.
        apply H. lia.
    + destruct (fb_n fb mod 8 =? 0) eqn:E; auto.
      apply Nat.eqb_neq in E.
      apply N.eqb_eq, mask_spec. intros j Hj.
      specialize (H (8 * (fb_n fb / 8) + j)). unfold bit_set in H. unfold byte in *.
      replace ((8 * (fb_n fb / 8) + j) / 8) with (fb_n fb / 8) in H by lia.
      replace ((8 * (fb_n fb / 8) + j) mod 8) with j in H by lia.
      apply H. lia.
Qed.

(* ================= invariant of add_all ================= *)

Record inv (n : nat) (l : adds) (fb : fragbuf) : Prop := mkInv {
  inv_n : fb_n fb = n;
  inv_recv : length (fb_recv fb) = (n + 7) / 8;
  inv_data : length (fb_data fb) = n;
  inv_small : Forall small (fb_recv fb);
  inv_bits : forall i, bit_set (fb_recv fb) i = true <-> covered n l i }.

Lemma inv_new : forall total, inv (Nat.max 1 total) [] (new_buf total).
Proof.
  intros total. unfold new_buf.
  split; cbn [fb_n fb_recv fb_data].
  - reflexivity.
  - apply repeat_length.
  - apply repeat_length.
  - apply Forall_forall. intros x Hx. apply repeat_spec in Hx. subst x.
    intros k _. apply N.bits_0.
  - intros i. unfold bit_set. rewrite nth_repeat_same, N.bits_0. split.
    + discriminate.
    + intros (off & len & fr & Hin & _). destruct Hin.
Qed.

Lemma covered_app : forall n l off len fr i,
  covered n (l ++ [(off, len, fr)]) i <->
  (covered n l i \/ (off + len <= n /\ off <= i < off + len)).
Proof.
  intros n l off len fr i. unfold covered. split.
  - intros (o & le & f & Hin & Hr & Hi). apply in_app_iff in Hin.
    destruct Hin as [Hin|[Heq|[]]].
    + left. exists o, le, f. auto.
    + right. injection Heq as -> -> ->. auto.
  - intros [(o & le & f & Hin & Hr & Hi)|[Hr Hi]].
    + exists o, le, f. split; auto. apply in_app_iff. auto.
    + exists off, len, fr. split; auto. apply in_app_iff. right. left. reflexivity.
Qed.

Lemma inv_step : forall n l fb off len fr,
  inv n l fb -> inv n (l ++ [(off, len, fr)]) (fst (add_fragment fb off len fr)).
Proof.
  intros n l fb off len fr [Hn Hr Hd Hs Hb]. unfold add_fragment.
  destruct (fb_n fb <? off + len) eqn:E; cbn [fst].
  - apply Nat.ltb_lt in E. split; auto.
    intros i. rewrite covered_app, Hb. split; auto.
    intros [A|[A _]]; auto. lia.
  - apply Nat.ltb_ge in E.
    split; cbn [fb_n fb_recv fb_data]; auto.
    + rewrite set_bits_length. exact Hr.
    + rewrite length_copy_at. exact Hd.
    + apply set_bits_small. exact Hs.
    + intros i. rewrite covered_app, <- Hb. rewrite set_bits_spec by (unfold byte in *; lia).
      split.
      * intros [A|A]; auto. right. split; auto. lia.
      * intros [A|[_ A]]; auto.
Qed.

Lemma add_all_cons : forall fb off len fr l,
  add_all fb ((off, len, fr) :: l) = add_all (fst (add_fragment fb off len fr)) l.
Proof. reflexivity. Qed.

Lemma add_all_snoc : forall fb l off len fr,
  add_all fb (l ++ [(off, len, fr)]) = fst (add_fragment (add_all fb l) off len fr).
Proof. intros. unfold add_all. rewrite fold_left_app. reflexivity. Qed.

Lemma inv_add_all : forall n l' l fb, inv n l fb -> inv n (l ++ l') (add_all fb l').
Proof.
  induction l' as [|[[off len] fr] l' IH]; intros l fb H.
  - rewrite app_nil_r. exact H.
  - rewrite add_all_cons.
    replace (l ++ (off, len, fr) :: l') with ((l ++ [(off, len, fr)]) ++ l')
      by (rewrite <- app_assoc; reflexivity).
    apply IH. apply inv_step. exact H.
Qed.

Lemma inv_total : forall total l, inv (Nat.max 1 total) l (add_all (new_buf total) l).
Proof. intros. apply (inv_add_all _ l [] _ (inv_new total)). Qed.

(* T1: complete exactly when every byte index is covered, whatever the order, overlap,
   duplication, or out-of-range fragments in between *)
Theorem complete_iff_covered : forall total l,
  complete (add_all (new_buf total) l) = true <->
  (forall i, i < Nat.max 1 total -> covered (Nat.max 1 total) l i).
Proof.
  intros total l. destruct (inv_total total l) as [Hn Hr Hd Hs Hb].
  rewrite complete_spec by (try rewrite Hn; assumption).
  rewrite Hn. split; intros H i Hi; apply Hb; apply H; exact Hi.
Qed.

(* T2: if every fragment carries the corresponding slice of m, a complete buffer holds m *)
Definition slice (m : list byte) (off len : nat) : list byte := firstn len (skipn off m).

Lemma slice_length : forall m off len, off + len <= length m -> length (slice m off len) = len.
Proof. intros. unfold slice. rewrite firstn_length, skipn_length. lia. Qed.

Lemma nth_slice : forall m off len k d, k < len -> nth k (slice m off len) d = nth (off + k) m d.
Proof. intros. unfold slice. rewrite nth_firstn_lt by assumption. apply nth_skipn. Qed.

Lemma data_inv : forall (m : list byte) n, n = length m -> forall l' l fb,
  inv n l fb ->
  (forall off len fr, In (off, len, fr) l' -> off + len <= n -> fr = slice m off len) ->
  (forall i, covered n l i -> nth i (fb_data fb) 0%N = nth i m 0%N) ->
  forall i, covered n (l ++ l') i -> nth i (fb_data (add_all fb l')) 0%N = nth i m 0%N.
Proof.
  intros m n Hn. induction l' as [|[[off len] fr] l' IH]; intros l fb HI Hfr Hdat i Hc.
  - rewrite app_nil_r in Hc. apply Hdat. exact Hc.
  - rewrite add_all_cons.
    replace (l ++ (off, len, fr) :: l') with ((l ++ [(off, len, fr)]) ++ l') in Hc
      by (rewrite <- app_assoc; reflexivity).
    apply (IH (l ++ [(off, len, fr)])); auto.
    + apply inv_step. exact HI.
    + intros o le f Hin. apply Hfr. right. exact Hin.
    + clear i Hc. intros i Hc. apply covered_app in Hc.
      destruct HI as [Hfn Hr Hd Hs Hb].
      unfold add_fragment. destruct (fb_n fb <? off + len) eqn:E; cbn [fst].
      * apply Nat.ltb_lt in E. destruct Hc as [Hc|[Hc _]]; [auto | lia].
      * apply Nat.ltb_ge in E. cbn [fb_data].
        assert (Hf : fr = slice m off len) by (apply Hfr; [left; reflexivity | lia]).
        assert (Hl : length fr = len) by (rewrite Hf; apply slice_length; lia).
        rewrite firstn_all2 by lia.
        destruct (Nat.lt_ge_cases i off) as [L|G];
          [| destruct (Nat.lt_ge_cases i (off + len)) as [L2|G2]].
        -- rewrite nth_copy_at_out by lia. destruct Hc as [Hc|[_ Hc]]; [auto | lia].
        -- rewrite nth_copy_at_in by (unfold byte in *; lia).
           rewrite Hf, nth_slice by lia. f_equal. lia.
        -- rewrite nth_copy_at_out by lia. destruct Hc as [Hc|[_ Hc]]; [auto | lia].
Qed.

Theorem assembled_exact : forall (m : list byte) l,
  1 <= length m ->
  (forall off len fr, In (off, len, fr) l -> off + len <= length m -> fr = slice m off len) ->
  complete (add_all (new_buf (length m)) l) = true ->
  assembled (add_all (new_buf (length m)) l) = m.
Proof.
  intros m l Hm Hfr Hc. unfold assembled.
  pose proof (inv_total (length m) l) as HI.
  pose proof (inv_new (length m)) as HN.
  rewrite complete_iff_covered in Hc.
  replace (Nat.max 1 (length m)) with (length m) in * by lia.
  apply nth_ext with (d := 0%N) (d' := 0%N).
  - apply (inv_data _ _ _ HI).
  - intros i Hi. rewrite (inv_data _ _ _ HI) in Hi.
    apply (data_inv m (length m) eq_refl l [] (new_buf (length m)) HN Hfr).
    + intros j (off & len & fr & Hin & _). destruct Hin.
    + simpl. apply Hc. exact Hi.
Qed.

(* T3: out-of-range fragments are refused and change nothing *)
Theorem add_out_of_range : forall fb off len fr,
  fb_n fb < off + len -> add_fragment fb off len fr = (fb, false).
Proof.
  intros fb off len fr H. unfold add_fragment.
  apply Nat.ltb_lt in H. rewrite H. reflexivity.
Qed.

Lemma maxHandshake_pos : 1 <= maxHandshake.
Proof. apply Nat.leb_le. vm_compute. reflexivity. Qed.

Theorem step_rejects_overflow : forall pend f,
  f_blen f <= maxHandshake -> f_blen f < f_off f + f_len f -> rh_step pend f = (pend, RErr 50).
Proof.
  intros pend f H1 H2. unfold rh_step.
  apply Nat.ltb_ge in H1. rewrite H1.
  apply Nat.ltb_lt in H2. rewrite H2. reflexivity.
Qed.

(* ================= sender-side splitting ================= *)

(* consecutive, non-empty tiles from [off] up to [e] *)
Fixpoint tiled (off : nat) (fs : list frag) (e : nat) : Prop :=
  match fs with
  | [] => off = e
  | f :: t => f_off f = off /\ 0 < f_len f /\ tiled (off + f_len f) t e
  end.

Lemma tiled_bounds : forall fs off e, tiled off fs e ->
  off <= e /\ forall f, In f fs -> off <= f_off f /\ f_off f + f_len f <= e.
Proof.
  induction fs as [|g t IH]; intros off e H; cbn [tiled] in H.
  - split; [lia | intros f []].
  - destruct H as (Ho & Hl & Ht). destruct (IH _ _ Ht) as [Hle Hall]. split; [lia|].
    intros f [<-|Hin].
    + lia.
    + destruct (Hall f Hin). lia.
Qed.

Lemma tiled_cover : forall fs off e i, tiled off fs e -> off <= i < e ->
  exists f, In f fs /\ f_off f <= i < f_off f + f_len f.
Proof.
  induction fs as [|g t IH]; intros off e i H Hi; cbn [tiled] in H.
  - lia.
  - destruct H as (Ho & Hl & Ht).
    destruct (Nat.lt_ge_cases i (off + f_len g)) as [L|G].
    + exists g. split; [left; reflexivity | lia].
    + destruct (IH _ _ i Ht) as (f & Hin & Hr); [lia|].
      exists f. split; [right; exact Hin | exact Hr].
Qed.

Lemma tiled_disjoint : forall fs off e f g i, tiled off fs e -> In f fs -> In g fs ->
  f_off f <= i < f_off f + f_len f -> f_off g <= i < f_off g + f_len g -> f = g.
Proof.
  induction fs as [|h t IH]; intros off e f g i H Hf Hg Hif Hig; cbn [tiled] in H.
  - destruct Hf.
  - destruct H as (Ho & Hl & Ht). destruct (tiled_bounds _ _ _ Ht) as [_ Hall].
    destruct Hf as [<-|Hf]; destruct Hg as [<-|Hg].
    + reflexivity.
    + destruct (Hall g Hg). lia.
    + destruct (Hall f Hf). lia.
    + apply (IH _ _ f g i Ht); assumption.
Qed.

Lemma split_from_cons : forall k mf typ blen seq off rest, rest <> [] ->
  split_from (S k) mf typ blen seq off rest =
  mkFrag typ blen seq off (length (firstn mf rest)) (firstn mf rest) ::
  split_from k mf typ blen seq (off + length (firstn mf rest)) (skipn mf rest).
Proof. intros. destruct rest; [congruence | reflexivity]. Qed.

Lemma skipn_length_app : forall (pre rest : list byte), skipn (length pre) (pre ++ rest) = rest.
Proof. induction pre; simpl; auto. Qed.

Lemma firstn_len_firstn : forall (l : list byte) n, firstn (length (firstn n l)) l = firstn n l.
Proof. induction l as [|x t IH]; intros [|n]; simpl; auto. f_equal. apply IH. Qed.

Definition frag_ok (typ : byte) (seq : N) (body : list byte) (mf : nat) (f : frag) : Prop :=
  f_type f = typ /\ f_blen f = length body /\ f_seq f = seq /\
  f_len f = length (f_body f) /\ 0 < f_len f <= mf /\
  f_body f = slice body (f_off f) (f_len f) /\ f_off f + f_len f <= length body.

Lemma split_from_spec : forall fuel mf typ seq body pre rest,
  0 < mf -> length rest <= fuel -> body = pre ++ rest ->
  let fs := split_from fuel mf typ (length body) seq (length pre) rest in
  concat (map f_body fs) = rest /\
  Forall (frag_ok typ seq body mf) fs /\
  tiled (length pre) fs (length body).
Proof.
  induction fuel as [|k IH]; intros mf typ seq body pre rest Hmf Hfuel Hbody; cbv zeta.
  - destruct rest; simpl in Hfuel; try lia. cbn [split_from map concat tiled].
    subst body. rewrite app_nil_r. auto.
  - destruct rest as [|x r].
    + cbn [split_from map concat tiled]. subst body. rewrite app_nil_r. auto.
    + remember (x :: r) as rest eqn:Hrest.
      assert (Hne : rest <> []) by (subst rest; discriminate).
      assert (Hlen : 1 <= length rest) by (subst rest; simpl; lia).
      rewrite split_from_cons by exact Hne.
      set (piece := firstn mf rest).
      assert (Hp1 : length piece = Nat.min mf (length rest)) by apply firstn_length.
      assert (Hsplit : piece ++ skipn mf rest = rest) by apply firstn_skipn.
      assert (Hbody' : body = (pre ++ piece) ++ skipn mf rest)
        by (rewrite <- app_assoc, Hsplit; exact Hbody).
      assert (Hfuel' : length (skipn mf rest) <= k) by (rewrite skipn_length; lia).
      pose proof (IH mf typ seq body (pre ++ piece) (skipn mf rest) Hmf Hfuel' Hbody') as IH'.
      cbv zeta in IH'. rewrite app_length in IH'.
      destruct IH' as (IHc & IHf & IHt).
      assert (Hbl : length body = length pre + length rest)
        by (rewrite Hbody; apply app_length).
      split; [|split].
      * cbn [map concat f_body]. rewrite IHc. exact Hsplit.
      * constructor; [|exact IHf].
        unfold frag_ok; cbn [f_type f_blen f_seq f_len f_body f_off].
        repeat split; try lia.
        unfold slice. rewrite Hbody, skipn_length_app. unfold piece.
        symmetry. apply firstn_len_firstn.
      * cbn [tiled f_off f_len]. repeat split; try lia. exact IHt.
Qed.

Lemma send_fragments_cases : forall mp typ seq body fs,
  send_fragments mp typ seq body = Some fs ->
  (12 + length body <= mp /\ fs = [mkFrag typ (length body) seq 0 (length body) body]) \/
  (12 < mp /\ mp < 12 + length body /\
   fs = split_from (S (length body)) (mp - 12) typ (length body) seq 0 body).
Proof.
  intros mp typ seq body fs H. unfold send_fragments in H. cbv zeta in H.
  destruct (12 + length body <=? mp) eqn:E1.
  - apply Nat.leb_le in E1. left. split; [exact E1|]. injection H as <-. reflexivity.
  - apply Nat.leb_gt in E1. destruct (mp <=? 12) eqn:E2; [discriminate|].
    apply Nat.leb_gt in E2. right. repeat split; try assumption.
    injection H as <-. reflexivity.
Qed.

Lemma slice_whole : forall (body : list byte), slice body 0 (length body) = body.
Proof. intros. unfold slice. rewrite skipn_O. apply firstn_all. Qed.

(* T4: the sender's fragments tile the body: consecutive, in order, each at most mf bytes,
   concatenating to the body; all carry the same type, total length and message_seq *)
Theorem split_tiles : forall mf typ seq body fs,
  send_fragments (12 + mf) typ seq body = Some fs -> 0 < mf ->
  concat (map f_body fs) = body /\
  Forall (fun f => f_type f = typ /\ f_blen f = length body /\ f_seq f = seq /\
                   f_len f = length (f_body f) /\ f_len f <= Nat.max mf (length body) /\
                   f_body f = slice body (f_off f) (f_len f) /\
                   f_off f + f_len f <= length body) fs /\
  (length body <= mf -> fs = [mkFrag typ (length body) seq 0 (length body) body]) /\
  (mf < length body -> Forall (fun f => 0 < f_len f <= mf) fs).
Proof.
  intros mf typ seq body fs H Hmf.
  apply send_fragments_cases in H. destruct H as [[Hle ->]|(H12 & Hlt & ->)].
  - split; [|split; [|split]].
    + cbn [map concat f_body]. apply app_nil_r.
    + constructor; [|constructor]. cbn [f_type f_blen f_seq f_len f_body f_off].
      repeat split; try lia. symmetry. apply slice_whole.
    + reflexivity.
    + intros Hc. lia.
  - replace (12 + mf - 12) with mf by lia.
    pose proof (split_from_spec (S (length body)) mf typ seq body [] body Hmf
                  (Nat.le_succ_diag_r _) eq_refl) as S.
    cbv zeta in S. cbn [length] in S. destruct S as (Sc & Sf & St).
    split; [|split; [|split]].
    + exact Sc.
    + eapply Forall_impl; [|exact Sf]. unfold frag_ok. intros f Hf.
      repeat split; try tauto. lia.
    + intros Hc. lia.
    + intros _. eapply Forall_impl; [|exact Sf]. unfold frag_ok. intros f Hf. tauto.
Qed.

(* T5 (the transcript form): feed the receiver ANY sequence rs of fragments, each of which is
   one of the sender's fragments of one message (any order, any duplication, possibly not all
   of them), starting from an empty pending map and ignoring the 256-iteration cap (fuel is
   explicit).  Then
   - the receiver never reports an error and never yields anything but the unfragmented
     encoding `whole typ seq body`, and
   - it yields it as soon as (and only if) every one of the sender's fragments has occurred. *)
Definition all_seen (fs rs : list frag) : Prop := forall f, In f fs -> In f rs.

(* ================= receiver loop on one message's fragments ================= *)

Definition to_add (f : frag) : nat * nat * list byte := (f_off f, f_len f, f_body f).

Section OneMessage.
  Variables (typ : byte) (seq : N) (body : list byte) (fs : list frag).
  Hypothesis Hb1 : 1 <= length body.
  Hypothesis Hmax : length body <= maxHandshake.
  Hypothesis HF : forall f, In f fs ->
    f_type f = typ /\ f_blen f = length body /\ f_seq f = seq /\
    f_len f = length (f_body f) /\ 0 < f_len f < length body /\
    f_body f = slice body (f_off f) (f_len f) /\ f_off f + f_len f <= length body.
  Hypothesis HT : tiled 0 fs (length body).

  Definition fb_of (pend : pending) : fragbuf :=
    match plookup seq pend with Some fb => fb | None => new_buf (length body) end.

  Lemma step_frag : forall pend f, In f fs ->
    rh_step pend f =
    let fb' := fst (add_fragment (fb_of pend) (f_off f) (f_len f) (f_body f)) in
    if complete fb'
    then (premove seq pend,
          Msg (hs_header typ (length body) seq 0 (length body) ++ assembled fb'))
    else (pinsert seq fb' pend, Cont).
  Proof.
    intros pend f Hin. destruct (HF f Hin) as (Ht & Hbl & Hs & Hl & Hlen & Hb & Hr).
    unfold rh_step, fb_of. rewrite Ht, Hbl, Hs.
    replace (maxHandshake <? length body) with false by (symmetry; apply Nat.ltb_ge; lia).
    replace (length body <? f_off f + f_len f) with false
      by (symmetry; apply Nat.ltb_ge; lia).
    replace (f_len f <? length body) with true by (symmetry; apply Nat.ltb_lt; lia).
    reflexivity.
  Qed.

  Lemma covered_seen : forall seen i, (forall f, In f seen -> In f fs) ->
    (covered (length body) (map to_add seen) i <->
     exists f, In f seen /\ f_off f <= i < f_off f + f_len f).
  Proof.
    intros seen i Hsub. unfold covered. split.
    - intros (off & len & fr & Hin & Hr & Hi). apply in_map_iff in Hin.
      destruct Hin as (g & Hg & Hin). unfold to_add in Hg. injection Hg as <- <- <-.
      exists g. auto.
    - intros (f & Hin & Hi). exists (f_off f), (f_len f), (f_body f). split; [|split].
      + apply in_map_iff. exists f. auto.
      + destruct (HF f (Hsub f Hin)) as (_ & _ & _ & _ & _ & _ & Hr). exact Hr.
      + exact Hi.
  Qed.

  Lemma complete_iff_seen : forall seen, (forall f, In f seen -> In f fs) ->
    (complete (add_all (new_buf (length body)) (map to_add seen)) = true <-> all_seen fs seen).
  Proof.
    intros seen Hsub. rewrite complete_iff_covered.
    replace (Nat.max 1 (length body)) with (length body) by lia.
    split.
    - intros H f Hf. destruct (HF f Hf) as (_ & _ & _ & _ & Hlen & _ & Hr).
      assert (Hi : f_off f < length body) by lia.
      apply H in Hi. apply covered_seen in Hi; [|exact Hsub].
      destruct Hi as (g & Hg & Hig).
      assert (Heq : f = g).
      { apply (tiled_disjoint fs 0 (length body) f g (f_off f) HT Hf (Hsub g Hg)); [lia | exact Hig]. }
      subst g. exact Hg.
    - intros H i Hi. apply covered_seen; [exact Hsub|].
      destruct (tiled_cover fs 0 (length body) i HT) as (f & Hf & Hr); [lia|].
      exists f. split; [apply H; exact Hf | exact Hr].
  Qed.

  Lemma slices_seen : forall seen, (forall f, In f seen -> In f fs) ->
    forall off len fr, In (off, len, fr) (map to_add seen) -> off + len <= length body ->
    fr = slice body off len.
  Proof.
    intros seen Hsub off len fr Hin _. apply in_map_iff in Hin.
    destruct Hin as (g & Hg & Hin). unfold to_add in Hg. injection Hg as <- <- <-.
    destruct (HF g (Hsub g Hin)) as (_ & _ & _ & _ & _ & Hb & _). exact Hb.
  Qed.

  Lemma fb_of_pinsert : forall fb pend, fb_of (pinsert seq fb pend) = fb.
  Proof. intros. unfold fb_of, pinsert. cbn [plookup]. rewrite N.eqb_refl. reflexivity. Qed.

  Lemma loop_frag : forall rs seen pend fuel,
    (forall f, In f seen -> In f fs) -> (forall f, In f rs -> In f fs) ->
    fb_of pend = add_all (new_buf (length body)) (map to_add seen) ->
    ~ all_seen fs seen -> length rs < fuel ->
    match rh_loop fuel pend rs with
    | (_, Some (Msg bytes), _) => bytes = whole typ seq body
    | (_, Some Cont, _) => False
    | (_, Some (RErr _), _) => False
    | (_, None, _) => ~ all_seen fs (seen ++ rs)
    end.
  Proof.
    induction rs as [|f t IH]; intros seen pend fuel Hseen Hrs Hfb Hns Hfuel;
      destruct fuel as [|k]; cbn [length] in Hfuel; try lia.
    - cbn [rh_loop]. rewrite app_nil_r. exact Hns.
    - cbn [rh_loop].
      assert (Hf : In f fs) by (apply Hrs; left; reflexivity).
      rewrite (step_frag pend f Hf). cbv zeta. rewrite Hfb.
      assert (Hseen' : forall g, In g (seen ++ [f]) -> In g fs).
      { intros g Hg. apply in_app_iff in Hg. destruct Hg as [Hg|[<-|[]]]; auto. }
      assert (Hadd : fst (add_fragment (add_all (new_buf (length body)) (map to_add seen))
                            (f_off f) (f_len f) (f_body f)) =
                     add_all (new_buf (length body)) (map to_add (seen ++ [f]))).
      { rewrite map_app. cbn [map]. unfold to_add at 3. rewrite add_all_snoc. reflexivity. }
      rewrite Hadd.
      destruct (complete (add_all (new_buf (length body)) (map to_add (seen ++ [f])))) eqn:Ec.
      + unfold whole. f_equal.
        apply assembled_exact; [exact Hb1 | apply slices_seen; exact Hseen' | exact Ec].
      + replace (seen ++ f :: t) with ((seen ++ [f]) ++ t)
          by (rewrite <- app_assoc; reflexivity).
        apply IH.
        * exact Hseen'.
        * intros g Hg. apply Hrs. right. exact Hg.
        * apply fb_of_pinsert.
        * intros Hall. apply complete_iff_seen in Hall; [congruence | exact Hseen'].
        * lia.
  Qed.
End OneMessage.

Lemma frag_bytes_whole : forall typ seq body,
  frag_bytes (mkFrag typ (length body) seq 0 (length body) body) = whole typ seq body.
Proof. reflexivity. Qed.

Lemma step_whole : forall pend typ seq body, length body <= maxHandshake ->
  rh_step pend (mkFrag typ (length body) seq 0 (length body) body) =
  (pend, Msg (whole typ seq body)).
Proof.
  intros pend typ seq body Hmax. unfold rh_step.
  cbn [f_type f_blen f_seq f_off f_len f_body].
  replace (maxHandshake <? length body) with false by (symmetry; apply Nat.ltb_ge; lia).
  replace (length body <? 0 + length body) with false by (symmetry; apply Nat.ltb_ge; lia).
  rewrite Nat.ltb_irrefl. cbn [orb]. rewrite Nat.ltb_irrefl.
  rewrite frag_bytes_whole. reflexivity.
Qed.

Theorem reassembly_any_order : forall max_payload typ seq body fs rs fuel,
  1 <= length body -> length body <= maxHandshake ->
  send_fragments max_payload typ seq body = Some fs ->
  (forall f, In f rs -> In f fs) ->
  length rs < fuel ->
  match rh_loop fuel [] rs with
  | (_, Some (Msg bytes), _) => bytes = whole typ seq body
  | (_, Some Cont, _) => False
  | (_, Some (RErr _), _) => False
  | (_, None, _) => ~ all_seen fs rs
  end.
Proof.
  intros mp typ seq body fs rs fuel Hb1 Hmax Hsend Hrs Hfuel.
  apply send_fragments_cases in Hsend. destruct Hsend as [[Hle ->]|(H12 & Hlt & ->)].
  - destruct fuel as [|k]; [lia|]. destruct rs as [|f t].
    + cbn [rh_loop]. intros Hall. apply (Hall _ (or_introl eq_refl)).
    + cbn [rh_loop]. destruct (Hrs f (or_introl eq_refl)) as [<-|[]].
      rewrite step_whole by exact Hmax. reflexivity.
  - set (mf := mp - 12) in *.
    assert (Hmf : 0 < mf) by (unfold mf; lia).
    pose proof (split_from_spec (S (length body)) mf typ seq body [] body Hmf
                  (Nat.le_succ_diag_r _) eq_refl) as S.
    cbv zeta in S. cbn [length] in S. destruct S as (Sc & Sf & St).
    set (fs := split_from (S (length body)) mf typ (length body) seq 0 body) in *.
    assert (HF : forall f, In f fs ->
      f_type f = typ /\ f_blen f = length body /\ f_seq f = seq /\
      f_len f = length (f_body f) /\ 0 < f_len f < length body /\
      f_body f = slice body (f_off f) (f_len f) /\ f_off f + f_len f <= length body).
    { intros f Hf. rewrite Forall_forall in Sf. specialize (Sf f Hf). unfold frag_ok in Sf.
      repeat split; try tauto; unfold mf in *; lia. }
    apply (loop_frag typ seq body fs Hb1 Hmax HF St rs [] [] fuel).
    + intros f [].
    + exact Hrs.
    + reflexivity.
    + intros Hall. destruct (tiled_cover fs 0 (length body) 0 St) as (f & Hf & _); [lia|].
      apply (Hall f Hf).
    + exact Hfuel.
Qed.

Theorem reassembly_completes : forall max_payload typ seq body fs rs fuel,
  1 <= length body -> length body <= maxHandshake ->
  send_fragments max_payload typ seq body = Some fs ->
  (forall f, In f rs -> In f fs) -> all_seen fs rs ->
  length rs < fuel ->
  exists p rest, rh_loop fuel [] rs = (p, Some (Msg (whole typ seq body)), rest).
Proof.
  intros mp typ seq body fs rs fuel Hb1 Hmax Hsend Hrs Hall Hfuel.
  pose proof (reassembly_any_order mp typ seq body fs rs fuel Hb1 Hmax Hsend Hrs Hfuel) as H.
  destruct (rh_loop fuel [] rs) as [[p [o|]] rest].
  - destruct o as [|bytes|a]; try contradiction. subst bytes. exists p, rest. reflexivity.
  - contradiction.
Qed.

(* T6: bounded pending state: one iteration adds at most one buffer, a buffer never holds more
   than max(1, announced length) <= 65536 bytes plus its bitmask, and one message read makes at
   most 256 iterations *)
Definition buf_ok (fb : fragbuf) : Prop :=
  fb_n fb <= maxHandshake /\ 1 <= fb_n fb /\ length (fb_data fb) = fb_n fb /\ length (fb_recv fb) = (fb_n fb + 7) / 8.

Lemma new_buf_ok : forall total, total <= maxHandshake -> buf_ok (new_buf total).
Proof.
  intros total H. pose proof maxHandshake_pos as Hp.
  unfold buf_ok, new_buf. cbn [fb_n fb_data fb_recv].
  rewrite !repeat_length. repeat split; lia.
Qed.

Lemma add_fragment_ok : forall fb off len fr,
  buf_ok fb -> buf_ok (fst (add_fragment fb off len fr)).
Proof.
  intros fb off len fr H. unfold add_fragment.
  destruct (fb_n fb <? off + len); cbn [fst]; [exact H|].
  unfold buf_ok in *. cbn [fb_n fb_data fb_recv].
  rewrite length_copy_at, set_bits_length. exact H.
Qed.

Lemma plookup_ok : forall k pend fb,
  Forall (fun kv => buf_ok (snd kv)) pend -> plookup k pend = Some fb -> buf_ok fb.
Proof.
  induction pend as [|[k' v] t IH]; intros fb HP H; cbn [plookup] in H; [discriminate|].
  inversion HP as [|? ? Hv Ht]; subst.
  destruct (N.eqb k k').
  - injection H as <-. exact Hv.
  - apply IH; assumption.
Qed.

Lemma premove_ok : forall k pend,
  Forall (fun kv => buf_ok (snd kv)) pend ->
  Forall (fun kv : N * fragbuf => buf_ok (snd kv)) (premove k pend) /\
  length (premove k pend) <= length pend.
Proof.
  induction pend as [|[k' v] t IH]; intros HP; cbn [premove].
  - split; [constructor | apply le_n].
  - inversion HP as [|? ? Hv Ht]; subst. destruct (IH Ht) as [IH1 IH2].
    destruct (N.eqb k k'); cbn [length].
    + split; [exact IH1 | lia].
    + split; [constructor; assumption | lia].
Qed.

Theorem step_bounded : forall pend f p' o,
  Forall (fun kv => buf_ok (snd kv)) pend -> rh_step pend f = (p', o) ->
  Forall (fun kv => buf_ok (snd kv)) p' /\ length p' <= S (length pend).
Proof.
  intros pend f p' o HP H. unfold rh_step in H.
  destruct (maxHandshake <? f_blen f) eqn:E1.
  { injection H as <- <-. split; [exact HP | lia]. }
  destruct (f_blen f <? f_off f + f_len f) eqn:E2.
  { injection H as <- <-. split; [exact HP | lia]. }
  destruct ((f_len f <? f_blen f) || (0 <? f_off f)) eqn:E3.
  2:{ injection H as <- <-. split; [exact HP | lia]. }
  apply Nat.ltb_ge in E1.
  assert (Hfb : buf_ok (match plookup (f_seq f) pend with
                        | Some fb => fb | None => new_buf (f_blen f) end)).
  { destruct (plookup (f_seq f) pend) as [fb|] eqn:El.
    - apply (plookup_ok _ _ _ HP El).
    - apply new_buf_ok. exact E1. }
  apply (add_fragment_ok _ (f_off f) (f_len f) (f_body f)) in Hfb.
  destruct (premove_ok (f_seq f) pend HP) as [HR1 HR2].
  destruct (complete _).
  - injection H as <- <-. split; [exact HR1 | lia].
  - injection H as <- <-. unfold pinsert. cbn [length]. split; [|lia].
    constructor; [exact Hfb | exact HR1].
Qed.

Theorem loop_bounded : forall fuel pend fs p' o rest,
  Forall (fun kv => buf_ok (snd kv)) pend -> rh_loop fuel pend fs = (p', o, rest) ->
  Forall (fun kv => buf_ok (snd kv)) p' /\ length p' <= fuel + length pend /\
  length fs - length rest <= fuel.
Proof.
  induction fuel as [|k IH]; intros pend fs p' o rest HP H; cbn [rh_loop] in H.
  - injection H as <- <- <-. repeat split; [exact HP | lia | lia].
  - destruct fs as [|f t].
    + injection H as <- <- <-. repeat split; [exact HP | lia | cbn [length]; lia].
    + destruct (rh_step pend f) as [p1 o1] eqn:Es.
      destruct (step_bounded _ _ _ _ HP Es) as [HP1 HL1].
      destruct o1 as [|bytes|a].
      * destruct (IH _ _ _ _ _ HP1 H) as (A & B & C).
        repeat split; [exact A | lia | cbn [length]; lia].
      * injection H as <- <- <-. repeat split; [exact HP1 | lia | cbn [length]; lia].
      * injection H as <- <- <-. repeat split; [exact HP1 | lia | cbn [length]; lia].
Qed.

Print Assumptions complete_iff_covered.
Print Assumptions assembled_exact.
Print Assumptions add_out_of_range.
Print Assumptions step_rejects_overflow.
Print Assumptions split_tiles.
Print Assumptions reassembly_any_order.
Print Assumptions reassembly_completes.
Print Assumptions step_bounded.
Print Assumptions loop_bounded.
