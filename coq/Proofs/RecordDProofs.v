(* Proofs about Model/RecordD.v. Statements are fixed; fill in the proofs. *)
From V Require Import Model.RecordD.
From Coq Require Import ZifyBool.
Open Scope Z_scope.
Ltac Zify.zify_post_hook ::= Z.div_mod_to_equations.

Ltac split_ltb :=
  repeat match goal with
  | |- context [if ?a <? ?b then _ else _] =>
      let E := fresh "E" in
      destruct (a <? b) eqn:E; [apply Z.ltb_lt in E|apply Z.ltb_ge in E]
  end.

(* T1: a payload within the connection's maximum payload fits the path MTU, for every mode
   and every PMTU that admits at least one payload byte *)
Theorem record_fits : forall pmtu m n,
  min_pmtu m <= eff_pmtu pmtu -> 0 < n <= max_payload pmtu m ->
  record_len m n <= eff_pmtu pmtu.
Proof.
  intros pmtu m n Hmin Hn. revert Hmin Hn.
  unfold max_payload, min_pmtu, record_len, hdr_len, nonce_len, max_plaintext, andnot15.
  generalize (eff_pmtu pmtu) as e. intros e.
  destruct m; cbv beta iota zeta; intros Hmin Hn; revert Hn; split_ltb; intros Hn; lia.
Qed.

(* T2: and never more than 16384 plaintext bytes *)
Theorem max_payload_bounds : forall pmtu m, 1 <= max_payload pmtu m <= 16384.
Proof.
  intros pmtu m.
  unfold max_payload, max_plaintext.
  match goal with |- context [if 16384 <? ?x then _ else _] => generalize x end.
  intros x.
  destruct (16384 <? x) eqn:E1; [apply Z.ltb_lt in E1|apply Z.ltb_ge in E1].
  - cbn. lia.
  - destruct (x <? 1) eqn:E2; [apply Z.ltb_lt in E2|apply Z.ltb_ge in E2]; lia.
Qed.

Lemma chunks_zero : forall fuel maxp, chunks fuel 0 maxp = [].
Proof. intros fuel maxp. destruct fuel as [|k]; reflexivity. Qed.

(* T3: exactly one datagram for 0 < n <= max payload *)
Theorem one_datagram : forall pmtu m n,
  0 < n <= max_payload pmtu m -> write_datagrams pmtu m n = [record_len m n].
Proof.
  intros pmtu m n Hn. unfold write_datagrams, write_chunks.
  destruct (n <=? 0) eqn:En; [apply Z.leb_le in En; lia|].
  generalize dependent (max_payload pmtu m). intros maxp Hn.
  destruct (Z.to_nat n) as [|k] eqn:Ek; [lia|].
  cbn [chunks].
  destruct (n <=? 0) eqn:E1; [apply Z.leb_le in E1; lia|].
  destruct (maxp <? n) eqn:E2; [apply Z.ltb_lt in E2; lia|].
  replace (n - n) with 0 by lia. rewrite chunks_zero. reflexivity.
Qed.

Lemma chunks_gen : forall fuel n maxp,
  1 <= maxp -> 0 <= n <= Z.of_nat fuel ->
  fold_right Z.add 0 (chunks fuel n maxp) = n /\
  Forall (fun c => 0 < c <= maxp) (chunks fuel n maxp) /\
  (forall i, (S i < length (chunks fuel n maxp))%nat -> nth i (chunks fuel n maxp) 0 = maxp).
Proof.
  induction fuel as [|k IH]; intros n maxp Hmaxp Hn.
  - cbn [chunks]. split; [cbn; lia|]. split; [constructor|].
    intros i Hi. cbn in Hi. lia.
  - cbn [chunks].
    destruct (n <=? 0) eqn:E1; [apply Z.leb_le in E1|apply Z.leb_gt in E1].
    + split; [cbn; lia|]. split; [constructor|]. intros i Hi. cbn in Hi. lia.
    + rewrite Nat2Z.inj_succ in Hn.
      destruct (maxp <? n) eqn:E2; [apply Z.ltb_lt in E2|apply Z.ltb_ge in E2].
      * assert (Hn' : 0 <= n - maxp <= Z.of_nat k) by lia.
        destruct (IH (n - maxp) maxp Hmaxp Hn') as [Hsum [Hall Hnth]].
        split; [cbn [fold_right]; rewrite Hsum; lia|].
        split; [constructor; [lia|exact Hall]|].
        intros i Hi. destruct i as [|j]; [reflexivity|].
        cbn [nth]. apply Hnth. cbn [length] in Hi. lia.
      * replace (n - n) with 0 by lia. rewrite chunks_zero.
        split; [cbn; lia|]. split; [constructor; [lia|constructor]|].
        intros i Hi. cbn in Hi. lia.
Qed.

(* T4: larger writes are split into pieces that are in order, sum to n, are each at most the
   maximum payload, all but the last equal to it; none is empty *)
Theorem chunks_spec : forall n maxp,
  0 <= n -> 1 <= maxp ->
  let cs := chunks (Z.to_nat n) n maxp in
  fold_right Z.add 0 cs = n /\
  Forall (fun c => 0 < c <= maxp) cs /\
  (forall i, (S i < length cs)%nat -> nth i cs 0 = maxp).
Proof.
  intros n maxp Hn Hmaxp. cbv zeta. apply chunks_gen; [exact Hmaxp|lia].
Qed.

(* T5: every datagram of a Write fits the path MTU and carries at most 16384 plaintext bytes *)
Theorem write_datagrams_fit : forall pmtu m n,
  min_pmtu m <= eff_pmtu pmtu -> 0 <= n ->
  Forall (fun d => d <= eff_pmtu pmtu) (write_datagrams pmtu m n).
Proof.
  intros pmtu m n Hmin Hn. unfold write_datagrams, write_chunks.
  destruct (n <=? 0) eqn:En.
  - cbn [map]. constructor; [|constructor].
    assert (M : record_len m 0 <= record_len m 1) by (destruct m; vm_compute; intros H; discriminate H).
    unfold min_pmtu in Hmin. lia.
  - pose proof (max_payload_bounds pmtu m) as Hb.
    destruct (chunks_spec n (max_payload pmtu m) Hn (proj1 Hb)) as [_ [Hall _]].
    apply Forall_map. eapply Forall_impl; [|exact Hall].
    intros c Hc. cbv beta in Hc. apply record_fits; assumption.
Qed.

(* T6: the empty write is one datagram carrying one empty record (before the repair of K5 it
   produced no datagram at all) *)
Theorem empty_write_one_datagram : forall pmtu m, write_datagrams pmtu m 0 = [record_len m 0].
Proof. intros pmtu m. reflexivity. Qed.

(* T7: before the fix the CBC bound ignored the padding: with the old formula a payload of the
   "maximum" size overflowed the path MTU (finding F9) *)
Definition max_payload_old (pmtu : Z) (m : mode) : Z :=
  let x := eff_pmtu pmtu - hdr_len - nonce_len m in
  let x := match m with MPlain => x | MGcm => x - 16 | MCbc => x - 32 end in
  let x := if max_plaintext <? x then max_plaintext else x in
  if x <? 1 then 1 else x.
Theorem old_cbc_bound_refuted :
  exists pmtu n, 0 < n <= max_payload_old pmtu MCbc /\ eff_pmtu pmtu < record_len MCbc n.
Proof.
  exists 1400, 1339. vm_compute. split; [split|]; try reflexivity. intros H; discriminate H.
Qed.

(* T8: a buffered flight is packed into datagrams none of which exceeds the path MTU, provided
   every record fits; nothing is lost or reordered (the sizes add up) *)
Lemma pack_fits : forall recs pmtu cur,
  0 <= cur <= pmtu -> Forall (fun r => 0 < r <= pmtu) recs ->
  Forall (fun d => 0 < d <= pmtu) (pack pmtu cur recs).
Proof.
  induction recs as [|r t IH]; intros pmtu cur Hc Hr; cbn [pack].
  - destruct (0 <? cur) eqn:E; [|constructor]. apply Z.ltb_lt in E. constructor; [lia|constructor].
  - inversion Hr as [|x l Hr1 Hr2]; subst.
    destruct ((0 <? cur) && (pmtu <? cur + r)) eqn:E.
    + apply andb_true_iff in E. destruct E as [E1 E2]. apply Z.ltb_lt in E1.
      constructor; [lia|]. apply IH; [lia|exact Hr2].
    + apply andb_false_iff in E. apply IH; [|exact Hr2].
      destruct E as [E|E].
      * apply Z.ltb_ge in E. lia.
      * apply Z.ltb_ge in E. lia.
Qed.

Lemma pack_sum : forall recs pmtu cur,
  0 <= cur -> Forall (fun r => 0 < r) recs ->
  fold_right Z.add 0 (pack pmtu cur recs) = cur + fold_right Z.add 0 recs.
Proof.
  induction recs as [|r t IH]; intros pmtu cur Hc Hr; cbn [pack fold_right].
  - destruct (0 <? cur) eqn:E; cbn [fold_right]; [lia|]. apply Z.ltb_ge in E. lia.
  - inversion Hr as [|x l Hr1 Hr2]; subst.
    destruct ((0 <? cur) && (pmtu <? cur + r)); cbn [fold_right].
    + rewrite IH; [lia|lia|exact Hr2].
    + rewrite IH; [lia|lia|exact Hr2].
Qed.

Theorem flight_fits : forall pmtu recs,
  Forall (fun r => 0 < r <= eff_pmtu pmtu) recs ->
  Forall (fun d => 0 < d <= eff_pmtu pmtu) (flight_datagrams pmtu recs) /\
  fold_right Z.add 0 (flight_datagrams pmtu recs) = fold_right Z.add 0 recs.
Proof.
  intros pmtu recs H. unfold flight_datagrams. split.
  - apply pack_fits; [|exact H]. split; [lia|]. unfold eff_pmtu. destruct (Z.leb_spec pmtu 0); lia.
  - rewrite pack_sum; [lia|lia|]. eapply Forall_impl; [|exact H]. cbv beta. intros a Ha. lia.
Qed.

(* before the repair the flight left as one datagram of the summed length, which can exceed the
   path MTU although every record in it fits (finding K3) *)
Theorem flight_exceeds_pmtu :
  exists pmtu recs, Forall (fun r => r <= eff_pmtu pmtu) recs /\ eff_pmtu pmtu < flush_datagram recs.
Proof.
  exists 1400, [600; 600; 600]. split.
  - repeat constructor; vm_compute; intros H; discriminate H.
  - vm_compute. reflexivity.
Qed.

Print Assumptions record_fits.
Print Assumptions max_payload_bounds.
Print Assumptions one_datagram.
Print Assumptions chunks_spec.
Print Assumptions write_datagrams_fit.
Print Assumptions empty_write_one_datagram.
Print Assumptions old_cbc_bound_refuted.
Print Assumptions flight_exceeds_pmtu.
Print Assumptions flight_fits.
