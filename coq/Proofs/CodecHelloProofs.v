(* Proofs about ServerHello and ClientHello (shared bodies of Codec.v, both header forms). *)
From V Require Import Model.Codec Model.CodecT Model.CodecD Model.CodecSpec Model.CodecAll
  Proofs.CodecBaseProofs Proofs.CodecProofs.
From Coq Require Import ZArith ZifyNat ZifyN ZifyBool.
#[local] Ltac Zify.zify_post_hook ::= Z.div_mod_to_equations.
Open Scope N_scope.

(* ================= generic: extension lists ================= *)
Lemma fold_opt_Forall : forall S E (f : S -> E -> option S) l st st',
  fold_opt f st l = Some st' -> Forall (fun e => exists a b, f a e = Some b) l.
Proof.
  induction l as [|e l IH]; intros st st' H; [constructor|].
  cbn [fold_opt] in H. destruct (f st e) as [st1|] eqn:Hfe; try discriminate.
  constructor; eauto.
Qed.

Lemma all_exts_enc : forall p l fuel,
  Forall (fun e => fst e < 65536 /\ len (snd e) < 65536 /\ p (fst e) (snd e) = true) l ->
  (length (enc_exts l) <= fuel)%nat -> all_exts fuel p (enc_exts l) = true.
Proof.
  induction l as [|[t d] l IH]; intros fuel H Hf.
  - destruct fuel; reflexivity.
  - inversion H as [|? ? (Ht & Hd & Hp) Hl]; subst. cbn [fst snd] in *.
    rewrite enc_exts_cons in *. unfold enc_ext in *. cbn [fst snd] in *.
    rewrite !app_length in Hf. change (length (u16 t)) with 2%nat in Hf.
    destruct fuel as [|k]; [lia|].
    unfold u16 at 1. cbn [app all_exts]. rewrite be16_u16 by auto.
    rewrite cut2_vec16, rd_vec16_enc by auto. rewrite Hp. cbn [andb]. apply IH; auto. lia.
Qed.

Lemma opt_ext_inv : forall t s o r, opt_ext t s = Some (o, r) -> bytes_ok s -> t < 65536 ->
  (o = None /\ r = s) \/
  (exists d, o = Some d /\ s = u16 t ++ vec16 d ++ r /\ len d < 65536 /\ bytes_ok d /\ bytes_ok r).
Proof.
  unfold opt_ext; intros t s o r H Hok Ht.
  destruct s as [|a [|b s']]; try (inversion H; subst; auto; fail).
  destruct (be16 a b =? t) eqn:E; [|inversion H; subst; auto].
  apply N.eqb_eq in E. rewrite cut2_vec16 in H.
  apply bytes_ok_cons in Hok as [Ha Hok]. apply bytes_ok_cons in Hok as [Hb Hok].
  destruct (rd_vec16 s') as [[d r']|] eqn:E2; try discriminate. inversion H; subst o r'.
  apply rd_vec16_inv in E2 as (-> & Hd & Hod & Hor); auto.
  right. exists d. subst t. rewrite u16_be16 by auto. repeat split; auto.
Qed.

Lemma skipn32 : forall (a b : bytes), len a = 32 -> skipn 32 (a ++ b) = b.
Proof. intros a b H. change 32%nat with (N.to_nat 32). rewrite <- H. apply skipn_app_exact. Qed.

(* ================= ServerHello ================= *)
Definition sh_set_ocsp (m : shello) r := mkSH (sh_vers m) (sh_random m) (sh_sid m) (sh_suite m) (sh_comp m) true r (sh_alpn m) (sh_ack m).
Definition sh_set_alpn (m : shello) p := mkSH (sh_vers m) (sh_random m) (sh_sid m) (sh_suite m) (sh_comp m) (sh_ocsp m) (sh_ocsp_resp m) p (sh_ack m).
Definition sh_set_ack (m : shello) := mkSH (sh_vers m) (sh_random m) (sh_sid m) (sh_suite m) (sh_comp m) (sh_ocsp m) (sh_ocsp_resp m) (sh_alpn m) true.

Lemma sh_ext_status : forall m r, len r < 16777216 ->
  sh_ext m (extStatusRequest, u8 1 ++ vec24 r) = Some (sh_set_ocsp m r).
Proof.
  intros. unfold sh_ext. cbn [N.eqb extStatusRequest Pos.eqb]. rewrite rd_u8_enc by lia.
  cbn [N.eqb Pos.eqb negb]. rewrite <- (app_nil_r (vec24 r)), rd_vec24_enc by auto. reflexivity.
Qed.
Lemma sh_ext_alpn : forall m p, 1 <= len p < 256 ->
  sh_ext m (extALPN, vec16 (vec8 p)) = Some (sh_set_alpn m p).
Proof.
  intros m p [H1 H2]. unfold sh_ext. change (extALPN =? extStatusRequest) with false. change (extALPN =? extALPN) with true.
  cbn iota. rewrite <- (app_nil_r (vec16 _)), rd_vec16_enc by lens.
  replace (empty (vec8 p)) with false by (unfold vec8, u8; reflexivity).
  rewrite <- (app_nil_r (vec8 p)), rd_vec8_enc by auto.
  replace (empty p) with false by (destruct p; [rewrite len_nil in H1; lia | reflexivity]).
  reflexivity.
Qed.
Lemma sh_ext_ack : forall m, sh_ext m (extServerName, []) = Some (sh_set_ack m).
Proof. reflexivity. Qed.

Definition sh_ext_list (m : shello) : list (N * bytes) :=
  (if sh_ocsp m && negb (empty (sh_ocsp_resp m)) then [(extStatusRequest, u8 1 ++ vec24 (sh_ocsp_resp m))] else []) ++
  (if negb (empty (sh_alpn m)) then [(extALPN, vec16 (vec8 (sh_alpn m)))] else []) ++
  (if sh_ack m then [(extServerName, [])] else []).
Lemma sh_exts_enc_list : forall m, sh_exts_enc m = enc_exts (sh_ext_list m).
Proof.
  intros. unfold sh_exts_enc, sh_ext_list, enc_exts.
  destruct (sh_ocsp m && negb (empty (sh_ocsp_resp m))), (negb (empty (sh_alpn m))), (sh_ack m);
    cbn [app flat_map enc_ext fst snd]; rewrite ?app_nil_r, <- ?app_assoc; reflexivity.
Qed.

Lemma sh_body_decode_encode : forall m, wf_sh m -> sh_body_dec (sh_body_enc m) = Some m.
Proof.
  intros m (Hv & Hro & Hrl & [Hso Hsl] & Hsu & Hc & Hocsp & [Hreo Hrel] & [Hao Hal] & Hel).
  unfold sh_body_dec, sh_body_enc.
  rewrite rd_u16_enc by auto. rewrite take_app by auto. rewrite rd_vec8_enc by auto.
  rewrite rd_u16_enc by auto. rewrite rd_u8_enc by auto.
  destruct (empty (sh_exts_enc m)) eqn:Ee.
  - cbn [empty]. apply empty_true in Ee. unfold sh_exts_enc in Ee.
    apply app_eq_nil in Ee as [E1 Ee]. apply app_eq_nil in Ee as [E2 E3].
    destruct m as [v r s su c o re al ak]; cbn [sh_ocsp sh_ocsp_resp sh_alpn sh_ack] in *.
    destruct ak; [discriminate|].
    destruct al; [|discriminate].
    destruct re; cbn [empty negb] in *; subst o; [reflexivity | discriminate].
  - replace (empty (vec16 (sh_exts_enc m))) with false by (unfold vec16, u16; reflexivity).
    rewrite <- (app_nil_r (vec16 _)), rd_vec16_enc by auto. cbn [empty negb].
    rewrite sh_exts_enc_list. rewrite exts_split_enc.
    2:{ unfold sh_ext_list.
        assert (H1 : forall (b : bool) (e : N * bytes), fst e < 65536 -> len (snd e) < 65536 ->
                  Forall (fun e => fst e < 65536 /\ len (snd e) < 65536) (if b then [e] else [])).
        { intros [] e ? ?; repeat constructor; auto. }
        repeat (apply Forall_app; split); apply H1; cbn [fst snd];
          unfold extStatusRequest, extALPN, extServerName; lens. }
    unfold sh_ext_list.
    destruct m as [v r s su c o re al ak]; cbn [sh_vers sh_random sh_sid sh_suite sh_comp sh_ocsp sh_ocsp_resp sh_alpn sh_ack] in *.
    subst o.
    destruct re as [|r0 re]; cbn [empty negb andb app].
    + destruct al as [|a0 al]; cbn [empty negb app].
      * destruct ak; reflexivity.
      * cbn [fold_opt]. rewrite sh_ext_alpn by (split; [lens | auto]).
        destruct ak; reflexivity.
    + cbn [fold_opt]. rewrite sh_ext_status by lia. unfold sh_set_ocsp. cbn [sh_vers sh_random sh_sid sh_suite sh_comp sh_alpn sh_ack].
      destruct al as [|a0 al]; cbn [empty negb app].
      * destruct ak; reflexivity.
      * cbn [fold_opt]. rewrite sh_ext_alpn by (split; [lens | auto]).
        destruct ak; reflexivity.
Qed.

(* the canonical parser accepts only what marshal produces *)
Lemma canon_sh_sound : forall body m, canon_sh_body body = Some m -> bytes_ok body ->
  sh_body_enc m = body /\ wf_sh m.
Proof.
  unfold canon_sh_body; intros body m H Hok.
  destruct (rd_u16 body) as [[vers s0]|] eqn:E0; try discriminate.
  apply rd_u16_inv in E0 as (-> & Hv & Hok0); auto.
  destruct (take 32 s0) as [[random s1]|] eqn:E1; try discriminate.
  apply take_inv in E1 as (-> & Hrl). apply bytes_ok_app in Hok0 as [Hro Hok1].
  rewrite cut1_vec8 in H.
  destruct (rd_vec8 s1) as [[sid s2]|] eqn:E2; try discriminate.
  apply rd_vec8_inv in E2 as (-> & Hsl & Hso & Hok2); auto.
  destruct (rd_u16 s2) as [[suite s3]|] eqn:E3; try discriminate.
  apply rd_u16_inv in E3 as (-> & Hsu & Hok3); auto.
  destruct (rd_u8 s3) as [[comp s4]|] eqn:E4; try discriminate.
  apply rd_u8_inv in E4 as (-> & Hc & Hok4); auto.
  destruct (empty s4) eqn:Ee.
  { apply empty_true in Ee as ->. inversion H; subst m. split; [reflexivity|].
    unfold wf_sh, wf_blob; cbn. repeat split; auto using bytes_ok_nil; lia. }
  rewrite cut2_vec16 in H.
  destruct (rd_vec16 s4) as [[blk s5]|] eqn:E5; try discriminate.
  apply rd_vec16_inv in E5 as (-> & Hbl & Hbo & _); auto.
  destruct (negb (empty s5) || empty blk) eqn:E6; try discriminate.
  apply orb_false_elim in E6 as [E6a E6b]. apply negb_false_iff in E6a. apply empty_true in E6a as ->.
  destruct (opt_ext extStatusRequest blk) as [[o5 b1]|] eqn:X5; try discriminate.
  destruct (opt_ext extALPN b1) as [[o16 b2]|] eqn:X16; try discriminate.
  destruct (opt_ext extServerName b2) as [[o0 b3]|] eqn:X0; try discriminate.
  destruct (negb (empty b3)) eqn:E7; try discriminate.
  apply negb_false_iff in E7. apply empty_true in E7 as ->.
  (* interpretation of the three optional extensions *)
  set (R := match o5 with
            | None => Some []
            | Some (1 :: r) => match cut 3 r with Some (v, []) => if empty v then None else Some v | _ => None end
            | Some _ => None end) in H.
  destruct R as [resp|] eqn:ER; try discriminate.
  set (A := match o16 with
            | None => Some []
            | Some d => match cut 2 d with
                        | Some (pl, []) => match cut 1 pl with Some (p, []) => if empty p then None else Some p | _ => None end
                        | _ => None end end) in H.
  destruct A as [alpn|] eqn:EA; try discriminate.
  set (K := match o0 with None => Some false | Some [] => Some true | Some _ => None end) in H.
  destruct K as [ack|] eqn:EK; try discriminate.
  inversion H; subst m. clear H.
  (* the block is the three pieces in order *)
  assert (P5 : exists e5, blk = e5 ++ b1 /\ bytes_ok b1 /\
               e5 = (if negb (empty resp) then u16 extStatusRequest ++ vec16 (u8 1 ++ vec24 resp) else []) /\
               bytes_ok resp /\ len resp < 65532).
  { assert (T5 : extStatusRequest < 65536) by (unfold extStatusRequest; lia).
    destruct (opt_ext_inv _ _ _ _ X5 Hbo T5) as [[-> ->]|(d & -> & -> & Hd & Hdo & Hro')].
    - exists []. subst R. inversion ER; subst resp. repeat split; auto using bytes_ok_nil; try (rewrite len_nil; lia).
    - subst R. destruct d as [|[|[| | ]] r]; try discriminate. rewrite cut3_vec24 in ER.
      destruct (rd_vec24 r) as [[v [|? ?]]|] eqn:Ev; try discriminate.
      destruct (empty v) eqn:Eev; try discriminate. inversion ER; subst v.
      apply bytes_ok_cons in Hdo as [_ Hdo]. apply rd_vec24_inv in Ev as (-> & Hvl & Hvo & _); auto.
      rewrite app_nil_r in *. rewrite Eev. cbn [negb].
      eexists. split; [rewrite app_assoc; reflexivity|]. repeat split; auto.
      rewrite len_cons, len_vec24 in Hd. lia. }
  destruct P5 as (e5 & Eb & Hb1 & Ee5 & Hresp & Hrespl).
  assert (P16 : exists e16, b1 = e16 ++ b2 /\ bytes_ok b2 /\
                e16 = (if negb (empty alpn) then u16 extALPN ++ vec16 (vec16 (vec8 alpn)) else []) /\
                bytes_ok alpn /\ len alpn < 256).
  { assert (T16 : extALPN < 65536) by (unfold extALPN; lia).
    destruct (opt_ext_inv _ _ _ _ X16 Hb1 T16) as [[-> ->]|(d & -> & -> & Hd & Hdo & Hro')].
    - exists []. subst A. inversion EA; subst alpn. repeat split; auto using bytes_ok_nil; try (rewrite len_nil; lia).
    - subst A. rewrite cut2_vec16 in EA.
      destruct (rd_vec16 d) as [[pl [|? ?]]|] eqn:Ep; try discriminate.
      apply rd_vec16_inv in Ep as (-> & Hpl & Hplo & _); auto. rewrite cut1_vec8 in EA.
      destruct (rd_vec8 pl) as [[p [|? ?]]|] eqn:Epp; try discriminate.
      apply rd_vec8_inv in Epp as (-> & Hp & Hpo & _); auto.
      destruct (empty p) eqn:Eep; try discriminate. inversion EA; subst p.
      rewrite !app_nil_r in *. rewrite Eep. cbn [negb].
      eexists. split; [rewrite app_assoc; reflexivity|]. repeat split; auto. }
  destruct P16 as (e16 & Eb1 & Hb2 & Ee16 & Halpn & Halpnl).
  assert (P0 : b2 = (if ack then u16 extServerName ++ u16 0 else [])).
  { assert (T0 : extServerName < 65536) by (unfold extServerName; lia).
    destruct (opt_ext_inv _ _ _ _ X0 Hb2 T0) as [[-> ->]|(d & -> & -> & Hd & Hdo & Hro')].
    - subst K. inversion EK; subst ack. reflexivity.
    - subst K. destruct d; try discriminate. inversion EK; subst ack. reflexivity. }
  assert (Eexts : sh_exts_enc (mkSH vers random sid suite comp (negb (empty resp)) resp alpn ack) = blk).
  { unfold sh_exts_enc. cbn [sh_ocsp sh_ocsp_resp sh_alpn sh_ack]. rewrite andb_diag.
    rewrite Eb, Eb1, P0, Ee5, Ee16. reflexivity. }
  split.
  - unfold sh_body_enc. cbn [sh_vers sh_random sh_sid sh_suite sh_comp]. rewrite Eexts, E6b.
    rewrite app_nil_r. reflexivity.
  - unfold wf_sh, wf_blob. cbn [sh_vers sh_random sh_sid sh_suite sh_comp sh_ocsp sh_ocsp_resp sh_alpn sh_ack].
    rewrite Eexts. repeat split; auto.
Qed.

(* what the decoder accepts is strictly tiled *)
Lemma sh_ext_strict : forall m e m', sh_ext m e = Some m' -> bytes_ok (snd e) -> strict_sh_ext (fst e) (snd e) = true.
Proof.
  intros m [t d] m' H Hok. cbn [fst snd] in *. unfold sh_ext in H. unfold strict_sh_ext.
  destruct (t =? extStatusRequest).
  { destruct (rd_u8 d) as [[st d1]|] eqn:E1; try discriminate.
    apply rd_u8_inv in E1 as (-> & _ & Hd1); auto.
    destruct (negb (st =? 1)); try discriminate.
    destruct (rd_vec24 d1) as [[r d2]|] eqn:E2; try discriminate.
    apply rd_vec24_inv in E2 as (-> & Hr & _ & _); auto.
    destruct (empty d2) eqn:E3; try discriminate. apply empty_true in E3 as ->.
    unfold u8. cbn [app]. rewrite app_nil_r. unfold exact. rewrite cut3_vec24.
    rewrite <- (app_nil_r (vec24 r)), rd_vec24_enc by auto. reflexivity. }
  destruct (t =? extALPN).
  { destruct (rd_vec16 d) as [[pl d1]|] eqn:E1; try discriminate.
    apply rd_vec16_inv in E1 as (-> & Hpl & Hplo & _); auto.
    destruct (empty pl); try discriminate.
    destruct (rd_vec8 pl) as [[p pl1]|] eqn:E2; try discriminate.
    apply rd_vec8_inv in E2 as (-> & Hp & _ & _); auto.
    destruct (empty p || negb (empty pl1)) eqn:E3; try discriminate.
    apply orb_false_elim in E3 as [_ E3]. apply negb_false_iff in E3. apply empty_true in E3 as ->.
    destruct (empty d1) eqn:E4; try discriminate. apply empty_true in E4 as ->.
    rewrite !app_nil_r in *. rewrite exact2_vec16_p by auto. apply exact1_vec8; auto. }
  destruct (t =? extServerName).
  { destruct (empty d); [reflexivity | discriminate]. }
  reflexivity.
Qed.

Lemma strict_sh_shape : forall a b random sid x y z rest, len random = 32 -> len sid < 256 ->
  strict_sh (a :: b :: random ++ vec8 sid ++ x :: y :: z :: rest) =
  (empty rest || exact 2 (fun v => all_exts (length v) strict_sh_ext v) rest).
Proof.
  intros. unfold strict_sh. cbv beta iota zeta. rewrite skipn32 by auto.
  change (skipn 2 (a :: b :: random ++ vec8 sid ++ x :: y :: z :: rest)) with (random ++ vec8 sid ++ x :: y :: z :: rest).
  replace (32 <=? _) with true by (symmetry; apply N.leb_le; lens).
  rewrite cut1_vec8, rd_vec8_enc by auto. reflexivity.
Qed.

Lemma sh_body_strict : forall body m, sh_body_dec body = Some m -> bytes_ok body -> strict_sh body = true.
Proof.
  unfold sh_body_dec; intros body m H Hok.
  destruct (rd_u16 body) as [[vers s0]|] eqn:E0; try discriminate.
  apply rd_u16_inv in E0 as (-> & Hv & Hok0); auto.
  destruct (take 32 s0) as [[random s1]|] eqn:E1; try discriminate.
  apply take_inv in E1 as (-> & Hrl). apply bytes_ok_app in Hok0 as [Hro Hok1].
  destruct (rd_vec8 s1) as [[sid s2]|] eqn:E2; try discriminate.
  apply rd_vec8_inv in E2 as (-> & Hsl & Hso & Hok2); auto.
  destruct (rd_u16 s2) as [[suite s3]|] eqn:E3; try discriminate.
  apply rd_u16_inv in E3 as (-> & Hsu & Hok3); auto.
  destruct (rd_u8 s3) as [[comp s4]|] eqn:E4; try discriminate.
  apply rd_u8_inv in E4 as (-> & Hc & Hok4); auto.
  change (u16 vers ++ random ++ vec8 sid ++ u16 suite ++ u8 comp ++ s4)
    with ((vers / 256) mod 256 :: vers mod 256 :: random ++ vec8 sid ++
          (suite / 256) mod 256 :: suite mod 256 :: comp mod 256 :: s4).
  rewrite strict_sh_shape by auto.
  destruct (empty s4) eqn:Ee; [reflexivity|]. cbn [orb].
  destruct (rd_vec16 s4) as [[exts s5]|] eqn:E5; try discriminate.
  apply rd_vec16_inv in E5 as (-> & Hel & Heo & _); auto.
  destruct (negb (empty s5)) eqn:E6; try discriminate. apply negb_false_iff in E6. apply empty_true in E6 as ->.
  rewrite app_nil_r. rewrite exact2_vec16_p by auto.
  destruct (exts_split exts) as [l|] eqn:El; try discriminate.
  unfold exts_split in El. apply tlv16_inv in El as (<- & Hall); auto.
  apply fold_opt_Forall in H.
  apply all_exts_enc; [|lia].
  rewrite Forall_forall in *. intros e He. destruct (Hall e He) as (Ht & Hd & Hdo). destruct (H e He) as (a & b & Hab).
  repeat split; auto. eapply sh_ext_strict; eauto.
Qed.

Lemma len_sh_body : forall m, wf_sh m -> len (sh_body_enc m) < 16777216.
Proof.
  intros m (Hv & Hro & Hrl & [Hso Hsl] & Hsu & Hc & Hocsp & [Hreo Hrel] & [Hao Hal] & Hel).
  unfold sh_body_enc. destruct (empty (sh_exts_enc m)); lens.
Qed.
(* ---------- TLCP serverHello ---------- *)
Lemma T_sh_decode_encode : forall m, wf_sh m -> T_sh_dec (T_sh_enc m) = Ok m.
Proof.
  intros m Hwf. unfold T_sh_dec, T_sh_enc, t_hdr, u24. cbn [app]. rewrite take_4.
  rewrite sh_body_decode_encode by auto. reflexivity.
Qed.
Lemma T_sh_hdr : forall x body, T_sh_dec (t_hdr x body) = of_opt (sh_body_dec body).
Proof. intros. unfold T_sh_dec, t_hdr, u24. cbn [app]. rewrite take_4. reflexivity. Qed.

Lemma T_sh_encode_decode : forall bs m, T_sh_dec bs = Ok m -> bytes_ok bs ->
  canonical ST mSH bs = true -> T_sh_enc m = bs.
Proof.
  intros bs m H Hok Hc. pose proof Hc as Hc'. apply canonical_framed in Hc as (Ht & Ho & _).
  apply outer_ok_T_inv in Ho as (x & body & -> & Hl & Hx & Hb); auto.
  apply type_ok_hdr in Ht as ->.
  unfold canonical in Hc'. apply andb_prop in Hc' as [_ Hc']. rewrite body_of_T in Hc'.
  destruct (canon_sh_body body) as [m'|] eqn:Ec; try discriminate.
  apply canon_sh_sound in Ec as (Eenc & Hwf); auto.
  rewrite T_sh_hdr in H. apply of_opt_ok in H. rewrite <- Eenc in H.
  rewrite sh_body_decode_encode in H by auto. inversion H; subst m'.
  unfold T_sh_enc. rewrite Eenc. reflexivity.
Qed.
(* serverHello skips the header (Skip(4)): the header length is right only under framing *)
Lemma T_sh_strict : forall bs m, T_sh_dec bs = Ok m -> bytes_ok bs -> outer_ok ST bs = true ->
  strict ST mSH bs = true.
Proof.
  intros bs m H Hok Ho. unfold strict. rewrite Ho. cbn [andb].
  apply outer_ok_T_inv in Ho as (x & body & -> & Hl & Hx & Hb); auto.
  rewrite T_sh_hdr in H. apply of_opt_ok in H. rewrite body_of_T. cbn [strict_body].
  eapply sh_body_strict; eauto.
Qed.
Lemma T_sh_total : forall bs s, T_sh_dec bs <> Panic s.
Proof. intros; apply of_opt_total. Qed.

(* ---------- DTLCP serverHello ---------- *)
Lemma D_sh_decode_encode : forall h m, wf_dh h -> wf_sh m ->
  D_sh_dec (D_sh_enc (h, m)) = Ok (mkDH (dh_seq h) 0 (len (sh_body_enc m)), m).
Proof.
  intros h m (Hs & Ho & Hf) Hwf. unfold D_sh_dec, D_sh_enc. cbn [fst snd].
  rewrite d_msg_wf, d_unhdr_whole by (auto using len_sh_body). rewrite N.eqb_refl. cbn [negb].
  rewrite sh_body_decode_encode by auto. reflexivity.
Qed.
Lemma D_sh_encode_decode : forall bs h m, D_sh_dec bs = Ok (h, m) -> bytes_ok bs ->
  canonical SD mSH bs = true -> D_sh_enc (h, m) = bs.
Proof.
  unfold D_sh_dec; intros bs h m H Hok Hc. apply of_opt_ok in H. pose proof Hc as Hc'.
  apply canonical_framed in Hc as (_ & Ho & Hf). specialize (Hf eq_refl).
  destruct (d_unhdr bs) as [[[[x n] h'] body]|] eqn:E; try discriminate.
  apply D_hdr_dec_framed in E as (E & -> & Hoff & Hfl & Hl & Hb & Hs); auto.
  destruct (x =? tServerHello) eqn:Ex; try discriminate. apply N.eqb_eq in Ex. subst x. cbn [negb] in H.
  destruct (sh_body_dec body) as [m0|] eqn:Ed; try discriminate. inversion H; subst h' m0.
  unfold canonical in Hc'. apply andb_prop in Hc' as [_ Hc']. rewrite E, body_of_D in Hc'.
  destruct (canon_sh_body body) as [m'|] eqn:Ec; try discriminate.
  apply canon_sh_sound in Ec as (Eenc & Hwf); auto.
  rewrite <- Eenc in Ed. rewrite sh_body_decode_encode in Ed by auto. inversion Ed; subst m'.
  rewrite E. unfold D_sh_enc. cbn [fst snd]. rewrite Eenc. apply d_msg_whole; auto.
Qed.
Lemma D_sh_strict : forall bs m, D_sh_dec bs = Ok m -> bytes_ok bs -> outer_ok SD bs = true ->
  frag_whole bs = true -> strict SD mSH bs = true.
Proof.
  unfold D_sh_dec; intros bs [h m] H Hok Ho Hf. apply of_opt_ok in H. unfold strict. rewrite Ho. cbn [andb].
  destruct (d_unhdr bs) as [[[[x n] h'] body]|] eqn:E; try discriminate.
  apply D_hdr_dec_framed in E as (E & -> & Hoff & Hfl & Hl & Hb & Hs); auto.
  destruct (negb _); try discriminate.
  destruct (sh_body_dec body) as [m0|] eqn:Ed; try discriminate.
  rewrite E, body_of_D. cbn [strict_body]. eapply sh_body_strict; eauto.
Qed.
Lemma D_sh_total : forall bs s, D_sh_dec bs <> Panic s.
Proof. intros; apply of_opt_total. Qed.

(* ================= ClientHello ================= *)
Definition nonnil {A} (l : list A) : bool := match l with [] => false | _ => true end.
Lemma match_nonnil : forall A B (l : list A) (a b : B),
  match l with [] => a | _ :: _ => b end = if nonnil l then b else a.
Proof. intros A B [|x l] a b; reflexivity. Qed.
Lemma nonnil_nonempty : forall l : bytes, negb (empty l) = nonnil l.
Proof. intros [|x l]; reflexivity. Qed.

Lemma fold_opt_if : forall S E (f : S -> E -> option S) st st' (c : bool) e rest,
  (c = true -> f st e = Some st') ->
  fold_opt f st ((if c then [e] else []) ++ rest) = fold_opt f (if c then st' else st) rest.
Proof. intros S E f st st' [] e rest H; cbn [app fold_opt]; [rewrite H by auto|]; reflexivity. Qed.

(* ---------- the loops on what marshal writes ---------- *)
Lemma ta_loop_enc : forall tas fuel, Forall wf_ta tas -> (length (flat_map enc_ta tas) <= fuel)%nat ->
  ta_loop fuel (flat_map enc_ta tas) = Some tas.
Proof.
  induction tas as [|[ty id] tas IH]; intros fuel Hwf Hf.
  - destruct fuel; reflexivity.
  - inversion Hwf as [|? ? [Hid Hty] Hrest]; subst. cbn [ta_type ta_id] in *.
    cbn [flat_map] in *. rewrite app_length in Hf.
    destruct Hty as [[-> ->]|[[[-> | ->] Hl]|[-> Hl]]].
    + change (enc_ta (mkTA 0 [])) with [0] in *.
      cbn [app length] in Hf. destruct fuel as [|k]; [lia|]. cbn [app ta_loop].
      cbn [N.eqb]. rewrite IH by (auto; lia). reflexivity.
    + change (enc_ta (mkTA 4 id)) with (4 :: id) in *.
      cbn [app length] in Hf. destruct fuel as [|k]; [lia|].
      cbn [app ta_loop]. cbn [N.eqb Pos.eqb orb].
      rewrite take_app by auto. rewrite IH by (auto; lia). reflexivity.
    + change (enc_ta (mkTA 5 id)) with (5 :: id) in *.
      cbn [app length] in Hf. destruct fuel as [|k]; [lia|].
      cbn [app ta_loop]. cbn [N.eqb Pos.eqb orb].
      rewrite take_app by auto. rewrite IH by (auto; lia). reflexivity.
    + change (enc_ta (mkTA 2 id)) with (2 :: vec16 id) in *.
      cbn [app length] in Hf. destruct fuel as [|k]; [lia|].
      cbn [app ta_loop]. cbn [N.eqb Pos.eqb orb].
      rewrite rd_vec16_enc by auto. rewrite IH; auto. lia.
Qed.

Lemma length_vec8 : forall p, length (vec8 p) = S (length p).
Proof. reflexivity. Qed.
Lemma alpn_loop_enc : forall ps fuel, Forall (fun p => bytes_ok p /\ 1 <= len p < 256) ps ->
  (length (flat_map vec8 ps) <= fuel)%nat -> alpn_loop fuel (flat_map vec8 ps) = Some ps.
Proof.
  induction ps as [|p ps IH]; intros fuel Hwf Hf.
  - destruct fuel; reflexivity.
  - inversion Hwf as [|? ? [Hp [Hp1 Hp2]] Hrest]; subst. cbn [flat_map] in *. rewrite app_length in Hf.
    rewrite length_vec8 in Hf. destruct fuel as [|k]; [lia|].
    destruct (vec8 p ++ flat_map vec8 ps) as [|z zs] eqn:Ez. { unfold vec8, u8 in Ez; cbn in Ez; discriminate. }
    rewrite <- Ez. cbn [alpn_loop]. rewrite Ez at 1. rewrite rd_vec8_enc by auto.
    replace (empty p) with false by (destruct p; [rewrite len_nil in Hp1; lia | reflexivity]).
    rewrite IH; auto. lia.
Qed.

(* ---------- the handlers on what marshal writes ---------- *)
Lemma ch_ext_sni : forall merge m name, ch_sni m = [] -> 1 <= len name -> len name < 65531 ->
  ends_with_dot name = false ->
  ch_ext merge m (extServerName, vec16 (u8 0 ++ vec16 name)) = Some (ch_set_sni m name).
Proof.
  intros merge m name Hcur H1 H2 Hdot. unfold ch_ext. cbn [N.eqb extServerName].
  rewrite <- (app_nil_r (vec16 _)), rd_vec16_enc by lens.
  change (u8 0) with [0]. cbn [app empty length sni_loop rd_u8].
  rewrite <- (app_nil_r (vec16 name)), rd_vec16_enc by lia.
  replace (empty name) with false by (destruct name; [rewrite len_nil in H1; lia | reflexivity]).
  cbn [N.eqb negb]. rewrite Hcur. cbn [empty negb]. rewrite Hdot.
  destruct (length (vec16 name ++ [])); reflexivity.
Qed.
Lemma ch_ext_tca : forall merge m tas, tas <> [] -> Forall wf_ta tas -> len (flat_map enc_ta tas) < 65534 ->
  ch_ext merge m (extTrustedCAKeys, vec16 (flat_map enc_ta tas)) = Some (ch_set_tas m (ch_tas m ++ tas)).
Proof.
  intros merge m tas Hne Hwf Hl. unfold ch_ext.
  change (extTrustedCAKeys =? extServerName) with false. change (extTrustedCAKeys =? extTrustedCAKeys) with true. cbn iota.
  rewrite <- (app_nil_r (vec16 _)), rd_vec16_enc by lia.
  replace (empty (flat_map enc_ta tas)) with false.
  2:{ destruct tas as [|t tas]; [congruence|]. cbn [flat_map]. unfold enc_ta, u8. reflexivity. }
  rewrite ta_loop_enc by auto. reflexivity.
Qed.
Lemma ch_ext_status : forall merge m,
  ch_ext merge m (extStatusRequest, u8 1 ++ u16 0 ++ u16 0) = Some (ch_set_ocsp m true).
Proof. reflexivity. Qed.
Lemma ch_ext_curves : forall merge m l, l <> [] -> Forall (fun x => x < 65536) l -> 2 * len l < 65534 ->
  ch_ext merge m (extSupportedGroups, vec16 (u16s l)) =
  Some (ch_set_curves m (if merge then ch_curves m ++ l else l)).
Proof.
  intros merge m l Hne Hwf Hl. unfold ch_ext.
  change (extSupportedGroups =? extServerName) with false. change (extSupportedGroups =? extTrustedCAKeys) with false.
  change (extSupportedGroups =? extStatusRequest) with false. change (extSupportedGroups =? extSupportedGroups) with true.
  cbn iota. rewrite <- (app_nil_r (vec16 _)), rd_vec16_enc by (rewrite len_u16s; lia).
  replace (empty (u16s l)) with false.
  2:{ destruct l as [|x l]; [congruence|]. unfold u16s, u16. reflexivity. }
  rewrite rd_u16s_enc by auto. reflexivity.
Qed.
Lemma ch_ext_sigalgs : forall merge m l, l <> [] -> Forall (fun x => x < 65536) l -> 2 * len l < 65534 ->
  ch_ext merge m (extSignatureAlgorithms, vec16 (u16s l)) =
  Some (ch_set_sigalgs m (if merge then ch_sigalgs m ++ l else l)).
Proof.
  intros merge m l Hne Hwf Hl. unfold ch_ext.
  change (extSignatureAlgorithms =? extServerName) with false. change (extSignatureAlgorithms =? extTrustedCAKeys) with false.
  change (extSignatureAlgorithms =? extStatusRequest) with false. change (extSignatureAlgorithms =? extSupportedGroups) with false.
  change (extSignatureAlgorithms =? extSignatureAlgorithms) with true.
  cbn iota. rewrite <- (app_nil_r (vec16 _)), rd_vec16_enc by (rewrite len_u16s; lia).
  replace (empty (u16s l)) with false.
  2:{ destruct l as [|x l]; [congruence|]. unfold u16s, u16. reflexivity. }
  rewrite rd_u16s_enc by auto. reflexivity.
Qed.
Lemma ch_ext_alpn : forall merge m ps, ps <> [] -> Forall (fun p => bytes_ok p /\ 1 <= len p < 256) ps ->
  len (flat_map vec8 ps) < 65534 ->
  ch_ext merge m (extALPN, vec16 (flat_map vec8 ps)) = Some (ch_set_alpn m (ch_alpn m ++ ps)).
Proof.
  intros merge m ps Hne Hwf Hl. unfold ch_ext.
  change (extALPN =? extServerName) with false. change (extALPN =? extTrustedCAKeys) with false.
  change (extALPN =? extStatusRequest) with false. change (extALPN =? extSupportedGroups) with false.
  change (extALPN =? extSignatureAlgorithms) with false. change (extALPN =? extALPN) with true.
  cbn iota. rewrite <- (app_nil_r (vec16 _)), rd_vec16_enc by lia.
  replace (empty (flat_map vec8 ps)) with false.
  2:{ destruct ps as [|p ps]; [congruence|]. cbn [flat_map]. unfold vec8, u8. reflexivity. }
  rewrite alpn_loop_enc by auto. reflexivity.
Qed.
Lemma ch_ext_cid : forall merge m id, len id < 65534 ->
  ch_ext merge m (extClientID, vec16 id) = Some (ch_set_cid m id).
Proof.
  intros merge m id Hl. unfold ch_ext.
  change (extClientID =? extServerName) with false. change (extClientID =? extTrustedCAKeys) with false.
  change (extClientID =? extStatusRequest) with false. change (extClientID =? extSupportedGroups) with false.
  change (extClientID =? extSignatureAlgorithms) with false. change (extClientID =? extALPN) with false.
  change (extClientID =? extClientID) with true.
  cbn iota. rewrite <- (app_nil_r (vec16 _)), rd_vec16_enc by lia. reflexivity.
Qed.

Definition ch_ext_list (m : chello) : list (N * bytes) :=
  (if nonnil (ch_sni m) then [(extServerName, vec16 (u8 0 ++ vec16 (ch_sni m)))] else []) ++
  (if nonnil (ch_tas m) then [(extTrustedCAKeys, vec16 (flat_map enc_ta (ch_tas m)))] else []) ++
  (if ch_ocsp m then [(extStatusRequest, u8 1 ++ u16 0 ++ u16 0)] else []) ++
  (if nonnil (ch_curves m) then [(extSupportedGroups, vec16 (u16s (ch_curves m)))] else []) ++
  (if nonnil (ch_sigalgs m) then [(extSignatureAlgorithms, vec16 (u16s (ch_sigalgs m)))] else []) ++
  (if nonnil (ch_alpn m) then [(extALPN, vec16 (flat_map vec8 (ch_alpn m)))] else []) ++
  (if nonnil (ch_cid m) then [(extClientID, vec16 (ch_cid m))] else []).

Lemma enc_exts_app : forall a b, enc_exts (a ++ b) = enc_exts a ++ enc_exts b.
Proof. intros; unfold enc_exts; apply flat_map_app. Qed.
Lemma enc_exts_if : forall (c : bool) t d,
  enc_exts (if c then [(t, d)] else []) = if c then u16 t ++ vec16 d else [].
Proof. intros [] t d; cbn [enc_exts flat_map enc_ext fst snd]; rewrite ?app_nil_r; reflexivity. Qed.

Lemma ch_exts_enc_list : forall m, ch_exts_enc m = enc_exts (ch_ext_list m).
Proof.
  intros. unfold ch_exts_enc, ch_ext_list. rewrite !enc_exts_app, !enc_exts_if.
  rewrite !match_nonnil, !nonnil_nonempty. reflexivity.
Qed.

Lemma fold_opt_if0 : forall S E (f : S -> E -> option S) st st' (c : bool) e,
  (c = true -> f st e = Some st') ->
  fold_opt f st (if c then [e] else []) = Some (if c then st' else st).
Proof. intros S E f st st' [] e H; cbn [fold_opt]; [rewrite H by auto|]; reflexivity. Qed.

Lemma nonnil_len : forall A (l : list A), nonnil l = true -> l <> [].
Proof. intros A [|x l] H; [discriminate | congruence]. Qed.
Lemma nonnil_len1 : forall l : bytes, nonnil l = true -> 1 <= len l.
Proof. intros [|x l] H; [discriminate | rewrite len_cons; lia]. Qed.

Lemma ch_ext_list_bounds : forall cookie m, wf_ch cookie m ->
  Forall (fun e => fst e < 65536 /\ len (snd e) < 65536) (ch_ext_list m).
Proof.
  intros cookie m (Hv & Hro & Hrl & [Hso Hsl] & [Hcko Hckl] & Hck & Hsu & Hsul & [Hcoo Hcol] & [Hsno Hsnl] & Hdot &
    Htas & Hcu & Hsa & Hal & [Hcio Hcil] & Ltas & Lcu & Lsa & Lal & Lex).
  assert (H1 : forall (b : bool) (e : N * bytes), fst e < 65536 -> len (snd e) < 65536 ->
            Forall (fun e => fst e < 65536 /\ len (snd e) < 65536) (if b then [e] else [])).
  { intros [] e ? ?; repeat constructor; auto. }
  unfold ch_ext_list. repeat (apply Forall_app; split); apply H1; cbn [fst snd];
    unfold extServerName, extTrustedCAKeys, extStatusRequest, extSupportedGroups, extSignatureAlgorithms, extALPN, extClientID;
    rewrite ?len_u16s; lens.
Qed.

Lemma ch_rest_decode_encode : forall cookie merge m, wf_ch cookie m ->
  ch_rest_dec merge (ch_vers m) (ch_random m) (ch_sid m) (ch_cookie m)
    (vec16 (u16s (ch_suites m)) ++ vec8 (ch_comp m) ++
     (if empty (ch_exts_enc m) then [] else vec16 (ch_exts_enc m))) = Some m.
Proof.
  intros cookie merge m Hwf. pose proof (ch_ext_list_bounds _ _ Hwf) as Hbounds.
  destruct Hwf as (Hv & Hro & Hrl & [Hso Hsl] & [Hcko Hckl] & Hck & Hsu & Hsul & [Hcoo Hcol] & [Hsno Hsnl] & Hdot &
    Htas & Hcu & Hsa & Hal & [Hcio Hcil] & Ltas & Lcu & Lsa & Lal & Lex).
  unfold ch_rest_dec.
  rewrite rd_vec16_enc by (rewrite len_u16s; lia). rewrite rd_u16s_enc by auto. rewrite rd_vec8_enc by auto.
  set (m0 := mkCH (ch_vers m) (ch_random m) (ch_sid m) (ch_cookie m) (ch_suites m) (ch_comp m) [] [] false [] [] [] []).
  destruct (empty (ch_exts_enc m)) eqn:Ee.
  - cbn [empty]. apply empty_true in Ee. rewrite ch_exts_enc_list in Ee. unfold ch_ext_list in Ee.
    rewrite !enc_exts_app, !enc_exts_if in Ee.
    repeat (apply app_eq_nil in Ee as [?E Ee]).
    destruct m as [v r s ck su c sn tas oc cu sa al ci]; cbn [ch_sni ch_tas ch_ocsp ch_curves ch_sigalgs ch_alpn ch_cid nonnil] in *.
    destruct sn; [|discriminate]. destruct tas; [|discriminate]. destruct oc; [discriminate|].
    destruct cu; [|discriminate]. destruct sa; [|discriminate]. destruct al; [|discriminate]. destruct ci; [|discriminate].
    reflexivity.
  - replace (empty (vec16 (ch_exts_enc m))) with false by (unfold vec16, u16; reflexivity).
    rewrite <- (app_nil_r (vec16 _)), rd_vec16_enc by auto. cbn [empty negb].
    rewrite ch_exts_enc_list. rewrite exts_split_enc by auto.
    unfold ch_ext_list.
    erewrite fold_opt_if.
    2:{ intros Hc. apply ch_ext_sni; auto; try reflexivity; try (apply nonnil_len1; auto); try lia. }
    erewrite fold_opt_if.
    2:{ intros Hc. apply ch_ext_tca; auto. apply nonnil_len; auto. }
    erewrite fold_opt_if.
    2:{ intros Hc. apply ch_ext_status. }
    erewrite fold_opt_if.
    2:{ intros Hc. apply ch_ext_curves; auto. apply nonnil_len; auto. }
    erewrite fold_opt_if.
    2:{ intros Hc. apply ch_ext_sigalgs; auto. apply nonnil_len; auto. }
    erewrite fold_opt_if.
    2:{ intros Hc. apply ch_ext_alpn; auto. apply nonnil_len; auto. }
    erewrite fold_opt_if0.
    2:{ intros Hc. apply ch_ext_cid; auto. }
    f_equal. unfold m0.
    destruct m as [v r s ck su c sn tas oc cu sa al ci]; cbn [ch_vers ch_random ch_sid ch_cookie ch_suites ch_comp ch_sni ch_tas ch_ocsp ch_curves ch_sigalgs ch_alpn ch_cid].
    destruct merge, sn, tas, oc, cu, sa, al, ci; reflexivity.
Qed.

Lemma ch_body_decode_encode : forall cookie merge m, wf_ch cookie m ->
  ch_body_dec cookie merge (ch_body_enc cookie m) = Some m.
Proof.
  intros cookie merge m Hwf. pose proof (ch_rest_decode_encode cookie merge m Hwf) as Hrest.
  destruct Hwf as (Hv & Hro & Hrl & [Hso Hsl] & [Hcko Hckl] & Hck & _).
  unfold ch_body_dec, ch_body_enc.
  rewrite rd_u16_enc by auto. rewrite take_app by auto. rewrite rd_vec8_enc by auto.
  destruct cookie.
  - rewrite rd_vec8_enc by auto. exact Hrest.
  - cbn [app]. rewrite Hck in Hrest by reflexivity. exact Hrest.
Qed.
