(* C06: the numbers of Model/RecordT are the ones the sources declare *)
From Coq Require Import ZArith List.
From V Require Import Model.GenConsts Model.RecordT.
Open Scope Z_scope.
Definition tie : Prop :=
  RecordT.max_plaintext = GenConsts.T.maxPlaintext /\
  RecordT.mss = GenConsts.T.tcpMSSEstimate /\
  RecordT.boost = GenConsts.T.recordSizeBoostThreshold /\
  GenConsts.T.maxCiphertext = RecordT.max_plaintext + 2048 /\
  GenConsts.T.recordHeaderLen = 5 /\
  (* explicit nonce 8 = AEAD nonce less its implicit prefix *)
  GenConsts.T.aeadNonceLength - GenConsts.T.noncePrefixLength = 8.
Lemma tie_holds : tie.
Proof. unfold tie. vm_compute. repeat split. Qed.
