(* C18: the header lengths behind the datagram sizes of Model/Cookie *)
From Coq Require Import ZArith List.
From V Require Import Model.GenConsts.
Open Scope Z_scope.
Definition tie : Prop :=
  GenConsts.D.recordHeaderLen = 13 /\ GenConsts.D.dtlcpHeaderLen = 12 /\
  GenConsts.D.typeHelloVerifyRequest = 3 /\ GenConsts.D.typeClientHello = 1.
Lemma tie_holds : tie.
Proof. unfold tie. vm_compute. repeat split. Qed.
