(* Proofs about Model/DHandshake.v (datagram handshake automata): language, dropped records, relation to the stream automata. *)
From V Require Import Model.DHandshake Proofs.HandshakeProofs.

(* ------------------------------------------------------------------ client helpers *)
Definition dcacc (c : dcconf) : bool :=
  match dc_st c with DC_Main C_Done => true | _ => false end.

Lemma dc_absorb_done : forall p es c, dc_st c = DC_Main C_Done -> fold_left (dcstep p) es c = c.
Proof.
  intros p es; induction es as [|e es IH]; intros c Hc; [reflexivity|].
  cbn [fold_left]. assert (Hs : dcstep p c e = c) by (unfold dcstep; rewrite Hc; reflexivity).
  rewrite Hs. apply IH; exact Hc.
Qed.

Lemma dc_absorb_err : forall p es c, dc_st c = DC_Main C_Err -> fold_left (dcstep p) es c = c.
Proof.
  intros p es; induction es as [|e es IH]; intros c Hc; [reflexivity|].
  cbn [fold_left]. assert (Hs : dcstep p c e = c) by (unfold dcstep; rewrite Hc; reflexivity).
  rewrite Hs. apply IH; exact Hc.
Qed.

(* dead configurations: error, or handshake bytes pending *)
Definition dcdead (c : dcconf) : bool :=
  match dc_st c with DC_Main C_Done => false | DC_Main C_Err => true | _ => dc_pend c end.

Lemma dcdead_step : forall p c e, dcdead c = true -> dcdead (dcstep p c e) = true.
Proof.
  intros p [st r pend] e Hd. unfold dcdead in Hd; cbn [dc_st dc_pend] in Hd.
  destruct st as [hc|s]; [|destruct s]; try discriminate Hd; try reflexivity; subst pend;
    (destruct e as [k ok aux|ok aux ck| | | | | | |]; try reflexivity;
     cbv [dcdead dcstep cstep dc_st dc_retry dc_pend c_st c_retry c_pend expects_ccs];
     destruct (Nat.ltb max_useless (S r)); reflexivity).
Qed.

Lemma dcdead_never_done : forall p es c, dcdead c = true -> dcacc (fold_left (dcstep p) es c) = false.
Proof.
  intros p es; induction es as [|e es IH]; intros c Hd.
  - cbn [fold_left]. unfold dcdead in Hd. unfold dcacc.
    destruct (dc_st c) as [hc|s]; [reflexivity|]. destruct s; try reflexivity; discriminate Hd.
  - cbn [fold_left]. apply IH. apply dcdead_step; exact Hd.
Qed.

Definition dcrest (p : cparams) (st : dcstate) : list (list item) :=
  match st with DC_Hello _ => client_flows p | DC_Main s => crest p s end.
Definition dcstarted (st : dcstate) : bool :=
  match st with DC_Hello _ => false | DC_Main _ => true end.

Definition dcspec (p : cparams) (b : nat) (st : dcstate) (es : list dev) : bool :=
  existsb (fun f => drealises_c b (dcstarted st) f es) (dcrest p st).

Ltac dc_red :=
  match goal with |- context [fold_left (dcstep _) _ ?c] =>
    let c' := eval cbv [dcstep cstep dc_st dc_retry dc_pend c_st c_retry c_pend expects_ccs
                        negb andb cp_ecdhe cp_offered cerr dcerr] in c in
    change c with c' end.

Ltac dc_close IH Hbud b :=
  first [ rewrite dc_absorb_done by reflexivity; reflexivity
        | rewrite dc_absorb_err by reflexivity; reflexivity
        | rewrite dcdead_never_done by reflexivity; reflexivity
        | rewrite (IH _ 16) by reflexivity; reflexivity
        | rewrite (IH _ b) by first [exact Hbud | reflexivity]; reflexivity ].

Lemma dc_inv : forall p es c b,
  dc_pend c = false -> dc_retry c + b = 16 ->
  dcacc (fold_left (dcstep p) es c) = dcspec p b (dc_st c) es.
Proof.
  intros p es; induction es as [|e es IH]; intros c b Hpend Hbud.
  - destruct c as [st r pend]; destruct p as [ecdhe offered].
    destruct st as [hc|s]; [|destruct s]; destruct ecdhe, offered; reflexivity.
  - destruct c as [st r pend]. cbn [dc_pend dc_retry dc_st] in *. subst pend.
    cbn [fold_left]. destruct p as [ecdhe offered].
    destruct e as [k ok aux|ok aux ck| | | | | | |].
    + (* DHs *)
      destruct st as [hc|[| | | | |res|res| |]], k, ok, aux, ecdhe, offered;
        dc_red; dc_close IH Hbud b.
    + (* DHello *)
      destruct st as [hc|[| | | | |res|res| |]], ecdhe, offered;
        dc_red; dc_close IH Hbud b.
    + (* DVerify *)
      destruct st as [hc|[| | | | |res|res| |]], ecdhe, offered;
        dc_red; dc_close IH Hbud b.
    + (* DFrag *)
      destruct st as [hc|[| | | | |res|res| |]], ecdhe, offered;
        dc_red; dc_close IH Hbud b.
    + (* DCcs *)
      destruct st as [hc|[| | | | |res|res| |]], ecdhe, offered;
        dc_red; dc_close IH Hbud b.
    + (* DWarn *)
      destruct b as [|b'].
      * assert (Hr : r = 16) by lia. subst r.
        destruct st as [hc|[| | | | |res|res| |]], ecdhe, offered;
          dc_red; try (change (Nat.ltb max_useless 17) with true; dc_red);
          dc_close IH Hbud 0.
      * assert (Hlt : Nat.ltb max_useless (S r) = false)
          by (apply Nat.ltb_ge; unfold max_useless; lia).
        assert (Hb' : S r + b' = 16) by lia.
        destruct st as [hc|[| | | | |res|res| |]], ecdhe, offered;
          dc_red; try (rewrite Hlt; dc_red);
          dc_close IH Hb' b'.
    + (* DApp *)
      destruct st as [hc|[| | | | |res|res| |]], ecdhe, offered;
        dc_red; dc_close IH Hbud b.
    + (* DEnd *)
      destruct st as [hc|[| | | | |res|res| |]], ecdhe, offered;
        dc_red; dc_close IH Hbud b.
    + (* DOld *)
      destruct st as [hc|[| | | | |res|res| |]], ecdhe, offered;
        dc_red; dc_close IH Hbud b.
Qed.

(* T1/T2: for every sequence of datagrams of any length, a DTLCP endpoint completes exactly on the
   datagram language *)
Theorem dclient_language : forall p es, dcaccepts p es = dclegal p es.
Proof.
  intros p es. exact (dc_inv p es (mkDC (DC_Hello false) 0 false) 16 eq_refl eq_refl).
Qed.

(* ------------------------------------------------------------------ server helpers *)
Definition dsacc (c : dsconf) : bool :=
  match ds_st c with DS_Main S_Done => true | _ => false end.

Lemma ds_absorb_done : forall p es c, ds_st c = DS_Main S_Done -> fold_left (dsstep p) es c = c.
Proof.
  intros p es; induction es as [|e es IH]; intros c Hc; [reflexivity|].
  cbn [fold_left]. assert (Hs : dsstep p c e = c) by (unfold dsstep; rewrite Hc; reflexivity).
  rewrite Hs. apply IH; exact Hc.
Qed.

Lemma ds_absorb_err : forall p es c, ds_st c = DS_Main S_Err -> fold_left (dsstep p) es c = c.
Proof.
  intros p es; induction es as [|e es IH]; intros c Hc; [reflexivity|].
  cbn [fold_left]. assert (Hs : dsstep p c e = c) by (unfold dsstep; rewrite Hc; reflexivity).
  rewrite Hs. apply IH; exact Hc.
Qed.

Definition dsdead (c : dsconf) : bool :=
  match ds_st c with DS_Main S_Done => false | DS_Main S_Err => true | _ => ds_pend c end.

Lemma dsdead_step : forall p c e, dsdead c = true -> dsdead (dsstep p c e) = true.
Proof.
  intros p [st r pend] e Hd. unfold dsdead in Hd; cbn [ds_st ds_pend] in Hd.
  destruct st as [[|]|s]; [| |destruct s as [| |hc| |res|res| |]];
    try discriminate Hd; try reflexivity; subst pend;
    (destruct e as [k ok aux|ok aux ck| | | | | | |]; try reflexivity;
     cbv [dsdead dsstep sstep ds_st ds_retry ds_pend s_st s_retry s_pend s_expects_ccs];
     destruct (Nat.ltb max_useless (S r)); reflexivity).
Qed.

Lemma dsdead_never_done : forall p es c, dsdead c = true -> dsacc (fold_left (dsstep p) es c) = false.
Proof.
  intros p es; induction es as [|e es IH]; intros c Hd.
  - cbn [fold_left]. unfold dsdead in Hd. unfold dsacc.
    destruct (ds_st c) as [fs|s]; [reflexivity|]. destruct s; try reflexivity; discriminate Hd.
  - cbn [fold_left]. apply IH. apply dsdead_step; exact Hd.
Qed.

Definition dsrest (p : sparams) (st : dsstate) : list (list item) :=
  match st with DS_Hello _ => server_flows p | DS_Main s => srest p s end.
Definition dsstarted (st : dsstate) : bool :=
  match st with DS_Hello _ => false | DS_Main _ => true end.
(* DS_Main is only ever entered past the ClientHello *)
Definition dswf (st : dsstate) : bool :=
  match st with DS_Main S_CH => false | _ => true end.

(* some ClientHello has been read *)
Definition dsseen (st : dsstate) : bool :=
  match st with DS_Hello first => negb first | DS_Main _ => true end.

Definition dsspec (p : sparams) (b : nat) (st : dsstate) (es : list dev) : bool :=
  existsb (fun f => drealises_s b (dsseen st) (dsstarted st) f es) (dsrest p st).

Ltac ds_red :=
  match goal with |- context [fold_left (dsstep _) _ ?c] =>
    let c' := eval cbv [dsstep sstep ds_st ds_retry ds_pend s_st s_retry s_pend s_expects_ccs
                        in_flight5 negb andb sp_certreq serr dserr] in c in
    change c with c' end.

Ltac ds_close IH Hbud b :=
  first [ rewrite ds_absorb_done by reflexivity; reflexivity
        | rewrite ds_absorb_err by reflexivity; reflexivity
        | rewrite dsdead_never_done by reflexivity; reflexivity
        | rewrite (IH _ 16) by reflexivity; reflexivity
        | rewrite (IH _ b) by first [exact Hbud | reflexivity]; reflexivity ].

Ltac ds_states st Hwf :=
  destruct st as [[|]|[| |[|]| |res|res| |]]; [| |discriminate Hwf| | | | | | | |].

Lemma ds_inv : forall p es c b,
  dswf (ds_st c) = true -> ds_pend c = false -> ds_retry c + b = 16 ->
  dsacc (fold_left (dsstep p) es c) = dsspec p b (ds_st c) es.
Proof.
  intros p es; induction es as [|e es IH]; intros c b Hwf Hpend Hbud.
  - destruct c as [st r pend]; destruct p as [certreq]. cbn [ds_st] in Hwf.
    ds_states st Hwf; destruct certreq; reflexivity.
  - destruct c as [st r pend]. cbn [ds_pend ds_retry ds_st] in *. subst pend.
    cbn [fold_left]. destruct p as [certreq].
    destruct e as [k ok aux|ok aux ck| | | | | | |].
    + (* DHs *)
      ds_states st Hwf; destruct k, ok, aux, certreq; ds_red; ds_close IH Hbud b.
    + (* DHello *)
      ds_states st Hwf; destruct ok, aux, ck, certreq; ds_red; ds_close IH Hbud b.
    + (* DVerify *)
      ds_states st Hwf; destruct certreq; ds_red; ds_close IH Hbud b.
    + (* DFrag *)
      ds_states st Hwf; destruct certreq; ds_red; ds_close IH Hbud b.
    + (* DCcs *)
      ds_states st Hwf; destruct certreq; ds_red; ds_close IH Hbud b.
    + (* DWarn *)
      destruct b as [|b'].
      * assert (Hr : r = 16) by lia. subst r.
        ds_states st Hwf; destruct certreq;
          ds_red; try (change (Nat.ltb max_useless 17) with true; ds_red);
          ds_close IH Hbud 0.
      * assert (Hlt : Nat.ltb max_useless (S r) = false)
          by (apply Nat.ltb_ge; unfold max_useless; lia).
        assert (Hb' : S r + b' = 16) by lia.
        ds_states st Hwf; destruct certreq;
          ds_red; try (rewrite Hlt; ds_red);
          ds_close IH Hb' b'.
    + (* DApp *)
      ds_states st Hwf; destruct certreq; ds_red; ds_close IH Hbud b.
    + (* DEnd *)
      ds_states st Hwf; destruct certreq; ds_red; ds_close IH Hbud b.
    + (* DOld *)
      ds_states st Hwf; destruct certreq; ds_red; ds_close IH Hbud b.
Qed.

Theorem dserver_language : forall p es, dsaccepts p es = dslegal p es.
Proof.
  intros p es. exact (ds_inv p es (mkDS (DS_Hello true) 0 false) 16 eq_refl eq_refl eq_refl).
Qed.

(* T3: dropping the records that the record layer discards (old epoch / replayed) never changes
   the verdict *)
Definition not_old (e : dev) : bool := match e with DOld => false | _ => true end.

Lemma dcstep_old : forall p c, dcstep p c DOld = c.
Proof. intros p [[hc|s] r pend]; [|destruct s]; reflexivity. Qed.

Lemma dsstep_old : forall p c, dsstep p c DOld = c.
Proof. intros p [[fs|s] r pend]; [|destruct s]; reflexivity. Qed.

Lemma dc_fold_filter : forall p es c,
  fold_left (dcstep p) (filter not_old es) c = fold_left (dcstep p) es c.
Proof.
  intros p es; induction es as [|e es IH]; intros c; [reflexivity|].
  destruct e; cbn [filter not_old fold_left]; try apply IH.
  rewrite dcstep_old. apply IH.
Qed.

Lemma ds_fold_filter : forall p es c,
  fold_left (dsstep p) (filter not_old es) c = fold_left (dsstep p) es c.
Proof.
  intros p es; induction es as [|e es IH]; intros c; [reflexivity|].
  destruct e; cbn [filter not_old fold_left]; try apply IH.
  rewrite dsstep_old. apply IH.
Qed.

Theorem dclient_ignores_dropped : forall p es,
  dcaccepts p es = dcaccepts p (filter not_old es).
Proof.
  intros p es. unfold dcaccepts, dcrun. rewrite dc_fold_filter. reflexivity.
Qed.

Theorem dserver_ignores_dropped : forall p es,
  dsaccepts p es = dsaccepts p (filter not_old es).
Proof.
  intros p es. unfold dsaccepts, dsrun. rewrite ds_fold_filter. reflexivity.
Qed.

(* T4: the datagram client completes on every sequence the stream client completes on *)
Definition embed_c (e : ev) : dev :=
  match e with
  | EHs k ok aux => DHs k ok aux | EFrag => DFrag | ECcs => DCcs | EWarn => DWarn | EApp => DApp | EEnd => DEnd
  end.

(* the datagram configuration that corresponds to a stream configuration *)
Definition emb_conf (c : cconf) : dcconf :=
  match c_st c with
  | C_SH => mkDC (DC_Hello false) (c_retry c) (c_pend c)
  | s => mkDC (DC_Main s) (c_retry c) (c_pend c)
  end.

(* the datagram client follows the stream client, except where the stream client fails (there the
   datagram client may drop the record instead) *)
Lemma emb_step : forall p c e,
  dcstep p (emb_conf c) (embed_c e) = emb_conf (cstep p c e) \/ c_st (cstep p c e) = C_Err.
Proof.
  intros [ecdhe offered] [st r pend] e.
  destruct e as [k ok aux| | | | |]; cbn [embed_c].
  - destruct st as [| | | | |res|res| |], pend, k, ok, aux, ecdhe, offered;
      first [left; reflexivity | right; reflexivity].
  - destruct st as [| | | | |res|res| |], pend; first [left; reflexivity | right; reflexivity].
  - destruct st as [| | | | |res|res| |], pend; first [left; reflexivity | right; reflexivity].
  - left. destruct st as [| | | | |res|res| |];
      cbv [emb_conf dcstep cstep dc_st dc_retry dc_pend c_st c_retry c_pend expects_ccs];
      try reflexivity; destruct (Nat.ltb max_useless (S r)); reflexivity.
  - left. destruct st as [| | | | |res|res| |]; reflexivity.
  - left. destruct st as [| | | | |res|res| |]; reflexivity.
Qed.

Lemma emb_acc : forall c, dcacc (emb_conf c) = cacc c.
Proof. intros [st r pend]. destruct st; reflexivity. Qed.

Lemma emb_run : forall p es c,
  cacc (fold_left (cstep p) es c) = true ->
  dcacc (fold_left (dcstep p) (map embed_c es) (emb_conf c)) = true.
Proof.
  intros p es; induction es as [|e es IH]; intros c Hacc.
  - cbn [map fold_left] in *. rewrite emb_acc. exact Hacc.
  - cbn [map fold_left] in *. destruct (emb_step p c e) as [Hstep|Herr].
    + rewrite Hstep. apply IH. exact Hacc.
    + rewrite c_absorb_err in Hacc by exact Herr. unfold cacc in Hacc. rewrite Herr in Hacc.
      discriminate Hacc.
Qed.

Theorem dclient_extends_stream : forall p es,
  caccepts p es = true -> dcaccepts p (map embed_c es) = true.
Proof.
  intros p es Hacc. unfold dcaccepts, dcrun. unfold caccepts, crun in Hacc.
  change (mkDC (DC_Hello false) 0 false) with (emb_conf (mkCC C_SH 0 false)).
  exact (emb_run p es _ Hacc).
Qed.

(* T4': the datagram endpoints complete only if an ordered selection of the records they received
   is a sequence the stream endpoint completes on *)
Lemma sublist_nil : forall (A : Type) (l : list A), sublist [] l.
Proof. intros A l; induction l as [|x l IH]; [apply sub_nil | apply sub_skip; exact IH]. Qed.

(* the consumed handshake messages and ChangeCipherSpec of a legal datagram flow (warning alerts
   left out) realise the same flow of the standard, whatever the warning budget *)
Lemma drealises_c_core : forall es b st f,
  drealises_c b st f es = true ->
  exists core, sublist core es /\
    forall b', realises aux_matters_c b' f (map to_ev core) = true.
Proof.
  intros es; induction es as [|e es IH]; intros b st f Hr.
  - destruct f as [|it f]; [|discriminate Hr].
    exists []. split; [apply sub_nil | intros b'; reflexivity].
  - destruct f as [|it f].
    + exists []. split; [apply sublist_nil | intros b'; reflexivity].
    + cbn [drealises_c] in Hr.
      assert (Hskip : forall b0 st0, drealises_c b0 st0 (it :: f) es = true ->
                exists core, sublist core (e :: es) /\
                  forall b', realises aux_matters_c b' (it :: f) (map to_ev core) = true).
      { intros b0 st0 Hr0. destruct (IH _ _ _ Hr0) as [core [Hsub Hreal]].
        exists core. split; [apply sub_skip; exact Hsub | exact Hreal]. }
      destruct e as [k ok aux|ok aux ck| | | | | | |].
      * (* DHs *)
        destruct it as [k' aux'|]; [|exact (Hskip _ _ Hr)].
        apply andb_true_iff in Hr. destruct Hr as [Hhead Hrest].
        destruct (IH _ _ _ Hrest) as [core [Hsub Hreal]].
        exists (DHs k ok aux :: core). split; [apply sub_take; exact Hsub|].
        intros b'. cbn [map to_ev realises]. rewrite Hhead. rewrite Hreal. reflexivity.
      * (* DHello *)
        destruct it as [k' aux'|]; [discriminate Hr | exact (Hskip _ _ Hr)].
      * (* DVerify *)
        destruct it as [k' aux'|]; [|exact (Hskip _ _ Hr)].
        destruct st; [discriminate Hr | exact (Hskip _ _ Hr)].
      * (* DFrag *)
        destruct it as [k' aux'|]; [discriminate Hr | exact (Hskip _ _ Hr)].
      * (* DCcs *)
        destruct it as [k' aux'|].
        -- apply andb_true_iff in Hr. destruct Hr as [_ Hr]. exact (Hskip _ _ Hr).
        -- destruct (IH _ _ _ Hr) as [core [Hsub Hreal]].
           exists (DCcs :: core). split; [apply sub_take; exact Hsub|].
           intros b'. cbn [map to_ev realises]. apply Hreal.
      * (* DWarn *)
        destruct b as [|b0]; [discriminate Hr | exact (Hskip _ _ Hr)].
      * discriminate Hr.
      * discriminate Hr.
      * (* DOld *) exact (Hskip _ _ Hr).
Qed.

Theorem dclient_refines_stream : forall p es,
  dcaccepts p es = true -> exists core, sublist core es /\ caccepts p (map to_ev core) = true.
Proof.
  intros p es Hacc. rewrite dclient_language in Hacc. unfold dclegal in Hacc.
  apply existsb_exists in Hacc. destruct Hacc as [f [Hin Hr]].
  destruct (drealises_c_core _ _ _ _ Hr) as [core [Hsub Hreal]].
  exists core. split; [exact Hsub|].
  rewrite client_language. unfold clegal. apply existsb_exists.
  exists f. split; [exact Hin | apply Hreal].
Qed.

Lemma drealises_s_core : forall es b sn st f,
  drealises_s b sn st f es = true ->
  exists core, sublist core es /\
    forall b', realises aux_matters_s b' f (map to_ev core) = true.
Proof.
  intros es; induction es as [|e es IH]; intros b sn st f Hr.
  - destruct f as [|it f]; [|discriminate Hr].
    exists []. split; [apply sub_nil | intros b'; reflexivity].
  - destruct f as [|it f].
    + exists []. split; [apply sublist_nil | intros b'; reflexivity].
    + cbn [drealises_s] in Hr.
      assert (Hskip : forall b0 sn0 st0, drealises_s b0 sn0 st0 (it :: f) es = true ->
                exists core, sublist core (e :: es) /\
                  forall b', realises aux_matters_s b' (it :: f) (map to_ev core) = true).
      { intros b0 sn0 st0 Hr0. destruct (IH _ _ _ _ Hr0) as [core [Hsub Hreal]].
        exists core. split; [apply sub_skip; exact Hsub | exact Hreal]. }
      destruct e as [k ok aux|ok aux ck| | | | | | |].
      * (* DHs *)
        destruct it as [k' aux'|]; [|exact (Hskip _ _ _ Hr)].
        apply andb_true_iff in Hr. destruct Hr as [Hhead Hrest].
        apply andb_true_iff in Hhead. destruct Hhead as [Hhead Haux].
        apply andb_true_iff in Hhead. destruct Hhead as [Hhead Hok].
        apply andb_true_iff in Hhead. destruct Hhead as [_ Hk].
        destruct (IH _ _ _ _ Hrest) as [core [Hsub Hreal]].
        exists (DHs k ok aux :: core). split; [apply sub_take; exact Hsub|].
        intros b'. cbn [map to_ev realises]. rewrite Hk, Hok, Haux, Hreal. reflexivity.
      * (* DHello *)
        destruct st.
        -- destruct (awaits_flight5 (it :: f)); [exact (Hskip _ _ _ Hr)|].
           destruct it as [k' aux'|]; [discriminate Hr | exact (Hskip _ _ _ Hr)].
        -- destruct (negb ck); [exact (Hskip _ _ _ Hr)|].
           destruct it as [k' aux'|]; [|discriminate Hr].
           destruct k'; try discriminate Hr.
           apply andb_true_iff in Hr. destruct Hr as [Hhead Hrest].
           apply andb_true_iff in Hhead. destruct Hhead as [Hok Haux].
           destruct (IH _ _ _ _ Hrest) as [core [Hsub Hreal]].
           exists (DHello ok aux ck :: core). split; [apply sub_take; exact Hsub|].
           intros b'. cbn [map to_ev realises hs_eqb aux_matters_s negb orb andb].
           rewrite Hok, Haux, Hreal. reflexivity.
      * (* DVerify *)
        destruct it as [k' aux'|]; [discriminate Hr | exact (Hskip _ _ _ Hr)].
      * (* DFrag *)
        destruct it as [k' aux'|]; [discriminate Hr | exact (Hskip _ _ _ Hr)].
      * (* DCcs *)
        destruct it as [k' aux'|].
        -- apply andb_true_iff in Hr. destruct Hr as [_ Hr]. exact (Hskip _ _ _ Hr).
        -- destruct (IH _ _ _ _ Hr) as [core [Hsub Hreal]].
           exists (DCcs :: core). split; [apply sub_take; exact Hsub|].
           intros b'. cbn [map to_ev realises]. apply Hreal.
      * (* DWarn *)
        destruct b as [|b0]; [discriminate Hr | exact (Hskip _ _ _ Hr)].
      * discriminate Hr.
      * discriminate Hr.
      * (* DOld *) exact (Hskip _ _ _ Hr).
Qed.

Theorem dserver_refines_stream : forall p es,
  dsaccepts p es = true -> exists core, sublist core es /\ saccepts p (map to_ev core) = true.
Proof.
  intros p es Hacc. rewrite dserver_language in Hacc. unfold dslegal in Hacc.
  apply existsb_exists in Hacc. destruct Hacc as [f [Hin Hr]].
  destruct (drealises_s_core _ _ _ _ _ Hr) as [core [Hsub Hreal]].
  exists core. split; [exact Hsub|].
  rewrite server_language. unfold slegal. apply existsb_exists.
  exists f. split; [exact Hin | apply Hreal].
Qed.

(* T5: application data is never accepted before completion, an error is final *)
Theorem dclient_no_early_appdata : forall p pre post,
  dcaccepts p pre = false -> dcaccepts p (pre ++ DApp :: post) = false.
Proof.
  intros p pre post Hrej. unfold dcaccepts, dcrun in *.
  rewrite fold_left_app. cbn [fold_left].
  set (c := fold_left (dcstep p) pre (mkDC (DC_Hello false) 0 false)) in *.
  change (dcacc (fold_left (dcstep p) post (dcstep p c DApp)) = false).
  apply dcdead_never_done.
  destruct c as [st r pend]; cbn [dc_st] in Hrej.
  destruct st as [hc|s]; [reflexivity|].
  destruct s; first [discriminate Hrej | reflexivity].
Qed.

Theorem dserver_no_early_appdata : forall p pre post,
  dsaccepts p pre = false -> dsaccepts p (pre ++ DApp :: post) = false.
Proof.
  intros p pre post Hrej. unfold dsaccepts, dsrun in *.
  rewrite fold_left_app. cbn [fold_left].
  set (c := fold_left (dsstep p) pre (mkDS (DS_Hello true) 0 false)) in *.
  change (dsacc (fold_left (dsstep p) post (dsstep p c DApp)) = false).
  apply dsdead_never_done.
  destruct c as [st r pend]; cbn [ds_st] in Hrej.
  destruct st as [fs|s]; [reflexivity|].
  destruct s; first [discriminate Hrej | reflexivity].
Qed.

Theorem dclient_error_is_final : forall p pre post,
  dc_st (dcrun p pre) = DC_Main C_Err -> dcaccepts p (pre ++ post) = false.
Proof.
  intros p pre post Herr. unfold dcaccepts, dcrun in *.
  rewrite fold_left_app. rewrite dc_absorb_err by exact Herr. rewrite Herr. reflexivity.
Qed.

Theorem dserver_error_is_final : forall p pre post,
  ds_st (dsrun p pre) = DS_Main S_Err -> dsaccepts p (pre ++ post) = false.
Proof.
  intros p pre post Herr. unfold dsaccepts, dsrun in *.
  rewrite fold_left_app. rewrite ds_absorb_err by exact Herr. rewrite Herr. reflexivity.
Qed.

Print Assumptions dclient_language.
Print Assumptions dserver_language.
Print Assumptions dclient_ignores_dropped.
Print Assumptions dserver_ignores_dropped.
Print Assumptions dclient_extends_stream.
Print Assumptions dclient_refines_stream.
Print Assumptions dserver_refines_stream.
Print Assumptions dclient_no_early_appdata.
Print Assumptions dserver_no_early_appdata.
Print Assumptions dclient_error_is_final.
Print Assumptions dserver_error_is_final.
