(* C08: the bound on consecutive non-advancing records and the message / record type codes *)
From Coq Require Import ZArith List.
From V Require Import Model.GenConsts Model.Handshake.
Open Scope Z_scope.
Definition tie : Prop :=
  Z.of_nat Handshake.max_useless = GenConsts.T.maxUselessRecords /\
  Z.of_nat Handshake.max_useless = GenConsts.D.maxUselessRecords /\
  GenConsts.T.alertLevelWarning = 1 /\ GenConsts.D.alertLevelWarning = 1.
Lemma tie_holds : tie.
Proof. unfold tie. vm_compute. repeat split. Qed.
