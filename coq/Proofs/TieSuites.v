(* The cipher-suite table and the preference order as the sources declare them (Model/GenConsts.v, regenerated
   from the repository on every run) against the models' own reading: Negotiate (identifiers, preference
   order, which suites are ECDHE) and Spec/RecordProt (key material lengths per protection mode). *)
From Coq Require Import ZArith NArith List String Bool.
From V Require Import Model.GenConsts Model.Negotiate Spec.PRF Spec.RecordProt.
Import ListNotations.
Open Scope Z_scope.

Definition row := (Z * list Z * list string)%type.

Fixpoint zlist_eqb (a b : list Z) : bool :=
  match a, b with
  | [], [] => true
  | x :: a', y :: b' => (x =? y) && zlist_eqb a' b'
  | _, _ => false
  end.

Lemma zlist_eqb_eq a b : zlist_eqb a b = true -> a = b.
Proof.
  revert b; induction a as [|x a IH]; intros [|y b] H; simpl in H; try discriminate; [reflexivity|].
  apply andb_true_iff in H as [H1 H2]. apply Z.eqb_eq in H1. subst. f_equal. now apply IH.
Qed.

Definition lens_row (m : mode) : list Z :=
  let l := lens_of m in [Z.of_nat (key_len l); Z.of_nat (mac_len l); Z.of_nat (iv_len l)].

(* a row {id, keyLen, macLen, ivLen, ka, flags, cipher, mac, aead} read positionally: the numbers first,
   then the identifiers that are not constants *)
Definition row_ok (suiteECDHE suiteECSign : Z) (r : row) : bool :=
  match r with
  | (k, [id; kl; ml; il; flags], [ka; ciph; mac; aead]) =>
      let ecdhe := Negotiate.is_ecdhe (Z.to_N id) in
      (k =? id) && (0 <=? id) &&
      existsb (N.eqb (Z.to_N id)) Negotiate.preference &&
      (if String.eqb aead "nil"
       then String.eqb ciph "cipherSM4" && String.eqb mac "macSM3" &&
            (Z.to_N id =? (if ecdhe then Negotiate.ECDHE_CBC else Negotiate.ECC_CBC))%N &&
            zlist_eqb [kl; ml; il] (lens_row MCbc)
       else String.eqb ciph "nil" && String.eqb mac "nil" && String.eqb aead "aeadSM4GCM" &&
            (Z.to_N id =? (if ecdhe then Negotiate.ECDHE_GCM else Negotiate.ECC_GCM))%N &&
            zlist_eqb [kl; ml; il] (lens_row MGcm)) &&
      String.eqb ka (if ecdhe then "ecdheKA" else "eccKA") &&
      (flags =? suiteECSign + (if ecdhe then suiteECDHE else 0))
  | _ => false
  end.

Definition table_ok (suiteECDHE suiteECSign : Z) (t : list row) (pref : list Z) : bool :=
  forallb (row_ok suiteECDHE suiteECSign) t &&
  (* every suite of the preference order has its row, and only those *)
  zlist_eqb (map (fun r => fst (fst r)) t)
            (filter (fun id => existsb (Z.eqb id) (map (fun r => fst (fst r)) t)) (map (fun r => fst (fst r)) t)) &&
  forallb (fun id => existsb (fun r => fst (fst r) =? id) t) pref &&
  Nat.eqb (length t) (length pref).

(* tlcp *)
Lemma t_preference : map Z.of_N Negotiate.preference = GenConsts.T.cipherSuitesPreferenceOrder.
Proof. vm_compute. reflexivity. Qed.
Lemma t_disabled : GenConsts.T.disabledCipherSuites = [].
Proof. vm_compute. reflexivity. Qed.
Lemma t_table : table_ok GenConsts.T.suiteECDHE GenConsts.T.suiteECSign GenConsts.T.cipherSuites
                         GenConsts.T.cipherSuitesPreferenceOrder = true.
Proof. vm_compute. reflexivity. Qed.
Lemma t_versions : GenConsts.T.supportedVersions = [Z.of_N Negotiate.VERS] /\ GenConsts.T.VersionTLCP = Z.of_N Negotiate.VERS.
Proof. vm_compute. split; reflexivity. Qed.
(* dtlcp *)
Lemma d_preference : map Z.of_N Negotiate.preference = GenConsts.D.cipherSuitesPreferenceOrder.
Proof. vm_compute. reflexivity. Qed.
Lemma d_disabled : GenConsts.D.disabledCipherSuites = [].
Proof. vm_compute. reflexivity. Qed.
Lemma d_table : table_ok GenConsts.D.suiteECDHE GenConsts.D.suiteECSign GenConsts.D.cipherSuites
                         GenConsts.D.cipherSuitesPreferenceOrder = true.
Proof. vm_compute. reflexivity. Qed.
Lemma d_versions : GenConsts.D.supportedVersions = [Z.of_N Negotiate.VERS] /\ GenConsts.D.VersionTLCP = Z.of_N Negotiate.VERS.
Proof. vm_compute. split; reflexivity. Qed.

Definition suites_tie : Prop :=
  map Z.of_N Negotiate.preference = GenConsts.T.cipherSuitesPreferenceOrder /\
  map Z.of_N Negotiate.preference = GenConsts.D.cipherSuitesPreferenceOrder /\
  GenConsts.T.disabledCipherSuites = [] /\ GenConsts.D.disabledCipherSuites = [] /\
  table_ok GenConsts.T.suiteECDHE GenConsts.T.suiteECSign GenConsts.T.cipherSuites GenConsts.T.cipherSuitesPreferenceOrder = true /\
  table_ok GenConsts.D.suiteECDHE GenConsts.D.suiteECSign GenConsts.D.cipherSuites GenConsts.D.cipherSuitesPreferenceOrder = true /\
  GenConsts.T.supportedVersions = [Z.of_N Negotiate.VERS] /\ GenConsts.D.supportedVersions = [Z.of_N Negotiate.VERS] /\
  GenConsts.T.VersionTLCP = Z.of_N Negotiate.VERS /\ GenConsts.D.VersionTLCP = Z.of_N Negotiate.VERS.

Lemma suites_tie_holds : suites_tie.
Proof.
  unfold suites_tie.
  repeat split; first [ exact t_preference | exact d_preference | exact t_disabled | exact d_disabled
                      | exact t_table | exact d_table | apply t_versions | apply d_versions ].
Qed.

(* what the table check gives: every row of the table carries the key / MAC / IV lengths the specification
   cuts the key block with *)
Lemma table_row_lens : forall e s t pref r, table_ok e s t pref = true -> In r t ->
  exists id kl ml il fl ids, r = (id, [id; kl; ml; il; fl], ids) /\
     ([kl; ml; il] = lens_row MCbc \/ [kl; ml; il] = lens_row MGcm).
Proof.
  intros e s t pref r H Hin. unfold table_ok in H.
  repeat (apply andb_true_iff in H as [H ?]).
  rewrite forallb_forall in H. specialize (H r Hin).
  destruct r as [[k nums] ids].
  destruct nums as [|id [|kl [|ml [|il [|fl [|? ?]]]]]]; try discriminate H.
  destruct ids as [|ka [|ci [|ma [|ae [|? ?]]]]]; try discriminate H.
  cbn [row_ok] in H.
  repeat (apply andb_true_iff in H as [H ?]).
  apply Z.eqb_eq in H. subst k.
  exists id, kl, ml, il, fl, [ka; ci; ma; ae]. split; [reflexivity|].
  match goal with Hc : (if String.eqb ae "nil" then _ else _) = true |- _ =>
    destruct (String.eqb ae "nil"); repeat (apply andb_true_iff in Hc as [Hc ?]) end;
  match goal with Hz : zlist_eqb _ _ = true |- _ => apply zlist_eqb_eq in Hz; rewrite Hz; auto end.
Qed.
