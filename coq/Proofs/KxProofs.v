(* No input drives a key-exchange parser of Model/Kx.v to Panic (C09), whatever the oracles answer;
   the pre-fix variants do panic on the recorded inputs. *)
From V Require Import Model.Codec Model.Kx Proofs.CodecBaseProofs.
From Coq Require Import ZArith ZifyNat ZifyN ZifyBool.
#[local] Ltac Zify.zify_post_hook ::= Z.div_mod_to_equations.
Open Scope N_scope.
Open Scope res_scope.

Definition no_panic {A} (r : res A) : Prop := forall site, r <> Panic site.

Lemma np_ok : forall A (a : A), no_panic (Ok a).
Proof. intros A a s; discriminate. Qed.
Lemma np_kfail : forall A c, no_panic (@kfail A c).
Proof. intros A c s; discriminate. Qed.
Lemma np_kdone : forall A (a : A), no_panic (kdone a).
Proof. intros A a s; discriminate. Qed.
#[local] Hint Resolve np_ok np_kfail np_kdone : np.

Lemma np_rbind : forall A B (r : res A) (f : A -> res B),
  no_panic r -> (forall a, r = Ok a -> no_panic (f a)) -> no_panic (rbind r f).
Proof.
  intros A B r f Hr Hf s. destruct r as [a| |s']; cbn.
  - apply Hf; reflexivity.
  - discriminate.
  - exfalso; apply (Hr s'); reflexivity.
Qed.
Lemma np_kbind : forall A B (r : res (kx A)) (f : A -> res (kx B)),
  no_panic r -> (forall a, r = Ok (Done a) -> no_panic (f a)) -> no_panic (kbind r f).
Proof.
  intros A B r f Hr Hf s. destruct r as [[a|c]| |s']; cbn.
  - apply Hf; reflexivity.
  - discriminate.
  - discriminate.
  - exfalso; apply (Hr s'); reflexivity.
Qed.

Lemma np_idx : forall s i st, i < len s -> no_panic (idx s i st).
Proof. intros s i st H s'. apply idx_not_panic; auto. Qed.
Lemma np_from : forall s i st, i <= len s -> no_panic (from s i st).
Proof. intros s i st H s'. rewrite from_ok by auto. discriminate. Qed.
Lemma np_sub : forall s i j st, i <= j -> j <= len s -> no_panic (sub s i j st).
Proof. intros s i j st H1 H2 s'. rewrite sub_ok by auto. discriminate. Qed.
Lemma from_val : forall s i st r, from s i st = Ok r -> i <= len s /\ r = skipn (N.to_nat i) s.
Proof.
  intros s i st r H. unfold from in H. destruct (len s <? i) eqn:E; try discriminate.
  apply N.ltb_ge in E. inversion H; auto.
Qed.
Lemma sub_val : forall s i j st r, sub s i j st = Ok r ->
  i <= j /\ j <= len s /\ r = firstn (N.to_nat (j - i)) (skipn (N.to_nat i) s).
Proof.
  intros s i j st r H. unfold sub in H.
  destruct (j <? i) eqn:E1; try discriminate. destruct (len s <? j) eqn:E2; try discriminate.
  cbn in H. apply N.ltb_ge in E1. apply N.ltb_ge in E2. inversion H; auto.
Qed.
Lemma len_from : forall s i st r, from s i st = Ok r -> len r = len s - i.
Proof. intros s i st r H. apply from_val in H as [_ ->]. apply len_skipn. Qed.

Lemma np_cert_at : forall certs i st, (i < length certs)%nat -> no_panic (cert_at certs i st).
Proof.
  intros certs i st H s. unfold cert_at. destruct (nth_error certs i) eqn:E; try discriminate.
  apply nth_error_None in E. lia.
Qed.

Ltac np_if :=
  match goal with
  | |- no_panic (if ?c then _ else _) => let E := fresh "E" in destruct c eqn:E
  end.

(* ---------------- ECC processClientKeyExchange ---------------- *)
Theorem ecc_ckx_cipher_no_panic : forall no_certs ct, no_panic (ecc_ckx_cipher no_certs ct).
Proof.
  intros nc ct. unfold ecc_ckx_cipher.
  np_if; auto with np. np_if; auto with np. apply N.ltb_ge in E0.
  apply np_rbind; [apply np_idx; lia|]. intros b0 _.
  apply np_rbind; [apply np_idx; lia|]. intros b1 _.
  np_if; auto with np.
  apply np_rbind; [apply np_from; lia|]. intros cipher Hc.
  apply len_from in Hc.
  np_if; auto with np. apply N.ltb_ge in E2.
  apply np_rbind; [apply np_idx; lia|]. intros c0 _.
  np_if; auto with np.
  apply np_rbind; [apply np_idx; lia|]. intros c2 _.
  np_if; auto with np. apply N.leb_le in E4.
  apply np_rbind; [apply np_sub; lia|]. intros; auto with np.
Qed.

Theorem ecc_ckx_finish_no_panic : forall d dec c, no_panic (ecc_ckx_finish d dec c).
Proof.
  intros. unfold ecc_ckx_finish. np_if; auto with np.
  destruct (dec c); auto with np. np_if; auto with np.
Qed.

Theorem ecc_process_ckx_no_panic : forall nc d dec ct, no_panic (ecc_process_ckx nc d dec ct).
Proof.
  intros. unfold ecc_process_ckx. apply np_kbind; [apply ecc_ckx_cipher_no_panic|].
  intros; apply ecc_ckx_finish_no_panic.
Qed.

(* the recorded F2 inputs panic the pre-fix parser *)
Lemma ecc_ckx_F2_panics :
  ecc_ckx_cipher_F2 [0] = Panic 2 /\ ecc_ckx_cipher_F2 [0; 0] = Panic 4 /\
  ecc_ckx_cipher_F2 [0; 1; 48] = Panic 5 /\ ecc_ckx_cipher_F2 [0; 2; 48; 0] = Panic 5.
Proof. repeat split; vm_compute; reflexivity. Qed.

(* ---------------- getECDHEPublicKey ---------------- *)
Lemma ecdhe_pub_from_no_panic : forall ct start s1 s2, start < len ct -> no_panic (ecdhe_pub_from ct start s1 s2).
Proof.
  intros. unfold ecdhe_pub_from.
  apply np_rbind; [apply np_idx; lia|]. intros pl _.
  apply np_rbind; [apply np_from; lia|]. intros rest _.
  np_if; auto with np.
Qed.

Theorem get_ecdhe_point_no_panic : forall ct, no_panic (get_ecdhe_point ct).
Proof.
  intros ct. unfold get_ecdhe_point.
  np_if. { apply N.eqb_eq in E. apply ecdhe_pub_from_no_panic; lia. }
  np_if; auto with np. apply N.eqb_eq in E0.
  apply np_rbind; [apply np_idx; lia|]. intros b0 _.
  apply np_rbind; [apply np_idx; lia|]. intros b1 _.
  np_if; auto with np. apply ecdhe_pub_from_no_panic; lia.
Qed.

Theorem get_ecdhe_pub_no_panic : forall pok ct, no_panic (get_ecdhe_pub pok ct).
Proof.
  intros. unfold get_ecdhe_pub. apply np_kbind; [apply get_ecdhe_point_no_panic|].
  intros p _. np_if; auto with np.
Qed.

Theorem ecdhe_process_ckx_no_panic : forall certs te pok agree ct,
  no_panic (ecdhe_process_ckx certs te pok agree ct).
Proof.
  intros. unfold ecdhe_process_ckx.
  np_if; auto with np. apply Nat.ltb_ge in E.
  apply np_rbind; [apply np_cert_at; lia|]. intros k _.
  np_if; auto with np. np_if; auto with np.
  apply np_kbind; [apply get_ecdhe_pub_no_panic|]. intros p _.
  destruct (agree p); auto with np.
Qed.

(* ---------------- ECC processServerKeyExchange ---------------- *)
Theorem ecc_process_skx_no_panic : forall certs verify key, no_panic (ecc_process_skx certs verify key).
Proof.
  intros. unfold ecc_process_skx.
  np_if; auto with np. apply Nat.ltb_ge in E.
  apply np_rbind; [apply np_cert_at; lia|]. intros sigk _.
  apply np_rbind; [apply np_cert_at; lia|]. intros enc _.
  np_if; auto with np. apply N.leb_gt in E0.
  apply np_rbind; [apply np_idx; lia|]. intros b0 _.
  apply np_rbind; [apply np_idx; lia|]. intros b1 _.
  np_if; auto with np.
  apply np_rbind; [apply np_from; lia|]. intros sg _.
  np_if; auto with np. np_if; auto with np.
Qed.

(* ---------------- ECDHE processServerKeyExchange ---------------- *)
Lemma ecdhe_skx_point_spec : forall certs key,
  no_panic (ecdhe_skx_point certs key) /\
  (forall params pl, ecdhe_skx_point certs key = Ok (Done (params, pl)) ->
     (2 <= length certs)%nat /\ pl + 4 <= len key /\ len params = 4 + pl).
Proof.
  intros certs key. unfold ecdhe_skx_point.
  destruct (length certs <? 2)%nat eqn:E.
  { split; [auto with np|]. intros; discriminate. }
  apply Nat.ltb_ge in E.
  destruct (cert_at certs 0 40) as [k0| |s0] eqn:Ec.
  2:{ unfold cert_at in Ec. destruct (nth_error certs 0); discriminate. }
  2:{ exfalso. apply (np_cert_at certs 0%nat 40%nat ltac:(lia) s0). exact Ec. }
  cbn [rbind].
  destruct (len key <? 4) eqn:E1.
  { split; [auto with np|]. intros; discriminate. }
  apply N.ltb_ge in E1.
  rewrite idx_nth by lia. cbn [rbind].
  remember (nth (N.to_nat 3) key 0) as pl eqn:Hpl. clear Hpl.
  destruct (len key <? pl + 4) eqn:E2.
  { split; [auto with np|]. intros; discriminate. }
  apply N.ltb_ge in E2.
  rewrite sub_ok by lia. cbn [rbind].
  rewrite N.sub_0_r. change (skipn (N.to_nat 0) key) with key.
  assert (Hlen : len (firstn (N.to_nat (4 + pl)) key) = 4 + pl) by (rewrite len_firstn; lia).
  remember (firstn (N.to_nat (4 + pl)) key) as prm eqn:Hprm. clear Hprm.
  split; [auto with np|].
  intros params pl' H. injection H as Hp Hl. subst pl' params. repeat split; lia.
Qed.

Lemma ecdhe_skx_sig_no_panic : forall key pl, pl + 4 <= len key -> no_panic (ecdhe_skx_sig key pl).
Proof.
  intros key pl H. unfold ecdhe_skx_sig.
  apply np_rbind; [apply np_from; lia|]. intros sp Hsp. apply len_from in Hsp.
  np_if; auto with np. apply N.ltb_ge in E.
  apply np_rbind; [apply np_idx; lia|]. intros s0 _.
  apply np_rbind; [apply np_idx; lia|]. intros s1 _.
  np_if; auto with np.
  apply np_rbind; [apply np_from; lia|]. intros; auto with np.
Qed.

Theorem ecdhe_process_skx_no_panic : forall certs pok verify key,
  no_panic (ecdhe_process_skx certs pok verify key).
Proof.
  intros. unfold ecdhe_process_skx.
  destruct (ecdhe_skx_point_spec certs key) as [Hnp Hv].
  apply np_kbind; [exact Hnp|]. intros [params pl] Hd.
  destruct (Hv _ _ Hd) as (Hc & Hl & Hp).
  apply np_rbind; [apply np_from; lia|]. intros pt _.
  np_if; auto with np.
  apply np_kbind; [apply ecdhe_skx_sig_no_panic; lia|]. intros sg _.
  apply np_rbind; [apply np_cert_at; lia|]. intros sigk _.
  np_if; auto with np. np_if; auto with np.
Qed.

Lemma ecdhe_process_skx_done : forall certs pok verify key params sg,
  ecdhe_process_skx certs pok verify key = Ok (Done (params, sg)) ->
  (2 <= length certs)%nat /\ 4 <= len params.
Proof.
  intros certs pok verify key params sg H. unfold ecdhe_process_skx in H.
  destruct (ecdhe_skx_point_spec certs key) as [_ Hv].
  destruct (ecdhe_skx_point certs key) as [[[p pl]|c]| |s] eqn:Ep; cbn in H; try discriminate.
  destruct (Hv _ _ eq_refl) as (Hc & Hl & Hp).
  destruct (from p 4 43) as [pt| |s]; cbn in H; try discriminate.
  destruct (negb (pok pt)); try discriminate.
  destruct (ecdhe_skx_sig key pl) as [[sg'|c]| |s]; cbn in H; try discriminate.
  destruct (cert_at certs 0 48) as [sigk| |s]; cbn in H; try discriminate.
  destruct (negb (is_ecdsa sigk)); try discriminate.
  destruct (verify sigk p sg'); try discriminate.
  inversion H; subst. split; [auto|lia].
Qed.

(* the recorded F3 input: a body ending right after the ECDH point *)
Lemma ecdhe_skx_F3_panics : forall pt, len pt = 65 ->
  ecdhe_skx_sig_F3 ([3; 0; 41; 65] ++ pt) 65 = Panic 45.
Proof.
  intros pt H. unfold ecdhe_skx_sig_F3.
  rewrite from_ok by lens.
  replace (skipn (N.to_nat (4 + 65)) ([3; 0; 41; 65] ++ pt)) with (@nil N).
  - reflexivity.
  - symmetry. apply skipn_all2. unfold len in H. rewrite app_length. cbn [length]. lia.
Qed.

(* ---------------- generateClientKeyExchange ---------------- *)
Theorem ecc_generate_ckx_no_panic : forall certs enc, no_panic (ecc_generate_ckx certs enc).
Proof.
  intros. unfold ecc_generate_ckx. np_if; auto with np. apply Nat.ltb_ge in E.
  apply np_rbind; [apply np_cert_at; lia|]. intros k _.
  np_if; auto with np. destruct (enc k); auto with np.
Qed.

Theorem ecdhe_generate_ckx_no_panic : forall tmp own certs te agree v,
  (tmp <> None -> (2 <= length certs)%nat) -> no_panic (ecdhe_generate_ckx tmp own certs te agree v).
Proof.
  intros tmp own certs te agree v H. unfold ecdhe_generate_ckx.
  destruct tmp as [t|]; auto with np. destruct own as [sup|]; auto with np.
  np_if; auto with np.
  apply np_rbind; [apply np_cert_at; specialize (H ltac:(discriminate)); lia|]. intros k _.
  np_if; auto with np. np_if; auto with np. destruct (agree t); auto with np.
Qed.

Theorem ecdhe_client_kx_no_panic : forall certs pok verify own te agree v skx,
  no_panic (ecdhe_client_kx certs pok verify own te agree v skx).
Proof.
  intros. unfold ecdhe_client_kx.
  apply np_kbind; [apply ecdhe_process_skx_no_panic|]. intros [params sg] Hd.
  apply ecdhe_process_skx_done in Hd as [Hc Hp].
  apply np_rbind; [apply np_from; lia|]. intros pt _.
  apply ecdhe_generate_ckx_no_panic. intros _; exact Hc.
Qed.

Theorem ecc_client_kx_no_panic : forall certs verify enc skx, no_panic (ecc_client_kx certs verify enc skx).
Proof.
  intros. unfold ecc_client_kx. apply np_kbind; [apply ecc_process_skx_no_panic|].
  intros; apply ecc_generate_ckx_no_panic.
Qed.

(* the F4 situations panic the pre-fix code: an RSA-keyed server encryption certificate (ECC),
   no client encryption key pair (ECDHE) *)
Lemma generate_ckx_F4_panics :
  (forall enc, ecc_generate_ckx_F4 [KSm2; KRsa] enc = Panic 51) /\
  (forall tmp te agree v, ecdhe_generate_ckx_F4 (Some tmp) None [KSm2; KSm2] te agree v = Panic 61).
Proof. split; intros; reflexivity. Qed.

(* ---------------- certificate lists ---------------- *)
Theorem server_certs_no_panic : forall kinds rq e vp chain, no_panic (server_certs kinds rq e vp chain).
Proof.
  intros. unfold server_certs.
  np_if; auto with np. np_if; auto with np.
  apply andb_false_iff in E. apply andb_false_iff in E0.
  apply np_kbind.
  - np_if; auto with np. apply andb_true_iff in E1 as [_ E1]. apply Nat.ltb_lt in E1.
    np_if.
    { exfalso. apply Nat.ltb_lt in E2. destruct e.
      - destruct E0 as [E0|E0]; try discriminate. apply Nat.ltb_ge in E0. lia.
      - lia. }
    apply np_rbind; [apply np_cert_at; lia|]. intros c0 _.
    np_if; auto with np. np_if; auto with np.
    apply np_rbind.
    { apply np_cert_at. destruct E0 as [E0|E0]; try discriminate. apply Nat.ltb_ge in E0. lia. }
    intros c1 _. np_if; auto with np.
  - intros _ _. np_if; auto with np. apply Nat.ltb_lt in E1.
    apply np_rbind; [apply np_cert_at; lia|]. intros k0 _.
    np_if; auto with np. np_if; auto with np.
    apply np_rbind.
    { apply np_cert_at. destruct E0 as [E0|E0]; try discriminate. apply Nat.ltb_ge in E0. lia. }
    intros k1 _. np_if; auto with np.
Qed.

Theorem client_certs_no_panic : forall kinds ins chain, no_panic (client_certs kinds ins chain).
Proof.
  intros. unfold client_certs.
  np_if; auto with np. apply Nat.ltb_ge in E.
  apply np_kbind.
  - np_if; auto with np.
    apply np_rbind; [apply np_cert_at; lia|]. intros c0 _.
    np_if; auto with np.
    apply np_rbind; [apply np_cert_at; lia|]. intros c1 _. np_if; auto with np.
  - intros _ _. apply np_rbind; [apply np_cert_at; lia|]. intros k0 _. np_if; auto with np.
Qed.
