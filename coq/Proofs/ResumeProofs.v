(* Proofs about Model/Resume.v. Statements are fixed; fill in the proofs. *)
From V Require Import Model.Resume Proofs.LruProofs.
Open Scope N_scope.

(* reachable worlds *)
Definition reach (ccap : nat) (scaps : list (N * nat)) (es : list event) : world :=
  fst (run_events (world_init ccap scaps) es).

(* ------------------------------------------------------------------ one-step LRU facts *)
Lemma lookup_in : forall k l v, lookup k l = Some v -> In (k, v) l.
Proof.
  induction l as [|[k' v'] t IH]; intros v H; cbn in *; [discriminate|].
  destruct (k =? k') eqn:E.
  - apply N.eqb_eq in E; subst. inversion H; subst. now left.
  - right. now apply IH.
Qed.

Lemma in_remove_key : forall k e l, In e (remove_key k l) -> In e l.
Proof.
  induction l as [|[k' v'] t IH]; intros H; cbn in *; [exact H|].
  destruct (k =? k').
  - right. now apply IH.
  - destruct H as [H|H]; [now left|right; now apply IH].
Qed.

Lemma in_removelast : forall (A : Type) (e : A) l, In e (removelast l) -> In e l.
Proof.
  induction l as [|x t IH]; intros H; cbn in *; [exact H|].
  destruct t as [|y t']; [destruct H|].
  destruct H as [H|H]; [now left|right; now apply IH].
Qed.

Lemma lookup_remove_key : forall k k' l,
  lookup k (remove_key k' l) = if k =? k' then None else lookup k l.
Proof.
  induction l as [|[k0 v0] t IH]; cbn.
  - now destruct (k =? k').
  - destruct (k' =? k0) eqn:E1.
    + apply N.eqb_eq in E1; subst k0. rewrite IH.
      destruct (k =? k') eqn:E2; reflexivity.
    + cbn. rewrite IH. destruct (k =? k') eqn:E2; [|reflexivity].
      apply N.eqb_eq in E2; subst k'. now rewrite E1.
Qed.

Lemma get_in : forall c k e, In e (ents (fst (get c k))) -> In e (ents c).
Proof.
  intros c k e H. unfold get in H.
  destruct (k =? 0); [exact H|].
  destruct (lookup k (ents c)) as [v|] eqn:L; cbn in H; [|exact H].
  destruct H as [H|H]; [subst e; now apply lookup_in|now apply in_remove_key in H].
Qed.

Lemma get_snd : forall c k, k <> 0 -> snd (get c k) = lookup k (ents c).
Proof.
  intros c k Hk. unfold get. apply N.eqb_neq in Hk. rewrite Hk.
  now destruct (lookup k (ents c)).
Qed.

Lemma get_snd_in : forall c k v, k <> 0 -> snd (get c k) = Some v -> In (k, v) (ents c).
Proof. intros c k v Hk H. rewrite get_snd in H by exact Hk. now apply lookup_in. Qed.

Lemma put_in : forall c k v e, In e (ents (put c k v)) -> e = (k, v) \/ In e (ents c).
Proof.
  intros c k v e H. unfold put in H.
  destruct (lookup k (ents c)).
  - cbn in H. destruct H as [H|H]; [now left|right; now apply in_remove_key in H].
  - destruct (Nat.ltb (length (ents c)) (cap c)); cbn in H.
    + destruct H as [H|H]; [now left|now right].
    + destruct H as [H|H]; [now left|right; now apply in_removelast in H].
Qed.

Lemma del_in : forall c k e, In e (ents (del c k)) -> In e (ents c).
Proof. intros c k e H. cbn in H. now apply in_remove_key in H. Qed.

Lemma key_dst_nz : forall j, key_dst j <> 0.
Proof. intros j; unfold key_dst; lia. Qed.
Lemma key_id_nz : forall i, key_id i <> 0.
Proof. intros i; unfold key_id; lia. Qed.
Lemma key_dst_id : forall j i, key_dst j <> key_id i.
Proof. intros j i; unfold key_dst, key_id; lia. Qed.
Lemma key_dst_inj : forall j j', key_dst j = key_dst j' -> j = j'.
Proof. intros j j'; unfold key_dst; lia. Qed.
Lemma key_id_inj : forall i i', key_id i = key_id i' -> i = i'.
Proof. intros i i'; unfold key_id; lia. Qed.

(* ------------------------------------------------------------------ server-cache list *)
Lemma sc_get_set_same : forall j c l, sc_get j (sc_set j c l) = Some c.
Proof.
  induction l as [|[k0 c0] t IH]; cbn.
  - now rewrite N.eqb_refl.
  - destruct (j =? k0) eqn:E; cbn; rewrite E; [reflexivity|exact IH].
Qed.

Lemma sc_get_set_other : forall j j' c l, j' <> j -> sc_get j' (sc_set j c l) = sc_get j' l.
Proof.
  intros j j' c l Hne. induction l as [|[k0 c0] t IH]; cbn.
  - apply N.eqb_neq in Hne. now rewrite Hne.
  - destruct (j =? k0) eqn:E; cbn.
    + apply N.eqb_eq in E; subst k0. apply N.eqb_neq in Hne. now rewrite Hne.
    + now rewrite IH.
Qed.

(* ------------------------------------------------------------------ session table *)
Lemma tlookup_in : forall i t a, tlookup i t = Some a -> In (i, a) t.
Proof.
  induction t as [|[k0 a0] r IH]; intros a H; cbn in *; [discriminate|].
  destruct (i =? k0) eqn:E.
  - apply N.eqb_eq in E; subst. inversion H; subst. now left.
  - right. now apply IH.
Qed.

Lemma tlookup_cons_old : forall n a' t i a,
  Forall (fun e : N * sattr => fst e < n) t ->
  tlookup i t = Some a -> tlookup i ((n, a') :: t) = Some a.
Proof.
  intros n a' t i a HF H. cbn.
  destruct (i =? n) eqn:E; [|exact H].
  apply N.eqb_eq in E; subst i. apply tlookup_in in H.
  rewrite Forall_forall in HF. apply HF in H. cbn in H. lia.
Qed.

(* ------------------------------------------------------------------ T1 *)
(* T1 a connection is resumed only when the client offered a session the server still holds for a
   suite both still enable under a policy the session satisfies; and then both report resumption
   (the report has a single flag: both ends read it) *)
Theorem resume_iff : forall w k w' r,
  connect w k = (w', r) ->
  (r_resumed r = true <->
   exists i a,
     r_offered r = Some i /\ tlookup i (table w) = Some a /\
     snd (get (match sc_get (k_srv k) (scaches w) with Some c => c | None => lru_init 64 end) (key_id i)) = Some i /\
     memN (sa_suite a) (k_offer k) = true /\ memN (sa_suite a) (k_srv_suites k) = true /\
     k_srv_keys k = true /\
     session_satisfies (k_policy k) (mkSeV (sa_ncerts a) (k_sess_chain_ok k) (is_ecdhe (sa_suite a))) = true).
Proof.
  intros w k w' r H. unfold connect in H. cbv zeta in H.
  destruct (get (ccache w) (key_dst (k_srv k))) as [cc1 got] eqn:Hg.
  set (sc := match sc_get (k_srv k) (scaches w) with Some c => c | None => lru_init 64 end) in *.
  set (offered := match got with
                  | Some i => if k_revalid k then Some i else None
                  | None => None end) in *.
  destruct offered as [i0|] eqn:Hoff.
  - destruct (get sc (key_id i0)) as [c' rr] eqn:Hg2.
    destruct rr as [i'|]; [destruct (tlookup i0 (table w)) as [a0|] eqn:Ht|].
    + match type of H with (if ?b then _ else _) = _ => destruct b eqn:Hres end.
      * inversion H; subst w' r; clear H. cbn [r_resumed r_offered].
        split; [intros _|reflexivity].
        repeat (apply andb_prop in Hres; destruct Hres as [Hres ?]).
        apply N.eqb_eq in Hres; subst i'.
        exists i0, a0. rewrite Hg2. cbn [snd]. repeat split; assumption.
      * assert (Hr : r_resumed r = false /\ r_offered r = Some i0).
        { destruct (k_full_ok k); inversion H; subst; cbn; split; reflexivity. }
        destruct Hr as [Hr1 Hr2]. rewrite Hr1, Hr2.
        split; [discriminate|].
        intros (i & a & Hi & Hta & Hgs & H1 & H2 & H3 & H4). exfalso.
        inversion Hi; subst i. rewrite Ht in Hta; inversion Hta; subst a.
        rewrite Hg2 in Hgs; cbn [snd] in Hgs. inversion Hgs; subst i'.
        rewrite N.eqb_refl, H1, H2, H3, H4 in Hres. discriminate.
    + assert (Hr : r_resumed r = false /\ r_offered r = Some i0).
      { cbn iota in H. destruct (k_full_ok k); inversion H; subst; cbn; split; reflexivity. }
      destruct Hr as [Hr1 Hr2]. rewrite Hr1, Hr2.
      split; [discriminate|].
      intros (i & a & Hi & Hta & _). exfalso.
      inversion Hi; subst i. rewrite Ht in Hta; discriminate.
    + assert (Hr : r_resumed r = false /\ r_offered r = Some i0).
      { destruct (tlookup i0 (table w)); cbn iota in H;
        destruct (k_full_ok k); inversion H; subst; cbn; split; reflexivity. }
      destruct Hr as [Hr1 Hr2]. rewrite Hr1, Hr2.
      split; [discriminate|].
      intros (i & a & Hi & Hta & Hgs & _). exfalso.
      inversion Hi; subst i. rewrite Hg2 in Hgs; discriminate.
  - assert (Hr : r_resumed r = false /\ r_offered r = None).
    { cbn iota in H. destruct (k_full_ok k); inversion H; subst; cbn; split; reflexivity. }
    destruct Hr as [Hr1 Hr2]. rewrite Hr1, Hr2.
    split; [discriminate|].
    intros (i & a & Hi & _). discriminate.
Qed.

(* ------------------------------------------------------------------ shape of a connection *)
Lemma connect_shape : forall w k w' r,
  connect w k = (w', r) ->
  let j := k_srv k in
  let sc := match sc_get j (scaches w) with Some c => c | None => lru_init 64 end in
  exists cc1 sc1,
    (forall e, In e (ents cc1) -> In e (ents (ccache w))) /\
    (forall e, In e (ents sc1) -> In e (ents sc)) /\
    ( (w' = mkW cc1 (sc_set j sc1 (scaches w)) (table w) (next w) /\ r_new r = None /\
       (r_ok r = false -> forall i, r_offered r = Some i ->
          lookup (key_dst j) (ents cc1) = None /\ lookup (key_id i) (ents cc1) = None))
    \/ (w' = mkW (put (put cc1 (key_id (next w)) (next w)) (key_dst j) (next w))
                 (sc_set j (put sc1 (key_id (next w)) (next w)) (scaches w))
                 ((next w, mkSA (k_full_suite k) j (k_full_ncerts k) false) :: table w)
                 (next w + 1) /\
        r_ok r = true /\ r_new r = Some (next w) /\ k_full_ok k = true /\ r_resumed r = false)).
Proof.
  intros w k w' r H j sc. unfold connect in H. cbv zeta in H.
  fold j in H. fold sc in H.
  destruct (get (ccache w) (key_dst j)) as [cc1 got] eqn:Hg.
  assert (Hcc1 : forall e, In e (ents cc1) -> In e (ents (ccache w))).
  { intros e He. apply get_in with (k := key_dst j). now rewrite Hg. }
  set (offered := match got with
                  | Some i => if k_revalid k then Some i else None
                  | None => None end) in *.
  match type of H with (let '(_, _) := ?X in _) = _ => destruct X as [sc1 resumable] eqn:Hsc end.
  assert (Hsc1 : forall e, In e (ents sc1) -> In e (ents sc)).
  { destruct offered as [i0|].
    - destruct (get sc (key_id i0)) as [c' rr] eqn:Hg2.
      assert (Hc' : forall e, In e (ents c') -> In e (ents sc)).
      { intros e He. apply get_in with (k := key_id i0). now rewrite Hg2. }
      destruct rr; [destruct (tlookup i0 (table w))|]; inversion Hsc; subst; exact Hc'.
    - inversion Hsc; subst. auto. }
  clear Hsc.
  destruct resumable.
  - inversion H; subst w' r; clear H. exists cc1, sc1.
    split; [exact Hcc1|]. split; [exact Hsc1|]. left. cbn.
    split; [reflexivity|]. split; [reflexivity|]. discriminate.
  - destruct (k_full_ok k) eqn:Hfull.
    + inversion H; subst w' r; clear H. exists cc1, sc1.
      split; [exact Hcc1|]. split; [exact Hsc1|]. right. cbn. repeat split; reflexivity.
    + inversion H; subst w' r; clear H. cbn [r_ok r_offered r_new].
      destruct offered as [i0|].
      * exists (del (del cc1 (key_dst j)) (key_id i0)), sc1.
        split; [intros e He; apply Hcc1; now apply del_in, del_in in He|].
        split; [exact Hsc1|]. left.
        split; [reflexivity|]. split; [reflexivity|].
        intros _ i Hi. inversion Hi; subst i0. cbn [del ents].
        rewrite !lookup_remove_key, !N.eqb_refl.
        split; [now destruct (key_dst j =? key_id i)|reflexivity].
      * exists cc1, sc1.
        split; [exact Hcc1|]. split; [exact Hsc1|]. left.
        split; [reflexivity|]. split; [reflexivity|]. intros _ i Hi; discriminate.
Qed.

(* ------------------------------------------------------------------ T2 *)
(* T2 transparent fallback: when the connection is not resumed, its outcome (success, the new
   session and its attributes) is what the same connection gives with an empty client cache *)
Theorem fallback_transparent : forall w k w' r w0' r0,
  connect w k = (w', r) -> r_resumed r = false ->
  connect (mkW (lru_init (cap (ccache w))) (scaches w) (table w) (next w)) k = (w0', r0) ->
  r_ok r = r_ok r0 /\ r_new r = r_new r0 /\ table w' = table w0' /\ next w' = next w0' /\
  r_resumed r0 = false.
Proof.
  intros w k w' r w0' r0 H Hnr H0.
  (* the run with the empty client cache *)
  unfold connect in H0. cbv zeta in H0. cbn [ccache scaches table next] in H0.
  assert (Hg0 : get (lru_init (cap (ccache w))) (key_dst (k_srv k)) =
                (lru_init (cap (ccache w)), None)).
  { unfold get. pose proof (key_dst_nz (k_srv k)) as Hnz. apply N.eqb_neq in Hnz.
    rewrite Hnz. reflexivity. }
  rewrite Hg0 in H0. cbn iota in H0.
  (* the real run *)
  unfold connect in H. cbv zeta in H.
  destruct (get (ccache w) (key_dst (k_srv k))) as [cc1 got].
  match type of H with (let '(_, _) := ?X in _) = _ => destruct X as [sc1 resumable] end.
  destruct resumable.
  - inversion H; subst; cbn in Hnr; discriminate.
  - destruct (k_full_ok k); inversion H; subst; inversion H0; subst; cbn;
      repeat split; reflexivity.
Qed.

(* ------------------------------------------------------------------ T3 *)
(* T3 a session whose handshake failed is not offered again by that client: right after the
   failure the destination has no session *)
Theorem failed_not_reoffered : forall w k w' r i,
  connect w k = (w', r) -> r_ok r = false -> r_offered r = Some i ->
  snd (get (ccache w') (key_dst (k_srv k))) = None /\ snd (get (ccache w') (key_id i)) = None.
Proof.
  intros w k w' r i H Hok Hoff.
  unfold connect in H. cbv zeta in H.
  destruct (get (ccache w) (key_dst (k_srv k))) as [cc1 got].
  set (offered := match got with
                  | Some i => if k_revalid k then Some i else None
                  | None => None end) in *.
  match type of H with (let '(_, _) := ?X in _) = _ => destruct X as [sc1 resumable] end.
  destruct resumable; [inversion H; subst; cbn in Hok; discriminate|].
  destruct (k_full_ok k); [inversion H; subst; cbn in Hok; discriminate|].
  inversion H; subst w' r; clear H. cbn [r_offered] in Hoff. cbn [ccache].
  rewrite Hoff.
  rewrite !get_snd by (apply key_dst_nz || apply key_id_nz).
  cbn [del ents]. rewrite !lookup_remove_key, !N.eqb_refl.
  split; [now destruct (key_dst (k_srv k) =? key_id i)|reflexivity].
Qed.

(* ------------------------------------------------------------------ the invariant *)
Definition tbl_ok (w : world) : Prop :=
  NoDup (map fst (table w)) /\ Forall (fun e => fst e < next w) (table w) /\ 1 <= next w.

Definition cc_ok (w : world) : Prop :=
  forall j i, In (key_dst j, i) (ents (ccache w)) ->
  exists a, tlookup i (table w) = Some a /\ sa_srv a = j.

Definition sc_ok (w : world) : Prop :=
  forall j c k v, sc_get j (scaches w) = Some c -> In (k, v) (ents c) ->
  exists a, tlookup v (table w) = Some a /\ sa_srv a = j /\ sa_forged a = false.

Definition Inv (w : world) : Prop := tbl_ok w /\ cc_ok w /\ sc_ok w.

Lemma sc_get_init : forall j scaps c,
  sc_get j (map (fun '(j, c) => (j, lru_init c)) scaps) = Some c -> ents c = [].
Proof.
  induction scaps as [|[j0 c0] t IH]; intros c H; cbn in *; [discriminate|].
  destruct (j =? j0); [inversion H; reflexivity|now apply IH].
Qed.

Lemma Inv_init : forall ccap scaps, Inv (world_init ccap scaps).
Proof.
  intros ccap scaps. unfold Inv, tbl_ok, cc_ok, sc_ok, world_init; cbn.
  split; [split; [constructor|split; [constructor|lia]]|].
  split; [intros j i []|].
  intros j c k v Hc Hin. apply sc_get_init in Hc. rewrite Hc in Hin. destruct Hin.
Qed.

Lemma tbl_ok_cons : forall cc scs t n a cc' scs',
  tbl_ok (mkW cc scs t n) -> tbl_ok (mkW cc' scs' ((n, a) :: t) (n + 1)).
Proof.
  unfold tbl_ok; cbn. intros cc scs t n a cc' scs' (Hnd & HF & H1).
  split; [|split].
  - constructor; [|exact Hnd]. intros Hin. apply in_map_iff in Hin.
    destruct Hin as (e & He & Hin). rewrite Forall_forall in HF. apply HF in Hin. lia.
  - constructor; [cbn; lia|]. eapply Forall_impl; [|exact HF]. cbn. intros e He. lia.
  - lia.
Qed.

Lemma Inv_connect : forall w k w' r, Inv w -> connect w k = (w', r) -> Inv w'.
Proof.
  intros w k w' r (Ht & Hc & Hs) H.
  apply connect_shape in H. cbv zeta in H.
  destruct H as (cc1 & sc1 & Hcc1 & Hsc1 & H).
  set (j := k_srv k) in *.
  assert (Hsc : forall kk v, In (kk, v) (ents sc1) ->
            exists a, tlookup v (table w) = Some a /\ sa_srv a = j /\ sa_forged a = false).
  { intros kk v Hin. apply Hsc1 in Hin.
    destruct (sc_get j (scaches w)) as [c0|] eqn:Hget.
    - eapply Hs; eassumption.
    - destruct Hin. }
  destruct H as [(Hw & _) | (Hw & _)]; subst w'.
  - (* table unchanged *)
    split; [exact Ht|]. split.
    + intros j' i Hin. cbn in *. apply Hcc1 in Hin. now apply Hc.
    + intros j' c kk v Hget Hin. cbn in *.
      destruct (N.eq_dec j' j) as [->|Hne].
      * rewrite sc_get_set_same in Hget. inversion Hget; subst c. eapply Hsc; eassumption.
      * rewrite sc_get_set_other in Hget by exact Hne. eapply Hs; eassumption.
  - (* a new session *)
    destruct w as [cc scs t n]. cbn [ccache scaches table next] in *.
    pose proof Ht as (_ & HF & _). cbn in HF.
    split; [eapply tbl_ok_cons; exact Ht|]. split.
    + intros j' i Hin. cbn [ccache table] in *.
      apply put_in in Hin. destruct Hin as [Hin|Hin].
      * inversion Hin as [[Hj Hi]]. apply key_dst_inj in Hj. subst j'.
        eexists. cbn. rewrite N.eqb_refl. split; reflexivity.
      * apply put_in in Hin. destruct Hin as [Hin|Hin].
        { inversion Hin as [[Hj Hi]]. exfalso. exact (key_dst_id _ _ Hj). }
        apply Hcc1 in Hin. apply Hc in Hin. cbn in Hin. destruct Hin as (a & Ha & Hsa).
        exists a. split; [now apply tlookup_cons_old|exact Hsa].
    + intros j' c kk v Hget Hin. cbn [scaches table] in *.
      assert (Hold : forall kk v, In (kk, v) (ents sc1) ->
                exists a, tlookup v ((n, mkSA (k_full_suite k) j (k_full_ncerts k) false) :: t) = Some a /\
                          sa_srv a = j /\ sa_forged a = false).
      { intros kk0 v0 Hin0. apply Hsc in Hin0. destruct Hin0 as (a & Ha & Hsa).
        exists a. split; [now apply tlookup_cons_old|exact Hsa]. }
      destruct (N.eq_dec j' j) as [->|Hne].
      * rewrite sc_get_set_same in Hget. inversion Hget; subst c.
        apply put_in in Hin. destruct Hin as [Hin|Hin].
        { inversion Hin; subst. eexists. cbn. rewrite N.eqb_refl. repeat split; reflexivity. }
        eapply Hold; eassumption.
      * rewrite sc_get_set_other in Hget by exact Hne.
        destruct (Hs _ _ _ _ Hget Hin) as (a & Ha & Hsa). cbn in Ha.
        exists a. split; [now apply tlookup_cons_old|exact Hsa].
Qed.

Lemma Inv_step : forall w e, Inv w -> Inv (fst (step w e)).
Proof.
  intros w e HI. destruct e as [k|j cp|j suite]; cbn [step].
  - destruct (connect w k) as [w' r] eqn:Hc. cbn [fst]. eapply Inv_connect; eassumption.
  - cbn [fst]. destruct HI as (Ht & Hc & Hs).
    split; [exact Ht|]. split; [exact Hc|].
    intros j' c kk v Hget Hin. cbn [scaches table] in *.
    destruct (N.eq_dec j' j) as [->|Hne].
    + rewrite sc_get_set_same in Hget. inversion Hget; subst c. destruct Hin.
    + rewrite sc_get_set_other in Hget by exact Hne. eapply Hs; eassumption.
  - cbn [fst]. destruct HI as (Ht & Hc & Hs).
    destruct w as [cc scs t n]. cbn [ccache scaches table next] in *.
    pose proof Ht as (_ & HF & _). cbn in HF.
    split; [eapply tbl_ok_cons; exact Ht|]. split.
    + intros j' i Hin. cbn [ccache table] in *.
      apply put_in in Hin. destruct Hin as [Hin|Hin].
      * inversion Hin as [[Hj Hi]]. apply key_dst_inj in Hj. subst j'.
        eexists. cbn. rewrite N.eqb_refl. split; reflexivity.
      * apply Hc in Hin. cbn in Hin. destruct Hin as (a & Ha & Hsa).
        exists a. split; [now apply tlookup_cons_old|exact Hsa].
    + intros j' c kk v Hget Hin. cbn [scaches table] in *.
      destruct (Hs _ _ _ _ Hget Hin) as (a & Ha & Hsa). cbn in Ha.
      exists a. split; [now apply tlookup_cons_old|exact Hsa].
Qed.

Lemma Inv_run : forall es w, Inv w -> Inv (fst (run_events w es)).
Proof.
  induction es as [|e t IH]; intros w HI; cbn [run_events]; [exact HI|].
  pose proof (Inv_step w e HI) as H1.
  destruct (step w e) as [w1 r1]. cbn [fst] in H1.
  specialize (IH w1 H1). destruct (run_events w1 t) as [w2 rs]. exact IH.
Qed.

Lemma Inv_reach : forall ccap scaps es, Inv (reach ccap scaps es).
Proof. intros. unfold reach. apply Inv_run, Inv_init. Qed.

(* ------------------------------------------------------------------ T4 *)
(* T4 new sessions get fresh numbers: over every history the session table has no duplicate
   number and every number is below `next` *)
Theorem fresh_ids : forall ccap scaps es,
  let w := reach ccap scaps es in
  NoDup (map fst (table w)) /\ Forall (fun e => fst e < next w) (table w) /\ 1 <= next w.
Proof. intros ccap scaps es w. exact (proj1 (Inv_reach ccap scaps es)). Qed.

(* T5 same identity: in every reachable world, a session stored under destination j in the client
   cache was created with server j (or forged for j), so a resumed connection talks to the
   server that created the session *)
Theorem dst_entry_belongs_to_server : forall ccap scaps es j i,
  let w := reach ccap scaps es in
  lookup (key_dst j) (ents (ccache w)) = Some i ->
  exists a, tlookup i (table w) = Some a /\ sa_srv a = j.
Proof.
  intros ccap scaps es j i w H.
  destruct (Inv_reach ccap scaps es) as (_ & Hc & _).
  apply Hc. now apply lookup_in.
Qed.

(* T6 a server only ever holds sessions it created itself *)
Theorem server_holds_own_sessions : forall ccap scaps es j c i,
  let w := reach ccap scaps es in
  sc_get j (scaches w) = Some c -> In (key_id i, i) (ents c) ->
  exists a, tlookup i (table w) = Some a /\ sa_srv a = j /\ sa_forged a = false.
Proof.
  intros ccap scaps es j c i w Hget Hin.
  destruct (Inv_reach ccap scaps es) as (_ & _ & Hs).
  eapply Hs; eassumption.
Qed.

(* T7 hence a forged identifier is never resumed *)
Theorem forged_never_resumed : forall ccap scaps es k w' r i a,
  let w := reach ccap scaps es in
  connect w k = (w', r) -> r_offered r = Some i -> tlookup i (table w) = Some a ->
  sa_forged a = true -> r_resumed r = false.
Proof.
  intros ccap scaps es k w' r i a w Hc Hoff Ht Hforged.
  destruct (r_resumed r) eqn:Hres; [exfalso|reflexivity].
  apply (proj1 (resume_iff w k w' r Hc)) in Hres.
  destruct Hres as (i0 & a0 & Hi0 & Ht0 & Hg & _).
  rewrite Hoff in Hi0. inversion Hi0; subst i0.
  apply get_snd_in in Hg; [|apply key_id_nz].
  destruct (sc_get (k_srv k) (scaches w)) as [c|] eqn:Hget.
  - destruct (server_holds_own_sessions ccap scaps es _ _ _ Hget Hg) as (a1 & Ha1 & _ & Hf).
    fold w in Ha1. rewrite Ht in Ha1. inversion Ha1; subst a1.
    rewrite Hforged in Hf. discriminate.
  - destruct Hg.
Qed.

Print Assumptions resume_iff.
Print Assumptions fallback_transparent.
Print Assumptions failed_not_reoffered.
Print Assumptions fresh_ids.
Print Assumptions dst_entry_belongs_to_server.
Print Assumptions server_holds_own_sessions.
Print Assumptions forged_never_resumed.
