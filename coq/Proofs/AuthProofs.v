(* Proofs about Model/Auth.v *)
From V Require Import Model.Auth.
From Coq Require Import Lia.

(* ---- helper tactics ---- *)
Ltac fin := cbn in *; try discriminate; repeat split; intros; try discriminate; try reflexivity; try lia; try congruence; auto.

Ltac sv_cases v :=
  destruct v as [n b1 b2 b3 b4 b5 b6 b7 b8 b9]; destruct n as [|[|n]];
  destruct b1, b2, b3, b4, b5, b6, b7, b8, b9.

(* destruct one boolean field at a time, discarding refuted branches early *)
Ltac cv_cases v H :=
  destruct v as [a n b c d e f g h i]; destruct n as [|[|n]]; cbn in H;
  destruct a; cbn in H; try discriminate H;
  destruct i; cbn in H; try discriminate H;
  destruct f; cbn in H; try discriminate H;
  destruct g; cbn in H; try discriminate H;
  destruct h; cbn in H; try discriminate H;
  destruct b; cbn in H; try discriminate H;
  destruct e; cbn in H; try discriminate H;
  destruct c; cbn in H; try discriminate H;
  destruct d; cbn in H; try discriminate H.



(* C02: a verifying client completes a full handshake only if every check came out true *)
Theorem client_complete_implies_checked : forall c v,
  client_full_accepts c v = true ->
  2 <= sv_ncerts v /\ sv_parse_ok v = true /\
  (cc_insecure c = false -> sv_chain_sig v = true /\ sv_chain_enc v = true) /\
  sv_skx_present v = true /\ sv_sig_ok v = true /\ sv_fin_ok v = true.
Proof.
  intros c v Hacc. destruct c as [ins]. sv_cases v; destruct ins; cbn in Hacc; try discriminate Hacc; fin.
Qed.

(* with verification disabled the two proofs of possession are still required *)
Theorem client_insecure_still_pop : forall v,
  client_full_accepts (mkCC true) v = true ->
  sv_skx_present v = true /\ sv_sig_ok v = true /\ sv_fin_ok v = true.
Proof.
  intros v Hacc. sv_cases v; cbn in Hacc; try discriminate Hacc; fin.
Qed.

(* and conversely: when every check is true the handshake completes (no spurious refusal) *)
Theorem client_checked_implies_complete : forall c v,
  2 <= sv_ncerts v -> sv_parse_ok v = true ->
  (cc_insecure c = true \/ (sv_chain_sig v = true /\ sv_chain_enc v = true)) ->
  sv_keytype_ok v = true -> sv_enckey_sm2 v = true ->
  sv_skx_present v = true -> sv_skx_wellformed v = true -> sv_sig_ok v = true -> sv_fin_ok v = true ->
  client_full_accepts c v = true.
Proof.
  intros c v Hn Hp Hch Hk He Hs Hw Hsig Hfin. destruct c as [ins].
  destruct v as [n b1 b2 b3 b4 b5 b6 b7 b8 b9]. cbn in *. subst.
  destruct n as [|[|n]]; try lia. cbn.
  destruct Hch as [Hi | [H1 H2]]; subst; cbn; [reflexivity | destruct ins; reflexivity].
Qed.

(* a resumed completion implies the recorded certificates pass under the configuration in use *)
Theorem client_resume_revalidates : forall c r,
  client_resume_accepts c r = true ->
  (cc_insecure c = false -> rv_sess_chain_ok r = true) /\ rv_fin_ok r = true.
Proof.
  intros c r Hacc. destruct c as [ins]. destruct r as [a b f].
  destruct ins, a, b, f; cbn in Hacc; try discriminate Hacc; fin.
Qed.

(* C07: completion coincides with the declarative policy table *)
Theorem server_complete_iff_policy : forall p ecdhe v,
  server_full_accepts p ecdhe v = true ->
  (requests_cert p ecdhe = true ->
     policy_allows p (cv_ncerts v) (cv_chain_ok v) = true /\
     (ecdhe = true -> 2 <= cv_ncerts v) /\
     (cv_ncerts v <> 0 -> cv_verify_msg v = true /\ cv_verify_ok v = true)) /\
  cv_fin_ok v = true.
Proof.
  intros p ecdhe v Hacc.
  destruct p, ecdhe; cv_cases v Hacc; fin.
Qed.

(* non-empty peer certificates imply the proof of possession was checked; non-empty verified
   chains imply the chain was verified *)
Theorem server_peer_certs_imply_pop : forall p ecdhe v,
  server_full_accepts p ecdhe v = true -> peer_certs_nonempty p ecdhe v = true ->
  cv_verify_msg v = true /\ cv_verify_ok v = true.
Proof.
  intros p ecdhe v Hacc Hne.
  destruct p, ecdhe; cv_cases v Hacc; cbn in Hne; try discriminate Hne; fin.
Qed.

Theorem server_chains_imply_verified : forall p ecdhe v,
  server_full_accepts p ecdhe v = true -> verified_chains_nonempty p ecdhe v = true ->
  cv_chain_ok v = true.
Proof.
  intros p ecdhe v Hacc Hne.
  destruct p, ecdhe; cv_cases v Hacc; cbn in Hne; try discriminate Hne; fin.
Qed.

(* a session is resumed only under a policy its recorded certificates satisfy *)
Theorem server_resume_respects_policy : forall p s,
  session_satisfies p s = true ->
  policy_allows p (se_ncerts s) (se_chain_ok s) = true.
Proof.
  intros p s Hsat. destruct s as [n ch ec]. destruct n as [|[|n]]; destruct p, ch, ec; cbn in Hsat; try discriminate Hsat; reflexivity.
Qed.

(* before the fix the resumption decision ignored the policy: witness *)
Definition session_satisfies_old (p : policy) (s : session_view) : bool := true.
Theorem server_resume_old_refuted : exists p s,
  session_satisfies_old p s = true /\ policy_allows p (se_ncerts s) (se_chain_ok s) = false.
Proof.
  exists RequireAndVerifyClientCert, (mkSeV 0 false false). split; reflexivity.
Qed.

Print Assumptions client_complete_implies_checked.
Print Assumptions client_insecure_still_pop.
Print Assumptions client_checked_implies_complete.
Print Assumptions client_resume_revalidates.
Print Assumptions server_complete_iff_policy.
Print Assumptions server_peer_certs_imply_pop.
Print Assumptions server_chains_imply_verified.
Print Assumptions server_resume_respects_policy.
Print Assumptions server_resume_old_refuted.
