(* Complete enumeration of the scripts of exactly three faults (indexes below 10, delays of
   150 ms) for one configuration *)
From V Require Import Model.DSim Proofs.DSimReduce.


Lemma k3_3 : let c := mkCfg false true true in
  forallb (fun f => forallb (fun g => forallb (fun h => chk3 c [f; g; h]) FS3) FS3) FS3 = true.
Proof. vm_cast_no_check (eq_refl true). Qed.
