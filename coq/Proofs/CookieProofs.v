(* Proofs about Model/Cookie.v. Statements are fixed; fill in the proofs. *)
From V Require Import Model.Cookie.
From Coq Require Import ZArith ZifyN ZifyNat ZifyBool.
#[local] Ltac Zify.zify_post_hook ::= Z.div_mod_to_equations.

Definition bytes_ok (l : list byte) : Prop := Forall (fun b => (b < 256)%N) l.

(* ---------- helpers ---------- *)

(* the nat literal 65536 is an abstract large number; relate it once to the N literal *)
Lemma big_nat : N.of_nat 65536 = 65536%N.
Proof. vm_compute. reflexivity. Qed.

Lemma lt_big : forall n, n < 65536 -> (N.of_nat n < 65536)%N.
Proof.
  intros n H. rewrite <- big_nat.
  unfold N.lt. rewrite <- Nat2N.inj_compare. apply Nat.compare_lt_iff. exact H.
Qed.

Lemma lt_256 : forall n, n < 256 -> (N.of_nat n < 256)%N.
Proof. intros n H. lia. Qed.

Lemma u16_inj : forall x y, (x < 65536)%N -> (y < 65536)%N -> u16 x = u16 y -> x = y.
Proof.
  intros x y Hx Hy H. unfold u16 in H.
  injection H as H1 H2. lia.
Qed.

Lemma u8_inj : forall x y, (x < 256)%N -> (y < 256)%N -> u8 x = u8 y -> x = y.
Proof.
  intros x y Hx Hy H. unfold u8 in H.
  injection H as H1. lia.
Qed.

Lemma app_eq_len : forall (A : Type) (a a' b b' : list A),
  length a = length a' -> a ++ b = a' ++ b' -> a = a' /\ b = b'.
Proof.
  intros A a. induction a as [|x a IH]; intros a' b b' HL H; destruct a' as [|x' a'].
  - split; [reflexivity | exact H].
  - discriminate HL.
  - discriminate HL.
  - cbn [length] in HL. injection HL as HL.
    cbn [app] in H. injection H as Hx H.
    destruct (IH a' b b' HL H) as [Ha Hb].
    split; [congruence | exact Hb].
Qed.

Lemma flat_map_u16_length : forall l, length (flat_map u16 l) = 2 * length l.
Proof.
  induction l as [|x l IH].
  - reflexivity.
  - cbn [flat_map]. unfold u16 at 1. cbn [app length]. rewrite IH. lia.
Qed.

Lemma flat_map_u16_inj : forall l l',
  Forall (fun s => (s < 65536)%N) l -> Forall (fun s => (s < 65536)%N) l' ->
  flat_map u16 l = flat_map u16 l' -> l = l'.
Proof.
  induction l as [|x l IH]; intros l' F F' H; destruct l' as [|x' l'].
  - reflexivity.
  - cbn [flat_map] in H. unfold u16 at 1 in H. cbn [app] in H. discriminate H.
  - cbn [flat_map] in H. unfold u16 at 1 in H. cbn [app] in H. discriminate H.
  - cbn [flat_map] in H.
    inversion F as [|? ? Fx Fl]; subst. inversion F' as [|? ? Fx' Fl']; subst.
    apply app_eq_len in H as [Hx H]; [|reflexivity].
    apply u16_inj in Hx; [|assumption|assumption].
    f_equal; [exact Hx | apply IH; assumption].
Qed.

(* ---------- theorems ---------- *)

(* T1 the HMAC input is an injective encoding of (address, parameters) *)
Theorem enc_injective : forall a p a' p',
  length a < 65536 -> length a' < 65536 ->
  enc a p = enc a' p' -> a = a' /\ p = p'.
Proof.
  intros a p a' p' Ha Ha' H. unfold enc in H.
  apply lt_big in Ha. apply lt_big in Ha'.
  apply app_eq_len in H as [Hu H]; [|reflexivity].
  apply u16_inj in Hu; [|assumption|assumption].
  apply Nat2N.inj in Hu.
  apply app_eq_len in H; assumption.
Qed.

(* T2 the parameter string is an injective encoding of the covered ClientHello fields *)
Theorem params_injective : forall h h',
  wf_hello h -> wf_hello h' ->
  marshal_for_cookie h = marshal_for_cookie h' ->
  h_vers h = h_vers h' /\ h_random h = h_random h' /\ h_sid h = h_sid h' /\
  h_suites h = h_suites h' /\ h_comp h = h_comp h'.
Proof.
  intros h h' W W' H.
  destruct h as [v r s su c ck]. destruct h' as [v' r' s' su' c' ck'].
  unfold wf_hello in W, W'. unfold marshal_for_cookie in H.
  cbn [h_vers h_random h_sid h_suites h_comp h_cookie] in *.
  destruct W as (Wv & Wr & Ws & Wsu & Wsuf & Wc & _ & _ & _).
  destruct W' as (Wv' & Wr' & Ws' & Wsu' & Wsuf' & Wc' & _ & _ & _).
  apply lt_big in Wsu. apply lt_big in Wsu'.
  apply lt_256 in Ws. apply lt_256 in Ws'. apply lt_256 in Wc. apply lt_256 in Wc'.
  (* version *)
  apply app_eq_len in H as [Hv H]; [|reflexivity].
  apply u16_inj in Hv; [|assumption|assumption].
  (* random *)
  apply app_eq_len in H as [Hr H]; [|congruence].
  (* session id *)
  apply app_eq_len in H as [Hs1 H]; [|reflexivity].
  apply u8_inj in Hs1; [|assumption|assumption].
  apply Nat2N.inj in Hs1.
  apply app_eq_len in H as [Hs H]; [|assumption].
  (* suites *)
  apply app_eq_len in H as [Hsu1 H]; [|reflexivity].
  apply u16_inj in Hsu1; [|assumption|assumption].
  apply Nat2N.inj in Hsu1.
  apply app_eq_len in H as [Hsu H]; [|rewrite !flat_map_u16_length; lia].
  apply flat_map_u16_inj in Hsu; [|assumption|assumption].
  (* compression methods *)
  apply app_eq_len in H as [Hc1 Hc]; [|reflexivity].
  repeat split; assumption.
Qed.

Lemma bytes_eqb_eq : forall a b, bytes_eqb a b = true <-> a = b.
Proof.
  induction a as [|x a IH]; intros b; destruct b as [|y b]; cbn [bytes_eqb].
  - split; reflexivity.
  - split; intros H; discriminate H.
  - split; intros H; discriminate H.
  - split.
    + intros H. apply andb_true_iff in H as [H1 H2].
      apply N.eqb_eq in H1. apply IH in H2. congruence.
    + intros H. injection H as Hx Ha. apply andb_true_iff. split.
      * apply N.eqb_eq. exact Hx.
      * apply IH. exact Ha.
Qed.

Section Binding.
  Variable hmac : list byte -> list byte -> list byte.
  (* idealisation of HMAC-SM3: distinct (key, message) pairs never collide *)
  Hypothesis hmac_injective : forall k m k' m', hmac k m = hmac k' m' -> k = k' /\ m = m'.

  (* T3 a cookie is accepted only for exactly the secret, address and covered fields it was
     issued for *)
  Theorem cookie_binding : forall secret addr h secret' addr' h',
    length addr < 65536 -> length addr' < 65536 -> wf_hello h -> wf_hello h' ->
    verify_cookie hmac secret' addr' (marshal_for_cookie h')
      (gen_cookie hmac secret addr (marshal_for_cookie h)) = true ->
    secret' = secret /\ addr' = addr /\
    h_vers h' = h_vers h /\ h_random h' = h_random h /\ h_sid h' = h_sid h /\
    h_suites h' = h_suites h /\ h_comp h' = h_comp h.
  Proof.
    intros secret addr h secret' addr' h' La La' W W' H.
    unfold verify_cookie, gen_cookie in H.
    apply bytes_eqb_eq in H.
    apply hmac_injective in H as [Hk Hm].
    apply enc_injective in Hm as [Ha Hp]; [|assumption|assumption].
    apply params_injective in Hp; [|assumption|assumption].
    split; [exact Hk|]. split; [exact Ha|]. exact Hp.
  Qed.

  (* a connection without a configured secret (nil or empty) keys its cookies with the bytes it
     drew: a cookie made under any other key, the empty key or another connection's draw
     included, is accepted only if that key equals the draw *)
  Theorem unconfigured_secret : forall configured drawn,
    (length configured = 0 -> effective_secret configured drawn = drawn) /\
    (length configured <> 0 -> effective_secret configured drawn = configured) /\
    (forall other addr p addr' p', length configured = 0 ->
       verify_cookie hmac (effective_secret configured drawn) addr p (gen_cookie hmac other addr' p') = true ->
       other = drawn).
  Proof.
    intros configured drawn. unfold effective_secret.
    destruct (Nat.eqb (length configured) 0) eqn:E.
    - apply Nat.eqb_eq in E. split; [reflexivity|]. split; [intro H; contradiction|].
      intros other addr p addr' p' _ H. unfold verify_cookie, gen_cookie in H.
      apply bytes_eqb_eq in H. apply hmac_injective in H as [Hk _]. symmetry; exact Hk.
    - apply Nat.eqb_neq in E. split; [intro H; contradiction|]. split; [reflexivity|].
      intros other addr p addr' p' H; contradiction.
  Qed.

  (* and conversely the issued cookie verifies *)
  Theorem cookie_roundtrip : forall secret addr params,
    verify_cookie hmac secret addr params (gen_cookie hmac secret addr params) = true.
  Proof.
    intros secret addr params. unfold verify_cookie.
    apply bytes_eqb_eq. reflexivity.
  Qed.
End Binding.

Section Loop.
  Variable hmac : list byte -> list byte -> list byte.

  (* T4 until a hello carries a valid cookie: exactly one HelloVerifyRequest per hello, each
     carrying the cookie for that very hello, no key operation, no certificate byte *)
  Theorem only_hvr : forall secret addr hs outs eff acc,
    cookie_loop hmac secret addr hs = (outs, eff, acc) ->
    key_ops eff = 0 /\ cert_bytes eff = 0 /\
    length outs <= length hs /\
    (acc = None -> length outs = length hs) /\
    (forall i h, nth_error hs i = Some h -> i < length outs ->
       nth_error outs i = Some (HVR (gen_cookie hmac secret addr (marshal_for_cookie h)))) /\
    (forall h, acc = Some h ->
       h_cookie h <> [] /\ verify_cookie hmac secret addr (marshal_for_cookie h) (h_cookie h) = true /\
       nth_error hs (length outs) = Some h).
  Proof.
    intros secret addr hs.
    induction hs as [|h0 t IH]; intros outs eff acc H.
    - cbn [cookie_loop] in H. injection H as Ho He Ha. subst outs eff acc.
      cbn [key_ops cert_bytes length].
      split; [reflexivity|]. split; [reflexivity|]. split; [apply Nat.le_refl|].
      split; [intros _; reflexivity|]. split.
      + intros i h Hn Hi. inversion Hi.
      + intros h Hh. discriminate Hh.
    - cbn [cookie_loop] in H.
      destruct (negb (Nat.eqb (length (h_cookie h0)) 0) &&
                verify_cookie hmac secret addr (marshal_for_cookie h0) (h_cookie h0)) eqn:E.
      + injection H as Ho He Ha. subst outs eff acc.
        apply andb_true_iff in E as [E1 E2].
        cbn [key_ops cert_bytes length].
        split; [reflexivity|]. split; [reflexivity|]. split; [apply Nat.le_0_l|].
        split; [intros Hn; discriminate Hn|]. split.
        * intros i h Hn Hi. inversion Hi.
        * intros h Hh. injection Hh as Hh. subst h.
          split.
          -- intros Hc. rewrite Hc in E1. cbn in E1. discriminate E1.
          -- split; [exact E2 | reflexivity].
      + destruct (cookie_loop hmac secret addr t) as [[o e] r] eqn:EL.
        injection H as Ho He Ha. subst outs eff acc.
        destruct (IH o e r eq_refl) as (I1 & I2 & I3 & I4 & I5 & I6).
        cbn [length].
        split; [exact I1|]. split; [exact I2|]. split; [apply le_n_S; exact I3|].
        split; [intros Hn; f_equal; apply I4; exact Hn|]. split.
        * intros i h Hn Hi. destruct i as [|i].
          -- cbn [nth_error] in Hn. injection Hn as Hn. subst h. reflexivity.
          -- cbn [nth_error] in Hn. cbn [nth_error]. apply I5; [exact Hn|].
             apply Nat.succ_lt_mono. exact Hi.
        * intros h Hh. destruct (I6 h Hh) as (J1 & J2 & J3).
          split; [exact J1|]. split; [exact J2|].
          cbn [nth_error]. exact J3.
  Qed.

  (* T5 no amplification: a HelloVerifyRequest with a 32-byte cookie is 60 bytes, never larger
     than the ClientHello datagram that caused it (at least one suite, one compression method) *)
  Theorem no_amplification : forall (h : hello) cookie,
    length cookie = 32 -> 1 <= length (h_suites h) -> 1 <= length (h_comp h) ->
    hvr_datagram_len cookie = 60 /\ hvr_datagram_len cookie <= client_hello_min_datagram_len h.
  Proof.
    intros h cookie Hc Hs Hm.
    unfold hvr_datagram_len, client_hello_min_datagram_len.
    split; lia.
  Qed.
End Loop.

(* the pre-fix encoding (address immediately followed by the parameters) is NOT injective *)
Definition enc_old (addr params : list byte) : list byte := addr ++ params.
Theorem enc_old_refuted : exists a p a' p', (a, p) <> (a', p') /\ enc_old a p = enc_old a' p'.
Proof.
  exists [1%N], [2%N; 3%N], [1%N; 2%N], [3%N].
  split.
  - intros H. discriminate H.
  - reflexivity.
Qed.

Print Assumptions enc_injective.
Print Assumptions params_injective.
Print Assumptions cookie_binding.
Print Assumptions cookie_roundtrip.
Print Assumptions only_hvr.
Print Assumptions no_amplification.
Print Assumptions enc_old_refuted.
