(* Generic lemmas for the codec model: lengths, big-endian numbers, cryptobyte readers versus
   builders (both directions), Go indexing / slicing, extension-block splitting. *)
From V Require Import Model.Codec Model.CodecT Model.CodecD Model.CodecSpec.
From Coq Require Import ZArith ZifyNat ZifyN ZifyBool.
#[local] Ltac Zify.zify_post_hook ::= Z.div_mod_to_equations.
Open Scope N_scope.

(* ================= lengths ================= *)
Lemma len_nil : len [] = 0. Proof. reflexivity. Qed.
Lemma len_cons : forall x l, len (x :: l) = 1 + len l.
Proof. intros; unfold len; cbn [length]; lia. Qed.
Lemma len_app : forall a b, len (a ++ b) = len a + len b.
Proof. intros; unfold len; rewrite app_length; lia. Qed.
Lemma len_0 : forall l, len l = 0 -> l = [].
Proof. intros [|x l] H; auto. rewrite len_cons in H; lia. Qed.
Lemma len_firstn : forall n l, n <= len l -> len (firstn (N.to_nat n) l) = n.
Proof. intros; unfold len in *; rewrite firstn_length; lia. Qed.
Lemma len_skipn : forall n l, len (skipn (N.to_nat n) l) = len l - n.
Proof. intros; unfold len in *; rewrite skipn_length; lia. Qed.
Lemma len_repeat : forall (x : N) n, len (repeat x n) = N.of_nat n.
Proof. intros; unfold len; rewrite repeat_length; reflexivity. Qed.
Lemma empty_true : forall l, empty l = true -> l = [].
Proof. intros [|x l] H; auto; discriminate. Qed.
Lemma empty_false : forall l, empty l = false -> 1 <= len l.
Proof. intros [|x l] H; try discriminate. rewrite len_cons; lia. Qed.
Lemma empty_len : forall l, empty l = (len l =? 0).
Proof. intros [|x l]; reflexivity. Qed.

#[export] Hint Rewrite len_nil len_cons len_app : lens.
Ltac lens := autorewrite with lens in *; try lia.

Lemma firstn_app_exact : forall (a b : bytes), firstn (N.to_nat (len a)) (a ++ b) = a.
Proof.
  intros. unfold len. rewrite Nat2N.id.
  rewrite firstn_app, Nat.sub_diag, firstn_all. cbn [firstn]. apply app_nil_r.
Qed.
Lemma skipn_app_exact : forall (a b : bytes), skipn (N.to_nat (len a)) (a ++ b) = b.
Proof.
  intros. unfold len. rewrite Nat2N.id.
  rewrite skipn_app, Nat.sub_diag, skipn_all. reflexivity.
Qed.

(* ================= bytes_ok ================= *)
Lemma bytes_ok_app : forall a b, bytes_ok (a ++ b) <-> bytes_ok a /\ bytes_ok b.
Proof. intros; unfold bytes_ok; apply Forall_app. Qed.
Lemma bytes_ok_cons : forall x l, bytes_ok (x :: l) <-> x < 256 /\ bytes_ok l.
Proof. intros; unfold bytes_ok; split; intros H. inversion H; auto. destruct H; constructor; auto. Qed.
Lemma bytes_ok_nil : bytes_ok []. Proof. constructor. Qed.
Lemma bytes_ok_firstn : forall n l, bytes_ok l -> bytes_ok (firstn n l).
Proof. intros n l H. rewrite <- (firstn_skipn n l) in H. apply bytes_ok_app in H. tauto. Qed.
Lemma bytes_ok_skipn : forall n l, bytes_ok l -> bytes_ok (skipn n l).
Proof. intros n l H. rewrite <- (firstn_skipn n l) in H. apply bytes_ok_app in H. tauto. Qed.
Lemma bytes_ok_repeat0 : forall n, bytes_ok (repeat 0 n).
Proof. induction n; cbn; constructor; auto; lia. Qed.
Lemma bytes_okb_ok : forall l, bytes_okb l = true <-> bytes_ok l.
Proof.
  unfold bytes_okb, bytes_ok; intros. rewrite forallb_forall, Forall_forall.
  split; intros H x Hx; specialize (H x Hx); lia.
Qed.

(* ================= big-endian numbers ================= *)
Lemma u8_ok : forall x, bytes_ok (u8 x).
Proof. intros; unfold u8; repeat constructor; lia. Qed.
Lemma u16_ok : forall x, bytes_ok (u16 x).
Proof. intros; unfold u16; repeat constructor; lia. Qed.
Lemma u24_ok : forall x, bytes_ok (u24 x).
Proof. intros; unfold u24; repeat constructor; lia. Qed.

Lemma u16_be16 : forall a b, a < 256 -> b < 256 -> u16 (be16 a b) = [a; b].
Proof. intros; unfold u16, be16; f_equal; [|f_equal]; lia. Qed.
Lemma u24_be24 : forall a b c, a < 256 -> b < 256 -> c < 256 -> u24 (be24 a b c) = [a; b; c].
Proof. intros; unfold u24, be24; f_equal; [|f_equal; [|f_equal]]; lia. Qed.
Lemma be16_lt : forall a b, a < 256 -> b < 256 -> be16 a b < 65536.
Proof. intros; unfold be16; lia. Qed.
Lemma be24_lt : forall a b c, a < 256 -> b < 256 -> c < 256 -> be24 a b c < 16777216.
Proof. intros; unfold be24; lia. Qed.
Lemma be16_u16 : forall x, x < 65536 -> be16 ((x / 256) mod 256) (x mod 256) = x.
Proof. intros; unfold be16; lia. Qed.
Lemma be24_u24 : forall x, x < 16777216 -> be24 ((x / 65536) mod 256) ((x / 256) mod 256) (x mod 256) = x.
Proof. intros; unfold be24; lia. Qed.
Lemma u32_small : forall x, x < 4294967296 -> u32 x = x.
Proof. intros; unfold u32; apply N.mod_small; auto. Qed.

(* ================= take ================= *)
Lemma take_app : forall n a b, len a = n -> take n (a ++ b) = Some (a, b).
Proof.
  intros n a b <-. unfold take.
  replace (len (a ++ b) <? len a) with false by (symmetry; apply N.ltb_ge; lens).
  rewrite firstn_app_exact, skipn_app_exact. reflexivity.
Qed.
Lemma take_inv : forall n s a b, take n s = Some (a, b) -> s = a ++ b /\ len a = n.
Proof.
  unfold take; intros n s a b H.
  destruct (len s <? n) eqn:E; try discriminate. apply N.ltb_ge in E.
  inversion H; subst. split. symmetry; apply firstn_skipn. apply len_firstn; auto.
Qed.
Lemma take_none : forall n s, take n s = None -> len s < n.
Proof. unfold take; intros n s H. destruct (len s <? n) eqn:E; try discriminate. apply N.ltb_lt; auto. Qed.

(* ================= scalar readers ================= *)
Lemma rd_u8_enc : forall x r, x < 256 -> rd_u8 (u8 x ++ r) = Some (x, r).
Proof. intros; unfold u8; cbn. rewrite N.mod_small; auto. Qed.
Lemma rd_u16_enc : forall x r, x < 65536 -> rd_u16 (u16 x ++ r) = Some (x, r).
Proof. intros; unfold u16; cbn [app rd_u16]. rewrite be16_u16 by auto. reflexivity. Qed.
Lemma rd_u24_enc : forall x r, x < 16777216 -> rd_u24 (u24 x ++ r) = Some (x, r).
Proof. intros; unfold u24; cbn [app rd_u24]. rewrite be24_u24 by auto. reflexivity. Qed.

Lemma rd_u8_inv : forall s x r, rd_u8 s = Some (x, r) -> bytes_ok s ->
  s = u8 x ++ r /\ x < 256 /\ bytes_ok r.
Proof.
  intros [|b t] x r H Hok; cbn in H; inversion H; subst.
  apply bytes_ok_cons in Hok as [Hb Ht]. unfold u8. rewrite N.mod_small by auto. auto.
Qed.
Lemma rd_u16_inv : forall s x r, rd_u16 s = Some (x, r) -> bytes_ok s ->
  s = u16 x ++ r /\ x < 65536 /\ bytes_ok r.
Proof.
  intros [|a [|b t]] x r H Hok; cbn in H; inversion H; subst.
  apply bytes_ok_cons in Hok as [Ha Hok]. apply bytes_ok_cons in Hok as [Hb Ht].
  rewrite u16_be16 by auto. split; auto. split; auto. apply be16_lt; auto.
Qed.
Lemma rd_u24_inv : forall s x r, rd_u24 s = Some (x, r) -> bytes_ok s ->
  s = u24 x ++ r /\ x < 16777216 /\ bytes_ok r.
Proof.
  intros [|a [|b [|c t]]] x r H Hok; cbn in H; inversion H; subst.
  apply bytes_ok_cons in Hok as [Ha Hok]. apply bytes_ok_cons in Hok as [Hb Hok].
  apply bytes_ok_cons in Hok as [Hc Ht].
  rewrite u24_be24 by auto. split; auto. split; auto. apply be24_lt; auto.
Qed.

(* ================= length-prefixed vectors ================= *)
Lemma rd_vec8_enc : forall l r, len l < 256 -> rd_vec8 (vec8 l ++ r) = Some (l, r).
Proof.
  intros; unfold rd_vec8, vec8. rewrite <- app_assoc, rd_u8_enc by auto. apply take_app; auto.
Qed.
Lemma rd_vec16_enc : forall l r, len l < 65536 -> rd_vec16 (vec16 l ++ r) = Some (l, r).
Proof.
  intros; unfold rd_vec16, vec16. rewrite <- app_assoc, rd_u16_enc by auto. apply take_app; auto.
Qed.
Lemma rd_vec24_enc : forall l r, len l < 16777216 -> rd_vec24 (vec24 l ++ r) = Some (l, r).
Proof.
  intros; unfold rd_vec24, vec24. rewrite <- app_assoc, rd_u24_enc by auto. apply take_app; auto.
Qed.

Lemma rd_vec8_inv : forall s l r, rd_vec8 s = Some (l, r) -> bytes_ok s ->
  s = vec8 l ++ r /\ len l < 256 /\ bytes_ok l /\ bytes_ok r.
Proof.
  unfold rd_vec8; intros s l r H Hok.
  destruct (rd_u8 s) as [[n t]|] eqn:E; try discriminate.
  apply rd_u8_inv in E as (-> & Hn & Ht); auto.
  apply take_inv in H as (-> & Hl). apply bytes_ok_app in Ht as [? ?].
  unfold vec8. rewrite Hl, <- app_assoc. repeat split; auto; try lia.
Qed.
Lemma rd_vec16_inv : forall s l r, rd_vec16 s = Some (l, r) -> bytes_ok s ->
  s = vec16 l ++ r /\ len l < 65536 /\ bytes_ok l /\ bytes_ok r.
Proof.
  unfold rd_vec16; intros s l r H Hok.
  destruct (rd_u16 s) as [[n t]|] eqn:E; try discriminate.
  apply rd_u16_inv in E as (-> & Hn & Ht); auto.
  apply take_inv in H as (-> & Hl). apply bytes_ok_app in Ht as [? ?].
  unfold vec16. rewrite Hl, <- app_assoc. repeat split; auto; try lia.
Qed.
Lemma rd_vec24_inv : forall s l r, rd_vec24 s = Some (l, r) -> bytes_ok s ->
  s = vec24 l ++ r /\ len l < 16777216 /\ bytes_ok l /\ bytes_ok r.
Proof.
  unfold rd_vec24; intros s l r H Hok.
  destruct (rd_u24 s) as [[n t]|] eqn:E; try discriminate.
  apply rd_u24_inv in E as (-> & Hn & Ht); auto.
  apply take_inv in H as (-> & Hl). apply bytes_ok_app in Ht as [? ?].
  unfold vec24. rewrite Hl, <- app_assoc. repeat split; auto; try lia.
Qed.

Lemma vec8_ok : forall l, bytes_ok l -> bytes_ok (vec8 l).
Proof. intros; unfold vec8; apply bytes_ok_app; split; auto using u8_ok. Qed.
Lemma vec16_ok : forall l, bytes_ok l -> bytes_ok (vec16 l).
Proof. intros; unfold vec16; apply bytes_ok_app; split; auto using u16_ok. Qed.
Lemma vec24_ok : forall l, bytes_ok l -> bytes_ok (vec24 l).
Proof. intros; unfold vec24; apply bytes_ok_app; split; auto using u24_ok. Qed.
Lemma len_vec8 : forall l, len (vec8 l) = 1 + len l. Proof. intros; unfold vec8, u8; lens. Qed.
Lemma len_vec16 : forall l, len (vec16 l) = 2 + len l. Proof. intros; unfold vec16, u16; lens. Qed.
Lemma len_vec24 : forall l, len (vec24 l) = 3 + len l. Proof. intros; unfold vec24, u24; lens. Qed.
Lemma len_u16 : forall x, len (u16 x) = 2. Proof. reflexivity. Qed.
Lemma len_u24 : forall x, len (u24 x) = 3. Proof. reflexivity. Qed.
Lemma len_u8 : forall x, len (u8 x) = 1. Proof. reflexivity. Qed.
#[export] Hint Rewrite len_vec8 len_vec16 len_vec24 len_u8 len_u16 len_u24 : lens.

(* ================= lists of 16-bit values ================= *)
Lemma rd_u16s_enc : forall l, Forall (fun x => x < 65536) l -> rd_u16s (u16s l) = Some l.
Proof.
  induction l as [|x l IH]; intros H; auto.
  inversion H; subst. unfold u16s in *. cbn [flat_map]. unfold u16 at 1. cbn [app rd_u16s].
  rewrite IH by auto. rewrite be16_u16 by auto. reflexivity.
Qed.
Lemma rd_u16s_inv : forall fuel s l, (length s <= fuel)%nat -> rd_u16s s = Some l -> bytes_ok s ->
  u16s l = s /\ Forall (fun x => x < 65536) l /\ len s = 2 * len l.
Proof.
  induction fuel as [|k IH]; intros s l Hf H Hok.
  - destruct s; cbn in Hf; try lia. inversion H; subst. repeat split; auto.
  - destruct s as [|a [|b t]]; cbn in H; try discriminate.
    + inversion H; subst. repeat split; auto.
    + destruct (rd_u16s t) as [r|] eqn:E; try discriminate. inversion H; subst.
      apply bytes_ok_cons in Hok as [Ha Hok]. apply bytes_ok_cons in Hok as [Hb Ht].
      apply IH in E as (E1 & E2 & E3); auto; [|cbn in Hf; lia].
      unfold u16s in *. cbn [flat_map]. rewrite u16_be16, E1 by auto.
      repeat split; auto. constructor; auto. apply be16_lt; auto. lens.
Qed.
Lemma u16s_ok : forall l, bytes_ok (u16s l).
Proof.
  induction l; unfold u16s in *; cbn [flat_map]. constructor.
  apply bytes_ok_app; split; auto using u16_ok.
Qed.
Lemma len_u16s : forall l, len (u16s l) = 2 * len l.
Proof. induction l; unfold u16s in *; cbn [flat_map]; lens. Qed.
#[export] Hint Rewrite len_u16s : lens.
Lemma u16s_nil_inv : forall l, u16s l = [] -> l = [].
Proof. intros [|x l]; auto. unfold u16s, u16; cbn. discriminate. Qed.

(* ================= Go indexing / slicing ================= *)
Lemma idx_nth : forall s i st, i < len s -> idx s i st = Ok (nth (N.to_nat i) s 0).
Proof. intros; unfold idx. replace (len s <=? i) with false; auto. symmetry; apply N.leb_gt; auto. Qed.
Lemma idx_not_panic : forall s i st st', i < len s -> idx s i st <> Panic st'.
Proof. intros; rewrite idx_nth by auto; discriminate. Qed.
Lemma from_app : forall a b i st, len a = i -> from (a ++ b) i st = Ok b.
Proof.
  intros a b i st <-. unfold from.
  replace (len (a ++ b) <? len a) with false by (symmetry; apply N.ltb_ge; lens).
  rewrite skipn_app_exact; reflexivity.
Qed.
Lemma from_ok : forall s i st, i <= len s -> from s i st = Ok (skipn (N.to_nat i) s).
Proof. intros; unfold from. replace (len s <? i) with false; auto. symmetry; apply N.ltb_ge; auto. Qed.
Lemma sub_ok : forall s i j st, i <= j -> j <= len s ->
  sub s i j st = Ok (firstn (N.to_nat (j - i)) (skipn (N.to_nat i) s)).
Proof.
  intros; unfold sub.
  replace (j <? i) with false by (symmetry; apply N.ltb_ge; auto).
  replace (len s <? j) with false by (symmetry; apply N.ltb_ge; auto). reflexivity.
Qed.

Lemma from_4 : forall a b c d r st, from (a :: b :: c :: d :: r) 4 st = Ok r.
Proof. intros; apply (from_app [a; b; c; d] r); reflexivity. Qed.
Lemma take_4 : forall a b c d r, take 4 (a :: b :: c :: d :: r) = Some ([a; b; c; d], r).
Proof. intros; apply (take_app 4 [a; b; c; d] r); reflexivity. Qed.
Lemma from_12 : forall a0 a1 a2 a3 a4 a5 a6 a7 a8 a9 a10 a11 r st,
  from (a0 :: a1 :: a2 :: a3 :: a4 :: a5 :: a6 :: a7 :: a8 :: a9 :: a10 :: a11 :: r) 12 st = Ok r.
Proof. intros; apply (from_app [a0; a1; a2; a3; a4; a5; a6; a7; a8; a9; a10; a11] r); reflexivity. Qed.

(* a list with at least n elements, opened *)
Lemma open4 : forall s : bytes, 4 <= len s -> exists a b c d r, s = a :: b :: c :: d :: r.
Proof. intros [|a [|b [|c [|d r]]]] H; repeat rewrite len_cons in H; rewrite ?len_nil in H; try lia. eauto 6. Qed.
Lemma open3 : forall s : bytes, 3 <= len s -> exists a b c r, s = a :: b :: c :: r.
Proof. intros [|a [|b [|c r]]] H; repeat rewrite len_cons in H; rewrite ?len_nil in H; try lia. eauto 6. Qed.
Lemma open2 : forall s : bytes, 2 <= len s -> exists a b r, s = a :: b :: r.
Proof. intros [|a [|b r]] H; repeat rewrite len_cons in H; rewrite ?len_nil in H; try lia. eauto 6. Qed.
Lemma open12 : forall s : bytes, 12 <= len s ->
  exists a0 a1 a2 a3 a4 a5 a6 a7 a8 a9 a10 a11 r,
    s = a0 :: a1 :: a2 :: a3 :: a4 :: a5 :: a6 :: a7 :: a8 :: a9 :: a10 :: a11 :: r.
Proof.
  intros s H.
  destruct (open4 s) as (a0 & a1 & a2 & a3 & r & ->); [lia|]. repeat rewrite len_cons in H.
  destruct (open4 r) as (a4 & a5 & a6 & a7 & r' & ->); [lia|]. repeat rewrite len_cons in H.
  destruct (open4 r') as (a8 & a9 & a10 & a11 & r'' & ->); [lia|].
  do 13 eexists; reflexivity.
Qed.

(* ================= the independent cut = the cryptobyte readers ================= *)
Lemma cut1_vec8 : forall s, cut 1 s = rd_vec8 s.
Proof. intros [|a t]; auto. Qed.
Lemma cut2_vec16 : forall s, cut 2 s = rd_vec16 s.
Proof. intros [|a [|b t]]; auto. Qed.
Lemma cut3_vec24 : forall s, cut 3 s = rd_vec24 s.
Proof.
  intros [|a [|b [|c t]]]; auto. unfold cut, rd_vec24. cbn [be rd_u24].
  replace (((0 * 256 + a) * 256 + b) * 256 + c) with (be24 a b c) by (unfold be24; lia). reflexivity.
Qed.

(* ================= extension blocks ================= *)
Lemma enc_exts_cons : forall e l, enc_exts (e :: l) = enc_ext e ++ enc_exts l.
Proof. reflexivity. Qed.
Lemma len_enc_ext : forall e, len (enc_ext e) = 4 + len (snd e).
Proof. intros [t d]; unfold enc_ext; cbn [fst snd]; lens. Qed.

Lemma tlv16_step : forall k s, s <> [] ->
  tlv16 (S k) s = match rd_u16 s with
                  | Some (t, s1) => match rd_vec16 s1 with
                                    | Some (d, s2) => match tlv16 k s2 with Some r => Some ((t, d) :: r) | None => None end
                                    | None => None
                                    end
                  | None => None
                  end.
Proof. intros k [|a s] H; [congruence | reflexivity]. Qed.

Lemma tlv16_enc : forall l fuel,
  Forall (fun e => fst e < 65536 /\ len (snd e) < 65536) l ->
  (length (enc_exts l) <= fuel)%nat ->
  tlv16 fuel (enc_exts l) = Some l.
Proof.
  induction l as [|[t d] l IH]; intros fuel H Hf.
  - destruct fuel; reflexivity.
  - inversion H as [|? ? [Ht Hd] Hl]; subst. cbn [fst snd] in *.
    rewrite enc_exts_cons in *. unfold enc_ext in *. cbn [fst snd] in *.
    rewrite !app_length in Hf. change (length (u16 t)) with 2%nat in Hf.
    destruct fuel as [|k]; [lia|].
    rewrite tlv16_step by (unfold u16; cbn; discriminate).
    rewrite <- !app_assoc. rewrite rd_u16_enc by auto. rewrite rd_vec16_enc by auto.
    rewrite IH; auto. lia.
Qed.

Lemma exts_split_enc : forall l,
  Forall (fun e => fst e < 65536 /\ len (snd e) < 65536) l -> exts_split (enc_exts l) = Some l.
Proof. intros; unfold exts_split; apply tlv16_enc; auto. Qed.

Lemma tlv16_inv : forall fuel s l, tlv16 fuel s = Some l -> bytes_ok s ->
  enc_exts l = s /\ Forall (fun e => fst e < 65536 /\ len (snd e) < 65536 /\ bytes_ok (snd e)) l.
Proof.
  induction fuel as [|k IH]; intros s l H Hok.
  - destruct s; cbn in H; try discriminate. inversion H; subst. split; auto.
  - destruct s as [|a s']. { cbn in H. inversion H; subst. split; auto. }
    rewrite tlv16_step in H by discriminate. remember (a :: s') as s eqn:Es. clear Es.
    destruct (rd_u16 s) as [[t s1]|] eqn:E1; try discriminate.
    destruct (rd_vec16 s1) as [[d s2]|] eqn:E2; try discriminate.
    destruct (tlv16 k s2) as [r|] eqn:E3; try discriminate. inversion H; subst l.
    apply rd_u16_inv in E1 as (-> & Ht & Hs1); auto.
    apply rd_vec16_inv in E2 as (-> & Hd & Hdo & Hs2); auto.
    apply IH in E3 as (<- & Hr); [|assumption].
    split; [reflexivity | constructor; auto].
Qed.

(* fold_opt over a concatenation *)
Lemma fold_opt_app : forall S E (f : S -> E -> option S) l1 l2 st,
  fold_opt f st (l1 ++ l2) = match fold_opt f st l1 with Some st' => fold_opt f st' l2 | None => None end.
Proof.
  induction l1 as [|e l1 IH]; intros; cbn [app fold_opt]; auto.
  destruct (f st e); auto.
Qed.

(* indexing / slicing past a known prefix *)
Lemma idx_app_r : forall a b j st, idx (a ++ b) (len a + j) st = idx b j st.
Proof.
  intros. unfold idx. rewrite len_app.
  replace (len a + len b <=? len a + j) with (len b <=? j)
    by (destruct (len b <=? j) eqn:E; symmetry; [apply N.leb_le; apply N.leb_le in E | apply N.leb_gt; apply N.leb_gt in E]; lia).
  destruct (len b <=? j) eqn:E; auto. f_equal.
  replace (N.to_nat (len a + j)) with (length a + N.to_nat j)%nat by (unfold len; lia).
  rewrite app_nth2_plus. reflexivity.
Qed.
Lemma from_app_r : forall a b j st, from (a ++ b) (len a + j) st = from b j st.
Proof.
  intros. unfold from. rewrite len_app.
  replace (len a + len b <? len a + j) with (len b <? j)
    by (destruct (len b <? j) eqn:E; symmetry; [apply N.ltb_lt; apply N.ltb_lt in E | apply N.ltb_ge; apply N.ltb_ge in E]; lia).
  destruct (len b <? j) eqn:E; auto. f_equal.
  replace (N.to_nat (len a + j)) with (length a + N.to_nat j)%nat by (unfold len; lia).
  rewrite skipn_app. rewrite skipn_all2 by lia. replace (length a + N.to_nat j - length a)%nat with (N.to_nat j) by lia.
  reflexivity.
Qed.
Lemma to_nat_3_plus : forall n, N.to_nat (3 + n) = S (S (S (N.to_nat n))).
Proof. intros; lia. Qed.
Lemma to_nat_2_plus : forall n, N.to_nat (2 + n) = S (S (N.to_nat n)).
Proof. intros; lia. Qed.
