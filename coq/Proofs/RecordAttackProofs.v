(* Proofs about Model/RecordAttack.v. Statements are fixed; fill in the proofs. *)
From V Require Import Model.RecordAttack.

Fixpoint is_prefix (a b : list byte) : bool :=
  match a, b with
  | [], _ => true
  | x :: a', y :: b' => N.eqb x y && is_prefix a' b'
  | _, _ => false
  end.

Definition app_data (gs : list grec) : list byte :=
  flat_map (fun g => match g_content g with CApp d => d | _ => [] end) gs.

(* a genuine record is framed as the sender frames it: 5-byte header, version 0x0101, the length
   field equal to the number of bytes that follow, within the record size limit *)
Definition wf_grec (g : grec) : Prop :=
  exists t body,
    g_wire g = t :: 1%N :: 1%N :: N.of_nat (length body / 256) :: N.of_nat (length body mod 256) :: body /\
    length body <= max_ciphertext.

(* ------------------------------------------------------------------ helpers *)
Lemma bytes_eqb_refl : forall a, bytes_eqb a a = true.
Proof. induction a as [|x a IH]; simpl; [reflexivity|]. rewrite N.eqb_refl, IH. reflexivity. Qed.

Lemma bytes_eqb_eq : forall a b, bytes_eqb a b = true -> a = b.
Proof.
  induction a as [|x a IH]; intros [|y b] H; simpl in H; try discriminate; [reflexivity|].
  apply andb_true_iff in H. destruct H as [H1 H2].
  apply N.eqb_eq in H1. apply IH in H2. congruence.
Qed.

Lemma is_prefix_nil : forall b, is_prefix [] b = true.
Proof. reflexivity. Qed.

Lemma is_prefix_app : forall a b c, is_prefix (a ++ b) (a ++ c) = is_prefix b c.
Proof. induction a as [|x a IH]; intros b c; simpl; [reflexivity|]. rewrite N.eqb_refl, IH. reflexivity. Qed.

Lemma is_prefix_self_app : forall a c, is_prefix a (a ++ c) = true.
Proof. intros a c. rewrite <- (app_nil_r a) at 1. rewrite is_prefix_app. reflexivity. Qed.

Lemma skipn_nth_error : forall (A : Type) (l : list A) n x,
  nth_error l n = Some x -> skipn n l = x :: skipn (S n) l.
Proof.
  intros A l. induction l as [|y l IH]; intros n x H.
  - destruct n; discriminate.
  - destruct n as [|n].
    + simpl in H. inversion H. reflexivity.
    + simpl in H. apply IH in H. exact H.
Qed.

Definition payload (g : grec) : list byte :=
  match g_content g with CApp d => d | _ => [] end.

Lemma app_data_cons : forall g l, app_data (g :: l) = payload g ++ app_data l.
Proof. reflexivity. Qed.

Lemma len_field : forall l,
  N.to_nat (N.of_nat (l / 256) * 256 + N.of_nat (l mod 256))%N = l.
Proof.
  intros l. rewrite N2Nat.inj_add, N2Nat.inj_mul, !Nat2N.id.
  change (N.to_nat 256%N) with 256.
  assert (H256 : 256 <> 0) by lia.
  pose proof (Nat.div_mod l 256 H256) as H.
  revert H. generalize (l / 256) as q. generalize (l mod 256) as r. intros r q H. lia.
Qed.

(* forward: the expected genuine record is accepted *)
Lemma read_record_genuine : forall gs seq g rest,
  wf_grec g -> nth_error gs seq = Some g ->
  read_record gs seq (g_wire g ++ rest) = (rest, inl (g_content g)).
Proof.
  intros gs seq g rest Hwf Hnth.
  destruct Hwf as (t & body & Hw & Hlen).
  remember (length body) as l eqn:Hl.
  assert (Hwl : length (g_wire g) = 5 + l) by (rewrite Hw, Hl; reflexivity).
  remember (g_wire g ++ rest) as st eqn:Hst.
  assert (Hlen2 : length st = 5 + l + length rest) by (rewrite Hst, app_length; lia).
  assert (Hv : (nth 1 st 0 * 256 + nth 2 st 0 =? 257)%N = true) by (rewrite Hst, Hw; reflexivity).
  assert (Hn : N.to_nat (nth 3 st 0 * 256 + nth 4 st 0)%N = l).
  { rewrite Hst, Hw. cbn [app nth]. apply len_field. }
  unfold read_record.
  destruct st as [|b s]; [cbn [length] in Hlen2; lia|].
  cbv beta iota.
  remember (b :: s) as st eqn:Hst'. clear Hst' b s.
  cbv zeta. rewrite Hn, Hv. cbn [negb].
  destruct (Nat.ltb_spec (length st) 5) as [Hc|_]; [lia|].
  destruct (Nat.ltb_spec max_ciphertext l) as [Hc|_]; [lia|].
  destruct (Nat.ltb_spec (length st) (5 + l)) as [Hc|_]; [lia|].
  rewrite Hnth, Hst.
  rewrite firstn_app, <- Hwl, firstn_all, Nat.sub_diag, firstn_O, app_nil_r.
  rewrite bytes_eqb_refl.
  rewrite skipn_app, skipn_all, Nat.sub_diag. reflexivity.
Qed.

(* converse: an accepted record is the expected genuine one, intact *)
Lemma read_record_inl : forall gs seq stream rest c,
  read_record gs seq stream = (rest, inl c) ->
  exists g, nth_error gs seq = Some g /\ c = g_content g /\ stream = g_wire g ++ rest.
Proof.
  intros gs seq stream rest c H.
  unfold read_record in H.
  destruct stream as [|b s]; [discriminate|].
  cbv beta iota in H.
  remember (b :: s) as st eqn:Hst. clear Hst.
  destruct (Nat.ltb (length st) 5); [discriminate|].
  cbv zeta in H.
  destruct (negb _); [discriminate|].
  destruct (Nat.ltb max_ciphertext _); [discriminate|].
  destruct (Nat.ltb (length st) _); [discriminate|].
  destruct (nth_error gs seq) as [g|]; [|discriminate].
  destruct (bytes_eqb _ (g_wire g)) eqn:Heq; [|discriminate].
  apply bytes_eqb_eq in Heq.
  inversion H; subst. exists g. split; [reflexivity|]. split; [reflexivity|].
  rewrite <- Heq. symmetry. apply firstn_skipn.
Qed.

(* an ending produced by read_record itself *)
Lemma read_record_inr : forall gs seq stream rest e,
  read_record gs seq stream = (rest, inr e) ->
  e <> EndOutOfFuel /\ (stream <> [] -> e <> EndEOF).
Proof.
  intros gs seq stream rest e H.
  unfold read_record in H.
  destruct stream as [|b s].
  - inversion H; subst. split; [discriminate|]. intros Hc; contradiction Hc; reflexivity.
  - cbv beta iota in H.
    remember (b :: s) as st eqn:Hst. clear Hst.
    assert (G : e <> EndOutOfFuel /\ e <> EndEOF); [|tauto].
    destruct (Nat.ltb (length st) 5); [inversion H; subst; split; discriminate|].
    cbv zeta in H.
    destruct (negb _); [inversion H; subst; split; discriminate|].
    destruct (Nat.ltb max_ciphertext _); [inversion H; subst; split; discriminate|].
    destruct (Nat.ltb (length st) _); [inversion H; subst; split; discriminate|].
    destruct (nth_error gs seq) as [g|]; [|inversion H; subst; split; discriminate].
    destruct (bytes_eqb _ (g_wire g)); inversion H; subst; split; discriminate.
Qed.

(* T1 generalised *)
Lemma receive_prefix : forall fuel gs seq retry stream d e,
  seq <= length gs ->
  receive fuel gs seq retry stream = (d, e) ->
  exists k, seq + k <= length gs /\
    is_prefix (concat (map g_wire (firstn k (skipn seq gs)))) stream = true /\
    d = app_data (firstn k (skipn seq gs)).
Proof.
  induction fuel as [|fuel IH]; intros gs seq retry stream d e Hseq Hrec.
  - cbn [receive] in Hrec. inversion Hrec; subst.
    exists 0. split; [lia|]. split; reflexivity.
  - assert (Hzero : d = [] -> exists k, seq + k <= length gs /\
        is_prefix (concat (map g_wire (firstn k (skipn seq gs)))) stream = true /\
        d = app_data (firstn k (skipn seq gs))).
    { intros ->. exists 0. split; [lia|]. split; reflexivity. }
    cbn [receive] in Hrec.
    destruct (read_record gs seq stream) as [rest [c|e']] eqn:Hrr.
    2:{ inversion Hrec; subst. apply Hzero; reflexivity. }
    apply read_record_inl in Hrr. destruct Hrr as (g & Hnth & Hc & Hs).
    assert (Hlt : seq < length gs) by (apply nth_error_Some; congruence).
    pose proof (skipn_nth_error _ _ _ _ Hnth) as Hsk.
    assert (Hstep : forall d', 
        (exists k, S seq + k <= length gs /\
          is_prefix (concat (map g_wire (firstn k (skipn (S seq) gs)))) rest = true /\
          d' = app_data (firstn k (skipn (S seq) gs))) ->
        d = payload g ++ d' ->
        exists k, seq + k <= length gs /\
          is_prefix (concat (map g_wire (firstn k (skipn seq gs)))) stream = true /\
          d = app_data (firstn k (skipn seq gs))).
    { intros d' (k & Hk & Hp & Hd) Hdd. exists (S k). split; [lia|].
      rewrite Hsk. cbn [firstn map concat]. rewrite Hs, is_prefix_app, app_data_cons.
      split; [exact Hp|]. rewrite Hdd, Hd. reflexivity. }
    destruct c as [[|x xs]| | | | |].
    + destruct (Nat.ltb max_useless (S retry)).
      * inversion Hrec; subst. apply Hzero; reflexivity.
      * apply (Hstep d).
        -- eapply IH; [lia|exact Hrec].
        -- unfold payload. rewrite <- Hc. reflexivity.
    + destruct (receive fuel gs (S seq) 0 rest) as [more e''] eqn:Hr.
      inversion Hrec; subst. apply (Hstep more).
      * eapply IH; [lia|exact Hr].
      * unfold payload. rewrite <- Hc. reflexivity.
    + destruct (Nat.ltb max_useless (S retry)).
      * inversion Hrec; subst. apply Hzero; reflexivity.
      * apply (Hstep d).
        -- eapply IH; [lia|exact Hrec].
        -- unfold payload. rewrite <- Hc. reflexivity.
    + inversion Hrec; subst. apply Hzero; reflexivity.
    + inversion Hrec; subst. apply Hzero; reflexivity.
    + inversion Hrec; subst. apply Hzero; reflexivity.
    + inversion Hrec; subst. apply Hzero; reflexivity.
Qed.

Definition nonempty_app (g : grec) : Prop := exists x xs, g_content g = CApp (x :: xs).

(* k intact non-empty application records are all accepted and delivered *)
Lemma receive_run : forall k fuel gs seq retry junk,
  Forall wf_grec gs ->
  seq + k <= length gs ->
  Forall nonempty_app (firstn k (skipn seq gs)) ->
  exists retry',
    receive (k + fuel) gs seq retry (concat (map g_wire (firstn k (skipn seq gs))) ++ junk) =
    (app_data (firstn k (skipn seq gs)) ++ fst (receive fuel gs (seq + k) retry' junk),
     snd (receive fuel gs (seq + k) retry' junk)).
Proof.
  induction k as [|k IH]; intros fuel gs seq retry junk Hwf Hk Hne.
  - exists retry. cbn [firstn map concat app_data flat_map app Nat.add].
    rewrite Nat.add_0_r. destruct (receive fuel gs seq retry junk); reflexivity.
  - destruct (nth_error gs seq) as [g|] eqn:Hnth.
    2:{ apply nth_error_None in Hnth. lia. }
    pose proof (skipn_nth_error _ _ _ _ Hnth) as Hsk.
    rewrite Hsk in Hne |- *. cbn [firstn map concat] in Hne |- *.
    inversion Hne as [|g' l' Hg Hne']; subst.
    destruct Hg as (x & xs & Hc).
    assert (Hwg : wf_grec g).
    { rewrite Forall_forall in Hwf. apply Hwf. eapply nth_error_In; exact Hnth. }
    destruct (IH fuel gs (S seq) 0 junk Hwf ltac:(lia) Hne') as (retry' & Hrun).
    exists retry'.
    cbn [Nat.add receive]. rewrite <- app_assoc.
    rewrite (read_record_genuine gs seq g _ Hwg Hnth).
    rewrite Hc. rewrite Hrun. cbn [fst snd].
    rewrite app_data_cons. unfold payload. rewrite Hc.
    replace (seq + S k) with (S seq + k) by lia.
    rewrite <- app_assoc. reflexivity.
Qed.

Lemma wire_length_ge : forall l, Forall wf_grec l -> length l <= length (concat (map g_wire l)).
Proof.
  induction l as [|g l IH]; intros H; [simpl; lia|].
  inversion H as [|g' l' Hg Hl]; subst. cbn [map concat length]. rewrite app_length.
  destruct Hg as (t & body & Hw & _). rewrite Hw. cbn [length]. specialize (IH Hl). lia.
Qed.

Lemma Forall_firstn_ : forall (A : Type) (P : A -> Prop) n (l : list A),
  Forall P l -> Forall P (firstn n l).
Proof.
  intros A P n. induction n as [|n IH]; intros l H; [constructor|].
  destruct l as [|x l]; [constructor|]. inversion H; subst. cbn [firstn]. constructor; auto.
Qed.

(* T1 whatever byte stream the attacker delivers, the application reads exactly the application
   payloads of some number k of the sender's first records, and those k records sit intact and in
   order at the start of the stream: no byte of anything else is ever delivered *)
Theorem delivered_is_genuine_prefix : forall gs stream d e,
  Forall wf_grec gs ->
  receive_all gs stream = (d, e) ->
  exists k, k <= length gs /\
    is_prefix (concat (map g_wire (firstn k gs))) stream = true /\
    d = app_data (firstn k gs).
Proof.
  intros gs stream d e _ H. unfold receive_all in H.
  apply receive_prefix in H; [|lia].
  destruct H as (k & Hk & Hp & Hd). cbn [skipn Nat.add] in *.
  exists k. auto.
Qed.

(* T2 the prefix ends at the first record that is not the expected genuine one: if the stream is
   k intact application records followed by junk that does not start with record k, the
   application reads exactly those k payloads and then an error (never a clean end of stream
   unless the junk is empty) *)
Theorem first_damage_stops : forall gs k junk d e,
  Forall wf_grec gs -> k <= length gs ->
  Forall (fun g => exists x xs, g_content g = CApp (x :: xs)) (firstn k gs) ->
  (forall g, nth_error gs k = Some g -> is_prefix (g_wire g) junk = false) ->
  receive_all gs (concat (map g_wire (firstn k gs)) ++ junk) = (d, e) ->
  d = app_data (firstn k gs) /\ (junk <> [] -> e <> EndEOF) /\ e <> EndOutOfFuel.
Proof.
  intros gs k junk d e Hwf Hk Hne Hjunk H. unfold receive_all in H.
  set (stream := concat (map g_wire (firstn k gs)) ++ junk) in *.
  assert (Hlen : k <= length stream).
  { unfold stream. rewrite app_length.
    pose proof (wire_length_ge (firstn k gs) (Forall_firstn_ _ _ k gs Hwf)) as Hw.
    rewrite firstn_length_le in Hw by exact Hk. lia. }
  remember (length stream) as n eqn:Hn. clear Hn.
  replace (S n) with (k + S (n - k)) in H by lia.
  destruct (receive_run k (S (n - k)) gs 0 0 junk Hwf ltac:(lia) Hne) as (retry' & Hrun).
  cbn [skipn Nat.add] in Hrun. unfold stream in H. rewrite Hrun in H. clear Hrun.
  cbn [receive] in H.
  destruct (read_record gs k junk) as [rest [c|e']] eqn:Hrr.
  - exfalso. apply read_record_inl in Hrr. destruct Hrr as (g & Hnth & _ & Hs).
    specialize (Hjunk g Hnth). rewrite Hs, is_prefix_self_app in Hjunk. discriminate.
  - cbn [fst snd] in H. inversion H; subst.
    apply read_record_inr in Hrr. destruct Hrr as [H1 H2].
    split; [rewrite app_nil_r; reflexivity|]. split; assumption.
Qed.

(* T3 with an unmodified stream everything is delivered and the close_notify gives a clean EOF *)
Theorem untouched_stream_delivers_all : forall gs,
  Forall wf_grec gs ->
  Forall (fun g => exists x xs, g_content g = CApp (x :: xs)) gs ->
  receive_all (gs ++ [mkG [21; 1; 1; 0; 2; 1; 0]%N CClose]) (concat (map g_wire gs) ++ [21; 1; 1; 0; 2; 1; 0]%N)
  = (app_data gs, EndEOF).
Proof.
  intros gs Hwf Hne. unfold receive_all.
  set (cw := [21; 1; 1; 0; 2; 1; 0]%N).
  set (c := mkG cw CClose).
  set (gs' := gs ++ [c]).
  set (stream := concat (map g_wire gs) ++ cw).
  assert (Hwc : wf_grec c).
  { exists 21%N, [1; 0]%N. split; [reflexivity|]. apply Nat.leb_le. vm_compute. reflexivity. }
  assert (Hwf' : Forall wf_grec gs').
  { unfold gs'. apply Forall_app. split; [exact Hwf|]. constructor; [exact Hwc|constructor]. }
  assert (Hfirst : firstn (length gs) gs' = gs).
  { unfold gs'. rewrite firstn_app, firstn_all, Nat.sub_diag. cbn [firstn]. apply app_nil_r. }
  assert (Hlen : length gs <= length stream).
  { unfold stream. rewrite app_length. pose proof (wire_length_ge gs Hwf). lia. }
  remember (length stream) as n eqn:Hn. clear Hn.
  replace (S n) with (length gs + S (n - length gs)) by lia.
  assert (Hne' : Forall nonempty_app (firstn (length gs) (skipn 0 gs'))).
  { cbn [skipn]. rewrite Hfirst. exact Hne. }
  destruct (receive_run (length gs) (S (n - length gs)) gs' 0 0 cw Hwf'
              ltac:(unfold gs'; rewrite app_length; cbn [length]; lia) Hne') as (retry' & Hrun).
  cbn [skipn Nat.add] in Hrun. rewrite Hfirst in Hrun. unfold stream. rewrite Hrun. clear Hrun.
  cbn [receive].
  assert (Hnth : nth_error gs' (length gs) = Some c).
  { unfold gs'. rewrite nth_error_app2 by lia. rewrite Nat.sub_diag. reflexivity. }
  pose proof (read_record_genuine gs' (length gs) c [] Hwc Hnth) as Hrr.
  cbn [g_wire c] in Hrr. rewrite app_nil_r in Hrr. rewrite Hrr.
  cbn [g_content c fst snd]. rewrite app_nil_r. reflexivity.
Qed.

Lemma read_call_latches : forall st n st' bs e,
  read_call st n = (st', (bs, Some e)) -> rs_err st' = Some e /\ bs = [].
Proof.
  intros st n st' bs e H. unfold read_call in H.
  destruct (rs_err st) as [e0|] eqn:He.
  - inversion H; subst. split; [exact He|reflexivity].
  - destruct (rs_pending st) as [[|x d] e0].
    + inversion H; subst. split; reflexivity.
    + destruct (Nat.eqb n 0); inversion H.
Qed.

Lemma latched_stays : forall ns st e j bs' r,
  rs_err st = Some e ->
  nth_error (read_calls st ns) j = Some (bs', r) -> bs' = [] /\ r = Some e.
Proof.
  induction ns as [|n ns IH]; intros st e j bs' r He H.
  - destruct j; discriminate.
  - cbn [read_calls] in H. unfold read_call in H. rewrite He in H.
    destruct j as [|j].
    + cbn [nth_error] in H. inversion H; subst. split; reflexivity.
    + cbn [nth_error] in H. eapply IH; eassumption.
Qed.

(* T4 the error is latched: once a Read call reported an ending, every later Read reports the same
   ending and delivers nothing *)
Theorem error_is_latched : forall st ns i j e bs bs' r,
  nth_error (read_calls st ns) i = Some (bs, Some e) -> i <= j ->
  nth_error (read_calls st ns) j = Some (bs', r) ->
  bs' = [] /\ r = Some e.
Proof.
  intros st ns. revert st.
  induction ns as [|n ns IH]; intros st i j e bs bs' r Hi Hij Hj.
  - destruct i; discriminate.
  - cbn [read_calls] in Hi, Hj.
    destruct (read_call st n) as [st' res] eqn:Hrc.
    destruct i as [|i].
    + cbn [nth_error] in Hi. inversion Hi; subst res.
      apply read_call_latches in Hrc. destruct Hrc as [He Hbs].
      destruct j as [|j].
      * cbn [nth_error] in Hj. inversion Hj; subst. split; reflexivity.
      * cbn [nth_error] in Hj. eapply latched_stays; eassumption.
    + destruct j as [|j]; [lia|].
      cbn [nth_error] in Hi, Hj. eapply IH; [exact Hi| |exact Hj]. lia.
Qed.

Lemma reads_deliver_prefix_gen : forall ns st,
  exists rest, concat (map fst (read_calls st ns)) ++ rest = fst (rs_pending st).
Proof.
  induction ns as [|n ns IH]; intros st.
  - exists (fst (rs_pending st)). reflexivity.
  - cbn [read_calls]. unfold read_call.
    destruct (rs_err st) as [e0|] eqn:He.
    + destruct (IH st) as (rest & Hr). exists rest. cbn [map fst concat app]. exact Hr.
    + destruct (rs_pending st) as [[|x d] e0] eqn:Hp.
      * destruct (IH (mkRS (Some e0) ([], e0))) as (rest & Hr). exists rest.
        cbn [map fst concat app]. exact Hr.
      * destruct (Nat.eqb n 0).
        -- destruct (IH st) as (rest & Hr). exists rest. cbn [map fst concat app].
           rewrite Hr, Hp. reflexivity.
        -- destruct (IH (mkRS None (skipn n (x :: d), e0))) as (rest & Hr). exists rest.
           cbn [map fst concat]. cbn [rs_pending fst] in Hr.
           rewrite <- app_assoc, Hr. apply firstn_skipn.
Qed.

(* T5 the Read calls hand out exactly the delivered bytes, in order, before the ending *)
Theorem reads_deliver_prefix : forall d e ns,
  exists rest, concat (map fst (read_calls (mkRS None (d, e)) ns)) ++ rest = d.
Proof.
  intros d e ns. destruct (reads_deliver_prefix_gen ns (mkRS None (d, e))) as (rest & Hr).
  exists rest. exact Hr.
Qed.

(* T6 CBC: every way a record can fail to open is answered with the same alert, bad_record_mac *)
Theorem cbc_single_alert : forall dec mac hdr payload,
  (exists pt, cbc_open dec mac hdr payload = Opened pt) \/ cbc_open dec mac hdr payload = Refused 20.
Proof.
  intros dec mac hdr payload. unfold cbc_open.
  destruct (negb _ || _); [right; reflexivity|].
  destruct (rev _) as [|p l]; [right; reflexivity|].
  cbv zeta.
  destruct (Nat.ltb _ _); [right; reflexivity|].
  destruct (_ && bytes_eqb _ _); [left; eexists; reflexivity|right; reflexivity].
Qed.

Print Assumptions delivered_is_genuine_prefix.
Print Assumptions first_damage_stops.
Print Assumptions untouched_stream_delivers_all.
Print Assumptions error_is_latched.
Print Assumptions reads_deliver_prefix.
Print Assumptions cbc_single_alert.
