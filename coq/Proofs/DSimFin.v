(* An endpoint completes only after a datagram carrying the peer's Finished has been handed
   to it: for every script and every number of steps *)
From V Require Import Model.DSim Proofs.DSimBase.
From Coq Require Import Lia.

(* ------------------------------------------------------------------ the state of the scan *)
Definition upd_sent (s : side) (sent : list N) (x : N * ev) : list N :=
  match snd x with
  | ESend s' i d => if side_eqb s' (other s) && has_fin d then i :: sent else sent
  | _ => sent
  end.
Definition upd_handed (s : side) (sent : list N) (handed : bool) (x : N * ev) : bool :=
  match snd x with
  | ENet a s' i => handed || (side_eqb s' (other s) && hands_over a && existsb (N.eqb i) sent)
  | _ => handed
  end.
Fixpoint st_sent (s : side) (sent : list N) (l : list (N * ev)) : list N :=
  match l with [] => sent | x :: r => st_sent s (upd_sent s sent x) r end.
Fixpoint st_handed (s : side) (sent : list N) (handed : bool) (l : list (N * ev)) : bool :=
  match l with [] => handed | x :: r => st_handed s (upd_sent s sent x) (upd_handed s sent handed x) r end.
Definition chk_done (s : side) (handed : bool) (x : N * ev) : bool :=
  match snd x with EDone s' true => negb (side_eqb s s') || handed | _ => true end.

Lemma daf_unfold : forall s sent handed x r,
  done_after_fin s sent handed (x :: r) =
  chk_done s handed x && done_after_fin s (upd_sent s sent x) (upd_handed s sent handed x) r.
Proof.
  intros s sent handed [a e] r. destruct e as [| | |? []| |]; reflexivity.
Qed.

Lemma st_sent_app : forall s l sent x, st_sent s sent (l ++ [x]) = upd_sent s (st_sent s sent l) x.
Proof. induction l; intros; simpl; auto. Qed.

Lemma st_handed_app : forall s l sent handed x,
  st_handed s sent handed (l ++ [x]) = upd_handed s (st_sent s sent l) (st_handed s sent handed l) x.
Proof. induction l; intros; simpl; auto. Qed.

Lemma daf_app : forall s l sent handed x,
  done_after_fin s sent handed (l ++ [x]) =
  done_after_fin s sent handed l && chk_done s (st_handed s sent handed l) x.
Proof.
  induction l as [|y l IH]; intros sent handed x.
  - simpl app. rewrite daf_unfold. simpl. rewrite andb_true_r. reflexivity.
  - simpl app. rewrite !daf_unfold, IH. simpl. rewrite andb_assoc. reflexivity.
Qed.

(* the state after the whole trace (newest first) *)
Definition SENT (s : side) (t : list (N * ev)) : list N := st_sent s [] (rev t).
Definition HANDED (s : side) (t : list (N * ev)) : bool := st_handed s [] false (rev t).
Definition DAF (s : side) (t : list (N * ev)) : bool := done_after_fin s [] false (rev t).

Lemma SENT_cons : forall s x t, SENT s (x :: t) = upd_sent s (SENT s t) x.
Proof. intros. unfold SENT. simpl rev. apply st_sent_app. Qed.
Lemma HANDED_cons : forall s x t, HANDED s (x :: t) = upd_handed s (SENT s t) (HANDED s t) x.
Proof. intros. unfold HANDED, SENT. simpl rev. apply st_handed_app. Qed.
Lemma DAF_cons : forall s x t, DAF s (x :: t) = DAF s t && chk_done s (HANDED s t) x.
Proof. intros. unfold DAF, HANDED. simpl rev. apply daf_app. Qed.

Definition has_idx (i : N) (l : list N) : bool := existsb (N.eqb i) l.

Lemma SENT_mono : forall s x t i, has_idx i (SENT s t) = true -> has_idx i (SENT s (x :: t)) = true.
Proof.
  intros s [a e] t i H. rewrite SENT_cons. unfold upd_sent. simpl.
  destruct e; try exact H. destruct (_ && _); [|exact H]. simpl. rewrite H. apply orb_true_r.
Qed.

Lemma HANDED_mono : forall s x t, HANDED s t = true -> HANDED s (x :: t) = true.
Proof.
  intros s [a e] t H. rewrite HANDED_cons. unfold upd_handed. simpl.
  destruct e; try exact H. rewrite H. reflexivity.
Qed.

(* ------------------------------------------------------------------ outputs: completion needs a Finished record *)
Definition no_done (os : list out) : bool :=
  forallb (fun o => match o with ODone true => false | _ => true end) os.

Lemma no_done_app : forall a b, no_done (a ++ b) = no_done a && no_done b.
Proof. intros. unfold no_done. apply forallb_app. Qed.

Ltac brk :=
  repeat match goal with
  | |- context [if ?b then _ else _] => destruct b
  | |- context [let '(_, _) := ?x in _] => destruct x
  end.

Lemma client_msg_nd : forall c now e m, no_done (snd (client_msg c now e m)) = true.
Proof.
  intros. unfold client_msg, client_flight5, fail.
  destruct (ph e); destruct m; brk; reflexivity.
Qed.

Lemma server_msg_nd : forall c now e m, no_done (snd (server_msg c now e m)) = true.
Proof.
  intros. unfold server_msg, fail.
  destruct (ph e); destruct m; brk; reflexivity.
Qed.

Definition is_enc (r : rec) : bool := match r with mkRec _ _ BEnc => true | _ => false end.

Lemma recv_rec_nd : forall c now e r, is_enc r = false -> no_done (snd (recv_rec c now e r)) = true.
Proof.
  intros c now e r H. unfold recv_rec.
  destruct (fin e); [reflexivity|].
  destruct r as [epoch seq b|]; [|reflexivity].
  destruct (negb (epoch =? repoch e)).
  { destruct (_ && _); reflexivity. }
  destruct (match b with BCcs => _ | _ => false end); [reflexivity|].
  destruct (existsb _ _); [reflexivity|].
  set (e1 := set_read e (repoch e) (seq :: seen e)). clearbody e1.
  destruct b; try reflexivity; try discriminate.
  - destruct (complete e1). { destruct (dwell e1); reflexivity. }
    destruct (expects_ccs (ph e1)); [reflexivity|].
    destruct (is_client (ph e1)); [apply client_msg_nd | apply server_msg_nd].
  - destruct (complete e1). { destruct (dwell e1); reflexivity. }
    simpl. destruct (ph e1); reflexivity.
  - destruct (negb (complete e1) || expects_ccs (ph e1)); [reflexivity|].
    simpl. destruct (ph e1); reflexivity.
Qed.

Lemma recv_dgram_nd : forall c now d e, has_fin d = false -> no_done (snd (recv_dgram c now e d)) = true.
Proof.
  induction d as [|r d IH]; intros e H; simpl; [reflexivity|].
  unfold has_fin in H. simpl in H. apply orb_false_iff in H. destruct H as [H1 H2].
  pose proof (recv_rec_nd c now e r H1) as A.
  destruct (recv_rec c now e r) as [e1 o1].
  specialize (IH e1 H2). destruct (recv_dgram c now e1 d) as [e2 o2]. simpl in *.
  rewrite no_done_app, A, IH. reflexivity.
Qed.

Lemma expire_nd : forall c now e, no_done (snd (expire c now e)) = true.
Proof.
  intros. unfold expire, write_hello, write_app. destruct (ph e); brk; reflexivity.
Qed.

(* ------------------------------------------------------------------ the network *)
Definition pk_ok (s : side) (t : list (N * ev)) (p : pkt) : Prop :=
  side_eqb (p_from p) (other s) && has_fin (p_data p) = true -> has_idx (p_idx p) (SENT s t) = true.
Definition in_net (n : net) (p : pkt) : Prop :=
  In p (queue n) \/ In p (ready n) \/ In p (map snd (held n)).
Definition DF (s : side) (n : net) : Prop :=
  DAF s (trace n) = true /\ forall p, in_net n p -> pk_ok s (trace n) p.

Lemma pk_ok_mono : forall s x t p, pk_ok s t p -> pk_ok s (x :: t) p.
Proof. unfold pk_ok. intros s x t p H K. apply SENT_mono. apply H. exact K. Qed.

Definition not_done (x : ev) : bool := match x with EDone _ true => false | _ => true end.

Lemma log_DF : forall s n x, not_done x = true -> DF s n -> DF s (log n x).
Proof.
  intros s n x Hx [D P]. split.
  - simpl trace. rewrite DAF_cons, D. unfold chk_done. simpl.
    destruct x as [| | |? []| |]; try reflexivity; discriminate.
  - intros p Hp. simpl trace. apply pk_ok_mono. apply P. exact Hp.
Qed.

(* the endpoint s' emits; a completion of s needs the flag *)
Lemma emit_DF : forall s os n s',
  DF s n -> (s' = s -> no_done os = true \/ HANDED s (trace n) = true) ->
  DF s (emit n s' os) /\ (HANDED s (trace n) = true -> HANDED s (trace (emit n s' os)) = true).
Proof.
  induction os as [|o os IH]; intros n s' H K; simpl.
  - split; [exact H|auto].
  - destruct o as [d|ok|].
    + match goal with |- context [emit ?m s' os] => specialize (IH m s') end.
      simpl trace in IH.
      assert (Hm : HANDED s (trace n) = true -> HANDED s ((now n, ESend s' (match s' with Cl => nsent_c n | Sv => nsent_s n end) d) :: trace n) = true)
        by apply HANDED_mono.
      destruct IH as [A B].
      * destruct H as [D P]. split.
        -- simpl trace. rewrite DAF_cons, D. reflexivity.
        -- intros p Hp. simpl trace. unfold in_net in Hp. simpl in Hp.
           rewrite in_app_iff in Hp. destruct Hp as [[Hp|Hp]|Hp].
           ++ apply pk_ok_mono. apply P. left. exact Hp.
           ++ destruct Hp as [<-|[]]. unfold pk_ok. simpl. intros E.
              rewrite SENT_cons. unfold upd_sent. simpl. rewrite E. simpl.
              rewrite N.eqb_refl. reflexivity.
           ++ apply pk_ok_mono. apply P. right. exact Hp.
      * intros E. destruct (K E) as [K1|K1]; [left|right; auto].
        simpl in K1. exact K1.
      * split; [exact A|]. intros E. apply B. apply Hm. exact E.
    + specialize (IH (log n (EDone s' ok)) s').
      assert (Hm : HANDED s (trace n) = true -> HANDED s (trace (log n (EDone s' ok))) = true)
        by apply HANDED_mono.
      destruct IH as [A B].
      * destruct H as [D P]. split.
        -- simpl trace. rewrite DAF_cons, D. unfold chk_done. simpl. destruct ok; [|reflexivity].
           destruct (side_eqb s s') eqn:E; [|reflexivity]. simpl.
           apply side_eqb_eq in E. symmetry in E. destruct (K E) as [K1|K1]; [discriminate K1|exact K1].
        -- intros p Hp. simpl trace. apply pk_ok_mono. apply P. exact Hp.
      * intros E. destruct (K E) as [K1|K1]; [left|right; auto].
        simpl in K1. destruct ok; [discriminate K1|exact K1].
      * split; [exact A|]. intros E. apply B. apply Hm. exact E.
    + specialize (IH (log n (EGot s')) s').
      assert (Hm : HANDED s (trace n) = true -> HANDED s (trace (log n (EGot s'))) = true)
        by apply HANDED_mono.
      destruct IH as [A B].
      * apply log_DF; [reflexivity|exact H].
      * intros E. destruct (K E) as [K1|K1]; [left|right; auto]. exact K1.
      * split; [exact A|]. intros E. apply B. apply Hm. exact E.
Qed.

Lemma put_ep_DF : forall s n s' e, DF s n -> DF s (put_ep n s' e).
Proof. intros s n s' e H. destruct s'; exact H. Qed.

Lemma hand_over_DF : forall s c n p,
  DF s n -> (side_eqb (p_from p) (other s) && has_fin (p_data p) = true -> HANDED s (trace n) = true) ->
  DF s (hand_over c n p) /\ (HANDED s (trace n) = true -> HANDED s (trace (hand_over c n p)) = true).
Proof.
  intros s c n p H K. unfold hand_over.
  pose proof (recv_dgram_nd c (now n) (p_data p) (get_ep n (other (p_from p)))) as R.
  destruct (recv_dgram _ _ _ _) as [e os]. simpl in R.
  assert (T : trace (put_ep n (other (p_from p)) e) = trace n) by (destruct (other (p_from p)); reflexivity).
  rewrite <- T. apply emit_DF.
  - apply put_ep_DF. exact H.
  - intros E. rewrite T. destruct (has_fin (p_data p)) eqn:F.
    + right. apply K. rewrite <- E, other_other, side_eqb_refl. reflexivity.
    + left. apply R. reflexivity.
Qed.

Lemma do_expire_DF : forall s c n s', DF s n -> DF s (do_expire c n s').
Proof.
  intros s c n s' H. unfold do_expire.
  pose proof (expire_nd c (now (log n (EExpire s'))) (get_ep (log n (EExpire s')) s')) as R.
  destruct (expire _ _ _) as [e os]. simpl in R.
  apply emit_DF.
  - apply put_ep_DF. apply log_DF; [reflexivity|exact H].
  - intros _. left. exact R.
Qed.

(* sort_rel keeps the elements *)
Lemma insert_rel_In : forall x l y, In y (insert_rel x l) <-> y = x \/ In y l.
Proof.
  induction l as [|z l IH]; intros y; simpl.
  - intuition.
  - destruct (fst x <? fst z); simpl; [intuition|]. rewrite IH. intuition.
Qed.

Lemma sort_rel_In : forall l y, In y (sort_rel l) <-> In y l.
Proof.
  intros l y. unfold sort_rel.
  assert (G : forall l acc, In y (fold_left (fun acc x => insert_rel x acc) l acc) <-> In y l \/ In y acc).
  { induction l0 as [|x l0 IH]; intros acc; simpl; [intuition|].
    rewrite IH, insert_rel_In. intuition. }
  rewrite G. simpl. intuition.
Qed.

Lemma advance_DF : forall s n t, DF s n -> DF s (advance n t).
Proof.
  intros s n t [D P]. split; [exact D|].
  intros p Hp. apply P. unfold in_net, advance in *. simpl in Hp.
  destruct Hp as [Hp|[Hp|Hp]].
  - left. exact Hp.
  - right. right. apply in_map_iff in Hp. destruct Hp as (h & E & Hh).
    apply filter_In in Hh. destruct Hh as [Hh _]. rewrite sort_rel_In in Hh.
    apply in_map_iff. exists h. split; [exact E|exact Hh].
  - right. right. apply in_map_iff in Hp. destruct Hp as (h & E & Hh).
    apply filter_In in Hh. destruct Hh as [Hh _]. rewrite sort_rel_In in Hh.
    apply in_map_iff. exists h. split; [exact E|exact Hh].
Qed.

(* the network hands p over: the entry it logs first sets the flag *)
Lemma net_log_DF : forall s n n1 a p,
  DF s n -> in_net n p -> hands_over a = true ->
  trace n1 = trace n -> (forall p', in_net n1 p' -> in_net n p') ->
  let n2 := log n1 (ENet a (p_from p) (p_idx p)) in
  DF s n2 /\ (side_eqb (p_from p) (other s) && has_fin (p_data p) = true -> HANDED s (trace n2) = true).
Proof.
  intros s n n1 a p [D P] Hp Ha T Sub n2. split.
  - split.
    + subst n2. simpl trace. rewrite T, DAF_cons, D. reflexivity.
    + intros p' Hp'. subst n2. simpl trace. rewrite T. apply pk_ok_mono. apply P. apply Sub. exact Hp'.
  - intros E. subst n2. simpl trace. rewrite T, HANDED_cons. unfold upd_handed. simpl.
    pose proof (P p Hp E) as S. unfold has_idx in S. rewrite S, Ha.
    apply andb_true_iff in E. destruct E as [E _]. rewrite E. apply orb_true_r.
Qed.

Lemma step_DF : forall s c fs n n', DF s n -> step c fs n = Some n' -> DF s n'.
Proof.
  intros s c fs n n' H St. apply step_cases in St. destruct St.
  - destruct (net_log_DF s n (set_ready n r) Nlate p H) as [A B]; try reflexivity.
    + right. left. rewrite H0. left. reflexivity.
    + unfold in_net. simpl. rewrite H0. simpl. tauto.
    + apply hand_over_DF; assumption.
  - apply log_DF; [reflexivity|]. destruct H as [D P]. split; [exact D|].
    intros p' Hp'. apply P. unfold in_net in *. simpl in Hp'. rewrite H1. simpl. tauto.
  - destruct (net_log_DF s n (set_queue n q) Ndeliver p H) as [A B]; try reflexivity.
    + left. rewrite H1. left. reflexivity.
    + unfold in_net. simpl. rewrite H1. simpl. tauto.
    + set (n2 := log (set_queue n q) (ENet Ndeliver (p_from p) (p_idx p))) in *.
      assert (A3 : DF s (log n2 (ENet Ndup (p_from p) (p_idx p)))) by (apply log_DF; [reflexivity|exact A]).
      assert (B3 : side_eqb (p_from p) (other s) && has_fin (p_data p) = true ->
                   HANDED s (trace (log n2 (ENet Ndup (p_from p) (p_idx p)))) = true).
      { intros E. simpl trace. apply HANDED_mono. apply B. exact E. }
      destruct (hand_over_DF s c _ p A3 B3) as [A4 B4].
      apply hand_over_DF; [exact A4|]. intros E. apply B4. apply B3. exact E.
  - apply log_DF; [reflexivity|]. destruct H as [D P]. split; [exact D|].
    intros p' Hp'. apply P. unfold in_net in *. simpl in Hp'. rewrite H1. simpl.
    rewrite map_app, in_app_iff in Hp'. simpl in Hp'. tauto.
  - destruct (net_log_DF s n (set_queue n q) Ndeliver p H) as [A B]; try reflexivity.
    + left. rewrite H1. left. reflexivity.
    + unfold in_net. simpl. rewrite H1. simpl. tauto.
    + apply hand_over_DF; assumption.
  - apply do_expire_DF. apply put_ep_DF. apply advance_DF. exact H.
  - apply do_expire_DF. apply advance_DF. exact H.
  - apply advance_DF. exact H.
Qed.

Lemma init_DF : forall s, DF s init.
Proof.
  intros s. split.
  - destruct s; vm_compute; reflexivity.
  - intros p Hp. unfold pk_ok. intros E.
    destruct Hp as [Hp|[Hp|Hp]]; vm_compute in Hp; try contradiction.
    destruct Hp as [<-|[]]. destruct s; vm_compute in E; discriminate.
Qed.

Theorem DF_invariant : forall s fuel c fs, DF s (fst (run fuel c fs init)).
Proof.
  intros. apply run_invariant with (P := DF s).
  - intros; eapply step_DF; eauto.
  - apply init_DF.
Qed.
