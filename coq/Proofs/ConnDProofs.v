(* C09, datagram stack: what holds for the machine of Model/ConnD.v for every handshake layer,
   record protection, replay verdict, clock and datagram sequence, and what does not (findings
   K12, K13, K14). *)
From V Require Import Model.Codec Model.ConnT Model.Fragment Model.ConnD Proofs.FragmentProofs.
From Coq Require Import ZArith ZifyNat ZifyN ZifyBool Lia FinFun.
Open Scope nat_scope.

Ltac break_if :=
  match goal with
  | |- context [if ?b then _ else _] => let E := fresh "E" in destruct b eqn:E
  end.
Ltac break_match :=
  match goal with
  | |- context [match ?x with _ => _ end] => let E := fresh "E" in destruct x eqn:E
  end.

Section DInv.
  Variable S : Type.
  Variable on_msg : S -> bytes -> option (S * want * option N).
  Variable on_ccs : S -> option (S * want).
  Variable dec : bool -> N -> bytes -> option bytes.
  Variable fresh : nat -> bool.
  Variable dwell_time : nat -> bool.
  Variable has_flight : bool.
  Variable fix11 : bool.

  Notation dconn := (dconn S).
  Notation process := (process S on_ccs dec fresh dwell_time has_flight).
  Notation ddrive := (ddrive S on_msg on_ccs).
  Notation dafter := (dafter S on_msg on_ccs).
  Notation drun := (drun S on_msg on_ccs dec fresh dwell_time has_flight fix11).

  (* the part of the state readRecordOrCCS does not touch, and what it does to the rest *)
  Definition same_hs (c c1 : dconn) : Prop :=
    d_pend c1 = d_pend c /\ d_iters c1 = d_iters c /\ d_calls c1 = d_calls c /\
    d_freads c1 = d_freads c /\ d_counted c1 = d_counted c /\ d_want c1 = d_want c /\
    d_hs c1 = d_hs c /\ d_depth c1 = d_depth c.

  Lemma dretry_fields : forall c : dconn,
    same_hs c (dretry_or_die S c) /\ d_hand (dretry_or_die S c) = d_hand c /\ d_raw (dretry_or_die S c) = d_raw c /\
    d_retry (dretry_or_die S c) = Datatypes.S (d_retry c) /\
    (d_alive (dretry_or_die S c) = true -> Datatypes.S (d_retry c) <= 16).
  Proof.
    intros c. unfold dretry_or_die, same_hs. destruct (maxUselessRecords <? Datatypes.S (d_retry c)) eqn:E; cbn.
    - repeat split; auto. intros; discriminate.
    - apply Nat.ltb_ge in E. unfold maxUselessRecords in E. repeat split; auto.
  Qed.

  Definition retry_ok (c : dconn) : Prop := d_retry c <= 17 /\ (d_alive c = true -> d_retry c <= 16).

  (* what one trip through the record switch may do, relative to the state c it starts from
     (whose rawInputBuf is already advanced past the record) *)
  Definition sw_ok (data : bytes) (hs_done expect : bool) (c c1 : dconn) : Prop :=
    same_hs c c1 /\ retry_ok c1 /\
    (d_alive c1 = true -> length (d_raw c1) <= length (d_raw c)) /\
    (d_hand c1 = d_hand c \/
     (d_hand c1 = d_hand c ++ data /\ 0 < length data /\ d_appended c1 = true /\
      hs_done = false /\ expect = false)) /\
    (d_appended c = true -> d_appended c1 = true).

  Ltac fields :=
    cbn [fst ConnD.dkill ConnD.set_alive ConnD.set_raw ConnD.set_n ConnD.set_retry ConnD.set_dwell ConnD.set_deferred
         ConnD.set_epoch ConnD.set_ccs_done ConnD.set_cipher ConnD.set_delivered ConnD.set_appended ConnD.set_hand
         d_pend d_iters d_calls d_freads d_counted d_want d_hs d_depth d_retry d_alive d_raw d_hand d_appended] in *.

  Lemma sw_refl_like : forall dt hs_done expect (c c1 : dconn),
    same_hs c c1 -> d_retry c1 = d_retry c -> (d_alive c1 = true -> d_alive c = true) ->
    length (d_raw c1) <= length (d_raw c) -> d_hand c1 = d_hand c -> d_appended c1 = d_appended c ->
    retry_ok c -> sw_ok dt hs_done expect c c1.
  Proof.
    intros dt hd ex c c1 H1 H2 H3 H4 H5 H6 [R1 R2]. unfold sw_ok, retry_ok.
    rewrite H2, H5, H6. split; [exact H1|]. split; [split; [exact R1|intros A; apply R2; auto]|].
    split; [intros; exact H4|]. split; [left; reflexivity|auto].
  Qed.

  Lemma same_hs_refl : forall c : dconn, same_hs c c.
  Proof. intros; unfold same_hs; auto 10. Qed.

  Lemma sw_kill : forall dt hd ex (c : dconn), retry_ok c -> sw_ok dt hd ex c (dkill S c).
  Proof.
    intros dt hd ex c [R1 R2]. unfold sw_ok, retry_ok, same_hs. fields.
    repeat split; auto; try lia; intros; discriminate.
  Qed.

  Lemma p_alert_ok : forall hd ex (c : dconn) data, retry_ok c -> d_alive c = true ->
    sw_ok data hd ex c (fst (p_alert S c data)).
  Proof.
    intros hd ex c data R Ha. unfold p_alert.
    destruct data as [|lvl [|code [|x t]]]; try (apply sw_kill; exact R).
    destruct (code =? 0)%N; [apply sw_kill; exact R|].
    destruct (lvl =? 1)%N; [|apply sw_kill; exact R].
    cbn [fst]. destruct (dretry_fields (set_raw S c [])) as (F1 & F2 & F3 & F4 & F5).
    destruct R as [R1 R2]. specialize (R2 Ha).
    unfold sw_ok, retry_ok. rewrite F2, F3, F4. fields.
    split. { unfold same_hs in *. fields. intuition congruence. }
    split. { split; [lia|]. intros A. apply F5 in A. lia. }
    split; [intros; cbn; lia|]. split; [left; reflexivity|].
    unfold dretry_or_die. destruct (_ <? _); fields; auto.
  Qed.

  Lemma p_ccs_ok : forall hd ex (c : dconn) data rest idx, retry_ok c -> d_alive c = true ->
    sw_ok data hd ex c (fst (p_ccs S on_ccs dwell_time has_flight c data rest idx hd ex)).
  Proof.
    intros hd ex c data rest idx R Ha. unfold p_ccs.
    destruct data as [|one tl]; [apply sw_kill; exact R|].
    destruct one as [|[p|p|]]; try (apply sw_kill; exact R).
    destruct tl; [|apply sw_kill; exact R].
    destruct (hd && d_dwell c && dwell_time idx && has_flight).
    { cbn [fst]. apply sw_refl_like; auto using same_hs_refl. }
    set (c' := if hd && d_dwell c then set_dwell S c false else c).
    assert (Hc' : same_hs c c' /\ d_retry c' = d_retry c /\ d_alive c' = d_alive c /\ d_raw c' = d_raw c /\
                  d_hand c' = d_hand c /\ d_appended c' = d_appended c).
    { unfold c'. destruct (hd && d_dwell c); unfold same_hs; fields; auto 15. }
    destruct Hc' as (S1 & S2 & S3 & S4 & S5 & S6).
    destruct (negb ex && negb (empty (d_hand c'))).
    { cbn [fst]. apply sw_refl_like; fields; auto; try lia; try congruence; try (rewrite S4; lia);
      try (unfold same_hs in *; fields; intuition congruence). }
    destruct (negb ex).
    { cbn [fst]. apply sw_refl_like; fields; auto; try lia; try congruence; try (rewrite S4; lia). }
    destruct (on_ccs (d_hs c')) as [sw|].
    2:{ cbn [fst]. apply sw_refl_like; fields; auto; try lia; try congruence; try (rewrite S4; lia);
        try (intros; discriminate); try (unfold same_hs in *; fields; intuition congruence). }
    assert (G : forall a, sw_ok (1%N :: nil) hd ex c (set_epoch S (set_ccs_done S (set_cipher S c' true) true) a)).
    { intros a. apply sw_refl_like; fields; auto; try lia; try congruence; try (rewrite S4; lia);
      try (unfold same_hs in *; fields; intuition congruence). }
    destruct (0 <? length rest); cbn [fst]; apply G.
  Qed.

  Lemma p_app_ok : forall hd ex (c : dconn) data, retry_ok c -> d_alive c = true ->
    sw_ok data hd ex c (fst (p_app S c data hd ex)).
  Proof.
    intros hd ex c data R Ha. unfold p_app.
    destruct (negb hd || ex); [apply sw_kill; exact R|].
    destruct (length data =? 0); cbn [fst]; apply sw_refl_like; fields; auto; unfold same_hs; fields; auto 10.
  Qed.

  Lemma p_hs_ok : forall hd ex (c : dconn) data rest idx, retry_ok c -> d_alive c = true ->
    sw_ok data hd ex c (fst (p_hs S dwell_time c data rest idx hd ex)).
  Proof.
    intros hd ex c data rest idx R Ha. unfold p_hs.
    destruct (hd && d_dwell c && dwell_time idx); [cbn [fst]; apply sw_refl_like; auto using same_hs_refl|].
    destruct (length data =? 0) eqn:El; [apply sw_kill; exact R|].
    destruct ex; [cbn [fst]; apply sw_refl_like; auto using same_hs_refl|].
    destruct hd; [cbn [fst]; apply sw_refl_like; auto using same_hs_refl|].
    apply Nat.eqb_neq in El.
    assert (G : sw_ok data false false c (set_appended S (set_hand S c (d_hand c ++ data)) true)).
    { destruct R as [R1 R2]. unfold sw_ok, retry_ok, same_hs. fields.
      repeat split; auto; try lia. right. repeat split; auto. lia. }
    destruct (_ && _); cbn [fst]; exact G.
  Qed.

  Lemma dispatch_ok : forall hd ex (c : dconn) typ data rest idx, retry_ok c -> d_alive c = true ->
    sw_ok data hd ex c (fst (dispatch S on_ccs dwell_time has_flight c typ data rest idx hd ex)).
  Proof.
    intros. unfold dispatch.
    destruct (typ =? 21)%N; [apply p_alert_ok; auto|].
    destruct (typ =? 20)%N; [apply p_ccs_ok; auto|].
    destruct (typ =? 23)%N; [apply p_app_ok; auto|].
    destruct (typ =? 22)%N; [apply p_hs_ok; auto|].
    apply sw_kill; auto.
  Qed.


  (* record protection never expands: the plaintext is no longer than the protected fragment
     (CBC strips IV, MAC and padding; GCM strips nonce and tag; the null cipher is the identity) *)
  Hypothesis dec_short : forall ci typ body data, dec ci typ body = Some data -> length data <= length body.

  Definition body_ok (hd ex : bool) (body rest : bytes) (c c1 : dconn) : Prop :=
    same_hs c c1 /\ retry_ok c1 /\
    (d_alive c1 = true -> length (d_raw c1) <= length rest) /\
    (d_hand c1 = d_hand c \/
     (exists data, d_hand c1 = d_hand c ++ data /\ 0 < length data /\ length data <= maxPlaintext /\
                   length data <= length body /\ d_appended c1 = true /\ hd = false /\ ex = false)) /\
    (d_appended c = true -> d_appended c1 = true).

  Lemma body_ok_same : forall hd ex body rest (c c2 : dconn),
    retry_ok c -> d_alive c = true ->
    same_hs c c2 -> d_retry c2 = d_retry c -> d_hand c2 = d_hand c ->
    d_appended c2 = d_appended c -> length (d_raw c2) <= length rest ->
    body_ok hd ex body rest c c2.
  Proof.
    intros hd ex body rest c c2 [R1 R2] Ha S1 S2 S3 S4 S5. unfold body_ok, retry_ok. rewrite S2, S3, S4.
    split; [exact S1|]. split; [split; [exact R1|intros _; apply R2; exact Ha]|].
    split; [intros _; exact S5|]. split; [left; reflexivity|auto].
  Qed.

  Lemma body_ok_kill : forall hd ex body rest (c : dconn), retry_ok c -> body_ok hd ex body rest c (dkill S c).
  Proof.
    intros hd ex body rest c [R1 R2]. unfold body_ok, retry_ok, same_hs. fields.
    repeat split; auto; try lia; intros; discriminate.
  Qed.

  Lemma p_body_ok : forall hd ex (c : dconn) typ epoch body rest idx, retry_ok c -> d_alive c = true ->
    body_ok hd ex body rest c (fst (p_body S on_ccs dec fresh dwell_time has_flight c typ epoch body rest idx hd ex)).
  Proof.
    intros hd ex c typ epoch body rest idx R Ha. unfold p_body.
    destruct (negb (epoch =? d_epoch c)%N).
    { cbn [fst]. apply body_ok_same; fields; auto. unfold same_hs; fields; auto 10. }
    destruct (dec (d_cipher c) typ body) as [data|] eqn:Ed; [|apply body_ok_kill; exact R].
    apply dec_short in Ed.
    destruct ((typ =? 20)%N && negb ex && negb hd && empty (d_hand c)).
    { cbn [fst]. apply body_ok_same; fields; auto. unfold same_hs; fields; auto 10. }
    destruct (negb (fresh idx)).
    { cbn [fst]. apply body_ok_same; fields; auto. unfold same_hs; fields; auto 10. }
    destruct (maxPlaintext <? length data) eqn:Emp; [apply body_ok_kill; exact R|]. apply Nat.ltb_ge in Emp.
    destruct (negb (d_cipher c) && (typ =? 23)%N); [apply body_ok_kill; exact R|].
    set (cr := if negb (typ =? 21)%N && negb (typ =? 20)%N && (0 <? length data) then set_retry S c 0 else c).
    assert (Hcr : same_hs c cr /\ retry_ok cr /\ d_alive cr = true /\ d_hand cr = d_hand c /\
                  d_appended cr = d_appended c /\ d_raw cr = d_raw c).
    { unfold cr. destruct (_ && _ && _).
      - unfold same_hs, retry_ok. fields. repeat split; auto; lia.
      - repeat split; auto using same_hs_refl; apply R. }
    destruct Hcr as (C1 & C2 & C3 & C4 & C5 & C6). clearbody cr.
    set (c2 := set_raw S cr rest).
    assert (D : sw_ok data hd ex c2 (fst (dispatch S on_ccs dwell_time has_flight c2 typ data rest idx hd ex))).
    { apply dispatch_ok; unfold c2; fields; auto. }
    destruct D as (D1 & D2 & D3 & D4 & D5).
    assert (S2 : same_hs c c2) by (unfold c2, same_hs in *; fields; intuition congruence).
    assert (H2 : d_hand c2 = d_hand c) by (unfold c2; fields; congruence).
    assert (A2 : d_appended c2 = d_appended c) by (unfold c2; fields; congruence).
    assert (R2 : d_raw c2 = rest) by (unfold c2; fields; reflexivity).
    rewrite H2, A2, R2 in *.
    unfold body_ok.
    split. { unfold same_hs in *. intuition congruence. }
    split; [exact D2|]. split; [exact D3|]. split; [|exact D5].
    destruct D4 as [D4|(E1 & E2 & E3 & E4 & E5)]; [left; exact D4|].
    right. exists data. repeat split; auto.
  Qed.

  (* one trip through the loop of readRecordOrCCS *)
  Definition proc_ok (c c1 : dconn) : Prop :=
    same_hs c c1 /\ retry_ok c1 /\
    (d_alive c1 = true ->
       length (d_raw c1) + dRecordHeaderLen <= length (d_raw c) /\
       length (d_hand c1) + length (d_raw c1) + dRecordHeaderLen <= length (d_hand c) + length (d_raw c)) /\
    (d_hand c1 = d_hand c \/
     (exists data, d_hand c1 = d_hand c ++ data /\ 0 < length data /\ length data <= maxPlaintext /\
                   d_appended c1 = true /\ d_want c <> WApp /\ (d_want c = WCcs -> d_ccs_done c = true))) /\
    (d_appended c = true -> d_appended c1 = true).

  Lemma process_ok : forall c : dconn,
    d_alive c = true -> retry_ok c -> dRecordHeaderLen <= length (d_raw c) ->
    proc_ok c (fst (process c)).
  Proof.
    intros c Ha R Hraw. unfold ConnD.process. cbn zeta.
    set (n := N.to_nat (b16 (nth0 (d_raw c) 11) (nth0 (d_raw c) 12))).
    assert (K : proc_ok c (dkill S c)).
    { destruct R as [R1 R2]. unfold proc_ok, retry_ok, same_hs. fields.
      repeat split; auto; try lia; intros; discriminate. }
    destruct (match d_vers c with Some v => _ | None => _ end); [exact K|].
    destruct (maxCiphertext <? n); [exact K|].
    destruct (length (d_raw c) <? dRecordHeaderLen + n) eqn:El; [exact K|].
    apply Nat.ltb_ge in El.
    set (c' := set_n S c (Datatypes.S (d_n c))).
    set (body := firstn n (skipn dRecordHeaderLen (d_raw c))).
    set (rest := skipn (dRecordHeaderLen + n) (d_raw c)).
    assert (Lb : length body = n).
    { unfold body. rewrite firstn_length, skipn_length. lia. }
    assert (Lr : length rest + dRecordHeaderLen + n = length (d_raw c)).
    { unfold rest. rewrite skipn_length. lia. }
    assert (R' : retry_ok c') by (destruct R; split; unfold c'; fields; auto).
    assert (Ha' : d_alive c' = true) by (unfold c'; fields; exact Ha).
    pose proof (p_body_ok (want_eqb (d_want c) WApp) (want_eqb (d_want c) WCcs && negb (d_ccs_done c))
                  c' (nth0 (d_raw c) 0) (b16 (nth0 (d_raw c) 3) (nth0 (d_raw c) 4)) body rest (d_n c) R' Ha') as B.
    destruct B as (B1 & B2 & B3 & B4 & B5).
    assert (E' : same_hs c c' /\ d_hand c' = d_hand c /\ d_appended c' = d_appended c /\ d_want c' = d_want c /\ d_ccs_done c' = d_ccs_done c)
      by (unfold c', same_hs; fields; auto 15).
    destruct E' as (E1 & E2 & E3 & E4 & E5). rewrite E2, E3 in *.
    unfold proc_ok.
    split. { unfold same_hs in *. intuition congruence. }
    split; [exact B2|].
    split.
    { intros A. specialize (B3 A). split; [lia|].
      destruct B4 as [B4|(dt & F1 & F2 & F3 & F4 & F5 & F6 & F7)].
      - rewrite B4. lia.
      - rewrite F1, app_length. lia. }
    split; [|exact B5].
    destruct B4 as [B4|(dt & F1 & F2 & F3 & F4 & F5 & F6 & F7)]; [left; exact B4|].
    right. exists dt. repeat split; auto.
    - intros W. rewrite W in F6. cbn in F6. discriminate.
    - intros W. rewrite W in F7. cbn in F7. destruct (d_ccs_done c); [reflexivity|discriminate].
  Qed.

  (* ---------------- readHandshake ---------------- *)
  Definition keys_ok (p : pending) : Prop :=
    NoDup (map fst p) /\ Forall (fun k => (k < 65536)%N) (map fst p).

  Lemma premove_in : forall k k' (p : pending), In k (map fst (premove k' p)) -> In k (map fst p) /\ k <> k'.
  Proof.
    induction p as [|[k0 v] t IH]; cbn [premove map fst]; intros H; [contradiction|].
    destruct (N.eqb k' k0) eqn:E.
    - destruct (IH H). split; [right; assumption|assumption].
    - cbn [map fst In] in H. destruct H as [<-|H].
      + split; [left; reflexivity|]. intros ->. rewrite N.eqb_refl in E. discriminate.
      + destruct (IH H). split; [right; assumption|assumption].
  Qed.

  Lemma premove_keys : forall k (p : pending), keys_ok p -> keys_ok (premove k p).
  Proof.
    intros k p [ND FA]. induction p as [|[k0 v] t IH]; cbn [premove]; [split; assumption|].
    cbn [map fst] in ND, FA. inversion ND as [|? ? Hn Ht]; subst. inversion FA as [|? ? Hk Hf]; subst.
    destruct (IH Ht Hf) as [I1 I2].
    destruct (N.eqb k k0); [split; assumption|].
    cbn [map fst]. split.
    - constructor; [|exact I1]. intros X. apply premove_in in X as [X _]. contradiction.
    - constructor; assumption.
  Qed.

  Lemma rh_step_keys : forall (p : pending) f, keys_ok p -> (f_seq f < 65536)%N -> keys_ok (fst (rh_step p f)).
  Proof.
    intros p f K Hs. unfold rh_step.
    destruct (Nat.ltb maxHandshake (f_blen f)); [exact K|].
    destruct (Nat.ltb (f_blen f) (f_off f + f_len f)); [exact K|].
    destruct (Nat.ltb (f_len f) (f_blen f) || Nat.ltb 0 (f_off f)); [|exact K].
    destruct (complete _); cbn [fst].
    - apply premove_keys; exact K.
    - unfold pinsert. destruct (premove_keys (f_seq f) p K) as [I1 I2]. cbn [map fst]. split.
      + constructor; [|exact I1]. intros X. apply premove_in in X as [_ X]. apply X; reflexivity.
      + constructor; assumption.
  Qed.

  Lemma b16_lt : forall a b, (b16 a b < 65536)%N.
  Proof.
    intros a b. unfold b16.
    pose proof (N.mod_upper_bound a 256 ltac:(discriminate)).
    pose proof (N.mod_upper_bound b 256 ltac:(discriminate)). lia.
  Qed.

  (* a list of distinct numbers below 2^16 has at most 2^16 elements *)
  Lemma keys_bound : forall p : pending, keys_ok p -> length p <= 256 * 256.
  Proof.
    intros p [ND FA].
    assert (H : length (map N.to_nat (map fst p)) <= length (seq 0 (256 * 256))).
    { apply NoDup_incl_length.
      - apply Injective_map_NoDup; [|exact ND]. intros x y E. apply N2Nat.inj; exact E.
      - intros x Hx. apply in_map_iff in Hx as (k & <- & Hk). rewrite Forall_forall in FA. specialize (FA k Hk).
        apply in_seq. lia. }
    rewrite !map_length, seq_length in H. exact H.
  Qed.

  Definition hinv (c : dconn) : Prop :=
    d_freads c <= 257 /\ (d_alive c = true -> d_freads c <= 256) /\
    Forall (fun kv => buf_ok (snd kv)) (d_pend c) /\ keys_ok (d_pend c) /\
    length (d_pend c) + (if d_counted c then 1 else 0) <= d_iters c /\
    d_iters c + 257 <= 257 * d_calls c + d_freads c.

  (* what ddrive leaves alone *)
  Definition same_rec (c c1 : dconn) : Prop :=
    d_raw c1 = d_raw c /\ d_retry c1 = d_retry c /\ d_depth c1 = d_depth c /\ d_appended c1 = d_appended c /\
    d_n c1 = d_n c /\ length (d_hand c1) <= length (d_hand c) /\ (d_alive c1 = true -> d_alive c = true).

  Lemma same_rec_refl : forall c : dconn, same_rec c c.
  Proof. intros; unfold same_rec; auto 10. Qed.
  Lemma same_rec_trans : forall a b c : dconn, same_rec a b -> same_rec b c -> same_rec a c.
  Proof.
    unfold same_rec; intros a b c (A1 & A2 & A3 & A4 & A5 & A6 & A7) (B1 & B2 & B3 & B4 & B5 & B6 & B7).
    repeat split; try congruence; try lia; auto.
  Qed.

  Ltac hfields :=
    cbn [fst ConnD.dkill ConnD.set_alive ConnD.set_raw ConnD.set_n ConnD.set_retry ConnD.set_dwell ConnD.set_deferred
         ConnD.set_epoch ConnD.set_ccs_done ConnD.set_cipher ConnD.set_delivered ConnD.set_appended ConnD.set_hand
         ConnD.set_pend ConnD.set_counted ConnD.set_freads ConnD.set_iters ConnD.set_calls ConnD.set_want ConnD.set_hs
         ConnD.set_vers ConnD.new_call ConnD.move_on
         d_pend d_iters d_calls d_freads d_counted d_want d_hs d_depth d_retry d_alive d_raw d_hand d_appended d_n
         d_deferred] in *.

  Lemma move_on_inv : forall (c : dconn) s w v,
    hinv c -> hinv (move_on S c s w v) /\ same_rec c (move_on S c s w v) /\
    d_alive (move_on S c s w v) = d_alive c /\ d_hand (move_on S c s w v) = d_hand c /\
    d_deferred (move_on S c s w v) = d_deferred c.
  Proof.
    intros c s w v (H1 & H2 & H3 & H4 & H5 & H6).
    unfold move_on. destruct v as [x|]; destruct w; unfold hinv, same_rec; hfields;
      destruct (d_counted c); repeat split; auto; try lia; try (destruct H4; assumption).
  Qed.

  Lemma hinv_kill : forall c : dconn, hinv c -> hinv (dkill S c).
  Proof.
    intros c (H1 & H2 & H3 & H4 & H5 & H6). unfold hinv. hfields.
    split; [exact H1|]. split; [intros; discriminate|]. auto.
  Qed.

  Lemma ddrive_inv : forall fuel (c : dconn), hinv c -> hinv (ddrive fuel c) /\ same_rec c (ddrive fuel c).
  Proof.
    induction fuel as [|k IH]; intros c H; cbn [ConnD.ddrive]; [split; [exact H|apply same_rec_refl]|].
    destruct (d_alive c) eqn:Ea; cbn [negb]; [|split; [exact H|apply same_rec_refl]].
    destruct (d_want c) eqn:Ew.
    - (* readHandshake *)
      set (c1 := if d_counted c then c
                 else set_iters S (set_counted S (set_freads S c (Datatypes.S (d_freads c))) true) (Datatypes.S (d_iters c))).
      assert (H1 : (d_freads c1 <= 256 -> hinv c1) /\ hinv (dkill S c1) /\ same_rec c c1 /\ d_counted c1 = true /\
                   d_alive c1 = true /\ d_hand c1 = d_hand c).
      { unfold c1. destruct (d_counted c) eqn:Ec.
        - split; [intros _; exact H|]. split; [apply hinv_kill; exact H|].
          repeat split; auto using same_rec_refl.
        - destruct H as (A1 & A2 & A3 & A4 & A5 & A6). rewrite Ec in A5. specialize (A2 Ea).
          unfold hinv, same_rec. hfields.
          split; [intros X; repeat split; auto; try lia; try (destruct A4; assumption)|].
          split; [repeat split; auto; try lia; try (intros; discriminate); try (destruct A4; assumption)|].
          repeat split; auto; try lia. }
      destruct H1 as (Hh' & Hk & Hs & Hc & Ha1 & Hd). clearbody c1.
      destruct (maxHandshakeFragments <? d_freads c1) eqn:Efr; [split; [exact Hk|]|].
      { eapply same_rec_trans; [exact Hs|]. unfold same_rec; hfields; repeat split; auto; try (intros; discriminate). }
      apply Nat.ltb_ge in Efr. unfold maxHandshakeFragments in Efr. specialize (Hh' Efr). rename Hh' into Hh.
      destruct (length (d_hand c1) <? dHeaderLen); [split; assumption|].
      set (h := d_hand c1).
      set (blen := b24n (nth0 h 1) (nth0 h 2) (nth0 h 3)).
      set (flen := b24n (nth0 h 9) (nth0 h 10) (nth0 h 11)).
      set (off := b24n (nth0 h 6) (nth0 h 7) (nth0 h 8)).
      destruct (maxHandshakeT <? blen); [split; [apply hinv_kill; exact Hh|]|].
      { eapply same_rec_trans; [exact Hs|]. unfold same_rec; hfields; repeat split; auto; try (intros; discriminate). }
      destruct (blen <? off + flen); [split; [apply hinv_kill; exact Hh|]|].
      { eapply same_rec_trans; [exact Hs|]. unfold same_rec; hfields; repeat split; auto; try (intros; discriminate). }
      destruct (length h <? dHeaderLen + flen) eqn:El; [split; assumption|].
      set (f := mkFrag (nth0 h 0) blen (b16 (nth0 h 4) (nth0 h 5)) off flen (firstn flen (skipn dHeaderLen h))).
      set (c2 := set_counted S (set_hand S c1 (skipn (dHeaderLen + flen) h)) false).
      hfields.
      destruct Hh as (A1 & A2 & A3 & A4 & A5 & A6). rewrite Hc in A5.
      change (d_pend c2) with (d_pend c1).
      destruct (rh_step (d_pend c1) f) as [p o] eqn:Er.
      destruct (step_bounded _ _ _ _ A3 Er) as [P1 P2].
      pose proof (rh_step_keys (d_pend c1) f A4 (b16_lt _ _)) as P3. rewrite Er in P3. cbn [fst] in P3.
      assert (Hc2 : hinv (set_pend S c2 p) /\ same_rec c1 (set_pend S c2 p) /\ d_counted (set_pend S c2 p) = false /\
                    d_alive (set_pend S c2 p) = true).
      { unfold c2, hinv, same_rec. hfields. repeat split; auto; try lia; try (destruct P3; assumption).
        rewrite skipn_length. fold h. lia. }
      destruct Hc2 as (B1 & B2 & B3 & B4).
      destruct o as [|m|a].
      + destruct (IH _ B1) as [I1 I2]. split; [exact I1|].
        eapply same_rec_trans; [exact Hs|]. eapply same_rec_trans; [exact B2|exact I2].
      + destruct (on_msg (d_hs c2) m) as [[[s w] v]|].
        * destruct (move_on_inv _ s w v B1) as (M1 & M2 & _).
          destruct (IH _ M1) as [I1 I2]. split; [exact I1|].
          eapply same_rec_trans; [exact Hs|]. eapply same_rec_trans; [exact B2|].
          eapply same_rec_trans; [exact M2|exact I2].
        * split; [apply hinv_kill; exact B1|].
          eapply same_rec_trans; [exact Hs|]. eapply same_rec_trans; [exact B2|].
          unfold same_rec; hfields; repeat split; auto; try (intros; discriminate).
      + split; [apply hinv_kill; exact B1|].
        eapply same_rec_trans; [exact Hs|]. eapply same_rec_trans; [exact B2|].
        unfold same_rec; hfields; repeat split; auto; try (intros; discriminate).
    - (* readChangeCipherSpec *)
      destruct (d_deferred c) eqn:Ed; [|split; [exact H|apply same_rec_refl]].
      assert (Hd : hinv (set_deferred S c false) /\ same_rec c (set_deferred S c false)).
      { destruct H as (A1 & A2 & A3 & A4 & A5 & A6). unfold hinv, same_rec. hfields. repeat split; auto; try (destruct A4; assumption). }
      destruct Hd as [D1 D2].
      destruct (on_ccs (d_hs c)) as [[s w]|].
      2:{ split; [apply hinv_kill; exact D1|]. unfold same_rec; hfields; repeat split; auto; try (intros; discriminate). }
      set (c3 := set_epoch S (set_cipher S (set_deferred S c false) true) ((d_epoch (set_deferred S c false) + 1) mod 65536)%N).
      assert (H3 : hinv c3 /\ same_rec c c3).
      { destruct H as (A1 & A2 & A3 & A4 & A5 & A6). unfold c3, hinv, same_rec. hfields.
        repeat split; auto; try (destruct A4; assumption). }
      destruct H3 as [E1 E2].
      destruct (move_on_inv c3 s w None E1) as (M1 & M2 & _).
      destruct (IH _ M1) as [I1 I2]. split; [exact I1|].
      eapply same_rec_trans; [exact E2|]. eapply same_rec_trans; [exact M2|exact I2].
    - split; [exact H|apply same_rec_refl].
  Qed.

  (* ---------------- the whole machine ---------------- *)
  Definition dinv (c : dconn) : Prop := hinv c /\ retry_ok c.

  Lemma hinv_same_hs : forall c c1 : dconn, d_alive c = true -> same_hs c c1 -> hinv c -> hinv c1.
  Proof.
    intros c c1 Ha (S1 & S2 & S3 & S4 & S5 & S6 & S7 & S8) (H1 & H2 & H3 & H4 & H5 & H6).
    unfold hinv. rewrite S1, S2, S3, S4, S5. specialize (H2 Ha). repeat split; auto; try lia; destruct H4; assumption.
  Qed.

  Lemma dafter_inv : forall c : dconn, dinv c -> dinv (dafter c) /\ d_raw (dafter c) = d_raw c /\ d_depth (dafter c) = d_depth c /\
    (d_alive (dafter c) = true -> d_appended (dafter c) = false).
  Proof.
    intros c [H R]. unfold ConnD.dafter.
    destruct (d_alive c) eqn:Ea; cbn [negb].
    2:{ split; [split; assumption|]. split; [reflexivity|]. split; [reflexivity|]. intros X. rewrite Ea in X. discriminate. }
    set (c0 := set_appended S c false).
    assert (H0 : hinv c0 /\ retry_ok c0 /\ d_raw c0 = d_raw c /\ d_depth c0 = d_depth c /\ d_appended c0 = false).
    { destruct H as (A1 & A2 & A3 & A4 & A5 & A6). destruct R as [R1 R2]. unfold c0, hinv, retry_ok. hfields.
      repeat split; auto; destruct A4; assumption. }
    destruct H0 as (B1 & B2 & B3 & B4 & B5). clearbody c0.
    assert (G : forall c2 : dconn, hinv c2 -> same_rec c0 c2 ->
                dinv c2 /\ d_raw c2 = d_raw c /\ d_depth c2 = d_depth c /\ (d_alive c2 = true -> d_appended c2 = false)).
    { intros c2 X (Y1 & Y2 & Y3 & Y4 & Y5 & Y6 & Y7). unfold dinv, retry_ok.
      destruct B2 as [R1 R2].
      split. { split; [exact X|]. split; [rewrite Y2; exact R1|]. intros A. rewrite Y2. apply R2. apply Y7. exact A. }
      split; [congruence|]. split; [congruence|]. intros _. congruence. }
    destruct (d_want c0).
    - destruct (ddrive_inv (dfuel S c0) c0 B1) as [I1 I2]. apply G; assumption.
    - destruct (d_ccs_done c0); [|apply G; auto using same_rec_refl].
      destruct (on_ccs (d_hs c0)) as [[s w]|].
      + assert (H1 : hinv (set_ccs_done S c0 false) /\ same_rec c0 (set_ccs_done S c0 false)).
        { destruct B1 as (A1 & A2 & A3 & A4 & A5 & A6). unfold hinv, same_rec. hfields.
          repeat split; auto; destruct A4; assumption. }
        destruct H1 as [E1 E2].
        destruct (move_on_inv _ s w None E1) as (M1 & M2 & _).
        set (c3 := move_on S (set_ccs_done S c0 false) s w None) in *.
        destruct (ddrive_inv (dfuel S c3) c3 M1) as [I1 I2].
        apply G; [exact I1|]. eapply same_rec_trans; [exact E2|]. eapply same_rec_trans; [exact M2|exact I2].
      + apply G; [apply hinv_kill; exact B1|]. unfold same_rec; hfields; repeat split; auto; try (intros; discriminate).
    - apply G; auto using same_rec_refl.
  Qed.

  Lemma load_inv : forall (c : dconn) d, dinv c -> dinv (load S c d).
  Proof.
    intros c d [(A1 & A2 & A3 & A4 & A5 & A6) [R1 R2]]. unfold load. destruct d as [|b].
    - unfold dinv, hinv, retry_ok. hfields. cbn [ConnD.set_depth d_freads d_alive d_pend d_counted d_iters d_calls d_retry].
      repeat split; auto; destruct A4; assumption.
    - destruct (length (firstn dgramBuf b) <? dRecordHeaderLen);
        unfold dinv, hinv, retry_ok; hfields; cbn [ConnD.set_depth d_freads d_alive d_pend d_counted d_iters d_calls d_retry];
        repeat split; auto; try (intros; discriminate); destruct A4; assumption.
  Qed.

  Lemma process_inv : forall c : dconn, dinv c -> d_alive c = true -> dRecordHeaderLen <= length (d_raw c) ->
    dinv (fst (process c)).
  Proof.
    intros c [H R] Ha Hr. destruct (process_ok c Ha R Hr) as (P1 & P2 & _).
    split; [apply (hinv_same_hs c); assumption|exact P2].
  Qed.

  Theorem drun_inv : forall fuel (c : dconn) dgs, dinv c -> dinv (fst (fst (drun fuel c dgs))).
  Proof.
    induction fuel as [|k IH]; intros c dgs H; cbn [ConnD.drun]; [exact H|].
    destruct (d_alive c) eqn:Ea; cbn [negb]; [|exact H].
    destruct (length (d_raw c) <? dRecordHeaderLen) eqn:El.
    - destruct (fix11 && d_appended c).
      + apply IH. apply dafter_inv. exact H.
      + destruct dgs as [|d t]; [exact H|]. apply IH. apply load_inv. exact H.
    - apply Nat.ltb_ge in El. pose proof (process_inv c H Ea El) as P.
      destruct (process c) as [c1 [|]]; cbn [fst] in P.
      + apply IH. exact P.
      + apply IH. apply dafter_inv. exact P.
  Qed.

  Lemma dinit_inv : forall s w, dinv (dinit s w).
  Proof.
    intros s w. unfold dinv, hinv, retry_ok, keys_ok, dinit.
    cbn [d_freads d_alive d_pend d_counted d_iters d_calls d_retry map length].
    repeat split; auto; try lia; try constructor.
  Qed.

  (* ---------------- progress ---------------- *)
  Theorem drun_progress : forall fuel (c : dconn) dgs, dinv c ->
    dmeasure S c dgs < fuel -> snd (drun fuel c dgs) <> DOutOfFuel.
  Proof.
    induction fuel as [|k IH]; intros c dgs H Hm; [lia|]. cbn [ConnD.drun].
    destruct (d_alive c) eqn:Ea; cbn [negb]; [|cbn; discriminate].
    assert (Dead : forall (c2 : dconn) l, d_alive c2 = false -> 1 <= k -> snd (drun k c2 l) <> DOutOfFuel).
    { intros c2 l A K. destruct k as [|k']; [lia|]. cbn [ConnD.drun]. rewrite A. cbn. discriminate. }
    unfold dmeasure in Hm.
    destruct (length (d_raw c) <? dRecordHeaderLen) eqn:El.
    - destruct (fix11 && d_appended c) eqn:Ef.
      + apply andb_true_iff in Ef as [_ Ef]. rewrite Ef in Hm.
        destruct (dafter_inv c H) as (D1 & D2 & D3 & D4).
        destruct (d_alive (dafter c)) eqn:Ea2; [|apply Dead; [exact Ea2|lia]].
        apply IH; [exact D1|]. unfold dmeasure. rewrite D2, (D4 eq_refl). lia.
      + destruct dgs as [|d t]; [cbn; discriminate|].
        unfold list_sum in *. cbn [map fold_right] in Hm.
        pose proof (load_inv c d H) as L.
        destruct (d_alive (load S c d)) eqn:Ea2.
        2:{ apply Dead; [exact Ea2|]. unfold dg_size, dRecordHeaderLen in Hm. destruct d; lia. }
        apply IH; [exact L|]. unfold dmeasure, list_sum.
        unfold load in *. destruct d as [|b].
        * cbn [ConnD.set_depth d_raw d_appended]. cbn [dg_size] in Hm. unfold dRecordHeaderLen in Hm. lia.
        * destruct (length (firstn dgramBuf b) <? dRecordHeaderLen); hfields; cbn [ConnD.set_depth ConnD.set_raw ConnD.set_alive ConnD.dkill d_raw d_appended d_alive] in *; [discriminate|].
          cbn [dg_size] in Hm. rewrite firstn_length. unfold dRecordHeaderLen in Hm.
          destruct (d_appended c); lia.
    - apply Nat.ltb_ge in El. destruct H as [Hh Hr].
      pose proof (process_ok c Ea Hr El) as (P1 & P2 & P3 & P4 & P5).
      pose proof (process_inv c (conj Hh Hr) Ea El) as PI.
      destruct (process c) as [c1 a]; cbn [fst] in *.
      assert (K26 : 26 <= k) by (unfold dRecordHeaderLen in El; lia).
      destruct a.
      + destruct (d_alive c1) eqn:Ea1; [|apply Dead; [exact Ea1|lia]].
        apply IH; [exact PI|]. destruct (P3 eq_refl) as [Q1 Q2]. unfold dmeasure. unfold dRecordHeaderLen in Q1.
        destruct (d_appended c1), (d_appended c); lia.
      + destruct (dafter_inv c1 PI) as (D1 & D2 & D3 & D4).
        destruct (d_alive (dafter c1)) eqn:Ea2; [|apply Dead; [exact Ea2|lia]].
        assert (Ea1 : d_alive c1 = true).
        { destruct (d_alive c1) eqn:E1; [reflexivity|]. unfold ConnD.dafter in Ea2. rewrite E1 in Ea2. cbn [negb] in Ea2. congruence. }
        apply IH; [exact D1|]. destruct (P3 Ea1) as [Q1 Q2]. unfold dmeasure. rewrite D2, (D4 eq_refl).
        unfold dRecordHeaderLen in Q1. destruct (d_appended c); lia.
  Qed.
End DInv.

(* ================= what does not hold on the code as built ================= *)
(* concrete environment: null protection, every record fresh, no dwell period, and a handshake
   layer that accepts every message and reads another one (the server's cookie exchange answers
   every cookie-less ClientHello with a HelloVerifyRequest and reads the next ClientHello) *)
Definition d_id (_ : bool) (_ : N) (b : bytes) : option bytes := Some b.
Definition d_loop_msg (_ : unit) (_ : bytes) : option (unit * want * option N) := Some (tt, WMsg, None).
Definition d_no_ccs (_ : unit) : option (unit * want) := None.
Definition always (_ : nat) : bool := true.
Definition never (_ : nat) : bool := false.

Definition drun0 := drun unit d_loop_msg d_no_ccs d_id always never false false.

(* a record header: type, version 0x0101, epoch, sequence number 0, length *)
Definition rec_hdr (typ epoch : N) (n : nat) : bytes :=
  [typ; 1; 1; 0; epoch; 0; 0; 0; 0; 0; 0; N.of_nat (n / 256); N.of_nat (n mod 256)]%N.

(* ---------- K13: readDatagram recurses once per datagram of a foreign address ---------- *)
Lemma drun0_foreign : forall k (c : dconn unit) rest,
  d_alive c = true -> length (d_raw c) < dRecordHeaderLen ->
  drun0 (S k) c (Foreign :: rest) = drun0 k (set_depth unit c (S (d_depth c))) rest.
Proof.
  intros k c rest Ha Hr. unfold drun0. cbn [drun]. rewrite Ha. cbn [negb].
  apply Nat.ltb_lt in Hr. rewrite Hr. reflexivity.
Qed.

Lemma K10_depth_grows : forall k (c : dconn unit),
  d_alive c = true -> length (d_raw c) < dRecordHeaderLen ->
  d_depth (fst (fst (drun0 (S k) c (repeat Foreign k)))) = d_depth c + k.
Proof.
  induction k as [|k IH]; intros c Ha Hr.
  - unfold drun0. cbn [repeat drun]. rewrite Ha. cbn [negb].
    apply Nat.ltb_lt in Hr. rewrite Hr. cbn. lia.
  - cbn [repeat]. rewrite drun0_foreign by assumption.
    rewrite IH; cbn [set_depth d_depth d_alive d_raw]; auto. lia.
Qed.

Theorem K10_depth_unbounded : forall B, exists dgs,
  B < d_depth (fst (fst (drun0 (S (length dgs)) (dinit tt WMsg) dgs))).
Proof.
  intros B. exists (repeat Foreign (S B)). rewrite repeat_length.
  rewrite K10_depth_grows; cbn; auto; try lia. unfold dRecordHeaderLen. lia.
Qed.

(* ---------- K14: handBuf grows without bound inside one readRecordOrCCS call ---------- *)
(* one datagram: a handshake record of the current epoch carrying one byte, followed by an empty
   handshake record of epoch 1; the first is appended and, the next record being a handshake
   record, the loop goes on; the second is dropped by the epoch filter and the loop reads the
   next datagram without returning to readHandshake *)
Definition k11_dgram : dgram := FromPeer (rec_hdr 22 0 1 ++ [7%N] ++ rec_hdr 22 1 0).

Definition k11_bytes : bytes := rec_hdr 22 0 1 ++ [7%N] ++ rec_hdr 22 1 0.

Definition k11_state (raw : bytes) (hs : unit) (hand : bytes) (pend : pending) (retry n depth iters calls freads : nat)
           (deferred ccsd dwell counted appended : bool) (delivered : nat) : dconn unit :=
  mkD unit true WMsg hs raw hand pend retry None false 0%N deferred ccsd dwell delivered freads counted n depth appended iters calls.

Lemma drun0_load : forall k (c : dconn unit) d rest,
  d_alive c = true -> length (d_raw c) <? dRecordHeaderLen = true ->
  drun0 (S k) c (d :: rest) = drun0 k (load unit c d) rest.
Proof. intros k c d rest Ha Hr. unfold drun0. cbn [drun]. rewrite Ha, Hr. reflexivity. Qed.

Lemma drun0_cont : forall k (c c1 : dconn unit) dgs,
  d_alive c = true -> length (d_raw c) <? dRecordHeaderLen = false ->
  process unit d_no_ccs d_id always never false c = (c1, Continue) ->
  drun0 (S k) c dgs = drun0 k c1 dgs.
Proof. intros k c c1 dgs Ha Hr Hp. unfold drun0. cbn [drun]. rewrite Ha, Hr, Hp. reflexivity. Qed.

Lemma K11_step : forall k rest hs hand pend retry n depth iters calls freads deferred ccsd dwell counted appended delivered,
  drun0 (3 + k) (k11_state [] hs hand pend retry n depth iters calls freads deferred ccsd dwell counted appended delivered) (k11_dgram :: rest) =
  drun0 k (k11_state [] hs (hand ++ [7%N]) pend 0 (2 + n) 0 iters calls freads deferred ccsd dwell counted true delivered) rest.
Proof.
  intros. change (3 + k) with (S (S (S k))).
  rewrite drun0_load by reflexivity.
  rewrite (drun0_cont (S k) _ (k11_state (rec_hdr 22 1 0) hs (hand ++ [7%N]) pend 0 (1 + n) 0 iters calls freads deferred ccsd dwell counted true delivered));
    [|reflexivity|reflexivity|vm_compute; reflexivity].
  rewrite (drun0_cont k _ (k11_state [] hs (hand ++ [7%N]) pend 0 (2 + n) 0 iters calls freads deferred ccsd dwell counted true delivered));
    [reflexivity|reflexivity|reflexivity|vm_compute; reflexivity].
Qed.

Lemma K11_grows : forall k hs hand pend retry n depth iters calls freads deferred ccsd dwell counted appended delivered,
  exists retry' n' depth' appended',
  drun0 (3 * k + 1) (k11_state [] hs hand pend retry n depth iters calls freads deferred ccsd dwell counted appended delivered) (repeat k11_dgram k) =
  (k11_state [] hs (hand ++ repeat 7%N k) pend retry' n' depth' iters calls freads deferred ccsd dwell counted appended' delivered, [], DBlocked).
Proof.
  induction k as [|k IH]; intros.
  - exists retry, n, depth, appended. cbn [repeat]. rewrite app_nil_r. reflexivity.
  - replace (3 * S k + 1) with (3 + (3 * k + 1)) by lia. cbn [repeat]. rewrite K11_step.
    destruct (IH hs (hand ++ [7%N]) pend 0 (2 + n) 0 iters calls freads deferred ccsd dwell counted true delivered)
      as (r' & n' & d' & a' & E).
    exists r', n', d', a'. rewrite E. rewrite <- app_assoc. reflexivity.
Qed.

Theorem K11_handbuf_unbounded : forall B, exists dgs fuel,
  let c := fst (fst (drun0 fuel (dinit tt WMsg) dgs)) in
  d_alive c = true /\ B < length (d_hand c).
Proof.
  intros B. exists (repeat k11_dgram (S B)), (3 * S B + 1).
  destruct (K11_grows (S B) tt [] [] 0 0 0 0 1 0 false false false false false 0) as (r & n & d & a & E).
  change (dinit tt WMsg) with (k11_state [] tt [] [] 0 0 0 0 1 0 false false false false false 0).
  cbn zeta. rewrite E. cbn [fst k11_state d_alive d_hand]. split; [reflexivity|].
  rewrite app_length, repeat_length. cbn. lia.
Qed.

(* ---------- K12: more than maxHandshakeFragments reassembly buffers ---------- *)
(* a fragment (1 of 2 bytes) of message number seq / a complete empty message *)
Definition k9_frag (seq : nat) : dgram :=
  FromPeer (rec_hdr 22 0 13 ++ [1; 0; 0; 2; N.of_nat (seq / 256); N.of_nat (seq mod 256); 0; 0; 0; 0; 0; 1; 9]%N).
Definition k9_msg : dgram :=
  FromPeer (rec_hdr 22 0 12 ++ [1; 0; 0; 0; 255; 255; 0; 0; 0; 0; 0; 0]%N).
Definition k9_input : list dgram :=
  map k9_frag (seq 0 255) ++ [k9_msg] ++ map k9_frag (seq 255 255) ++ [k9_msg] ++ map k9_frag (seq 510 255).

Theorem K9_pending_exceeds :
  let c := fst (fst (drun0 4000 (dinit tt WMsg) k9_input)) in
  d_alive c = true /\ length (d_pend c) = 765 /\ d_calls c = 3.
Proof. vm_compute. repeat split; reflexivity. Qed.


(* ================= the statements used by Props/C09.v ================= *)
Definition non_expanding (dec : bool -> N -> bytes -> option bytes) : Prop :=
  forall ci typ body data, dec ci typ body = Some data -> length data <= length body.

Theorem d_state_bounds : forall S on_msg on_ccs dec fresh dwell_time has_flight fix11,
  non_expanding dec -> forall fuel (s : S) w dgs,
  let c := fst (fst (drun S on_msg on_ccs dec fresh dwell_time has_flight fix11 fuel (dinit s w) dgs)) in
  d_retry c <= 17 /\ (d_alive c = true -> d_retry c <= maxUselessRecords) /\
  d_freads c <= 257 /\ (d_alive c = true -> d_freads c <= maxHandshakeFragments) /\
  Forall (fun kv => fb_n (snd kv) <= 64 * 1024 /\ length (fb_data (snd kv)) = fb_n (snd kv) /\
                    length (fb_recv (snd kv)) = (fb_n (snd kv) + 7) / 8) (d_pend c) /\
  length (d_pend c) <= 257 * d_calls c /\ length (d_pend c) <= 256 * 256.
Proof.
  intros S on_msg on_ccs dec fresh dwell_time has_flight fix11 Hd fuel s w dgs c.
  pose proof (drun_inv S on_msg on_ccs dec fresh dwell_time has_flight fix11 Hd fuel (dinit s w) dgs
                (dinit_inv S on_msg on_ccs dec fix11 Hd s w)) as [H R].
  fold c in H, R. destruct H as (H1 & H2 & H3 & H4 & H5 & H6). destruct R as [R1 R2].
  split; [exact R1|]. split; [exact R2|]. split; [exact H1|]. split; [exact H2|].
  split.
  - eapply Forall_impl; [|exact H3]. intros kv (A & B & C & D). unfold maxHandshake in A.
    change (64 * 1024) with 65536. repeat split; assumption.
  - split; [|apply (keys_bound dec fix11 Hd); exact H4].
    destruct (d_counted c); lia.
Qed.

Theorem d_progress : forall S on_msg on_ccs dec fresh dwell_time has_flight fix11,
  non_expanding dec -> forall fuel (s : S) w dgs,
  dmeasure S (dinit s w) dgs < fuel ->
  snd (drun S on_msg on_ccs dec fresh dwell_time has_flight fix11 fuel (dinit s w) dgs) <> DOutOfFuel.
Proof.
  intros S on_msg on_ccs dec fresh dwell_time has_flight fix11 Hd fuel s w dgs Hm.
  apply drun_progress; [exact Hd | apply (dinit_inv S on_msg on_ccs dec fix11 Hd) | exact Hm].
Qed.

(* one trip through the loop of readRecordOrCCS: the reassembly state and the handshake layer are
   untouched, at least one record header leaves the datagram buffer, handBuf grows by at most
   what left the datagram buffer, and not at all after completion or while the
   ChangeCipherSpec is awaited *)
Theorem d_record_step : forall S on_ccs dec fresh dwell_time has_flight,
  non_expanding dec -> forall c : dconn S,
  d_alive c = true -> d_retry c <= maxUselessRecords -> dRecordHeaderLen <= length (d_raw c) ->
  let c1 := fst (process S on_ccs dec fresh dwell_time has_flight c) in
  d_pend c1 = d_pend c /\ d_hs c1 = d_hs c /\ d_want c1 = d_want c /\
  (d_alive c1 = true ->
     length (d_raw c1) + dRecordHeaderLen <= length (d_raw c) /\
     length (d_hand c1) + length (d_raw c1) + dRecordHeaderLen <= length (d_hand c) + length (d_raw c)) /\
  (d_hand c1 <> d_hand c -> d_want c <> WApp /\ (d_want c = WCcs -> d_ccs_done c = true)).
Proof.
  intros S on_ccs dec fresh dwell_time has_flight Hd c Ha Hr Hraw c1.
  assert (R : retry_ok S c) by (split; [unfold maxUselessRecords in Hr; lia | intros _; exact Hr]).
  pose proof (process_ok S (fun _ _ => None) on_ccs dec fresh dwell_time has_flight false Hd c Ha R Hraw) as (P1 & P2 & P3 & P4 & P5).
  fold c1 in P1, P2, P3, P4, P5. destruct P1 as (S1 & S2 & S3 & S4 & S5 & S6 & S7 & S8).
  split; [exact S1|]. split; [exact S7|]. split; [exact S6|]. split; [exact P3|].
  intros Hne. destruct P4 as [P4|(dt & E1 & E2 & E3 & E4 & E5 & E6)]; [contradiction|]. split; assumption.
Qed.

Lemma d_id_non_expanding : non_expanding d_id.
Proof. intros ci typ body data H. injection H as <-. apply le_n. Qed.
