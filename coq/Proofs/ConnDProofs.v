(* C09, datagram stack: what holds for the machine of Model/ConnD.v for every handshake layer,
   record protection, replay verdict, clock and datagram sequence; and that the bounds fail for
   the code before fixes 1e7de38 (K12), 593205a (K13), 6b259b8 (K14), bfc7028 (K15). *)
From V Require Import Model.Codec Model.ConnT Model.Fragment Model.ConnD Proofs.FragmentProofs.
From Coq Require Import ZArith ZifyNat ZifyN ZifyBool Lia FinFun.
Open Scope nat_scope.

Ltac break_if :=
  match goal with
  | |- context [if ?b then _ else _] => let E := fresh "E" in destruct b eqn:E
  end.
Ltac break_match :=
  match goal with
  | |- context [match ?x with _ => _ end] => let E := fresh "E" in destruct x eqn:E
  end.

(* what readHandshake still accepts in handBuf while it waits: less than a header, or less than
   the fragment the header announces *)
Definition handWaitD : nat := dHeaderLen + maxHandshakeT - 1.

Section DInv.
  Variable S : Type.
  Variable on_msg : S -> bytes -> option (S * want * option N).
  Variable on_ccs : S -> option (S * want).
  Variable dec : bool -> N -> bytes -> option bytes.
  Variable fresh : nat -> bool.
  Variable dwell_time : nat -> bool.
  Variable has_flight : bool.

  Notation dconn := (dconn S).
  Notation process := (process S on_ccs dec fresh dwell_time has_flight).
  Notation ddrive := (ddrive S on_msg on_ccs).
  Notation dafter := (dafter S on_msg on_ccs).
  Notation drun := (drun S on_msg on_ccs dec fresh dwell_time has_flight).

  Ltac hfields :=
    cbn [fst ConnD.dkill ConnD.set_alive ConnD.set_raw ConnD.set_n ConnD.set_retry ConnD.set_dwell ConnD.set_deferred
         ConnD.set_epoch ConnD.set_ccs_done ConnD.set_cipher ConnD.set_delivered ConnD.set_hand
         ConnD.set_pend ConnD.set_counted ConnD.set_freads ConnD.set_calls ConnD.set_want ConnD.set_hs
         ConnD.set_vers ConnD.set_entry ConnD.set_frames ConnD.new_call ConnD.move_on ConnD.enter_call
         d_pend d_calls d_freads d_counted d_want d_hs d_retry d_alive d_raw d_hand d_n
         d_deferred d_entry d_frames d_ccs_done] in *.

  (* the part of the state readRecordOrCCS does not touch *)
  Definition same_hs (c c1 : dconn) : Prop :=
    d_pend c1 = d_pend c /\ d_calls c1 = d_calls c /\
    d_freads c1 = d_freads c /\ d_counted c1 = d_counted c /\ d_want c1 = d_want c /\
    d_hs c1 = d_hs c.

  (* the frame of readRecordOrCCS: nothing in its loop enters another one *)
  Definition same_frame (c c1 : dconn) : Prop := d_entry c1 = d_entry c /\ d_frames c1 = d_frames c.

  Definition retry_ok (c : dconn) : Prop := d_retry c <= 17 /\ (d_alive c = true -> d_retry c <= 16).

  Lemma same_hs_refl : forall c : dconn, same_hs c c.
  Proof. intros; unfold same_hs; auto 10. Qed.
  Lemma same_frame_refl : forall c : dconn, same_frame c c.
  Proof. intros; unfold same_frame; auto. Qed.

  Lemma dretry_fields : forall c : dconn, retry_ok c -> d_alive c = true ->
    let c1 := dretry_or_die S c in
    same_hs c c1 /\ d_hand c1 = d_hand c /\ d_raw c1 = d_raw c /\ retry_ok c1 /\ same_frame c c1.
  Proof.
    intros c [R1 R2] Ha. specialize (R2 Ha). cbn zeta. unfold dretry_or_die.
    destruct (maxUselessRecords <? Datatypes.S (d_retry c)) eqn:E; unfold same_hs, same_frame, retry_ok; hfields.
    - repeat split; auto; try lia; try (intros; discriminate).
    - apply Nat.ltb_ge in E. unfold maxUselessRecords in E. repeat split; auto; try lia.
  Qed.

  (* what one trip through the record switch may do, relative to the state c it starts from
     (whose rawInputBuf is already advanced past the record) *)
  Definition sw_ok (data : bytes) (hs_done expect : bool) (c c1 : dconn) : Prop :=
    same_hs c c1 /\ retry_ok c1 /\
    (d_alive c1 = true -> length (d_raw c1) <= length (d_raw c)) /\
    (d_hand c1 = d_hand c /\ same_frame c c1 \/
     (d_hand c1 = d_hand c ++ data /\ 0 < length data /\ hs_done = false /\ expect = false /\ same_frame c c1 /\ d_alive c1 = true)).

  Lemma sw_refl_like : forall dt hs_done expect (c c1 : dconn),
    same_hs c c1 -> d_retry c1 = d_retry c -> (d_alive c1 = true -> d_alive c = true) ->
    length (d_raw c1) <= length (d_raw c) -> d_hand c1 = d_hand c -> same_frame c c1 ->
    retry_ok c -> sw_ok dt hs_done expect c c1.
  Proof.
    intros dt hd ex c c1 H1 H2 H3 H4 H5 H6 [R1 R2]. unfold sw_ok, retry_ok.
    rewrite H2. split; [exact H1|]. split; [split; [exact R1|intros A; apply R2; auto]|].
    split; [intros; exact H4|]. left; auto.
  Qed.

  Lemma sw_kill : forall dt hd ex (c : dconn), retry_ok c -> sw_ok dt hd ex c (dkill S c).
  Proof.
    intros dt hd ex c [R1 R2]. unfold sw_ok, retry_ok, same_hs, same_frame. hfields.
    repeat split; auto 10; try lia; try (intros; discriminate).
  Qed.

  Lemma p_alert_ok : forall hd ex (c : dconn) data, retry_ok c -> d_alive c = true ->
    sw_ok data hd ex c (fst (p_alert S c data)).
  Proof.
    intros hd ex c data R Ha. unfold p_alert, p_alert_with.
    destruct data as [|lvl [|code [|x t]]]; try (apply sw_kill; exact R).
    destruct (code =? 0)%N; [apply sw_kill; exact R|].
    destruct (lvl =? 1)%N; [|apply sw_kill; exact R].
    cbn [fst].
    assert (R' : retry_ok (set_raw S c [])) by (destruct R; split; hfields; auto).
    assert (Ha' : d_alive (set_raw S c []) = true) by (hfields; exact Ha).
    destruct (dretry_fields (set_raw S c []) R' Ha') as (F1 & F2 & F3 & F4 & F5).
    hfields. unfold sw_ok.
    split. { unfold same_hs in *. hfields. exact F1. }
    split; [exact F4|].
    split; [intros _; rewrite F3; cbn; lia|].
    left. split; [exact F2|].
    unfold same_frame in *. hfields. exact F5.
  Qed.

  Lemma p_ccs_ok : forall hd ex (c : dconn) data rest idx, retry_ok c -> d_alive c = true ->
    sw_ok data hd ex c (fst (p_ccs S on_ccs dwell_time has_flight c data rest idx hd ex)).
  Proof.
    intros hd ex c data rest idx R Ha. unfold p_ccs.
    destruct data as [|one tl]; [apply sw_kill; exact R|].
    destruct one as [|[p|p|]]; try (apply sw_kill; exact R).
    destruct tl; [|apply sw_kill; exact R].
    destruct (hd && d_dwell c && dwell_time idx && has_flight).
    { cbn [fst]. apply sw_refl_like; auto using same_hs_refl, same_frame_refl. }
    set (c' := if hd && d_dwell c then set_dwell S c false else c).
    assert (Hc' : same_hs c c' /\ d_retry c' = d_retry c /\ d_alive c' = d_alive c /\ d_raw c' = d_raw c /\
                  d_hand c' = d_hand c /\ same_frame c c').
    { unfold c'. destruct (hd && d_dwell c); unfold same_hs, same_frame; hfields; auto 15. }
    destruct Hc' as (S1 & S2 & S3 & S4 & S5 & S6).
    assert (G : forall c2 : dconn, same_hs c' c2 -> d_retry c2 = d_retry c' -> (d_alive c2 = true -> d_alive c' = true) ->
                 d_raw c2 = d_raw c' -> d_hand c2 = d_hand c' -> same_frame c' c2 -> sw_ok (1%N :: nil) hd ex c c2).
    { intros c2 T1 T2 T3 T4 T5 T6.
      apply sw_refl_like; [unfold same_hs in *; intuition congruence | congruence
                          | intros A; rewrite <- S3; apply T3; exact A | rewrite T4, S4; lia | congruence
                          | unfold same_frame in *; intuition congruence | exact R]. }
    destruct (negb ex && negb (empty (d_hand c'))).
    { cbn [fst]. apply G; unfold same_hs, same_frame; hfields; auto 10. }
    destruct (negb ex).
    { cbn [fst]. apply G; auto using same_hs_refl, same_frame_refl. }
    destruct (on_ccs (d_hs c')) as [sw|].
    2:{ cbn [fst]. apply G; unfold same_hs, same_frame; hfields; auto 10. intros; discriminate. }
    destruct (0 <? length rest); cbn [fst]; apply G; unfold same_hs, same_frame; hfields; auto 10.
  Qed.

  Lemma p_app_ok : forall hd ex (c : dconn) data, retry_ok c -> d_alive c = true ->
    sw_ok data hd ex c (fst (p_app S c data hd ex)).
  Proof.
    intros hd ex c data R Ha. unfold p_app.
    destruct (negb hd || ex); [apply sw_kill; exact R|].
    destruct (length data =? 0); cbn [fst]; apply sw_refl_like; hfields; auto; unfold same_hs, same_frame; hfields; auto 10.
  Qed.

  Lemma p_hs_ok : forall hd ex (c : dconn) data rest idx, retry_ok c -> d_alive c = true ->
    sw_ok data hd ex c (fst (p_hs S dwell_time c data rest idx hd ex)).
  Proof.
    intros hd ex c data rest idx R Ha. unfold p_hs.
    destruct (hd && d_dwell c && dwell_time idx); [cbn [fst]; apply sw_refl_like; auto using same_hs_refl, same_frame_refl|].
    destruct (length data =? 0) eqn:El; [apply sw_kill; exact R|].
    destruct ex; [cbn [fst]; apply sw_refl_like; auto using same_hs_refl, same_frame_refl|].
    destruct hd; [cbn [fst]; apply sw_refl_like; auto using same_hs_refl, same_frame_refl|].
    apply Nat.eqb_neq in El.
    assert (G : sw_ok data false false c (set_hand S c (d_hand c ++ data))).
    { destruct R as [R1 R2]. unfold sw_ok, retry_ok, same_hs, same_frame. hfields.
      repeat split; auto; try lia. right. repeat split; auto. lia. }
    destruct (_ && _); cbn [fst]; exact G.
  Qed.

  Lemma dispatch_ok : forall hd ex (c : dconn) typ data rest idx, retry_ok c -> d_alive c = true ->
    sw_ok data hd ex c (fst (dispatch S on_ccs dwell_time has_flight c typ data rest idx hd ex)).
  Proof.
    intros. unfold dispatch, dispatch_with.
    destruct (typ =? 21)%N; [apply (p_alert_ok hd ex); auto|].
    destruct (typ =? 20)%N; [apply p_ccs_ok; auto|].
    destruct (typ =? 23)%N; [apply p_app_ok; auto|].
    destruct (typ =? 22)%N; [apply p_hs_ok; auto|].
    apply sw_kill; auto.
  Qed.

  (* record protection never expands: the plaintext is no longer than the protected fragment
     (CBC strips IV, MAC and padding; GCM strips nonce and tag; the null cipher is the identity) *)
  Hypothesis dec_short : forall ci typ body data, dec ci typ body = Some data -> length data <= length body.

  Definition body_ok (hd ex : bool) (body rest : bytes) (c c1 : dconn) : Prop :=
    same_hs c c1 /\ retry_ok c1 /\
    (d_alive c1 = true -> length (d_raw c1) <= length rest) /\
    (d_hand c1 = d_hand c /\ same_frame c c1 \/
     (exists data, d_hand c1 = d_hand c ++ data /\ 0 < length data /\ length data <= maxPlaintext /\
                   length data <= length body /\ hd = false /\ ex = false /\ same_frame c c1 /\ d_alive c1 = true)).

  Lemma body_ok_same : forall hd ex body rest (c c2 : dconn),
    retry_ok c -> d_alive c = true ->
    same_hs c c2 -> d_retry c2 = d_retry c -> d_hand c2 = d_hand c ->
    same_frame c c2 -> length (d_raw c2) <= length rest ->
    body_ok hd ex body rest c c2.
  Proof.
    intros hd ex body rest c c2 [R1 R2] Ha S1 S2 S3 S4 S5. unfold body_ok, retry_ok. rewrite S2.
    split; [exact S1|]. split; [split; [exact R1|intros _; apply R2; exact Ha]|].
    split; [intros _; exact S5|]. left; auto.
  Qed.

  Lemma body_ok_kill : forall hd ex body rest (c : dconn), retry_ok c -> body_ok hd ex body rest c (dkill S c).
  Proof.
    intros hd ex body rest c [R1 R2]. unfold body_ok, retry_ok, same_hs, same_frame. hfields.
    repeat split; auto 10; try lia; try (intros; discriminate).
  Qed.

  Lemma p_body_ok : forall hd ex (c : dconn) typ epoch body rest idx, retry_ok c -> d_alive c = true ->
    body_ok hd ex body rest c (fst (p_body S on_ccs dec fresh dwell_time has_flight c typ epoch body rest idx hd ex)).
  Proof.
    intros hd ex c typ epoch body rest idx R Ha. unfold p_body, p_body_with.
    destruct (negb (epoch =? d_epoch c)%N).
    { cbn [fst]. apply body_ok_same; hfields; auto; unfold same_hs, same_frame; hfields; auto 10. }
    destruct (dec (d_cipher c) typ body) as [data|] eqn:Ed.
    2:{ destruct hd; cbn [fst]; [|apply body_ok_kill; exact R].
        apply body_ok_same; hfields; auto; unfold same_hs, same_frame; hfields; auto 10. }
    apply dec_short in Ed.
    destruct ((typ =? 20)%N && negb ex && negb hd && empty (d_hand c)).
    { cbn [fst]. apply body_ok_same; hfields; auto; unfold same_hs, same_frame; hfields; auto 10. }
    destruct (negb (fresh idx)).
    { cbn [fst]. apply body_ok_same; hfields; auto; unfold same_hs, same_frame; hfields; auto 10. }
    destruct (maxPlaintext <? length data) eqn:Emp; [apply body_ok_kill; exact R|]. apply Nat.ltb_ge in Emp.
    destruct (negb (d_cipher c) && (typ =? 23)%N); [apply body_ok_kill; exact R|].
    set (cr := if negb (typ =? 21)%N && negb (typ =? 20)%N && (0 <? length data) then set_retry S c 0 else c).
    assert (Hcr : same_hs c cr /\ retry_ok cr /\ d_alive cr = true /\ d_hand cr = d_hand c /\
                  same_frame c cr /\ d_raw cr = d_raw c).
    { unfold cr. destruct (_ && _ && _).
      - unfold same_hs, retry_ok, same_frame. hfields. repeat split; auto; lia.
      - repeat split; auto using same_hs_refl; apply R. }
    destruct Hcr as (C1 & C2 & C3 & C4 & C5 & C6). clearbody cr.
    set (c2 := set_raw S cr rest).
    assert (D : sw_ok data hd ex c2 (fst (dispatch S on_ccs dwell_time has_flight c2 typ data rest idx hd ex))).
    { apply dispatch_ok; unfold c2; hfields; auto. }
    unfold dispatch in D.
    destruct D as (D1 & D2 & D3 & D4).
    assert (S2 : same_hs c c2) by (unfold c2, same_hs in *; hfields; intuition congruence).
    assert (H2 : d_hand c2 = d_hand c) by (unfold c2; hfields; congruence).
    assert (A2 : same_frame c c2) by (unfold c2, same_frame in *; hfields; intuition congruence).
    assert (R2 : d_raw c2 = rest) by (unfold c2; hfields; reflexivity).
    rewrite H2, R2 in *.
    unfold body_ok.
    split. { unfold same_hs in *. intuition congruence. }
    split; [exact D2|]. split; [exact D3|].
    destruct D4 as [[D4 D5]|(E1 & E2 & E3 & E4 & E5 & E6)].
    - left. split; [exact D4|]. unfold same_frame in *. intuition congruence.
    - right. exists data. unfold same_frame in *. repeat split; auto; intuition congruence.
  Qed.

  (* one trip through the loop of readRecordOrCCS *)
  Definition proc_ok (c c1 : dconn) : Prop :=
    same_hs c c1 /\ retry_ok c1 /\
    (d_alive c1 = true ->
       length (d_raw c1) + dRecordHeaderLen <= length (d_raw c) /\
       length (d_hand c1) + length (d_raw c1) + dRecordHeaderLen <= length (d_hand c) + length (d_raw c)) /\
    (d_hand c1 = d_hand c /\ same_frame c c1 \/
     (exists data, d_hand c1 = d_hand c ++ data /\ 0 < length data /\ length data <= maxPlaintext /\
                   same_frame c c1 /\ d_want c <> WApp /\ (d_want c = WCcs -> d_ccs_done c = true) /\ d_alive c1 = true)).

  Lemma process_ok : forall c : dconn,
    d_alive c = true -> retry_ok c -> dRecordHeaderLen <= length (d_raw c) ->
    proc_ok c (fst (process c)).
  Proof.
    intros c Ha R Hraw. unfold ConnD.process, process_with. cbn zeta.
    set (n := N.to_nat (b16 (nth0 (d_raw c) 11) (nth0 (d_raw c) 12))).
    assert (K : proc_ok c (dkill S c)).
    { destruct R as [R1 R2]. unfold proc_ok, retry_ok, same_hs, same_frame. hfields.
      repeat split; auto 10; try lia; try (intros; discriminate). }
    assert (Dr : proc_ok c (set_raw S c [])).
    { destruct R as [R1 R2]. unfold proc_ok, retry_ok, same_hs, same_frame. hfields.
      repeat split; auto 10; try (cbn [length]; lia). }
    destruct (match d_vers c with Some v => _ | None => false end).
    { destruct (want_eqb (d_want c) WApp); cbn [fst]; assumption. }
    destruct (match d_vers c with Some _ => false | None => _ end); [exact K|].
    destruct (want_eqb (d_want c) WApp && _); [exact Dr|].
    destruct (maxCiphertext <? n); [exact K|].
    destruct (length (d_raw c) <? dRecordHeaderLen + n) eqn:El; [exact K|].
    apply Nat.ltb_ge in El.
    set (c' := set_n S c (Datatypes.S (d_n c))).
    set (body := firstn n (skipn dRecordHeaderLen (d_raw c))).
    set (rest := skipn (dRecordHeaderLen + n) (d_raw c)).
    assert (Lb : length body = n).
    { unfold body. rewrite firstn_length, skipn_length. lia. }
    assert (Lr : length rest + dRecordHeaderLen + n = length (d_raw c)).
    { unfold rest. rewrite skipn_length. lia. }
    assert (R' : retry_ok c') by (destruct R; split; unfold c'; hfields; auto).
    assert (Ha' : d_alive c' = true) by (unfold c'; hfields; exact Ha).
    pose proof (p_body_ok (want_eqb (d_want c) WApp) (want_eqb (d_want c) WCcs && negb (d_ccs_done c))
                  c' (nth0 (d_raw c) 0) (b16 (nth0 (d_raw c) 3) (nth0 (d_raw c) 4)) body rest (d_n c) R' Ha') as B.
    unfold p_body in B. destruct B as (B1 & B2 & B3 & B4).
    assert (E' : same_hs c c' /\ d_hand c' = d_hand c /\ same_frame c c' /\ d_want c' = d_want c /\ d_ccs_done c' = d_ccs_done c)
      by (unfold c', same_hs, same_frame; hfields; auto 15).
    destruct E' as (E1 & E2 & E3 & E4 & E5). rewrite E2 in *.
    unfold proc_ok.
    split. { unfold same_hs in *. intuition congruence. }
    split; [exact B2|].
    split.
    { intros A. specialize (B3 A). split; [lia|].
      destruct B4 as [[B4 _]|(dt & F1 & F2 & F3 & F4 & F5 & F6 & F7 & F8)].
      - rewrite B4. lia.
      - rewrite F1, app_length. lia. }
    destruct B4 as [[B4 B5]|(dt & F1 & F2 & F3 & F4 & F5 & F6 & F7 & F8)].
    - left. split; [exact B4|]. unfold same_frame in *. intuition congruence.
    - right. exists dt. repeat split; auto.
      + unfold same_frame in *. intuition congruence.
      + unfold same_frame in *. intuition congruence.
      + intros W. rewrite W in F5. cbn in F5. discriminate.
      + intros W. rewrite W in F6. cbn in F6. destruct (d_ccs_done c); [reflexivity|discriminate].
  Qed.

  (* ---------------- readHandshake ---------------- *)
  Definition keys_ok (p : pending) : Prop := NoDup (map fst p).

  Lemma premove_in : forall k k' (p : pending), In k (map fst (premove k' p)) -> In k (map fst p) /\ k <> k'.
  Proof.
    induction p as [|[k0 v] t IH]; cbn [premove map fst]; intros H; [contradiction|].
    destruct (N.eqb k' k0) eqn:E.
    - destruct (IH H). split; [right; assumption|assumption].
    - cbn [map fst In] in H. destruct H as [<-|H].
      + split; [left; reflexivity|]. intros ->. rewrite N.eqb_refl in E. discriminate.
      + destruct (IH H). split; [right; assumption|assumption].
  Qed.

  Lemma premove_keys : forall k (p : pending), keys_ok p -> keys_ok (premove k p).
  Proof.
    unfold keys_ok. intros k p ND. induction p as [|[k0 v] t IH]; cbn [premove]; [assumption|].
    cbn [map fst] in ND. inversion ND as [|? ? Hn Ht]; subst.
    specialize (IH Ht).
    destruct (N.eqb k k0); [assumption|].
    cbn [map fst]. constructor; [|exact IH]. intros X. apply premove_in in X as [X _]. contradiction.
  Qed.

  Lemma rh_step_keys : forall (p : pending) f, keys_ok p -> keys_ok (fst (rh_step p f)).
  Proof.
    intros p f K. unfold rh_step.
    destruct (Nat.ltb maxHandshake (f_blen f)); [exact K|].
    destruct (Nat.ltb (f_blen f) (f_off f + f_len f)); [exact K|].
    destruct (Nat.ltb (f_len f) (f_blen f) || Nat.ltb 0 (f_off f)); [|exact K].
    destruct (complete _); cbn [fst].
    - apply premove_keys; exact K.
    - unfold pinsert, keys_ok. pose proof (premove_keys (f_seq f) p K) as I1. cbn [map fst].
      constructor; [|exact I1]. intros X. apply premove_in in X as [_ X]. apply X; reflexivity.
  Qed.

  (* the number of reassembly buffers: removing an existing key makes room for one *)
  Lemma premove_len : forall k (p : pending), length (premove k p) <= length p.
  Proof.
    induction p as [|[k0 v] t IH]; cbn [premove length]; [lia|].
    destruct (N.eqb k k0); cbn [length]; lia.
  Qed.

  Lemma premove_lt : forall k (p : pending), pmem k p = true -> Datatypes.S (length (premove k p)) <= length p.
  Proof.
    unfold pmem. induction p as [|[k0 v] t IH]; cbn [plookup premove length]; intros H; [discriminate|].
    destruct (N.eqb k k0).
    - pose proof (premove_len k t). lia.
    - cbn [length]. specialize (IH H). lia.
  Qed.

  Lemma rh_step_len : forall (p : pending) f,
    length p <= maxHandshakeFragments -> refuse_new_buffer p f = false ->
    length (fst (rh_step p f)) <= maxHandshakeFragments.
  Proof.
    intros p f L Rf. unfold rh_step, refuse_new_buffer, is_fragment in *.
    destruct (Nat.ltb maxHandshake (f_blen f)); [exact L|].
    destruct (Nat.ltb (f_blen f) (f_off f + f_len f)); [exact L|].
    destruct (Nat.ltb (f_len f) (f_blen f) || Nat.ltb 0 (f_off f)); [|exact L].
    cbn [andb] in Rf.
    destruct (complete _); cbn [fst].
    - pose proof (premove_len (f_seq f) p). lia.
    - unfold pinsert. cbn [length].
      destruct (pmem (f_seq f) p) eqn:Em.
      + pose proof (premove_lt _ _ Em). lia.
      + cbn [negb andb] in Rf. apply Nat.leb_gt in Rf.
        pose proof (premove_len (f_seq f) p). lia.
  Qed.

  Definition hinv (c : dconn) : Prop :=
    d_freads c <= 257 /\ (d_alive c = true -> d_freads c <= 256) /\
    Forall (fun kv => buf_ok (snd kv)) (d_pend c) /\ keys_ok (d_pend c) /\
    length (d_pend c) <= maxHandshakeFragments.

  (* what ddrive leaves alone *)
  Definition same_rec (c c1 : dconn) : Prop :=
    d_raw c1 = d_raw c /\ d_retry c1 = d_retry c /\ d_entry c1 = d_entry c /\ d_frames c1 = d_frames c /\
    d_n c1 = d_n c /\ length (d_hand c1) <= length (d_hand c) /\ (d_alive c1 = true -> d_alive c = true).

  Lemma same_rec_refl : forall c : dconn, same_rec c c.
  Proof. intros; unfold same_rec; auto 10. Qed.
  Lemma same_rec_trans : forall a b c : dconn, same_rec a b -> same_rec b c -> same_rec a c.
  Proof.
    unfold same_rec; intros a b c (A1 & A2 & A3 & A4 & A5 & A6 & A7) (B1 & B2 & B3 & B4 & B5 & B6 & B7).
    repeat split; try congruence; try lia; auto.
  Qed.

  Lemma move_on_inv : forall (c : dconn) s w v,
    hinv c -> hinv (move_on S c s w v) /\ same_rec c (move_on S c s w v) /\
    d_alive (move_on S c s w v) = d_alive c /\ d_hand (move_on S c s w v) = d_hand c /\
    d_deferred (move_on S c s w v) = d_deferred c.
  Proof.
    intros c s w v (H1 & H2 & H3 & H4 & H5).
    unfold move_on. destruct v as [x|]; destruct w; unfold hinv, same_rec; hfields;
      repeat split; auto; try lia.
  Qed.

  Lemma hinv_kill : forall c : dconn, hinv c -> hinv (dkill S c).
  Proof.
    intros c (H1 & H2 & H3 & H4 & H5). unfold hinv. hfields.
    split; [exact H1|]. split; [intros; discriminate|]. auto.
  Qed.

  Lemma ddrive_inv : forall fuel (c : dconn), hinv c -> hinv (ddrive fuel c) /\ same_rec c (ddrive fuel c).
  Proof.
    induction fuel as [|k IH]; intros c H; cbn [ConnD.ddrive]; [split; [exact H|apply same_rec_refl]|].
    destruct (d_alive c) eqn:Ea; cbn [negb]; [|split; [exact H|apply same_rec_refl]].
    destruct (d_want c) eqn:Ew.
    - (* readHandshake *)
      set (c1 := if d_counted c then c else set_counted S (set_freads S c (Datatypes.S (d_freads c))) true).
      assert (H1 : (d_freads c1 <= 256 -> hinv c1) /\ hinv (dkill S c1) /\ same_rec c c1 /\
                   d_alive c1 = true /\ d_hand c1 = d_hand c).
      { unfold c1. destruct (d_counted c) eqn:Ec.
        - split; [intros _; exact H|]. split; [apply hinv_kill; exact H|].
          repeat split; auto using same_rec_refl.
        - destruct H as (A1 & A2 & A3 & A4 & A5). specialize (A2 Ea).
          unfold hinv, same_rec. hfields.
          split; [intros X; repeat split; auto; try lia|].
          split; [repeat split; auto; try lia; try (intros; discriminate)|].
          repeat split; auto; try lia. }
      destruct H1 as (Hh' & Hk & Hs & Ha1 & Hd). clearbody c1.
      destruct (maxHandshakeFragments <? d_freads c1) eqn:Efr; [split; [exact Hk|]|].
      { eapply same_rec_trans; [exact Hs|]. unfold same_rec; hfields; repeat split; auto; try (intros; discriminate). }
      apply Nat.ltb_ge in Efr. unfold maxHandshakeFragments in Efr. specialize (Hh' Efr). rename Hh' into Hh.
      destruct (length (d_hand c1) <? dHeaderLen); [split; assumption|].
      set (h := d_hand c1).
      set (blen := b24n (nth0 h 1) (nth0 h 2) (nth0 h 3)).
      set (flen := b24n (nth0 h 9) (nth0 h 10) (nth0 h 11)).
      set (off := b24n (nth0 h 6) (nth0 h 7) (nth0 h 8)).
      destruct (maxHandshakeT <? blen); [split; [apply hinv_kill; exact Hh|]|].
      { eapply same_rec_trans; [exact Hs|]. unfold same_rec; hfields; repeat split; auto; try (intros; discriminate). }
      destruct (blen <? off + flen); [split; [apply hinv_kill; exact Hh|]|].
      { eapply same_rec_trans; [exact Hs|]. unfold same_rec; hfields; repeat split; auto; try (intros; discriminate). }
      destruct (length h <? dHeaderLen + flen) eqn:El; [split; assumption|].
      set (f := mkFrag (nth0 h 0) blen (b16 (nth0 h 4) (nth0 h 5)) off flen (firstn flen (skipn dHeaderLen h))).
      set (c2 := set_counted S (set_hand S c1 (skipn (dHeaderLen + flen) h)) false).
      assert (Hc2 : hinv c2 /\ same_rec c1 c2 /\ d_alive c2 = true /\ d_pend c2 = d_pend c1).
      { destruct Hh as (A1 & A2 & A3 & A4 & A5). unfold c2, hinv, same_rec. hfields. repeat split; auto.
        rewrite skipn_length. fold h. lia. }
      destruct Hc2 as (B1 & B2 & B4 & B5).
      assert (Kc2 : same_rec c (dkill S c2)).
      { eapply same_rec_trans; [exact Hs|]. eapply same_rec_trans; [exact B2|].
        unfold same_rec; hfields; repeat split; auto; try (intros; discriminate). }
      destruct (refuse_new_buffer (d_pend c2) f) eqn:Erf; [split; [apply hinv_kill; exact B1|exact Kc2]|].
      destruct (rh_step (d_pend c2) f) as [p o] eqn:Er.
      destruct B1 as (A1 & A2 & A3 & A4 & A5).
      destruct (step_bounded _ _ _ _ A3 Er) as [P1 _].
      pose proof (rh_step_keys (d_pend c2) f A4) as P3. rewrite Er in P3. cbn [fst] in P3.
      pose proof (rh_step_len (d_pend c2) f A5 Erf) as P4. rewrite Er in P4. cbn [fst] in P4.
      assert (Hc3 : hinv (set_pend S c2 p) /\ same_rec c2 (set_pend S c2 p) /\ d_alive (set_pend S c2 p) = true).
      { unfold hinv, same_rec. hfields. repeat split; auto. }
      destruct Hc3 as (C1 & C2 & C3).
      assert (Kc3 : same_rec c (dkill S (set_pend S c2 p))).
      { eapply same_rec_trans; [exact Hs|]. eapply same_rec_trans; [exact B2|]. eapply same_rec_trans; [exact C2|].
        unfold same_rec; hfields; repeat split; auto; try (intros; discriminate). }
      destruct o as [|m|a].
      + destruct (IH _ C1) as [I1 I2]. split; [exact I1|].
        eapply same_rec_trans; [exact Hs|]. eapply same_rec_trans; [exact B2|]. eapply same_rec_trans; [exact C2|exact I2].
      + change (d_hs (set_pend S c2 p)) with (d_hs c2).
        destruct (on_msg (d_hs c2) m) as [[[s w] v]|].
        * destruct (move_on_inv _ s w v C1) as (M1 & M2 & _).
          destruct (IH _ M1) as [I1 I2]. split; [exact I1|].
          eapply same_rec_trans; [exact Hs|]. eapply same_rec_trans; [exact B2|]. eapply same_rec_trans; [exact C2|].
          eapply same_rec_trans; [exact M2|exact I2].
        * split; [apply hinv_kill; exact C1|exact Kc3].
      + split; [apply hinv_kill; exact C1|exact Kc3].
    - (* readChangeCipherSpec *)
      destruct (d_deferred c) eqn:Ed; [|split; [exact H|apply same_rec_refl]].
      assert (Hd : hinv (set_deferred S c false) /\ same_rec c (set_deferred S c false)).
      { destruct H as (A1 & A2 & A3 & A4 & A5). unfold hinv, same_rec. hfields. repeat split; auto. }
      destruct Hd as [D1 D2].
      destruct (on_ccs (d_hs c)) as [[s w]|].
      2:{ split; [apply hinv_kill; exact D1|]. unfold same_rec; hfields; repeat split; auto; try (intros; discriminate). }
      set (c3 := set_epoch S (set_cipher S (set_deferred S c false) true) ((d_epoch (set_deferred S c false) + 1) mod 65536)%N).
      assert (H3 : hinv c3 /\ same_rec c c3).
      { destruct H as (A1 & A2 & A3 & A4 & A5). unfold c3, hinv, same_rec. hfields. repeat split; auto. }
      destruct H3 as [E1 E2].
      destruct (move_on_inv c3 s w None E1) as (M1 & M2 & _).
      destruct (IH _ M1) as [I1 I2]. split; [exact I1|].
      eapply same_rec_trans; [exact E2|]. eapply same_rec_trans; [exact M2|exact I2].
    - split; [exact H|apply same_rec_refl].
  Qed.

  (* readHandshake stops reading messages only where it must wait for more input: with fewer
     bytes than a fragment header, or fewer than the fragment its header announces *)
  Lemma ddrive_stops : forall fuel (c : dconn),
    length (d_hand c) + (if d_deferred c then 1 else 0) < fuel ->
    d_alive (ddrive fuel c) = true -> d_want (ddrive fuel c) = WMsg -> length (d_hand (ddrive fuel c)) <= handWaitD.
  Proof.
    unfold handWaitD, dHeaderLen, maxHandshakeT.
    induction fuel as [|k IH]; intros c Hf; [lia|]. cbn [ConnD.ddrive].
    destruct (d_alive c) eqn:Ea; cbn [negb]; [|intros X; rewrite Ea in X; discriminate].
    destruct (d_want c) eqn:Ew.
    - set (c1 := if d_counted c then c else set_counted S (set_freads S c (Datatypes.S (d_freads c))) true).
      assert (H1 : d_hand c1 = d_hand c /\ d_deferred c1 = d_deferred c).
      { unfold c1. destruct (d_counted c); hfields; auto. }
      destruct H1 as [Hd Hdf]. clearbody c1.
      destruct (maxHandshakeFragments <? d_freads c1); [hfields; intros; discriminate|].
      destruct (length (d_hand c1) <? dHeaderLen) eqn:E12.
      { intros _ _. apply Nat.ltb_lt in E12. unfold dHeaderLen in E12. lia. }
      set (h := d_hand c1) in *.
      set (blen := b24n (nth0 h 1) (nth0 h 2) (nth0 h 3)).
      set (flen := b24n (nth0 h 9) (nth0 h 10) (nth0 h 11)).
      set (off := b24n (nth0 h 6) (nth0 h 7) (nth0 h 8)).
      destruct (maxHandshakeT <? blen) eqn:Eb; [hfields; intros; discriminate|].
      destruct (blen <? off + flen) eqn:Eo; [hfields; intros; discriminate|].
      apply Nat.ltb_ge in Eb, Eo. unfold maxHandshakeT in Eb.
      destruct (length h <? dHeaderLen + flen) eqn:El.
      { intros _ _. apply Nat.ltb_lt in El. unfold dHeaderLen in El. fold h. lia. }
      apply Nat.ltb_ge in El. unfold dHeaderLen in El.
      set (f := mkFrag (nth0 h 0) blen (b16 (nth0 h 4) (nth0 h 5)) off flen (firstn flen (skipn dHeaderLen h))).
      set (c2 := set_counted S (set_hand S c1 (skipn (dHeaderLen + flen) h)) false).
      assert (L2 : length (d_hand c2) + 12 <= length h /\ d_deferred c2 = d_deferred c).
      { unfold c2. hfields. rewrite skipn_length. unfold dHeaderLen. split; [lia|exact Hdf]. }
      destruct L2 as [L2 D2]. clearbody c2.
      destruct (refuse_new_buffer (d_pend c2) f); [hfields; intros; discriminate|].
      destruct (rh_step (d_pend c2) f) as [p o].
      destruct o as [|m|a]; [| |hfields; intros; discriminate].
      + apply IH. hfields. rewrite D2. rewrite <- Hd in Hf. destruct (d_deferred c); lia.
      + change (d_hs (set_pend S c2 p)) with (d_hs c2).
        destruct (on_msg (d_hs c2) m) as [[[s w] v]|]; [|hfields; intros; discriminate].
        apply IH.
        assert (X : d_hand (move_on S (set_pend S c2 p) s w v) = d_hand c2 /\ d_deferred (move_on S (set_pend S c2 p) s w v) = d_deferred c2).
        { unfold move_on. destruct v; destruct w; hfields; auto. }
        destruct X as [X1 X2]. rewrite X1, X2, D2. rewrite <- Hd in Hf. destruct (d_deferred c); lia.
    - destruct (d_deferred c) eqn:Ed; [|intros _ X; congruence].
      destruct (on_ccs (d_hs c)) as [[s w]|]; [|hfields; intros; discriminate].
      apply IH.
      match goal with |- context [move_on S ?x s w None] => set (c3 := x) end.
      assert (X : d_hand (move_on S c3 s w None) = d_hand c /\ d_deferred (move_on S c3 s w None) = false).
      { unfold move_on, c3. destruct w; hfields; auto. }
      destruct X as [X1 X2]. rewrite X1, X2. lia.
    - intros _ X; congruence.
  Qed.

  (* ---------------- the whole machine ---------------- *)
  (* handBuf against handLenAtEntry of the running call of readRecordOrCCS: it never shrinks inside a
     call; once it grew, what it gained plus what is left of the datagram stays within one datagram's
     payload (the call reads no other datagram); while readHandshake reads a message the call
     started with at most what readHandshake leaves when it waits; the reader never calls itself
     (no frame beneath the running one) *)
  Definition jinv (c : dconn) : Prop :=
    d_frames c = 0 /\
    d_entry c <= length (d_hand c) /\
    length (d_hand c) <= d_entry c + maxCiphertext /\
    (d_alive c = true ->
       length (d_raw c) <= dgramBuf /\
       (length (d_hand c) = d_entry c \/ length (d_hand c) + length (d_raw c) <= d_entry c + maxCiphertext) /\
       (d_want c = WMsg -> d_entry c <= handWaitD)).

  Definition dinv (c : dconn) : Prop := hinv c /\ retry_ok c /\ jinv c.

  Lemma hinv_same_hs : forall c c1 : dconn, d_alive c = true -> same_hs c c1 -> hinv c -> hinv c1.
  Proof.
    intros c c1 Ha (S1 & S2 & S3 & S4 & S5 & S6) (H1 & H2 & H3 & H4 & H5).
    unfold hinv. rewrite S1, S3. specialize (H2 Ha). repeat split; auto; lia.
  Qed.

  Lemma dafter_inv : forall c : dconn, dinv c ->
    dinv (dafter c) /\ d_raw (dafter c) = d_raw c /\ (d_alive (dafter c) = true -> grown S (dafter c) = false).
  Proof.
    intros c (H & R & J). unfold ConnD.dafter.
    destruct (d_alive c) eqn:Ea; cbn [negb].
    2:{ split; [exact (conj H (conj R J))|]. split; [reflexivity|]. intros X. rewrite Ea in X. discriminate. }
    destruct J as (J0 & J1 & J3 & J). destruct (J Ea) as (J2 & _ & _). clear J.
    set (c0 := c).
    assert (H0 : hinv c0 /\ d_alive c0 = true /\ d_raw c0 = d_raw c /\ d_retry c0 = d_retry c /\ d_frames c0 = 0).
    { unfold c0. repeat split; auto; apply H. }
    destruct H0 as (B1 & B2 & B3 & B4 & B5).
    assert (G : forall X : dconn, hinv X -> same_rec c0 X ->
                (d_alive X = true -> d_want X = WMsg -> length (d_hand X) <= handWaitD) ->
                dinv (enter_call S X) /\ d_raw (enter_call S X) = d_raw c /\
                (d_alive (enter_call S X) = true -> grown S (enter_call S X) = false)).
    { intros X HX (Y1 & Y2 & Y3 & Y4 & Y5 & Y6 & Y7) St. unfold dinv, retry_ok, jinv, grown.
      destruct R as [R1 R2]. destruct HX as (A1 & A2 & A3 & A4 & A5). unfold hinv. hfields.
      split.
      { split; [repeat split; auto|]. split; [split; [lia|intros; rewrite Y2, B4; auto]|].
        split; [rewrite Y4; exact B5|].
        split; [lia|]. split; [lia|]. intros A. split; [rewrite Y1, B3; exact J2|].
        split; [left; reflexivity|]. intros W. specialize (St A W). lia. }
      split; [congruence|]. intros _. apply Nat.ltb_irrefl. }
    destruct (d_want c0) eqn:Ew.
    - destruct (ddrive_inv (dfuel S c0) c0 B1) as [I1 I2]. apply G; [exact I1|exact I2|].
      apply ddrive_stops. unfold dfuel. destruct (d_deferred c0); lia.
    - destruct (d_ccs_done c0) eqn:Ecd.
      2:{ apply G; [exact B1|apply same_rec_refl|]. intros _ W. congruence. }
      destruct (on_ccs (d_hs c0)) as [[s w]|].
      + assert (H1 : hinv (set_ccs_done S c0 false) /\ same_rec c0 (set_ccs_done S c0 false)).
        { destruct B1 as (A1 & A2 & A3 & A4 & A5). unfold hinv, same_rec. hfields. repeat split; auto. }
        destruct H1 as [E1 E2].
        destruct (move_on_inv _ s w None E1) as (M1 & M2 & _).
        set (c3 := move_on S (set_ccs_done S c0 false) s w None) in *.
        destruct (ddrive_inv (dfuel S c3) c3 M1) as [I1 I2].
        apply G; [exact I1| |].
        * eapply same_rec_trans; [exact E2|]. eapply same_rec_trans; [exact M2|exact I2].
        * apply ddrive_stops. unfold dfuel. destruct (d_deferred c3); lia.
      + apply G; [apply hinv_kill; exact B1| |].
        * unfold same_rec; hfields; repeat split; auto; try (intros; discriminate).
        * hfields. intros; discriminate.
    - apply G; [exact B1|apply same_rec_refl|]. intros _ W. congruence.
  Qed.

  Lemma load_inv : forall (c : dconn) d, dinv c -> d_alive c = true -> grown S c = false -> dinv (load S c d).
  Proof.
    intros c d ((A1 & A2 & A3 & A4 & A5) & [R1 R2] & (J0 & J1 & J3 & J)) Ha Hg.
    destruct (J Ha) as (J2 & J3b & J4). unfold grown in Hg. apply Nat.ltb_ge in Hg.
    unfold load. destruct d as [|b]; [repeat split; auto|].
    pose proof (firstn_le_length dgramBuf b) as Lb.
    destruct (length (firstn dgramBuf b) <? dRecordHeaderLen); [destruct (want_eqb (d_want c) WApp)|];
      unfold dinv, hinv, retry_ok, jinv; hfields; repeat split; auto; try (intros; discriminate);
      try (cbn [length]; lia); try (left; lia).
  Qed.

  Lemma process_inv : forall c : dconn, dinv c -> d_alive c = true -> dRecordHeaderLen <= length (d_raw c) ->
    dinv (fst (process c)).
  Proof.
    intros c (H & R & (J0 & J1 & J3 & J)) Ha Hr. destruct (J Ha) as (J2 & J3b & J4).
    destruct (process_ok c Ha R Hr) as (P1 & P2 & P3 & P4).
    set (c1 := fst (process c)) in *.
    split; [apply (hinv_same_hs c); assumption|]. split; [exact P2|].
    assert (Ew : d_want c1 = d_want c) by (destruct P1 as (_ & _ & _ & _ & W & _); exact W).
    unfold jinv. unfold dgramBuf, maxCiphertext, handWaitD, dRecordHeaderLen in *.
    destruct P4 as [[Q1 [Q2 Q3]]|(dt & Q1 & Q2 & Q3 & [Q4 Q5] & Q6 & Q7 & Q8)].
    - rewrite Q1, Q2, Q3, Ew. split; [exact J0|]. split; [exact J1|]. split; [exact J3|]. intros A. destruct (P3 A) as [T1 T2].
      split; [lia|]. split; [|exact J4]. destruct J3b as [E|E]; [left; exact E|right; lia].
    - rewrite Q4, Q5, Ew. specialize (P3 Q8). destruct P3 as [T1 T2].
      rewrite Q1 in *. rewrite app_length in *. unfold maxPlaintext in Q3.
      split; [exact J0|]. split; [lia|]. split; [destruct J3b; lia|]. intros _.
      split; [lia|]. split; [right; destruct J3b; lia|exact J4].
  Qed.

  Theorem drun_inv : forall fuel (c : dconn) dgs, dinv c -> dinv (fst (fst (drun fuel c dgs))).
  Proof.
    induction fuel as [|k IH]; intros c dgs H; cbn [ConnD.drun]; [exact H|].
    destruct (d_alive c) eqn:Ea; cbn [negb]; [|exact H].
    destruct (length (d_raw c) <? dRecordHeaderLen) eqn:El.
    - destruct (grown S c) eqn:Eg.
      + apply IH. apply dafter_inv. exact H.
      + destruct dgs as [|d t]; [exact H|]. apply IH. apply load_inv; assumption.
    - apply Nat.ltb_ge in El. pose proof (process_inv c H Ea El) as P.
      destruct (process c) as [c1 [|]]; cbn [fst] in P.
      + apply IH. exact P.
      + apply IH. apply dafter_inv. exact P.
  Qed.

  Lemma dinit_inv : forall s w, dinv (dinit s w).
  Proof.
    intros s w. unfold dinv, hinv, retry_ok, jinv, keys_ok, dinit, handWaitD, dgramBuf.
    cbn [d_freads d_alive d_pend d_counted d_calls d_retry d_entry d_hand d_raw d_frames map length].
    repeat split; auto; try lia; try constructor.
  Qed.

  (* ---------------- progress ---------------- *)
  Theorem drun_progress : forall fuel (c : dconn) dgs, dinv c ->
    dmeasure S c dgs < fuel -> snd (drun fuel c dgs) <> DOutOfFuel.
  Proof.
    induction fuel as [|k IH]; intros c dgs H Hm; [lia|]. cbn [ConnD.drun].
    destruct (d_alive c) eqn:Ea; cbn [negb]; [|cbn; discriminate].
    assert (Dead : forall (c2 : dconn) l, d_alive c2 = false -> 1 <= k -> snd (drun k c2 l) <> DOutOfFuel).
    { intros c2 l A K. destruct k as [|k']; [lia|]. cbn [ConnD.drun]. rewrite A. cbn. discriminate. }
    unfold dmeasure in Hm.
    destruct (length (d_raw c) <? dRecordHeaderLen) eqn:El.
    - destruct (grown S c) eqn:Ef.
      + destruct (dafter_inv c H) as (D1 & D2 & D4).
        destruct (d_alive (dafter c)) eqn:Ea2; [|apply Dead; [exact Ea2|lia]].
        apply IH; [exact D1|]. unfold dmeasure. rewrite D2, (D4 eq_refl). lia.
      + destruct dgs as [|d t]; [cbn; discriminate|].
        unfold list_sum in *. cbn [map fold_right] in Hm.
        pose proof (load_inv c d H Ea Ef) as L.
        destruct (d_alive (load S c d)) eqn:Ea2.
        2:{ apply Dead; [exact Ea2|]. unfold dg_size, dRecordHeaderLen in Hm. destruct d; lia. }
        apply IH; [exact L|]. unfold dmeasure, list_sum.
        assert (Gl : grown S (load S c d) = false /\ length (d_raw (load S c d)) + dRecordHeaderLen <= length (d_raw c) + dg_size d).
        { unfold load, grown in *. destruct d as [|b]; cbn [dg_size]; [split; [exact Ef|lia]|].
          destruct (length (firstn dgramBuf b) <? dRecordHeaderLen); [destruct (want_eqb (d_want c) WApp)|]; hfields;
            (split; [exact Ef|]); try (cbn [length]; lia); rewrite firstn_length; lia. }
        destruct Gl as [G1 G2]. rewrite G1. unfold dRecordHeaderLen in *. lia.
    - apply Nat.ltb_ge in El. destruct H as (Hh & Hr & Hj).
      pose proof (process_ok c Ea Hr El) as (P1 & P2 & P3 & P4).
      pose proof (process_inv c (conj Hh (conj Hr Hj)) Ea El) as PI.
      destruct (process c) as [c1 a]; cbn [fst] in *.
      assert (K26 : 26 <= k) by (unfold dRecordHeaderLen in El; destruct (grown S c); lia).
      destruct a.
      + destruct (d_alive c1) eqn:Ea1; [|apply Dead; [exact Ea1|lia]].
        apply IH; [exact PI|]. destruct (P3 eq_refl) as [Q1 Q2]. unfold dmeasure. unfold dRecordHeaderLen in Q1.
        destruct (grown S c1), (grown S c); lia.
      + destruct (dafter_inv c1 PI) as (D1 & D2 & D4).
        destruct (d_alive (dafter c1)) eqn:Ea2; [|apply Dead; [exact Ea2|lia]].
        assert (Ea1 : d_alive c1 = true).
        { destruct (d_alive c1) eqn:E1; [reflexivity|]. unfold ConnD.dafter in Ea2. rewrite E1 in Ea2. cbn [negb] in Ea2. congruence. }
        apply IH; [exact D1|]. destruct (P3 Ea1) as [Q1 Q2]. unfold dmeasure. rewrite D2, (D4 eq_refl).
        unfold dRecordHeaderLen in Q1. destruct (grown S c); lia.
  Qed.

  (* ---------------- readDatagram: datagrams from other addresses ---------------- *)
  (* each is taken by one iteration of the loop and leaves the connection exactly as it was *)
  Theorem drun_foreign : forall n k (c : dconn) rest,
    d_alive c = true -> length (d_raw c) < dRecordHeaderLen -> grown S c = false ->
    drun (n + k) c (repeat Foreign n ++ rest) = drun k c rest.
  Proof.
    induction n as [|n IH]; intros k c rest Ha Hr Hg; [reflexivity|].
    cbn [repeat app Nat.add ConnD.drun]. rewrite Ha. cbn [negb].
    apply Nat.ltb_lt in Hr. rewrite Hr, Hg. cbn [load]. apply Nat.ltb_lt in Hr. apply IH; assumption.
  Qed.

End DInv.

(* ================= concrete inputs ================= *)
(* concrete environment: null protection, every record fresh, no dwell period, and a handshake
   layer that accepts every message and reads another one (the server's cookie exchange answers
   every cookie-less ClientHello with a HelloVerifyRequest and reads the next ClientHello) *)
Definition d_id (_ : bool) (_ : N) (b : bytes) : option bytes := Some b.
Definition d_loop_msg (_ : unit) (_ : bytes) : option (unit * want * option N) := Some (tt, WMsg, None).
Definition d_no_ccs (_ : unit) : option (unit * want) := None.
Definition always (_ : nat) : bool := true.
Definition never (_ : nat) : bool := false.

Definition drun0 := drun unit d_loop_msg d_no_ccs d_id always never false.
Definition drun0_K12 := drun_K12 unit d_loop_msg d_no_ccs d_id always never false.
Definition drun0_K14 := drun_K14 unit d_loop_msg d_no_ccs d_id always never false.
Definition drun0_K15 := drun_K15 unit d_loop_msg d_no_ccs d_id always never false.
Definition process0 := process unit d_no_ccs d_id always never false.
Definition process0_K15 := process_K15 unit d_no_ccs d_id always never false.

(* a record header: type, version 0x0101, epoch, sequence number 0, length *)
Definition rec_hdr (typ epoch : N) (n : nat) : bytes :=
  [typ; 1; 1; 0; epoch; 0; 0; 0; 0; 0; 0; N.of_nat (n / 256); N.of_nat (n mod 256)]%N.

(* a connection waiting for its first handshake message, with these buffers and counters *)
Definition st0 (raw hand : bytes) (retry n entry frames : nat) : dconn unit :=
  mkD unit true WMsg tt raw hand [] retry None false 0%N false false false 0 0 false n entry frames 1.

(* ---------- K15 (before bfc7028): a warning alert re-entered readRecordOrCCS from inside its loop ---------- *)
(* one datagram: a handshake record of the current epoch carrying one byte; an empty handshake
   record of epoch 1; a warning alert.  The first is appended and, the next record being a
   handshake record, the loop goes on; the second is dropped by the epoch filter; the alert made
   retryReadRecord call readRecordOrCCS again: the new frame took the grown handBuf as its
   handLenAtEntry and read the next datagram, readHandshake was never reached, and retryCount had
   been reset by the handshake record *)
Definition k15_bytes : bytes := rec_hdr 22 0 1 ++ [7%N] ++ rec_hdr 22 1 0 ++ rec_hdr 21 0 2 ++ [1; 90]%N.
Definition k15_dgram : dgram := FromPeer k15_bytes.

Lemma drun15_load : forall k (c : dconn unit) d rest,
  d_alive c = true -> length (d_raw c) <? dRecordHeaderLen = true -> grown unit c = false ->
  drun0_K15 (S k) c (d :: rest) = drun0_K15 k (load unit c d) rest.
Proof. intros k c d rest Ha Hr Hg. unfold drun0_K15. cbn [drun_K15]. rewrite Ha, Hr, Hg. reflexivity. Qed.

Lemma drun15_cont : forall k (c c1 : dconn unit) dgs,
  d_alive c = true -> length (d_raw c) <? dRecordHeaderLen = false ->
  process0_K15 c = (c1, Continue) ->
  drun0_K15 (S k) c dgs = drun0_K15 k c1 dgs.
Proof. intros k c c1 dgs Ha Hr Hp. unfold drun0_K15, process0_K15 in *. cbn [drun_K15]. rewrite Ha, Hr, Hp. reflexivity. Qed.

Lemma K15_step : forall k rest hand retry n frames,
  drun0_K15 (4 + k) (st0 [] hand retry n (length hand) frames) (k15_dgram :: rest) =
  drun0_K15 k (st0 [] (hand ++ [7%N]) 1 (3 + n) (length (hand ++ [7%N])) (S frames)) rest.
Proof.
  intros. change (4 + k) with (S (S (S (S k)))).
  rewrite drun15_load; [|reflexivity|reflexivity|apply Nat.ltb_irrefl].
  rewrite (drun15_cont (S (S k)) _ (st0 (rec_hdr 22 1 0 ++ rec_hdr 21 0 2 ++ [1; 90]%N) (hand ++ [7%N]) 0 (1 + n) (length hand) frames));
    [|reflexivity|reflexivity|vm_compute; reflexivity].
  rewrite (drun15_cont (S k) _ (st0 (rec_hdr 21 0 2 ++ [1; 90]%N) (hand ++ [7%N]) 0 (2 + n) (length hand) frames));
    [|reflexivity|reflexivity|vm_compute; reflexivity].
  rewrite (drun15_cont k _ (st0 [] (hand ++ [7%N]) 1 (3 + n) (length (hand ++ [7%N])) (S frames)));
    [reflexivity|reflexivity|reflexivity|vm_compute; reflexivity].
Qed.

Lemma K15_grows : forall k hand retry n frames,
  exists retry' n',
  drun0_K15 (4 * k + 1) (st0 [] hand retry n (length hand) frames) (repeat k15_dgram k) =
  (st0 [] (hand ++ repeat 7%N k) retry' n' (length (hand ++ repeat 7%N k)) (frames + k), [], DBlocked).
Proof.
  induction k as [|k IH]; intros.
  - exists retry, n. cbn [repeat]. rewrite app_nil_r, Nat.add_0_r. unfold drun0_K15. cbn [Nat.mul Nat.add drun_K15 st0 d_alive d_raw negb length Nat.ltb Nat.leb dRecordHeaderLen].
    unfold grown. cbn [d_entry d_hand]. rewrite Nat.ltb_irrefl. reflexivity.
  - replace (4 * S k + 1) with (4 + (4 * k + 1)) by lia. cbn [repeat]. rewrite K15_step.
    destruct (IH (hand ++ [7%N]) 1 (3 + n) (S frames)) as (r' & n' & E).
    exists r', n'. rewrite E. rewrite <- app_assoc. cbn [app]. replace (S frames + k) with (frames + S k) by lia. reflexivity.
Qed.

(* before the fix handBuf and the number of readRecordOrCCS frames exceeded every bound, before the
   first handshake message was looked at; the code as it is hands the same datagrams to
   readHandshake one by one (which ends the connection at the twelfth: a header announcing
   0x070707 bytes), in one frame *)
Theorem K15_regression :
  (forall B, exists dgs fuel,
     let c := fst (fst (drun0_K15 fuel (dinit tt WMsg) dgs)) in
     d_alive c = true /\ d_want c = WMsg /\ d_calls c = 1 /\ B < length (d_hand c) /\ B < d_frames c) /\
  (let c := fst (fst (drun0 400 (dinit tt WMsg) (repeat k15_dgram 40))) in
   d_alive c = false /\ length (d_hand c) = 12 /\ d_frames c = 0 /\ d_calls c = 1).
Proof.
  split.
  - intros B. exists (repeat k15_dgram (S B)), (4 * S B + 1).
    destruct (K15_grows (S B) [] 0 0 0) as (r & n & E).
    change (dinit tt WMsg) with (st0 [] [] 0 0 (length (@nil N)) 0).
    cbn zeta. rewrite E. cbn [fst st0 d_alive d_hand d_want d_calls d_frames].
    repeat split; try reflexivity.
    + rewrite app_length, repeat_length. cbn. lia.
    + lia.
  - vm_compute. repeat split; reflexivity.
Qed.

(* ---------- K14 (before 6b259b8): handBuf grows without bound inside one readRecordOrCCS call ---------- *)
(* one datagram: a handshake record of the current epoch carrying one byte, followed by an empty
   handshake record of epoch 1; the first is appended and, the next record being a handshake
   record, the loop goes on; the second is dropped by the epoch filter and the loop read the
   next datagram without returning to readHandshake *)
Definition k11_bytes : bytes := rec_hdr 22 0 1 ++ [7%N] ++ rec_hdr 22 1 0.
Definition k11_dgram : dgram := FromPeer k11_bytes.

Lemma drun14_load : forall k (c : dconn unit) d rest,
  d_alive c = true -> length (d_raw c) <? dRecordHeaderLen = true ->
  drun0_K14 (S k) c (d :: rest) = drun0_K14 k (load unit c d) rest.
Proof. intros k c d rest Ha Hr. unfold drun0_K14. cbn [drun_K14]. rewrite Ha, Hr. reflexivity. Qed.

Lemma drun14_cont : forall k (c c1 : dconn unit) dgs,
  d_alive c = true -> length (d_raw c) <? dRecordHeaderLen = false ->
  process0 c = (c1, Continue) ->
  drun0_K14 (S k) c dgs = drun0_K14 k c1 dgs.
Proof. intros k c c1 dgs Ha Hr Hp. unfold drun0_K14, process0 in *. cbn [drun_K14]. rewrite Ha, Hr, Hp. reflexivity. Qed.

Lemma K14_step : forall k rest hand retry n entry frames,
  drun0_K14 (3 + k) (st0 [] hand retry n entry frames) (k11_dgram :: rest) =
  drun0_K14 k (st0 [] (hand ++ [7%N]) 0 (2 + n) entry frames) rest.
Proof.
  intros. change (3 + k) with (S (S (S k))).
  rewrite drun14_load by reflexivity.
  rewrite (drun14_cont (S k) _ (st0 (rec_hdr 22 1 0) (hand ++ [7%N]) 0 (1 + n) entry frames));
    [|reflexivity|reflexivity|vm_compute; reflexivity].
  rewrite (drun14_cont k _ (st0 [] (hand ++ [7%N]) 0 (2 + n) entry frames));
    [reflexivity|reflexivity|reflexivity|vm_compute; reflexivity].
Qed.

Lemma K14_grows : forall k hand retry n entry frames,
  exists retry' n',
  drun0_K14 (3 * k + 1) (st0 [] hand retry n entry frames) (repeat k11_dgram k) =
  (st0 [] (hand ++ repeat 7%N k) retry' n' entry frames, [], DBlocked).
Proof.
  induction k as [|k IH]; intros.
  - exists retry, n. cbn [repeat]. rewrite app_nil_r. reflexivity.
  - replace (3 * S k + 1) with (3 + (3 * k + 1)) by lia. cbn [repeat]. rewrite K14_step.
    destruct (IH (hand ++ [7%N]) 0 (2 + n) entry frames) as (r' & n' & E).
    exists r', n'. rewrite E. rewrite <- app_assoc. reflexivity.
Qed.

(* one frame (d_frames = 0, handLenAtEntry = 0), every bound exceeded *)
Theorem K14_regression : forall B, exists dgs fuel,
  let c := fst (fst (drun0_K14 fuel (dinit tt WMsg) dgs)) in
  d_alive c = true /\ d_frames c = 0 /\ d_entry c = 0 /\ B < length (d_hand c).
Proof.
  intros B. exists (repeat k11_dgram (S B)), (3 * S B + 1).
  destruct (K14_grows (S B) [] 0 0 0 0) as (r & n & E).
  change (dinit tt WMsg) with (st0 [] [] 0 0 0 0).
  cbn zeta. rewrite E. cbn [fst st0 d_alive d_hand d_frames d_entry]. repeat split; try reflexivity.
  rewrite app_length, repeat_length. cbn. lia.
Qed.

(* ---------- K13 (before 593205a): readDatagram recursed once per datagram of a foreign address ---------- *)
Theorem K13_regression : forall n d rest,
  snd (read_datagram_K13 (repeat Foreign n ++ rest) d) = snd (read_datagram_K13 rest (d + n)).
Proof.
  induction n as [|n IH]; intros d rest; cbn [repeat app read_datagram_K13].
  - rewrite Nat.add_0_r. reflexivity.
  - rewrite IH. replace (S d + n) with (d + S n) by lia. reflexivity.
Qed.

Corollary K13_depth_unbounded : forall B, exists dgs, B < snd (read_datagram_K13 dgs 0).
Proof.
  intros B. exists (repeat Foreign (S B) ++ []). rewrite K13_regression. cbn. lia.
Qed.

(* ---------- K12 (before 1e7de38): more than maxHandshakeFragments reassembly buffers ---------- *)
(* a fragment (1 of 2 bytes) of message number seq / a complete empty message *)
Definition k9_frag (seq : nat) : dgram :=
  FromPeer (rec_hdr 22 0 13 ++ [1; 0; 0; 2; N.of_nat (seq / 256); N.of_nat (seq mod 256); 0; 0; 0; 0; 0; 1; 9]%N).
Definition k9_msg : dgram :=
  FromPeer (rec_hdr 22 0 12 ++ [1; 0; 0; 0; 255; 255; 0; 0; 0; 0; 0; 0]%N).
Definition k9_input : list dgram :=
  map k9_frag (seq 0 255) ++ [k9_msg] ++ map k9_frag (seq 255 255) ++ [k9_msg] ++ map k9_frag (seq 510 255).

(* three message reads left 765 reassembly buffers; the code as it is refuses the 257th *)
Theorem K12_regression :
  (let c := fst (fst (drun0_K12 4000 (dinit tt WMsg) k9_input)) in
   d_alive c = true /\ length (d_pend c) = 765 /\ d_calls c = 3) /\
  (let c := fst (fst (drun0 4000 (dinit tt WMsg) k9_input)) in
   d_alive c = false /\ length (d_pend c) = 256 /\ d_calls c = 2).
Proof. vm_compute. repeat split; reflexivity. Qed.


(* ================= the statements used by Props/C09.v ================= *)
Definition non_expanding (dec : bool -> N -> bytes -> option bytes) : Prop :=
  forall ci typ body data, dec ci typ body = Some data -> length data <= length body.

(* every reassembly buffer holds at most 65536 bytes of data and 8192 bytes of bitmask *)
Lemma pend_bytes_bound : forall p : pending,
  Forall (fun kv => buf_ok (snd kv)) p -> pend_bytes p <= length p * (64 * 1024 + 8 * 1024).
Proof.
  induction p as [|[k fb] t IH]; intros H; cbn [pend_bytes fold_right length snd]; [lia|].
  inversion H as [|? ? Hb Ht]; subst. specialize (IH Ht). unfold pend_bytes in IH.
  destruct Hb as (B1 & B2 & B3 & B4). cbn [snd] in *. unfold maxHandshake in B1. change 65536 with (64 * 1024) in B1.
  assert (D : (fb_n fb + 7) / 8 < 8 * 1024 + 1) by (apply Nat.div_lt_upper_bound; lia).
  rewrite B3, B4. lia.
Qed.

Theorem d_state_bounds : forall S on_msg on_ccs dec fresh dwell_time has_flight,
  non_expanding dec -> forall fuel (s : S) w dgs,
  let c := fst (fst (drun S on_msg on_ccs dec fresh dwell_time has_flight fuel (dinit s w) dgs)) in
  d_retry c <= 17 /\ (d_alive c = true -> d_retry c <= maxUselessRecords) /\
  d_freads c <= 257 /\ (d_alive c = true -> d_freads c <= maxHandshakeFragments) /\
  Forall (fun kv => fb_n (snd kv) <= 64 * 1024 /\ length (fb_data (snd kv)) = fb_n (snd kv) /\
                    length (fb_recv (snd kv)) = (fb_n (snd kv) + 7) / 8) (d_pend c) /\
  NoDup (map fst (d_pend c)) /\
  length (d_pend c) <= maxHandshakeFragments /\
  pend_bytes (d_pend c) <= maxHandshakeFragments * (64 * 1024 + 8 * 1024) /\
  (d_alive c = true -> length (d_raw c) <= 18 * 1024 + 13) /\
  d_frames c = 0.
Proof.
  intros S on_msg on_ccs dec fresh dwell_time has_flight Hd fuel s w dgs c.
  pose proof (drun_inv S on_msg on_ccs dec fresh dwell_time has_flight Hd fuel (dinit s w) dgs
                (dinit_inv S on_msg on_ccs dec has_flight Hd s w)) as (H & R & J).
  fold c in H, R, J. destruct H as (H1 & H2 & H3 & H4 & H5). destruct R as [R1 R2]. destruct J as (J0 & _ & _ & J).
  split; [exact R1|]. split; [exact R2|]. split; [exact H1|]. split; [exact H2|].
  split.
  { eapply Forall_impl; [|exact H3]. intros kv (A & B & C & D). unfold maxHandshake in A.
    change (64 * 1024) with 65536. repeat split; assumption. }
  split; [exact H4|]. split; [exact H5|]. split.
  - pose proof (pend_bytes_bound _ H3) as P. unfold maxHandshakeFragments in *.
    assert (X : length (d_pend c) * (64 * 1024 + 8 * 1024) <= 256 * (64 * 1024 + 8 * 1024)) by (apply Nat.mul_le_mono_r; exact H5).
    lia.
  - split; [|exact J0]. intros A. destruct (J A) as (J2 & _). exact J2.
Qed.

Theorem d_progress : forall S on_msg on_ccs dec fresh dwell_time has_flight,
  non_expanding dec -> forall fuel (s : S) w dgs,
  dmeasure S (dinit s w) dgs < fuel ->
  snd (drun S on_msg on_ccs dec fresh dwell_time has_flight fuel (dinit s w) dgs) <> DOutOfFuel.
Proof.
  intros S on_msg on_ccs dec fresh dwell_time has_flight Hd fuel s w dgs Hm.
  apply drun_progress; [exact Hd | apply (dinit_inv S on_msg on_ccs dec has_flight Hd) | exact Hm].
Qed.

(* handBuf, for every sequence of datagrams: it exceeds its length at the entry of the running
   readRecordOrCCS call by at most one datagram's payload, and while readHandshake reads a
   message that call started with at most 12 + 65536 - 1 bytes (what readHandshake leaves when it
   waits), so handBuf holds at most 12 + 65536 - 1 + 18432 = 83979 bytes *)
Theorem d_handbuf : forall S on_msg on_ccs dec fresh dwell_time has_flight,
  non_expanding dec -> forall fuel (s : S) w dgs,
  let c := fst (fst (drun S on_msg on_ccs dec fresh dwell_time has_flight fuel (dinit s w) dgs)) in
  d_entry c <= length (d_hand c) /\
  length (d_hand c) <= d_entry c + 18 * 1024 /\
  (d_alive c = true -> d_want c = WMsg ->
     d_entry c <= 12 + 64 * 1024 - 1 /\
     length (d_hand c) <= 12 + 64 * 1024 - 1 + 18 * 1024).
Proof.
  intros S on_msg on_ccs dec fresh dwell_time has_flight Hd fuel s w dgs c.
  pose proof (drun_inv S on_msg on_ccs dec fresh dwell_time has_flight Hd fuel (dinit s w) dgs
                (dinit_inv S on_msg on_ccs dec has_flight Hd s w)) as (_ & _ & (_ & J1 & J3 & J)).
  fold c in J1, J3, J. unfold maxCiphertext, handWaitD, dHeaderLen, maxHandshakeT in *.
  split; [exact J1|]. split; [exact J3|]. intros A W. destruct (J A) as (_ & _ & J4). specialize (J4 W).
  split; [exact J4|]. lia.
Qed.

(* one trip through the loop of readRecordOrCCS: the reassembly state and the handshake layer are
   untouched, at least one record header leaves the datagram buffer, handBuf grows by at most
   what left the datagram buffer, and not at all after completion or while the
   ChangeCipherSpec is awaited *)
Theorem d_record_step : forall S on_ccs dec fresh dwell_time has_flight,
  non_expanding dec -> forall c : dconn S,
  d_alive c = true -> d_retry c <= maxUselessRecords -> dRecordHeaderLen <= length (d_raw c) ->
  let c1 := fst (process S on_ccs dec fresh dwell_time has_flight c) in
  d_pend c1 = d_pend c /\ d_hs c1 = d_hs c /\ d_want c1 = d_want c /\
  (d_alive c1 = true ->
     length (d_raw c1) + dRecordHeaderLen <= length (d_raw c) /\
     length (d_hand c1) + length (d_raw c1) + dRecordHeaderLen <= length (d_hand c) + length (d_raw c)) /\
  (d_hand c1 <> d_hand c -> d_want c <> WApp /\ (d_want c = WCcs -> d_ccs_done c = true)).
Proof.
  intros S on_ccs dec fresh dwell_time has_flight Hd c Ha Hr Hraw c1.
  assert (R : retry_ok S c) by (split; [unfold maxUselessRecords in Hr; lia | intros _; exact Hr]).
  pose proof (process_ok S (fun _ _ => None) on_ccs dec fresh dwell_time has_flight Hd c Ha R Hraw) as (P1 & P2 & P3 & P4).
  fold c1 in P1, P2, P3, P4. destruct P1 as (S1 & S2 & S3 & S4 & S5 & S6).
  split; [exact S1|]. split; [exact S6|]. split; [exact S5|]. split; [exact P3|].
  intros Hne. destruct P4 as [[P4 _]|(dt & E1 & E2 & E3 & E4 & E5 & E6 & E7)]; [contradiction|]. split; assumption.
Qed.

(* datagrams from other addresses: n of them cost n iterations of the loop of readDatagram and leave
   the connection, with everything it holds, exactly as it was *)
Theorem d_foreign : forall S on_msg on_ccs dec fresh dwell_time has_flight n k (c : dconn S) rest,
  d_alive c = true -> length (d_raw c) < dRecordHeaderLen -> grown S c = false ->
  drun S on_msg on_ccs dec fresh dwell_time has_flight (n + k) c (repeat Foreign n ++ rest) =
  drun S on_msg on_ccs dec fresh dwell_time has_flight k c rest.
Proof. intros. apply drun_foreign; assumption. Qed.

Lemma d_id_non_expanding : non_expanding d_id.
Proof. intros ci typ body data H. injection H as <-. apply le_n. Qed.
