(* C16: the default window size selected by Config.ReplayWindow <= 0 *)
From Coq Require Import ZArith NArith List.
From V Require Import Model.GenConsts Model.Replay.
Open Scope Z_scope.
Definition tie : Prop :=
  Z.of_N (Replay.cfg_size 0) = GenConsts.D.defaultReplayWindowSize /\
  Z.of_N (Replay.cfg_size (-1)) = GenConsts.D.defaultReplayWindowSize /\
  GenConsts.D.recordHeaderLen = 13 /\
  (* newReplayWindow's floor and the cap check applies to the size it uses (the bitmap has 64 bits) *)
  GenConsts.D.newReplayWindow_size <> nil /\ GenConsts.D.check_size <> nil /\
  Forall (fun x => x = Z.of_N (Replay.size (Replay.new_window 0))) GenConsts.D.newReplayWindow_size /\
  Forall (fun x => x = Z.of_N (Replay.eff_size (Replay.new_window 1000))) GenConsts.D.check_size.
Lemma tie_holds : tie.
Proof.
  unfold tie. repeat split; try (vm_compute; reflexivity); try (vm_compute; discriminate);
  repeat (constructor; try (vm_compute; reflexivity)).
Qed.
