(* C16: the default window size selected by Config.ReplayWindow <= 0 *)
From Coq Require Import ZArith NArith List.
From V Require Import Model.GenConsts Model.Replay.
Open Scope Z_scope.
Definition tie : Prop :=
  Z.of_N (Replay.cfg_size 0) = GenConsts.D.defaultReplayWindowSize /\
  Z.of_N (Replay.cfg_size (-1)) = GenConsts.D.defaultReplayWindowSize /\
  GenConsts.D.recordHeaderLen = 13.
Lemma tie_holds : tie.
Proof. unfold tie. vm_compute. repeat split. Qed.
