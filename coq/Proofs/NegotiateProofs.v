(* Proofs about Model/Negotiate.v. Statements are fixed; fill in the proofs. *)
From V Require Import Model.Negotiate.
Open Scope N_scope.

(* ---- helper lemmas *)
Lemma memN_In : forall x l, memN x l = true <-> In x l.
Proof.
  intros x l. unfold memN. rewrite existsb_exists. split.
  - intros [y [Hin Heq]]. apply N.eqb_eq in Heq. subst y. exact Hin.
  - intros Hin. exists x. split; [exact Hin | apply N.eqb_refl].
Qed.

Lemma memN_filter : forall (f : N -> bool) x l,
  memN x (filter f l) = memN x l && f x.
Proof.
  intros f x l. induction l as [|a l IH].
  - reflexivity.
  - cbn [filter]. destruct (f a) eqn:Fa.
    + change (memN x (a :: filter f l)) with ((x =? a) || memN x (filter f l)).
      change (memN x (a :: l)) with ((x =? a) || memN x l).
      rewrite IH. destruct (x =? a) eqn:E.
      * apply N.eqb_eq in E. subst a. rewrite Fa. reflexivity.
      * reflexivity.
    + change (memN x (a :: l)) with ((x =? a) || memN x l).
      rewrite IH. destruct (x =? a) eqn:E.
      * apply N.eqb_eq in E. subst a. rewrite Fa.
        cbn. rewrite andb_false_r. reflexivity.
      * reflexivity.
Qed.

Lemma find_ext_in : forall (A : Type) (f g : A -> bool) l,
  (forall x, In x l -> f x = g x) -> find f l = find g l.
Proof.
  intros A f g l. induction l as [|a l IH]; intros H.
  - reflexivity.
  - cbn [find]. rewrite (H a (or_introl eq_refl)).
    rewrite IH; [reflexivity|]. intros x Hx. apply H. right. exact Hx.
Qed.

Lemma find_all_false : forall (A : Type) (f : A -> bool) l,
  (forall x, In x l -> f x = false) -> find f l = None.
Proof.
  intros A f l. induction l as [|a l IH]; intros H.
  - reflexivity.
  - cbn [find]. rewrite (H a (or_introl eq_refl)).
    apply IH. intros x Hx. apply H. right. exact Hx.
Qed.

Lemma find_app : forall (A : Type) (f : A -> bool) l1 l2,
  find f (l1 ++ l2) = match find f l1 with Some x => Some x | None => find f l2 end.
Proof.
  intros A f l1 l2. induction l1 as [|a l1 IH].
  - reflexivity.
  - cbn [app find]. destruct (f a); [reflexivity | exact IH].
Qed.

Lemma memN_preference : forall x, In x preference -> memN x preference = true.
Proof. intros x H. apply memN_In. exact H. Qed.

Lemma pick_is_common_aux : forall c s,
  server_pick s (client_offer c) = (if s_has_keys s then common_suite c s else None).
Proof.
  intros c s. unfold server_pick, common_suite, client_offer.
  destruct (s_has_keys s) eqn:K.
  - apply find_ext_in. intros x Hin. rewrite memN_filter.
    rewrite (memN_preference x Hin).
    destruct (memN x (cfg_suites (c_suites c))), (memN x (cfg_suites (s_suites s))),
      (negb (is_ecdhe x) || c_has_sig c && c_has_enc c); reflexivity.
  - apply find_all_false. intros x _.
    rewrite andb_false_r. reflexivity.
Qed.

(* T1 the suite is the first one in the documented priority order that both sides enabled and
   have keys for *)
Theorem suite_is_first_common : forall c s o,
  honest_run c s = Some o -> common_suite c s = Some (o_suite o).
Proof.
  intros c s o H. unfold honest_run in H.
  destruct (negb (vers_supported (c_min c) (c_max c) && vers_supported (s_min s) (s_max s)));
    [discriminate|].
  destruct (alpn_pick (s_alpn s) (c_alpn c)) as [proto|]; [|discriminate].
  rewrite pick_is_common_aux in H.
  destruct (s_has_keys s) eqn:K; cbn [negb] in H; [|discriminate].
  destruct (common_suite c s) as [suite|]; [|discriminate].
  destruct (negb (c_insecure c || c_srv_chain_ok c)); [discriminate|].
  cbv zeta in H.
  destruct (requests_cert (s_policy s) (is_ecdhe suite)).
  - match type of H with (if ?b then _ else _) = _ => destruct b end; [|discriminate].
    inversion H. reflexivity.
  - inversion H. reflexivity.
Qed.

Theorem pick_is_common : forall c s,
  server_pick s (client_offer c) = (if s_has_keys s then common_suite c s else None).
Proof. exact pick_is_common_aux. Qed.

(* T2 the handshake succeeds exactly when the two configurations are compatible *)
Theorem success_iff_compatible : forall c s,
  (match honest_run c s with Some _ => true | None => false end) = compatible c s.
Proof.
  intros c s. unfold honest_run, compatible. rewrite pick_is_common.
  destruct (vers_supported (c_min c) (c_max c)); cbn [andb negb]; [|reflexivity].
  destruct (vers_supported (s_min s) (s_max s)); cbn [andb negb]; [|reflexivity].
  destruct (alpn_pick (s_alpn s) (c_alpn c)) as [proto|]; cbn [andb negb]; [|reflexivity].
  destruct (s_has_keys s); cbn [andb negb]; [|reflexivity].
  destruct (common_suite c s) as [suite|]; [|reflexivity].
  destruct (c_insecure c || c_srv_chain_ok c); cbn [andb negb]; [|reflexivity].
  cbv zeta. unfold client_sends.
  destruct (is_ecdhe suite); destruct (s_policy s);
    destruct (c_has_sig c); destruct (c_has_enc c); destruct (c_cert_acceptable c);
    destruct (s_cli_chain_ok s); destruct (s_cli_enc_chain_ok s); reflexivity.
Qed.

(* T3 ALPN: the result is the server's first protocol the client also lists; none when either
   side has no list or with the h2 / http/1.1 fallback; failure iff disjoint without fallback *)
Theorem alpn_spec : forall srv cli,
  (srv = [] \/ cli = [] -> alpn_pick srv cli = Some 0) /\
  (srv <> [] -> cli <> [] ->
     forall p, alpn_pick srv cli = Some p -> p <> 0 ->
       In p srv /\ In p cli /\
       (forall pre post, srv = pre ++ p :: post -> ~ In p pre -> forall q, In q pre -> ~ In q cli)) /\
  (srv <> [] -> cli <> [] -> (forall q, In q srv -> ~ In q cli) ->
     alpn_pick srv cli = (if memN H2 srv && memN HTTP11 cli then Some 0 else None)).
Proof.
  intros srv cli. split; [|split].
  - intros [Hs | Hc]; subst.
    + reflexivity.
    + destruct srv; reflexivity.
  - intros Hs Hc p Hp Hnz.
    assert (Hfind : find (fun sp => memN sp cli) srv = Some p).
    { destruct srv as [|a srv']; [contradiction Hs; reflexivity|].
      destruct cli as [|b cli']; [contradiction Hc; reflexivity|].
      unfold alpn_pick in Hp.
      destruct (find (fun sp => memN sp (b :: cli')) (a :: srv')) as [p'|].
      - exact Hp.
      - destruct (memN H2 (a :: srv') && memN HTTP11 (b :: cli')).
        + inversion Hp as [Hp0]. contradiction Hnz. symmetry. exact Hp0.
        + discriminate Hp. }
    pose proof (find_some _ _ Hfind) as [Hin Hmem].
    split; [exact Hin|]. split; [apply memN_In; exact Hmem|].
    intros pre post Hsplit Hnpre q Hq Hqcli.
    rewrite Hsplit, find_app in Hfind.
    destruct (find (fun sp => memN sp cli) pre) as [x|] eqn:Fpre.
    + inversion Hfind; subst x. apply find_some in Fpre. destruct Fpre as [Hx _].
      apply Hnpre. exact Hx.
    + pose proof (find_none _ _ Fpre q Hq) as Hf. cbn beta in Hf.
      apply memN_In in Hqcli. rewrite Hqcli in Hf. discriminate Hf.
  - intros Hs Hc Hdisj.
    assert (Hfind : find (fun sp => memN sp cli) srv = None).
    { apply find_all_false. intros x Hx.
      destruct (memN x cli) eqn:E; [|reflexivity].
      apply memN_In in E. exfalso. exact (Hdisj x Hx E). }
    destruct srv as [|a srv']; [contradiction Hs; reflexivity|].
    destruct cli as [|b cli']; [contradiction Hc; reflexivity|].
    unfold alpn_pick. rewrite Hfind. reflexivity.
Qed.

(* T4 the client never accepts a suite it did not offer, and offers ECDHE only with both key pairs *)
Theorem offer_sound : forall c id,
  In id (client_offer c) ->
  In id preference /\ memN id (cfg_suites (c_suites c)) = true /\
  (is_ecdhe id = true -> c_has_sig c = true /\ c_has_enc c = true).
Proof.
  intros c id H. unfold client_offer in H. apply filter_In in H.
  destruct H as [Hin Hf]. apply andb_true_iff in Hf. destruct Hf as [Hmem Hk].
  split; [exact Hin|]. split; [exact Hmem|].
  intros He. rewrite He in Hk. cbn [negb orb] in Hk.
  apply andb_true_iff in Hk. exact Hk.
Qed.

Theorem picked_was_offered : forall c s suite,
  server_pick s (client_offer c) = Some suite -> In suite (client_offer c).
Proof.
  intros c s suite H. unfold server_pick in H. apply find_some in H.
  destruct H as [_ Hf]. apply andb_true_iff in Hf. destruct Hf as [_ Hmem].
  apply memN_In. exact Hmem.
Qed.

(* T5 Clone copies every field the negotiation reads: running with a configuration or with its
   clone is the same function of the same record (stated as congruence) *)
Theorem run_depends_only_on_fields : forall c c' s s',
  c = c' -> s = s' -> honest_run c s = honest_run c' s'.
Proof. intros c c' s s' Hc Hs. subst. reflexivity. Qed.

Print Assumptions suite_is_first_common.
Print Assumptions pick_is_common.
Print Assumptions success_iff_compatible.
Print Assumptions alpn_spec.
Print Assumptions offer_sound.
Print Assumptions picked_was_offered.
Print Assumptions run_depends_only_on_fields.
