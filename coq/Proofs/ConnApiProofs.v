(* Proofs about Model/ConnApi.v (property C12). *)
From V Require Import Model.ConnApi.

(* ------------------------------------------------------------------ *)
(* histories: run / exec                                               *)
(* ------------------------------------------------------------------ *)

Lemma exec_app : forall h1 h2 st, exec st (h1 ++ h2) = exec (exec st h1) h2.
Proof. intros. unfold exec. apply fold_left_app. Qed.

Lemma exec_cons : forall c h st, exec st (c :: h) = exec (fst (step st c)) h.
Proof. reflexivity. Qed.

Lemma run_cons : forall c h st, run st (c :: h) = snd (step st c) :: run (fst (step st c)) h.
Proof. intros. cbn [run]. destruct (step st c). reflexivity. Qed.

Lemma run_app : forall h1 h2 st, run st (h1 ++ h2) = run st h1 ++ run (exec st h1) h2.
Proof.
  induction h1 as [|c h1 IH]; intros h2 st.
  - reflexivity.
  - rewrite <- app_comm_cons, !run_cons, exec_cons, IH. reflexivity.
Qed.

Lemma run_length : forall h st, length (run st h) = length h.
Proof.
  induction h as [|c h IH]; intros st.
  - reflexivity.
  - rewrite run_cons. cbn [length]. rewrite IH. reflexivity.
Qed.

(* the outcome of the j-th call is the step taken from the state the first j calls leave *)
Lemma run_nth : forall h st j c,
  nth_error h j = Some c ->
  nth_error (run st h) j = Some (snd (step (exec st (firstn j h)) c)).
Proof.
  induction h as [|c0 h IH]; intros st j c Hj.
  - destruct j; discriminate.
  - destruct j as [|j].
    + cbn in Hj. inversion Hj; subst. rewrite run_cons. reflexivity.
    + cbn [nth_error] in Hj. rewrite run_cons. cbn [nth_error firstn]. rewrite exec_cons. apply IH. exact Hj.
Qed.

Lemma run_nth_inv : forall h st j o,
  nth_error (run st h) j = Some o ->
  exists c, nth_error h j = Some c /\ o = snd (step (exec st (firstn j h)) c).
Proof.
  intros h st j o Ho.
  destruct (nth_error h j) as [c|] eqn:Hc.
  - exists c. split; [reflexivity|]. rewrite (run_nth _ _ _ _ Hc) in Ho. inversion Ho. reflexivity.
  - apply nth_error_None in Hc. rewrite <- (run_length h st) in Hc. apply nth_error_None in Hc. congruence.
Qed.

Lemma firstn_snoc_nth : forall (A : Type) (l : list A) i x,
  nth_error l i = Some x -> firstn (S i) l = firstn i l ++ [x].
Proof.
  induction l as [|a l IH]; intros i x H.
  - destruct i; discriminate.
  - destruct i as [|i].
    + cbn in H. inversion H. reflexivity.
    + cbn [nth_error] in H. change (a :: firstn (S i) l = a :: (firstn i l ++ [x])). f_equal. apply IH. exact H.
Qed.

Lemma firstn_plus : forall (A : Type) (a b : nat) (l : list A),
  firstn (a + b) l = firstn a l ++ firstn b (skipn a l).
Proof.
  induction a as [|a IH]; intros b l.
  - reflexivity.
  - destruct l as [|x l].
    + cbn. rewrite firstn_nil. reflexivity.
    + cbn [Nat.add firstn skipn app]. f_equal. apply IH.
Qed.

(* the state before call j (> i) is reached from the state after call i *)
Lemma exec_later : forall h st i j ci,
  i < j -> nth_error h i = Some ci ->
  exists mid, exec st (firstn j h) = exec (fst (step (exec st (firstn i h)) ci)) mid.
Proof.
  intros h st i j ci Hij Hi.
  exists (firstn (j - S i) (skipn (S i) h)).
  replace j with (S i + (j - S i)) at 1 by lia.
  rewrite firstn_plus, exec_app, (firstn_snoc_nth _ _ _ _ Hi), exec_app. reflexivity.
Qed.

Lemma exec_inv : forall (P : state -> Prop),
  (forall st c, P st -> P (fst (step st c))) ->
  forall h st, P st -> P (exec st h).
Proof.
  intros P Hstep. induction h as [|c h IH]; intros st Hst.
  - exact Hst.
  - rewrite exec_cons. apply IH. apply Hstep. exact Hst.
Qed.

(* the shape shared by all "stays reported" statements: a call at i establishes P, every
   step keeps P, and under P a later call yields Q *)
Lemma later_call : forall (P : state -> Prop) (Q : call -> outcome -> Prop) h st i j ci cj oj,
  (forall s c, P s -> P (fst (step s c))) ->
  (forall s c, P s -> Q c (snd (step s c))) ->
  i < j -> nth_error h i = Some ci -> nth_error h j = Some cj ->
  P (fst (step (exec st (firstn i h)) ci)) ->
  nth_error (run st h) j = Some oj ->
  Q cj oj.
Proof.
  intros P Q h st i j ci cj oj Hkeep Hq Hij Hi Hj HP Ho.
  rewrite (run_nth _ _ _ _ Hj) in Ho. inversion Ho; subst oj.
  destruct (exec_later h st i j ci Hij Hi) as [mid Hmid].
  rewrite Hmid. apply Hq. apply exec_inv; assumption.
Qed.

(* ------------------------------------------------------------------ *)
(* what the pieces of a step touch                                     *)
(* ------------------------------------------------------------------ *)

Ltac inv H := inversion H; subst; clear H.
Ltac inj3 H := injection H as <- <- <-.

(* the cases of read_record on a state without a latched read error *)
Ltac rr_cases st :=
  destruct (scan (s_raw st) (s_retry st)) as [r1|rest1 r1|d1 rest1|rest1|e1 a1 rest1 r1] eqn:E1;
  [ destruct (scan (s_wire st) r1) as [r2|rest2 r2|d2 rest2|rest2|e2 a2 rest2 r2] eqn:E2 | | | | ];
  destruct (s_ended st) eqn:E3.

(* everything outside the read half and the transport buffers *)
Definition same_ctl (a b : state) : Prop :=
  s_plan b = s_plan a /\ s_hs b = s_hs a /\ s_cns b = s_cns a /\ s_cn_err b = s_cn_err a /\
  s_closed b = s_closed a /\ s_rawclosed b = s_rawclosed a /\ s_ended b = s_ended a /\
  s_peergone b = s_peergone a.

Lemma same_ctl_refl : forall a, same_ctl a a.
Proof. intros. unfold same_ctl. tauto. Qed.

Lemma tx_no_app : forall st l c, sent_app (tx st (SAlert l c)) = false.
Proof. intros. unfold tx. destruct (tx_dead st); reflexivity. Qed.

Lemma read_record_frame : forall st st' e sent,
  read_record st = (st', e, sent) ->
  same_ctl st st' /\ (s_out_err st <> None -> s_out_err st' <> None) /\ sent_app sent = false.
Proof.
  intros st st' e sent H. unfold read_record in H.
  destruct (s_in_err st).
  { inv H. split; [apply same_ctl_refl|]. split; [tauto|reflexivity]. }
  rr_cases st;
    repeat match goal with
           | H : context [match ?a with Some _ => _ | None => _ end] |- _ => destruct a
           end;
    inv H; unfold same_ctl, send_alert; cbn;
    (split; [tauto|]); (split; [try tauto; intros; discriminate|]); try reflexivity; apply tx_no_app.
Qed.

(* an error returned by readRecord is latched on the read half and leaves c.input alone *)
Lemma read_record_err : forall st st' x sent,
  read_record st = (st', Some x, sent) ->
  s_input st' = s_input st /\ (x <> XBlock -> s_in_err st' = Some x).
Proof.
  intros st st' x sent H. unfold read_record in H.
  destruct (s_in_err st) eqn:E0.
  { inv H. split; [reflexivity|]. intros _. exact E0. }
  rr_cases st;
    repeat match goal with
           | H : context [match ?a with Some _ => _ | None => _ end] |- _ => destruct a
           end;
    inv H; unfold send_alert; cbn; split; try reflexivity; try (intros; reflexivity); intros Hx; exfalso; apply Hx; reflexivity.
Qed.

Lemma read_record_latched : forall st x, s_in_err st = Some x -> read_record st = (st, Some x, []).
Proof. intros st x H. unfold read_record. rewrite H. reflexivity. Qed.

(* success means the read half had no error and still has none *)
Lemma read_record_ok : forall st st' sent,
  read_record st = (st', None, sent) -> s_in_err st = None /\ s_in_err st' = None.
Proof.
  intros st st' sent H. unfold read_record in H.
  destruct (s_in_err st) eqn:E0; [discriminate|].
  rr_cases st;
    repeat match goal with
           | H : context [match ?a with Some _ => _ | None => _ end] |- _ => destruct a
           end;
    inv H; cbn; auto.
Qed.

(* readRecord does not touch the connection-wide latch *)
Lemma read_record_fatal : forall st st' e sent,
  read_record st = (st', e, sent) -> s_fatal st' = s_fatal st.
Proof.
  intros st st' e sent H. unfold read_record in H.
  destruct (s_in_err st).
  { inv H. reflexivity. }
  rr_cases st;
    repeat match goal with
           | H : context [match ?a with Some _ => _ | None => _ end] |- _ => destruct a
           end;
    inv H; reflexivity.
Qed.

(* ------------------------------------------------------------------ *)
(* noteFatal                                                           *)
(* ------------------------------------------------------------------ *)

(* what noteFatal records for an error when nothing was recorded before *)
Definition fatal_class (x : eclass) : option eclass :=
  match x with XEof | XShutdown | XBlock => None | _ => Some x end.

(* noteFatal touches nothing but the latch *)
Definition same_but_fatal (a b : state) : Prop :=
  s_plan b = s_plan a /\ s_hs b = s_hs a /\ s_in_err b = s_in_err a /\ s_out_err b = s_out_err a /\
  s_cns b = s_cns a /\ s_cn_err b = s_cn_err a /\ s_closed b = s_closed a /\ s_rawclosed b = s_rawclosed a /\
  s_input b = s_input a /\ s_hand b = s_hand a /\ s_retry b = s_retry a /\ s_raw b = s_raw a /\
  s_wire b = s_wire a /\ s_ended b = s_ended a /\ s_peergone b = s_peergone a.

Lemma note_fatal_same : forall st e, same_but_fatal st (note_fatal st e).
Proof.
  intros st e. unfold note_fatal, same_but_fatal.
  destruct e as [x|]; [|tauto]. destruct x; try tauto; destruct (s_fatal st); cbn; tauto.
Qed.

Lemma note_fatal_latch : forall st x,
  s_fatal (note_fatal st (Some x)) = match s_fatal st with Some f => Some f | None => fatal_class x end.
Proof.
  intros st x. unfold note_fatal, fatal_class. destruct x; destruct (s_fatal st) eqn:E; cbn; rewrite ?E; reflexivity.
Qed.

Lemma note_fatal_keep : forall st e f, s_fatal st = Some f -> s_fatal (note_fatal st e) = Some f.
Proof.
  intros st e f H. destruct e as [x|]; [|exact H]. rewrite note_fatal_latch, H. reflexivity.
Qed.

Lemma note_fatal_set : forall st e, s_fatal st <> None -> s_fatal (note_fatal st e) <> None.
Proof.
  intros st e H. destruct (s_fatal st) as [f|] eqn:E; [|contradiction].
  rewrite (note_fatal_keep _ e _ E). discriminate.
Qed.

(* the first fatal error is recorded *)
Lemma note_fatal_first : forall st x,
  s_fatal st = None -> fatal_class x = Some x -> note_fatal st (Some x) = set_fatal st (Some x).
Proof.
  intros st x Hn Hx. unfold note_fatal. rewrite Hn. destruct x; try discriminate; reflexivity.
Qed.

Ltac nf_fields st e :=
  let H := fresh "Hnf" in
  pose proof (note_fatal_same st e) as H; unfold same_but_fatal in H;
  destruct H as (?&?&?&?&?&?&?&?&?&?&?&?&?&?&?).

(* from here on noteFatal is used through the lemmas above only (injection / inversion
   would otherwise unfold it) *)
Global Opaque note_fatal.

(* an alert sent by this endpoint latches the write half too *)
Definition alert_sent (e : eclass) : Prop :=
  match e with XLocal _ | XTooMany => True | _ => False end.

(* errors observed on the read half without this endpoint sending anything *)
Definition recv_err (e : eclass) : Prop :=
  match e with XEof | XUnexpectedEof | XRemote _ => True | _ => False end.

(* reachable states: a read-half error is either such an error or came with an alert that also
   latched the write half; the write half holds only "local error" or a failed transport write *)
Definition wf (st : state) : Prop :=
  (forall e, s_in_err st = Some e -> recv_err e \/ (alert_sent e /\ s_out_err st <> None)) /\
  (forall e, s_out_err st = Some e -> (exists c, e = XLocal c) \/ e = XClosed).

Lemma wf_same : forall a b, s_in_err b = s_in_err a -> s_out_err b = s_out_err a -> wf a -> wf b.
Proof. intros a b Hi Ho [H1 H2]. split; [rewrite Hi, Ho | rewrite Ho]; assumption. Qed.

Lemma scan_err_class : forall evs r e a rest r',
  scan evs r = ScErr e a rest r' ->
  (e = XEof /\ a = None) \/ (exists c, e = XRemote c /\ a = None) \/
  (exists c, e = XLocal c /\ a = Some c /\ (c = 10 \/ c = 20)%N) \/ (e = XTooMany /\ a = Some 10%N).
Proof.
  induction evs as [|ev evs IH]; intros r e a rest r' H.
  - discriminate.
  - cbn [scan] in H. destruct ev as [d|l c| | |t|t hd].
    + destruct d.
      * destruct (Nat.ltb max_useless (S r)); [inv H; auto 6 | eapply IH; eauto].
      * discriminate.
    + destruct (c =? 0)%N; [inv H; auto|].
      destruct (l =? 1)%N.
      * destruct (Nat.ltb max_useless (S r)); [inv H; auto 6 | eapply IH; eauto].
      * destruct (l =? 2)%N; inv H; [right; left; eauto | right; right; left; eauto].
    + discriminate.
    + inv H. right; right; left; eauto.
    + inv H. right; right; left; eauto.
    + discriminate.
Qed.

Lemma scan_err_alert : forall evs r e a rest r',
  scan evs r = ScErr e a rest r' -> alert_sent e -> a <> None.
Proof.
  induction evs as [|ev evs IH]; intros r e a rest r' H Ha.
  - discriminate.
  - cbn [scan] in H. destruct ev as [d|l c| | |t|t hd].
    + destruct d.
      * destruct (Nat.ltb max_useless (S r)); [inv H; discriminate | eapply IH; eauto].
      * discriminate.
    + destruct (c =? 0)%N; [inv H; contradiction|].
      destruct (l =? 1)%N.
      * destruct (Nat.ltb max_useless (S r)); [inv H; discriminate | eapply IH; eauto].
      * destruct (l =? 2)%N; inv H; [contradiction | discriminate].
    + discriminate.
    + inv H. discriminate.
    + inv H. discriminate.
    + discriminate.
Qed.

Lemma read_record_wf : forall st st' e sent,
  read_record st = (st', e, sent) -> wf st -> wf st'.
Proof.
  intros st st' e sent H [Hwf1 Hwf2]. unfold read_record in H.
  destruct (s_in_err st) eqn:E0.
  { inv H. split; [rewrite E0|]; assumption. }
  assert (Hk : forall s x, s_out_err s = s_out_err st -> s_in_err s = Some x -> recv_err x -> wf s).
  { intros s x Ho Hi Hr. split.
    - intros y Hy. rewrite Hi in Hy. inv Hy. left. exact Hr.
    - rewrite Ho. exact Hwf2. }
  assert (Hn : forall s, s_out_err s = s_out_err st -> s_in_err s = None -> wf s).
  { intros s Ho Hi. split.
    - intros y Hy. congruence.
    - rewrite Ho. exact Hwf2. }
  assert (Ha : forall s x c, s_out_err s = Some (XLocal c) -> s_in_err s = Some x -> alert_sent x -> wf s).
  { intros s x c Ho Hi Hr. split.
    - intros y Hy. rewrite Hi in Hy. inv Hy. right. split; [exact Hr|congruence].
    - intros y Hy. rewrite Ho in Hy. inv Hy. eauto. }
  assert (He : forall ee a rest r evs r0 s1, scan evs r0 = ScErr ee a rest r ->
             s_out_err s1 = s_out_err st -> s_in_err s1 = None ->
             wf (set_in_err (fst (match a with Some c => send_alert s1 c | None => (s1, []) end)) (Some ee))).
  { intros ee a rest r evs r0 s1 Hs Ho Hi.
    destruct (scan_err_class _ _ _ _ _ _ Hs) as [[-> ->]|[[c [-> ->]]|[[c [-> [-> _]]]|[-> ->]]]]; cbn.
    - eapply Hk; cbn; eauto. exact I.
    - eapply Hk; cbn; eauto. exact I.
    - eapply Ha; cbn; eauto. exact I.
    - eapply Ha; cbn; eauto. exact I. }
  rr_cases st; try (inv H; first [ eapply Hn; cbn; eauto; fail | eapply Hk; cbn; eauto; exact I ]).
  - destruct a2; inv H; [eapply (He _ (Some _)) | eapply (He _ None)]; eauto; cbn; auto.
  - destruct a2; inv H; [eapply (He _ (Some _)) | eapply (He _ None)]; eauto; cbn; auto.
  - destruct a1; inv H; [eapply (He _ (Some _)) | eapply (He _ None)]; eauto; cbn; auto.
  - destruct a1; inv H; [eapply (He _ (Some _)) | eapply (He _ None)]; eauto; cbn; auto.
Qed.

(* ------------------------------------------------------------------ *)
(* the handshake                                                       *)
(* ------------------------------------------------------------------ *)

(* everything but the handshake status, the transport buffers, the retry count and the transport-closed flag *)
Definition same_io (a b : state) : Prop :=
  s_plan b = s_plan a /\ s_in_err b = s_in_err a /\ s_out_err b = s_out_err a /\ s_cns b = s_cns a /\
  s_cn_err b = s_cn_err a /\ s_closed b = s_closed a /\ s_input b = s_input a /\ s_hand b = s_hand a /\
  s_ended b = s_ended a /\ s_peergone b = s_peergone a /\ s_fatal b = s_fatal a.

Lemma same_io_refl : forall a, same_io a a.
Proof. intros. unfold same_io. tauto. Qed.

Lemma hs_run_spec : forall st k st' e sent,
  hs_run st k = (st', e, sent) ->
  same_io st st' /\
  ( (e = None /\ s_hs st' = HDone /\ s_rawclosed st' = s_rawclosed st /\ sent = [])
    \/ (e = Some XBlock /\ st' = st /\ sent = [])
    \/ (exists x, e = Some x /\ s_hs st' = HFailed x /\ s_rawclosed st' = s_rawclosed st)
    \/ (e = Some XCtx /\ s_hs st' = HFailed XClosed /\ s_rawclosed st' = true /\ sent = [] /\ k <> None) ).
Proof.
  intros st k st' e sent H. unfold hs_run, hs_fail, hs_cancelled in H.
  destruct (s_rawclosed st) eqn:Erc.
  { inv H. split; [unfold same_io; cbn; tauto|]. right; right; left. exists XClosed. cbn. auto. }
  destruct k as [kk|].
  - destruct (Nat.leb kk (p_pos (s_plan st)) && Nat.ltb kk (p_steps (s_plan st))).
    { inv H. split; [unfold same_io; cbn; tauto|]. right; right; right. cbn. repeat split; auto; discriminate. }
    destruct (hs_scan (s_raw st ++ s_wire st) (p_first (s_plan st)) 0) as [| |x a].
    + destruct (s_ended st).
      { inv H. split; [unfold same_io; cbn; tauto|]. right; right; left. exists XEof. cbn. auto. }
      destruct (Nat.ltb kk (p_steps (s_plan st))).
      { inv H. split; [unfold same_io; cbn; tauto|]. right; right; right. cbn. repeat split; auto; discriminate. }
      destruct (p_res (s_plan st)) as [[x sx]|].
      * inv H. split; [unfold same_io; cbn; tauto|]. right; right; left. exists x. cbn. auto.
      * inv H. split; [unfold same_io; cbn; tauto|]. left. cbn. auto.
    + destruct (s_ended st).
      { inv H. split; [unfold same_io; cbn; tauto|]. right; right; left. exists XUnexpectedEof. cbn. auto. }
      destruct (Nat.ltb kk (p_steps (s_plan st))).
      { inv H. split; [unfold same_io; cbn; tauto|]. right; right; right. cbn. repeat split; auto; discriminate. }
      inv H. split; [apply same_io_refl|]. right; left. auto.
    + inv H. split; [unfold same_io; cbn; tauto|]. right; right; left. exists x. cbn. auto.
  - cbn [andb] in H.
    destruct (hs_scan (s_raw st ++ s_wire st) (p_first (s_plan st)) 0) as [| |x a].
    + destruct (s_ended st).
      { inv H. split; [unfold same_io; cbn; tauto|]. right; right; left. exists XEof. cbn. auto. }
      destruct (p_res (s_plan st)) as [[x sx]|].
      * inv H. split; [unfold same_io; cbn; tauto|]. right; right; left. exists x. cbn. auto.
      * inv H. split; [unfold same_io; cbn; tauto|]. left. cbn. auto.
    + destruct (s_ended st).
      { inv H. split; [unfold same_io; cbn; tauto|]. right; right; left. exists XUnexpectedEof. cbn. auto. }
      inv H. split; [apply same_io_refl|]. right; left. auto.
    + inv H. split; [unfold same_io; cbn; tauto|]. right; right; left. exists x. cbn. auto.
Qed.

Lemma handshake_spec : forall st k st' e sent,
  handshake st k = (st', e, sent) ->
  (s_hs st = HDone /\ st' = st /\ e = None /\ sent = [])
  \/ (exists x, s_hs st = HFailed x /\ st' = st /\ e = Some x /\ sent = [])
  \/ (s_hs st = HNotRun /\ hs_run st k = (st', e, sent)).
Proof.
  intros st k st' e sent H. unfold handshake in H.
  destruct (s_hs st) as [| |x].
  - right; right. auto.
  - inv H. left. auto.
  - inv H. right; left. exists x. auto.
Qed.

(* summary used by every call that starts with Handshake() *)
Lemma handshake_sum : forall st k st' e sent,
  handshake st k = (st', e, sent) ->
  same_io st st' /\
  match e with
  | None => s_hs st' = HDone /\ s_rawclosed st' = s_rawclosed st /\ sent = []
  | Some x =>
      (x = XBlock /\ st' = st /\ s_hs st = HNotRun /\ sent = [])
      \/ (s_hs st' = HFailed x /\ s_rawclosed st' = s_rawclosed st)
      \/ (x = XCtx /\ s_hs st' = HFailed XClosed /\ s_rawclosed st' = true /\ k <> None /\ s_hs st = HNotRun)
  end /\
  (s_hs st <> HNotRun -> st' = st /\ sent = []).
Proof.
  intros st k st' e sent H.
  destruct (handshake_spec _ _ _ _ _ H) as [[Hd [-> [-> ->]]] | [[x [Hf [-> [-> ->]]]] | [Hn Hr]]].
  - split; [apply same_io_refl|]. split; [auto|]. auto.
  - split; [apply same_io_refl|]. split; [right; left; auto|]. auto.
  - destruct (hs_run_spec _ _ _ _ _ Hr) as [Hio Hc]. split; [exact Hio|]. split; [|intros C; congruence].
    destruct Hc as [[-> [? [? ->]]] | [[-> [-> ->]] | [[x [-> [? ?]]] | [-> [? [? [-> ?]]]]]]]; auto 7.
Qed.

Lemma handshake_done : forall st k, s_hs st = HDone -> handshake st k = (st, None, []).
Proof. intros st k H. unfold handshake. rewrite H. reflexivity. Qed.

Lemma handshake_failed : forall st k x, s_hs st = HFailed x -> handshake st k = (st, Some x, []).
Proof. intros st k x H. unfold handshake. rewrite H. reflexivity. Qed.

(* ------------------------------------------------------------------ *)
(* fill, close_notify                                                  *)
(* ------------------------------------------------------------------ *)

(* read_record's effect on the write half: untouched, unless an alert went out *)
Lemma read_record_out : forall st st' e sent,
  read_record st = (st', e, sent) ->
  s_out_err st' = s_out_err st \/ exists x, e = Some x /\ alert_sent x.
Proof.
  intros st st' e sent H. unfold read_record in H.
  destruct (s_in_err st).
  { inv H. auto. }
  assert (Ha : forall evs r ee c rest r', scan evs r = ScErr ee (Some c) rest r' -> alert_sent ee).
  { intros evs r ee c rest r' Hs.
    destruct (scan_err_class _ _ _ _ _ _ Hs) as [[_ C]|[[x [_ C]]|[[x [-> _]]|[-> _]]]]; try discriminate; exact I. }
  rr_cases st;
    repeat match goal with
           | H : context [match ?a with Some _ => _ | None => _ end] |- _ => destruct a
           end;
    inv H; cbn; auto; right; eexists; (split; [reflexivity|]); eapply Ha; eauto.
Qed.

(* Conn.Read's readRecord + noteFatal + rejection of a handshake record *)
Lemma read_checked_frame : forall st st' e sent,
  read_checked st = (st', e, sent) ->
  same_ctl st st' /\ (s_out_err st <> None -> s_out_err st' <> None) /\ sent_app sent = false /\
  (forall f, s_fatal st = Some f -> s_fatal st' = Some f).
Proof.
  intros st st' e sent H. unfold read_checked in H.
  destruct (read_record st) as [[st1 e1] sent1] eqn:Err.
  destruct (read_record_frame _ _ _ _ Err) as [Hc [Ho Hs]].
  pose proof (read_record_fatal _ _ _ _ Err) as Hf.
  destruct e1 as [x|].
  { inv H. nf_fields st1 (Some x). unfold same_ctl in *.
    split; [intuition congruence|]. split; [intros Hn; specialize (Ho Hn); congruence|]. split; [exact Hs|].
    intros f Hfa. apply note_fatal_keep. congruence. }
  destruct (s_hand st1).
  - inv H.
    nf_fields (set_in_err (fst (send_alert st1 100)) (Some (XLocal 100))) (Some (XLocal 100)).
    unfold send_alert, same_ctl in *. cbn in *.
    split; [intuition congruence|]. split; [intros _; congruence|]. split.
    + clear - Hs. induction sent1 as [|x l IH]; cbn in *.
      * apply tx_no_app.
      * destruct x; [discriminate | apply IH; exact Hs].
    + intros f Hfa. apply note_fatal_keep. cbn. congruence.
  - inv H. split; [exact Hc|]. split; [exact Ho|]. split; [exact Hs|]. intros f Hfa. congruence.
Qed.

(* a latched read-half error comes straight back (and is noted) *)
Lemma read_checked_latched : forall st x,
  s_in_err st = Some x -> read_checked st = (note_fatal st (Some x), Some x, []).
Proof. intros st x H. unfold read_checked. rewrite (read_record_latched _ _ H). reflexivity. Qed.

(* an error: latched on the read half, noted on the connection *)
Lemma read_checked_err : forall st st' x sent,
  read_checked st = (st', Some x, sent) ->
  (x <> XBlock -> s_in_err st' = Some x) /\
  (s_input st' = s_input st \/ x = XLocal 100) /\
  (s_fatal st = None -> s_fatal st' = fatal_class x) /\
  (s_out_err st' = s_out_err st \/ alert_sent x).
Proof.
  intros st st' x sent H. unfold read_checked in H.
  destruct (read_record st) as [[st1 e1] sent1] eqn:Err.
  pose proof (read_record_fatal _ _ _ _ Err) as Hf.
  destruct e1 as [y|].
  - inv H. destruct (read_record_err _ _ _ _ Err) as [Hin He].
    nf_fields st1 (Some x).
    split; [intros Hb; specialize (He Hb); congruence|]. split; [left; congruence|]. split.
    + intros Hn. rewrite note_fatal_latch, Hf, Hn. reflexivity.
    + destruct (read_record_out _ _ _ _ Err) as [Ho | [z [Hz Ha]]]; [left; congruence|]. inv Hz. right. exact Ha.
  - destruct (s_hand st1); inv H.
    nf_fields (set_in_err (fst (send_alert st1 100)) (Some (XLocal 100))) (Some (XLocal 100)).
    cbn in *. split; [intros _; congruence|]. split; [right; reflexivity|]. split; [|right; exact I].
    intros Hn. rewrite note_fatal_latch. cbn. rewrite Hf, Hn. reflexivity.
Qed.

Lemma read_checked_block : forall st st' sent,
  read_checked st = (st', Some XBlock, sent) -> s_in_err st = None -> s_in_err st' = None.
Proof.
  intros st st' sent H Hn. unfold read_checked in H.
  destruct (read_record st) as [[st1 e1] sent1] eqn:Err.
  destruct e1 as [y|].
  - inv H. nf_fields st1 (Some XBlock). cbn in *. unfold read_record in Err. rewrite Hn in Err.
    rr_cases st;
      repeat match goal with
             | H : context [match ?a with Some _ => _ | None => _ end] |- _ => destruct a
             end; inv Err; cbn; auto;
      match goal with
      | H : scan _ _ = ScErr XBlock _ _ _ |- _ =>
          destruct (scan_err_class _ _ _ _ _ _ H) as [[? ?]|[[? [? ?]]|[[? [? ?]]|[? ?]]]]; discriminate
      end.
  - destruct (s_hand st1); inv H.
Qed.

(* success: read_record succeeded and no handshake record is pending *)
Lemma read_checked_ok : forall st st' sent,
  read_checked st = (st', None, sent) ->
  read_record st = (st', None, sent) /\ s_hand st' = false.
Proof.
  intros st st' sent H. unfold read_checked in H.
  destruct (read_record st) as [[st1 e1] sent1] eqn:Err.
  destruct e1; [discriminate|].
  destruct (s_hand st1) eqn:Eh; inv H. auto.
Qed.

Lemma read_checked_wf : forall st st' e sent, read_checked st = (st', e, sent) -> wf st -> wf st'.
Proof.
  intros st st' e sent H Hwf. unfold read_checked in H.
  destruct (read_record st) as [[st1 e1] sent1] eqn:Err.
  pose proof (read_record_wf _ _ _ _ Err Hwf) as Hwf1.
  destruct e1 as [x|].
  { inv H. nf_fields st1 (Some x). eapply wf_same; [| |exact Hwf1]; assumption. }
  destruct (s_hand st1); inv H; [|exact Hwf1].
  nf_fields (set_in_err (fst (send_alert st1 100)) (Some (XLocal 100))) (Some (XLocal 100)).
  unfold send_alert in *. cbn in *. split.
  - intros x Hx. right. split; [|congruence]. assert (x = XLocal 100) by congruence. subst x. exact I.
  - intros x Hx. left. exists 100%N. congruence.
Qed.

Lemma fill_frame : forall st st' e sent,
  fill st = (st', e, sent) ->
  same_ctl st st' /\ (s_out_err st <> None -> s_out_err st' <> None) /\ sent_app sent = false /\
  (forall f, s_fatal st = Some f -> s_fatal st' = Some f).
Proof.
  intros st st' e sent H. unfold fill in H.
  destruct (s_input st).
  2:{ inv H. split; [apply same_ctl_refl|]. split; [tauto|]. split; [reflexivity|auto]. }
  eapply read_checked_frame; eauto.
Qed.

Lemma fill_err : forall st st' x sent,
  fill st = (st', Some x, sent) ->
  s_input st = [] /\ read_checked st = (st', Some x, sent).
Proof.
  intros st st' x sent H. unfold fill in H.
  destruct (s_input st) eqn:Ei; [|discriminate]. auto.
Qed.

Lemma fill_latched : forall st e, s_input st = [] -> s_in_err st = Some e ->
  fill st = (note_fatal st (Some e), Some e, []).
Proof. intros st e Hi He. unfold fill. rewrite Hi. apply read_checked_latched. exact He. Qed.

Lemma fill_ok : forall st st' sent,
  fill st = (st', None, sent) ->
  s_in_err st' = s_in_err st /\ s_fatal st' = s_fatal st /\ (s_input st <> [] -> st' = st).
Proof.
  intros st st' sent H. unfold fill in H.
  destruct (s_input st) eqn:Ei.
  - destruct (read_checked_ok _ _ _ H) as [Hr _].
    destruct (read_record_ok _ _ _ Hr) as [H0 H1].
    split; [congruence|]. split; [eapply read_record_fatal; eauto|]. intros C. contradiction.
  - inv H. auto.
Qed.

Lemma fill_wf : forall st st' e sent, fill st = (st', e, sent) -> wf st -> wf st'.
Proof.
  intros st st' e sent H Hwf. unfold fill in H.
  destruct (s_input st).
  2:{ inv H. exact Hwf. }
  eapply read_checked_wf; eauto.
Qed.

Lemma close_notify_spec : forall st st' e sent,
  close_notify st = (st', e, sent) ->
  s_cns st' = true /\ s_plan st' = s_plan st /\ s_hs st' = s_hs st /\ s_in_err st' = s_in_err st /\
  s_out_err st' = s_out_err st /\ s_closed st' = s_closed st /\ s_rawclosed st' = s_rawclosed st /\
  s_input st' = s_input st /\ s_hand st' = s_hand st /\ s_raw st' = s_raw st /\ s_wire st' = s_wire st /\
  s_ended st' = s_ended st /\ s_peergone st' = s_peergone st /\ s_retry st' = s_retry st /\ sent_app sent = false.
Proof.
  intros st st' e sent H. unfold close_notify in H.
  destruct (s_cns st) eqn:E.
  - inv H. repeat split; auto.
  - inv H. cbn. repeat split; auto. apply tx_no_app.
Qed.

Lemma close_notify_fatal : forall st st' e sent,
  close_notify st = (st', e, sent) -> s_fatal st' = s_fatal st.
Proof.
  intros st st' e sent H. unfold close_notify in H.
  destruct (s_cns st); inv H; reflexivity.
Qed.

(* ------------------------------------------------------------------ *)
(* monotone facts of one step                                          *)
(* ------------------------------------------------------------------ *)

Ltac step_cases c := destruct c as [n|bs| | |k|evs|pt|].

Lemma do_read_unfold : forall st n st0 he sent0,
  s_closed st = false -> handshake st None = (st0, he, sent0) ->
  do_read st n =
  match he with
  | Some e => (st0, fail e sent0)
  | None =>
      if Nat.eqb n 0 then (st0, mkO None 0 [] sent0) else
      match s_fatal st0 with
      | Some e => (st0, fail e sent0)
      | None =>
          let '(st1, fe, sent1) := fill st0 in
          match fe with
          | Some e => (st1, fail e (sent0 ++ sent1))
          | None =>
              let d := firstn n (s_input st1) in
              let st2 := set_input st1 (skipn n (s_input st1)) in
              if negb (Nat.eqb (length d) 0) && Nat.eqb (length (s_input st2)) 0 && raw_head_is_alert st2 then
                let '(st3, pe, sent3) := read_checked st2 in
                (st3, mkO pe 0 d (sent0 ++ sent1 ++ sent3))
              else (st2, mkO None 0 d (sent0 ++ sent1))
          end
      end
  end.
Proof. intros st n st0 he sent0 Hc Hh. unfold do_read. rewrite Hc, Hh. reflexivity. Qed.

(* the state a Read leaves: the fields no Read touches, and monotonicity of the write-half error *)
Lemma do_read_frame : forall st n,
  let st' := fst (do_read st n) in
  s_plan st' = s_plan st /\ s_cns st' = s_cns st /\ s_cn_err st' = s_cn_err st /\ s_closed st' = s_closed st /\
  s_ended st' = s_ended st /\ s_peergone st' = s_peergone st /\
  (s_out_err st <> None -> s_out_err st' <> None) /\
  (s_hs st <> HNotRun -> s_hs st' = s_hs st /\ s_rawclosed st' = s_rawclosed st) /\
  (forall f, s_fatal st = Some f -> s_fatal st' = Some f).
Proof.
  intros st n. cbv zeta.
  destruct (s_closed st) eqn:Ec.
  { unfold do_read. rewrite Ec. cbn. tauto. }
  destruct (handshake st None) as [[st0 he] sent0] eqn:Eh.
  rewrite (do_read_unfold _ n _ _ _ Ec Eh).
  destruct (handshake_sum _ _ _ _ _ Eh) as [Hio [Hres Hsame]].
  unfold same_io in Hio. destruct Hio as [? [? [Ho [? [? [? [? [? [? [? Hfa0]]]]]]]]]].
  assert (Hbase : s_hs st <> HNotRun -> s_hs st0 = s_hs st /\ s_rawclosed st0 = s_rawclosed st).
  { intros Hn. destruct (Hsame Hn) as [-> _]. auto. }
  assert (Hfin : forall s, s_plan s = s_plan st0 -> s_cns s = s_cns st0 -> s_cn_err s = s_cn_err st0 ->
            s_closed s = s_closed st0 -> s_ended s = s_ended st0 -> s_peergone s = s_peergone st0 ->
            (s_out_err st0 <> None -> s_out_err s <> None) -> s_hs s = s_hs st0 -> s_rawclosed s = s_rawclosed st0 ->
            (forall f, s_fatal st0 = Some f -> s_fatal s = Some f) ->
            s_plan s = s_plan st /\ s_cns s = s_cns st /\ s_cn_err s = s_cn_err st /\ s_closed s = false /\
            s_ended s = s_ended st /\ s_peergone s = s_peergone st /\
            (s_out_err st <> None -> s_out_err s <> None) /\
            (s_hs st <> HNotRun -> s_hs s = s_hs st /\ s_rawclosed s = s_rawclosed st) /\
            (forall f, s_fatal st = Some f -> s_fatal s = Some f)).
  { intros s ? ? ? ? ? ? Hos ? ? Hfs. rewrite Ho in Hos. rewrite Hfa0 in Hfs.
    repeat split; try congruence; auto;
      match goal with Hn : s_hs st <> HNotRun |- _ => destruct (Hbase Hn); congruence end. }
  destruct he as [e|].
  { cbn [fst]. apply Hfin; auto. }
  destruct (Nat.eqb n 0).
  { cbn [fst]. apply Hfin; auto. }
  destruct (s_fatal st0) eqn:Efa.
  { cbn [fst]. apply Hfin; auto. intros; congruence. }
  destruct (fill st0) as [[st1 fe] sent1] eqn:Ef.
  destruct (fill_frame _ _ _ _ Ef) as [Hc1 [Ho1 _]]. unfold same_ctl in Hc1.
  destruct Hc1 as [? [Hh1 [? [? [? [Hr1 [? ?]]]]]]].
  destruct fe as [e|].
  { cbn [fst]. apply Hfin; auto. intros; discriminate. }
  cbv zeta.
  match goal with |- context [if ?b then _ else _] => destruct b end.
  - destruct (read_checked (set_input st1 (skipn n (s_input st1)))) as [[st3 pe] sent3] eqn:Er.
    destruct (read_checked_frame _ _ _ _ Er) as [Hc3 [Ho3 _]]. unfold same_ctl in Hc3. cbn in Hc3, Ho3.
    destruct Hc3 as [? [Hh3 [? [? [? [Hr3 [? ?]]]]]]].
    cbn [fst]. apply Hfin; try congruence; auto; intros; discriminate.
  - cbn [fst]. apply Hfin; cbn; auto. intros; discriminate.
Qed.

Definition mono (st st' : state) : Prop :=
  s_plan st' = s_plan st /\
  (s_closed st = true -> s_closed st' = true) /\
  (s_cns st = true -> s_cns st' = true) /\
  (s_out_err st <> None -> s_out_err st' <> None) /\
  (s_hs st <> HNotRun -> s_hs st' = s_hs st) /\
  (s_rawclosed st = true -> s_rawclosed st' = true) /\
  (s_ended st = true -> s_ended st' = true) /\
  (forall f, s_fatal st = Some f -> s_fatal st' = Some f).

Lemma do_write_cases : forall st bs,
  (s_closed st = true /\ do_write st bs = (st, fail XClosed []))
  \/ (s_closed st = false /\ exists st0 he sent0, handshake st None = (st0, he, sent0) /\
      match he with
      | Some e => do_write st bs = (st0, fail e sent0)
      | None =>
          match s_out_err st0 with
          | Some e => do_write st bs = (st0, fail e sent0)
          | None =>
              match s_fatal st0 with
              | Some e => do_write st bs = (st0, fail e sent0)
              | None =>
                  if s_cns st0 then do_write st bs = (st0, fail XShutdown sent0)
                  else match bs with
                       | [] => do_write st bs = (st0, mkO None 0 [] sent0)
                       | _ => if tx_dead st0
                              then do_write st bs = (set_fatal (set_out_err st0 (Some XClosed)) (Some XClosed), fail XClosed sent0)
                              else do_write st bs = (st0, mkO None (length bs) [] (sent0 ++ [SApp bs]))
                       end
              end
          end
      end).
Proof.
  intros st bs. unfold do_write. destruct (s_closed st) eqn:Ec; [left; auto|right].
  split; [reflexivity|].
  destruct (handshake st None) as [[st0 he] sent0] eqn:Eh. exists st0, he, sent0. split; [reflexivity|].
  destruct he; [reflexivity|].
  destruct (s_out_err st0); [reflexivity|].
  destruct (s_fatal st0) eqn:Efa; [reflexivity|].
  destruct (s_cns st0); [reflexivity|].
  destruct bs; [reflexivity|].
  destruct (tx_dead st0); [|reflexivity].
  f_equal. apply note_fatal_first; [exact Efa|reflexivity].
Qed.

Lemma handshake_mono : forall st k st' e sent, handshake st k = (st', e, sent) -> mono st st'.
Proof.
  intros st k st' e sent H.
  destruct (handshake_sum _ _ _ _ _ H) as [Hio [Hres Hsame]].
  unfold same_io in Hio. destruct Hio as [? [? [Ho [? [? [? [? [? [? [? ?]]]]]]]]]].
  unfold mono. repeat split; try congruence.
  - intros Hn. destruct (Hsame Hn) as [-> _]. reflexivity.
  - intros Hr. destruct e as [x|].
    + destruct Hres as [[_ [-> _]] | [[_ Hrc] | [_ [_ [Hrc _]]]]]; congruence.
    + destruct Hres as [_ [Hrc _]]. congruence.
Qed.

Lemma mono_refl : forall st, mono st st.
Proof. intros. unfold mono. tauto. Qed.

Lemma mono_trans : forall a b c, mono a b -> mono b c -> mono a c.
Proof.
  unfold mono. intros a b c [? [? [? [? [Hh1 [? [? ?]]]]]]] [? [? [? [? [Hh2 [? [? ?]]]]]]].
  repeat split; try congruence; auto.
  intros Hn. rewrite Hh2; [auto|]. rewrite (Hh1 Hn). exact Hn.
Qed.

Lemma step_mono : forall st c, mono st (fst (step st c)).
Proof.
  intros st c. step_cases c; cbn [step].
  - (* Read *)
    pose proof (do_read_frame st n) as H. cbv zeta in H.
    destruct H as [? [Hc [? [Hcl [He [Hpg [Ho [Hh Hfa]]]]]]]].
    unfold mono. repeat split; try congruence; auto.
    + intros Hn. apply (Hh Hn).
    + intros Hr. destruct (s_hs st) eqn:Ehs.
      * (* HNotRun: the handshake may run *)
        destruct (s_closed st) eqn:Ec.
        { unfold do_read. rewrite Ec. exact Hr. }
        destruct (handshake st None) as [[st0 he] sent0] eqn:Eh.
        rewrite (do_read_unfold _ n _ _ _ Ec Eh).
        pose proof (handshake_mono _ _ _ _ _ Eh) as Hm. destruct Hm as [_ [_ [_ [_ [_ [Hrc _]]]]]].
        specialize (Hrc Hr).
        destruct he; [exact Hrc|].
        destruct (Nat.eqb n 0); [exact Hrc|].
        destruct (s_fatal st0); [exact Hrc|].
        destruct (fill st0) as [[st1 fe] sent1] eqn:Ef.
        destruct (fill_frame _ _ _ _ Ef) as [[_ [_ [_ [_ [_ [Hr1 _]]]]]] _].
        destruct fe; [cbn; congruence|]. cbv zeta.
        match goal with |- context [if ?b then _ else _] => destruct b end.
        -- destruct (read_checked (set_input st1 (skipn n (s_input st1)))) as [[st3 pe] sent3] eqn:Er.
           destruct (read_checked_frame _ _ _ _ Er) as [[_ [_ [_ [_ [_ [Hr3 _]]]]]] _]. cbn in Hr3. cbn. congruence.
        -- cbn. congruence.
      * destruct Hh as [_ Hh]; [congruence|]. congruence.
      * destruct Hh as [_ Hh]; [congruence|]. congruence.
  - (* Write *)
    destruct (do_write_cases st bs) as [[Hc ->] | [Hc [st0 [he [sent0 [Eh Hw]]]]]]; [apply mono_refl|].
    pose proof (handshake_mono _ _ _ _ _ Eh) as Hm.
    destruct he; [rewrite Hw; exact Hm|].
    destruct (s_out_err st0) eqn:Eo; [rewrite Hw; exact Hm|].
    destruct (s_fatal st0) eqn:Efa; [rewrite Hw; exact Hm|].
    destruct (s_cns st0); [rewrite Hw; exact Hm|].
    destruct bs; [rewrite Hw; exact Hm|].
    destruct (tx_dead st0); rewrite Hw; [|exact Hm].
    eapply mono_trans; [exact Hm|]. unfold mono. cbn. repeat split; auto; try (intros; discriminate). intros; congruence.
  - (* CloseWrite *)
    unfold do_closewrite. destruct (s_hs st) eqn:Eh; try apply mono_refl.
    destruct (close_notify st) as [[st1 e] sent] eqn:Ec.
    pose proof (close_notify_spec _ _ _ _ Ec) as H. pose proof (close_notify_fatal _ _ _ _ Ec) as Hfa. cbn [fst].
    unfold mono. repeat split; intros; try (destruct H as (?&?&?&?&?&?&?&?&?&?&?&?&?&?&?); congruence).
  - (* Close *)
    unfold do_close. destruct (s_closed st) eqn:Ec; [apply mono_refl|].
    destruct (s_hs (set_closed st true)) eqn:Eh.
    + cbn. unfold mono. cbn. repeat split; auto.
    + destruct (close_notify (set_closed st true)) as [[st1 e] sent] eqn:Ecn.
      pose proof (close_notify_spec _ _ _ _ Ecn) as H. pose proof (close_notify_fatal _ _ _ _ Ecn) as Hfa.
      cbn in H, Hfa. cbn [fst].
      destruct H as (?&?&?&?&?&?&?&?&?&?&?&?&?&?&?).
      unfold mono. cbn. repeat split; intros; try congruence.
    + cbn. unfold mono. cbn. repeat split; auto.
  - (* Handshake *)
    unfold do_handshake. destruct (handshake st k) as [[st1 e] sent] eqn:Eh. cbn [fst].
    eapply handshake_mono; eauto.
  - destruct (s_ended st); [apply mono_refl|]. unfold mono. cbn. repeat split; auto.
  - destruct (s_ended st); [apply mono_refl|]. unfold mono. cbn. repeat split; auto.
  - destruct (s_ended st); unfold mono; cbn; repeat split; auto.
Qed.

(* ------------------------------------------------------------------ *)
(* C12_sticky, clause by clause                                        *)
(* ------------------------------------------------------------------ *)

Lemma exec_mono : forall h st, mono st (exec st h).
Proof.
  induction h as [|c h IH]; intros st.
  - apply mono_refl.
  - rewrite exec_cons. eapply mono_trans; [apply step_mono | apply IH].
Qed.

(* --- after Close --- *)
Lemma close_sets_closed : forall st, s_closed (fst (step st CClose)) = true.
Proof.
  intros st. cbn [step]. unfold do_close. destruct (s_closed st) eqn:Ec; [exact Ec|].
  destruct (s_hs (set_closed st true)).
  - reflexivity.
  - destruct (close_notify (set_closed st true)) as [[st1 e] sent] eqn:Ecn.
    pose proof (close_notify_spec _ _ _ _ Ecn) as H. cbn in H. destruct H as (?&?&?&?&?&Hc&?). cbn. exact Hc.
  - reflexivity.
Qed.

Lemma closed_calls : forall st c, s_closed st = true ->
  match c with
  | CRead _ | CWrite _ | CClose => snd (step st c) = fail XClosed []
  | _ => True
  end.
Proof.
  intros st c H. step_cases c; cbn [step]; auto.
  - unfold do_read. rewrite H. reflexivity.
  - unfold do_write. rewrite H. reflexivity.
  - unfold do_close. rewrite H. reflexivity.
Qed.

Theorem sticky_after_close : forall pl h i j cj oj,
  i < j -> nth_error h i = Some CClose -> nth_error h j = Some cj ->
  nth_error (run (init pl) h) j = Some oj ->
  match cj with
  | CRead _ | CWrite _ | CClose => oj = fail XClosed []
  | _ => True
  end.
Proof.
  intros pl h i j cj oj Hij Hi Hj Ho.
  eapply (later_call (fun s => s_closed s = true)
            (fun c o => match c with CRead _ | CWrite _ | CClose => o = fail XClosed [] | _ => True end));
    eauto.
  - intros s c Hs. apply (step_mono s c). exact Hs.
  - intros s c Hs. pose proof (closed_calls s c Hs) as H. destruct c; auto.
  - apply close_sets_closed.
Qed.

(* --- a failed handshake --- *)
Lemma handshake_error_latched : forall st k e,
  o_err (snd (step st (CHandshake k))) = Some e -> e <> XBlock ->
  exists e', s_hs (fst (step st (CHandshake k))) = HFailed e' /\ (e' = e \/ (e = XCtx /\ e' = XClosed /\ k <> None)).
Proof.
  intros st k e He Hb. cbn [step] in *. unfold do_handshake in *.
  destruct (handshake st k) as [[st1 e1] sent] eqn:Eh. cbn in He. subst e1. cbn [fst].
  destruct (handshake_sum _ _ _ _ _ Eh) as [_ [Hres _]].
  destruct Hres as [[-> _] | [[Hf _] | [-> [Hf [_ [Hk _]]]]]].
  - contradiction.
  - exists e. auto.
  - exists XClosed. auto.
Qed.

Lemma failed_calls : forall st c x, s_hs st = HFailed x ->
  match c with
  | CHandshake _ => snd (step st c) = fail x []
  | CRead _ | CWrite _ => snd (step st c) = fail x [] \/ snd (step st c) = fail XClosed []
  | CCloseWrite => snd (step st c) = fail XEarlyCloseWrite []
  | _ => True
  end.
Proof.
  intros st c x H. step_cases c; cbn [step]; auto.
  - unfold do_read. destruct (s_closed st); [right; reflexivity|].
    rewrite (handshake_failed _ _ _ H). left. reflexivity.
  - unfold do_write. destruct (s_closed st); [right; reflexivity|].
    rewrite (handshake_failed _ _ _ H). left. reflexivity.
  - unfold do_closewrite. rewrite H. reflexivity.
  - unfold do_handshake. rewrite (handshake_failed _ _ _ H). reflexivity.
Qed.

Theorem sticky_failed_handshake : forall pl h i j k e cj oj oi,
  i < j -> nth_error h i = Some (CHandshake k) -> nth_error (run (init pl) h) i = Some oi ->
  o_err oi = Some e -> e <> XBlock ->
  nth_error h j = Some cj -> nth_error (run (init pl) h) j = Some oj ->
  exists e', (e' = e \/ (e = XCtx /\ e' = XClosed /\ k <> None)) /\
  match cj with
  | CHandshake _ => oj = fail e' []
  | CRead _ | CWrite _ => oj = fail e' [] \/ oj = fail XClosed []
  | CCloseWrite => oj = fail XEarlyCloseWrite []
  | _ => True
  end.
Proof.
  intros pl h i j k e cj oj oi Hij Hi Hoi He Hb Hj Hoj.
  rewrite (run_nth _ _ _ _ Hi) in Hoi. inv Hoi.
  destruct (handshake_error_latched _ _ _ He Hb) as [e' [Hf He']].
  exists e'. split; [exact He'|].
  eapply (later_call (fun s => s_hs s = HFailed e')
            (fun c o => match c with
                        | CHandshake _ => o = fail e' []
                        | CRead _ | CWrite _ => o = fail e' [] \/ o = fail XClosed []
                        | CCloseWrite => o = fail XEarlyCloseWrite []
                        | _ => True end)); eauto.
  - intros s c Hs. destruct (step_mono s c) as [_ [_ [_ [_ [Hh _]]]]]. rewrite Hh; [exact Hs|congruence].
  - intros s c Hs. pose proof (failed_calls s c e' Hs) as H. destruct c; auto.
Qed.

(* --- reachable states are well-formed --- *)
Lemma handshake_wf : forall st k st' e sent, handshake st k = (st', e, sent) -> wf st -> wf st'.
Proof.
  intros st k st' e sent H Hwf. destruct (handshake_sum _ _ _ _ _ H) as [Hio _].
  unfold same_io in Hio. destruct Hio as [? [? [? _]]]. eapply wf_same; eauto.
Qed.

Lemma step_wf : forall st c, wf st -> wf (fst (step st c)).
Proof.
  intros st c Hwf. step_cases c; cbn [step].
  - destruct (s_closed st) eqn:Ec.
    { unfold do_read. rewrite Ec. exact Hwf. }
    destruct (handshake st None) as [[st0 he] sent0] eqn:Eh.
    rewrite (do_read_unfold _ n _ _ _ Ec Eh).
    pose proof (handshake_wf _ _ _ _ _ Eh Hwf) as Hwf0.
    destruct he; [exact Hwf0|].
    destruct (Nat.eqb n 0); [exact Hwf0|].
    destruct (s_fatal st0); [exact Hwf0|].
    destruct (fill st0) as [[st1 fe] sent1] eqn:Ef.
    pose proof (fill_wf _ _ _ _ Ef Hwf0) as Hwf1.
    destruct fe; [exact Hwf1|]. cbv zeta.
    match goal with |- context [if ?b then _ else _] => destruct b end.
    + destruct (read_checked (set_input st1 (skipn n (s_input st1)))) as [[st3 pe] sent3] eqn:Er.
      cbn [fst]. eapply read_checked_wf; [exact Er|]. eapply wf_same; [| |exact Hwf1]; reflexivity.
    + cbn [fst]. eapply wf_same; [| |exact Hwf1]; reflexivity.
  - destruct (do_write_cases st bs) as [[Hc ->] | [Hc [st0 [he [sent0 [Eh Hw]]]]]]; [exact Hwf|].
    pose proof (handshake_wf _ _ _ _ _ Eh Hwf) as Hwf0.
    destruct he; [rewrite Hw; exact Hwf0|].
    destruct (s_out_err st0) eqn:Eo; [rewrite Hw; exact Hwf0|].
    destruct (s_fatal st0); [rewrite Hw; exact Hwf0|].
    destruct (s_cns st0); [rewrite Hw; exact Hwf0|].
    destruct bs; [rewrite Hw; exact Hwf0|].
    destruct (tx_dead st0); rewrite Hw; [|exact Hwf0].
    cbn [fst]. destruct Hwf0 as [H1 H2]. split; cbn.
    + intros e He. destruct (H1 e He) as [Hr | [_ C]]; [left; exact Hr | congruence].
    + intros e He. inv He. auto.
  - unfold do_closewrite. destruct (s_hs st); try exact Hwf.
    destruct (close_notify st) as [[st1 e] sent] eqn:Ec.
    pose proof (close_notify_spec _ _ _ _ Ec) as H. destruct H as (?&?&?&?&?&?).
    cbn [fst]. eapply wf_same; eauto.
  - unfold do_close. destruct (s_closed st); [exact Hwf|].
    destruct (s_hs (set_closed st true)).
    + cbn [fst]. eapply wf_same; [| |exact Hwf]; reflexivity.
    + destruct (close_notify (set_closed st true)) as [[st1 e] sent] eqn:Ecn.
      pose proof (close_notify_spec _ _ _ _ Ecn) as H. cbn in H. destruct H as (?&?&?&?&?&?).
      cbn [fst]. eapply wf_same; [| |exact Hwf]; cbn; congruence.
    + cbn [fst]. eapply wf_same; [| |exact Hwf]; reflexivity.
  - unfold do_handshake. destruct (handshake st k) as [[st1 e] sent] eqn:Eh. cbn [fst].
    eapply handshake_wf; eauto.
  - destruct (s_ended st); [exact Hwf|]. eapply wf_same; [| |exact Hwf]; reflexivity.
  - destruct (s_ended st); [exact Hwf|]. eapply wf_same; [| |exact Hwf]; reflexivity.
  - destruct (s_ended st); eapply wf_same; try exact Hwf; reflexivity.
Qed.

Lemma init_wf : forall pl, wf (init pl).
Proof. intros pl. split; intros e He; cbn in He; discriminate. Qed.

Lemma exec_wf : forall pl h, wf (exec (init pl) h).
Proof. intros pl h. apply exec_inv; [intros; apply step_wf; assumption | apply init_wf]. Qed.

(* --- the connection-wide latch covers the write half: whenever the write half holds an error
       (an alert this endpoint sent, a failed transport write) a fatal error is recorded --- *)
Definition latched (st : state) : Prop := s_out_err st <> None -> s_fatal st <> None.

Lemma latched_same : forall a b, s_out_err b = s_out_err a -> s_fatal b = s_fatal a -> latched a -> latched b.
Proof. intros a b Ho Hf H. unfold latched in *. rewrite Ho, Hf. exact H. Qed.

Lemma alert_sent_fatal : forall x, alert_sent x -> fatal_class x = Some x.
Proof. intros x H. destruct x; try contradiction; reflexivity. Qed.

Lemma read_checked_keeps_latched : forall st st' e sent,
  read_checked st = (st', e, sent) -> latched st -> latched st'.
Proof.
  intros st st' e sent H HL.
  destruct (read_checked_frame _ _ _ _ H) as [_ [_ [_ Hkeep]]].
  destruct e as [x|].
  - destruct (read_checked_err _ _ _ _ H) as [_ [_ [Hfa Ho]]].
    destruct (s_fatal st) as [f|] eqn:Ef.
    { intros _. rewrite (Hkeep f eq_refl). discriminate. }
    specialize (Hfa eq_refl).
    destruct Ho as [Ho | Ha].
    + intros Hn. rewrite Ho in Hn. specialize (HL Hn). congruence.
    + intros _. rewrite Hfa, (alert_sent_fatal _ Ha). discriminate.
  - destruct (read_checked_ok _ _ _ H) as [Hr _].
    pose proof (read_record_fatal _ _ _ _ Hr) as Hf.
    destruct (read_record_out _ _ _ _ Hr) as [Ho | [z [C _]]]; [|discriminate].
    eapply latched_same; eauto.
Qed.

Lemma handshake_latched : forall st k st' e sent, handshake st k = (st', e, sent) -> latched st -> latched st'.
Proof.
  intros st k st' e sent H HL. destruct (handshake_sum _ _ _ _ _ H) as [Hio _].
  unfold same_io in Hio. destruct Hio as [? [? [? [? [? [? [? [? [? [? ?]]]]]]]]]]. eapply latched_same; eauto.
Qed.

Lemma step_latched : forall st c, latched st -> latched (fst (step st c)).
Proof.
  intros st c HL. step_cases c; cbn [step].
  - destruct (s_closed st) eqn:Ec.
    { unfold do_read. rewrite Ec. exact HL. }
    destruct (handshake st None) as [[st0 he] sent0] eqn:Eh.
    rewrite (do_read_unfold _ n _ _ _ Ec Eh).
    pose proof (handshake_latched _ _ _ _ _ Eh HL) as HL0.
    destruct he; [exact HL0|].
    destruct (Nat.eqb n 0); [exact HL0|].
    destruct (s_fatal st0); [exact HL0|].
    assert (HL1 : forall st1 fe sent1, fill st0 = (st1, fe, sent1) -> latched st1).
    { intros st1 fe sent1 Ef. unfold fill in Ef. destruct (s_input st0).
      - eapply read_checked_keeps_latched; eauto.
      - inv Ef. exact HL0. }
    destruct (fill st0) as [[st1 fe] sent1] eqn:Ef. specialize (HL1 _ _ _ eq_refl).
    destruct fe; [exact HL1|]. cbv zeta.
    match goal with |- context [if ?b then _ else _] => destruct b end.
    + destruct (read_checked (set_input st1 (skipn n (s_input st1)))) as [[st3 pe] sent3] eqn:Er.
      cbn [fst]. eapply read_checked_keeps_latched; [exact Er|]. eapply latched_same; [| |exact HL1]; reflexivity.
    + cbn [fst]. eapply latched_same; [| |exact HL1]; reflexivity.
  - destruct (do_write_cases st bs) as [[Hc ->] | [Hc [st0 [he [sent0 [Eh Hw]]]]]]; [exact HL|].
    pose proof (handshake_latched _ _ _ _ _ Eh HL) as HL0.
    destruct he; [rewrite Hw; exact HL0|].
    destruct (s_out_err st0) eqn:Eo; [rewrite Hw; exact HL0|].
    destruct (s_fatal st0); [rewrite Hw; exact HL0|].
    destruct (s_cns st0); [rewrite Hw; exact HL0|].
    destruct bs; [rewrite Hw; exact HL0|].
    destruct (tx_dead st0); rewrite Hw; [|exact HL0].
    cbn [fst]. intros _. cbn. discriminate.
  - unfold do_closewrite. destruct (s_hs st); try exact HL.
    destruct (close_notify st) as [[st1 e] sent] eqn:Ec.
    pose proof (close_notify_spec _ _ _ _ Ec) as H. destruct H as (?&?&?&?&?&?).
    pose proof (close_notify_fatal _ _ _ _ Ec).
    cbn [fst]. eapply latched_same; eauto.
  - unfold do_close. destruct (s_closed st); [exact HL|].
    destruct (s_hs (set_closed st true)).
    + cbn [fst]. eapply latched_same; [| |exact HL]; reflexivity.
    + destruct (close_notify (set_closed st true)) as [[st1 e] sent] eqn:Ecn.
      pose proof (close_notify_spec _ _ _ _ Ecn) as H. cbn in H. destruct H as (?&?&?&?&?&?).
      pose proof (close_notify_fatal _ _ _ _ Ecn) as Hf. cbn in Hf.
      cbn [fst]. eapply latched_same; [| |exact HL]; cbn; congruence.
    + cbn [fst]. eapply latched_same; [| |exact HL]; reflexivity.
  - unfold do_handshake. destruct (handshake st k) as [[st1 e] sent] eqn:Eh. cbn [fst].
    eapply handshake_latched; eauto.
  - destruct (s_ended st); [exact HL|]. eapply latched_same; [| |exact HL]; reflexivity.
  - destruct (s_ended st); [exact HL|]. eapply latched_same; [| |exact HL]; reflexivity.
  - destruct (s_ended st); eapply latched_same; try exact HL; reflexivity.
Qed.

Lemma exec_latched : forall pl h, latched (exec (init pl) h).
Proof.
  intros pl h. apply exec_inv; [intros; apply step_latched; assumption|].
  intros C. cbn in C. contradiction.
Qed.

(* --- an error returned by Read stays --- *)
(* after a Read returned e: the connection is closed, the handshake failed with e, e is the
   connection's fatal error, or e is latched on the read half with nothing buffered (this is
   where end-of-stream lives: it is not fatal; a failing transport write may still make the
   connection's fatal error "closed") *)
Definition read_dead (e : eclass) (st : state) : Prop :=
  s_closed st = true \/ s_hs st = HFailed e \/
  (s_hs st = HDone /\
   (s_fatal st = Some e \/
    (s_in_err st = Some e /\ s_input st = [] /\
     ((s_fatal st = None /\ fatal_class e = None) \/ s_fatal st = Some XClosed)))).

Lemma fatal_class_cases : forall x, fatal_class x = Some x \/ (fatal_class x = None /\ x <> XLocal 100).
Proof. intros x. destruct x; cbn; auto; right; split; auto; discriminate. Qed.

(* an error of read_checked on a state with nothing buffered and nothing recorded *)
Lemma read_checked_dead : forall st st' x sent,
  read_checked st = (st', Some x, sent) -> x <> XBlock -> s_input st = [] -> s_fatal st = None ->
  s_fatal st' = Some x \/ (s_in_err st' = Some x /\ s_input st' = [] /\ s_fatal st' = None /\ fatal_class x = None).
Proof.
  intros st st' x sent H Hb Hi Hf.
  destruct (read_checked_err _ _ _ _ H) as [Hin [Hinp [Hfa _]]].
  specialize (Hfa Hf). specialize (Hin Hb).
  destruct (fatal_class_cases x) as [Hs | [Hn Hx]].
  - left. congruence.
  - right. destruct Hinp as [Hinp | C]; [|contradiction]. repeat split; congruence.
Qed.

Lemma read_error_state : forall st n e,
  o_err (snd (do_read st n)) = Some e -> e <> XBlock ->
  read_dead e (fst (do_read st n)).
Proof.
  intros st n e He Hb.
  destruct (s_closed st) eqn:Ec.
  { unfold do_read in *. rewrite Ec in *. left. exact Ec. }
  destruct (handshake st None) as [[st0 he] sent0] eqn:Eh.
  rewrite (do_read_unfold _ n _ _ _ Ec Eh) in *.
  destruct (handshake_sum _ _ _ _ _ Eh) as [_ [Hres _]].
  destruct he as [x|].
  { cbn in He. inv He. cbn [fst]. destruct Hres as [[-> _] | [[Hf _] | [_ [_ [_ [C _]]]]]]; [contradiction | | contradiction].
    right; left. exact Hf. }
  destruct Hres as [Hd _].
  destruct (Nat.eqb n 0); [cbn in He; discriminate|].
  destruct (s_fatal st0) as [f|] eqn:Efa.
  { cbn in He. inv He. cbn [fst]. right; right. auto. }
  destruct (fill st0) as [[st1 fe] sent1] eqn:Ef.
  destruct (fill_frame _ _ _ _ Ef) as [[_ [Hh1 _]] _].
  destruct fe as [x|].
  { cbn in He. inv He. cbn [fst]. destruct (fill_err _ _ _ _ Ef) as [Hi0 Hrc].
    right; right. split; [congruence|].
    destruct (read_checked_dead _ _ _ _ Hrc Hb Hi0 Efa) as [Hs | [Hin [Hi [Hfn Hcl]]]]; auto 6. }
  cbv zeta in *.
  destruct (fill_ok _ _ _ Ef) as [_ [Hfa1 _]].
  match goal with |- context [if ?b then _ else _] => destruct b eqn:Econd end.
  - destruct (read_checked (set_input st1 (skipn n (s_input st1)))) as [[st3 pe] sent3] eqn:Er.
    cbn in He. subst pe. cbn [fst].
    destruct (read_checked_frame _ _ _ _ Er) as [[_ [Hh3 _]] _]. cbn in Hh3.
    apply andb_prop in Econd. destruct Econd as [Econd _]. apply andb_prop in Econd. destruct Econd as [_ El].
    cbn in El. apply Nat.eqb_eq in El. apply length_zero_iff_nil in El.
    right; right. split; [congruence|].
    assert (Hf2 : s_fatal (set_input st1 (skipn n (s_input st1))) = None) by (cbn; congruence).
    destruct (read_checked_dead _ _ _ _ Er Hb El Hf2) as [Hs | [Hin [Hi [Hfn Hcl]]]]; auto 6.
  - cbn in He. discriminate.
Qed.

Lemma read_dead_keep : forall e st c, read_dead e st -> read_dead e (fst (step st c)).
Proof.
  intros e st c [Hc | [Hf | [Hd HB]]].
  - left. apply (step_mono st c). exact Hc.
  - right; left. destruct (step_mono st c) as [_ [_ [_ [_ [Hh _]]]]]. rewrite Hh; [exact Hf|congruence].
  - destruct HB as [Hfa | [Hin [Hi Hfa]]].
    { right; right. destruct (step_mono st c) as [_ [_ [_ [_ [Hh [_ [_ Hk]]]]]]].
      split; [rewrite Hh; [exact Hd|congruence]|]. left. apply Hk. exact Hfa. }
    assert (Hsame : forall s, s_hs s = s_hs st -> s_in_err s = s_in_err st -> s_input s = s_input st ->
              s_fatal s = s_fatal st -> read_dead e s).
    { intros s H1 H2 H3 H4. right; right. rewrite H1, H2, H3, H4. auto. }
    step_cases c; cbn [step].
    + unfold do_read. destruct (s_closed st) eqn:Ec; [left; exact Ec|].
      rewrite (handshake_done _ _ Hd).
      destruct (Nat.eqb n 0); [apply Hsame; reflexivity|].
      destruct Hfa as [[Hfn Hcl] | Hfc].
      * rewrite Hfn, (fill_latched _ _ Hi Hin). cbn [fst].
        nf_fields st (Some e). apply Hsame; try assumption.
        rewrite note_fatal_latch, Hfn. exact Hcl.
      * rewrite Hfc. apply Hsame; reflexivity.
    + destruct (do_write_cases st bs) as [[Hc ->] | [Hc [st0 [he [sent0 [Eh Hw]]]]]]; [left; exact Hc|].
      rewrite (handshake_done _ _ Hd) in Eh. inv Eh.
      destruct (s_out_err st0); [rewrite Hw; apply Hsame; reflexivity|].
      destruct (s_fatal st0) eqn:Ef0; [rewrite Hw; apply Hsame; cbn [fst]; congruence|].
      destruct (s_cns st0); [rewrite Hw; apply Hsame; cbn [fst]; congruence|].
      destruct bs; [rewrite Hw; apply Hsame; cbn [fst]; congruence|].
      destruct (tx_dead st0); rewrite Hw; [|apply Hsame; cbn [fst]; congruence].
      right; right. cbn. auto 6.
    + unfold do_closewrite. rewrite Hd.
      destruct (close_notify st) as [[st1 x] sent] eqn:Ecn.
      pose proof (close_notify_spec _ _ _ _ Ecn) as H. destruct H as (?&?&?&?&?&?&?&?&?).
      pose proof (close_notify_fatal _ _ _ _ Ecn).
      cbn [fst]. apply Hsame; assumption.
    + left. apply close_sets_closed.
    + unfold do_handshake. rewrite (handshake_done _ _ Hd). apply Hsame; reflexivity.
    + destruct (s_ended st); apply Hsame; reflexivity.
    + destruct (s_ended st); apply Hsame; reflexivity.
    + destruct (s_ended st); apply Hsame; reflexivity.
Qed.

Lemma read_dead_read : forall e st n, read_dead e st -> n <> 0 ->
  snd (do_read st n) = fail e [] \/ snd (do_read st n) = fail XClosed [].
Proof.
  intros e st n [Hc | [Hf | [Hd HB]]] Hn.
  - unfold do_read. rewrite Hc. cbn. auto.
  - unfold do_read. destruct (s_closed st); [cbn; auto|]. rewrite (handshake_failed _ _ _ Hf). cbn. auto.
  - unfold do_read. destruct (s_closed st); [cbn; auto|]. rewrite (handshake_done _ _ Hd).
    destruct (Nat.eqb n 0) eqn:E0; [apply Nat.eqb_eq in E0; contradiction|].
    destruct HB as [Hfa | [Hin [Hi [[Hfn _] | Hfc]]]].
    + rewrite Hfa. cbn. auto.
    + rewrite Hfn, (fill_latched _ _ Hi Hin). cbn. auto.
    + rewrite Hfc. cbn. auto.
Qed.

Theorem sticky_read_error : forall pl h i j n e m oi oj,
  i < j -> nth_error h i = Some (CRead n) -> nth_error (run (init pl) h) i = Some oi ->
  o_err oi = Some e -> e <> XBlock ->
  nth_error h j = Some (CRead m) -> m <> 0 -> nth_error (run (init pl) h) j = Some oj ->
  oj = fail e [] \/ oj = fail XClosed [].
Proof.
  intros pl h i j n e m oi oj Hij Hi Hoi He Hb Hj Hm Hoj.
  rewrite (run_nth _ _ _ _ Hi) in Hoi. inv Hoi. cbn [step] in He.
  pose proof (read_error_state _ _ _ He Hb) as HP.
  eapply (later_call (read_dead e)
            (fun c o => match c with
                        | CRead m => m <> 0 -> o = fail e [] \/ o = fail XClosed []
                        | _ => True end) h (init pl) i j (CRead n) (CRead m) oj); eauto.
  - intros s c Hs. apply read_dead_keep. exact Hs.
  - intros s c Hs. destruct c; auto. intros Hm0. cbn [step]. apply read_dead_read; auto.
Qed.

(* --- nothing is sent once the write side is dead --- *)
Definition write_dead (st : state) : Prop :=
  s_closed st = true \/ (exists x, s_hs st = HFailed x) \/
  (s_hs st = HDone /\ (s_out_err st <> None \/ s_cns st = true \/ s_fatal st <> None)).

Lemma write_dead_keep : forall st c, write_dead st -> write_dead (fst (step st c)).
Proof.
  intros st c H. destruct (step_mono st c) as [_ [Hc [Hcns [Ho [Hh [_ [_ Hk]]]]]]].
  destruct H as [H | [[x H] | [Hd [H | [H | H]]]]].
  - left. auto.
  - right; left. exists x. rewrite Hh; [exact H|congruence].
  - right; right. split; [rewrite Hh; [exact Hd|congruence]|]. left. auto.
  - right; right. split; [rewrite Hh; [exact Hd|congruence]|]. right; left. auto.
  - right; right. split; [rewrite Hh; [exact Hd|congruence]|]. right; right.
    destruct (s_fatal st) as [f|] eqn:Ef; [|contradiction]. rewrite (Hk f eq_refl). discriminate.
Qed.

Lemma write_dead_write : forall st bs, write_dead st -> exists e', snd (do_write st bs) = fail e' [].
Proof.
  intros st bs H.
  destruct (do_write_cases st bs) as [[Hc ->] | [Hc [st0 [he [sent0 [Eh Hw]]]]]].
  { cbn. eauto. }
  destruct H as [H | [[x H] | [Hd H]]]; [congruence| |].
  - rewrite (handshake_failed _ _ _ H) in Eh. inv Eh. rewrite Hw. cbn. eauto.
  - rewrite (handshake_done _ _ Hd) in Eh. inv Eh.
    destruct (s_out_err st0) eqn:Eo.
    { rewrite Hw. cbn. eauto. }
    destruct (s_fatal st0) eqn:Ef.
    { rewrite Hw. cbn. eauto. }
    destruct H as [H | [H | H]]; [congruence| |congruence]. rewrite H in Hw. rewrite Hw. cbn. eauto.
Qed.

Lemma write_error_state : forall st bs e,
  o_err (snd (do_write st bs)) = Some e -> e <> XBlock -> write_dead (fst (do_write st bs)).
Proof.
  intros st bs e He Hb.
  destruct (do_write_cases st bs) as [[Hc Hw] | [Hc [st0 [he [sent0 [Eh Hw]]]]]].
  { rewrite Hw. left. exact Hc. }
  destruct (handshake_sum _ _ _ _ _ Eh) as [_ [Hres _]].
  destruct he as [x|].
  { rewrite Hw in *. cbn in He. inv He. cbn [fst].
    destruct Hres as [[-> _] | [[Hf _] | [_ [_ [_ [C _]]]]]]; [contradiction| |contradiction].
    right; left. eauto. }
  destruct Hres as [Hd _].
  destruct (s_out_err st0) eqn:Eo.
  { rewrite Hw. right; right. split; [exact Hd|]. left. cbn. congruence. }
  destruct (s_fatal st0) eqn:Ef.
  { rewrite Hw. right; right. split; [exact Hd|]. right; right. cbn. congruence. }
  destruct (s_cns st0) eqn:Ecns.
  { rewrite Hw. right; right. split; [exact Hd|]. right; left. exact Ecns. }
  destruct bs.
  { rewrite Hw in He. cbn in He. discriminate. }
  destruct (tx_dead st0); rewrite Hw in *.
  - right; right. cbn. split; [exact Hd|]. left. discriminate.
  - cbn in He. discriminate.
Qed.

Definition later_write_fails (c : call) (o : outcome) : Prop :=
  match c with CWrite _ => exists e', o = fail e' [] | _ => True end.

Lemma write_dead_later : forall pl h i j ci bs oj,
  i < j -> nth_error h i = Some ci -> nth_error h j = Some (CWrite bs) ->
  write_dead (fst (step (exec (init pl) (firstn i h)) ci)) ->
  nth_error (run (init pl) h) j = Some oj ->
  exists e', oj = fail e' [].
Proof.
  intros pl h i j ci bs oj Hij Hi Hj HP Hoj.
  eapply (later_call write_dead later_write_fails h (init pl) i j ci (CWrite bs) oj); eauto.
  - intros s c Hs. apply write_dead_keep. exact Hs.
  - intros s c Hs. destruct c; cbn; auto. apply write_dead_write. exact Hs.
Qed.

Theorem sticky_write_error : forall pl h i j bs e bs' oi oj,
  i < j -> nth_error h i = Some (CWrite bs) -> nth_error (run (init pl) h) i = Some oi ->
  o_err oi = Some e -> e <> XBlock ->
  nth_error h j = Some (CWrite bs') -> nth_error (run (init pl) h) j = Some oj ->
  exists e', oj = fail e' [].
Proof.
  intros pl h i j bs e bs' oi oj Hij Hi Hoi He Hb Hj Hoj.
  rewrite (run_nth _ _ _ _ Hi) in Hoi. inv Hoi. cbn [step] in He.
  eapply write_dead_later; eauto. cbn [step]. eapply write_error_state; eauto.
Qed.

(* writing after the write side was shut down *)
Theorem sticky_closewrite : forall pl h i j bs oi oj,
  i < j -> nth_error h i = Some CCloseWrite -> nth_error (run (init pl) h) i = Some oi ->
  o_err oi <> Some XEarlyCloseWrite ->
  nth_error h j = Some (CWrite bs) -> nth_error (run (init pl) h) j = Some oj ->
  exists e', oj = fail e' [].
Proof.
  intros pl h i j bs oi oj Hij Hi Hoi He Hj Hoj.
  rewrite (run_nth _ _ _ _ Hi) in Hoi. inv Hoi. cbn [step] in He.
  eapply write_dead_later; eauto.
  cbn [step]. unfold do_closewrite in *. destruct (s_hs (exec (init pl) (firstn i h))) eqn:Eh.
  - cbn in He. congruence.
  - destruct (close_notify (exec (init pl) (firstn i h))) as [[st1 e] sent] eqn:Ec.
    pose proof (close_notify_spec _ _ _ _ Ec) as H. destruct H as (Hcns&?&Hh&?).
    right; right. cbn. split; [congruence|]. right; left. exact Hcns.
  - cbn in He. congruence.
Qed.

(* --- across the halves: the connection-wide latch --- *)
(* any error returned by Read, end-of-stream and "would block" apart, stops Write *)
Lemma read_error_kills_write : forall st n e,
  wf st -> o_err (snd (do_read st n)) = Some e -> e <> XBlock -> e <> XEof ->
  write_dead (fst (do_read st n)).
Proof.
  intros st n e Hwf He Hb Heof.
  pose proof (step_wf st (CRead n) Hwf) as Hwf'. cbn [step] in Hwf'.
  destruct (read_error_state _ _ _ He Hb) as [Hc | [Hf | [Hd HB]]].
  - left. exact Hc.
  - right; left. eauto.
  - right; right. split; [exact Hd|].
    destruct HB as [Hfa | [Hin [_ [[Hfn Hcl] | Hfc]]]].
    + right; right. congruence.
    + destruct Hwf' as [H1 _]. destruct (H1 _ Hin) as [Hr | [_ Ho]]; [|left; exact Ho].
      exfalso. destruct e; try discriminate; try contradiction.
    + right; right. congruence.
Qed.

Theorem sticky_read_error_stops_write : forall pl h i j n e bs oi oj,
  i < j -> nth_error h i = Some (CRead n) -> nth_error (run (init pl) h) i = Some oi ->
  o_err oi = Some e -> e <> XBlock -> e <> XEof ->
  nth_error h j = Some (CWrite bs) -> nth_error (run (init pl) h) j = Some oj ->
  exists e', oj = fail e' [].
Proof.
  intros pl h i j n e bs oi oj Hij Hi Hoi He Hb Heof Hj Hoj.
  rewrite (run_nth _ _ _ _ Hi) in Hoi. inv Hoi. cbn [step] in He.
  eapply write_dead_later; eauto. cbn [step].
  eapply read_error_kills_write; eauto. apply exec_wf.
Qed.

(* nothing is delivered once the connection is dead *)
Definition conn_dead (st : state) : Prop :=
  s_closed st = true \/ (exists x, s_hs st = HFailed x) \/ (s_hs st = HDone /\ s_fatal st <> None).

Lemma conn_dead_keep : forall st c, conn_dead st -> conn_dead (fst (step st c)).
Proof.
  intros st c H. destruct (step_mono st c) as [_ [Hc [_ [_ [Hh [_ [_ Hk]]]]]]].
  destruct H as [H | [[x H] | [Hd H]]].
  - left. auto.
  - right; left. exists x. rewrite Hh; [exact H|congruence].
  - right; right. split; [rewrite Hh; [exact Hd|congruence]|].
    destruct (s_fatal st) as [f|] eqn:Ef; [|contradiction]. rewrite (Hk f eq_refl). discriminate.
Qed.

Lemma conn_dead_read : forall st n, conn_dead st -> n <> 0 -> exists e', snd (do_read st n) = fail e' [].
Proof.
  intros st n H Hn. unfold do_read.
  destruct (s_closed st) eqn:Ec; [cbn; eauto|].
  destruct H as [H | [[x H] | [Hd H]]]; [congruence| |].
  - rewrite (handshake_failed _ _ _ H). cbn. eauto.
  - rewrite (handshake_done _ _ Hd).
    destruct (Nat.eqb n 0) eqn:E0; [apply Nat.eqb_eq in E0; contradiction|].
    destruct (s_fatal st); [cbn; eauto|contradiction].
Qed.

(* any error returned by Write, "shutdown" (CloseWrite came before) and "would block" apart, stops Read *)
Lemma write_error_kills_read : forall st bs e,
  latched st -> o_err (snd (do_write st bs)) = Some e -> e <> XBlock -> e <> XShutdown ->
  conn_dead (fst (do_write st bs)).
Proof.
  intros st bs e HL He Hb Hs.
  destruct (do_write_cases st bs) as [[Hc Hw] | [Hc [st0 [he [sent0 [Eh Hw]]]]]].
  { rewrite Hw. left. exact Hc. }
  destruct (handshake_sum _ _ _ _ _ Eh) as [_ [Hres _]].
  pose proof (handshake_latched _ _ _ _ _ Eh HL) as HL0.
  destruct he as [x|].
  { rewrite Hw in *. cbn in He. inv He. cbn [fst].
    destruct Hres as [[-> _] | [[Hf _] | [_ [_ [_ [C _]]]]]]; [contradiction| |contradiction].
    right; left. eauto. }
  destruct Hres as [Hd _].
  destruct (s_out_err st0) eqn:Eo.
  { rewrite Hw. right; right. split; [exact Hd|]. apply HL0. congruence. }
  destruct (s_fatal st0) eqn:Ef.
  { rewrite Hw. right; right. split; [exact Hd|]. cbn. congruence. }
  destruct (s_cns st0) eqn:Ecns.
  { rewrite Hw in He. cbn in He. congruence. }
  destruct bs.
  { rewrite Hw in He. cbn in He. discriminate. }
  destruct (tx_dead st0); rewrite Hw in *.
  - right; right. cbn. split; [exact Hd|]. discriminate.
  - cbn in He. discriminate.
Qed.

Theorem sticky_write_error_stops_read : forall pl h i j bs e m oi oj,
  i < j -> nth_error h i = Some (CWrite bs) -> nth_error (run (init pl) h) i = Some oi ->
  o_err oi = Some e -> e <> XBlock -> e <> XShutdown ->
  nth_error h j = Some (CRead m) -> m <> 0 -> nth_error (run (init pl) h) j = Some oj ->
  exists e', oj = fail e' [].
Proof.
  intros pl h i j bs e m oi oj Hij Hi Hoi He Hb Hs Hj Hm Hoj.
  rewrite (run_nth _ _ _ _ Hi) in Hoi. inv Hoi. cbn [step] in He.
  eapply (later_call conn_dead
            (fun c o => match c with
                        | CRead m => m <> 0 -> exists e', o = fail e' []
                        | _ => True end) h (init pl) i j (CWrite bs) (CRead m) oj); eauto.
  - intros s c Hs'. apply conn_dead_keep. exact Hs'.
  - intros s c Hs'. destruct c; auto. intros Hm0. cbn [step]. apply conn_dead_read; auto.
  - cbn [step]. eapply write_error_kills_read; eauto. apply exec_latched.
Qed.

(* ------------------------------------------------------------------ *)
(* C12_no_early_appdata                                                *)
(* ------------------------------------------------------------------ *)

(* calls that neither run the handshake nor end the transport *)
Definition passive (c : call) : bool :=
  match c with CArrive _ | CCloseWrite | CClose => true | _ => false end.

Lemma hs_scan_app : forall evs first r d, In (EApp d) evs -> hs_scan evs first r <> HsClear.
Proof.
  induction evs as [|ev evs IH]; intros first r d Hin.
  - contradiction.
  - cbn [hs_scan]. destruct ev as [d'|l c| | |t|t hd]; try (destruct first; discriminate); try discriminate.
    + destruct (c =? 0)%N; [discriminate|].
      destruct (l =? 1)%N.
      * destruct (Nat.ltb max_useless (S r)); [discriminate|].
        destruct Hin as [C|Hin]; [discriminate|]. eapply IH; eauto.
      * destruct (l =? 2)%N; discriminate.
    + destruct (first && hd && negb ((t =? 21)%N || (t =? 22)%N)); discriminate.
Qed.

Definition early_app (st : state) : Prop :=
  (s_hs st = HNotRun /\ exists d, In (EApp d) (s_raw st ++ s_wire st)) \/ exists x, s_hs st = HFailed x.

Lemma hs_run_early : forall st k st' e sent d,
  In (EApp d) (s_raw st ++ s_wire st) -> hs_run st k = (st', e, sent) ->
  e <> None /\ (st' = st \/ exists x, s_hs st' = HFailed x).
Proof.
  intros st k st' e sent d Hin H. unfold hs_run, hs_fail, hs_cancelled in H.
  pose proof (hs_scan_app _ (p_first (s_plan st)) 0 d Hin) as Hs.
  destruct (s_rawclosed st); [inv H; split; [discriminate|right; cbn; eauto]|].
  match type of H with (if ?b then _ else _) = _ => destruct b end;
    [inv H; split; [discriminate|right; cbn; eauto]|].
  destruct (hs_scan (s_raw st ++ s_wire st) (p_first (s_plan st)) 0); [contradiction| |].
  - destruct (s_ended st); [inv H; split; [discriminate|right; cbn; eauto]|].
    match type of H with (if ?b then _ else _) = _ => destruct b end; inv H; (split; [discriminate|]); [right; cbn; eauto|left; reflexivity].
  - inv H. split; [discriminate|right; cbn; eauto].
Qed.

Lemma early_app_handshake : forall st k st' e sent,
  early_app st -> handshake st k = (st', e, sent) -> e <> None /\ early_app st'.
Proof.
  intros st k st' e sent HE H.
  destruct (handshake_spec _ _ _ _ _ H) as [[Hd _] | [[x [Hf [-> [-> _]]]] | [Hn Hr]]].
  - destruct HE as [[C _] | [x C]]; congruence.
  - split; [discriminate|exact HE].
  - destruct HE as [[_ [d Hin]] | [x C]]; [|congruence].
    destruct (hs_run_early _ _ _ _ _ _ Hin Hr) as [He [-> | Hf]].
    + split; [exact He|]. left. eauto.
    + split; [exact He|]. right. exact Hf.
Qed.

Lemma early_app_keep : forall st c, early_app st ->
  early_app (fst (step st c)) /\ o_data (snd (step st c)) = [] /\
  match c with CRead _ | CWrite _ | CHandshake _ => o_err (snd (step st c)) <> None | _ => True end.
Proof.
  intros st c HE. step_cases c; cbn [step].
  - unfold do_read. destruct (s_closed st); [cbn; repeat split; auto; discriminate|].
    destruct (handshake st None) as [[st0 he] sent0] eqn:Eh.
    destruct (early_app_handshake _ _ _ _ _ HE Eh) as [Hne HE0].
    destruct he; [|contradiction]. cbn. repeat split; auto; discriminate.
  - unfold do_write. destruct (s_closed st); [cbn; repeat split; auto; discriminate|].
    destruct (handshake st None) as [[st0 he] sent0] eqn:Eh.
    destruct (early_app_handshake _ _ _ _ _ HE Eh) as [Hne HE0].
    destruct he; [|contradiction]. cbn. repeat split; auto; discriminate.
  - unfold do_closewrite. destruct HE as [[Hn ?] | [x Hf]].
    + rewrite Hn. cbn. repeat split; auto. left. auto.
    + rewrite Hf. cbn. repeat split; auto. right. eauto.
  - unfold do_close. destruct (s_closed st); [cbn; auto|].
    destruct HE as [[Hn Hin] | [x Hf]].
    + cbn [s_hs set_closed]. rewrite Hn. cbn. repeat split; auto. left. auto.
    + cbn [s_hs set_closed]. rewrite Hf. cbn. repeat split; auto. right. eauto.
  - unfold do_handshake. destruct (handshake st k) as [[st0 he] sent0] eqn:Eh.
    destruct (early_app_handshake _ _ _ _ _ HE Eh) as [Hne HE0]. cbn. auto.
  - cbn. repeat split; auto. destruct (s_ended st); [exact HE|].
    destruct HE as [[Hn [d Hin]] | [x Hf]]; [left|right; eauto]. cbn. split; [exact Hn|].
    exists d. rewrite app_assoc. apply in_or_app. left. exact Hin.
  - cbn. repeat split; auto. destruct (s_ended st); [exact HE|].
    destruct HE as [[Hn [d Hin]] | [x Hf]]; [left|right; eauto]. cbn. split; [exact Hn|].
    exists d. rewrite app_assoc. apply in_or_app. left. exact Hin.
  - cbn. repeat split; auto.
    destruct HE as [[Hn [d Hin]] | [x Hf]]; [left|right; destruct (s_ended st); cbn; eauto].
    destruct (s_ended st); cbn; eauto.
Qed.

(* passive calls leave the handshake unrun and the transport open *)
Definition fresh (st : state) : Prop :=
  s_hs st = HNotRun /\ s_ended st = false /\ s_raw st = [] /\ s_input st = [] /\ s_in_err st = None.

Lemma passive_keep : forall st c, passive c = true -> fresh st ->
  fresh (fst (step st c)) /\
  s_wire (fst (step st c)) = s_wire st ++ match c with CArrive evs => evs | _ => [] end /\
  (s_rawclosed st = false -> c <> CClose -> s_rawclosed (fst (step st c)) = false).
Proof.
  intros st c Hp [Hn [He [Hr [Hi Hin]]]]. unfold fresh. destruct c; try discriminate; cbn [step].
  - unfold do_closewrite. rewrite Hn. cbn. rewrite app_nil_r. auto 8.
  - unfold do_close. destruct (s_closed st).
    + cbn. rewrite app_nil_r. repeat split; auto.
    + cbn [s_hs set_closed]. rewrite Hn. cbn. rewrite app_nil_r. repeat split; auto. congruence.
  - rewrite He. cbn. auto 8.
Qed.

Lemma passive_exec : forall h st, forallb passive h = true -> fresh st ->
  fresh (exec st h) /\ s_wire (exec st h) = s_wire st ++ arrived h /\
  (s_rawclosed st = false -> ~ In CClose h -> s_rawclosed (exec st h) = false).
Proof.
  induction h as [|c h IH]; intros st Hp Hf.
  - cbn. rewrite app_nil_r. auto.
  - cbn [forallb] in Hp. apply andb_prop in Hp. destruct Hp as [Hc Hp].
    destruct (passive_keep st c Hc Hf) as [Hf1 [Hw1 Hr1]].
    destruct (IH _ Hp Hf1) as [Hf2 [Hw2 Hr2]]. rewrite exec_cons.
    split; [exact Hf2|]. split.
    + rewrite Hw2, Hw1, <- app_assoc. f_equal.
      unfold arrived. destruct c; try discriminate; reflexivity.
    + intros Hrc Hnc. apply Hr2.
      * apply Hr1; [exact Hrc|]. intros ->. apply Hnc. left. reflexivity.
      * intros C. apply Hnc. right. exact C.
Qed.

Lemma init_fresh : forall pl, fresh (init pl).
Proof. intros. unfold fresh. cbn. auto. Qed.

Theorem no_early_appdata : forall pl h1 evs d h2,
  forallb passive h1 = true -> In (EApp d) evs ->
  let h := h1 ++ CArrive evs :: h2 in
  s_hs (exec (init pl) h) <> HDone /\
  Forall (fun o => o_data o = []) (run (init pl) h) /\
  (forall j c o, length h1 < j -> nth_error h j = Some c -> nth_error (run (init pl) h) j = Some o ->
     match c with CRead _ | CWrite _ | CHandshake _ => o_err o <> None | _ => True end).
Proof.
  intros pl h1 evs d h2 Hp Hin h.
  destruct (passive_exec h1 (init pl) Hp (init_fresh pl)) as [[Hn [He [Hr [Hi Hie]]]] [Hw _]].
  set (st1 := exec (init pl) h1) in *.
  assert (HE : early_app (fst (step st1 (CArrive evs)))).
  { cbn [step]. rewrite He. left. cbn. split; [exact Hn|]. exists d. rewrite Hr. cbn.
    apply in_or_app. right. exact Hin. }
  assert (Hall : forall h' s, early_app s ->
            early_app (exec s h') /\ Forall (fun o => o_data o = []) (run s h') /\
            forall j c o, nth_error h' j = Some c -> nth_error (run s h') j = Some o ->
              match c with CRead _ | CWrite _ | CHandshake _ => o_err o <> None | _ => True end).
  { induction h' as [|c h' IH]; intros s Hs.
    - cbn. split; [exact Hs|]. split; [constructor|]. intros j c o Hj. destruct j; discriminate.
    - destruct (early_app_keep s c Hs) as [Hs1 [Hd1 He1]].
      destruct (IH _ Hs1) as [Hs2 [Hd2 He2]]. rewrite exec_cons, run_cons.
      split; [exact Hs2|]. split; [constructor; assumption|].
      intros j c' o Hj Ho. destruct j as [|j].
      + cbn in Hj, Ho. inv Hj. inv Ho. exact He1.
      + cbn in Hj, Ho. eapply He2; eauto. }
  destruct (Hall h2 _ HE) as [HE2 [Hd2 He2]].
  assert (Hd1 : Forall (fun o => o_data o = []) (run (init pl) h1)).
  { clear - Hp. generalize (init_fresh pl). generalize (init pl).
    induction h1 as [|c h1 IH]; intros s Hf.
    - constructor.
    - cbn [forallb] in Hp. apply andb_prop in Hp. destruct Hp as [Hc Hp].
      rewrite run_cons. constructor.
      + destruct Hf as [Hn _]. destruct c; try discriminate; cbn [step].
        * unfold do_closewrite. rewrite Hn. reflexivity.
        * unfold do_close. destruct (s_closed s); [reflexivity|]. cbn [s_hs set_closed]. rewrite Hn. reflexivity.
        * reflexivity.
      + apply IH; [exact Hp|]. apply (passive_keep s c Hc Hf). }
  unfold h. rewrite exec_app, exec_cons, run_app, run_cons. fold st1.
  split.
  - destruct HE2 as [[C _] | [x C]]; congruence.
  - split.
    + apply Forall_app. split; [exact Hd1|]. constructor; [reflexivity|exact Hd2].
    + intros j c o Hj Hc Ho.
      assert (Hjj : j = length h1 + S (j - S (length h1))) by lia.
      rewrite Hjj in Hc, Ho.
      rewrite nth_error_app2 in Hc by lia.
      rewrite nth_error_app2 in Ho by (rewrite run_length; lia). rewrite run_length in Ho.
      replace (length h1 + S (j - S (length h1)) - length h1) with (S (j - S (length h1))) in Hc, Ho by lia.
      cbn [nth_error] in Hc, Ho. eapply He2; eauto.
Qed.

(* ------------------------------------------------------------------ *)
(* C12_cancel                                                          *)
(* ------------------------------------------------------------------ *)

Lemma cancel_step : forall st k,
  s_hs st = HNotRun -> s_rawclosed st = false -> s_ended st = false ->
  k < p_steps (s_plan st) -> (k <= p_pos (s_plan st) \/ s_raw st ++ s_wire st = []) ->
  snd (step st (CHandshake (Some k))) = fail XCtx [] /\
  s_rawclosed (fst (step st (CHandshake (Some k)))) = true /\
  s_hs (fst (step st (CHandshake (Some k)))) = HFailed XClosed.
Proof.
  intros st k Hn Hr He Hk Hpos. cbn [step]. unfold do_handshake, handshake. rewrite Hn.
  unfold hs_run. rewrite Hr.
  assert (Hlt : Nat.ltb k (p_steps (s_plan st)) = true) by (apply Nat.ltb_lt; exact Hk).
  rewrite Hlt.
  destruct (Nat.leb k (p_pos (s_plan st))) eqn:El.
  - cbn. auto.
  - cbn [andb]. destruct Hpos as [Hp | Hemp].
    + apply Nat.leb_le in Hp. congruence.
    + rewrite Hemp. cbn [hs_scan]. rewrite He. cbn. auto.
Qed.

Definition passive_open (c : call) : bool :=
  match c with CArrive _ | CCloseWrite => true | _ => false end.

Theorem cancel_reported : forall pl h1 k h2,
  forallb passive_open h1 = true ->
  k < p_steps pl -> (k <= p_pos pl \/ arrived h1 = []) ->
  let h := h1 ++ CHandshake (Some k) :: h2 in
  nth_error (run (init pl) h) (length h1) = Some (fail XCtx []) /\
  s_rawclosed (exec (init pl) (h1 ++ [CHandshake (Some k)])) = true /\
  (forall j c o, length h1 < j -> nth_error h j = Some c -> nth_error (run (init pl) h) j = Some o ->
     match c with
     | CHandshake _ => o = fail XClosed []
     | CRead _ | CWrite _ => o = fail XClosed []
     | _ => True
     end).
Proof.
  intros pl h1 k h2 Hp Hk Hpos h.
  assert (Hp' : forallb passive h1 = true).
  { clear - Hp. induction h1 as [|c h1 IH]; [reflexivity|]. cbn [forallb] in *.
    apply andb_prop in Hp. destruct Hp as [Hc Hp]. rewrite (IH Hp), andb_true_r. destruct c; try discriminate; reflexivity. }
  assert (Hnc : ~ In CClose h1).
  { clear - Hp. induction h1 as [|c h1 IH]; [tauto|]. cbn [forallb] in Hp.
    apply andb_prop in Hp. destruct Hp as [Hc Hp]. intros [-> | C]; [discriminate|]. exact (IH Hp C). }
  destruct (passive_exec h1 (init pl) Hp' (init_fresh pl)) as [[Hn [He [Hr _]]] [Hw Hrc]].
  specialize (Hrc eq_refl Hnc).
  set (st1 := exec (init pl) h1) in *.
  assert (Hplan : s_plan st1 = pl).
  { unfold st1. destruct (exec_mono h1 (init pl)) as [Hpl _]. exact Hpl. }
  assert (Hpos' : k <= p_pos (s_plan st1) \/ s_raw st1 ++ s_wire st1 = []).
  { rewrite Hplan. destruct Hpos as [Hl | Ha]; [left; exact Hl|right]. rewrite Hr, Hw, Ha. reflexivity. }
  rewrite <- Hplan in Hk.
  destruct (cancel_step st1 k Hn Hrc He Hk Hpos') as [Ho [Hrc' Hf]].
  split; [|split].
  - unfold h. rewrite (run_nth _ _ (length h1) (CHandshake (Some k))).
    + rewrite firstn_app, firstn_all, Nat.sub_diag. cbn [firstn]. rewrite app_nil_r. fold st1. rewrite Ho. reflexivity.
    + rewrite nth_error_app2 by lia. rewrite Nat.sub_diag. reflexivity.
  - rewrite exec_app. cbn [exec fold_left]. fold st1. exact Hrc'.
  - intros j c o Hj Hc Ho'.
    assert (Hi : nth_error h (length h1) = Some (CHandshake (Some k))).
    { unfold h. rewrite nth_error_app2 by lia. rewrite Nat.sub_diag. reflexivity. }
    assert (Hfi : firstn (length h1) h = h1).
    { unfold h. rewrite firstn_app, firstn_all, Nat.sub_diag. cbn [firstn]. apply app_nil_r. }
    eapply (later_call (fun s => s_hs s = HFailed XClosed)
              (fun c o => match c with
                          | CHandshake _ => o = fail XClosed []
                          | CRead _ | CWrite _ => o = fail XClosed []
                          | _ => True end) h (init pl) (length h1) j); eauto.
    + intros s c' Hs. destruct (step_mono s c') as [_ [_ [_ [_ [Hh _]]]]]. rewrite Hh; [exact Hs|congruence].
    + intros s c' Hs. pose proof (failed_calls s c' XClosed Hs) as H. destruct c'; auto; destruct H; auto.
    + rewrite Hfi. fold st1. exact Hf.
Qed.

(* ------------------------------------------------------------------ *)
(* C12_eof_only_after_all_data, C12_eof_condition                      *)
(* ------------------------------------------------------------------ *)

Definition is_partial (ev : event) : bool := match ev with EPartial _ _ => true | _ => false end.
Definition no_close (l : list event) : Prop := forallb (fun e => negb (is_close_notify e)) l = true.
Definition no_partial (l : list event) : Prop := forallb (fun e => negb (is_partial e)) l = true.
Definition has_close (l : list event) : Prop := existsb is_close_notify l = true.

Fixpoint all_app (evs : list event) : list byte :=
  match evs with
  | [] => []
  | EApp d :: r => d ++ all_app r
  | _ :: r => all_app r
  end.

Definition ptail (E : option (option (N * bool))) : list event :=
  match E with Some (Some (t, hd)) => [EPartial t hd] | _ => [] end.

Definition eof_ok (A : list event) (E : option (option (N * bool))) : Prop := has_close A \/ E = Some None.

(* the handshake's own failure is not reported as an end of stream *)
Definition plan_ok (p : plan) : Prop :=
  match p_res p with Some (e, _) => e <> XEof /\ e <> XUnexpectedEof | None => True end.

Definition skippable (ev : event) : bool :=
  match ev with
  | EApp [] => true
  | EAlert l c => negb (c =? 0)%N && (l =? 1)%N
  | _ => false
  end.

Lemma all_app_app : forall a b, all_app (a ++ b) = all_app a ++ all_app b.
Proof.
  induction a as [|ev a IH]; intros b; [reflexivity|].
  destruct ev; cbn; rewrite ?IH, ?app_assoc; reflexivity.
Qed.

Lemma no_close_app : forall a b, no_close (a ++ b) <-> no_close a /\ no_close b.
Proof. intros. unfold no_close. rewrite forallb_app, andb_true_iff. tauto. Qed.

Lemma no_partial_app : forall a b, no_partial (a ++ b) <-> no_partial a /\ no_partial b.
Proof. intros. unfold no_partial. rewrite forallb_app, andb_true_iff. tauto. Qed.

Lemma has_close_app : forall a b, has_close (a ++ b) <-> has_close a \/ has_close b.
Proof. intros. unfold has_close. rewrite existsb_app, orb_true_iff. tauto. Qed.

Lemma skippable_props : forall sk, forallb skippable sk = true -> no_close sk /\ no_partial sk /\ all_app sk = [].
Proof.
  induction sk as [|ev sk IH]; intros H.
  - repeat split.
  - cbn [forallb] in H. apply andb_prop in H. destruct H as [Hev Hsk].
    destruct (IH Hsk) as [H1 [H2 H3]]. unfold no_close, no_partial in *.
    destruct ev as [d|l c| | |t|t hd]; try discriminate.
    + destruct d; [|discriminate]. cbn. auto.
    + cbn in Hev. apply andb_prop in Hev. destruct Hev as [Hc _]. cbn. rewrite Hc. cbn. auto.
Qed.

Lemma abc_no_close : forall l, no_close l -> app_before_close l = all_app l.
Proof.
  induction l as [|ev l IH]; intros H; [reflexivity|].
  unfold no_close in H. cbn [forallb] in H. apply andb_prop in H. destruct H as [Hev Hl].
  apply negb_true_iff in Hev.
  destruct ev as [d|lv c| | |t|t hd]; cbn [app_before_close all_app]; rewrite ?Hev, ?(IH Hl); reflexivity.
Qed.

Lemma abc_split : forall c1 ev r, no_close c1 -> is_close_notify ev = true ->
  app_before_close (c1 ++ ev :: r) = all_app c1.
Proof.
  induction c1 as [|x c1 IH]; intros ev r Hn Hev.
  - cbn [app all_app]. destruct ev; try discriminate. cbn [app_before_close]. rewrite Hev. reflexivity.
  - unfold no_close in Hn. cbn [forallb] in Hn. apply andb_prop in Hn. destruct Hn as [Hx Hc].
    apply negb_true_iff in Hx.
    destruct x as [d|lv c| | |t|t hd]; cbn [app app_before_close all_app]; rewrite ?Hx, ?(IH _ _ Hc Hev); reflexivity.
Qed.

Lemma abc_has_close : forall a b, has_close a -> app_before_close (a ++ b) = app_before_close a.
Proof.
  induction a as [|x a IH]; intros b H.
  - discriminate.
  - unfold has_close in H. cbn [existsb] in H.
    destruct x as [d|lv c| | |t|t hd]; cbn [app app_before_close]; try (cbn in H; rewrite (IH b H); reflexivity).
    destruct (is_close_notify (EAlert lv c)); [reflexivity|]. cbn in H. apply IH. exact H.
Qed.

Lemma abc_ptail : forall a E, app_before_close (a ++ ptail E) = app_before_close a.
Proof.
  intros a E. destruct E as [[[t hd]|]|]; cbn [ptail]; rewrite ?app_nil_r; try reflexivity.
  induction a as [|x a IH]; [reflexivity|].
  destruct x as [d|lv c| | |t'|t' hd']; cbn [app app_before_close]; rewrite ?IH; try reflexivity.
Qed.

Lemma has_close_ptail : forall a E, has_close (a ++ ptail E) -> has_close a.
Proof.
  intros a E H. apply has_close_app in H. destruct H as [H|H]; [exact H|].
  destruct E as [[[t hd]|]|]; discriminate.
Qed.

(* a partial record inside A ++ ptail E can only be the tail *)
Lemma partial_in_tail : forall A E pre t hd post,
  no_partial A -> A ++ ptail E = pre ++ EPartial t hd :: post -> exists p, E = Some (Some p).
Proof.
  intros A E pre t hd post Hn Heq.
  destruct E as [[p|]|]; [eauto| |]; cbn [ptail] in Heq; rewrite app_nil_r in Heq; subst A;
    apply no_partial_app in Hn; destruct Hn as [_ Hn]; discriminate.
Qed.

Lemma no_partial_tail_empty : forall A E l, no_partial l -> A ++ ptail E = l -> ptail E = [].
Proof.
  intros A E l Hl Heq. destruct E as [[[t hd]|]|]; try reflexivity.
  subst l. apply no_partial_app in Hl. destruct Hl as [_ Hl]. discriminate.
Qed.

Lemma scan_split : forall evs r, exists sk, forallb skippable sk = true /\
  match scan evs r with
  | ScEmpty _ => evs = sk
  | ScPartial rest _ => evs = sk ++ rest /\ exists t hd tl, rest = EPartial t hd :: tl
  | ScApp d rest => evs = sk ++ EApp d :: rest
  | ScHs rest => evs = sk ++ EHs :: rest
  | ScErr e a rest _ => exists ev, evs = sk ++ ev :: rest /\ (e = XEof -> is_close_notify ev = true) /\
                                   e <> XUnexpectedEof /\ is_partial ev = false
  end.
Proof.
  induction evs as [|ev evs IH]; intros r.
  - exists []. split; reflexivity.
  - cbn [scan]. destruct ev as [d|l c| | |t|t hd].
    + destruct d as [|b d].
      * destruct (Nat.ltb max_useless (S r)).
        -- exists []. split; [reflexivity|]. exists (EApp []). repeat split; try discriminate.
        -- destruct (IH (S r)) as [sk [Hsk Hm]]. exists (EApp [] :: sk). split; [cbn; exact Hsk|].
           destruct (scan evs (S r)); cbn.
           ++ congruence.
           ++ destruct Hm as [-> Hm]. auto.
           ++ congruence.
           ++ congruence.
           ++ destruct Hm as [ev [-> Hm]]. exists ev. auto.
      * exists []. split; reflexivity.
    + destruct (c =? 0)%N eqn:Ec.
      { exists []. split; [reflexivity|]. exists (EAlert l c). cbn. rewrite Ec. repeat split; discriminate. }
      destruct (l =? 1)%N eqn:El.
      * destruct (Nat.ltb max_useless (S r)).
        -- exists []. split; [reflexivity|]. exists (EAlert l c). repeat split; discriminate.
        -- destruct (IH (S r)) as [sk [Hsk Hm]]. exists (EAlert l c :: sk). split; [cbn; rewrite Ec, El; exact Hsk|].
           destruct (scan evs (S r)); cbn.
           ++ congruence.
           ++ destruct Hm as [-> Hm]. auto.
           ++ congruence.
           ++ congruence.
           ++ destruct Hm as [ev [-> Hm]]. exists ev. auto.
      * destruct (l =? 2)%N; exists []; (split; [reflexivity|]); exists (EAlert l c); repeat split; discriminate.
    + exists []. split; reflexivity.
    + exists []. split; [reflexivity|]. exists ECcs. repeat split; discriminate.
    + exists []. split; [reflexivity|]. exists (EDamaged t). repeat split; discriminate.
    + exists []. split; [reflexivity|]. split; [reflexivity|]. eauto.
Qed.

Definition isS {A : Type} (o : option A) : bool := match o with Some _ => true | None => false end.

Definition InvDone (A : list event) (E : option (option (N * bool))) (D : list byte) (st : state) : Prop :=
  match s_in_err st with
  | None => exists consumed, A ++ ptail E = consumed ++ s_raw st ++ s_wire st /\
                             no_close consumed /\ no_partial consumed /\ D ++ s_input st = all_app consumed
  | Some XEof => s_input st = [] /\ D = app_before_close A /\ eof_ok A E
  | Some XUnexpectedEof => exists p, E = Some (Some p)
  | Some _ => True
  end.

Definition Inv (A : list event) (E : option (option (N * bool))) (D : list byte) (st : state) : Prop :=
  s_ended st = isS E /\ plan_ok (s_plan st) /\ no_partial A /\
  match s_hs st with
  | HNotRun => s_raw st ++ s_wire st = A ++ ptail E /\ D = [] /\ s_input st = [] /\ s_in_err st = None
  | HFailed e => D = [] /\ (e = XEof -> app_before_close A = [] /\ eof_ok A E) /\
                 (e = XUnexpectedEof -> exists p, E = Some (Some p))
  | HDone => InvDone A E D st
  end.

(* the two ways a state gets an end-of-stream error on its read half *)
Lemma eof_by_close : forall A E D pre ev post,
  no_close pre -> is_close_notify ev = true -> A ++ ptail E = pre ++ ev :: post -> D = all_app pre ->
  D = app_before_close A /\ eof_ok A E.
Proof.
  intros A E D pre ev post Hn Hev Heq HD. split.
  - rewrite <- (abc_ptail A E), Heq, (abc_split _ _ _ Hn Hev). exact HD.
  - left. apply (has_close_ptail A E). rewrite Heq. apply has_close_app. right.
    unfold has_close. cbn [existsb]. rewrite Hev. reflexivity.
Qed.

Lemma eof_by_end : forall A E D l,
  isS E = true -> no_close l -> no_partial l -> A ++ ptail E = l -> D = all_app l ->
  D = app_before_close A /\ eof_ok A E.
Proof.
  intros A E D l HE Hn Hp Heq HD.
  pose proof (no_partial_tail_empty _ _ _ Hp Heq) as Ht. rewrite Ht, app_nil_r in Heq. subst l.
  split.
  - rewrite (abc_no_close _ Hn). exact HD.
  - right. destruct E as [[[t hd]|]|]; [discriminate|reflexivity|discriminate].
Qed.

Ltac lists := repeat rewrite <- app_assoc; cbn [app]; try reflexivity; try congruence.

Lemma inv_read_record : forall A E D st st' e sent,
  no_partial A -> s_ended st = isS E -> InvDone A E D st -> s_input st = [] ->
  read_record st = (st', e, sent) -> InvDone A E D st' /\ (e = None \/ s_input st' = []).
Proof.
  intros A E D st st' e sent HA Hend HI Hin H. unfold read_record in H. unfold InvDone in HI.
  destruct (s_in_err st) eqn:E0.
  { inj3 H. unfold InvDone. rewrite E0. auto. }
  destruct HI as [cons [Heq [Hnc [Hnp HD]]]]. rewrite Hin, app_nil_r in HD.
  destruct (scan_split (s_raw st) (s_retry st)) as [sk1 [Hsk1 Hm1]].
  destruct (skippable_props _ Hsk1) as [Hc1 [Hp1 Ha1]].
  rr_cases st; try rewrite E1 in Hm1.
  1-10: destruct (scan_split (s_wire st) r1) as [sk2 [Hsk2 Hm2]];
        destruct (skippable_props _ Hsk2) as [Hc2 [Hp2 Ha2]]; rewrite E2 in Hm2.
  - (* nothing left, transport ended: EOF on a record boundary *)
    inj3 H. unfold InvDone. cbn. rewrite ?E0. split; [|auto]. split; [exact Hin|].
    apply (eof_by_end A E _ (cons ++ sk1 ++ sk2)).
    + congruence.
    + apply no_close_app. split; [exact Hnc|]. apply no_close_app. auto.
    + apply no_partial_app. split; [exact Hnp|]. apply no_partial_app. auto.
    + rewrite Heq, Hm1, Hm2. reflexivity.
    + rewrite !all_app_app, Ha1, Ha2, !app_nil_r. congruence.
  - inj3 H. unfold InvDone. cbn. rewrite ?E0. split; [|auto]. exists (cons ++ sk1 ++ sk2). repeat split.
    + rewrite Heq, Hm1, Hm2. rewrite !app_nil_r. reflexivity.
    + apply no_close_app. split; [exact Hnc|]. apply no_close_app. auto.
    + apply no_partial_app. split; [exact Hnp|]. apply no_partial_app. auto.
    + rewrite Hin, app_nil_r, !all_app_app, Ha1, Ha2, !app_nil_r. congruence.
  - (* the record at hand is incomplete and the transport ended *)
    inj3 H. unfold InvDone. cbn. rewrite ?E0. split; [|auto]. destruct Hm2 as [Hw [t [hd [tl ->]]]].
    apply (partial_in_tail A E (cons ++ sk1 ++ sk2) t hd tl HA). rewrite Heq, Hm1, Hw. lists.
  - inj3 H. unfold InvDone. cbn. rewrite ?E0. split; [|auto]. destruct Hm2 as [Hw _]. exists (cons ++ sk1 ++ sk2). repeat split.
    + rewrite Heq, Hm1, Hw. rewrite app_nil_r. lists.
    + apply no_close_app. split; [exact Hnc|]. apply no_close_app. auto.
    + apply no_partial_app. split; [exact Hnp|]. apply no_partial_app. auto.
    + rewrite Hin, app_nil_r, !all_app_app, Ha1, Ha2, !app_nil_r. congruence.
  - inj3 H. unfold InvDone. cbn. rewrite ?E0. split; [|auto]. exists (cons ++ sk1 ++ sk2 ++ [EApp d2]). repeat split.
    + rewrite Heq, Hm1, Hm2. rewrite app_nil_r. lists.
    + apply no_close_app. split; [exact Hnc|]. apply no_close_app. split; [auto|]. apply no_close_app. split; [auto|reflexivity].
    + apply no_partial_app. split; [exact Hnp|]. apply no_partial_app. split; [auto|]. apply no_partial_app. split; [auto|reflexivity].
    + rewrite !all_app_app, Ha1, Ha2. cbn. rewrite !app_nil_r. congruence.
  - inj3 H. unfold InvDone. cbn. rewrite ?E0. split; [|auto]. exists (cons ++ sk1 ++ sk2 ++ [EApp d2]). repeat split.
    + rewrite Heq, Hm1, Hm2. rewrite app_nil_r. lists.
    + apply no_close_app. split; [exact Hnc|]. apply no_close_app. split; [auto|]. apply no_close_app. split; [auto|reflexivity].
    + apply no_partial_app. split; [exact Hnp|]. apply no_partial_app. split; [auto|]. apply no_partial_app. split; [auto|reflexivity].
    + rewrite !all_app_app, Ha1, Ha2. cbn. rewrite !app_nil_r. congruence.
  - inj3 H. unfold InvDone. cbn. rewrite ?E0. split; [|auto]. exists (cons ++ sk1 ++ sk2 ++ [EHs]). repeat split.
    + rewrite Heq, Hm1, Hm2. rewrite app_nil_r. lists.
    + apply no_close_app. split; [exact Hnc|]. apply no_close_app. split; [auto|]. apply no_close_app. split; [auto|reflexivity].
    + apply no_partial_app. split; [exact Hnp|]. apply no_partial_app. split; [auto|]. apply no_partial_app. split; [auto|reflexivity].
    + rewrite Hin, app_nil_r, !all_app_app, Ha1, Ha2. cbn. rewrite !app_nil_r. congruence.
  - inj3 H. unfold InvDone. cbn. rewrite ?E0. split; [|auto]. exists (cons ++ sk1 ++ sk2 ++ [EHs]). repeat split.
    + rewrite Heq, Hm1, Hm2. rewrite app_nil_r. lists.
    + apply no_close_app. split; [exact Hnc|]. apply no_close_app. split; [auto|]. apply no_close_app. split; [auto|reflexivity].
    + apply no_partial_app. split; [exact Hnp|]. apply no_partial_app. split; [auto|]. apply no_partial_app. split; [auto|reflexivity].
    + rewrite Hin, app_nil_r, !all_app_app, Ha1, Ha2. cbn. rewrite !app_nil_r. congruence.
  - destruct Hm2 as [ev [Hw [Hcl [Hne _]]]].
    assert (Hgoal : forall s, s_in_err s = Some e2 -> s_input s = [] -> InvDone A E D s).
    { intros s Hs Hi. unfold InvDone. rewrite Hs. destruct e2; auto; [|congruence].
      split; [exact Hi|]. apply (eof_by_close A E _ (cons ++ sk1 ++ sk2) ev rest2).
      - apply no_close_app. split; [exact Hnc|]. apply no_close_app. auto.
      - auto.
      - rewrite Heq, Hm1, Hw. lists.
      - rewrite !all_app_app, Ha1, Ha2, !app_nil_r. congruence. }
    destruct a2; inj3 H; (split; [apply Hgoal; cbn; auto | right; cbn; auto]).
  - destruct Hm2 as [ev [Hw [Hcl [Hne _]]]].
    assert (Hgoal : forall s, s_in_err s = Some e2 -> s_input s = [] -> InvDone A E D s).
    { intros s Hs Hi. unfold InvDone. rewrite Hs. destruct e2; auto; [|congruence].
      split; [exact Hi|]. apply (eof_by_close A E _ (cons ++ sk1 ++ sk2) ev rest2).
      - apply no_close_app. split; [exact Hnc|]. apply no_close_app. auto.
      - auto.
      - rewrite Heq, Hm1, Hw. lists.
      - rewrite !all_app_app, Ha1, Ha2, !app_nil_r. congruence. }
    destruct a2; inj3 H; (split; [apply Hgoal; cbn; auto | right; cbn; auto]).
  - inj3 H. unfold InvDone. cbn. rewrite ?E0. split; [|auto]. destruct Hm1 as [Hr [t [hd [tl ->]]]].
    apply (partial_in_tail A E (cons ++ sk1) t hd (tl ++ s_wire st) HA). rewrite Heq, Hr. lists.
  - inj3 H. unfold InvDone. cbn. rewrite ?E0. split; [|auto]. destruct Hm1 as [Hr _]. exists (cons ++ sk1). repeat split.
    + rewrite Heq, Hr. lists.
    + apply no_close_app. auto.
    + apply no_partial_app. auto.
    + rewrite Hin, app_nil_r, !all_app_app, Ha1, !app_nil_r. congruence.
  - inj3 H. unfold InvDone. cbn. rewrite ?E0. split; [|auto]. exists (cons ++ sk1 ++ [EApp d1]). repeat split.
    + rewrite Heq, Hm1. lists.
    + apply no_close_app. split; [exact Hnc|]. apply no_close_app. split; [auto|reflexivity].
    + apply no_partial_app. split; [exact Hnp|]. apply no_partial_app. split; [auto|reflexivity].
    + rewrite !all_app_app, Ha1. cbn. rewrite !app_nil_r. congruence.
  - inj3 H. unfold InvDone. cbn. rewrite ?E0. split; [|auto]. exists (cons ++ sk1 ++ [EApp d1]). repeat split.
    + rewrite Heq, Hm1. lists.
    + apply no_close_app. split; [exact Hnc|]. apply no_close_app. split; [auto|reflexivity].
    + apply no_partial_app. split; [exact Hnp|]. apply no_partial_app. split; [auto|reflexivity].
    + rewrite !all_app_app, Ha1. cbn. rewrite !app_nil_r. congruence.
  - inj3 H. unfold InvDone. cbn. rewrite ?E0. split; [|auto]. exists (cons ++ sk1 ++ [EHs]). repeat split.
    + rewrite Heq, Hm1. lists.
    + apply no_close_app. split; [exact Hnc|]. apply no_close_app. split; [auto|reflexivity].
    + apply no_partial_app. split; [exact Hnp|]. apply no_partial_app. split; [auto|reflexivity].
    + rewrite Hin, app_nil_r, !all_app_app, Ha1. cbn. rewrite !app_nil_r. congruence.
  - inj3 H. unfold InvDone. cbn. rewrite ?E0. split; [|auto]. exists (cons ++ sk1 ++ [EHs]). repeat split.
    + rewrite Heq, Hm1. lists.
    + apply no_close_app. split; [exact Hnc|]. apply no_close_app. split; [auto|reflexivity].
    + apply no_partial_app. split; [exact Hnp|]. apply no_partial_app. split; [auto|reflexivity].
    + rewrite Hin, app_nil_r, !all_app_app, Ha1. cbn. rewrite !app_nil_r. congruence.
  - destruct Hm1 as [ev [Hr [Hcl [Hne _]]]].
    assert (Hgoal : forall s, s_in_err s = Some e1 -> s_input s = [] -> InvDone A E D s).
    { intros s Hs Hi. unfold InvDone. rewrite Hs. destruct e1; auto; [|congruence].
      split; [exact Hi|]. apply (eof_by_close A E _ (cons ++ sk1) ev (rest1 ++ s_wire st)).
      - apply no_close_app. auto.
      - auto.
      - rewrite Heq, Hr. lists.
      - rewrite !all_app_app, Ha1, !app_nil_r. congruence. }
    destruct a1; inj3 H; (split; [apply Hgoal; cbn; auto | right; cbn; auto]).
  - destruct Hm1 as [ev [Hr [Hcl [Hne _]]]].
    assert (Hgoal : forall s, s_in_err s = Some e1 -> s_input s = [] -> InvDone A E D s).
    { intros s Hs Hi. unfold InvDone. rewrite Hs. destruct e1; auto; [|congruence].
      split; [exact Hi|]. apply (eof_by_close A E _ (cons ++ sk1) ev (rest1 ++ s_wire st)).
      - apply no_close_app. auto.
      - auto.
      - rewrite Heq, Hr. lists.
      - rewrite !all_app_app, Ha1, !app_nil_r. congruence. }
    destruct a1; inj3 H; (split; [apply Hgoal; cbn; auto | right; cbn; auto]).
Qed.

Lemma hs_scan_spec : forall evs first r,
  match hs_scan evs first r with
  | HsClear => forallb skippable evs = true
  | HsPartial => exists pre t hd post, evs = pre ++ EPartial t hd :: post
  | HsFail e a => e <> XUnexpectedEof /\
                  (e = XEof -> exists pre ev post, evs = pre ++ ev :: post /\ forallb skippable pre = true /\
                                                  is_close_notify ev = true)
  end.
Proof.
  induction evs as [|ev evs IH]; intros first r.
  - reflexivity.
  - cbn [hs_scan]. destruct ev as [d|l c| | |t|t hd].
    + destruct first; split; discriminate.
    + destruct (c =? 0)%N eqn:Ec.
      { split; [discriminate|]. intros _. exists [], (EAlert l c), evs. cbn. rewrite Ec. auto. }
      destruct (l =? 1)%N eqn:El.
      * destruct (Nat.ltb max_useless (S r)); [split; discriminate|].
        specialize (IH first (S r)). destruct (hs_scan evs first (S r)).
        -- cbn. rewrite Ec, El. exact IH.
        -- destruct IH as [pre [t [hd [post ->]]]]. exists (EAlert l c :: pre), t, hd, post. reflexivity.
        -- destruct IH as [Hne Heof]. split; [exact Hne|]. intros He.
           destruct (Heof He) as [pre [ev [post [-> [Hp Hc]]]]].
           exists (EAlert l c :: pre), ev, post. cbn. rewrite Ec, El. auto.
      * destruct (l =? 2)%N; split; discriminate.
    + split; discriminate.
    + destruct first; split; discriminate.
    + split; discriminate.
    + destruct (first && hd && negb ((t =? 21)%N || (t =? 22)%N)).
      * split; discriminate.
      * exists [], t, hd, evs. reflexivity.
Qed.

Lemma inv_handshake : forall A E D st k st' e sent,
  Inv A E D st -> handshake st k = (st', e, sent) -> Inv A E D st'.
Proof.
  intros A E D st k st' e sent HI H.
  destruct (handshake_spec _ _ _ _ _ H) as [[_ [-> _]] | [[x [_ [-> _]]] | [Hn Hr]]]; try exact HI.
  destruct HI as [Hend [Hplan [HA Hrest]]]. rewrite Hn in Hrest.
  destruct Hrest as [Hevs [HD [Hin Hie]]].
  pose proof (hs_scan_spec (s_raw st ++ s_wire st) (p_first (s_plan st)) 0) as Hsc.
  assert (Hfailed : forall s x, s_hs s = HFailed x -> s_ended s = s_ended st -> s_plan s = s_plan st ->
            x <> XUnexpectedEof \/ (exists p, E = Some (Some p)) ->
            (x = XEof -> app_before_close A = [] /\ eof_ok A E) -> Inv A E D s).
  { intros s x Hs He Hp Hu Heof. unfold Inv. rewrite Hs, He, Hp. repeat split; auto.
    - apply Heof; assumption.
    - apply Heof; assumption.
    - intros ->. destruct Hu as [C|Hu]; [contradiction|exact Hu]. }
  unfold hs_run, hs_fail, hs_cancelled in Hr.
  destruct (s_rawclosed st).
  { inj3 Hr. eapply Hfailed; cbn; eauto; [left|]; discriminate. }
  match type of Hr with (if ?b then _ else _) = _ => destruct b end.
  { inj3 Hr. eapply Hfailed; cbn; eauto; [left|]; discriminate. }
  destruct (hs_scan (s_raw st ++ s_wire st) (p_first (s_plan st)) 0) as [| |x a].
  - (* every record at hand was ignored *)
    destruct (skippable_props _ Hsc) as [Hc [Hp Ha]].
    destruct (s_ended st) eqn:Ee.
    { inj3 Hr. eapply Hfailed; cbn; eauto; [left; discriminate|]. intros _.
      destruct (eof_by_end A E [] (s_raw st ++ s_wire st)) as [H1 H2];
        [congruence | exact Hc | exact Hp | symmetry; exact Hevs | symmetry; exact Ha | ].
      split; [symmetry; exact H1|exact H2]. }
    match type of Hr with (if ?b then _ else _) = _ => destruct b end.
    { inj3 Hr. eapply Hfailed; cbn; eauto; [left|]; discriminate. }
    pose proof Hplan as Hplan'. unfold plan_ok in Hplan'. destruct (p_res (s_plan st)) as [[x sx]|] eqn:Epr.
    + inj3 Hr. destruct Hplan' as [Hx1 Hx2]. eapply Hfailed; cbn; eauto. intros C. contradiction.
    + inj3 Hr. unfold Inv. cbn. rewrite Ee. split; [exact Hend|]. split; [exact Hplan|]. split; [exact HA|].
      unfold InvDone. cbn. rewrite Hie. exists (s_raw st ++ s_wire st). repeat split; auto.
      * rewrite app_nil_r. symmetry. exact Hevs.
      * rewrite HD, Hin. symmetry. exact Ha.
  - (* an incomplete record *)
    destruct Hsc as [pre [t [hd [post Hsc]]]].
    assert (Hp : exists p, E = Some (Some p)).
    { eapply (partial_in_tail A E pre t hd post HA). rewrite <- Hevs. exact Hsc. }
    destruct (s_ended st) eqn:Ee.
    { inj3 Hr. eapply Hfailed; cbn; eauto. discriminate. }
    match type of Hr with (if ?b then _ else _) = _ => destruct b end.
    { inj3 Hr. eapply Hfailed; cbn; eauto; discriminate. }
    inj3 Hr. unfold Inv. rewrite Hn. rewrite Ee. repeat split; auto.
  - destruct Hsc as [Hne Heof]. inj3 Hr. eapply Hfailed; cbn; eauto. intros ->.
    destruct (Heof eq_refl) as [pre [ev [post [Hsplit [Hpre Hcl]]]]].
    destruct (skippable_props _ Hpre) as [Hc [_ Ha]].
    destruct (eof_by_close A E [] pre ev post) as [H1 H2];
      [exact Hc | exact Hcl | rewrite <- Hevs; exact Hsplit | symmetry; exact Ha | ].
    split; [symmetry; exact H1|exact H2].
Qed.

Lemma invdone_same : forall A E D a b,
  s_raw b = s_raw a -> s_wire b = s_wire a -> s_input b = s_input a -> s_in_err b = s_in_err a ->
  InvDone A E D a -> InvDone A E D b.
Proof. intros A E D a b Hr Hw Hi He H. unfold InvDone in *. rewrite Hr, Hw, Hi, He. exact H. Qed.

Lemma inv_same : forall A E D a b,
  s_ended b = s_ended a -> s_plan b = s_plan a -> s_hs b = s_hs a ->
  s_raw b = s_raw a -> s_wire b = s_wire a -> s_input b = s_input a -> s_in_err b = s_in_err a ->
  Inv A E D a -> Inv A E D b.
Proof.
  intros A E D a b He Hp Hh Hr Hw Hi Hie H. unfold Inv in *. rewrite He, Hp, Hh.
  destruct H as [? [? [? H]]]. repeat split; auto.
  destruct (s_hs a).
  - rewrite Hr, Hw, Hi, Hie. exact H.
  - eapply invdone_same; eauto.
  - exact H.
Qed.

Lemma inv_read_checked : forall A E D st st' e sent,
  no_partial A -> s_ended st = isS E -> InvDone A E D st -> s_input st = [] ->
  read_checked st = (st', e, sent) -> InvDone A E D st'.
Proof.
  intros A E D st st' e sent HA Hend HI Ei H. unfold read_checked in H.
  destruct (read_record st) as [[st1 e1] sent1] eqn:Err.
  destruct (inv_read_record _ _ _ _ _ _ _ HA Hend HI Ei Err) as [HI1 _].
  destruct e1 as [x|].
  { inj3 H. nf_fields st1 (Some x). eapply invdone_same; [| | | |exact HI1]; assumption. }
  destruct (s_hand st1); [|inj3 H; exact HI1].
  unfold send_alert in H. inj3 H.
  match goal with |- InvDone _ _ _ (note_fatal ?s ?e) => nf_fields s e end.
  unfold InvDone.
  match goal with Hx : s_in_err (note_fatal _ _) = _ |- _ => rewrite Hx end. cbn. exact I.
Qed.

Lemma inv_fill : forall A E D st st' e sent,
  no_partial A -> s_ended st = isS E -> InvDone A E D st ->
  fill st = (st', e, sent) -> InvDone A E D st'.
Proof.
  intros A E D st st' e sent HA Hend HI H. unfold fill in H.
  destruct (s_input st) eqn:Ei.
  2:{ inj3 H. exact HI. }
  eapply inv_read_checked; eauto.
Qed.

Lemma inv_deliver : forall A E D st n,
  InvDone A E D st -> (s_in_err st = Some XEof -> s_input st = []) ->
  InvDone A E (D ++ firstn n (s_input st)) (set_input st (skipn n (s_input st))).
Proof.
  intros A E D st n HI _. unfold InvDone in *. cbn.
  destruct (s_in_err st) as [x|].
  - destruct x; auto. destruct HI as [Hi [HD He]]. rewrite Hi. rewrite firstn_nil, skipn_nil, app_nil_r. auto.
  - destruct HI as [cons [Heq [Hc [Hp HD]]]]. exists cons. repeat split; auto.
    rewrite <- app_assoc, firstn_skipn. exact HD.
Qed.

Definition new_arr (E : option (option (N * bool))) (c : call) : list event :=
  match c, E with CArrive evs, None => evs | _, _ => [] end.

Definition new_end (E : option (option (N * bool))) (c : call) : option (option (N * bool)) :=
  match E with
  | Some _ => E
  | None => match c with CEnd p => Some p | CGone => Some None | _ => None end
  end.

Lemma eof_ok_grow : forall A E B E',
  eof_ok A E -> (E = Some None -> B = [] /\ E' = E) -> eof_ok (A ++ B) E' /\ app_before_close (A ++ B) = app_before_close A.
Proof.
  intros A E B E' [Hc | HE] Himp.
  - split; [left; apply has_close_app; auto | apply abc_has_close; exact Hc].
  - destruct (Himp HE) as [-> ->]. rewrite app_nil_r. split; [right; exact HE|reflexivity].
Qed.

(* arrivals and the end of the transport *)
Lemma inv_transport : forall A E D st B E' wire' st',
  Inv A E D st ->
  (E = None \/ (B = [] /\ E' = E /\ wire' = [])) ->
  (E = None -> (E' = None /\ wire' = B) \/ (B = [] /\ exists p, E' = Some p /\ wire' = ptail E')) ->
  no_partial B ->
  s_ended st' = isS E' -> s_plan st' = s_plan st -> s_hs st' = s_hs st -> s_raw st' = s_raw st ->
  s_wire st' = s_wire st ++ wire' -> s_input st' = s_input st -> s_in_err st' = s_in_err st ->
  Inv (A ++ B) E' D st'.
Proof.
  intros A E D st B E' wire' st' HI Hcase HnoneE HB He Hp Hh Hr Hw Hi Hie.
  destruct Hcase as [HE | [-> [-> ->]]].
  2:{ rewrite app_nil_r in *. assert (Hee : s_ended st' = s_ended st) by (destruct HI as [Hend _]; congruence).
      eapply inv_same; eauto. }
  subst E. destruct HI as [Hend [Hplan [HA Hrest]]].
  assert (Hlist : (A ++ B) ++ ptail E' = (A ++ ptail None) ++ wire').
  { cbn [ptail]. rewrite app_nil_r. destruct (HnoneE eq_refl) as [[-> ->] | [-> [p [-> ->]]]].
    - cbn [ptail]. rewrite app_nil_r. reflexivity.
    - rewrite app_nil_r. reflexivity. }
  assert (Hgrow : forall X, eof_ok A None -> X = app_before_close A ->
                   X = app_before_close (A ++ B) /\ eof_ok (A ++ B) E').
  { intros X Hok ->. destruct (eof_ok_grow A None B E' Hok) as [H1 H2]; [discriminate|]. rewrite H2. auto. }
  unfold Inv. rewrite He, Hp, Hh. split; [reflexivity|]. split; [exact Hplan|].
  split; [apply no_partial_app; auto|].
  destruct (s_hs st).
  - destruct Hrest as [Hevs [HD [Hin Hin2]]]. rewrite Hr, Hw, Hi, Hie. repeat split; auto.
    rewrite Hlist, <- Hevs. lists.
  - unfold InvDone in *. rewrite Hr, Hw, Hi, Hie.
    destruct (s_in_err st) as [x|].
    + destruct x; auto.
      * destruct Hrest as [Hin [HD Hok]]. split; [exact Hin|]. apply Hgrow; assumption.
      * destruct Hrest as [p C]. discriminate.
    + destruct Hrest as [cons [Heq [Hc [Hpp HD]]]]. exists cons. repeat split; auto.
      rewrite Hlist, Heq. lists.
  - destruct Hrest as [HD [Heof Hu]]. split; [exact HD|]. split.
    + intros Hx. destruct (Heof Hx) as [Habc Hok]. destruct (Hgrow [] Hok (eq_sym Habc)) as [H1 H2].
      split; [symmetry; exact H1|exact H2].
    + intros Hx. destruct (Hu Hx) as [p C]. discriminate.
Qed.

Lemma new_end_other : forall E c,
  match c with CEnd _ | CGone => False | _ => True end -> new_end E c = E.
Proof. intros E c H. unfold new_end. destruct E; [reflexivity|]. destruct c; try reflexivity; contradiction. Qed.

Lemma inv_done : forall A E D st, Inv A E D st -> s_hs st = HDone ->
  s_ended st = isS E /\ no_partial A /\ InvDone A E D st.
Proof. intros A E D st [He [_ [HA H]]] Hd. rewrite Hd in H. auto. Qed.

Lemma inv_of_done : forall A E D st0 st,
  Inv A E D st0 -> s_hs st0 = HDone ->
  s_ended st = s_ended st0 -> s_plan st = s_plan st0 -> s_hs st = s_hs st0 ->
  forall D', InvDone A E D' st -> Inv A E D' st.
Proof.
  intros A E D st0 st [He [Hp [HA _]]] Hd Hee Hpp Hhh D' HI.
  unfold Inv. rewrite Hee, Hpp, Hhh, Hd. auto.
Qed.

Lemma inv_step : forall A E D st c,
  Inv A E D st -> no_partial (new_arr E c) ->
  Inv (A ++ new_arr E c) (new_end E c) (D ++ o_data (snd (step st c))) (fst (step st c)).
Proof.
  intros A E D st c HI HB. step_cases c; cbn [step].
  - (* Read *)
    rewrite new_end_other by exact I. unfold new_arr. rewrite app_nil_r.
    destruct (s_closed st) eqn:Ec.
    { unfold do_read. rewrite Ec. cbn. rewrite app_nil_r. exact HI. }
    destruct (handshake st None) as [[st0 he] sent0] eqn:Eh.
    rewrite (do_read_unfold _ n _ _ _ Ec Eh).
    pose proof (inv_handshake _ _ _ _ _ _ _ _ HI Eh) as HI0.
    destruct (handshake_sum _ _ _ _ _ Eh) as [_ [Hres _]].
    destruct he as [x|]; [cbn; rewrite app_nil_r; exact HI0|].
    destruct Hres as [Hd _].
    destruct (Nat.eqb n 0); [cbn; rewrite app_nil_r; exact HI0|].
    destruct (s_fatal st0); [cbn; rewrite app_nil_r; exact HI0|].
    destruct (inv_done _ _ _ _ HI0 Hd) as [Hend0 [HA HD0]].
    destruct (fill st0) as [[st1 fe] sent1] eqn:Ef.
    pose proof (inv_fill _ _ _ _ _ _ _ HA Hend0 HD0 Ef) as HD1.
    destruct (fill_frame _ _ _ _ Ef) as [[Hp1 [Hh1 [_ [_ [_ [_ [He1 _]]]]]]] _].
    destruct fe as [x|].
    { cbn. rewrite app_nil_r. eapply inv_of_done; eauto. }
    cbv zeta.
    assert (Heofin : s_in_err st1 = Some XEof -> s_input st1 = []).
    { intros Hx. unfold InvDone in HD1. rewrite Hx in HD1. tauto. }
    pose proof (inv_deliver _ _ _ _ n HD1 Heofin) as HD2.
    match goal with |- context [if ?b then _ else _] => destruct b eqn:Econd end.
    + destruct (read_checked (set_input st1 (skipn n (s_input st1)))) as [[st3 pe] sent3] eqn:Er.
      cbn [fst snd o_data].
      apply andb_prop in Econd. destruct Econd as [Econd _]. apply andb_prop in Econd. destruct Econd as [_ El].
      cbn in El. apply Nat.eqb_eq in El. apply length_zero_iff_nil in El.
      destruct (read_checked_frame _ _ _ _ Er) as [[Hp3 [Hh3 [_ [_ [_ [_ [He3 _]]]]]]] _]. cbn in Hp3, Hh3, He3.
      assert (Hend2 : s_ended (set_input st1 (skipn n (s_input st1))) = isS E) by (cbn; congruence).
      pose proof (inv_read_checked _ _ _ _ _ _ _ HA Hend2 HD2 El Er) as HD3.
      eapply inv_of_done; eauto; congruence.
    + cbn [fst snd o_data]. eapply inv_of_done; eauto.
  - (* Write *)
    rewrite new_end_other by exact I. unfold new_arr. rewrite app_nil_r.
    destruct (do_write_cases st bs) as [[Hc ->] | [Hc [st0 [he [sent0 [Eh Hw]]]]]].
    { cbn. rewrite app_nil_r. exact HI. }
    pose proof (inv_handshake _ _ _ _ _ _ _ _ HI Eh) as HI0.
    destruct he; [rewrite Hw; cbn; rewrite app_nil_r; exact HI0|].
    destruct (s_out_err st0); [rewrite Hw; cbn; rewrite app_nil_r; exact HI0|].
    destruct (s_fatal st0); [rewrite Hw; cbn; rewrite app_nil_r; exact HI0|].
    destruct (s_cns st0); [rewrite Hw; cbn; rewrite app_nil_r; exact HI0|].
    destruct bs; [rewrite Hw; cbn; rewrite app_nil_r; exact HI0|].
    destruct (tx_dead st0); rewrite Hw; cbn; rewrite app_nil_r; [|exact HI0].
    eapply inv_same; [| | | | | | |exact HI0]; reflexivity.
  - (* CloseWrite *)
    rewrite new_end_other by exact I. unfold new_arr. rewrite app_nil_r.
    unfold do_closewrite. destruct (s_hs st) eqn:Eh; try (cbn; rewrite app_nil_r; exact HI).
    destruct (close_notify st) as [[st1 e] sent] eqn:Ec.
    pose proof (close_notify_spec _ _ _ _ Ec) as H. destruct H as (?&?&?&?&?&?&?&?&?&?&?&?&?&?&?).
    cbn. rewrite app_nil_r. eapply inv_same; [| | | | | | |exact HI]; congruence.
  - (* Close *)
    rewrite new_end_other by exact I. unfold new_arr. rewrite app_nil_r.
    unfold do_close. destruct (s_closed st); [cbn; rewrite app_nil_r; exact HI|].
    destruct (s_hs (set_closed st true)) eqn:Eh.
    + cbn. rewrite app_nil_r. eapply inv_same; [| | | | | | |exact HI]; reflexivity.
    + destruct (close_notify (set_closed st true)) as [[st1 e] sent] eqn:Ecn.
      pose proof (close_notify_spec _ _ _ _ Ecn) as H. cbn in H. destruct H as (?&?&?&?&?&?&?&?&?&?&?&?&?&?&?).
      cbn. rewrite app_nil_r. eapply inv_same; [| | | | | | |exact HI]; cbn; congruence.
    + cbn. rewrite app_nil_r. eapply inv_same; [| | | | | | |exact HI]; reflexivity.
  - (* Handshake *)
    rewrite new_end_other by exact I. unfold new_arr. rewrite app_nil_r.
    unfold do_handshake. destruct (handshake st k) as [[st1 e] sent] eqn:Eh. cbn. rewrite app_nil_r.
    eapply inv_handshake; eauto.
  - (* records arrive *)
    cbn [snd o_data]. rewrite app_nil_r. cbn [fst].
    assert (Hend : s_ended st = isS E) by (destruct HI as [H _]; exact H).
    destruct E as [p|].
    + cbn [isS] in Hend. rewrite Hend. cbn [new_arr new_end]. rewrite app_nil_r. exact HI.
    + cbn [isS] in Hend. rewrite Hend. cbn [new_arr new_end].
      eapply (inv_transport A None D st evs None evs); eauto; try reflexivity.
  - (* the transport ends *)
    cbn [snd o_data]. rewrite app_nil_r. cbn [fst new_arr]. replace (new_arr E (CEnd pt)) with (@nil event) by (destruct E; reflexivity).
    assert (Hend : s_ended st = isS E) by (destruct HI as [H _]; exact H).
    destruct E as [p|].
    + cbn [isS] in Hend. rewrite Hend. cbn [new_end]. rewrite app_nil_r. exact HI.
    + cbn [isS] in Hend. rewrite Hend. cbn [new_end]. rewrite ?app_nil_r. rewrite <- (app_nil_r A).
      eapply (inv_transport A None D st [] (Some pt) (ptail (Some pt))); eauto; try reflexivity;
        try (intros _; right; split; [reflexivity|]; eauto);
        try (cbn; destruct pt as [[t hd]|]; reflexivity).
  - (* the peer is gone *)
    cbn [snd o_data]. rewrite app_nil_r. cbn [fst]. replace (new_arr E CGone) with (@nil event) by (destruct E; reflexivity).
    assert (Hend : s_ended st = isS E) by (destruct HI as [H _]; exact H).
    destruct E as [p|].
    + cbn [isS] in Hend. rewrite Hend. cbn [new_end]. rewrite app_nil_r.
      eapply inv_same; [| | | | | | |exact HI]; reflexivity.
    + cbn [isS] in Hend. rewrite Hend. cbn [new_end]. rewrite ?app_nil_r. rewrite <- (app_nil_r A).
      eapply (inv_transport A None D st [] (Some None) []); eauto; try reflexivity;
        try (intros _; right; split; [reflexivity|]; exists None; auto);
        try (cbn; rewrite app_nil_r; reflexivity).
Qed.

Lemma ended_how_app : forall h1 h2,
  ended_how (h1 ++ h2) = match ended_how h1 with Some p => Some p | None => ended_how h2 end.
Proof.
  induction h1 as [|c h1 IH]; intros h2; [reflexivity|].
  destruct c; cbn [app ended_how]; auto.
Qed.

Lemma arrived_from_true : forall h, arrived_from true h = [].
Proof. induction h as [|c h IH]; [reflexivity|]. destruct c; cbn [arrived_from]; auto. Qed.

Lemma arrived_from_app : forall h1 h2 b,
  arrived_from b (h1 ++ h2) = arrived_from b h1 ++ arrived_from (b || isS (ended_how h1)) h2.
Proof.
  induction h1 as [|c h1 IH]; intros h2 b.
  - cbn. rewrite orb_false_r. reflexivity.
  - destruct c; cbn [app arrived_from ended_how isS]; rewrite ?IH; try reflexivity.
    + destruct b; [reflexivity|]. rewrite <- app_assoc. reflexivity.
    + rewrite orb_true_r, !arrived_from_true, app_nil_r. destruct b; reflexivity.
    + rewrite orb_true_r, !arrived_from_true, app_nil_r. destruct b; reflexivity.
Qed.

Lemma arrived_snoc : forall h c, arrived (h ++ [c]) = arrived h ++ new_arr (ended_how h) c.
Proof.
  intros h c. unfold arrived. rewrite arrived_from_app. f_equal. cbn [orb].
  destruct (ended_how h) as [p|]; cbn [isS new_arr].
  - rewrite arrived_from_true. destruct c; reflexivity.
  - destruct c; cbn; rewrite ?app_nil_r; reflexivity.
Qed.

Lemma ended_how_snoc : forall h c, ended_how (h ++ [c]) = new_end (ended_how h) c.
Proof.
  intros h c. rewrite ended_how_app. unfold new_end. destruct (ended_how h); [reflexivity|].
  destruct c; reflexivity.
Qed.

Lemma delivered_snoc : forall os o, delivered (os ++ [o]) = delivered os ++ o_data o.
Proof. intros. unfold delivered. rewrite map_app, concat_app. cbn. rewrite app_nil_r. reflexivity. Qed.

Lemma inv_run : forall pl h,
  plan_ok pl -> no_partial (arrived h) ->
  Inv (arrived h) (ended_how h) (delivered (run (init pl) h)) (exec (init pl) h).
Proof.
  intros pl h Hpl. induction h as [|c h IH] using rev_ind; intros Hnp.
  - unfold Inv. cbn. repeat split; auto.
  - rewrite arrived_snoc in Hnp. apply no_partial_app in Hnp. destruct Hnp as [Hnp1 Hnp2].
    specialize (IH Hnp1).
    pose proof (inv_step _ _ _ _ c IH Hnp2) as H.
    rewrite arrived_snoc, ended_how_snoc, run_app, exec_app. cbn [run exec fold_left].
    destruct (step (exec (init pl) h) c) as [st' o] eqn:Es. cbn [fst snd] in H.
    rewrite delivered_snoc. exact H.
Qed.

Lemma firstn_run : forall h st i c,
  nth_error h i = Some c ->
  firstn (S i) (run st h) = run st (firstn i h) ++ [snd (step (exec st (firstn i h)) c)].
Proof.
  intros h st i c Hi.
  rewrite (firstn_snoc_nth _ (run st h) i (snd (step (exec st (firstn i h)) c))) by (apply run_nth; exact Hi).
  f_equal. rewrite <- (firstn_skipn i h) at 1. rewrite run_app, firstn_app, run_length.
  assert (Hl : length (firstn i h) = i).
  { apply firstn_length_le. assert (i < length h) by (apply nth_error_Some; congruence). lia. }
  rewrite Hl, Nat.sub_diag. cbn [firstn]. rewrite app_nil_r.
  apply firstn_all2. rewrite run_length. lia.
Qed.

Lemma arrived_prefix : forall h i, no_partial (arrived h) -> no_partial (arrived (firstn i h)).
Proof.
  intros h i H. rewrite <- (firstn_skipn i h) in H. unfold arrived in *.
  rewrite arrived_from_app in H. apply no_partial_app in H. tauto.
Qed.

(* what the connection-wide latch can hold: never end-of-stream, and unexpected-EOF only while
   that error is latched on the read half *)
Definition fok (st : state) : Prop :=
  s_fatal st <> Some XEof /\ (s_fatal st = Some XUnexpectedEof -> s_in_err st = Some XUnexpectedEof).

Lemma fok_same : forall a b, s_in_err b = s_in_err a -> s_fatal b = s_fatal a -> fok a -> fok b.
Proof. intros a b Hi Hf H. unfold fok in *. rewrite Hi, Hf. exact H. Qed.

Lemma fok_none : forall st, s_fatal st = None -> fok st.
Proof. intros st H. unfold fok. rewrite H. split; intros; discriminate. Qed.

Lemma read_checked_fok : forall st st' e sent,
  s_fatal st = None -> read_checked st = (st', e, sent) -> fok st'.
Proof.
  intros st st' e sent Hf H. destruct e as [x|].
  - destruct (read_checked_err _ _ _ _ H) as [Hin [_ [Hfa _]]]. specialize (Hfa Hf).
    unfold fok. rewrite Hfa. split.
    + destruct x; discriminate.
    + intros Hx. destruct x; try discriminate. apply Hin. discriminate.
  - destruct (read_checked_ok _ _ _ H) as [Hr _]. apply fok_none.
    rewrite (read_record_fatal _ _ _ _ Hr). exact Hf.
Qed.

Lemma handshake_fok : forall st k st' e sent, handshake st k = (st', e, sent) -> fok st -> fok st'.
Proof.
  intros st k st' e sent H HF. destruct (handshake_sum _ _ _ _ _ H) as [Hio _].
  unfold same_io in Hio. destruct Hio as [? [? [? [? [? [? [? [? [? [? ?]]]]]]]]]]. eapply fok_same; eauto.
Qed.

Lemma step_fok : forall st c, fok st -> fok (fst (step st c)).
Proof.
  intros st c HF. step_cases c; cbn [step].
  - destruct (s_closed st) eqn:Ec.
    { unfold do_read. rewrite Ec. exact HF. }
    destruct (handshake st None) as [[st0 he] sent0] eqn:Eh.
    rewrite (do_read_unfold _ n _ _ _ Ec Eh).
    pose proof (handshake_fok _ _ _ _ _ Eh HF) as HF0.
    destruct he; [exact HF0|].
    destruct (Nat.eqb n 0); [exact HF0|].
    destruct (s_fatal st0) eqn:Efa; [exact HF0|].
    destruct (fill st0) as [[st1 fe] sent1] eqn:Ef.
    assert (HF1 : fok st1).
    { unfold fill in Ef. destruct (s_input st0).
      - eapply read_checked_fok; eauto.
      - inv Ef. exact HF0. }
    destruct fe; [exact HF1|]. cbv zeta.
    destruct (fill_ok _ _ _ Ef) as [_ [Hfa1 _]].
    match goal with |- context [if ?b then _ else _] => destruct b end.
    + destruct (read_checked (set_input st1 (skipn n (s_input st1)))) as [[st3 pe] sent3] eqn:Er.
      cbn [fst]. eapply read_checked_fok; [|exact Er]. cbn. congruence.
    + cbn [fst]. eapply fok_same; [| |exact HF1]; reflexivity.
  - destruct (do_write_cases st bs) as [[Hc ->] | [Hc [st0 [he [sent0 [Eh Hw]]]]]]; [exact HF|].
    pose proof (handshake_fok _ _ _ _ _ Eh HF) as HF0.
    destruct he; [rewrite Hw; exact HF0|].
    destruct (s_out_err st0) eqn:Eo; [rewrite Hw; exact HF0|].
    destruct (s_fatal st0); [rewrite Hw; exact HF0|].
    destruct (s_cns st0); [rewrite Hw; exact HF0|].
    destruct bs; [rewrite Hw; exact HF0|].
    destruct (tx_dead st0); rewrite Hw; [|exact HF0].
    cbn [fst]. unfold fok. cbn. split; intros; discriminate.
  - unfold do_closewrite. destruct (s_hs st); try exact HF.
    destruct (close_notify st) as [[st1 e] sent] eqn:Ec.
    pose proof (close_notify_spec _ _ _ _ Ec) as H. destruct H as (?&?&?&?&?&?).
    pose proof (close_notify_fatal _ _ _ _ Ec).
    cbn [fst]. eapply fok_same; eauto.
  - unfold do_close. destruct (s_closed st); [exact HF|].
    destruct (s_hs (set_closed st true)).
    + cbn [fst]. eapply fok_same; [| |exact HF]; reflexivity.
    + destruct (close_notify (set_closed st true)) as [[st1 e] sent] eqn:Ecn.
      pose proof (close_notify_spec _ _ _ _ Ecn) as H. cbn in H. destruct H as (?&?&?&?&?&?).
      pose proof (close_notify_fatal _ _ _ _ Ecn) as Hf. cbn in Hf.
      cbn [fst]. eapply fok_same; [| |exact HF]; cbn; congruence.
    + cbn [fst]. eapply fok_same; [| |exact HF]; reflexivity.
  - unfold do_handshake. destruct (handshake st k) as [[st1 e] sent] eqn:Eh. cbn [fst].
    eapply handshake_fok; eauto.
  - destruct (s_ended st); [exact HF|]. eapply fok_same; [| |exact HF]; reflexivity.
  - destruct (s_ended st); [exact HF|]. eapply fok_same; [| |exact HF]; reflexivity.
  - destruct (s_ended st); eapply fok_same; try exact HF; reflexivity.
Qed.

Lemma exec_fok : forall pl h, fok (exec (init pl) h).
Proof. intros pl h. apply exec_inv; [intros; apply step_fok; assumption | apply fok_none; reflexivity]. Qed.

(* what the state looks like after a Read that returned an end-of-stream class *)
Lemma read_eofish_state : forall st n e,
  fok st -> o_err (snd (do_read st n)) = Some e -> (e = XEof \/ e = XUnexpectedEof) ->
  s_hs (fst (do_read st n)) = HFailed e \/
  (s_hs (fst (do_read st n)) = HDone /\ s_in_err (fst (do_read st n)) = Some e).
Proof.
  intros st n e HF He Hcls.
  assert (Hb : e <> XBlock) by (destruct Hcls; subst; discriminate).
  pose proof (step_fok st (CRead n) HF) as HF'. cbn [step] in HF'.
  destruct (read_error_state _ _ _ He Hb) as [Hc | [Hf | [Hd HB]]]; auto.
  - exfalso. pose proof (do_read_frame st n) as Hfr. cbv zeta in Hfr.
    destruct Hfr as [_ [_ [_ [Hcl _]]]]. rewrite Hcl in Hc.
    unfold do_read in He. rewrite Hc in He. cbn in He. destruct Hcls; subst; discriminate.
  - right. split; [exact Hd|]. destruct HB as [Hfa | [Hin _]]; [|exact Hin].
    destruct HF' as [H1 H2]. destruct Hcls; subst e; [contradiction|]. apply H2. exact Hfa.
Qed.

Theorem eof_faithful : forall pl h i n o,
  plan_ok pl -> no_partial (arrived h) ->
  nth_error h i = Some (CRead n) -> nth_error (run (init pl) h) i = Some o ->
  (o_err o = Some XEof ->
     delivered (firstn (S i) (run (init pl) h)) = app_before_close (arrived (firstn i h)) /\
     (has_close (arrived (firstn i h)) \/ ended_how (firstn i h) = Some None)) /\
  (o_err o = Some XUnexpectedEof -> exists p, ended_how (firstn i h) = Some (Some p)).
Proof.
  intros pl h i n o Hpl Hnp Hi Ho.
  rewrite (run_nth _ _ _ _ Hi) in Ho. inv Ho.
  pose proof (inv_run pl (firstn i h) Hpl (arrived_prefix h i Hnp)) as HI.
  pose proof (exec_fok pl (firstn i h)) as HF.
  set (st := exec (init pl) (firstn i h)) in *.
  pose proof (inv_step _ _ _ _ (CRead n) HI) as HS.
  rewrite new_end_other in HS by exact I. unfold new_arr in HS. rewrite app_nil_r in HS.
  specialize (HS eq_refl). cbn [step] in *.
  rewrite (firstn_run _ _ _ _ Hi), delivered_snoc. fold st. cbn [step].
  split.
  - intros He.
    destruct (read_eofish_state _ _ _ HF He (or_introl eq_refl)) as [Hf | [Hd Hin]].
    + destruct HS as [_ [_ [_ HS]]]. rewrite Hf in HS. destruct HS as [HD [Heof _]].
      destruct (Heof eq_refl) as [Habc Hok]. rewrite HD, Habc. auto.
    + destruct HS as [_ [_ [_ HS]]]. rewrite Hd in HS. unfold InvDone in HS. rewrite Hin in HS.
      destruct HS as [_ [HD Hok]]. auto.
  - intros He.
    destruct (read_eofish_state _ _ _ HF He (or_intror eq_refl)) as [Hf | [Hd Hin]].
    + destruct HS as [_ [_ [_ HS]]]. rewrite Hf in HS. destruct HS as [_ [_ Hu]]. auto.
    + destruct HS as [_ [_ [_ HS]]]. rewrite Hd in HS. unfold InvDone in HS. rewrite Hin in HS. exact HS.
Qed.

(* ------------------------------------------------------------------ *)
(* the histories of the former findings K10 and K11, on the fixed code  *)
(* ------------------------------------------------------------------ *)

Definition plan0 : plan := mkPlan 4 1 false None.

(* K10 was: a fatal alert received (or a truncated transport) was latched on the read half only
   and Write went on sending.  Now Write (and the next Read) return the connection's error. *)
Lemma write_after_received_fatal_alert :
  let h := [CHandshake None; CArrive [EApp [1%N]; EAlert 2 40]; CRead 10; CWrite [7%N]; CRead 10] in
  nth_error (run (init plan0) h) 2 = Some (mkO (Some (XRemote 40)) 0 [1%N] []) /\
  nth_error (run (init plan0) h) 3 = Some (fail (XRemote 40) []) /\
  nth_error (run (init plan0) h) 4 = Some (fail (XRemote 40) []).
Proof. vm_compute. repeat split; reflexivity. Qed.

Lemma write_after_truncation :
  let h := [CHandshake None; CArrive [EApp [1%N]]; CEnd (Some (23%N, true)); CRead 10; CRead 10; CWrite [7%N]] in
  nth_error (run (init plan0) h) 3 = Some (mkO None 0 [1%N] []) /\
  nth_error (run (init plan0) h) 4 = Some (fail XUnexpectedEof []) /\
  nth_error (run (init plan0) h) 5 = Some (fail XUnexpectedEof []).
Proof. vm_compute. repeat split; reflexivity. Qed.

(* K10, the other direction: a failed transport write was latched on the write half only and Read
   went on delivering.  Now Read returns the connection's error and the two bytes stay undelivered. *)
Lemma read_after_failed_write :
  let h := [CHandshake None; CArrive [EApp [1%N; 2%N]]; CGone; CWrite [7%N]; CRead 10] in
  nth_error (run (init plan0) h) 3 = Some (fail XClosed []) /\
  nth_error (run (init plan0) h) 4 = Some (fail XClosed []).
Proof. vm_compute. split; reflexivity. Qed.

(* K11 was: no_renegotiation returned while application data sat in c.input, delivered by the next
   Read.  Now the look-ahead of the first Read rejects the handshake record at once: it returns
   its byte together with the error, and nothing is delivered or sent afterwards. *)
Lemma read_after_no_renegotiation :
  let h := [CHandshake None; CArrive [EApp [1%N]; EAlert 1 90; EHs; EApp [2%N; 3%N]]; CEnd None;
            CRead 10; CRead 10; CRead 10; CWrite [3%N]] in
  nth_error (run (init plan0) h) 3 = Some (mkO (Some (XLocal 100)) 0 [1%N] [SAlert 1 100]) /\
  nth_error (run (init plan0) h) 4 = Some (fail (XLocal 100) []) /\
  nth_error (run (init plan0) h) 5 = Some (fail (XLocal 100) []) /\
  nth_error (run (init plan0) h) 6 = Some (fail (XLocal 100) []).
Proof. vm_compute. repeat split; reflexivity. Qed.

(* what remains outside "stays reported", by design: end-of-stream is not an error of the
   connection (Write goes on after the peer's close_notify: half-close), Read goes on after
   CloseWrite made Write fail with "shutdown", and a Read with an empty buffer, or Handshake, on an
   established connection return nil even after a fatal error *)
Lemma not_fatal_examples :
  (let h := [CHandshake None; CArrive [EAlert 1 0]; CRead 10; CWrite [7%N]] in
   nth_error (run (init plan0) h) 2 = Some (fail XEof []) /\
   nth_error (run (init plan0) h) 3 = Some (mkO None 1 [] [SApp [7%N]])) /\
  (let h := [CHandshake None; CArrive [EApp [1%N]]; CCloseWrite; CWrite [7%N]; CRead 10] in
   nth_error (run (init plan0) h) 3 = Some (fail XShutdown []) /\
   nth_error (run (init plan0) h) 4 = Some (mkO None 0 [1%N] [])) /\
  (let h := [CHandshake None; CArrive [EAlert 2 40]; CRead 10; CRead 0; CHandshake None] in
   nth_error (run (init plan0) h) 2 = Some (fail (XRemote 40) []) /\
   nth_error (run (init plan0) h) 3 = Some (mkO None 0 [] []) /\
   nth_error (run (init plan0) h) 4 = Some (mkO None 0 [] [])).
Proof. vm_compute. repeat split; reflexivity. Qed.

(* a history that exercises most clauses at once *)
Lemma example_history :
  let h := [CArrive [EAlert 1 90]; CWrite [9%N];
            CArrive [EApp [1%N; 2%N; 3%N]; EApp []; EApp [4%N]; EAlert 1 0; EApp [5%N]];
            CRead 2; CRead 0; CRead 2; CRead 2; CRead 2;
            CWrite [8%N]; CCloseWrite; CWrite [7%N]; CCloseWrite;
            CClose; CClose; CRead 1; CWrite [6%N]; CHandshake None] in
  run (init plan0) h =
  [ mkO None 0 [] []; mkO None 1 [] [SApp [9%N]]; mkO None 0 [] [];
    mkO None 0 [1%N; 2%N] []; mkO None 0 [] []; mkO None 0 [3%N] [];
    mkO (Some XEof) 0 [4%N] []; mkO (Some XEof) 0 [] [];
    mkO None 1 [] [SApp [8%N]]; mkO None 0 [] [SAlert 1 0]; mkO (Some XShutdown) 0 [] []; mkO None 0 [] [];
    mkO None 0 [] []; mkO (Some XClosed) 0 [] []; mkO (Some XClosed) 0 [] []; mkO (Some XClosed) 0 [] [];
    mkO None 0 [] [] ].
Proof. vm_compute. reflexivity. Qed.

Lemma example_premises : plan_ok plan0 /\
  no_partial (arrived [CArrive [EApp [1%N]; EAlert 1 0]; CHandshake None; CEnd (Some (23%N, false)); CRead 4]).
Proof. split; [exact I | reflexivity]. Qed.

(* ------------------------------------------------------------------ *)
(* the property theorems as stated in Props/C12.v                       *)
(* ------------------------------------------------------------------ *)

Lemma eof_only_after_all_data : forall pl h i n o,
  plan_ok pl -> no_partial (arrived h) ->
  nth_error h i = Some (CRead n) -> nth_error (run (init pl) h) i = Some o ->
  o_err o = Some XEof ->
  delivered (firstn (S i) (run (init pl) h)) = app_before_close (arrived (firstn i h)).
Proof. intros pl h i n o Hp Hn Hi Ho He. exact (proj1 (proj1 (eof_faithful pl h i n o Hp Hn Hi Ho) He)). Qed.

Lemma eof_condition : forall pl h i n o,
  plan_ok pl -> no_partial (arrived h) ->
  nth_error h i = Some (CRead n) -> nth_error (run (init pl) h) i = Some o ->
  (o_err o = Some XEof ->
     has_close (arrived (firstn i h)) \/ ended_how (firstn i h) = Some None) /\
  (o_err o = Some XUnexpectedEof ->
     exists p, ended_how (firstn i h) = Some (Some p)).
Proof.
  intros pl h i n o Hp Hn Hi Ho. destruct (eof_faithful pl h i n o Hp Hn Hi Ho) as [H1 H2].
  split; [intros He; exact (proj2 (H1 He)) | exact H2].
Qed.

Lemma sticky : forall pl h i j ci cj oi oj,
  i < j ->
  nth_error h i = Some ci -> nth_error (run (init pl) h) i = Some oi ->
  nth_error h j = Some cj -> nth_error (run (init pl) h) j = Some oj ->
  (* 1 *)
  (ci = CClose ->
     match cj with CRead _ | CWrite _ | CClose => oj = fail XClosed [] | _ => True end) /\
  (* 2 *)
  (forall n m e, ci = CRead n -> cj = CRead m -> m <> 0 ->
     o_err oi = Some e -> e <> XBlock ->
     oj = fail e [] \/ oj = fail XClosed []) /\
  (* 3 *)
  (forall bs bs' e, ci = CWrite bs -> cj = CWrite bs' -> o_err oi = Some e -> e <> XBlock ->
     exists e', oj = fail e' []) /\
  (* 4 *)
  (forall k e, ci = CHandshake k -> o_err oi = Some e -> e <> XBlock ->
     exists e', (e' = e \/ (e = XCtx /\ e' = XClosed /\ k <> None)) /\
       match cj with
       | CHandshake _ => oj = fail e' []
       | CRead _ | CWrite _ => oj = fail e' [] \/ oj = fail XClosed []
       | CCloseWrite => oj = fail XEarlyCloseWrite []
       | _ => True
       end) /\
  (* 5 *)
  (forall n bs e, ci = CRead n -> cj = CWrite bs -> o_err oi = Some e -> e <> XBlock -> e <> XEof ->
     exists e', oj = fail e' []) /\
  (forall bs m e, ci = CWrite bs -> cj = CRead m -> m <> 0 -> o_err oi = Some e -> e <> XBlock -> e <> XShutdown ->
     exists e', oj = fail e' []) /\
  (* 6 *)
  (forall bs, ci = CCloseWrite -> cj = CWrite bs -> o_err oi <> Some XEarlyCloseWrite ->
     exists e', oj = fail e' []).
Proof.
  intros pl h i j ci cj oi oj Hij Hi Hoi Hj Hoj.
  split; [|split; [|split; [|split; [|split; [|split]]]]].
  - intros ->. eapply sticky_after_close; eauto.
  - intros n m e -> -> Hm He Hb. eapply sticky_read_error; eauto.
  - intros bs bs' e -> -> He Hb. eapply sticky_write_error; eauto.
  - intros k e -> He Hb. eapply sticky_failed_handshake; eauto.
  - intros n bs e -> -> He Hb Heof. eapply sticky_read_error_stops_write; eauto.
  - intros bs m e -> -> Hm He Hb Hs. eapply sticky_write_error_stops_read; eauto.
  - intros bs -> -> He. eapply sticky_closewrite; eauto.
Qed.

(* ------------------------------------------------------------------ *)
(* the converse: an honest stream's end is reported, after all data    *)
(* ------------------------------------------------------------------ *)

(* how a stream of application data records can end, and what Read must then report *)
Definition tail_class (tl : list event) : option eclass :=
  match tl with
  | [] => Some XEof
  | EAlert _ c :: _ => if (c =? 0)%N then Some XEof else None
  | [EPartial _ _] => Some XUnexpectedEof
  | _ => None
  end.

Definition nonempty (d : list byte) : Prop := d <> [].

(* established connection, transport ended, only application data and the tail ahead *)
Definition honest (R : list byte) (x : eclass) (st : state) : Prop :=
  s_hs st = HDone /\ s_closed st = false /\ s_in_err st = None /\ s_hand st = false /\ s_ended st = true /\
  s_fatal st = None /\
  exists rest tl, s_raw st ++ s_wire st = map EApp rest ++ tl /\ Forall nonempty rest /\
                  tail_class tl = Some x /\ R = s_input st ++ concat rest.

Lemma scan_app_head : forall d r evs, d <> [] -> scan (EApp d :: evs) r = ScApp d evs.
Proof. intros d r evs Hd. destruct d; [contradiction|reflexivity]. Qed.

Lemma scan_tail : forall tl r x, tail_class tl = Some x ->
  match tl with
  | [] => scan tl r = ScEmpty r
  | EAlert _ _ :: junk => x = XEof /\ scan tl r = ScErr XEof None junk r
  | _ => x = XUnexpectedEof /\ scan tl r = ScPartial tl r
  end.
Proof.
  intros tl r x H. destruct tl as [|ev tl]; [reflexivity|].
  destruct ev as [d|l c| | |t|t hd]; cbn in H; try discriminate.
  - destruct (c =? 0)%N eqn:Ec; [|discriminate]. inv H. cbn. rewrite Ec. auto.
  - destruct tl; [|discriminate]. inv H. auto.
Qed.

(* one readRecord on an honest state with c.input empty *)
Lemma read_record_honest : forall R x st,
  honest R x st -> s_input st = [] ->
  (exists d R' st', R = d ++ R' /\ d <> [] /\ read_record st = (st', None, []) /\
                    s_input st' = d /\ honest (d ++ R') x st') \/
  (R = [] /\ exists st', read_record st = (st', Some x, []) /\ s_in_err st' = Some x /\ s_input st' = []).
Proof.
  intros R x st [Hd [Hc [Hie [Hh [He [Hfa [rest [tl [Heq [Hne [Htl HR]]]]]]]]]]] Hin.
  rewrite Hin in HR. cbn in HR. unfold read_record. rewrite Hie, He.
  destruct (s_raw st) as [|ev raw'] eqn:Eraw.
  - (* c.rawInput empty: fetch *)
    cbn [scan app] in *. rewrite Heq.
    destruct rest as [|d rest'].
    + right. cbn in HR. split; [exact HR|]. cbn [map app].
      pose proof (scan_tail tl (s_retry st) x Htl) as Hs.
      destruct tl as [|ev tl'].
      * rewrite Hs. cbn in Htl. inv Htl. eexists. cbn. auto.
      * destruct ev as [d|l c| | |t|t hd]; cbn in Htl; try discriminate.
        -- destruct Hs as [-> Hs]. rewrite Hs. eexists. cbn. auto.
        -- destruct Hs as [-> Hs]. rewrite Hs. eexists. cbn. auto.
    + left. inversion Hne as [|? ? Hd0 Hne']; subst. cbn [map app].
      rewrite (scan_app_head d (s_retry st) _ Hd0).
      exists d, (concat rest'). eexists. split; [reflexivity|]. split; [exact Hd0|]. split; [reflexivity|].
      cbn. split; [reflexivity|]. unfold honest. cbn. repeat split; auto.
      exists rest', tl. rewrite app_nil_r. auto.
  - (* a record is at hand *)
    destruct rest as [|d rest'].
    + right. cbn in HR. split; [exact HR|]. cbn [map app] in Heq.
      pose proof (scan_tail tl (s_retry st) x Htl) as Hs.
      destruct tl as [|ev0 tl']; [discriminate|]. cbn [app] in Heq. inversion Heq as [[Hev Htl']]. subst ev0.
      destruct ev as [d|l c| | |t|t hd]; cbn in Htl; try discriminate.
      * destruct (c =? 0)%N eqn:Ec; [|discriminate]. inv Htl. cbn [scan]. rewrite Ec. eexists. cbn. auto.
      * destruct tl'; [|discriminate]. inv Htl. cbn [scan]. eexists. cbn. auto.
    + left. inversion Hne as [|? ? Hd0 Hne']; subst. cbn [map app] in Heq. inversion Heq as [[Hev Htl']]. subst ev.
      rewrite (scan_app_head d (s_retry st) _ Hd0).
      exists d, (concat rest'). eexists. split; [reflexivity|]. split; [exact Hd0|]. split; [reflexivity|].
      cbn. split; [reflexivity|]. unfold honest. cbn. repeat split; auto.
      exists rest', tl. auto.
Qed.

(* the same for Conn.Read's checked readRecord: no handshake record is pending on an honest state *)
Lemma read_checked_honest : forall R x st,
  honest R x st -> s_input st = [] ->
  (exists d R' st', R = d ++ R' /\ d <> [] /\ read_checked st = (st', None, []) /\
                    s_input st' = d /\ honest (d ++ R') x st') \/
  (R = [] /\ exists st', read_checked st = (st', Some x, [])).
Proof.
  intros R x st HH Hin. unfold read_checked.
  destruct (read_record_honest R x st HH Hin) as [[d [R' [st1 [HRd [Hdn [Hrr [Hi1 HH1]]]]]]] | [HR0 [st1 [Hrr _]]]].
  - left. exists d, R', st1. rewrite Hrr. pose proof HH1 as [_ [_ [_ [Hh1 _]]]]. rewrite Hh1. auto.
  - right. split; [exact HR0|]. rewrite Hrr. eauto.
Qed.

Lemma firstn_nonempty : forall (d : list byte) n, d <> [] -> n <> 0 -> firstn n d <> [].
Proof. intros d n Hd Hn. destruct d; [contradiction|]. destruct n; [contradiction|]. discriminate. Qed.

(* one Read on an honest state *)
Lemma do_read_honest : forall R x st n,
  honest R x st -> n <> 0 ->
  o_sent (snd (do_read st n)) = [] /\
  ( (R = [] /\ o_err (snd (do_read st n)) = Some x /\ o_data (snd (do_read st n)) = [])
    \/ (o_data (snd (do_read st n)) <> [] /\ exists R', R = o_data (snd (do_read st n)) ++ R' /\
         ( (o_err (snd (do_read st n)) = None /\ honest R' x (fst (do_read st n)))
           \/ (o_err (snd (do_read st n)) = Some x /\ R' = []) )) ).
Proof.
  intros R x st n HH Hn.
  pose proof HH as [Hd [Hc [Hie [Hh [He [Hfa [rest [tl [Heq [Hne [Htl HR]]]]]]]]]]].
  unfold do_read. rewrite Hc, (handshake_done _ _ Hd).
  destruct (Nat.eqb n 0) eqn:En; [apply Nat.eqb_eq in En; contradiction|].
  rewrite Hfa.
  (* after the fill loop: an honest state whose c.input is not empty, or the end *)
  assert (Hfill : (exists st1, fill st = (st1, None, []) /\ honest R x st1 /\ s_input st1 <> []) \/
                  (R = [] /\ exists st1, fill st = (st1, Some x, []))).
  { unfold fill. destruct (s_input st) as [|b d0] eqn:Ein.
    - destruct (read_checked_honest R x st HH Ein) as [[d [R' [st1 [HRd [Hdn [Hrr [Hi1 HH1]]]]]]] | [HR0 [st1 Hrr]]].
      + left. exists st1. rewrite Hrr.
        split; [reflexivity|]. split; [rewrite HRd; unfold honest; auto 10|]. rewrite Hi1. exact Hdn.
      + right. split; [exact HR0|]. exists st1. rewrite Hrr. reflexivity.
    - left. exists st. split; [reflexivity|]. split; [exact HH|]. rewrite Ein. discriminate. }
  destruct Hfill as [[st1 [Hf [HH1 Hi1]]] | [HR0 [st1 Hf]]].
  2:{ rewrite Hf. cbn. split; [reflexivity|]. left. auto. }
  rewrite Hf. cbv zeta. cbn [app].
  destruct HH1 as [Hd1 [Hc1 [Hie1 [Hh1 [He1 [Hfa1 [rest1 [tl1 [Heq1 [Hne1 [Htl1 HR1]]]]]]]]]]].
  set (d := s_input st1) in *.
  set (st2 := set_input st1 (skipn n d)).
  assert (Hdata : firstn n d <> []) by (apply firstn_nonempty; assumption).
  assert (HH2 : honest (skipn n d ++ concat rest1) x st2).
  { unfold honest, st2. cbn. repeat split; auto. exists rest1, tl1. auto. }
  assert (HRsplit : R = firstn n d ++ (skipn n d ++ concat rest1)).
  { rewrite app_assoc, firstn_skipn. exact HR1. }
  match goal with |- context [if ?b then _ else _] => destruct b eqn:Econd end.
  - (* look-ahead: an alert-typed record follows in c.rawInput *)
    apply andb_prop in Econd. destruct Econd as [Econd _]. apply andb_prop in Econd. destruct Econd as [_ El].
    fold st2 in El. apply Nat.eqb_eq in El. apply length_zero_iff_nil in El.
    destruct (read_checked_honest _ x st2 HH2 El) as [[d' [R' [st3 [HRd [Hdn [Hrr [Hi3 HH3]]]]]]] | [HR0 [st3 Hrr]]].
    + fold st2. rewrite Hrr. cbn. split; [reflexivity|]. right. split; [exact Hdata|].
      exists (skipn n d ++ concat rest1). split; [exact HRsplit|]. left. split; [reflexivity|]. rewrite HRd. exact HH3.
    + fold st2. rewrite Hrr. cbn. split; [reflexivity|]. right. split; [exact Hdata|].
      exists (skipn n d ++ concat rest1). split; [exact HRsplit|]. right. auto.
  - cbn. split; [reflexivity|]. right. split; [exact Hdata|].
    exists (skipn n d ++ concat rest1). split; [exact HRsplit|]. left. split; [reflexivity|]. exact HH2.
Qed.

(* enough Reads with non-empty buffers: every byte, then the right report *)
Lemma reads_honest : forall ns R x st,
  honest R x st -> Forall (fun n => n <> 0) ns -> length R < length ns ->
  exists j o, nth_error (run st (map CRead ns)) j = Some o /\ o_err o = Some x /\
    (forall i oi, i < j -> nth_error (run st (map CRead ns)) i = Some oi -> o_err oi = None /\ o_data oi <> []) /\
    delivered (firstn (S j) (run st (map CRead ns))) = R.
Proof.
  induction ns as [|n ns IH]; intros R x st HH Hns Hlen.
  - cbn in Hlen. lia.
  - inversion Hns as [|? ? Hn Hns']; subst.
    cbn [map]. rewrite run_cons. cbn [step].
    destruct (do_read_honest R x st n HH Hn) as [_ [[HR0 [He Hd]] | [Hd [R' [HR [[He HH'] | [He HR']]]]]]].
    + exists 0, (snd (do_read st n)). split; [reflexivity|]. split; [exact He|]. split; [intros i oi Hi; lia|].
      cbn [firstn]. unfold delivered. cbn [map concat]. rewrite Hd, HR0. reflexivity.
    + assert (Hlen' : length R' < length ns).
      { rewrite HR, app_length in Hlen. cbn [length] in Hlen.
        destruct (o_data (snd (do_read st n))); [contradiction|]. cbn [length] in Hlen. lia. }
      destruct (IH R' x _ HH' Hns' Hlen') as [j [o [Hj [Heo [Hbefore Hdel]]]]].
      exists (S j), o. cbn [nth_error]. split; [exact Hj|]. split; [exact Heo|]. split.
      * intros i oi Hi Hoi. destruct i as [|i]; [cbn in Hoi; inv Hoi; auto|]. cbn in Hoi. apply (Hbefore i); [lia|exact Hoi].
      * change (firstn (S (S j)) (snd (do_read st n) :: run (fst (do_read st n)) (map CRead ns)))
          with (snd (do_read st n) :: firstn (S j) (run (fst (do_read st n)) (map CRead ns))).
        unfold delivered in *. cbn [map concat]. rewrite Hdel. symmetry. exact HR.
    + exists 0, (snd (do_read st n)). split; [reflexivity|]. split; [exact He|]. split; [intros i oi Hi; lia|].
      cbn [firstn]. unfold delivered. cbn [map concat]. rewrite app_nil_r. rewrite HR, HR', app_nil_r. reflexivity.
Qed.

Theorem stream_end_reported : forall pl ds tl1 p x ns,
  p_res pl = None -> Forall nonempty ds -> tail_class (tl1 ++ ptail (Some p)) = Some x ->
  Forall (fun n => n <> 0) ns -> length (concat ds) < length ns ->
  let h := CHandshake None :: CArrive (map EApp ds ++ tl1) :: CEnd p :: map CRead ns in
  exists j o, nth_error (run (init pl) h) (3 + j) = Some o /\ o_err o = Some x /\
    (forall i oi, i < j -> nth_error (run (init pl) h) (3 + i) = Some oi -> o_err oi = None /\ o_data oi <> []) /\
    delivered (firstn (S (3 + j)) (run (init pl) h)) = concat ds.
Proof.
  intros pl ds tl1 p x ns Hpl Hds Htl Hns Hlen h.
  set (st3 := exec (init pl) [CHandshake None; CArrive (map EApp ds ++ tl1); CEnd p]).
  assert (HH : honest (concat ds) x st3).
  { unfold st3, exec. cbn [fold_left step]. unfold do_handshake, handshake. cbn [s_hs init].
    unfold hs_run. cbn [s_rawclosed init s_plan andb s_raw s_wire app hs_scan s_ended]. rewrite Hpl.
    cbn. unfold honest. cbn. repeat split; auto.
    exists ds, (tl1 ++ ptail (Some p)). rewrite <- app_assoc. cbn [ptail]. repeat split; auto. }
  destruct (reads_honest ns _ x st3 HH Hns Hlen) as [j [o [Hj [Heo [Hbefore Hdel]]]]].
  assert (Hrun : run (init pl) h =
                 run (init pl) [CHandshake None; CArrive (map EApp ds ++ tl1); CEnd p] ++ run st3 (map CRead ns)).
  { unfold h. change (CHandshake None :: CArrive (map EApp ds ++ tl1) :: CEnd p :: map CRead ns)
      with ([CHandshake None; CArrive (map EApp ds ++ tl1); CEnd p] ++ map CRead ns).
    rewrite run_app. reflexivity. }
  assert (Hl3 : length (run (init pl) [CHandshake None; CArrive (map EApp ds ++ tl1); CEnd p]) = 3) by (rewrite run_length; reflexivity).
  assert (Hd3 : delivered (run (init pl) [CHandshake None; CArrive (map EApp ds ++ tl1); CEnd p]) = []).
  { rewrite !run_cons. cbn [run]. unfold delivered. cbn [map concat step]. unfold do_handshake, handshake. cbn [s_hs init].
    unfold hs_run. cbn [s_rawclosed init s_plan andb s_raw s_wire app hs_scan s_ended]. rewrite Hpl. reflexivity. }
  exists j, o. rewrite Hrun. split; [|split; [|split]].
  - rewrite nth_error_app2 by lia. rewrite Hl3. replace (3 + j - 3) with j by lia. exact Hj.
  - exact Heo.
  - intros i oi Hi Hoi. rewrite nth_error_app2 in Hoi by lia. rewrite Hl3 in Hoi.
    replace (3 + i - 3) with i in Hoi by lia. apply (Hbefore i); assumption.
  - replace (S (3 + j)) with (3 + S j) by lia. rewrite <- Hl3 at 1. rewrite firstn_app_2.
    unfold delivered in *. rewrite map_app, concat_app, Hd3, Hdel. reflexivity.
Qed.
