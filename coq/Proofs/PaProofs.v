(* Proofs about Model/Pa.v. Statements are fixed; fill in the proofs. *)
From V Require Import Model.Pa.

(* bytes returned by a run of reads *)
Definition outs (rs : list (list byte * rerr)) : list byte := concat (map fst rs).

(* ------------------------------------------------------------------ *)
(* helpers: lists                                                      *)

Lemma skipn_nonnil : forall (A : Type) (n : nat) (l : list A),
  n < length l -> skipn n l <> [].
Proof.
  intros A n l Hlt Hs.
  apply (f_equal (@length A)) in Hs.
  rewrite skipn_length in Hs.
  change (length (@nil A)) with 0 in Hs.
  lia.
Qed.

Lemma firstn_nonnil : forall (A : Type) (n : nat) (l : list A),
  0 < n -> l <> [] -> firstn n l <> [].
Proof.
  intros A n l Hn Hl.
  destruct n as [|n]; [lia|].
  destruct l as [|a l]; [contradiction|].
  simpl. discriminate.
Qed.

Lemma nth_firstn_lt : forall (n i : nat) (l : list byte) (d : byte),
  i < n -> nth i (firstn n l) d = nth i l d.
Proof.
  induction n as [|n IH]; intros i l d Hi.
  - lia.
  - destruct l as [|a l].
    + reflexivity.
    + destruct i as [|i].
      * reflexivity.
      * simpl. apply IH. lia.
Qed.

Lemma outs_cons : forall bs e rs, outs ((bs, e) :: rs) = bs ++ outs rs.
Proof. reflexivity. Qed.

(* ------------------------------------------------------------------ *)
(* helpers: transport                                                  *)

Lemma wf_cons_inv : forall c r, wf_transport (c :: r) -> c <> [] /\ wf_transport r.
Proof.
  intros c r H. inversion H; subst. split; assumption.
Qed.

Lemma tread_le : forall c r n,
  n <> 0 -> length c <= n -> tread (c :: r) n = (c, NoErr, r).
Proof.
  intros c r n Hn Hle. unfold tread.
  destruct (Nat.eqb n 0) eqn:E0.
  - apply Nat.eqb_eq in E0. contradiction.
  - destruct (Nat.leb (length c) n) eqn:E1.
    + reflexivity.
    + apply Nat.leb_gt in E1. lia.
Qed.

Lemma tread_gt : forall c r n,
  n <> 0 -> n < length c ->
  tread (c :: r) n = (firstn n c, NoErr, skipn n c :: r).
Proof.
  intros c r n Hn Hlt. unfold tread.
  destruct (Nat.eqb n 0) eqn:E0.
  - apply Nat.eqb_eq in E0. contradiction.
  - destruct (Nat.leb (length c) n) eqn:E1.
    + apply Nat.leb_le in E1. lia.
    + reflexivity.
Qed.

Lemma tread_conserve : forall t n bs e t',
  wf_transport t -> tread t n = (bs, e, t') ->
  bs ++ concat t' = concat t /\ wf_transport t'.
Proof.
  intros t n bs e t' Hwf H.
  destruct t as [|c r].
  - simpl in H. inversion H; subst. split; [reflexivity|assumption].
  - destruct (wf_cons_inv _ _ Hwf) as [Hc Hr].
    unfold tread in H.
    destruct (Nat.eqb n 0) eqn:E0.
    + inversion H; subst. split; [reflexivity|assumption].
    + destruct (Nat.leb (length c) n) eqn:E1.
      * inversion H; subst. split; [reflexivity|assumption].
      * apply Nat.leb_gt in E1. inversion H; subst. split.
        -- change (concat (skipn n c :: r)) with (skipn n c ++ concat r).
           change (concat (c :: r)) with (c ++ concat r).
           rewrite app_assoc. rewrite firstn_skipn. reflexivity.
        -- constructor; [apply skipn_nonnil; assumption | assumption].
Qed.

Lemma tread_err : forall t n bs e t',
  tread t n = (bs, e, t') -> e <> NoErr -> e = EOF /\ t' = [] /\ t = [].
Proof.
  intros t n bs e t' H He.
  destruct t as [|c r].
  - simpl in H. inversion H; subst. split; [reflexivity|split; reflexivity].
  - unfold tread in H.
    destruct (Nat.eqb n 0) eqn:E0.
    + inversion H; subst. congruence.
    + destruct (Nat.leb (length c) n) eqn:E1.
      * inversion H; subst. congruence.
      * inversion H; subst. congruence.
Qed.

Lemma tread_progress : forall t n bs e t',
  wf_transport t -> 0 < n -> tread t n = (bs, e, t') -> bs <> [] \/ e <> NoErr.
Proof.
  intros t n bs e t' Hwf Hn H.
  destruct t as [|c r].
  - simpl in H. inversion H; subst. right. discriminate.
  - destruct (wf_cons_inv _ _ Hwf) as [Hc Hr].
    unfold tread in H.
    destruct (Nat.eqb n 0) eqn:E0.
    + apply Nat.eqb_eq in E0. lia.
    + destruct (Nat.leb (length c) n) eqn:E1.
      * inversion H; subst. left. assumption.
      * inversion H; subst. left. apply firstn_nonnil; assumption.
Qed.

(* ------------------------------------------------------------------ *)
(* helpers: read_full                                                  *)

Lemma read_full_0 : forall k t acc, read_full k t 0 acc = (acc, NoErr, t).
Proof. intros k t acc. destruct k; reflexivity. Qed.

Lemma read_full_S : forall k t n acc,
  read_full (S k) t (S n) acc =
  match tread t (S n) with
  | (bs, EOF, t') =>
      (acc ++ bs, (match acc ++ bs with [] => EOF | _ => UnexpectedEOF end), t')
  | (bs, NoErr, t') => read_full k t' (S n - length bs) (acc ++ bs)
  | (bs, UnexpectedEOF, t') => read_full k t' (S n - length bs) (acc ++ bs)
  end.
Proof. reflexivity. Qed.

Lemma read_full_ok : forall fuel t need acc,
  wf_transport t -> length t < fuel -> need <= length (concat t) ->
  exists t',
    read_full fuel t need acc = (acc ++ firstn need (concat t), NoErr, t')
    /\ concat t' = skipn need (concat t) /\ wf_transport t'.
Proof.
  induction fuel as [|k IH]; intros t need acc Hwf Hfuel Hneed.
  - lia.
  - destruct need as [|n].
    + exists t. split; [|split].
      * rewrite read_full_0. rewrite firstn_O. rewrite app_nil_r. reflexivity.
      * reflexivity.
      * assumption.
    + destruct t as [|c r].
      * simpl in Hneed. lia.
      * destruct (wf_cons_inv _ _ Hwf) as [Hc Hr].
        change (concat (c :: r)) with (c ++ concat r) in *.
        rewrite app_length in Hneed.
        change (length (c :: r)) with (S (length r)) in Hfuel.
        destruct (Nat.leb (length c) (S n)) eqn:Ecmp.
        -- apply Nat.leb_le in Ecmp.
           destruct (IH r (S n - length c) (acc ++ c)) as (t' & E & C & W);
             [assumption | lia | lia |].
           exists t'. split; [|split].
           ++ rewrite read_full_S. rewrite tread_le by lia. cbv beta iota.
              rewrite E. rewrite firstn_app. rewrite (firstn_all2 c) by lia.
              rewrite app_assoc. reflexivity.
           ++ rewrite C. rewrite skipn_app. rewrite (skipn_all2 c) by lia.
              reflexivity.
           ++ assumption.
        -- apply Nat.leb_gt in Ecmp.
           exists (skipn (S n) c :: r). split; [|split].
           ++ rewrite read_full_S. rewrite tread_gt by lia. cbv beta iota.
              rewrite firstn_length. rewrite Nat.min_l by lia.
              rewrite Nat.sub_diag. rewrite read_full_0.
              rewrite firstn_app. replace (S n - length c) with 0 by lia.
              rewrite firstn_O. rewrite app_nil_r. reflexivity.
           ++ change (concat (skipn (S n) c :: r)) with (skipn (S n) c ++ concat r).
              rewrite skipn_app. replace (S n - length c) with 0 by lia.
              reflexivity.
           ++ constructor; [apply skipn_nonnil; assumption | assumption].
Qed.

Lemma read_full_short : forall fuel t need acc,
  wf_transport t -> length t < fuel -> length (concat t) < need ->
  read_full fuel t need acc =
    (acc ++ concat t,
     (match acc ++ concat t with [] => EOF | _ => UnexpectedEOF end), []).
Proof.
  induction fuel as [|k IH]; intros t need acc Hwf Hfuel Hneed.
  - lia.
  - destruct need as [|n]; [lia|].
    destruct t as [|c r].
    + rewrite read_full_S. reflexivity.
    + destruct (wf_cons_inv _ _ Hwf) as [Hc Hr].
      change (concat (c :: r)) with (c ++ concat r) in *.
      rewrite app_length in Hneed.
      change (length (c :: r)) with (S (length r)) in Hfuel.
      rewrite read_full_S. rewrite tread_le by lia. cbv beta iota.
      rewrite (IH r (S n - length c) (acc ++ c)); [| assumption | lia | lia].
      rewrite (app_assoc acc c (concat r)). reflexivity.
Qed.

(* ------------------------------------------------------------------ *)
(* helpers: read_first_header                                          *)

Lemma rfh_ok : forall t,
  wf_transport t -> 5 <= length (concat t) ->
  exists t',
    read_first_header t =
      (mkPdc (firstn 5 (concat t)) (nth 1 (concat t) 0%N) (nth 2 (concat t) 0%N) t',
       NoErr)
    /\ concat t' = skipn 5 (concat t) /\ wf_transport t'.
Proof.
  intros t Hwf Hlen.
  destruct (read_full_ok (S (length t)) t 5 [] Hwf) as (t' & E & C & W);
    [lia | assumption |].
  exists t'. split; [|split; assumption].
  unfold read_first_header. rewrite E. cbv beta iota zeta.
  change ([] ++ firstn 5 (concat t)) with (firstn 5 (concat t)).
  assert (H5 : firstn 5 (concat t)
               ++ repeat 0%N (5 - length (firstn 5 (concat t)))
               = firstn 5 (concat t)).
  { rewrite firstn_length. rewrite Nat.min_l by assumption.
    rewrite Nat.sub_diag. simpl repeat. apply app_nil_r. }
  rewrite H5. rewrite !nth_firstn_lt by lia. reflexivity.
Qed.

(* ------------------------------------------------------------------ *)
(* helpers: pd_read / pd_reads                                         *)

Lemma pd_read_nil : forall mj mn t n,
  pd_read (mkPdc [] mj mn t) n =
  let '(bs, e, t') := tread t n in (bs, e, mkPdc [] mj mn t').
Proof. reflexivity. Qed.

Lemma pd_read_hdr : forall h mj mn t n,
  h <> [] ->
  pd_read (mkPdc h mj mn t) n =
  if Nat.leb (length h) n then
    if Nat.ltb (length h) n then
      let '(bs, e, t') := tread t (n - length h) in
      (h ++ bs, e, mkPdc [] mj mn t')
    else (h, NoErr, mkPdc [] mj mn t)
  else (firstn n h, NoErr, mkPdc (skipn n h) mj mn t).
Proof.
  intros h mj mn t n Hh. destruct h as [|a h0]; [contradiction|reflexivity].
Qed.

Lemma pd_reads_cons : forall p n r,
  pd_reads p (n :: r) =
  let '(bs, e, p') := pd_read p n in
  match e with
  | NoErr => let '(rs, p'') := pd_reads p' r in ((bs, e) :: rs, p'')
  | _ => ([(bs, e)], p')
  end.
Proof. reflexivity. Qed.

Lemma pd_read_conserve : forall p n bs e p',
  wf_transport (raw p) -> pd_read p n = (bs, e, p') ->
  bs ++ hdr p' ++ concat (raw p') = hdr p ++ concat (raw p)
  /\ wf_transport (raw p').
Proof.
  intros p n bs e p' Hwf H.
  destruct p as [h mj mn t]. cbn [raw hdr] in Hwf |- *.
  destruct h as [|a h0].
  - rewrite pd_read_nil in H.
    destruct (tread t n) as [[bs0 e0] t0] eqn:Et.
    cbv beta iota in H. inversion H; subst. cbn [hdr raw].
    destruct (tread_conserve _ _ _ _ _ Hwf Et) as [C W].
    split; [exact C | exact W].
  - assert (Hne : a :: h0 <> []) by discriminate.
    revert H Hne. generalize (a :: h0) as h. intros h H Hne.
    rewrite pd_read_hdr in H by assumption.
    destruct (Nat.leb (length h) n) eqn:E1.
    + destruct (Nat.ltb (length h) n) eqn:E2.
      * destruct (tread t (n - length h)) as [[bs0 e0] t0] eqn:Et.
        cbv beta iota in H. inversion H; subst. cbn [hdr raw].
        destruct (tread_conserve _ _ _ _ _ Hwf Et) as [C W].
        split; [|exact W].
        change ([] ++ concat t0) with (concat t0).
        rewrite <- app_assoc. rewrite C. reflexivity.
      * inversion H; subst. cbn [hdr raw]. split; [reflexivity|exact Hwf].
    + inversion H; subst. cbn [hdr raw]. split; [|exact Hwf].
      rewrite app_assoc. rewrite firstn_skipn. reflexivity.
Qed.

Lemma detect_pdc : forall ht hs t r p,
  detect ht hs t = (r, p) -> p = fst (read_first_header t).
Proof.
  intros ht hs t r p H. unfold detect in H.
  destruct (read_first_header t) as [p0 e]. cbn [fst]. cbv beta iota in H.
  destruct e; cbv beta iota in H;
    [| inversion H; reflexivity | inversion H; reflexivity].
  destruct (N.eqb (major p0) 1).
  - destruct ht; inversion H; reflexivity.
  - destruct (N.eqb (major p0) 3).
    + destruct hs; inversion H; reflexivity.
    + inversion H; reflexivity.
Qed.

(* ------------------------------------------------------------------ *)

(* T1 routing depends only on byte 1 of the stream, however it is segmented *)
Theorem route_by_major : forall ht hs t,
  wf_transport t -> 5 <= length (concat t) ->
  fst (detect ht hs t) =
    (if N.eqb (nth 1 (concat t) 0%N) 1 then (if ht then RTlcp else RNoConfig)
     else if N.eqb (nth 1 (concat t) 0%N) 3 then (if hs then RTls else RNoConfig)
     else RUnsupported).
Proof.
  intros ht hs t Hwf Hlen.
  destruct (rfh_ok t Hwf Hlen) as (t' & E & _ & _).
  unfold detect. rewrite E. cbv beta iota zeta. cbn [major].
  destruct (N.eqb (nth 1 (concat t) 0%N) 1).
  - destruct ht; reflexivity.
  - destruct (N.eqb (nth 1 (concat t) 0%N) 3).
    + destruct hs; reflexivity.
    + reflexivity.
Qed.

(* T2 fewer than five bytes then end of stream: an error, never a route *)
Theorem short_stream_is_error : forall ht hs t,
  wf_transport t -> length (concat t) < 5 ->
  fst (detect ht hs t) = RReadErr (match concat t with [] => EOF | _ => UnexpectedEOF end).
Proof.
  intros ht hs t Hwf Hlen.
  unfold detect, read_first_header.
  rewrite (read_full_short (S (length t)) t 5 [] Hwf) by lia.
  cbv beta iota zeta.
  change ([] ++ concat t) with (concat t).
  destruct (concat t) as [|b l]; reflexivity.
Qed.

(* T3 the peeked header plus the untouched transport is exactly the stream *)
Theorem header_conserves : forall t p e,
  wf_transport t -> read_first_header t = (p, e) -> 5 <= length (concat t) ->
  e = NoErr /\ hdr p ++ concat (raw p) = concat t /\ length (hdr p) = 5 /\ wf_transport (raw p).
Proof.
  intros t p e Hwf H Hlen.
  destruct (rfh_ok t Hwf Hlen) as (t' & E & C & W).
  rewrite E in H. injection H as Hp He. subst p e.
  split; [reflexivity|].
  split; [|split].
  - change (firstn 5 (concat t) ++ concat t' = concat t).
    rewrite C. apply firstn_skipn.
  - change (length (firstn 5 (concat t)) = 5).
    rewrite firstn_length. apply Nat.min_l. assumption.
  - exact W.
Qed.

(* T4 transparency: for every segmentation and every sequence of read-buffer sizes, what the
   chosen stack has read so far, followed by what is still buffered or in transit, is the
   client's stream from its first byte: nothing lost, duplicated or reordered *)
Theorem reads_conserve : forall p sizes rs p',
  wf_transport (raw p) -> pd_reads p sizes = (rs, p') ->
  outs rs ++ hdr p' ++ concat (raw p') = hdr p ++ concat (raw p) /\ wf_transport (raw p').
Proof.
  intros p sizes. revert p.
  induction sizes as [|n r IH]; intros p rs p' Hwf H.
  - simpl in H. inversion H; subst. split; [reflexivity|assumption].
  - rewrite pd_reads_cons in H.
    destruct (pd_read p n) as [[bs e] p1] eqn:Er.
    cbv beta iota in H.
    destruct (pd_read_conserve _ _ _ _ _ Hwf Er) as [C W].
    destruct e; cbv beta iota in H.
    + destruct (pd_reads p1 r) as [rs1 p2] eqn:Er2.
      cbv beta iota in H. inversion H; subst.
      destruct (IH _ _ _ W Er2) as [C2 W2].
      split; [|exact W2].
      rewrite outs_cons. rewrite <- app_assoc. rewrite C2. exact C.
    + inversion H; subst. rewrite outs_cons.
      change (outs []) with (@nil byte). rewrite app_nil_r.
      split; [exact C|exact W].
    + inversion H; subst. rewrite outs_cons.
      change (outs []) with (@nil byte). rewrite app_nil_r.
      split; [exact C|exact W].
Qed.

Theorem adapter_transparent : forall t ht hs sizes p rs p',
  wf_transport t -> 5 <= length (concat t) ->
  detect ht hs t = (RTlcp, p) \/ detect ht hs t = (RTls, p) ->
  pd_reads p sizes = (rs, p') ->
  outs rs ++ hdr p' ++ concat (raw p') = concat t.
Proof.
  intros t ht hs sizes p rs p' Hwf Hlen Hd Hr.
  assert (Hp : p = fst (read_first_header t)).
  { destruct Hd as [D|D]; exact (detect_pdc _ _ _ _ _ D). }
  destruct (read_first_header t) as [p0 e] eqn:Erf.
  cbn [fst] in Hp. subst p0.
  destruct (header_conserves _ _ _ Hwf Erf Hlen) as (_ & C & _ & W).
  destruct (reads_conserve _ _ _ _ W Hr) as [C2 _].
  rewrite C2. exact C.
Qed.

(* T5 progress: a read with a non-empty buffer returns at least one byte or an error *)
Theorem read_progress : forall p n bs e p',
  wf_transport (raw p) -> 0 < n -> pd_read p n = (bs, e, p') ->
  bs <> [] \/ e <> NoErr.
Proof.
  intros p n bs e p' Hwf Hn H.
  destruct p as [h mj mn t]. cbn [raw] in Hwf.
  destruct h as [|a h0].
  - rewrite pd_read_nil in H.
    destruct (tread t n) as [[bs0 e0] t0] eqn:Et.
    cbv beta iota in H. inversion H; subst.
    exact (tread_progress _ _ _ _ _ Hwf Hn Et).
  - assert (Hne : a :: h0 <> []) by discriminate.
    revert H Hne. generalize (a :: h0) as h. intros h H Hne.
    rewrite pd_read_hdr in H by assumption.
    destruct (Nat.leb (length h) n) eqn:E1.
    + destruct (Nat.ltb (length h) n) eqn:E2.
      * destruct (tread t (n - length h)) as [[bs0 e0] t0] eqn:Et.
        cbv beta iota in H. inversion H; subst.
        left. intro Hs. apply app_eq_nil in Hs. destruct Hs as [Hs _].
        contradiction.
      * inversion H; subst. left. assumption.
    + apply Nat.leb_gt in E1. inversion H; subst.
      left. apply firstn_nonnil; assumption.
Qed.

(* T6 an error is reported only when the stream is exhausted, and then it is EOF *)
Theorem read_error_only_at_end : forall p n bs e p',
  wf_transport (raw p) -> pd_read p n = (bs, e, p') -> e <> NoErr ->
  e = EOF /\ raw p' = [] /\ raw p = [].
Proof.
  intros p n bs e p' Hwf H He.
  destruct p as [h mj mn t]. cbn [raw] in Hwf |- *.
  destruct h as [|a h0].
  - rewrite pd_read_nil in H.
    destruct (tread t n) as [[bs0 e0] t0] eqn:Et.
    cbv beta iota in H. inversion H; subst. cbn [raw].
    exact (tread_err _ _ _ _ _ Et He).
  - assert (Hne : a :: h0 <> []) by discriminate.
    revert H Hne. generalize (a :: h0) as h. intros h H Hne.
    rewrite pd_read_hdr in H by assumption.
    destruct (Nat.leb (length h) n) eqn:E1.
    + destruct (Nat.ltb (length h) n) eqn:E2.
      * destruct (tread t (n - length h)) as [[bs0 e0] t0] eqn:Et.
        cbv beta iota in H. inversion H; subst. cbn [raw].
        exact (tread_err _ _ _ _ _ Et He).
      * inversion H; subst. congruence.
    + inversion H; subst. congruence.
Qed.

Print Assumptions route_by_major.
Print Assumptions short_stream_is_error.
Print Assumptions header_conserves.
Print Assumptions reads_conserve.
Print Assumptions adapter_transparent.
Print Assumptions read_progress.
Print Assumptions read_error_only_at_end.
