(* C03: size limits and type codes used by the two-party model and its wire form *)
From Coq Require Import ZArith NArith List.
From V Require Import Model.GenConsts Model.Mitm Model.MitmWire.
Open Scope Z_scope.
Definition tie : Prop :=
  Z.of_N Mitm.max_handshake = GenConsts.T.maxHandshake /\ Z.of_N Mitm.max_handshake = GenConsts.D.maxHandshake /\
  Z.of_N MitmWire.max_ciphertext = GenConsts.T.maxCiphertext /\ Z.of_N MitmWire.max_ciphertext = GenConsts.D.maxCiphertext /\
  Z.of_N MitmWire.max_plaintext = GenConsts.T.maxPlaintext /\ Z.of_N MitmWire.max_plaintext = GenConsts.D.maxPlaintext /\
  GenConsts.T.typeFinished = 20 /\ GenConsts.D.typeFinished = 20 /\
  GenConsts.T.finishedVerifyLength = 12 /\ GenConsts.D.finishedVerifyLength = 12.
Lemma tie_holds : tie.
Proof. unfold tie. vm_compute. repeat split. Qed.
