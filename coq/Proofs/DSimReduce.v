(* Reduction of an arbitrary fault script to a script over a finite space:
   faults are used only through (side, index, kind, delay if the kind is FDelay), and a fault
   whose index is not below the number of datagrams its side ever sends has no effect. *)
From V Require Import Model.DSim Proofs.DSimBase.
From Coq Require Import Lia.

(* ------------------------------------------------------------------ indexes in the queue are below the counters *)
Definition Wq (q : list pkt) (a b : N) : Prop :=
  Forall (fun p => p_idx p < match p_from p with Cl => a | Sv => b end) q.
Definition W (n : net) : Prop := Wq (queue n) (nsent_c n) (nsent_s n).
(* n' is a successor of n: W again and the counters have not decreased *)
Definition Wle (n n' : net) : Prop := W n' /\ nsent_c n <= nsent_c n' /\ nsent_s n <= nsent_s n'.

Lemma Wq_mono : forall q a b a' b', Wq q a b -> a <= a' -> b <= b' -> Wq q a' b'.
Proof.
  intros q a b a' b' H Ha Hb. unfold Wq in *. rewrite Forall_forall in *.
  intros p Hp. specialize (H p Hp). destruct (p_from p); lia.
Qed.

Lemma Wle_refl : forall n, W n -> Wle n n.
Proof. intros n H. repeat split; [exact H|lia|lia]. Qed.

Lemma Wle_trans : forall a b c, Wle a b -> Wle b c -> Wle a c.
Proof. unfold Wle. intros a b c (?&?&?) (?&?&?). repeat split; [assumption|lia|lia]. Qed.

(* a net with the same queue and counters *)
Definition same_q (n n' : net) : Prop :=
  queue n' = queue n /\ nsent_c n' = nsent_c n /\ nsent_s n' = nsent_s n.

Lemma Wle_same : forall n n', W n -> same_q n n' -> Wle n n'.
Proof. unfold Wle, W, same_q. intros n n' H (A&B&C). rewrite A, B, C. repeat split; [assumption|lia|lia]. Qed.

Lemma emit_W : forall os n s, W n -> Wle n (emit n s os).
Proof.
  induction os as [|o os IH]; intros n s H; simpl.
  - apply Wle_refl; assumption.
  - destruct o.
    + eapply Wle_trans; [|apply IH].
      * unfold Wle, W; simpl. split; [|destruct s; lia].
        unfold Wq. apply Forall_app. split.
        -- eapply Wq_mono; [exact H|destruct s; lia|destruct s; lia].
        -- constructor; [|constructor]. simpl. destruct s; lia.
      * unfold W; simpl. unfold Wq. apply Forall_app. split.
        -- eapply Wq_mono; [exact H|destruct s; lia|destruct s; lia].
        -- constructor; [|constructor]. simpl. destruct s; lia.
    + exact (IH (log n _) s H).
    + exact (IH (log n _) s H).
Qed.

Lemma hand_over_W : forall c n p, W n -> Wle n (hand_over c n p).
Proof.
  intros c n p H. unfold hand_over. destruct (recv_dgram _ _ _ _) as [e os].
  eapply Wle_trans; [|apply emit_W].
  - apply Wle_same; [exact H|]. destruct (other (p_from p)); repeat split.
  - destruct (other (p_from p)); exact H.
Qed.

Lemma do_expire_W : forall c n s, W n -> Wle n (do_expire c n s).
Proof.
  intros c n s H. unfold do_expire. destruct (expire _ _ _) as [e os].
  eapply Wle_trans; [|apply emit_W].
  - apply Wle_same; [exact H|]. destruct s; repeat split.
  - destruct s; exact H.
Qed.

Lemma W_tail : forall n p q, W n -> queue n = p :: q -> W (set_queue n q).
Proof. unfold W. intros n p q H E. rewrite E in H. inversion H; subst. simpl. assumption. Qed.

Lemma Wle_via : forall n n1 n', nsent_c n1 = nsent_c n -> nsent_s n1 = nsent_s n -> Wle n1 n' -> Wle n n'.
Proof. unfold Wle. intros n n1 n' A B H. rewrite <- A, <- B. exact H. Qed.

Lemma step_W : forall c fs n n', W n -> step c fs n = Some n' -> Wle n n'.
Proof.
  intros c fs n n' H St. apply step_cases in St. destruct St.
  - apply (hand_over_W c (log (set_ready n r) _) p). exact H.
  - pose proof (W_tail _ _ _ H H1) as T. split; [exact T|simpl; lia].
  - pose proof (W_tail _ _ _ H H1) as T.
    eapply Wle_via with (n1 := set_queue n q); [reflexivity|reflexivity|].
    eapply Wle_trans; [|apply hand_over_W].
    + apply (hand_over_W c (log (log (set_queue n q) _) _) p). exact T.
    + apply (hand_over_W c (log (log (set_queue n q) _) _) p). exact T.
  - pose proof (W_tail _ _ _ H H1) as T. split; [exact T|simpl; lia].
  - pose proof (W_tail _ _ _ H H1) as T.
    eapply Wle_via with (n1 := set_queue n q); [reflexivity|reflexivity|].
    apply (hand_over_W c (log (set_queue n q) _) p). exact T.
  - eapply Wle_via with (n1 := put_ep n1 (other first) _); [| |apply do_expire_W].
    + destruct (other first); reflexivity.
    + destruct (other first); reflexivity.
    + destruct (other first); exact H.
  - apply (do_expire_W c (advance n t) s). exact H.
  - apply Wle_refl in H. exact H.
Qed.

Lemma run_Wle : forall c fs fuel n, W n -> Wle n (fst (run fuel c fs n)).
Proof.
  induction fuel; intros n H; simpl.
  - apply Wle_refl; assumption.
  - destruct (step c fs n) as [n'|] eqn:E; simpl.
    + pose proof (step_W _ _ _ _ H E) as H1. eapply Wle_trans; [exact H1|]. apply IHfuel. apply H1.
    + apply Wle_refl; assumption.
Qed.

(* ------------------------------------------------------------------ what a script does to a datagram *)
Definition eff (fs : list fault) (p : pkt) : option (fkind * N) :=
  match decide fs p with
  | None => None
  | Some f => Some (f_kind f, match f_kind f with FDelay => f_ms f | _ => 0 end)
  end.

Lemma step_ext : forall c fs fs' n,
  (forall p q, queue n = p :: q -> eff fs p = eff fs' p) -> step c fs n = step c fs' n.
Proof.
  intros c fs fs' n H. unfold step.
  destruct (fin (cl n) && fin (sv n) && _); [reflexivity|].
  destruct (ready n); [|reflexivity].
  destruct (queue n) as [|p q]; [reflexivity|].
  specialize (H p q eq_refl). unfold eff in H.
  destruct (decide fs p) as [[a b [] d]|]; destruct (decide fs' p) as [[a' b' [] d']|];
    simpl in H; try discriminate; try reflexivity.
  inversion H; subst; reflexivity.
Qed.

Lemma run_ext : forall c fs fs' M,
  (forall p, p_idx p < M -> eff fs p = eff fs' p) ->
  forall fuel n, W n ->
  nsent_c (fst (run fuel c fs' n)) <= M -> nsent_s (fst (run fuel c fs' n)) <= M ->
  run fuel c fs n = run fuel c fs' n.
Proof.
  intros c fs fs' M He. induction fuel; intros n Hw Hc Hs; [reflexivity|].
  assert (St : step c fs n = step c fs' n).
  { apply step_ext. intros p q Eq. apply He.
    pose proof (run_Wle c fs' (S fuel) n Hw) as (_ & A & B).
    unfold W in Hw. rewrite Eq in Hw. inversion Hw; subst. destruct (p_from p); lia. }
  simpl in *. rewrite St. destruct (step c fs' n) as [n'|] eqn:E; [|reflexivity].
  apply IHfuel; try assumption. eapply step_W; eauto.
Qed.

Lemma init_W : W init.
Proof. vm_compute. constructor; [reflexivity|constructor]. Qed.

(* ------------------------------------------------------------------ pruning a script *)
Definition norm (f : fault) : fault :=
  mkFault (f_side f) (f_idx f) (f_kind f) (match f_kind f with FDelay => f_ms f | _ => 0 end).
Definition prune (M : N) (fs : list fault) : list fault :=
  map norm (filter (fun f => f_idx f <? M) fs).

Lemma eff_prune : forall M fs p, p_idx p < M -> eff fs p = eff (prune M fs) p.
Proof.
  intros M fs p Hp. unfold eff, prune. induction fs as [|f fs IH]; simpl; [reflexivity|].
  destruct (f_idx f <? M) eqn:E; simpl.
  - destruct (side_eqb (f_side f) (p_from p) && (f_idx f =? p_idx p)).
    + destruct f as [a b [] d]; reflexivity.
    + exact IH.
  - replace (f_idx f =? p_idx p) with false.
    + rewrite andb_false_r. exact IH.
    + symmetry. apply N.eqb_neq. apply N.ltb_ge in E. lia.
Qed.

Lemma prune_length : forall M fs, (length (prune M fs) <= length fs)%nat.
Proof.
  intros. unfold prune. rewrite map_length. induction fs; simpl; [lia|].
  destruct (_ <? _); simpl; lia.
Qed.

Lemma sum_timeouts_mono : forall k k' x, (k <= k')%nat -> sum_timeouts k x <= sum_timeouts k' x.
Proof.
  induction k; intros k' x H; simpl; [lia|].
  destruct k'; [lia|]. simpl. specialize (IHk k' (backoff x)). lia.
Qed.

Definition delays_from (a : N) (fs : list fault) : N :=
  fold_left (fun a f => match f_kind f with FDelay => a + f_ms f | _ => a end) fs a.

Lemma delays_from_ge : forall fs a, a <= delays_from a fs.
Proof.
  induction fs as [|f fs IH]; intros a; simpl; [lia|].
  destruct (f_kind f); try apply IH. specialize (IH (a + f_ms f)). unfold delays_from in *. lia.
Qed.

Lemma delays_prune : forall M fs a b, a <= b -> delays_from a (prune M fs) <= delays_from b fs.
Proof.
  intros M. unfold prune. induction fs as [|f fs IH]; intros a b H; simpl; [exact H|].
  destruct (f_idx f <? M); simpl.
  - destruct f as [s i [] d]; simpl; apply IH; lia.
  - destruct (f_kind f); apply IH; lia.
Qed.

Lemma allowed_prune : forall M fs, allowed (prune M fs) <= allowed fs.
Proof.
  intros. unfold allowed.
  pose proof (prune_length M fs) as L.
  pose proof (sum_timeouts_mono _ _ t_init L).
  pose proof (delays_prune M fs 0 0 (N.le_refl 0)). unfold delays_from in *. unfold delays. lia.
Qed.

Lemma good_trace_prune : forall M fs t, good_trace (prune M fs) t = true -> good_trace fs t = true.
Proof.
  intros M fs t. unfold good_trace. pose proof (allowed_prune M fs) as A.
  rewrite !andb_true_iff. intros (((((H1 & H2) & H3) & H4) & H5) & H6).
  repeat split; try assumption.
  - unfold late in *. destruct (done_time Cl t); [|discriminate].
    rewrite negb_true_iff in *. rewrite N.ltb_ge in *. lia.
  - unfold late in *. destruct (done_time Sv t); [|discriminate].
    rewrite negb_true_iff in *. rewrite N.ltb_ge in *. lia.
  - destruct fs; [exact H6|reflexivity].
Qed.

(* ------------------------------------------------------------------ the check that is enumerated *)
Definition chk (M : N) (c : cfg) (fs : list fault) : bool :=
  let '(n, finished) := simulate c fs in
  finished && complete (cl n) && complete (sv n) && good_trace fs (rev (trace n)) &&
  (nsent_c n <=? M) && (nsent_s n <=? M).

Lemma reduce_gen : forall M M' c fs,
  (forall p, p_idx p < M' -> eff fs p = eff (prune M fs) p) ->
  nsent_c (fst (simulate c (prune M fs))) <= M' -> nsent_s (fst (simulate c (prune M fs))) <= M' ->
  good_run c (prune M fs) = true -> good_run c fs = true.
Proof.
  intros M M' c fs He Hc Hs H. unfold good_run in *.
  assert (E : simulate c fs = simulate c (prune M fs)).
  { unfold simulate. apply run_ext with (M := M'); [exact He|apply init_W|exact Hc|exact Hs]. }
  rewrite E. destruct (simulate c (prune M fs)) as [n b].
  rewrite !andb_true_iff in H. rewrite !andb_true_iff.
  destruct H as (((H1 & H2) & H3) & H4). repeat split; try assumption.
  eapply good_trace_prune; eassumption.
Qed.

Lemma chk_good_run : forall M c fs, chk M c fs = true -> good_run c fs = true.
Proof.
  intros M c fs H. unfold chk in H. unfold good_run. destruct (simulate c fs) as [n b].
  rewrite !andb_true_iff in H. rewrite !andb_true_iff. tauto.
Qed.

(* the run of the pruned script sends at most M datagrams per side *)
Theorem reduce : forall M c fs, chk M c (prune M fs) = true -> good_run c fs = true.
Proof.
  intros M c fs H. apply reduce_gen with (M := M) (M' := M).
  - intros p Hp. apply eff_prune. exact Hp.
  - unfold chk in H. destruct (simulate c (prune M fs)) as [n b].
    rewrite !andb_true_iff in H. simpl. apply N.leb_le. tauto.
  - unfold chk in H. destruct (simulate c (prune M fs)) as [n b].
    rewrite !andb_true_iff in H. simpl. apply N.leb_le. tauto.
  - eapply chk_good_run; eassumption.
Qed.

(* nothing was pruned: no bound on the number of datagrams is needed *)
Lemma filter_len_le : forall (A : Type) (f : A -> bool) l, (length (filter f l) <= length l)%nat.
Proof. induction l; simpl; [lia|]. destruct (f a); simpl; lia. Qed.

Lemma filter_length_all : forall (A : Type) (f : A -> bool) l,
  length (filter f l) = length l -> forall x, In x l -> f x = true.
Proof.
  induction l as [|a l IH]; intros H x Hx; [contradiction|].
  simpl in H. pose proof (filter_len_le A f l) as L.
  destruct (f a) eqn:E; simpl in H.
  - destruct Hx as [->|Hx]; [exact E|]. apply IH; [lia|exact Hx].
  - lia.
Qed.

Lemma eff_prune_all : forall M fs p, (forall f, In f fs -> (f_idx f <? M) = true) ->
  eff fs p = eff (prune M fs) p.
Proof.
  intros M fs p. unfold eff, prune. induction fs as [|f fs IH]; intros H; simpl; [reflexivity|].
  rewrite (H f (or_introl eq_refl)). simpl.
  destruct (side_eqb (f_side f) (p_from p) && (f_idx f =? p_idx p)).
  - destruct f as [a b [] d]; reflexivity.
  - apply IH. intros g Hg. apply H. right. exact Hg.
Qed.

Theorem reduce_full : forall M c fs, length (prune M fs) = length fs ->
  good_run c (prune M fs) = true -> good_run c fs = true.
Proof.
  intros M c fs L H.
  apply reduce_gen with (M := M)
    (M' := N.max (nsent_c (fst (simulate c (prune M fs)))) (nsent_s (fst (simulate c (prune M fs))))).
  - intros p _. apply eff_prune_all. apply filter_length_all.
    unfold prune in L. rewrite map_length in L. exact L.
  - lia.
  - lia.
  - exact H.
Qed.

(* the check for scripts of three faults: the bound, or else the plain property (used when
   nothing was pruned) *)
Definition chk3 (c : cfg) (fs : list fault) : bool :=
  if chk 10 c fs then true else good_run c fs.

(* ------------------------------------------------------------------ the pruned script lies in the enumerated space *)
Definition fault_ok (okd : N -> bool) (f : fault) : bool :=
  match f_kind f with FDelay => okd (f_ms f) | _ => true end.
(* the finite space: indexes below 10, normalised, delays accepted by okd *)
Definition space (okd : N -> bool) : list fault :=
  filter (fault_ok okd) (fault_space 10).

Definition fault_eqb (f g : fault) : bool :=
  side_eqb (f_side f) (f_side g) && (f_idx f =? f_idx g) &&
  match f_kind f, f_kind g with FDrop, FDrop | FDup, FDup | FDelay, FDelay => true | _, _ => false end &&
  (f_ms f =? f_ms g).

Lemma fault_eqb_eq : forall f g, fault_eqb f g = true -> f = g.
Proof.
  intros [a b k d] [a' b' k' d']. unfold fault_eqb. simpl. rewrite !andb_true_iff.
  intros (((A & B) & C) & D). apply side_eqb_eq in A. apply N.eqb_eq in B. apply N.eqb_eq in D.
  destruct k, k'; try discriminate; subst; reflexivity.
Qed.

Lemma existsb_fault_In : forall f l, existsb (fault_eqb f) l = true -> In f l.
Proof.
  intros f l H. apply existsb_exists in H. destruct H as (g & Hg & E).
  apply fault_eqb_eq in E. subst. exact Hg.
Qed.

Lemma small_idx : forall i, i < 10 -> In i [0;1;2;3;4;5;6;7;8;9].
Proof.
  intros i H. simpl.
  destruct i as [|p]; [tauto|].
  do 4 (try destruct p as [p|p|]); try lia; tauto.
Qed.

Lemma norm_in_fault_space : forall f,
  f_idx f < 10 -> (f_kind f = FDelay -> In (f_ms f) delay_set) -> In (norm f) (fault_space 10).
Proof.
  intros [s i k d] Hi Hd. simpl in Hi, Hd. apply existsb_fault_In.
  apply small_idx in Hi. unfold In in Hi.
  destruct k.
  - destruct s;
      repeat (destruct Hi as [Hi|Hi]; [subst i; vm_compute; reflexivity|]); contradiction.
  - destruct s;
      repeat (destruct Hi as [Hi|Hi]; [subst i; vm_compute; reflexivity|]); contradiction.
  - specialize (Hd eq_refl). unfold delay_set, In in Hd.
    repeat (destruct Hd as [Hd|Hd]; [subst d; destruct s;
      repeat (destruct Hi as [Hi|Hi]; [subst i; vm_compute; reflexivity|]); contradiction|]).
    contradiction.
Qed.

Lemma prune_in_space : forall okd fs,
  Forall (fun f => match f_kind f with FDelay => In (f_ms f) delay_set /\ okd (f_ms f) = true | _ => True end) fs ->
  Forall (fun f => In f (space okd)) (prune 10 fs).
Proof.
  intros okd fs H. rewrite Forall_forall in *. intros g Hg.
  unfold prune in Hg. apply in_map_iff in Hg. destruct Hg as (f & Eg & Hf).
  apply filter_In in Hf. destruct Hf as (Hf & E). specialize (H f Hf). subst g.
  unfold space. apply filter_In. split.
  - apply norm_in_fault_space.
    + apply N.ltb_lt. exact E.
    + intros K. rewrite K in H. tauto.
  - unfold fault_ok. destruct f as [s i [] d]; try reflexivity. simpl in *. tauto.
Qed.

(* the two spaces that are enumerated *)
Definition FS2 : list fault := space (fun _ => true).
Definition FS3 : list fault := space (fun d => d =? 150).

Lemma FS3_FS2 : forall f, In f FS3 -> In f FS2.
Proof.
  unfold FS3, FS2, space. intros f H. apply filter_In in H. apply filter_In. split; [tauto|].
  unfold fault_ok. destruct (f_kind f); reflexivity.
Qed.
