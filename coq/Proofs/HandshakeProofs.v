(* Proofs about Model/Handshake.v. Statements are fixed; fill in the proofs. *)
From V Require Import Model.Handshake.

(* ------------------------------------------------------------------ client helpers *)
Definition cacc (c : cconf) : bool := match c_st c with C_Done => true | _ => false end.

Lemma c_absorb_done : forall p es c, c_st c = C_Done -> fold_left (cstep p) es c = c.
Proof.
  intros p es; induction es as [|e es IH]; intros c Hc; [reflexivity|].
  cbn [fold_left]. assert (Hs : cstep p c e = c) by (unfold cstep; rewrite Hc; reflexivity).
  rewrite Hs. apply IH; exact Hc.
Qed.

Lemma c_absorb_err : forall p es c, c_st c = C_Err -> fold_left (cstep p) es c = c.
Proof.
  intros p es; induction es as [|e es IH]; intros c Hc; [reflexivity|].
  cbn [fold_left]. assert (Hs : cstep p c e = c) by (unfold cstep; rewrite Hc; reflexivity).
  rewrite Hs. apply IH; exact Hc.
Qed.

Lemma c_err_rejects : forall p es, cacc (fold_left (cstep p) es cerr) = false.
Proof. intros p es. rewrite c_absorb_err; reflexivity. Qed.

(* dead configurations: error, or handshake bytes pending *)
Definition cdead (c : cconf) : bool :=
  match c_st c with C_Done => false | C_Err => true | _ => c_pend c end.

Lemma cdead_step : forall p c e, cdead c = true -> cdead (cstep p c e) = true.
Proof.
  intros p [st r pend] e Hd. unfold cdead in Hd; cbn [c_st c_pend] in Hd.
  destruct st; try discriminate Hd; try reflexivity; subst pend;
    (destruct e as [k ok aux| | | | |]; try reflexivity;
     unfold cstep; cbn [c_st c_retry c_pend expects_ccs];
     destruct (Nat.ltb max_useless (S r)); reflexivity).
Qed.

Lemma cdead_never_done : forall p es c, cdead c = true -> cacc (fold_left (cstep p) es c) = false.
Proof.
  intros p es; induction es as [|e es IH]; intros c Hd.
  - cbn [fold_left]. unfold cdead in Hd. unfold cacc. destruct (c_st c); try reflexivity; discriminate Hd.
  - cbn [fold_left]. apply IH. apply cdead_step; exact Hd.
Qed.

Definition crest (p : cparams) (st : cstate) : list (list item) :=
  match st with
  | C_SH => client_flows p
  | C_Cert =>
      (if cp_ecdhe p then [] else
        [[IHs Certificate false; IHs ServerKeyExchange false; IHs ServerHelloDone false; ICcs; IHs Finished false]]) ++
      [[IHs Certificate false; IHs ServerKeyExchange false; IHs CertificateRequest false;
        IHs ServerHelloDone false; ICcs; IHs Finished false]]
  | C_SKX =>
      (if cp_ecdhe p then [] else
        [[IHs ServerKeyExchange false; IHs ServerHelloDone false; ICcs; IHs Finished false]]) ++
      [[IHs ServerKeyExchange false; IHs CertificateRequest false;
        IHs ServerHelloDone false; ICcs; IHs Finished false]]
  | C_CRorSHD =>
      (if cp_ecdhe p then [] else [[IHs ServerHelloDone false; ICcs; IHs Finished false]]) ++
      [[IHs CertificateRequest false; IHs ServerHelloDone false; ICcs; IHs Finished false]]
  | C_SHD => [[IHs ServerHelloDone false; ICcs; IHs Finished false]]
  | C_CCS _ => [[ICcs; IHs Finished false]]
  | C_Fin _ => [[IHs Finished false]]
  | C_Done => [[]]
  | C_Err => []
  end.

Definition cspec (p : cparams) (b : nat) (st : cstate) (es : list ev) : bool :=
  existsb (fun f => realises aux_matters_c b f es) (crest p st).

Ltac cstep_red :=
  match goal with |- context [fold_left _ _ ?c] =>
    let c' := eval cbv [cstep c_st c_retry c_pend expects_ccs negb andb cp_ecdhe cp_offered] in c in
    change c with c' end.

Lemma c_inv : forall p es c b,
  c_pend c = false -> c_retry c + b = 16 ->
  cacc (fold_left (cstep p) es c) = cspec p b (c_st c) es.
Proof.
  intros p es; induction es as [|e es IH]; intros c b Hpend Hbud.
  - destruct c as [st r pend]; destruct p as [ecdhe offered].
    destruct st, ecdhe, offered; reflexivity.
  - destruct c as [st r pend]. cbn [c_pend c_retry c_st] in *. subst pend.
    cbn [fold_left].
    destruct e as [k ok aux| | | | |].
    + (* EHs *)
      destruct p as [ecdhe offered].
      destruct st as [| | | | |res|res| |], k, ok, aux, ecdhe, offered;
        cstep_red;
        first [ rewrite c_err_rejects; reflexivity
              | rewrite c_absorb_done by reflexivity; reflexivity
              | rewrite c_absorb_err by reflexivity; reflexivity
              | rewrite (IH _ 16) by reflexivity; reflexivity ].
    + (* EFrag *)
      destruct p as [ecdhe offered].
      destruct st as [| | | | |res|res| |];
        cstep_red;
        first [ rewrite c_err_rejects; destruct ecdhe, offered; reflexivity
              | rewrite c_absorb_done by reflexivity; reflexivity
              | rewrite c_absorb_err by reflexivity; reflexivity
              | rewrite cdead_never_done by reflexivity; destruct ecdhe, offered; reflexivity ].
    + (* ECcs *)
      destruct p as [ecdhe offered].
      destruct st as [| | | | |res|res| |];
        cstep_red;
        first [ rewrite c_err_rejects; destruct ecdhe, offered; reflexivity
              | rewrite c_absorb_done by reflexivity; reflexivity
              | rewrite c_absorb_err by reflexivity; reflexivity
              | rewrite (IH _ b) by first [exact Hbud | reflexivity]; reflexivity ].
    + (* EWarn *)
      destruct b as [|b'].
      * assert (Hr : r = 16) by lia. subst r.
        destruct p as [ecdhe offered].
        destruct st as [| | | | |res|res| |];
        cstep_red;
        first [ rewrite c_absorb_done by reflexivity; reflexivity
              | rewrite c_absorb_err by reflexivity; reflexivity
              | change (Nat.ltb max_useless 17) with true; cbv iota;
                rewrite c_err_rejects; destruct ecdhe, offered; reflexivity ].
      * assert (Hlt : Nat.ltb max_useless (S r) = false)
          by (apply Nat.ltb_ge; unfold max_useless; lia).
        assert (Hb' : S r + b' = 16) by lia.
        destruct p as [ecdhe offered].
        destruct st as [| | | | |res|res| |];
        cstep_red;
        first [ rewrite c_absorb_done by reflexivity; reflexivity
              | rewrite c_absorb_err by reflexivity; reflexivity
              | rewrite Hlt; rewrite (IH _ b') by first [exact Hb' | reflexivity]; destruct ecdhe, offered; reflexivity ].
    + (* EApp *)
      destruct p as [ecdhe offered].
      destruct st as [| | | | |res|res| |];
        cstep_red;
        first [ rewrite c_err_rejects; destruct ecdhe, offered; reflexivity
              | rewrite c_absorb_done by reflexivity; reflexivity
              | rewrite c_absorb_err by reflexivity; reflexivity ].
    + (* EEnd *)
      destruct p as [ecdhe offered].
      destruct st as [| | | | |res|res| |];
        cstep_red;
        first [ rewrite c_err_rejects; destruct ecdhe, offered; reflexivity
              | rewrite c_absorb_done by reflexivity; reflexivity
              | rewrite c_absorb_err by reflexivity; reflexivity ].
Qed.


(* ------------------------------------------------------------------ server helpers *)
Definition sacc (c : sconf) : bool := match s_st c with S_Done => true | _ => false end.

Lemma s_absorb_done : forall p es c, s_st c = S_Done -> fold_left (sstep p) es c = c.
Proof.
  intros p es; induction es as [|e es IH]; intros c Hc; [reflexivity|].
  cbn [fold_left]. assert (Hs : sstep p c e = c) by (unfold sstep; rewrite Hc; reflexivity).
  rewrite Hs. apply IH; exact Hc.
Qed.

Lemma s_absorb_err : forall p es c, s_st c = S_Err -> fold_left (sstep p) es c = c.
Proof.
  intros p es; induction es as [|e es IH]; intros c Hc; [reflexivity|].
  cbn [fold_left]. assert (Hs : sstep p c e = c) by (unfold sstep; rewrite Hc; reflexivity).
  rewrite Hs. apply IH; exact Hc.
Qed.

Lemma s_err_rejects : forall p es, sacc (fold_left (sstep p) es serr) = false.
Proof. intros p es. rewrite s_absorb_err; reflexivity. Qed.

Definition sdead (c : sconf) : bool :=
  match s_st c with S_Done => false | S_Err => true | _ => s_pend c end.

Lemma sdead_step : forall p c e, sdead c = true -> sdead (sstep p c e) = true.
Proof.
  intros p [st r pend] e Hd. unfold sdead in Hd; cbn [s_st s_pend] in Hd.
  destruct st; try discriminate Hd; try reflexivity; subst pend;
    (destruct e as [k ok aux| | | | |]; try reflexivity;
     unfold sstep; cbn [s_st s_retry s_pend s_expects_ccs];
     destruct (Nat.ltb max_useless (S r)); reflexivity).
Qed.

Lemma sdead_never_done : forall p es c, sdead c = true -> sacc (fold_left (sstep p) es c) = false.
Proof.
  intros p es; induction es as [|e es IH]; intros c Hd.
  - cbn [fold_left]. unfold sdead in Hd. unfold sacc. destruct (s_st c); try reflexivity; discriminate Hd.
  - cbn [fold_left]. apply IH. apply sdead_step; exact Hd.
Qed.

Definition srest (p : sparams) (st : sstate) : list (list item) :=
  match st with
  | S_CH => server_flows p
  | S_Cert =>
      [[IHs Certificate true; IHs ClientKeyExchange false; IHs CertificateVerify false; ICcs; IHs Finished false];
       [IHs Certificate false; IHs ClientKeyExchange false; ICcs; IHs Finished false]]
  | S_CKX true => [[IHs ClientKeyExchange false; IHs CertificateVerify false; ICcs; IHs Finished false]]
  | S_CKX false => [[IHs ClientKeyExchange false; ICcs; IHs Finished false]]
  | S_CV => [[IHs CertificateVerify false; ICcs; IHs Finished false]]
  | S_CCS _ => [[ICcs; IHs Finished false]]
  | S_Fin _ => [[IHs Finished false]]
  | S_Done => [[]]
  | S_Err => []
  end.

Definition sspec (p : sparams) (b : nat) (st : sstate) (es : list ev) : bool :=
  existsb (fun f => realises aux_matters_s b f es) (srest p st).

Ltac sstep_red :=
  match goal with |- context [fold_left _ _ ?c] =>
    let c' := eval cbv [sstep s_st s_retry s_pend s_expects_ccs negb andb sp_certreq] in c in
    change c with c' end.

Lemma s_inv : forall p es c b,
  s_pend c = false -> s_retry c + b = 16 ->
  sacc (fold_left (sstep p) es c) = sspec p b (s_st c) es.
Proof.
  intros p es; induction es as [|e es IH]; intros c b Hpend Hbud.
  - destruct c as [st r pend]; destruct p as [certreq].
    destruct st as [| |[|]| |res|res| |], certreq; reflexivity.
  - destruct c as [st r pend]. cbn [s_pend s_retry s_st] in *. subst pend.
    cbn [fold_left].
    destruct e as [k ok aux| | | | |].
    + (* EHs *)
      destruct p as [certreq].
      destruct st as [| |[|]| |res|res| |], k, ok, aux, certreq;
        sstep_red;
        first [ rewrite s_err_rejects; reflexivity
              | rewrite s_absorb_done by reflexivity; reflexivity
              | rewrite s_absorb_err by reflexivity; reflexivity
              | rewrite (IH _ 16) by reflexivity; reflexivity ].
    + (* EFrag *)
      destruct p as [certreq].
      destruct st as [| |[|]| |res|res| |];
        sstep_red;
        first [ rewrite s_err_rejects; destruct certreq; reflexivity
              | rewrite s_absorb_done by reflexivity; reflexivity
              | rewrite s_absorb_err by reflexivity; reflexivity
              | rewrite sdead_never_done by reflexivity; destruct certreq; reflexivity ].
    + (* ECcs *)
      destruct p as [certreq].
      destruct st as [| |[|]| |res|res| |];
        sstep_red;
        first [ rewrite s_err_rejects; destruct certreq; reflexivity
              | rewrite s_absorb_done by reflexivity; reflexivity
              | rewrite s_absorb_err by reflexivity; reflexivity
              | rewrite (IH _ b) by first [exact Hbud | reflexivity]; reflexivity ].
    + (* EWarn *)
      destruct b as [|b'].
      * assert (Hr : r = 16) by lia. subst r.
        destruct p as [certreq].
        destruct st as [| |[|]| |res|res| |];
        sstep_red;
        first [ rewrite s_absorb_done by reflexivity; reflexivity
              | rewrite s_absorb_err by reflexivity; reflexivity
              | change (Nat.ltb max_useless 17) with true; cbv iota;
                rewrite s_err_rejects; destruct certreq; reflexivity ].
      * assert (Hlt : Nat.ltb max_useless (S r) = false)
          by (apply Nat.ltb_ge; unfold max_useless; lia).
        assert (Hb' : S r + b' = 16) by lia.
        destruct p as [certreq].
        destruct st as [| |[|]| |res|res| |];
        sstep_red;
        first [ rewrite s_absorb_done by reflexivity; reflexivity
              | rewrite s_absorb_err by reflexivity; reflexivity
              | rewrite Hlt; rewrite (IH _ b') by first [exact Hb' | reflexivity];
                destruct certreq; reflexivity ].
    + (* EApp *)
      destruct p as [certreq].
      destruct st as [| |[|]| |res|res| |];
        sstep_red;
        first [ rewrite s_err_rejects; destruct certreq; reflexivity
              | rewrite s_absorb_done by reflexivity; reflexivity
              | rewrite s_absorb_err by reflexivity; reflexivity ].
    + (* EEnd *)
      destruct p as [certreq].
      destruct st as [| |[|]| |res|res| |];
        sstep_red;
        first [ rewrite s_err_rejects; destruct certreq; reflexivity
              | rewrite s_absorb_done by reflexivity; reflexivity
              | rewrite s_absorb_err by reflexivity; reflexivity ].
Qed.

(* T1/T2: for every sequence of records of any length, the endpoint completes exactly on the
   standard's language *)
Theorem client_language : forall p es, caccepts p es = clegal p es.
Proof.
  intros p es. exact (c_inv p es (mkCC C_SH 0 false) 16 eq_refl eq_refl).
Qed.

Theorem server_language : forall p es, saccepts p es = slegal p es.
Proof.
  intros p es. exact (s_inv p es (mkSC S_CH 0 false) 16 eq_refl eq_refl).
Qed.

(* corollaries used by the property text *)
(* completion implies every message the flow needs was received with valid contents, in order:
   the subsequence of handshake/CCS events before completion is one of the legal flows *)
Definition items_of (es : list ev) : list item :=
  flat_map (fun e => match e with EHs k _ aux => [IHs k aux] | ECcs => [ICcs] | _ => [] end) es.

Definition strip_c (it : item) : item :=
  match it with IHs k aux => IHs k (if aux_matters_c k then aux else false) | ICcs => ICcs end.
Definition strip_s (it : item) : item :=
  match it with IHs k aux => IHs k (if aux_matters_s k then aux else false) | ICcs => ICcs end.

(* ------------------------------------------------------------------ realises => consumed prefix *)
Definition strip (am : hs_kind -> bool) (it : item) : item :=
  match it with IHs k aux => IHs k (if am k then aux else false) | ICcs => ICcs end.

Definition ev_fine (e : ev) : Prop :=
  match e with EHs _ ok _ => ok = true | ECcs => True | EWarn => True | _ => False end.

Lemma hs_eqb_eq : forall a b, hs_eqb a b = true -> a = b.
Proof. intros a b H; destruct a, b; first [reflexivity | discriminate H]. Qed.

Lemma realises_prefix : forall am es b f,
  realises am b f es = true ->
  exists pre post, es = pre ++ post /\
    map (strip am) (items_of pre) = map (strip am) f /\
    Forall ev_fine pre.
Proof.
  intros am es; induction es as [|e es IH]; intros b f Hr.
  - destruct f as [|it f]; [|discriminate Hr].
    exists [], []. repeat split; constructor.
  - destruct f as [|it f].
    + exists [], (e :: es). repeat split; constructor.
    + cbn [realises] in Hr.
      destruct e as [k ok aux| | | | |]; try discriminate Hr.
      * (* EHs *)
        destruct it as [k' aux'|]; [|discriminate Hr].
        apply andb_true_iff in Hr. destruct Hr as [Hr Hrest].
        apply andb_true_iff in Hr. destruct Hr as [Hr Haux].
        apply andb_true_iff in Hr. destruct Hr as [Hk Hok].
        apply hs_eqb_eq in Hk. subst k'. subst ok.
        destruct (IH _ _ Hrest) as [pre [post [Hes [Hmap Hfine]]]].
        exists (EHs k true aux :: pre), post. split; [|split].
        -- rewrite Hes; reflexivity.
        -- cbn [items_of flat_map app map]. fold (items_of pre). rewrite Hmap.
           f_equal. cbn [strip].
           destruct (am k); cbn [negb orb] in Haux; [|reflexivity].
           apply eqb_prop in Haux. rewrite Haux; reflexivity.
        -- constructor; [reflexivity | exact Hfine].
      * (* ECcs *)
        destruct it as [k' aux'|]; [discriminate Hr|].
        destruct (IH _ _ Hr) as [pre [post [Hes [Hmap Hfine]]]].
        exists (ECcs :: pre), post. split; [|split].
        -- rewrite Hes; reflexivity.
        -- cbn [items_of flat_map app map]. fold (items_of pre). rewrite Hmap. reflexivity.
        -- constructor; [exact I | exact Hfine].
      * (* EWarn *)
        destruct b as [|b']; [discriminate Hr|].
        destruct (IH _ _ Hr) as [pre [post [Hes [Hmap Hfine]]]].
        exists (EWarn :: pre), post. split; [|split].
        -- rewrite Hes; reflexivity.
        -- cbn [items_of flat_map app]. fold (items_of pre). exact Hmap.
        -- constructor; [exact I | exact Hfine].
Qed.

Lemma client_flows_stripped : forall p f, In f (client_flows p) -> map strip_c f = f.
Proof.
  intros [ecdhe offered] f Hin.
  destruct ecdhe, offered; cbn in Hin;
    repeat (destruct Hin as [Hin|Hin]; [subst f; reflexivity|]); contradiction.
Qed.

Lemma server_flows_stripped : forall p f, In f (server_flows p) -> map strip_s f = f.
Proof.
  intros [certreq] f Hin.
  destruct certreq; cbn in Hin;
    repeat (destruct Hin as [Hin|Hin]; [subst f; reflexivity|]); contradiction.
Qed.

Theorem client_complete_prefix_is_flow : forall p es,
  caccepts p es = true ->
  exists pre post f, es = pre ++ post /\ In f (client_flows p) /\
    map strip_c (items_of pre) = f /\
    Forall (fun e => match e with EHs _ ok _ => ok = true | ECcs => True | EWarn => True | _ => False end) pre.
Proof.
  intros p es Hacc. rewrite client_language in Hacc. unfold clegal in Hacc.
  apply existsb_exists in Hacc. destruct Hacc as [f [Hin Hr]].
  destruct (realises_prefix _ _ _ _ Hr) as [pre [post [Hes [Hmap Hfine]]]].
  exists pre, post, f. split; [exact Hes|]. split; [exact Hin|]. split; [|exact Hfine].
  change strip_c with (strip aux_matters_c). rewrite Hmap.
  change (strip aux_matters_c) with strip_c. apply client_flows_stripped with (p := p); exact Hin.
Qed.

Theorem server_complete_prefix_is_flow : forall p es,
  saccepts p es = true ->
  exists pre post f, es = pre ++ post /\ In f (server_flows p) /\
    map strip_s (items_of pre) = f /\
    Forall (fun e => match e with EHs _ ok _ => ok = true | ECcs => True | EWarn => True | _ => False end) pre.
Proof.
  intros p es Hacc. rewrite server_language in Hacc. unfold slegal in Hacc.
  apply existsb_exists in Hacc. destruct Hacc as [f [Hin Hr]].
  destruct (realises_prefix _ _ _ _ Hr) as [pre [post [Hes [Hmap Hfine]]]].
  exists pre, post, f. split; [exact Hes|]. split; [exact Hin|]. split; [|exact Hfine].
  change strip_s with (strip aux_matters_s). rewrite Hmap.
  change (strip aux_matters_s) with strip_s. apply server_flows_stripped with (p := p); exact Hin.
Qed.

(* application data is never accepted before completion *)
Theorem client_no_early_appdata : forall p pre post,
  caccepts p pre = false -> caccepts p (pre ++ EApp :: post) = false.
Proof.
  intros p pre post Hrej. unfold caccepts, crun in *.
  rewrite fold_left_app. cbn [fold_left].
  set (c := fold_left (cstep p) pre (mkCC C_SH 0 false)) in *.
  change (cacc (fold_left (cstep p) post (cstep p c EApp)) = false).
  apply cdead_never_done.
  destruct c as [st r pend]; cbn [c_st] in Hrej.
  destruct st; first [discriminate Hrej | reflexivity].
Qed.

Theorem server_no_early_appdata : forall p pre post,
  saccepts p pre = false -> saccepts p (pre ++ EApp :: post) = false.
Proof.
  intros p pre post Hrej. unfold saccepts, srun in *.
  rewrite fold_left_app. cbn [fold_left].
  set (c := fold_left (sstep p) pre (mkSC S_CH 0 false)) in *.
  change (sacc (fold_left (sstep p) post (sstep p c EApp)) = false).
  apply sdead_never_done.
  destruct c as [st r pend]; cbn [s_st] in Hrej.
  destruct st; first [discriminate Hrej | reflexivity].
Qed.

(* an error state is never left *)
Theorem client_error_is_final : forall p pre post,
  c_st (crun p pre) = C_Err -> caccepts p (pre ++ post) = false.
Proof.
  intros p pre post Herr. unfold caccepts, crun in *.
  rewrite fold_left_app. rewrite c_absorb_err by exact Herr. rewrite Herr. reflexivity.
Qed.

Theorem server_error_is_final : forall p pre post,
  s_st (srun p pre) = S_Err -> saccepts p (pre ++ post) = false.
Proof.
  intros p pre post Herr. unfold saccepts, srun in *.
  rewrite fold_left_app. rewrite s_absorb_err by exact Herr. rewrite Herr. reflexivity.
Qed.

Print Assumptions client_language.
Print Assumptions server_language.
Print Assumptions client_complete_prefix_is_flow.
Print Assumptions server_complete_prefix_is_flow.
Print Assumptions client_no_early_appdata.
Print Assumptions server_no_early_appdata.
Print Assumptions client_error_is_final.
Print Assumptions server_error_is_final.
