(* Proofs about Model/DSim.v *)
From V Require Import Model.DSim.
From Coq Require Import Lia.
From V Require Import Proofs.DSimBase Proofs.DSimSched Proofs.DSimReduce Proofs.DSimK2
  Proofs.DSimK3_0 Proofs.DSimK3_1 Proofs.DSimK3_2 Proofs.DSimK3_3
  Proofs.DSimK3_4 Proofs.DSimK3_5 Proofs.DSimK3_6 Proofs.DSimK3_7
  Proofs.DSimEarly Proofs.DSimFin.

(* ------------------------------------------------------------------ liveness by complete enumeration *)
(* a fault pattern the theorems range over: any datagram of either side (ANY index), lost,
   duplicated, or delayed by one of the listed amounts *)
Definition in_space (f : fault) : Prop :=
  match f_kind f with FDelay => In (f_ms f) delay_set | _ => True end.
Definition in_space3 (f : fault) : Prop :=
  match f_kind f with FDelay => f_ms f = 150 | _ => True end.

Theorem fault_free : forall c, good_run c [] = true.
Proof.
  intros c. apply chk_good_run with (M := 10).
  apply k2; [simpl; lia|constructor].
Qed.

Theorem survives_two_faults : forall c fs,
  (length fs <= 2)%nat -> Forall in_space fs -> good_run c fs = true.
Proof.
  intros c fs L H. apply reduce with (M := 10). apply k2.
  - pose proof (prune_length 10 fs). lia.
  - apply prune_in_space. eapply Forall_impl; [|exact H].
    intros f Hf. unfold in_space in Hf. destruct (f_kind f); auto.
Qed.

(* every script of exactly three faults over FS3, every configuration *)
Lemma k3 : forall c f g h, In f FS3 -> In g FS3 -> In h FS3 -> chk3 c [f; g; h] = true.
Proof.
  intros c f g h Hf Hg Hh.
  assert (K : forallb (fun f => forallb (fun g => forallb (fun h => chk3 c [f; g; h]) FS3) FS3) FS3 = true).
  { destruct c as [[] [] []];
      [exact k3_7|exact k3_6|exact k3_5|exact k3_4|exact k3_3|exact k3_2|exact k3_1|exact k3_0]. }
  rewrite forallb_forall in K. specialize (K f Hf).
  rewrite forallb_forall in K. specialize (K g Hg).
  rewrite forallb_forall in K. exact (K h Hh).
Qed.

Theorem survives_three_faults : forall c fs,
  (length fs <= 3)%nat -> Forall in_space3 fs -> good_run c fs = true.
Proof.
  intros c fs L H.
  assert (S3 : Forall (fun f => In f FS3) (prune 10 fs)).
  { apply prune_in_space. eapply Forall_impl; [|exact H].
    intros f Hf. unfold in_space3 in Hf. destruct (f_kind f); auto.
    rewrite Hf. split; [simpl; tauto|reflexivity]. }
  pose proof (prune_length 10 fs) as PL.
  destruct (prune 10 fs) as [|f [|g [|h [|k t]]]] eqn:E.
  1-3: apply reduce with (M := 10); rewrite E; apply k2; [simpl; lia|];
       eapply Forall_impl; [|exact S3]; apply FS3_FS2.
  - (* exactly three faults, nothing was pruned *)
    inversion S3 as [|? ? Hf S3']; subst. inversion S3' as [|? ? Hg S3'']; subst.
    inversion S3'' as [|? ? Hh _]; subst.
    pose proof (k3 c f g h Hf Hg Hh) as K. unfold chk3 in K.
    destruct (chk 10 c [f; g; h]) eqn:C.
    + apply reduce with (M := 10). rewrite E. exact C.
    + apply reduce_full with (M := 10); rewrite E; [simpl in *; lia|exact K].
  - simpl in PL. lia.
Qed.

(* ------------------------------------------------------------------ safety, for every script and every number of steps *)
Theorem no_early_data : forall fuel c fs,
  got_before_done false false (rev (trace (fst (run fuel c fs init)))) = false.
Proof. intros. apply (NE_invariant fuel c fs). Qed.

Theorem done_only_after_peer_finished : forall fuel c fs s,
  done_after_fin s [] false (rev (trace (fst (run fuel c fs init)))) = true.
Proof. intros. apply (DF_invariant s fuel c fs). Qed.

Theorem timeouts_follow_schedule : forall fuel c fs,
  let n := fst (run fuel c fs init) in In (cur (cl n)) schedule /\ In (cur (sv n)) schedule.
Proof. intros. apply (sched_invariant fuel c fs). Qed.

Print Assumptions fault_free.
Print Assumptions survives_two_faults.
Print Assumptions survives_three_faults.
Print Assumptions no_early_data.
Print Assumptions done_only_after_peer_finished.
Print Assumptions timeouts_follow_schedule.
