(* C12: the bound on consecutive non-advancing records and the alert codes of Model/ConnApi *)
From Coq Require Import ZArith List.
From V Require Import Model.GenConsts Model.ConnApi.
Open Scope Z_scope.
Definition tie : Prop :=
  Z.of_nat ConnApi.max_useless = GenConsts.T.maxUselessRecords /\
  Z.of_nat ConnApi.max_useless = GenConsts.D.maxUselessRecords /\
  GenConsts.T.alertUnexpectedMessage = 10 /\ GenConsts.D.alertUnexpectedMessage = 10 /\
  GenConsts.T.alertCloseNotify = 0 /\ GenConsts.D.alertCloseNotify = 0 /\
  GenConsts.T.alertNoRenegotiation = 100 /\ GenConsts.D.alertNoRenegotiation = 100.
Lemma tie_holds : tie.
Proof. unfold tie. vm_compute. repeat split. Qed.
