(* Proofs about Model/Mitm.v: whatever the adversary delivers, two completed endpoints hold
   mirrored transcripts (C03). *)
From V Require Import Model.Mitm.
From Coq Require Import ZArith Lia.

Local Open Scope nat_scope.

(* ------------------------------------------------------------------ bytes *)
Lemma bytes_eqb_eq : forall a b, bytes_eqb a b = true <-> a = b.
Proof.
  induction a as [|x a IH]; destruct b as [|y b]; cbn; split; intro H; try reflexivity; try discriminate.
  - apply andb_true_iff in H as [H1 H2]. apply N.eqb_eq in H1. apply IH in H2. congruence.
  - inversion H; subst. rewrite N.eqb_refl. cbn. apply IH. reflexivity.
Qed.

(* ------------------------------------------------------------------ framing *)
Lemma framedb_spec : forall hl m, framedb hl m = true ->
  exists n, body_len m = Some n /\ length m = hl + N.to_nat n /\ 4 <= hl.
Proof.
  intros hl m H. unfold framedb in H. destruct (body_len m) as [n|] eqn:E; [|discriminate].
  apply andb_true_iff in H as [H1 H2]. apply N.eqb_eq in H1. apply Nat.leb_le in H2.
  exists n. repeat split; auto. lia.
Qed.

Lemma body_len_app : forall m r n, body_len m = Some n -> body_len (m ++ r) = Some n.
Proof.
  intros m r n H. destruct m as [|t [|a [|b [|c m']]]]; cbn in H; try discriminate. exact H.
Qed.

Lemma framed_nonempty : forall hl m, framedb hl m = true -> 4 <= length m.
Proof. intros hl m H. apply framedb_spec in H as (n & _ & L & Hh). lia. Qed.

Lemma framed_prefix_eq : forall hl m1 m2 r1 r2,
  framedb hl m1 = true -> framedb hl m2 = true -> m1 ++ r1 = m2 ++ r2 -> m1 = m2 /\ r1 = r2.
Proof.
  intros hl m1 m2 r1 r2 F1 F2 E.
  apply framedb_spec in F1 as (n1 & B1 & L1 & _). apply framedb_spec in F2 as (n2 & B2 & L2 & _).
  pose proof (body_len_app _ r1 _ B1) as A1. pose proof (body_len_app _ r2 _ B2) as A2.
  rewrite E in A1. rewrite A1 in A2. inversion A2; subst n2.
  assert (L : length m1 = length m2) by lia.
  assert (Hm : m1 = m2).
  { pose proof (f_equal (firstn (length m1)) E) as E1.
    rewrite firstn_app, Nat.sub_diag, firstn_all in E1. cbn in E1. rewrite app_nil_r in E1.
    rewrite E1, L. rewrite firstn_app, Nat.sub_diag, firstn_all. cbn. apply app_nil_r. }
  subst m2. split; [reflexivity|]. eapply app_inv_head; exact E.
Qed.

Lemma concat_framed_inj : forall hl l1 l2,
  Forall (fun m => framedb hl m = true) l1 -> Forall (fun m => framedb hl m = true) l2 ->
  concat l1 = concat l2 -> l1 = l2.
Proof.
  intros hl l1. induction l1 as [|m1 l1 IH]; intros l2 F1 F2 E.
  - destruct l2 as [|m2 l2]; [reflexivity|]. cbn in E. inversion F2; subst.
    apply framed_nonempty in H1. destruct m2; cbn in *; [lia|discriminate].
  - destruct l2 as [|m2 l2].
    + cbn in E. inversion F1; subst. apply framed_nonempty in H1. destruct m1; cbn in *; [lia|discriminate].
    + inversion F1; subst. inversion F2; subst. cbn in E.
      destruct (framed_prefix_eq hl m1 m2 _ _ H1 H3 E) as [-> E']. f_equal. apply IH; auto.
Qed.

(* popped messages are framed with a 4-byte header *)
Lemma pop_framed : forall hand m rest, pop hand = PMsg m rest -> framedb 4 m = true /\ hand = m ++ rest.
Proof.
  intros hand m rest H. unfold pop in H. destruct (body_len hand) as [n|] eqn:B; [|discriminate].
  remember (N.to_nat (4 + n)) as k eqn:Hk.
  destruct (max_handshake <? n)%N eqn:E1; [discriminate|].
  destruct (N.of_nat (length hand) <? 4 + n)%N eqn:E2; [discriminate|].
  injection H as Hm Hr. subst m rest. apply N.ltb_ge in E2.
  split; [|symmetry; apply firstn_skipn].
  unfold framedb.
  assert (Bf : body_len (firstn k hand) = Some n).
  { destruct hand as [|t [|a [|b [|c h']]]]; cbn in B; try discriminate.
    assert (exists j, k = S (S (S (S j)))) as [j ->] by (exists (N.to_nat n); lia).
    cbn. exact B. }
  rewrite Bf. rewrite firstn_length. apply andb_true_iff. split; [|reflexivity].
  apply N.eqb_eq. lia.
Qed.

Lemma pop_shorter : forall hand m rest, pop hand = PMsg m rest -> length rest < length hand.
Proof.
  intros hand m rest H. destruct (pop_framed _ _ _ H) as [F E]. apply framed_nonempty in F.
  subst hand. rewrite app_length. lia.
Qed.

(* ------------------------------------------------------------------ logs *)
Lemma msgs_of_app : forall a b, msgs_of (a ++ b) = msgs_of a ++ msgs_of b.
Proof. induction a as [|[d [m|]] a IH]; intros b; cbn; rewrite ?IH; reflexivity. Qed.
Lemma msgs_of_outs : forall ms, msgs_of (outs ms) = ms.
Proof. unfold outs. induction ms as [|m ms IH]; [reflexivity|]. cbn. f_equal. exact IH. Qed.
Lemma msgs_of_ins : forall ms, msgs_of (ins ms) = ms.
Proof. unfold ins. induction ms as [|m ms IH]; [reflexivity|]. cbn. f_equal. exact IH. Qed.
Lemma mirror_app : forall a b, mirror (a ++ b) = mirror a ++ mirror b.
Proof. intros; unfold mirror; apply map_app. Qed.
Lemma mirror_outs : forall ms, mirror (outs ms) = ins ms.
Proof. unfold mirror, outs, ins. induction ms as [|m ms IH]; [reflexivity|]. cbn. f_equal. exact IH. Qed.
Lemma mirror_ins : forall ms, mirror (ins ms) = outs ms.
Proof. unfold mirror, outs, ins. induction ms as [|m ms IH]; [reflexivity|]. cbn. f_equal. exact IH. Qed.
Lemma mirror_involutive : forall l, mirror (mirror l) = l.
Proof. unfold mirror. induction l as [|[[|] it] l IH]; [reflexivity| |]; cbn; f_equal; exact IH. Qed.
Lemma msgs_of_mirror : forall l, msgs_of (mirror l) = msgs_of l.
Proof. unfold mirror. induction l as [|[d [m|]] l IH]; [reflexivity| |]; cbn; [f_equal|]; exact IH. Qed.
Lemma items_dir_mirror : forall d l, items_dir d (mirror l) = items_dir (flip d) l.
Proof. unfold mirror. induction l as [|[[|] it] l IH]; destruct d; cbn; try reflexivity; try (f_equal; exact IH); exact IH. Qed.
Lemma ins_app : forall a b, ins (a ++ b) = ins a ++ ins b.
Proof. intros; unfold ins; apply map_app. Qed.
Lemma outs_app : forall a b, outs (a ++ b) = outs a ++ outs b.
Proof. intros; unfold outs; apply map_app. Qed.

(* a list that ends with its only element of type 14 is determined by any list it prefixes *)
Lemma shape14_split : forall f g r1 r2, shape14 f -> shape14 g -> f ++ r1 = g ++ r2 -> f = g /\ r1 = r2.
Proof.
  intros f g r1 r2 (p1 & d1 & -> & T1 & N1 & _) (p2 & d2 & -> & T2 & N2 & _).
  revert p2 N2. induction p1 as [|x p1 IH]; intros p2 N2 E.
  - destruct p2 as [|y p2].
    + cbn in E. inversion E; subst. auto.
    + cbn in E. inversion E; subst. inversion N2; subst. contradiction.
  - destruct p2 as [|y p2].
    + cbn in E. inversion E; subst. inversion N1; subst. contradiction.
    + cbn in E. inversion E; subst. inversion N1; subst. inversion N2; subst.
      destruct (IH H3 p2 H5 H1) as [Ef Er]. split; [|exact Er]. cbn. f_equal. exact Ef.
Qed.

(* ------------------------------------------------------------------ client invariant *)
Definition item_framed (hl : nat) (it : witem) : Prop :=
  match it with WMsg m => framedb hl m = true | WCcs => True end.

Section ClientInv.
Variable hl : nat.
Variable K : crypto.
Variable P : cside.
Variable hello : msg.

Let fr (m : msg) : Prop := framedb hl m = true.

Definition c_T1 (f1 : list msg) : list msg := (hello :: f1) ++ cs_flight P (hello :: f1).
Definition c_vc (f1 : list msg) : bytes := fin_value K (cs_master P (c_T1 f1)) true (c_T1 f1).
Definition c_full_log (f1 : list msg) : log :=
  (((Out, WMsg hello) :: ins f1) ++ outs (cs_flight P (hello :: f1))) ++
  [(Out, WCcs); (Out, WMsg (k_fin_mk K (c_vc f1)))].

Lemma msgs_of_hello_ins : forall f1, msgs_of ((Out, WMsg hello) :: ins f1) = hello :: f1.
Proof. intros. cbn. rewrite msgs_of_ins. reflexivity. Qed.

Lemma msgs_of_c_full_log : forall f1, msgs_of (c_full_log f1) = c_T1 f1 ++ [k_fin_mk K (c_vc f1)].
Proof.
  intros. unfold c_full_log. rewrite !msgs_of_app, msgs_of_hello_ins, msgs_of_outs. reflexivity.
Qed.

Definition c_pre (c : chs) (f1 : list msg) (tys : list N) : Prop :=
  ch_log c = (Out, WMsg hello) :: ins f1 /\ map mtype f1 = tys /\ Forall fr f1 /\
  ch_res c = false /\ ch_fin_out c = None /\ ch_fin_in c = None.

Definition full_types (f1 : list msg) : Prop :=
  map mtype f1 = [2; 11; 12; 14]%N \/ map mtype f1 = [2; 11; 12; 13; 14]%N.

Definition c_sent_inv (c : chs) (f1 : list msg) (tail : log) : Prop :=
  full_types f1 /\ Forall fr f1 /\ ch_log c = c_full_log f1 ++ tail /\
  ch_res c = false /\ ch_fin_out c = Some (c_vc f1) /\ ch_fin_in c = None.

Definition c_res_inv (c : chs) (sh : msg) (tail : log) : Prop :=
  ch_log c = [(Out, WMsg hello); (In, WMsg sh)] ++ tail /\ mtype sh = 2%N /\ fr sh /\
  ch_res c = true /\ ch_fin_out c = None /\ ch_fin_in c = None.

Definition c_done_inv (c : chs) : Prop :=
  if ch_res c then
    exists sh mf,
      let T0 := [hello; sh] in let vs := fin_value K (cs_master P T0) false T0 in
      let T1 := [hello; sh; mf] in let vc := fin_value K (cs_master P T1) true T1 in
      ch_log c = [(Out, WMsg hello); (In, WMsg sh); (In, WCcs); (In, WMsg mf); (Out, WCcs); (Out, WMsg (k_fin_mk K vc))] /\
      mtype sh = 2%N /\ fr sh /\ fr mf /\ mtype mf = 20%N /\ k_fin_parse K mf = Some vs /\
      ch_fin_in c = Some vs /\ ch_fin_out c = Some vc
  else
    exists f1 mf,
      let T2 := c_T1 f1 ++ [k_fin_mk K (c_vc f1)] in let vs := fin_value K (cs_master P T2) false T2 in
      full_types f1 /\ Forall fr f1 /\ ch_log c = c_full_log f1 ++ [(In, WCcs); (In, WMsg mf)] /\
      fr mf /\ mtype mf = 20%N /\ k_fin_parse K mf = Some vs /\
      ch_fin_in c = Some vs /\ ch_fin_out c = Some (c_vc f1).

Definition cinv (c : chs) : Prop :=
  match ch_st c with
  | C_SH => c_pre c [] []
  | C_Cert => exists f1, c_pre c f1 [2%N]
  | C_SKX => exists f1, c_pre c f1 [2; 11]%N
  | C_CRorSHD => exists f1, c_pre c f1 [2; 11; 12]%N
  | C_SHD => exists f1, c_pre c f1 [2; 11; 12; 13]%N
  | C_CCS false => exists f1, c_sent_inv c f1 []
  | C_Fin false => exists f1, c_sent_inv c f1 [(In, WCcs)]
  | C_CCS true => exists sh, c_res_inv c sh []
  | C_Fin true => exists sh, c_res_inv c sh [(In, WCcs)]
  | C_Done => c_done_inv c
  | C_Err => True
  end.

Lemma cinv_init : cinv (chs_init hello).
Proof. cbn. unfold c_pre. cbn. repeat split; auto. Qed.

Lemma c_pre_take : forall c f1 tys st m,
  c_pre c f1 tys -> fr m ->
  c_pre (c_take c st m) (f1 ++ [m]) (tys ++ [mtype m]).
Proof.
  intros c f1 tys st m (L & T & F & R & O & I) Fm. unfold c_pre, c_take. cbn.
  rewrite L, ins_app, map_app, T. cbn. repeat split; auto. apply Forall_app. split; auto.
Qed.

Lemma c_pre_after_shd : forall c f1 tys m,
  c_pre c f1 tys -> fr m -> full_types (f1 ++ [m]) ->
  c_sent_inv (c_after_shd K P c m) (f1 ++ [m]) [].
Proof.
  intros c f1 tys m (L & T & F & R & O & I) Fm FT. unfold c_sent_inv, c_after_shd, c_send_fin. cbn.
  rewrite L. rewrite app_nil_r.
  assert (E : ((Out, WMsg hello) :: ins f1) ++ [(In, WMsg m)] = (Out, WMsg hello) :: ins (f1 ++ [m])).
  { rewrite ins_app. reflexivity. }
  rewrite !E. rewrite !msgs_of_app, !msgs_of_hello_ins, !msgs_of_outs.
  repeat split; auto. apply Forall_app; split; auto.
Qed.

Lemma cinv_step : forall c it, cinv c -> item_framed hl it -> cinv (chs_step K P c it).
Proof.
  intros c it Hinv Hit. unfold chs_step.
  destruct (ch_st c) eqn:St; unfold cinv in Hinv; rewrite St in Hinv.
  - (* C_SH *)
    destruct it as [m|]; [|exact I].
    destruct (N.eqb (mtype m) 2) eqn:Ty; cbn [andb]; [|exact I].
    destruct (cs_sh_ok P _ m); [|exact I]. apply N.eqb_eq in Ty.
    destruct (cs_resumes P _ m).
    + unfold cinv. cbn. exists m. destruct Hinv as (L & _ & _ & _ & _ & _).
      unfold c_res_inv. cbn. rewrite L. repeat split; auto.
    + unfold cinv. cbn. exists ([] ++ [m]). replace [2%N] with ([] ++ [mtype m]) by (rewrite Ty; reflexivity).
      apply c_pre_take; auto.
  - (* C_Cert *)
    destruct it as [m|]; [|exact I].
    destruct (N.eqb (mtype m) 11) eqn:Ty; cbn [andb]; [|exact I].
    destruct (cs_check P _ m); [|exact I]. apply N.eqb_eq in Ty. destruct Hinv as [f1 Hp].
    unfold cinv. cbn. exists (f1 ++ [m]). replace [2; 11]%N with ([2%N] ++ [mtype m]) by (rewrite Ty; reflexivity).
    apply c_pre_take; auto.
  - (* C_SKX *)
    destruct it as [m|]; [|exact I].
    destruct (N.eqb (mtype m) 12) eqn:Ty; cbn [andb]; [|exact I].
    destruct (cs_check P _ m); [|exact I]. apply N.eqb_eq in Ty. destruct Hinv as [f1 Hp].
    unfold cinv. cbn. exists (f1 ++ [m]). replace [2; 11; 12]%N with ([2; 11]%N ++ [mtype m]) by (rewrite Ty; reflexivity).
    apply c_pre_take; auto.
  - (* C_CRorSHD *)
    destruct it as [m|]; [|exact I]. destruct Hinv as [f1 Hp].
    destruct (N.eqb (mtype m) 13) eqn:Ty.
    + destruct (cs_check P _ m); [|exact I]. apply N.eqb_eq in Ty.
      unfold cinv. cbn. exists (f1 ++ [m]).
      replace [2; 11; 12; 13]%N with ([2; 11; 12]%N ++ [mtype m]) by (rewrite Ty; reflexivity).
      apply c_pre_take; auto.
    + destruct (N.eqb (mtype m) 14) eqn:Ty2; cbn [andb]; [|exact I].
      destruct (negb (cs_ecdhe P _)); cbn [andb]; [|exact I].
      destruct (cs_check P _ m); [|exact I]. apply N.eqb_eq in Ty2.
      unfold cinv. cbn [c_after_shd c_send_fin ch_st]. exists (f1 ++ [m]).
      eapply c_pre_after_shd; eauto. left. destruct Hp as (_ & T & _). rewrite map_app, T, <- Ty2. reflexivity.
  - (* C_SHD *)
    destruct it as [m|]; [|exact I]. destruct Hinv as [f1 Hp].
    destruct (N.eqb (mtype m) 14) eqn:Ty2; cbn [andb]; [|exact I].
    destruct (cs_check P _ m); [|exact I]. apply N.eqb_eq in Ty2.
    unfold cinv. cbn [c_after_shd c_send_fin ch_st]. exists (f1 ++ [m]).
    eapply c_pre_after_shd; eauto. right. destruct Hp as (_ & T & _). rewrite map_app, T, <- Ty2. reflexivity.
  - (* C_CCS *)
    destruct it as [m|]; [exact I|]. unfold cinv. cbn [ch_st].
    destruct resumed; destruct Hinv as [x Hx]; exists x.
    + destruct Hx as (L & T & F & R & O & In_). unfold c_res_inv. cbn. rewrite L. repeat split; auto.
    + destruct Hx as (FT & F & L & R & O & In_). unfold c_sent_inv. cbn [ch_log ch_res ch_fin_out ch_fin_in]. rewrite L. repeat split; auto.
      rewrite app_nil_r. reflexivity.
  - (* C_Fin *)
    destruct it as [m|]; [|exact I].
    destruct (k_fin_parse K m) as [v|] eqn:Pm; [|exact I].
    destruct (N.eqb (mtype m) 20) eqn:Ty; cbn [andb]; [|exact I].
    destruct (bytes_eqb v _) eqn:Ev; [|exact I].
    apply bytes_eqb_eq in Ev. apply N.eqb_eq in Ty. cbn in Hit.
    destruct resumed; destruct Hinv as [x Hx].
    + destruct Hx as (L & T & F & R & O & In_).
      unfold cinv. cbn [c_send_fin ch_st]. unfold c_done_inv. cbn [c_send_fin ch_res]. rewrite R.
      exists x, m. cbn zeta. rewrite L in *. cbn in Ev. cbn.
      subst v. repeat split; auto.
    + destruct Hx as (FT & F & L & R & O & In_).
      unfold cinv. cbn [ch_st]. unfold c_done_inv. cbn [ch_res]. rewrite R.
      exists x, m. cbn zeta. cbn [ch_log ch_fin_in ch_fin_out].
      rewrite L in *. rewrite msgs_of_app, msgs_of_c_full_log in Ev. cbn [msgs_of] in Ev. rewrite app_nil_r in Ev.
      repeat split; auto.
      * rewrite <- app_assoc. reflexivity.
      * rewrite Pm, Ev. reflexivity.
      * rewrite Ev. reflexivity.
  - (* C_Done *) unfold cinv. rewrite St. exact Hinv.
  - (* C_Err *) unfold cinv. rewrite St. exact I.
Qed.
End ClientInv.

(* ------------------------------------------------------------------ server invariant *)
Section ServerInv.
Variable hl : nat.
Variable K : crypto.
Variable P : sside.

Let fr (m : msg) : Prop := framedb hl m = true.

Definition s_T0 (ch : msg) : list msg := ch :: ss_flight P ch.
Definition s_head (ch : msg) : log := (In, WMsg ch) :: outs (ss_flight P ch).

Lemma msgs_of_s_head : forall ch, msgs_of (s_head ch) = s_T0 ch.
Proof. intros. unfold s_head, s_T0. cbn. rewrite msgs_of_outs. reflexivity. Qed.

Definition s_pre (s : shs) (ch : msg) (f2 : list msg) (tail : log) : Prop :=
  sh_log s = (s_head ch ++ ins f2) ++ tail /\ fr ch /\ Forall fr f2 /\ ss_resumes P ch = false /\
  sh_res s = false /\ sh_fin_out s = None /\ sh_fin_in s = None.

Definition s_vs0 (ch : msg) : bytes := fin_value K (ss_master P (s_T0 ch)) false (s_T0 ch).
Definition s_res_log (ch : msg) : log := s_head ch ++ [(Out, WCcs); (Out, WMsg (k_fin_mk K (s_vs0 ch)))].

Definition s_res_inv (s : shs) (ch : msg) (tail : log) : Prop :=
  sh_log s = s_res_log ch ++ tail /\ fr ch /\ ss_resumes P ch = true /\
  sh_res s = true /\ sh_fin_out s = Some (s_vs0 ch) /\ sh_fin_in s = None.

Definition s_done_inv (s : shs) : Prop :=
  if sh_res s then
    exists ch mf,
      let T1 := s_T0 ch ++ [k_fin_mk K (s_vs0 ch)] in let vc := fin_value K (ss_master P T1) true T1 in
      sh_log s = s_res_log ch ++ [(In, WCcs); (In, WMsg mf)] /\ fr ch /\ ss_resumes P ch = true /\
      fr mf /\ mtype mf = 20%N /\ k_fin_parse K mf = Some vc /\
      sh_fin_in s = Some vc /\ sh_fin_out s = Some (s_vs0 ch)
  else
    exists ch f2 mf,
      let T1 := s_T0 ch ++ f2 in let vc := fin_value K (ss_master P T1) true T1 in
      let T2 := T1 ++ [mf] in let vs := fin_value K (ss_master P T2) false T2 in
      sh_log s = (s_head ch ++ ins f2) ++ [(In, WCcs); (In, WMsg mf); (Out, WCcs); (Out, WMsg (k_fin_mk K vs))] /\
      fr ch /\ Forall fr f2 /\ ss_resumes P ch = false /\
      fr mf /\ mtype mf = 20%N /\ k_fin_parse K mf = Some vc /\
      sh_fin_in s = Some vc /\ sh_fin_out s = Some vs.

Definition sinv (s : shs) : Prop :=
  match sh_st s with
  | S_CH => sh_log s = [] /\ sh_res s = false /\ sh_fin_out s = None /\ sh_fin_in s = None
  | S_Cert | S_CKX _ | S_CV | S_CCS false => exists ch f2, s_pre s ch f2 []
  | S_Fin false => exists ch f2, s_pre s ch f2 [(In, WCcs)]
  | S_CCS true => exists ch, s_res_inv s ch []
  | S_Fin true => exists ch, s_res_inv s ch [(In, WCcs)]
  | S_Done => s_done_inv s
  | S_Err => True
  end.

Lemma sinv_init : sinv shs_init.
Proof. cbn. auto. Qed.

Lemma s_pre_take : forall s ch f2 st m,
  s_pre s ch f2 [] -> fr m -> s_pre (s_take s st m) ch (f2 ++ [m]) [].
Proof.
  intros s ch f2 st m (L & Fc & F & Rz & R & O & I) Fm. unfold s_pre, s_take. cbn.
  rewrite L, !app_nil_r, ins_app, <- !app_assoc. repeat split; auto. apply Forall_app; split; auto.
Qed.

Lemma sinv_step : forall s it, sinv s -> item_framed hl it -> sinv (shs_step K P s it).
Proof.
  intros s it Hinv Hit. unfold shs_step.
  destruct (sh_st s) eqn:St; unfold sinv in Hinv; rewrite St in Hinv.
  - (* S_CH *)
    destruct it as [m|]; [|exact I].
    destruct (N.eqb (mtype m) 1); cbn [andb]; [|exact I].
    destruct (ss_ch_ok P m); [|exact I]. cbn in Hit.
    destruct (ss_resumes P m) eqn:Rs.
    + unfold sinv. cbn [s_send_fin sh_st]. exists m. unfold s_res_inv, s_send_fin. cbn [sh_log sh_res sh_fin_out sh_fin_in].
      fold (s_head m). rewrite msgs_of_s_head. rewrite app_nil_r. repeat split; auto.
    + unfold sinv. destruct (ss_certreq P m); cbn [sh_st]; exists m, []; unfold s_pre; cbn [sh_log sh_res sh_fin_out sh_fin_in];
        fold (s_head m); cbn [ins map]; rewrite !app_nil_r; repeat split; auto.
  - (* S_Cert *)
    destruct it as [m|]; [|exact I].
    destruct (N.eqb (mtype m) 11); cbn [andb]; [|exact I].
    destruct (ss_check P _ m); [|exact I]. destruct Hinv as (ch & f2 & Hp).
    unfold sinv. cbn [s_take sh_st]. exists ch, (f2 ++ [m]). apply s_pre_take; auto.
  - (* S_CKX *)
    destruct it as [m|]; [|exact I].
    destruct (N.eqb (mtype m) 16); cbn [andb]; [|exact I].
    destruct (ss_check P _ m); [|exact I]. destruct Hinv as (ch & f2 & Hp).
    unfold sinv. destruct have_cert; cbn [s_take sh_st]; exists ch, (f2 ++ [m]); apply s_pre_take; auto.
  - (* S_CV *)
    destruct it as [m|]; [|exact I].
    destruct (N.eqb (mtype m) 15); cbn [andb]; [|exact I].
    destruct (ss_check P _ m); [|exact I]. destruct Hinv as (ch & f2 & Hp).
    unfold sinv. cbn [s_take sh_st]. exists ch, (f2 ++ [m]). apply s_pre_take; auto.
  - (* S_CCS *)
    destruct it as [m|]; [exact I|]. unfold sinv. cbn [sh_st].
    destruct resumed.
    + destruct Hinv as (ch & L & Fc & Rs & R & O & In_). exists ch. unfold s_res_inv. cbn [sh_log sh_res sh_fin_out sh_fin_in].
      rewrite L, app_nil_r. repeat split; auto.
    + destruct Hinv as (ch & f2 & L & Fc & F & Rs & R & O & In_). exists ch, f2. unfold s_pre. cbn [sh_log sh_res sh_fin_out sh_fin_in].
      rewrite L, app_nil_r. repeat split; auto.
  - (* S_Fin *)
    destruct it as [m|]; [|exact I].
    destruct (k_fin_parse K m) as [v|] eqn:Pm; [|exact I].
    destruct (N.eqb (mtype m) 20) eqn:Ty; cbn [andb]; [|exact I].
    destruct (bytes_eqb v _) eqn:Ev; [|exact I].
    apply bytes_eqb_eq in Ev. apply N.eqb_eq in Ty. cbn in Hit.
    destruct resumed.
    + destruct Hinv as (ch & L & Fc & Rs & R & O & In_).
      unfold sinv. cbn [sh_st]. unfold s_done_inv. cbn [sh_res]. rewrite R.
      exists ch, m. cbn zeta. cbn [sh_log sh_fin_in sh_fin_out].
      rewrite L in *. unfold s_res_log in Ev. rewrite !msgs_of_app, msgs_of_s_head in Ev. cbn [msgs_of] in Ev.
      rewrite app_nil_r in Ev.
      repeat split; auto.
      * rewrite <- app_assoc. reflexivity.
      * rewrite Pm, Ev. reflexivity.
      * rewrite Ev. reflexivity.
    + destruct Hinv as (ch & f2 & L & Fc & F & Rs & R & O & In_).
      unfold sinv. cbn [s_send_fin sh_st]. unfold s_done_inv, s_send_fin. cbn [sh_res]. rewrite R.
      exists ch, f2, m. cbn zeta. cbn [sh_log sh_fin_in sh_fin_out].
      rewrite L in *. rewrite !msgs_of_app, msgs_of_s_head, msgs_of_ins in Ev. cbn [msgs_of] in Ev.
      rewrite app_nil_r in Ev.
      rewrite !msgs_of_app, msgs_of_s_head, msgs_of_ins. cbn [msgs_of]. rewrite app_nil_r.
      repeat split; auto.
      * rewrite <- !app_assoc. reflexivity.
      * rewrite Pm, Ev. reflexivity.
      * rewrite Ev. reflexivity.
  - unfold sinv. rewrite St. exact Hinv.
  - unfold sinv. rewrite St. exact I.
Qed.
End ServerInv.

(* ------------------------------------------------------------------ reachability *)
Lemma cinv_fold : forall hl K P hello its c,
  cinv hl K P hello c -> Forall (item_framed hl) its -> cinv hl K P hello (fold_left (chs_step K P) its c).
Proof.
  intros hl K P hello its. induction its as [|it its IH]; intros c Hc Hf; [exact Hc|].
  inversion Hf; subst. cbn [fold_left]. apply IH; auto. apply cinv_step; auto.
Qed.

Lemma cinv_run : forall hl K P hello its,
  Forall (item_framed hl) its -> cinv hl K P hello (chs_run K P hello its).
Proof. intros. unfold chs_run. apply cinv_fold; auto. apply cinv_init. Qed.

Lemma sinv_fold : forall hl K P its s,
  sinv hl K P s -> Forall (item_framed hl) its -> sinv hl K P (fold_left (shs_step K P) its s).
Proof.
  intros hl K P its. induction its as [|it its IH]; intros s Hs Hf; [exact Hs|].
  inversion Hf; subst. cbn [fold_left]. apply IH; auto. apply sinv_step; auto.
Qed.

Lemma sinv_run : forall hl K P its,
  Forall (item_framed hl) its -> sinv hl K P (shs_run K P its).
Proof. intros. unfold shs_run. apply sinv_fold; auto. apply sinv_init. Qed.

(* ------------------------------------------------------------------ agreement *)
Section Agreement.
Variable hl : nat.
Variable K : crypto.
Variable PCl : cside.
Variable PSv : sside.
Variable hello : msg.
Hypothesis Hideal : crypto_ideal K.
Hypothesis Hgens : gens_ok hl K PCl PSv.
Hypothesis Hhello : framedb hl hello = true.

Let fr (m : msg) : Prop := framedb hl m = true.

Lemma fin_value_inj : forall k1 l1 t1 k2 l2 t2,
  Forall fr t1 -> Forall fr t2 ->
  fin_value K k1 l1 t1 = fin_value K k2 l2 t2 -> l1 = l2 /\ t1 = t2.
Proof.
  intros k1 l1 t1 k2 l2 t2 F1 F2 E. destruct Hideal as (Hh & Hf & _ & _).
  unfold fin_value in E. apply Hf in E as [El Ed]. split; [exact El|].
  apply Hh in Ed. eapply concat_framed_inj; eauto.
Qed.

Lemma fin_label : forall k1 l1 t1 k2 l2 t2, fin_value K k1 l1 t1 = fin_value K k2 l2 t2 -> l1 = l2.
Proof. intros. destruct Hideal as (_ & Hf & _). unfold fin_value in H. apply Hf in H as [E _]. exact E. Qed.

Lemma full_types_shape : forall f1, full_types f1 -> shape14 f1 /\ 4 <= length f1.
Proof.
  intros f1 [T|T].
  - destruct f1 as [|a [|b [|c [|d [|e f1]]]]]; cbn in T; try discriminate.
    injection T as Ta Tb Tc Td. split; [|cbn; lia].
    exists [a; b; c], d. repeat split; auto.
    + repeat constructor; congruence.
    + discriminate.
  - destruct f1 as [|a [|b [|c [|d [|e [|g f1]]]]]]; cbn in T; try discriminate.
    injection T as Ta Tb Tc Td Te. split; [|cbn; lia].
    exists [a; b; c; d], e. repeat split; auto.
    + repeat constructor; congruence.
    + discriminate.
Qed.

Record agreement (c : chs) (s : shs) : Prop := mkAgree {
  ag_logs : mirrored_upto_last_fin K (ch_log c) (sh_log s);
  ag_res : ch_res c = sh_res s;
  ag_fin_c : ch_fin_out c = sh_fin_in s;
  ag_fin_s : ch_fin_in c = sh_fin_out s;
  ag_honest_c : exists fa fb, msgs_of (ch_log c) = honest_pre PCl PSv hello ++ [fa; fb];
  ag_honest_s : exists fa fb, msgs_of (sh_log s) = honest_pre PCl PSv hello ++ [fa; fb] }.

Ltac fr_tac Gfin Gcf Gsf :=
  repeat match goal with
  | |- Forall _ (_ ++ _) => apply Forall_app; split
  | |- Forall _ (_ :: _) => constructor
  | |- Forall _ [] => constructor
  | |- Forall _ (s_T0 _ _) => unfold s_T0
  | |- Forall _ (c_T1 _ _ _) => unfold c_T1
  | |- Forall _ (cs_flight _ _) => apply Gcf
  | |- Forall _ (ss_flight _ _) => apply Gsf
  | |- framedb _ (k_fin_mk _ _) = true => unfold c_vc, s_vs0, fin_value; apply Gfin
  | _ => first [assumption | unfold c_vc, s_vs0, fin_value; apply Gfin]
  end.

Theorem hs_agreement : forall c s,
  cinv hl K PCl hello c -> sinv hl K PSv s -> no_forgery c s ->
  c_done c = true -> s_done s = true -> agreement c s.
Proof.
  intros c s Ic Is [NF1 NF2] Dc Ds.
  destruct Hideal as (Hh & Hf & Hpm & Htm).
  destruct Hgens as (Gfin & Gcf & Gsf & Gshape).
  unfold c_done in Dc. destruct (ch_st c) eqn:Stc; try discriminate. clear Dc.
  unfold s_done in Ds. destruct (sh_st s) eqn:Sts; try discriminate. clear Ds.
  unfold cinv in Ic. rewrite Stc in Ic. unfold c_done_inv in Ic.
  unfold sinv in Is. rewrite Sts in Is. unfold s_done_inv in Is.
  destruct (ch_res c) eqn:Rc; destruct (sh_res s) eqn:Rs.
  - (* both resumed *)
    destruct Ic as (sh & mfs & Lc & Tsh & Fsh & Fmfs & Tmfs & Pmfs & Ic_in & Ic_out).
    destruct Is as (ch & mfc & Ls & Fch & Rch & Fmfc & Tmfc & Pmfc & Is_in & Is_out).
    cbn zeta in *.
    (* the server's Finished, accepted by the client *)
    destruct (NF1 _ Ic_in) as [E|E]; [|rewrite Ic_out in E; injection E as E; apply fin_label in E; discriminate].
    rewrite Is_out in E. injection E as E. unfold s_vs0 in E. pose proof E as Evs.
    apply fin_value_inj in E as [_ E]; [| fr_tac Gfin Gcf Gsf | fr_tac Gfin Gcf Gsf].
    unfold s_T0 in E. injection E as Ech Efl. subst ch.
    (* the client's Finished, accepted by the server *)
    destruct (NF2 _ Is_in) as [E|E]; [|rewrite Is_out in E; injection E as E; apply fin_label in E; discriminate].
    rewrite Ic_out in E. injection E as E. pose proof E as Evc.
    apply fin_value_inj in E as [_ E]; [| fr_tac Gfin Gcf Gsf | fr_tac Gfin Gcf Gsf].
    unfold s_T0 in E. rewrite Efl in E. cbn in E. injection E as Emfs.
    constructor.
    + exists [(Out, WMsg hello); (In, WMsg sh); (In, WCcs); (In, WMsg mfs); (Out, WCcs)], Out,
        (k_fin_mk K (fin_value K (cs_master PCl [hello; sh; mfs]) true [hello; sh; mfs])), mfc,
        (fin_value K (cs_master PCl [hello; sh; mfs]) true [hello; sh; mfs]).
      repeat split; auto; try (unfold fin_value; apply Hpm).
      * rewrite Ls. unfold s_res_log, s_head. rewrite Efl. cbn. rewrite Emfs. unfold s_vs0, s_T0. rewrite Efl. reflexivity.
      * rewrite Pmfc. f_equal. symmetry. exact Evc.
    + congruence.
    + rewrite Ic_out, Is_in. f_equal. exact Evc.
    + rewrite Ic_in, Is_out. f_equal. symmetry. exact Evs.
    + exists mfs, (k_fin_mk K (fin_value K (cs_master PCl [hello; sh; mfs]) true [hello; sh; mfs])).
      rewrite Lc. unfold honest_pre. rewrite Rch, Efl. reflexivity.
    + exists (k_fin_mk K (s_vs0 K PSv hello)), mfc.
      rewrite Ls. unfold honest_pre. rewrite Rch. unfold s_res_log. rewrite !msgs_of_app, msgs_of_s_head.
      unfold s_T0. rewrite Efl. reflexivity.
  - (* client resumed, server full: impossible *)
    exfalso.
    destruct Ic as (sh & mfs & Lc & Tsh & Fsh & Fmfs & Tmfs & Pmfs & Ic_in & Ic_out).
    destruct Is as (ch & f2 & mfc & Ls & Fch & Ff2 & Rch & Fmfc & Tmfc & Pmfc & Is_in & Is_out).
    cbn zeta in *.
    destruct (NF1 _ Ic_in) as [E|E]; [|rewrite Ic_out in E; injection E as E; apply fin_label in E; discriminate].
    rewrite Is_out in E. injection E as E.
    apply fin_value_inj in E as [_ E]; [| fr_tac Gfin Gcf Gsf | fr_tac Gfin Gcf Gsf].
    specialize (Gshape ch). rewrite Rch in Gshape. destruct Gshape as (pre & shd & Efl & _ & _ & Hne).
    apply (f_equal (@length msg)) in E. unfold s_T0 in E. rewrite Efl in E.
    cbn [length] in E. rewrite !app_length in E. cbn [length] in E.
    destruct pre; [contradiction|]. cbn [length] in E. lia.
  - (* client full, server resumed: impossible *)
    exfalso.
    destruct Ic as (f1 & mfs & FT & Ff1 & Lc & Fmfs & Tmfs & Pmfs & Ic_in & Ic_out).
    destruct Is as (ch & mfc & Ls & Fch & Rch & Fmfc & Tmfc & Pmfc & Is_in & Is_out).
    cbn zeta in *.
    destruct (NF2 _ Is_in) as [E|E]; [|rewrite Is_out in E; injection E as E; apply fin_label in E; discriminate].
    rewrite Ic_out in E. injection E as E. unfold c_vc in E.
    apply fin_value_inj in E as [_ E]; [| fr_tac Gfin Gcf Gsf | fr_tac Gfin Gcf Gsf].
    specialize (Gshape ch). rewrite Rch in Gshape. destruct Gshape as (sh' & Efl & _).
    apply (f_equal (@length msg)) in E. unfold c_T1, s_T0 in E. rewrite Efl in E.
    cbn [length app] in E. rewrite !app_length in E. cbn [length] in E.
    apply full_types_shape in FT as [_ Hlen]. lia.
  - (* both full *)
    destruct Ic as (f1 & mfs & FT & Ff1 & Lc & Fmfs & Tmfs & Pmfs & Ic_in & Ic_out).
    destruct Is as (ch & f2 & mfc & Ls & Fch & Ff2 & Rch & Fmfc & Tmfc & Pmfc & Is_in & Is_out).
    cbn zeta in *.
    (* the client's Finished, accepted by the server: everything before it agrees *)
    destruct (NF2 _ Is_in) as [E|E]; [|rewrite Is_out in E; injection E as E; apply fin_label in E; discriminate].
    rewrite Ic_out in E. injection E as E. unfold c_vc in E.
    pose proof E as Evc.
    apply fin_value_inj in E as [_ E]; [| fr_tac Gfin Gcf Gsf | fr_tac Gfin Gcf Gsf].
    unfold c_T1, s_T0 in E. cbn [app] in E. injection E as Ech E. subst ch.
    pose proof (Gshape hello) as Gs. rewrite Rch in Gs.
    apply full_types_shape in FT as [Sh1 _].
    destruct (shape14_split _ _ _ _ Sh1 Gs E) as [Ef1 Ef2].
    (* the server's Finished, accepted by the client: the client's Finished message agrees as well *)
    destruct (NF1 _ Ic_in) as [E2|E2]; [|rewrite Ic_out in E2; injection E2 as E2; apply fin_label in E2; discriminate].
    rewrite Is_out in E2. injection E2 as E2.
    pose proof E2 as Evs.
    apply fin_value_inj in E2 as [_ E2]; [| fr_tac Gfin Gcf Gsf | fr_tac Gfin Gcf Gsf].
    unfold c_T1, s_T0 in E2. rewrite <- Ef1, <- Ef2 in E2.
    cbn [app] in E2. injection E2 as E2. apply app_inj_tail in E2 as [_ Emfc].
    constructor.
    + exists (c_full_log K PCl hello f1 ++ [(In, WCcs)]), In, mfs,
        (k_fin_mk K (fin_value K (ss_master PSv ((s_T0 PSv hello ++ f2) ++ [mfc])) false ((s_T0 PSv hello ++ f2) ++ [mfc]))),
        (fin_value K (cs_master PCl (c_T1 PCl hello f1 ++ [k_fin_mk K (c_vc K PCl hello f1)])) false
           (c_T1 PCl hello f1 ++ [k_fin_mk K (c_vc K PCl hello f1)])).
      repeat split; auto.
      * rewrite Lc. rewrite <- app_assoc. reflexivity.
      * rewrite Ls. unfold c_full_log, s_head. rewrite !mirror_app. cbn [mirror map fst snd flip].
        fold (mirror (ins f1)). fold (mirror (outs (cs_flight PCl (hello :: f1)))).
        rewrite mirror_ins, mirror_outs. rewrite <- Ef1, <- Ef2, Emfc. cbn [flip].
        rewrite <- !app_assoc. reflexivity.
      * unfold fin_value. rewrite Hpm. f_equal. exact Evs.
    + congruence.
    + rewrite Ic_out, Is_in. f_equal. exact Evc.
    + rewrite Ic_in, Is_out. f_equal. symmetry. exact Evs.
    + exists (k_fin_mk K (c_vc K PCl hello f1)), mfs.
      rewrite Lc, msgs_of_app, msgs_of_c_full_log. cbn [msgs_of]. unfold honest_pre. rewrite Rch.
      unfold c_T1. rewrite <- Ef1. cbn [app]. rewrite <- !app_assoc. cbn [app]. reflexivity.
    + exists mfc, (k_fin_mk K (fin_value K (ss_master PSv ((s_T0 PSv hello ++ f2) ++ [mfc])) false ((s_T0 PSv hello ++ f2) ++ [mfc]))).
      rewrite Ls, !msgs_of_app, msgs_of_s_head, msgs_of_ins. cbn [msgs_of]. unfold honest_pre. rewrite Rch.
      unfold s_T0. rewrite <- Ef1, <- Ef2. cbn [app]. rewrite <- !app_assoc. cbn [app]. reflexivity.
Qed.
End Agreement.

(* with a canonical Finished encoding the logs are exact mirror images: what each endpoint
   accepted (messages and ChangeCipherSpec, in order) is byte for byte what the other wrote *)
Lemma mirrored_canonical : forall K lc ls,
  fin_canonical K -> mirrored_upto_last_fin K lc ls -> ls = mirror lc.
Proof.
  intros K lc ls Hc (core & d & ma & mb & v & -> & -> & Ta & Tb & Pa & Pb).
  rewrite (Hc _ _ Pa Ta), (Hc _ _ Pb Tb). rewrite mirror_app. reflexivity.
Qed.

Lemma mirror_accepted_sent : forall lc ls, ls = mirror lc ->
  accepted_items lc = sent_items ls /\ accepted_items ls = sent_items lc.
Proof.
  intros lc ls ->. unfold accepted_items, sent_items. rewrite !items_dir_mirror. cbn. auto.
Qed.

(* ------------------------------------------------------------------ stream record layer *)
Section StreamInv.
Variable A : Type.
Variable wantf : A -> want.
Variable stepf : A -> witem -> A.
Variable Inv : A -> Prop.
Hypothesis step_ok : forall a it, Inv a -> item_framed 4 it -> Inv (stepf a it).

Lemma drain_inv : forall fuel a hand, Inv a -> Inv (fst (fst (drain A wantf stepf fuel a hand))).
Proof.
  induction fuel as [|f IH]; intros a hand Ha; [exact Ha|].
  cbn [drain]. destruct (wantf a); try exact Ha.
  destruct (pop hand) as [| |m rest] eqn:Pp; try exact Ha.
  apply IH. apply step_ok; auto. cbn. apply pop_framed in Pp as [F _]. exact F.
Qed.

Lemma t_step_inv : forall t r, Inv (t_hs t) -> Inv (t_hs (t_step A wantf stepf t r)).
Proof.
  intros t r Ht. unfold t_step. destruct (t_fail t); [exact Ht|].
  destruct (wantf (t_hs t)) eqn:W; [| |exact Ht].
  - destruct r; try exact Ht.
    + destruct payload; [exact Ht|].
      destruct (drain A wantf stepf _ (t_hs t) _) as [[a h] bad] eqn:D. cbn [t_hs].
      pose proof (drain_inv (S (length (t_hand t ++ n :: payload))) (t_hs t) (t_hand t ++ n :: payload) Ht) as Hd.
      rewrite D in Hd. exact Hd.
    + destruct (t_hand t); exact Ht.
    + destruct (Nat.ltb max_useless (S (t_retry t))); exact Ht.
  - destruct r; try exact Ht.
    + destruct payload; exact Ht.
    + destruct (t_hand t); [|exact Ht]. cbn [t_hs]. apply step_ok; [exact Ht|exact I].
    + destruct (Nat.ltb max_useless (S (t_retry t))); exact Ht.
Qed.

Lemma t_fold_inv : forall rs t, Inv (t_hs t) -> Inv (t_hs (fold_left (t_step A wantf stepf) rs t)).
Proof.
  induction rs as [|r rs IH]; intros t Ht; [exact Ht|]. cbn [fold_left]. apply IH. apply t_step_inv. exact Ht.
Qed.
End StreamInv.

Section StreamRun.
Variable K : crypto.
Variable PCl : cside.
Variable PSv : sside.
Variable hello : msg.
Hypothesis Hhello : framedb 4 hello = true.

Lemma run_inv : forall sch,
  cinv 4 K PCl hello (t_hs (fst (run K PCl PSv hello sch))) /\
  sinv 4 K PSv (t_hs (snd (run K PCl PSv hello sch))).
Proof.
  intros sch. unfold run.
  assert (G : forall st : tstate,
             cinv 4 K PCl hello (t_hs (fst st)) /\ sinv 4 K PSv (t_hs (snd st)) ->
             cinv 4 K PCl hello (t_hs (fst (fold_left (deliver K PCl PSv) sch st))) /\
             sinv 4 K PSv (t_hs (snd (fold_left (deliver K PCl PSv) sch st)))).
  { induction sch as [|[p r] sch IH]; intros st [Hc Hs]; [split; assumption|].
    cbn [fold_left]. apply IH. destruct p; cbn [deliver fst snd]; split; auto.
    - unfold tc_step. apply t_step_inv; auto. intros; apply cinv_step; auto.
    - unfold ts_step. apply t_step_inv; auto. intros; apply sinv_step; auto. }
  apply G. unfold tinit. cbn [fst snd t_hs]. split; [apply cinv_init|apply sinv_init].
Qed.

Theorem stream_agreement : forall sch,
  crypto_ideal K -> gens_ok 4 K PCl PSv ->
  let st := run K PCl PSv hello sch in
  no_forgery (t_hs (fst st)) (t_hs (snd st)) -> both_done st = true ->
  agreement K PCl PSv hello (t_hs (fst st)) (t_hs (snd st)).
Proof.
  intros sch Hi Hg st NF BD. unfold both_done in BD. apply andb_true_iff in BD as [Dc Ds].
  destruct (run_inv sch) as [Ic Is].
  eapply hs_agreement; eauto.
Qed.
End StreamRun.

(* ------------------------------------------------------------------ datagram stack *)
Definition gev_framed (e : dgev) : Prop := match e with GMsg m => framedb 12 m = true | _ => True end.

(* what a datagram event hands to the handshake layer when it is consumed *)
Definition gitems (es : list dgev) : list witem :=
  flat_map (fun e => match e with GMsg m => [WMsg m] | GCcs => [WCcs] | _ => [] end) es.

Inductive sublist {X : Type} : list X -> list X -> Prop :=
| sub_nil : sublist [] []
| sub_skip : forall x l1 l2, sublist l1 l2 -> sublist l1 (x :: l2)
| sub_take : forall x l1 l2, sublist l1 l2 -> sublist (x :: l1) (x :: l2).

Lemma sublist_nil_l : forall X (l : list X), sublist [] l.
Proof. induction l; [apply sub_nil|apply sub_skip; auto]. Qed.

Lemma sublist_app : forall X (a1 a2 b1 b2 : list X), sublist a1 a2 -> sublist b1 b2 -> sublist (a1 ++ b1) (a2 ++ b2).
Proof. intros X a1 a2 b1 b2 Ha Hb. induction Ha; cbn; [exact Hb|apply sub_skip; exact IHHa|apply sub_take; exact IHHa]. Qed.

Lemma sublist_skip_r : forall X (a1 a2 b : list X), sublist a1 a2 -> sublist a1 (a2 ++ b).
Proof. intros. rewrite <- (app_nil_r a1). apply sublist_app; auto. apply sublist_nil_l. Qed.

Lemma sublist_refl : forall X (l : list X), sublist l l.
Proof. induction l; [apply sub_nil|apply sub_take; auto]. Qed.

Lemma sublist_last : forall X (l : list X) x, sublist [x] (l ++ [x]).
Proof. intros. rewrite <- (app_nil_l [x]) at 1. apply sublist_app; [apply sublist_nil_l|apply sublist_refl]. Qed.

Lemma gitems_app : forall a b, gitems (a ++ b) = gitems a ++ gitems b.
Proof. intros. unfold gitems. apply flat_map_app. Qed.

Section DatagramInv.
Variable K : crypto.
Variable PCl : dcside.
Variable PSv : dsside.
Hypothesis Hh0 : framedb 12 (dcs_hello0 PCl) = true.
Hypothesis Hh1 : forall hvr, framedb 12 (dcs_hello PCl hvr) = true.

Definition hello_origin (h : msg) : Prop := h = dcs_hello0 PCl \/ exists hvr, h = dcs_hello PCl hvr.

Lemma hello_origin_framed : forall h, hello_origin h -> framedb 12 h = true.
Proof. intros h [->|[hvr ->]]; auto. Qed.

(* the client: in the main phase its handshake state is a run of the handshake-layer automaton
   over an ordered selection of the items it received, started from the hello it last sent *)
Definition dc_good (seen : list dgev) (c : dcconn) : Prop :=
  match dc_ph c with
  | DCHello cur _ => hello_origin cur
  | DCMain h => exists hello core,
      hello_origin hello /\ sublist core (gitems seen) /\ Forall (item_framed 12) core /\
      h = chs_run K (dcs_side PCl) hello core
  end.

Lemma chs_run_snoc : forall P hello core it,
  chs_step K P (chs_run K P hello core) it = chs_run K P hello (core ++ [it]).
Proof. intros. unfold chs_run. rewrite fold_left_app. reflexivity. Qed.

Lemma dc_good_more : forall seen e c, dc_good seen c -> dc_good (seen ++ [e]) c.
Proof.
  intros seen e c H. unfold dc_good in *. destruct (dc_ph c); auto.
  destruct H as (hello & core & O & S & Fc & E). exists hello, core. repeat split; auto.
  rewrite gitems_app. apply sublist_skip_r. exact S.
Qed.

Lemma dc_good_take : forall seen e it c h r p f,
  dc_ph c = DCMain h -> dc_good seen c -> gitems [e] = [it] -> item_framed 12 it ->
  dc_good (seen ++ [e]) (mkDC (DCMain (chs_step K (dcs_side PCl) h it)) r p f).
Proof.
  intros seen e it c h r p f Ph G Ei Fi. unfold dc_good in *. rewrite Ph in G. cbn [dc_ph].
  destruct G as (hello & core & O & S & Fc & E). exists hello, (core ++ [it]). repeat split; auto.
  - rewrite gitems_app, Ei. apply sublist_app; [exact S|apply sublist_refl].
  - apply Forall_app; split; auto.
  - rewrite E. apply chs_run_snoc.
Qed.

Lemma dc_step_good : forall seen c e, gev_framed e -> dc_good seen c -> dc_good (seen ++ [e]) (dc_step K PCl c e).
Proof.
  intros seen c e Fe G. pose proof (dc_good_more seen e c G) as G'.
  unfold dc_step. destruct (dc_fail c); [exact G'|].
  destruct (dc_ph c) as [cur hc|h] eqn:Ph.
  - (* hello phase *)
    unfold dc_good in G. rewrite Ph in G.
    assert (Keep : forall r p f, dc_good (seen ++ [e]) (mkDC (DCHello cur hc) r p f)).
    { intros. unfold dc_good. cbn. exact G. }
    destruct e; try (unfold dc_dead; rewrite Ph; apply Keep); try exact G'.
    + destruct (dc_pend c); [apply Keep|].
      destruct (N.eqb (mtype m) 3).
      * destruct hc; [apply Keep|]. unfold dc_good. cbn. right. exists m. reflexivity.
      * destruct (N.eqb (mtype m) 2); [|unfold dc_dead; rewrite Ph; apply Keep].
        unfold dc_good. cbn [dc_ph]. exists cur, [WMsg m]. repeat split.
        -- exact G.
        -- rewrite gitems_app. change (gitems [GMsg m]) with [WMsg m]. apply sublist_last.
        -- constructor; [exact Fe|constructor].
    + apply Keep.
    + destruct (Nat.ltb max_useless (S (dc_retry c))); [unfold dc_dead; rewrite Ph|]; apply Keep.
  - (* main phase *)
    assert (Keep : forall r p f, dc_good (seen ++ [e]) (mkDC (DCMain h) r p f)).
    { intros. unfold dc_good in *. rewrite Ph in G'. cbn. exact G'. }
    destruct (c_want h) eqn:W; [| |exact G'].
    + destruct e; try (unfold dc_dead; rewrite Ph; apply Keep); try exact G'.
      * destruct (dc_pend c); [apply Keep|]. eapply dc_good_take; eauto.
      * apply Keep.
      * destruct (Nat.ltb max_useless (S (dc_retry c))); [unfold dc_dead; rewrite Ph|]; apply Keep.
    + destruct e; try (unfold dc_dead; rewrite Ph; apply Keep); try exact G'.
      * apply Keep.
      * apply Keep.
      * destruct (dc_pend c); [unfold dc_dead; rewrite Ph; apply Keep|]. eapply dc_good_take; eauto; exact I.
      * destruct (Nat.ltb max_useless (S (dc_retry c))); [unfold dc_dead; rewrite Ph|]; apply Keep.
Qed.

Lemma dc_run_good : forall es, Forall gev_framed es -> dc_good es (dc_run K PCl es).
Proof.
  intros es. unfold dc_run.
  assert (G : forall seen c, Forall gev_framed es -> dc_good seen c ->
              dc_good (seen ++ es) (fold_left (dc_step K PCl) es c)).
  { induction es as [|e es IH]; intros seen c Fe Hc.
    - rewrite app_nil_r. exact Hc.
    - inversion Fe; subst. cbn [fold_left].
      replace (seen ++ e :: es) with ((seen ++ [e]) ++ es) by (rewrite <- app_assoc; reflexivity).
      apply IH; auto. apply dc_step_good; auto. }
  intros Fe. apply (G [] (dc_init PCl) Fe). unfold dc_good, dc_init. cbn. left. reflexivity.
Qed.

(* the server *)
Definition ds_good (seen : list dgev) (c : dsconn) : Prop :=
  match ds_ph c with
  | DSHello _ => True
  | DSMain h => exists core,
      sublist core (gitems seen) /\ Forall (item_framed 12) core /\
      h = shs_run K (dss_side PSv) core
  end.

Lemma shs_run_snoc : forall P core it,
  shs_step K P (shs_run K P core) it = shs_run K P (core ++ [it]).
Proof. intros. unfold shs_run. rewrite fold_left_app. reflexivity. Qed.

Lemma ds_good_more : forall seen e c, ds_good seen c -> ds_good (seen ++ [e]) c.
Proof.
  intros seen e c H. unfold ds_good in *. destruct (ds_ph c); auto.
  destruct H as (core & S & Fc & E). exists core. repeat split; auto.
  rewrite gitems_app. apply sublist_skip_r. exact S.
Qed.

Lemma ds_good_take : forall seen e it c h r p f,
  ds_ph c = DSMain h -> ds_good seen c -> gitems [e] = [it] -> item_framed 12 it ->
  ds_good (seen ++ [e]) (mkDS (DSMain (shs_step K (dss_side PSv) h it)) r p f).
Proof.
  intros seen e it c h r p f Ph G Ei Fi. unfold ds_good in *. rewrite Ph in G. cbn [ds_ph].
  destruct G as (core & S & Fc & E). exists (core ++ [it]). repeat split; auto.
  - rewrite gitems_app, Ei. apply sublist_app; [exact S|apply sublist_refl].
  - apply Forall_app; split; auto.
  - rewrite E. apply shs_run_snoc.
Qed.

Lemma ds_step_good : forall seen c e, gev_framed e -> ds_good seen c -> ds_good (seen ++ [e]) (ds_step K PSv c e).
Proof.
  intros seen c e Fe G. pose proof (ds_good_more seen e c G) as G'.
  unfold ds_step. destruct (ds_fail c); [exact G'|].
  destruct (ds_ph c) as [first|h] eqn:Ph.
  - assert (Keep : forall b r p f, ds_good (seen ++ [e]) (mkDS (DSHello b) r p f)).
    { intros. unfold ds_good. cbn. exact I. }
    destruct e; try (unfold ds_dead; rewrite Ph; apply Keep); try exact G'.
    + destruct (ds_pend c); [apply Keep|].
      destruct (N.eqb (mtype m) 1); [|unfold ds_dead; rewrite Ph; apply Keep].
      destruct (dss_cookie_ok PSv m); [|apply Keep].
      unfold ds_good. cbn [ds_ph]. exists [WMsg m]. repeat split.
      * rewrite gitems_app. change (gitems [GMsg m]) with [WMsg m]. apply sublist_last.
      * constructor; [exact Fe|constructor].
    + apply Keep.
    + destruct first; [unfold ds_dead; rewrite Ph; apply Keep|exact G'].
    + destruct (Nat.ltb max_useless (S (ds_retry c))); [unfold ds_dead; rewrite Ph|]; apply Keep.
  - assert (Keep : forall r p f, ds_good (seen ++ [e]) (mkDS (DSMain h) r p f)).
    { intros. unfold ds_good in *. rewrite Ph in G'. cbn. exact G'. }
    destruct (s_want h) eqn:W; [| |exact G'].
    + destruct e; try (unfold ds_dead; rewrite Ph; apply Keep); try exact G'.
      * destruct (ds_pend c); [apply Keep|].
        destruct (N.eqb (mtype m) 1 && in_flight5 h); [apply Keep|]. eapply ds_good_take; eauto.
      * apply Keep.
      * destruct (Nat.ltb max_useless (S (ds_retry c))); [unfold ds_dead; rewrite Ph|]; apply Keep.
    + destruct e; try (unfold ds_dead; rewrite Ph; apply Keep); try exact G'.
      * apply Keep.
      * apply Keep.
      * destruct (ds_pend c); [unfold ds_dead; rewrite Ph; apply Keep|]. eapply ds_good_take; eauto; exact I.
      * destruct (Nat.ltb max_useless (S (ds_retry c))); [unfold ds_dead; rewrite Ph|]; apply Keep.
Qed.

Lemma ds_run_good : forall es, Forall gev_framed es -> ds_good es (ds_run K PSv es).
Proof.
  intros es. unfold ds_run.
  assert (G : forall seen c, Forall gev_framed es -> ds_good seen c ->
              ds_good (seen ++ es) (fold_left (ds_step K PSv) es c)).
  { induction es as [|e es IH]; intros seen c Fe Hc.
    - rewrite app_nil_r. exact Hc.
    - inversion Fe; subst. cbn [fold_left].
      replace (seen ++ e :: es) with ((seen ++ [e]) ++ es) by (rewrite <- app_assoc; reflexivity).
      apply IH; auto. apply ds_step_good; auto. }
  intros Fe. apply (G [] ds_init Fe). unfold ds_good, ds_init. cbn. exact I.
Qed.
End DatagramInv.

(* the two endpoints only interact through the adversary: a joint run is the pair of the runs on
   what was delivered to each *)
Definition is_pc (p : party) : bool := match p with PC => true | PS => false end.
Definition to_client {E} (sch : list (party * E)) : list E := map snd (filter (fun a => is_pc (fst a)) sch).
Definition to_server {E} (sch : list (party * E)) : list E := map snd (filter (fun a => negb (is_pc (fst a))) sch).

Lemma drun_split : forall K PCl PSv sch,
  drun K PCl PSv sch = (dc_run K PCl (to_client sch), ds_run K PSv (to_server sch)).
Proof.
  intros. unfold drun, dc_run, ds_run.
  generalize (dc_init PCl) as c. generalize ds_init as s.
  induction sch as [|[p e] sch IH]; intros s c; [reflexivity|].
  cbn [fold_left]. destruct p; cbn [fst snd]; rewrite IH; reflexivity.
Qed.

Lemma run_split : forall K PCl PSv hello sch,
  run K PCl PSv hello sch =
  (t_run chs c_want (chs_step K PCl) (chs_init hello) (to_client sch),
   t_run shs s_want (shs_step K PSv) shs_init (to_server sch)).
Proof.
  intros. unfold run, t_run, tinit.
  generalize (mkT (chs_init hello) [] 0 false) as c. generalize (mkT shs_init [] 0 false) as s.
  induction sch as [|[p e] sch IH]; intros s c; [reflexivity|].
  cbn [fold_left]. destruct p; cbn [deliver fst snd]; rewrite IH; reflexivity.
Qed.

Lemma Forall_to_client : forall E (Pf : E -> Prop) (sch : list (party * E)),
  Forall (fun a => Pf (snd a)) sch -> Forall Pf (to_client sch).
Proof.
  intros E Pf sch H. unfold to_client. induction H as [|[p e] l Hx Hl IH]; cbn; [constructor|].
  destruct (is_pc p); cbn; auto.
Qed.
Lemma Forall_to_server : forall E (Pf : E -> Prop) (sch : list (party * E)),
  Forall (fun a => Pf (snd a)) sch -> Forall Pf (to_server sch).
Proof.
  intros E Pf sch H. unfold to_server. induction H as [|[p e] l Hx Hl IH]; cbn; [constructor|].
  destruct (is_pc p); cbn; auto.
Qed.

Theorem dgram_agreement : forall K PCl PSv sch c s,
  crypto_ideal K -> gens_ok 12 K (dcs_side PCl) (dss_side PSv) ->
  framedb 12 (dcs_hello0 PCl) = true -> (forall hvr, framedb 12 (dcs_hello PCl hvr) = true) ->
  Forall (fun a => gev_framed (snd a)) sch ->
  dc_ph (fst (drun K PCl PSv sch)) = DCMain c -> ds_ph (snd (drun K PCl PSv sch)) = DSMain s ->
  no_forgery c s -> c_done c = true -> s_done s = true ->
  exists hello core_c core_s,
    hello_origin PCl hello /\
    sublist core_c (gitems (to_client sch)) /\ c = chs_run K (dcs_side PCl) hello core_c /\
    sublist core_s (gitems (to_server sch)) /\ s = shs_run K (dss_side PSv) core_s /\
    agreement K (dcs_side PCl) (dss_side PSv) hello c s.
Proof.
  intros K PCl PSv sch c s Hi Hg H0 H1 Hf Pc Ps NF Dc Ds.
  rewrite drun_split in Pc, Ps. cbn [fst snd] in Pc, Ps.
  pose proof (dc_run_good K PCl (to_client sch) (Forall_to_client _ _ _ Hf)) as Gc.
  pose proof (ds_run_good K PSv (to_server sch) (Forall_to_server _ _ _ Hf)) as Gs.
  unfold dc_good in Gc. rewrite Pc in Gc. destruct Gc as (hello & core_c & Ho & Sc & Fc & Ec).
  unfold ds_good in Gs. rewrite Ps in Gs. destruct Gs as (core_s & Ss & Fs & Es).
  exists hello, core_c, core_s.
  split; [exact Ho|]. split; [exact Sc|]. split; [exact Ec|]. split; [exact Ss|]. split; [exact Es|].
  apply (hs_agreement 12 K (dcs_side PCl) (dss_side PSv) hello Hi Hg (hello_origin_framed PCl H0 H1 hello Ho)); auto.
  - rewrite Ec. apply cinv_run; auto.
  - rewrite Es. apply sinv_run; auto.
Qed.

(* ------------------------------------------------------------------ the statements used by Props/C03.v *)
Theorem stream_same_transcript : forall K PCl PSv hello sch,
  crypto_ideal K -> fin_canonical K -> gens_ok 4 K PCl PSv -> framedb 4 hello = true ->
  let st := run K PCl PSv hello sch in
  let c := t_hs (fst st) in let s := t_hs (snd st) in
  no_forgery c s -> both_done st = true ->
  sh_log s = mirror (ch_log c) /\
  accepted_items (ch_log c) = sent_items (sh_log s) /\
  accepted_items (sh_log s) = sent_items (ch_log c).
Proof.
  intros K PCl PSv hello sch Hi Hc Hg Hh st c s NF BD.
  pose proof (stream_agreement K PCl PSv hello Hh sch Hi Hg NF BD) as A.
  destruct A as [L _ _ _ _ _].
  assert (E : sh_log s = mirror (ch_log c)) by (apply (mirrored_canonical K); auto).
  split; [exact E|]. apply mirror_accepted_sent. exact E.
Qed.

Theorem stream_same_view : forall K PCl PSv hello sch,
  crypto_ideal K -> gens_ok 4 K PCl PSv -> framedb 4 hello = true ->
  let st := run K PCl PSv hello sch in
  let c := t_hs (fst st) in let s := t_hs (snd st) in
  no_forgery c s -> both_done st = true ->
  ch_res c = sh_res s /\ ch_fin_out c = sh_fin_in s /\ ch_fin_in c = sh_fin_out s /\
  mirrored_upto_last_fin K (ch_log c) (sh_log s).
Proof.
  intros K PCl PSv hello sch Hi Hg Hh st c s NF BD.
  destruct (stream_agreement K PCl PSv hello Hh sch Hi Hg NF BD) as [L R F1 F2 _ _]. auto.
Qed.

Theorem stream_no_downgrade : forall K PCl PSv hello sch,
  crypto_ideal K -> gens_ok 4 K PCl PSv -> framedb 4 hello = true ->
  let st := run K PCl PSv hello sch in
  let c := t_hs (fst st) in let s := t_hs (snd st) in
  no_forgery c s -> both_done st = true ->
  (exists fa fb, msgs_of (ch_log c) = honest_pre PCl PSv hello ++ [fa; fb]) /\
  (exists fa fb, msgs_of (sh_log s) = honest_pre PCl PSv hello ++ [fa; fb]).
Proof.
  intros K PCl PSv hello sch Hi Hg Hh st c s NF BD.
  destruct (stream_agreement K PCl PSv hello Hh sch Hi Hg NF BD) as [_ _ _ _ H1 H2]. auto.
Qed.

(* a decidable form of the no-forgery premise, for examples and for the correspondence *)
Definition opt_eqb (a b : option bytes) : bool :=
  match a, b with
  | Some x, Some y => bytes_eqb x y
  | None, None => true
  | _, _ => false
  end.
Definition no_forgery_b (c : chs) (s : shs) : bool :=
  match ch_fin_in c with None => true | Some _ => opt_eqb (ch_fin_in c) (sh_fin_out s) || opt_eqb (ch_fin_in c) (ch_fin_out c) end &&
  match sh_fin_in s with None => true | Some _ => opt_eqb (sh_fin_in s) (ch_fin_out c) || opt_eqb (sh_fin_in s) (sh_fin_out s) end.

Lemma opt_eqb_some : forall v o, opt_eqb (Some v) o = true -> o = Some v.
Proof. intros v [x|]; cbn; [|discriminate]. intros H. apply bytes_eqb_eq in H. congruence. Qed.

Lemma no_forgery_b_sound : forall c s, no_forgery_b c s = true -> no_forgery c s.
Proof.
  intros c s H. unfold no_forgery_b in H. apply andb_true_iff in H as [H1 H2]. split; intros v Hv.
  - rewrite Hv in H1. apply orb_true_iff in H1 as [E|E]; apply opt_eqb_some in E; auto.
  - rewrite Hv in H2. apply orb_true_iff in H2 as [E|E]; apply opt_eqb_some in E; auto.
Qed.
