(* The retransmission timeout of both endpoints always is a value of the schedule *)
From V Require Import Model.DSim Proofs.DSimBase.
From Coq Require Import Lia.

Definition Sched (e : ep) : Prop := In (cur e) schedule.

Lemma backoff_sched : forall x, In x schedule -> In (backoff x) schedule.
Proof. intros x H. simpl in H. repeat (destruct H as [H|H]; [subst; vm_compute; tauto|]). contradiction. Qed.

Lemma t_init_sched : In t_init schedule.
Proof. vm_compute; tauto. Qed.

Lemma write_msgs_keep : forall ms e,
  ph (fst (write_msgs e ms)) = ph e /\ cur (fst (write_msgs e ms)) = cur e /\
  complete (fst (write_msgs e ms)) = complete e.
Proof.
  induction ms as [|m ms IH]; intros e; simpl; [tauto|].
  specialize (IH (set_write e (wepoch e) (wseq e + 1) (mseq e + 1))).
  destruct (write_msgs _ ms); simpl in *. exact IH.
Qed.

Ltac wm :=
  repeat match goal with
  | |- context [write_msgs ?e ?ms] =>
      let H := fresh "Hw" in
      pose proof (write_msgs_keep ms e) as H; destruct (write_msgs e ms); simpl in H;
      destruct H as (? & ? & ?)
  end.

Ltac sch H := first [exact H | apply t_init_sched | apply backoff_sched; exact H].

Lemma client_done_sched : forall now e pre, Sched e -> Sched (fst (client_done now e pre)).
Proof. intros. unfold client_done, Sched in *. simpl. assumption. Qed.

Lemma server_done_sched : forall now e pre, Sched e -> Sched (fst (server_done now e pre)).
Proof. intros. unfold server_done, Sched in *. simpl. assumption. Qed.

Lemma fail_sched : forall e, Sched e -> Sched (fst (fail e)).
Proof. intros. unfold fail, Sched in *. simpl. assumption. Qed.

Lemma client_flight5_sched : forall now e cr, Sched (fst (client_flight5 now e cr)).
Proof. intros. unfold client_flight5, Sched. wm. simpl. apply t_init_sched. Qed.

Lemma client_msg_sched : forall c now e m, Sched e -> Sched (fst (client_msg c now e m)).
Proof.
  intros c now e m H. unfold client_msg.
  destruct (ph e); destruct m; try (apply fail_sched; assumption);
    try (apply client_flight5_sched); try exact H;
    try (destruct (resume c); exact H).
  all: sch H.
Qed.

Lemma server_msg_sched : forall c now e m, Sched e -> Sched (fst (server_msg c now e m)).
Proof.
  intros c now e m H. unfold server_msg.
  destruct (ph e); destruct m; try (apply fail_sched; assumption); try exact H.
  all: try (destruct (resume c)); wm; unfold Sched in *; sch H.
Qed.

Lemma recv_rec_sched : forall c now e r, Sched e -> Sched (fst (recv_rec c now e r)).
Proof.
  intros c now e r H. unfold recv_rec.
  destruct (fin e); [exact H|].
  destruct r as [epoch seq b|]; [|apply fail_sched; assumption].
  destruct (negb (epoch =? repoch e)).
  { destruct (_ && _); exact H. }
  destruct (match b with BCcs => _ | _ => false end); [exact H|].
  destruct (existsb _ _); [exact H|].
  set (e1 := set_read e (repoch e) (seq :: seen e)).
  assert (H1 : Sched e1) by exact H.
  assert (Hc : complete e1 = complete e) by reflexivity.
  assert (Hp : ph e1 = ph e) by reflexivity.
  clearbody e1.
  destruct b; try (apply fail_sched; assumption).
  - (* BHs *)
    destruct (complete e1). { destruct (dwell e1); exact H1. }
    destruct (expects_ccs (ph e1)); [exact H1|].
    destruct (is_client (ph e1)); [apply client_msg_sched | apply server_msg_sched]; assumption.
  - (* BCcs *)
    destruct (complete e1). { destruct (dwell e1); exact H1. }
    simpl. destruct (ph e1); try (apply fail_sched); exact H1.
  - (* BEnc *)
    destruct (complete e1). { destruct (dwell e1); exact H1. }
    destruct (expects_ccs (ph e1)); [exact H1|].
    destruct (ph e1) as [| | | | | |[]| | | | | | |[]| |]; try (apply fail_sched; assumption).
  - (* BApp *)
    destruct (negb (complete e1) || expects_ccs (ph e1)); [apply fail_sched; assumption|].
    simpl. destruct (ph e1); try (apply fail_sched); exact H1.
Qed.

Lemma recv_dgram_sched : forall c now d e, Sched e -> Sched (fst (recv_dgram c now e d)).
Proof.
  induction d as [|r d IH]; intros e H; simpl; [exact H|].
  pose proof (recv_rec_sched c now e r H) as H1.
  destruct (recv_rec c now e r) as [e1 o1]. simpl in H1.
  specialize (IH e1 H1). destruct (recv_dgram c now e1 d). exact IH.
Qed.

Lemma expire_sched : forall c now e, Sched e -> Sched (fst (expire c now e)).
Proof.
  intros c now e H. unfold expire, Sched in *.
  destruct (ph e) as [| | | | |[]|[]| |[]| | | | | | |]; try (sch H).
  all: try (destruct (armed e); sch H).
  all: unfold write_app; cbv zeta; simpl;
    match goal with |- context [if ?b then _ else _] => destruct b end; sch H.
Qed.

Definition SchedN (n : net) : Prop := Sched (cl n) /\ Sched (sv n).

Lemma emit_sched : forall os n s, SchedN n -> SchedN (emit n s os).
Proof.
  intros os n s H. unfold SchedN. destruct (emit_fixed os n s) as (_ & A & B & _). rewrite A, B. exact H.
Qed.

Lemma hand_over_sched : forall c n p, SchedN n -> SchedN (hand_over c n p).
Proof.
  intros c n p [Hc Hs]. unfold hand_over.
  pose proof (recv_dgram_sched c (now n) (p_data p) (get_ep n (other (p_from p)))) as H.
  destruct (recv_dgram _ _ _ _) as [e os]. apply emit_sched.
  destruct (p_from p); simpl in *; split; auto.
Qed.

Lemma do_expire_sched : forall c n s, SchedN n -> SchedN (do_expire c n s).
Proof.
  intros c n s [Hc Hs]. unfold do_expire.
  pose proof (expire_sched c (now (log n (EExpire s))) (get_ep (log n (EExpire s)) s)) as H.
  destruct (expire _ _ _) as [e os]. apply emit_sched.
  destruct s; simpl in *; split; auto.
Qed.

Lemma advance_sched : forall n t, SchedN n -> SchedN (advance n t).
Proof. intros n t H. exact H. Qed.

Lemma step_sched : forall c fs n n', SchedN n -> step c fs n = Some n' -> SchedN n'.
Proof.
  intros c fs n n' H St. apply step_cases in St.
  destruct St; repeat first [apply hand_over_sched | apply do_expire_sched | apply advance_sched]; try exact H.
  subst first. destruct (tie c); destruct H; split; simpl; assumption.
Qed.

Lemma init_sched : SchedN init.
Proof. vm_compute. tauto. Qed.

Theorem sched_invariant : forall fuel c fs, SchedN (fst (run fuel c fs init)).
Proof.
  intros. apply run_invariant with (P := SchedN).
  - intros; eapply step_sched; eauto.
  - apply init_sched.
Qed.
