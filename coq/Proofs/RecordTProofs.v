(* Proofs about Model/RecordT.v. Statements are fixed; fill in the proofs. *)
From V Require Import Model.RecordT.
From Coq Require Import ZifyBool.
#[local] Ltac Zify.zify_post_hook ::= Z.div_mod_to_equations.

Definition wst_ok (w : wstate) : Prop := (0 <= bytes_sent w /\ 0 <= packets_sent w)%Z.

(* ------------------------------------------------------------------ *)
(* helpers: writer                                                     *)
(* ------------------------------------------------------------------ *)

Lemma base_gcm : base_payload MGcm = 1179%Z.
Proof. reflexivity. Qed.

Lemma base_cbc : base_payload MCbc = 1151%Z.
Proof. reflexivity. Qed.

Lemma wire_len_nonneg : forall m c, (0 <= c)%Z -> (0 <= wire_len m c)%Z.
Proof.
  intros m c Hc. unfold wire_len. destruct m; lia.
Qed.

Lemma max_payload_range : forall dyn_off m w mx w1,
  wst_ok w -> max_payload dyn_off m w = (mx, w1) ->
  (1 <= mx <= 16384)%Z /\ wst_ok w1.
Proof.
  intros dyn_off m w mx w1 [Hb Hp] Hmp.
  unfold max_payload in Hmp. cbv zeta in Hmp. unfold max_plaintext in Hmp.
  destruct dyn_off.
  - inversion Hmp; subst. unfold wst_ok. lia.
  - destruct (boost <=? bytes_sent w)%Z eqn:E1.
    + inversion Hmp; subst. unfold wst_ok. lia.
    + destruct (1000 <? packets_sent w)%Z eqn:E2.
      * inversion Hmp; subst. unfold wst_ok. cbn [bytes_sent packets_sent]. lia.
      * apply Z.ltb_ge in E2.
        assert (Hbase : (1151 <= base_payload m * (packets_sent w + 1))%Z).
        { destruct m; [rewrite base_gcm | rewrite base_cbc]; lia. }
        destruct (16384 <? base_payload m * (packets_sent w + 1))%Z eqn:E3.
        -- inversion Hmp; subst. unfold wst_ok. cbn [bytes_sent packets_sent]. lia.
        -- apply Z.ltb_ge in E3.
           inversion Hmp; subst. unfold wst_ok. cbn [bytes_sent packets_sent].
           set (q := (base_payload m * (packets_sent w + 1))%Z) in *. lia.
Qed.

Lemma write_sizes_gen : forall fuel dyn_off m w n cs w',
  wst_ok w -> (0 <= n <= Z.of_nat fuel)%Z ->
  write_sizes fuel dyn_off m w n = (cs, w') ->
  fold_right Z.add 0%Z cs = n /\ Forall (fun c => (1 <= c <= 16384)%Z) cs /\ wst_ok w'.
Proof.
  induction fuel as [|k IH]; intros dyn_off m w n cs w' Hok Hn Hws.
  - cbn [write_sizes] in Hws. inversion Hws; subst. cbn [fold_right].
    split; [lia|]. split; [constructor | exact Hok].
  - cbn [write_sizes] in Hws.
    destruct (n <=? 0)%Z eqn:En.
    + apply Z.leb_le in En. inversion Hws; subst. cbn [fold_right].
      split; [lia|]. split; [constructor | exact Hok].
    + apply Z.leb_gt in En.
      destruct (max_payload dyn_off m w) as [mx w1] eqn:Emp.
      destruct (max_payload_range _ _ _ _ _ Hok Emp) as [Hmx Hok1].
      set (c := (if (mx <? n)%Z then mx else n)) in *.
      assert (Hc : (1 <= c <= 16384 /\ c <= n)%Z).
      { unfold c. destruct (mx <? n)%Z eqn:Ec.
        - apply Z.ltb_lt in Ec. lia.
        - apply Z.ltb_ge in Ec. lia. }
      destruct (write_sizes k dyn_off m
                  (mkW (bytes_sent w1 + wire_len m c) (packets_sent w1)) (n - c))
        as [rest w3] eqn:Erec.
      inversion Hws; subst cs w'.
      assert (Hok2 : wst_ok (mkW (bytes_sent w1 + wire_len m c) (packets_sent w1))).
      { destruct Hok1 as [Hb1 Hp1]. unfold wst_ok. cbn [bytes_sent packets_sent].
        pose proof (wire_len_nonneg m c). lia. }
      assert (Hn2 : (0 <= n - c <= Z.of_nat k)%Z) by lia.
      destruct (IH _ _ _ _ _ _ Hok2 Hn2 Erec) as [Hsum [Hall Hok3]].
      cbn [fold_right]. split; [lia|]. split; [|exact Hok3].
      constructor; [lia | exact Hall].
Qed.

(* T1 every record carries between 1 and 16384 plaintext bytes, the pieces of one Write sum to
   its length (so Write reports the full length), with or without dynamic record sizing *)
Theorem write_sizes_spec : forall dyn_off m w n cs w',
  wst_ok w -> (0 <= n)%Z ->
  write_sizes (Z.to_nat n) dyn_off m w n = (cs, w') ->
  fold_right Z.add 0%Z cs = n /\ Forall (fun c => (1 <= c <= 16384)%Z) cs /\ wst_ok w'.
Proof.
  intros dyn_off m w n cs w' Hok Hn Hws.
  apply (write_sizes_gen (Z.to_nat n) dyn_off m w n cs w' Hok); [lia | exact Hws].
Qed.

(* T2 ciphertext expansion: a record with c <= 16384 plaintext bytes occupies at most
   c + 8 + 16 (GCM) / c + 16 + 32 + 16 (CBC) bytes after the 5-byte header, which is
   at most 16384 + 2048 *)
Theorem wire_len_bound : forall m c,
  (0 <= c <= 16384)%Z ->
  (wire_len m c - 5 <= c + match m with MGcm => 24 | MCbc => 64 end)%Z /\
  (wire_len m c - 5 <= 16384 + 2048)%Z /\ (c < wire_len m c - 5)%Z.
Proof.
  intros m c Hc. unfold wire_len. destruct m; lia.
Qed.

(* T3 the ramp: while dynamic sizing is active and fewer than 128 KiB were sent, the k-th
   consulted limit is min(16384, base * (k+1)) *)
Theorem ramp_closed_form : forall m w,
  (bytes_sent w < boost)%Z -> (0 <= packets_sent w <= 1000)%Z ->
  fst (max_payload false m w) =
    Z.min 16384 (base_payload m * (packets_sent w + 1)) /\
  packets_sent (snd (max_payload false m w)) = (packets_sent w + 1)%Z.
Proof.
  intros m w Hb Hp. unfold max_payload. cbv zeta. unfold max_plaintext.
  destruct (boost <=? bytes_sent w)%Z eqn:E1.
  { apply Z.leb_le in E1. lia. }
  destruct (1000 <? packets_sent w)%Z eqn:E2.
  { apply Z.ltb_lt in E2. lia. }
  cbn [fst snd packets_sent]. split; [|reflexivity].
  set (q := (base_payload m * (packets_sent w + 1))%Z).
  destruct (16384 <? q)%Z eqn:E3.
  - apply Z.ltb_lt in E3. lia.
  - apply Z.ltb_ge in E3. lia.
Qed.

Theorem base_payload_values : base_payload MGcm = 1179%Z /\ base_payload MCbc = 1151%Z.
Proof. split; reflexivity. Qed.

(* T4 cutting the data by sizes that sum to its length loses nothing and keeps the order *)
Theorem cut_concat : forall sizes data,
  Forall (fun c => (0 <= c)%Z) sizes ->
  fold_right Z.add 0%Z sizes = Z.of_nat (length data) ->
  concat (cut sizes data) = data /\ map (fun p => Z.of_nat (length p)) (cut sizes data) = sizes.
Proof.
  induction sizes as [|s t IH]; intros data Hall Hsum.
  - cbn [fold_right] in Hsum. cbn [cut concat map].
    assert (Hl : length data = 0) by lia.
    apply length_zero_iff_nil in Hl. subst. split; reflexivity.
  - inversion Hall as [|s0 t0 Hs Ht]; subst.
    cbn [fold_right] in Hsum. cbn [cut concat map].
    assert (Hpos : (0 <= fold_right Z.add 0 t)%Z).
    { clear -Ht. induction Ht as [|x l Hx Hl IHl]; cbn [fold_right]; lia. }
    assert (Hle : Z.to_nat s <= length data) by lia.
    destruct (IH (skipn (Z.to_nat s) data) Ht) as [Hc Hm].
    { rewrite skipn_length. lia. }
    rewrite Hc, Hm. split.
    + apply firstn_skipn.
    + rewrite firstn_length. f_equal. lia.
Qed.

(* ------------------------------------------------------------------ *)
(* helpers: reader                                                     *)
(* ------------------------------------------------------------------ *)

Lemma fill_some : forall (t : transport) (raw : list byte) (need : nat) (s : list byte),
  raw ++ concat t = s -> need <= length s ->
  exists raw' t', fill raw t need = Some (raw', t') /\
                  raw' ++ concat t' = s /\ need <= length raw'.
Proof.
  induction t as [|c r IH]; intros raw need s Hs Hneed.
  - cbn [concat] in Hs. rewrite app_nil_r in Hs. subst s.
    cbn [fill]. destruct (Nat.leb need (length raw)) eqn:E.
    + exists raw, []. cbn [concat]. rewrite app_nil_r.
      split; [reflexivity|]. split; [reflexivity|]. apply Nat.leb_le. exact E.
    + apply Nat.leb_gt in E. lia.
  - cbn [fill]. destruct (Nat.leb need (length raw)) eqn:E.
    + exists raw, (c :: r). split; [reflexivity|]. split; [exact Hs|].
      apply Nat.leb_le. exact E.
    + apply (IH (raw ++ c) need s); [|exact Hneed].
      cbn [concat] in Hs. rewrite <- app_assoc. exact Hs.
Qed.

Lemma fill_none : forall (t : transport) (raw : list byte) (need : nat),
  length (raw ++ concat t) < need -> fill raw t need = None.
Proof.
  induction t as [|c r IH]; intros raw need Hlt.
  - cbn [concat] in Hlt. rewrite app_nil_r in Hlt. cbn [fill].
    destruct (Nat.leb need (length raw)) eqn:E; [|reflexivity].
    apply Nat.leb_le in E. lia.
  - cbn [fill]. destruct (Nat.leb need (length raw)) eqn:E.
    + apply Nat.leb_le in E. rewrite app_length in Hlt. lia.
    + apply IH. cbn [concat] in Hlt. rewrite <- app_assoc. exact Hlt.
Qed.

Lemma app_prefix_split : forall (p raw u s : list byte),
  raw ++ u = p ++ s -> length p <= length raw ->
  exists r, raw = p ++ r /\ r ++ u = s.
Proof.
  induction p as [|x p IH]; intros raw u s Heq Hlen.
  - exists raw. split; [reflexivity | exact Heq].
  - destruct raw as [|y raw]; cbn [length] in Hlen; [lia|].
    cbn [app] in Heq. injection Heq as Hxy Hrest. subst y.
    destruct (IH raw u s Hrest) as [r [Hr Hu]]; [lia|].
    exists r. split; [cbn [app]; rewrite Hr; reflexivity | exact Hu].
Qed.

Lemma firstn_app_exact : forall (a b : list byte), firstn (length a) (a ++ b) = a.
Proof.
  induction a as [|x a IH]; intros b; cbn [length firstn app]; [reflexivity|].
  rewrite IH. reflexivity.
Qed.

Lemma skipn_app_exact : forall (a b : list byte), skipn (length a) (a ++ b) = b.
Proof.
  induction a as [|x a IH]; intros b; cbn [length skipn app]; [reflexivity|].
  apply IH.
Qed.

Lemma hdr_length : forall n, length (hdr_of n) = 5.
Proof. intros n. reflexivity. Qed.

Lemma frame_length : forall b, length (frame b) = 5 + length b.
Proof. intros b. unfold frame. rewrite app_length, hdr_length. reflexivity. Qed.

Lemma hdr_decode : forall n rest, n < 65536 ->
  N.to_nat (nth 3 (hdr_of n ++ rest) 0%N) * 256 + N.to_nat (nth 4 (hdr_of n ++ rest) 0%N) = n.
Proof.
  intros n rest Hn. unfold hdr_of. cbn [app nth].
  rewrite !Nat2N.id. pose proof (Nat.div_mod n 256). lia.
Qed.

Lemma read_record_frame : forall (b s' raw : list byte) (t : transport),
  length b < 65536 ->
  raw ++ concat t = frame b ++ s' ->
  exists raw' t', read_record raw t = Some (b, raw', t') /\ raw' ++ concat t' = s'.
Proof.
  intros b s' raw t Hb Hs.
  unfold read_record.
  destruct (fill_some t raw 5 (frame b ++ s') Hs) as [raw1 [t1 [Hf1 [Hs1 Hl1]]]].
  { rewrite app_length, frame_length. lia. }
  rewrite Hf1.
  assert (Hhdr : exists r1, raw1 = hdr_of (length b) ++ r1).
  { unfold frame in Hs1. rewrite <- app_assoc in Hs1.
    destruct (app_prefix_split _ _ _ _ Hs1) as [r1 [Hr1 _]].
    - rewrite hdr_length. exact Hl1.
    - exists r1. exact Hr1. }
  destruct Hhdr as [r1 Hr1].
  assert (Hn : N.to_nat (nth 3 raw1 0%N) * 256 + N.to_nat (nth 4 raw1 0%N) = length b).
  { rewrite Hr1. apply hdr_decode. exact Hb. }
  rewrite Hn.
  destruct (fill_some t1 raw1 (5 + length b) (frame b ++ s') Hs1) as [raw2 [t2 [Hf2 [Hs2 Hl2]]]].
  { rewrite app_length, frame_length. lia. }
  rewrite Hf2.
  destruct (app_prefix_split _ _ _ _ Hs2) as [r2 [Hr2 Hu2]].
  { rewrite frame_length. exact Hl2. }
  exists (skipn (5 + length b) raw2), t2.
  assert (Hskip : skipn (5 + length b) raw2 = r2).
  { rewrite Hr2. rewrite <- frame_length. apply skipn_app_exact. }
  assert (Hbody : firstn (length b) (skipn 5 raw2) = b).
  { rewrite Hr2. unfold frame. rewrite <- app_assoc.
    change (skipn 5 (hdr_of (length b) ++ b ++ r2)) with (b ++ r2).
    apply firstn_app_exact. }
  rewrite Hbody, Hskip. split; [reflexivity | exact Hu2].
Qed.

Lemma read_records_S : forall k raw t,
  read_records (S k) raw t =
  match read_record raw t with
  | None => []
  | Some (b, raw', t') => b :: read_records k raw' t'
  end.
Proof. reflexivity. Qed.

Lemma read_records_frames : forall (bodies : list (list byte)) (raw : list byte) (t : transport),
  Forall (fun b => length b < 65536) bodies ->
  raw ++ concat t = concat (map frame bodies) ->
  read_records (S (length bodies)) raw t = bodies.
Proof.
  induction bodies as [|b bs IH]; intros raw t Hall Hs.
  - cbn [map concat] in Hs. cbn [length]. rewrite read_records_S.
    unfold read_record. rewrite fill_none; [reflexivity|].
    rewrite Hs. cbn [length]. lia.
  - inversion Hall as [|b0 bs0 Hb Hbs]; subst.
    cbn [map concat] in Hs. cbn [length]. rewrite read_records_S.
    destruct (read_record_frame b _ raw t Hb Hs) as [raw' [t' [Hrr Hs']]].
    rewrite Hrr. f_equal. apply IH; assumption.
Qed.

(* T5 deframing is independent of how the transport segments the byte stream: for every
   chunking t of the concatenated frames, the reader recovers exactly the bodies, in order *)
Theorem deframe_any_segmentation : forall (bodies : list (list byte)) (t : transport),
  Forall (fun b => length b < 65536) bodies ->
  wf_transport t ->
  concat t = concat (map frame bodies) ->
  read_records (S (length bodies)) [] t = bodies.
Proof.
  intros bodies t Hall _ Hs.
  apply read_records_frames; [exact Hall|]. cbn [app]. exact Hs.
Qed.

(* T6 Conn.Read hands out the buffered plaintext exactly, in order, for any buffer sizes >= 1:
   what has been read so far is a prefix of the stream, and with enough reads it is all of it *)
Theorem reads_are_prefix : forall recs bufs input,
  Forall (fun b => 1 <= b) bufs ->
  exists rest, concat (conn_reads input recs bufs) ++ rest = input ++ concat recs.
Proof.
  intros recs bufs. revert recs.
  induction bufs as [|b bt IH]; intros recs input Hall.
  - cbn [conn_reads concat app]. exists (input ++ concat recs). reflexivity.
  - inversion Hall as [|b0 bt0 Hb Hbt]; subst.
    destruct input as [|a l].
    + destruct recs as [|r rt].
      * cbn [conn_reads concat app]. exists []. reflexivity.
      * cbn [conn_reads concat app].
        destruct (IH rt (skipn b r) Hbt) as [rest Hrest].
        exists rest. rewrite <- app_assoc, Hrest, app_assoc, firstn_skipn. reflexivity.
    + cbn [conn_reads concat].
      destruct (IH recs (skipn b (a :: l)) Hbt) as [rest Hrest].
      exists rest. rewrite <- app_assoc, Hrest, app_assoc, firstn_skipn. reflexivity.
Qed.

Theorem reads_complete : forall recs bufs input,
  Forall (fun b => 1 <= b) bufs ->
  Forall (fun r => r <> []) recs ->
  length (input ++ concat recs) <= length bufs ->
  concat (conn_reads input recs bufs) = input ++ concat recs.
Proof.
  intros recs bufs. revert recs.
  induction bufs as [|b bt IH]; intros recs input Hall Hne Hlen.
  - cbn [length] in Hlen. cbn [conn_reads concat].
    assert (H0 : length (input ++ concat recs) = 0) by lia.
    apply length_zero_iff_nil in H0. rewrite H0. reflexivity.
  - inversion Hall as [|b0 bt0 Hb Hbt]; subst.
    cbn [length] in Hlen.
    destruct input as [|a l].
    + destruct recs as [|r rt].
      * reflexivity.
      * inversion Hne as [|r0 rt0 Hr Hrt]; subst.
        cbn [conn_reads concat app]. cbn [concat app] in Hlen.
        rewrite IH; [| exact Hbt | exact Hrt |].
        -- rewrite app_assoc, firstn_skipn. reflexivity.
        -- rewrite app_length in *. rewrite skipn_length.
           destruct r as [|x r]; [congruence|]. cbn [length] in *. lia.
    + cbn [conn_reads concat].
      rewrite IH; [| exact Hbt | exact Hne |].
      * rewrite app_assoc, firstn_skipn. reflexivity.
      * rewrite app_length in *. rewrite skipn_length. cbn [length] in *. lia.
Qed.

(* ------------------------------------------------------------------ *)
(* helpers: end to end                                                 *)
(* ------------------------------------------------------------------ *)

Definition write_ok (d : list byte) (s : list Z) : Prop :=
  fold_right Z.add 0%Z s = Z.of_nat (length d) /\
  Forall (fun c => (1 <= c <= 16384)%Z) s.

Lemma writes_sizes_ok : forall (datas : list (list byte)) dyn_off m w sizes w',
  wst_ok w ->
  writes_sizes dyn_off m w (map (fun d => Z.of_nat (length d)) datas) = (sizes, w') ->
  Forall2 write_ok datas sizes /\ wst_ok w'.
Proof.
  induction datas as [|d ds IH]; intros dyn_off m w sizes w' Hok Hws.
  - cbn [map writes_sizes] in Hws. inversion Hws; subst.
    split; [constructor | exact Hok].
  - cbn [map writes_sizes] in Hws.
    destruct (write_sizes (Z.to_nat (Z.of_nat (length d))) dyn_off m w (Z.of_nat (length d)))
      as [cs w1] eqn:E1.
    destruct (writes_sizes dyn_off m w1 (map (fun d0 => Z.of_nat (length d0)) ds))
      as [rest w2] eqn:E2.
    inversion Hws; subst sizes w'.
    destruct (write_sizes_spec _ _ _ _ _ _ Hok (Nat2Z.is_nonneg (length d)) E1)
      as [Hsum [Hall Hok1]].
    destruct (IH _ _ _ _ _ Hok1 E2) as [HF2 Hok2].
    split; [|exact Hok2].
    constructor; [|exact HF2]. split; assumption.
Qed.

Lemma lengths_pos_nonempty : forall (l : list (list byte)) (s : list Z),
  map (fun p => Z.of_nat (length p)) l = s ->
  Forall (fun c => (1 <= c <= 16384)%Z) s ->
  Forall (fun r => r <> []) l.
Proof.
  induction l as [|x l IH]; intros s Hm Hall.
  - constructor.
  - cbn [map] in Hm. subst s. inversion Hall as [|c0 s0 Hc Hs]; subst.
    constructor.
    + intros Hx. subst x. cbn [length] in Hc. lia.
    + apply (IH _ eq_refl Hs).
Qed.

Lemma chunks_ok : forall (datas : list (list byte)) (sizes : list (list Z)),
  Forall2 write_ok datas sizes ->
  concat (concat (map (fun '(d, s) => cut s d) (combine datas sizes))) = concat datas /\
  Forall (fun r => r <> []) (concat (map (fun '(d, s) => cut s d) (combine datas sizes))).
Proof.
  intros datas sizes HF. induction HF as [|d s ds ss [Hsum Hall] HF IH].
  - cbn [combine map concat]. split; [reflexivity | constructor].
  - cbn [combine map concat]. destruct IH as [IHc IHn].
    assert (Hnn : Forall (fun c => (0 <= c)%Z) s).
    { eapply Forall_impl; [|exact Hall]. intros a Ha. cbv beta in Ha. lia. }
    destruct (cut_concat s d Hnn Hsum) as [Hcc Hcm].
    split.
    + rewrite concat_app, Hcc, IHc. reflexivity.
    + apply Forall_app. split; [|exact IHn].
      apply (lengths_pos_nonempty _ _ Hcm Hall).
Qed.

(* T7 end to end on the model: any writes, any segmentation, any read buffers *)
Theorem stream_identity : forall dyn_off m w (datas : list (list byte)) sizes w' t bufs
                                 (seal : list byte -> list byte),
  wst_ok w ->
  writes_sizes dyn_off m w (map (fun d => Z.of_nat (length d)) datas) = (sizes, w') ->
  let chunks := concat (map (fun '(d, s) => cut s d) (combine datas sizes)) in
  (forall c, length (seal c) < 65536) ->
  wf_transport t -> concat t = concat (map (fun c => frame (seal c)) chunks) ->
  Forall (fun b => 1 <= b) bufs -> length (concat datas) <= length bufs ->
  (* the reader deframes, opens each record (open (seal c) = c) and hands the bytes out *)
  forall (open : list byte -> list byte), (forall c, open (seal c) = c) ->
  concat (conn_reads [] (map open (read_records (S (length chunks)) [] t)) bufs) = concat datas.
Proof.
  intros dyn_off m w datas sizes w' t bufs seal Hok Hws chunks Hseal Hwf Ht Hbufs Hlen
         open Hopen.
  destruct (writes_sizes_ok _ _ _ _ _ _ Hok Hws) as [HF2 _].
  destruct (chunks_ok _ _ HF2) as [Hcc Hne].
  fold chunks in Hcc, Hne.
  assert (Hrr : read_records (S (length chunks)) [] t = map seal chunks).
  { rewrite <- (map_length seal chunks).
    apply deframe_any_segmentation.
    - apply Forall_forall. intros x Hx. apply in_map_iff in Hx.
      destruct Hx as [c [Hc _]]. subst x. apply Hseal.
    - exact Hwf.
    - rewrite map_map. exact Ht. }
  rewrite Hrr.
  assert (Hmo : map open (map seal chunks) = chunks).
  { rewrite map_map. rewrite <- (map_id chunks) at 2.
    apply map_ext. intros a. apply Hopen. }
  rewrite Hmo.
  rewrite reads_complete.
  - cbn [app]. exact Hcc.
  - exact Hbufs.
  - exact Hne.
  - cbn [app]. rewrite Hcc. exact Hlen.
Qed.

Print Assumptions write_sizes_spec.
Print Assumptions wire_len_bound.
Print Assumptions ramp_closed_form.
Print Assumptions base_payload_values.
Print Assumptions cut_concat.
Print Assumptions deframe_any_segmentation.
Print Assumptions reads_are_prefix.
Print Assumptions reads_complete.
Print Assumptions stream_identity.
