(* C05: the numbers of Model/RecordAttack are the ones the sources declare (Model/GenConsts.v is regenerated
   from the repository on every run) *)
From Coq Require Import ZArith List.
From V Require Import Model.GenConsts Model.RecordAttack.
Open Scope Z_scope.
Definition tie : Prop :=
  Z.of_nat RecordAttack.max_ciphertext = GenConsts.T.maxCiphertext /\
  Z.of_nat RecordAttack.max_useless = GenConsts.T.maxUselessRecords /\
  GenConsts.T.recordHeaderLen = 5 /\
  GenConsts.T.recordTypeChangeCipherSpec = 20 /\ GenConsts.T.recordTypeAlert = 21 /\
  GenConsts.T.recordTypeHandshake = 22 /\ GenConsts.T.recordTypeApplicationData = 23 /\
  GenConsts.T.alertBadRecordMAC = 20 /\ GenConsts.T.alertRecordOverflow = 22 /\
  GenConsts.T.alertUnexpectedMessage = 10 /\ GenConsts.T.alertCloseNotify = 0 /\
  GenConsts.T.alertLevelWarning = 1 /\ GenConsts.T.alertLevelError = 2.
Lemma tie_holds : tie.
Proof. unfold tie. vm_compute. repeat split. Qed.
