(* Structural lemmas about Model/DSim.v shared by all the proofs *)
From V Require Import Model.DSim.
From Coq Require Import Lia.

Lemma all_cfgs_complete : forall c, In c all_cfgs.
Proof. intros [[] [] []]; simpl; tauto. Qed.

Lemma other_other : forall s, other (other s) = s.
Proof. destruct s; reflexivity. Qed.

Lemma side_eqb_eq : forall a b, side_eqb a b = true <-> a = b.
Proof. destruct a, b; simpl; split; congruence. Qed.

Lemma side_eqb_refl : forall a, side_eqb a a = true.
Proof. destruct a; reflexivity. Qed.

(* ------------------------------------------------------------------ the shape of one step *)
Definition advance (n : net) (t : N) : net :=
  let n := set_now n t in
  let hs := sort_rel (held n) in
  set_ready (set_held n (filter (fun h => negb (fst h <=? t)) hs))
            (map snd (filter (fun h => fst h <=? t) hs)).

Inductive step_shape (c : cfg) (fs : list fault) (n : net) : net -> Prop :=
| SS_late p r : ready n = p :: r ->
    step_shape c fs n (hand_over c (log (set_ready n r) (ENet Nlate (p_from p) (p_idx p))) p)
| SS_drop p q f : ready n = [] -> queue n = p :: q -> decide fs p = Some f -> f_kind f = FDrop ->
    step_shape c fs n (log (set_queue n q) (ENet Ndrop (p_from p) (p_idx p)))
| SS_dup p q f : ready n = [] -> queue n = p :: q -> decide fs p = Some f -> f_kind f = FDup ->
    step_shape c fs n
      (hand_over c (hand_over c (log (log (set_queue n q) (ENet Ndeliver (p_from p) (p_idx p))) (ENet Ndup (p_from p) (p_idx p))) p) p)
| SS_hold p q f : ready n = [] -> queue n = p :: q -> decide fs p = Some f -> f_kind f = FDelay ->
    step_shape c fs n
      (log (set_held (set_queue n q) (held n ++ [(now n + f_ms f, p)])) (ENet Nhold (p_from p) (p_idx p)))
| SS_deliver p q : ready n = [] -> queue n = p :: q -> decide fs p = None ->
    step_shape c fs n (hand_over c (log (set_queue n q) (ENet Ndeliver (p_from p) (p_idx p))) p)
| SS_both t : ready n = [] -> queue n = [] ->
    let n1 := advance n t in
    let first := if tie c then Sv else Cl in
    let e2 := get_ep n1 (other first) in
    step_shape c fs n (do_expire c (put_ep n1 (other first) (set_timer e2 (cur e2) (Some (t + 1)) (armed e2))) first)
| SS_one t s : ready n = [] -> queue n = [] ->
    step_shape c fs n (do_expire c (advance n t) s)
| SS_idle t : ready n = [] -> queue n = [] ->
    step_shape c fs n (advance n t).

Lemma step_cases : forall c fs n n', step c fs n = Some n' -> step_shape c fs n n'.
Proof.
  intros c fs n n' H. unfold step in H.
  destruct (fin (cl n) && fin (sv n) && match queue n with [] => true | _ => false end); [discriminate|].
  destruct (ready n) as [|p r] eqn:Er.
  - destruct (queue n) as [|p q] eqn:Eq.
    + match type of H with match ?x with _ => _ end = _ => destruct x as [t|]; [|discriminate] end.
      destruct (t_cap <? t); [discriminate|].
      fold (advance n (N.max t (now n))) in H.
      destruct (due _ _); destruct (due _ _); inversion H; subst; clear H.
      * apply SS_both; assumption.
      * apply SS_one; assumption.
      * apply SS_one; assumption.
      * apply SS_idle; assumption.
    + destruct (decide fs p) as [[fs_ fi [] ms]|] eqn:Ed; inversion H; subst; clear H.
      * eapply SS_drop; eauto.
      * eapply SS_dup; eauto.
      * change ms with (f_ms (mkFault fs_ fi FDelay ms)). eapply SS_hold; eauto.
      * eapply SS_deliver; eauto.
  - inversion H; subst. apply SS_late. assumption.
Qed.

Lemma run_S : forall k c fs n,
  run (S k) c fs n = match step c fs n with None => (n, true) | Some n' => run k c fs n' end.
Proof. reflexivity. Qed.

(* an invariant of the states reachable by [run] *)
Lemma run_invariant (P : net -> Prop) c fs :
  (forall n n', P n -> step c fs n = Some n' -> P n') ->
  forall fuel n, P n -> P (fst (run fuel c fs n)).
Proof.
  intros Hs. induction fuel; intros n Hn; simpl.
  - assumption.
  - destruct (step c fs n) eqn:E; simpl; eauto.
Qed.

(* fields untouched by emit *)
Lemma emit_fixed : forall os n s,
  now (emit n s os) = now n /\ cl (emit n s os) = cl n /\ sv (emit n s os) = sv n /\
  ready (emit n s os) = ready n /\ held (emit n s os) = held n.
Proof.
  induction os as [|o os IH]; intros n s; simpl.
  - tauto.
  - destruct o;
      match goal with |- context [emit ?m s os] => destruct (IH m s) as (A & B & C & D & E) end;
      rewrite A, B, C, D, E; simpl; tauto.
Qed.
