(* C11: the capacity NewLRUSessionCache selects for a capacity below 1 *)
From Coq Require Import ZArith List.
From V Require Import Model.GenConsts Model.Lru.
Open Scope Z_scope.
Definition tie : Prop :=
  Z.of_nat (Lru.cap (Lru.lru_init 0)) = GenConsts.T.NewLRUSessionCache_defaultSessionCacheCapacity /\
  Z.of_nat (Lru.cap (Lru.lru_init 0)) = GenConsts.D.NewLRUSessionCache_defaultSessionCacheCapacity.
Lemma tie_holds : tie.
Proof. unfold tie. vm_compute. repeat split. Qed.
