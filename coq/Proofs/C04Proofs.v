(* Proofs for C04 about the specification itself (Spec/SM4, Modes, PRF, RecordProt) and about the
   model of extractPadding (Model/Padding). *)
From Coq Require Import NArith Arith List Lia Bool ZArith.
From Coq Require Import ZifyN ZifyNat ZifyBool.
From V Require Import Spec.RecordProt Model.Padding.
Import ListNotations.
Open Scope N_scope.
Ltac Zify.zify_post_hook ::= Z.div_mod_to_equations.


(* ---------------------------------------------------------------- bit operations as arithmetic *)
Lemma lo8_mod : forall x, lo8 x = x mod 256.
Proof. intro x. unfold lo8. change 255 with (N.ones 8). rewrite N.land_ones. reflexivity. Qed.
Lemma w32f_mod : forall x, w32f x = x mod 4294967296.
Proof. intro x. unfold w32f. change 4294967295 with (N.ones 32). rewrite N.land_ones. reflexivity. Qed.
Lemma lo8_lt : forall x, lo8 x < 256.
Proof. intro x. rewrite lo8_mod. apply N.mod_lt. discriminate. Qed.
Lemma w32f_lt : forall x, w32f x < 4294967296.
Proof. intro x. rewrite w32f_mod. apply N.mod_lt. discriminate. Qed.

Lemma lxor_lt_pow2 : forall n a b, a < 2 ^ n -> b < 2 ^ n -> N.lxor a b < 2 ^ n.
Proof.
  intros n a b Ha Hb.
  destruct (N.eq_dec (N.lxor a b) 0) as [E | E].
  - rewrite E. apply N.neq_0_lt_0. apply N.pow_nonzero. discriminate.
  - apply N.log2_lt_pow2; [apply N.neq_0_lt_0; exact E |].
    eapply N.le_lt_trans; [apply N.log2_lxor |].
    apply N.max_lub_lt.
    + destruct (N.eq_dec a 0) as [-> | Na].
      * cbn. destruct (N.eq_dec b 0) as [-> | Nb]; [rewrite N.lxor_0_l in E; congruence |].
        destruct n; [cbn in Hb; lia | lia].
      * apply N.log2_lt_pow2; [apply N.neq_0_lt_0; exact Na | exact Ha].
    + destruct (N.eq_dec b 0) as [-> | Nb].
      * cbn. destruct (N.eq_dec a 0) as [-> | Na]; [rewrite N.lxor_0_l in E; congruence |].
        destruct n; [cbn in Ha; lia | lia].
      * apply N.log2_lt_pow2; [apply N.neq_0_lt_0; exact Nb | exact Hb].
Qed.

Lemma lxor_lt_256 : forall a b, a < 256 -> b < 256 -> N.lxor a b < 256.
Proof. intros. change 256 with (2 ^ 8). apply lxor_lt_pow2; assumption. Qed.
Lemma lxor_lt_w32 : forall a b, a < 4294967296 -> b < 4294967296 -> N.lxor a b < 4294967296.
Proof. intros. change 4294967296 with (2 ^ 32). apply lxor_lt_pow2; assumption. Qed.

Lemma lxor_cancel_r : forall a b, N.lxor (N.lxor a b) b = a.
Proof. intros. rewrite N.lxor_assoc, N.lxor_nilpotent, N.lxor_0_r. reflexivity. Qed.

(* ---------------------------------------------------------------- SM4: words and blocks *)
Definition wf_word (w : N) : Prop := w < 4294967296.
Definition wf_state (s : state) : Prop :=
  let '(a, b, c, d) := s in wf_word a /\ wf_word b /\ wf_word c /\ wf_word d.

Lemma word_of4_lt : forall a b c d, a < 256 -> b < 256 -> c < 256 -> d < 256 -> word_of4 a b c d < 4294967296.
Proof. intros. unfold word_of4. lia. Qed.

Lemma bytes_of_word4_of4 : forall a b c d, a < 256 -> b < 256 -> c < 256 -> d < 256 ->
  bytes_of_word4 (word_of4 a b c d) = [a; b; c; d].
Proof.
  intros a b c d Ha Hb Hc Hd. unfold bytes_of_word4, word_of4.
  rewrite !lo8_mod, !N.shiftr_div_pow2.
  change (2 ^ 24) with 16777216. change (2 ^ 16) with 65536. change (2 ^ 8) with 256.
  repeat f_equal; lia.
Qed.

Lemma word_of4_bytes : forall w, w < 4294967296 ->
  word_of4 (lo8 (N.shiftr w 24)) (lo8 (N.shiftr w 16)) (lo8 (N.shiftr w 8)) (lo8 w) = w.
Proof.
  intros w Hw. unfold word_of4. rewrite !lo8_mod, !N.shiftr_div_pow2.
  change (2 ^ 24) with 16777216. change (2 ^ 16) with 65536. change (2 ^ 8) with 256.
  lia.
Qed.

Lemma state_block_state : forall s, wf_state s -> state_of_block (block_of_state s) = s.
Proof.
  intros [[[a b] c] d] (Ha & Hb & Hc & Hd). unfold block_of_state, bytes_of_word4. cbn [app state_of_block].
  rewrite !word_of4_bytes by assumption. reflexivity.
Qed.

Lemma block_state_block : forall b, wf_block b -> block_of_state (state_of_block b) = b.
Proof.
  intros b [Hl Hb]. do 16 (destruct b as [| ? b]; [discriminate Hl |]). destruct b; [| discriminate Hl].
  unfold wf_bytes in Hb. repeat match goal with H : Forall _ (_ :: _) |- _ => inversion H; clear H; subst end.
  unfold wf_byte in *. cbn [state_of_block block_of_state].
  rewrite !bytes_of_word4_of4 by assumption. reflexivity.
Qed.

Lemma state_of_block_wf : forall b, wf_bytes b -> wf_state (state_of_block b).
Proof.
  intros b Hb. unfold state_of_block.
  do 16 (destruct b as [| ? b]; [cbn; unfold wf_word; repeat split; lia |]).
  destruct b; [| cbn; unfold wf_word; repeat split; lia].
  unfold wf_bytes in Hb. repeat match goal with H : Forall _ (_ :: _) |- _ => inversion H; clear H; subst end.
  unfold wf_byte in *. cbn. unfold wf_word. repeat split; apply word_of4_lt; assumption.
Qed.

Lemma block_of_state_wf : forall s, wf_block (block_of_state s).
Proof.
  intros [[[a b] c] d]. split; [reflexivity |].
  unfold block_of_state, bytes_of_word4, wf_bytes. cbn [app]. repeat constructor; apply lo8_lt.
Qed.

(* ---------------------------------------------------------------- SM4: the Feistel argument *)
Lemma xor4_rev : forall b c d rk, xor4 d c b rk = xor4 b c d rk.
Proof.
  intros. unfold xor4. f_equal. apply N.bits_inj. intro i. rewrite !N.lxor_spec.
  destruct (N.testbit b i), (N.testbit c i), (N.testbit d i); reflexivity.
Qed.

Lemma round_rev4_round : forall s rk, sm4_round (rev4 (sm4_round s rk)) rk = rev4 s.
Proof.
  intros [[[a b] c] d] rk. cbn [sm4_round rev4].
  rewrite xor4_rev. rewrite lxor_cancel_r. reflexivity.
Qed.

Lemma fold_round_rev : forall rks s,
  fold_left sm4_round (rev rks) (rev4 (fold_left sm4_round rks s)) = rev4 s.
Proof.
  induction rks as [| rk t IH]; intro s.
  - reflexivity.
  - cbn [rev fold_left]. rewrite fold_left_app. cbn [fold_left]. rewrite IH. apply round_rev4_round.
Qed.

Lemma rev4_involutive : forall s, rev4 (rev4 s) = s.
Proof. intros [[[a b] c] d]. reflexivity. Qed.
Lemma rev4_wf : forall s, wf_state s -> wf_state (rev4 s).
Proof. intros [[[a b] c] d] (Ha & Hb & Hc & Hd). cbn. tauto. Qed.
Lemma round_wf : forall s rk, wf_state s -> wf_state (sm4_round s rk).
Proof.
  intros [[[a b] c] d] rk (Ha & Hb & Hc & Hd). cbn [sm4_round wf_state]. repeat split; try assumption.
  apply lxor_lt_w32; [assumption | apply w32f_lt].
Qed.
Lemma fold_round_wf : forall rks s, wf_state s -> wf_state (fold_left sm4_round rks s).
Proof. induction rks; intros s H; cbn [fold_left]; [assumption | apply IHrks, round_wf, H]. Qed.

Lemma sm4_crypt_rev : forall rks b, wf_block b -> sm4_crypt (rev rks) (sm4_crypt rks b) = b.
Proof.
  intros rks b Hb. unfold sm4_crypt.
  rewrite state_block_state.
  - rewrite fold_round_rev, rev4_involutive. apply block_state_block, Hb.
  - apply rev4_wf, fold_round_wf, state_of_block_wf, Hb.
Qed.

Lemma sm4_crypt_wf : forall rks b, wf_block (sm4_crypt rks b).
Proof. intros. apply block_of_state_wf. Qed.

Theorem sm4_roundtrip : forall key b, wf_block b -> sm4_decrypt key (sm4_encrypt key b) = b.
Proof. intros. apply sm4_crypt_rev. assumption. Qed.
Theorem sm4_roundtrip' : forall key b, wf_block b -> sm4_encrypt key (sm4_decrypt key b) = b.
Proof.
  intros key b Hb. unfold sm4_encrypt, sm4_decrypt.
  rewrite <- (rev_involutive (round_keys key)) at 1. apply sm4_crypt_rev. assumption.
Qed.


(* ---------------------------------------------------------------- byte strings *)
Lemma xor_bytes_length : forall a b, length (xor_bytes a b) = Nat.min (length a) (length b).
Proof. induction a; destruct b; cbn; auto. Qed.

Lemma xor_bytes_cancel : forall a b, (length a <= length b)%nat -> xor_bytes (xor_bytes a b) b = a.
Proof.
  induction a as [| x a IH]; intros [| y b] H; cbn in *; try reflexivity; try lia.
  rewrite lxor_cancel_r, IH by lia. reflexivity.
Qed.

Lemma xor_bytes_wf : forall a b, wf_bytes a -> wf_bytes b -> wf_bytes (xor_bytes a b).
Proof.
  unfold wf_bytes. induction a as [| x a IH]; intros [| y b] Ha Hb; cbn; try constructor.
  - inversion Ha; inversion Hb; subst. apply lxor_lt_256; assumption.
  - inversion Ha; inversion Hb; subst. apply IH; assumption.
Qed.

Lemma xor_block_wf : forall a b, wf_block a -> wf_block b -> wf_block (xor_bytes a b).
Proof.
  intros a b [La Ha] [Lb Hb]. split; [rewrite xor_bytes_length; lia | apply xor_bytes_wf; assumption].
Qed.

Lemma bytes_eq_refl : forall a, bytes_eq a a = true.
Proof. induction a; cbn; [reflexivity | rewrite N.eqb_refl, IHa; reflexivity]. Qed.
Lemma bytes_eq_true : forall a b, bytes_eq a b = true -> a = b.
Proof.
  induction a; destruct b; cbn; intro H; try discriminate; [reflexivity |].
  apply andb_true_iff in H as [H1 H2]. apply N.eqb_eq in H1. subst. f_equal. auto.
Qed.

Lemma wf_bytes_app : forall a b, wf_bytes (a ++ b) <-> wf_bytes a /\ wf_bytes b.
Proof. intros. unfold wf_bytes. apply Forall_app. Qed.
Lemma wf_bytes_firstn : forall n l, wf_bytes l -> wf_bytes (firstn n l).
Proof. intros n l H. unfold wf_bytes in *. rewrite <- (firstn_skipn n l) in H. apply Forall_app in H. tauto. Qed.
Lemma wf_bytes_skipn : forall n l, wf_bytes l -> wf_bytes (skipn n l).
Proof. intros n l H. unfold wf_bytes in *. rewrite <- (firstn_skipn n l) in H. apply Forall_app in H. tauto. Qed.

(* ---------------------------------------------------------------- cutting into blocks *)
Lemma blocks16_step : forall fuel l, l <> [] ->
  blocks16 (S fuel) l = firstn 16 l :: blocks16 fuel (skipn 16 l).
Proof. intros fuel [| x l] H; [congruence | reflexivity]. Qed.

Lemma blocks16_spec : forall n fuel l,
  length l = (16 * n)%nat -> (length l <= fuel)%nat -> wf_bytes l ->
  concat (blocks16 fuel l) = l /\ Forall wf_block (blocks16 fuel l).
Proof.
  induction n as [| n IH]; intros fuel l Hl Hf Hw.
  - destruct l; [| discriminate]. destruct fuel; cbn; auto.
  - destruct fuel as [| fuel]; [lia |].
    rewrite blocks16_step by (destruct l; [discriminate | congruence]).
    assert (Hs : length (skipn 16 l) = (16 * n)%nat) by (rewrite skipn_length; lia).
    destruct (IH fuel (skipn 16 l) Hs ltac:(lia) (wf_bytes_skipn _ _ Hw)) as [Hc Hb].
    cbn [concat]. rewrite Hc. split; [apply firstn_skipn |].
    constructor; [| exact Hb]. split; [rewrite firstn_length; lia | apply wf_bytes_firstn, Hw].
Qed.

Lemma to_blocks_spec : forall n l, length l = (16 * n)%nat -> wf_bytes l ->
  concat (to_blocks l) = l /\ Forall wf_block (to_blocks l).
Proof. intros n l Hl Hw. apply (blocks16_spec n); auto. Qed.

Lemma blocks16_concat : forall bs fuel, Forall (fun b => length b = 16%nat) bs ->
  (length (concat bs) <= fuel)%nat -> blocks16 fuel (concat bs) = bs.
Proof.
  induction bs as [| b t IH]; intros fuel Hb Hf.
  - destruct fuel; reflexivity.
  - inversion Hb as [| ? ? Hlb Ht]; subst. cbn [concat] in *. rewrite app_length in Hf.
    destruct fuel as [| fuel]; [lia |].
    rewrite blocks16_step by (destruct b; [discriminate | cbn; congruence]).
    rewrite firstn_app, skipn_app, Hlb. rewrite firstn_all2 by lia. rewrite skipn_all2 by lia.
    replace (16 - 16)%nat with 0%nat by lia. cbn [firstn skipn app]. rewrite app_nil_r.
    f_equal. apply IH; [exact Ht | lia].
Qed.

Lemma to_blocks_concat : forall bs, Forall (fun b => length b = 16%nat) bs -> to_blocks (concat bs) = bs.
Proof. intros. apply blocks16_concat; auto. Qed.

(* ---------------------------------------------------------------- CBC *)
Lemma cbc_blocks_roundtrip : forall rks bs prev, wf_block prev -> Forall wf_block bs ->
  cbc_dec_blocks (rev rks) prev (cbc_enc_blocks rks prev bs) = bs.
Proof.
  induction bs as [| b t IH]; intros prev Hp Hb; [reflexivity |].
  inversion Hb; subst. cbn [cbc_enc_blocks cbc_dec_blocks].
  rewrite sm4_crypt_rev by (apply xor_block_wf; assumption).
  rewrite xor_bytes_cancel by (destruct Hp, H1; lia).
  f_equal. apply IH; [apply sm4_crypt_wf | assumption].
Qed.

Lemma cbc_enc_blocks_len : forall rks bs prev, Forall (fun b => length b = 16%nat) (cbc_enc_blocks rks prev bs).
Proof. induction bs; intro prev; cbn; constructor; [apply sm4_crypt_wf | apply IHbs]. Qed.

Lemma cbc_enc_blocks_wf : forall rks bs prev, Forall wf_block (cbc_enc_blocks rks prev bs).
Proof. induction bs; intro prev; cbn; constructor; [apply sm4_crypt_wf | apply IHbs]. Qed.

Lemma length_concat_blocks : forall bs, Forall (fun b : list byte => length b = 16%nat) bs -> length (concat bs) = (16 * length bs)%nat.
Proof. induction 1; cbn [concat length]; [reflexivity | rewrite app_length; lia]. Qed.

Lemma cbc_enc_blocks_count : forall rks bs prev, length (cbc_enc_blocks rks prev bs) = length bs.
Proof. induction bs; intro; cbn; [reflexivity | f_equal; apply IHbs]. Qed.

Theorem cbc_roundtrip : forall key iv data n,
  wf_block iv -> wf_bytes data -> length data = (16 * n)%nat ->
  cbc_decrypt key iv (cbc_encrypt key iv data) = data.
Proof.
  intros key iv data n Hiv Hd Hl. unfold cbc_decrypt, cbc_encrypt.
  destruct (to_blocks_spec n data Hl Hd) as [Hc Hb].
  rewrite to_blocks_concat by apply cbc_enc_blocks_len.
  rewrite cbc_blocks_roundtrip by assumption. exact Hc.
Qed.

Lemma cbc_encrypt_length : forall key iv data n, length data = (16 * n)%nat -> wf_bytes data ->
  length (cbc_encrypt key iv data) = length data.
Proof.
  intros key iv data n Hl Hw. unfold cbc_encrypt.
  rewrite length_concat_blocks by apply cbc_enc_blocks_len. rewrite cbc_enc_blocks_count.
  destruct (to_blocks_spec n data Hl Hw) as [Hc Hb].
  rewrite <- Hc at 2. rewrite length_concat_blocks; [reflexivity |].
  eapply Forall_impl; [| exact Hb]. intros a [H _]. exact H.
Qed.

Lemma cbc_encrypt_wf : forall key iv data, wf_bytes (cbc_encrypt key iv data).
Proof.
  intros. unfold cbc_encrypt. generalize (cbc_enc_blocks_wf (round_keys key) (to_blocks data) iv).
  induction 1 as [| b t [_ Hb] _ IH]; cbn [concat]; [constructor | apply wf_bytes_app; split; assumption].
Qed.

(* ---------------------------------------------------------------- GCM *)
Lemma be_acc_length : forall n x acc, length (be_acc n x acc) = (n + length acc)%nat.
Proof. induction n; intros; cbn [be_acc]; [reflexivity | rewrite IHn; cbn; lia]. Qed.
Lemma be_length : forall n x, length (be n x) = n.
Proof. intros. unfold be. rewrite be_acc_length. cbn. lia. Qed.

Lemma sm4_crypt_length : forall rks b, length (sm4_crypt rks b) = 16%nat.
Proof. intros. apply sm4_crypt_wf. Qed.

Lemma flat_map_length16 : forall (f : nat -> list byte) l, (forall i, length (f i) = 16%nat) ->
  length (flat_map f l) = (16 * length l)%nat.
Proof. induction l; intro H; cbn [flat_map length]; [reflexivity | rewrite app_length, H, IHl by assumption; lia]. Qed.

Lemma keystream_length : forall rks iv n, length (keystream rks iv n) = (16 * n)%nat.
Proof. intros. unfold keystream. rewrite flat_map_length16; [rewrite seq_length; reflexivity | intro; apply sm4_crypt_length]. Qed.

Lemma nblocks_covers : forall n, (n <= 16 * nblocks n)%nat.
Proof. intro n. unfold nblocks. lia. Qed.

Lemma gcm_ctr_length : forall rks iv d, length (gcm_ctr rks iv d) = length d.
Proof. intros. unfold gcm_ctr. rewrite xor_bytes_length, keystream_length. pose proof (nblocks_covers (length d)). lia. Qed.

Lemma gcm_ctr_involutive : forall rks iv d, gcm_ctr rks iv (gcm_ctr rks iv d) = d.
Proof.
  intros. unfold gcm_ctr at 1. rewrite gcm_ctr_length. unfold gcm_ctr.
  apply xor_bytes_cancel. rewrite keystream_length. apply nblocks_covers.
Qed.

Lemma gcm_tag_length : forall rks iv aad ct, length (gcm_tag rks iv aad ct) = 16%nat.
Proof. intros. unfold gcm_tag. rewrite xor_bytes_length, sm4_crypt_length, be_length. reflexivity. Qed.

Theorem gcm_roundtrip : forall key iv aad pt, gcm_open key iv aad (gcm_seal key iv aad pt) = Some pt.
Proof.
  intros. unfold gcm_open, gcm_seal.
  rewrite app_length, gcm_tag_length, gcm_ctr_length.
  replace (Nat.ltb (length pt + 16) 16) with false by (symmetry; apply Nat.ltb_ge; lia).
  replace (length pt + 16 - 16)%nat with (length (gcm_ctr (round_keys key) iv pt)) by (rewrite gcm_ctr_length; lia).
  rewrite firstn_app, skipn_app, Nat.sub_diag, firstn_all, skipn_all. cbn [firstn skipn app]. rewrite app_nil_r.
  rewrite bytes_eq_refl, gcm_ctr_involutive. reflexivity.
Qed.

Lemma gcm_seal_length : forall key iv aad pt, length (gcm_seal key iv aad pt) = (length pt + 16)%nat.
Proof. intros. unfold gcm_seal. rewrite app_length, gcm_tag_length, gcm_ctr_length. reflexivity. Qed.


(* ---------------------------------------------------------------- big-endian encodings *)
Lemma be_acc_app : forall n x acc, be_acc n x acc = be_acc n x [] ++ acc.
Proof.
  induction n as [| n IH]; intros x acc; cbn [be_acc]; [reflexivity |].
  rewrite (IH _ (lo8 x :: acc)), (IH _ [lo8 x]). rewrite <- app_assoc. reflexivity.
Qed.
Lemma be_succ : forall n x, be (S n) x = be n (x / 256) ++ [x mod 256].
Proof.
  intros. unfold be. cbn [be_acc]. rewrite be_acc_app, lo8_mod, N.shiftr_div_pow2. reflexivity.
Qed.
Lemma n_of_bytes_snoc : forall l b, n_of_bytes (l ++ [b]) = 256 * n_of_bytes l + b.
Proof. intros. unfold n_of_bytes. rewrite fold_left_app. reflexivity. Qed.

Lemma n_of_bytes_be : forall n x, n_of_bytes (be n x) = x mod 256 ^ N.of_nat n.
Proof.
  induction n as [| n IH]; intro x.
  - cbn. rewrite N.mod_1_r. reflexivity.
  - rewrite be_succ, n_of_bytes_snoc, IH. rewrite Nat2N.inj_succ, N.pow_succ_r'.
    rewrite (N.mod_mul_r x 256 (256 ^ N.of_nat n)); [lia | discriminate | apply N.pow_nonzero; discriminate].
Qed.

Lemma be_inj : forall n x y, x < 256 ^ N.of_nat n -> y < 256 ^ N.of_nat n -> be n x = be n y -> x = y.
Proof.
  intros n x y Hx Hy H. apply (f_equal n_of_bytes) in H. rewrite !n_of_bytes_be in H.
  rewrite !N.mod_small in H by assumption. exact H.
Qed.

Lemma be_wf : forall n x, wf_bytes (be n x).
Proof.
  induction n; intro x; [constructor |]. rewrite be_succ. apply wf_bytes_app. split; [apply IHn |].
  constructor; [| constructor]. unfold wf_byte. apply N.mod_lt. discriminate.
Qed.

Lemma app_inv_len {A} : forall (a a' b b' : list A), length a = length a' -> a ++ b = a' ++ b' -> a = a' /\ b = b'.
Proof.
  induction a; destruct a'; cbn; intros b b' Hl H; try discriminate; [auto |].
  injection H as -> H. injection Hl as Hl. destruct (IHa _ _ _ Hl H). subst. auto.
Qed.

(* ---------------------------------------------------------------- SM3 / HMAC output shape *)
Lemma compress_length : forall v b, length (compress v b) = 8%nat.
Proof. reflexivity. Qed.
Lemma blocks_length : forall fuel v bs, length v = 8%nat -> length (blocks fuel v bs) = 8%nat.
Proof.
  induction fuel; intros v bs H; cbn [blocks]; [assumption |].
  destruct bs; [assumption | apply IHfuel, compress_length].
Qed.
Lemma bytes_of_word_wf : forall w, wf_bytes (bytes_of_word w).
Proof. intro w. unfold bytes_of_word, wf_bytes, wf_byte. repeat constructor; apply N.mod_lt; discriminate. Qed.
Lemma sm3_length : forall m, length (sm3 m) = 32%nat.
Proof.
  intro m. unfold sm3. set (ws := blocks _ _ _).
  assert (H : length ws = 8%nat) by (apply blocks_length; reflexivity).
  clearbody ws. do 8 (destruct ws as [| ? ws]; [discriminate |]). destruct ws; [reflexivity | discriminate].
Qed.
Lemma sm3_wf : forall m, wf_bytes (sm3 m).
Proof.
  intro m. unfold sm3. generalize (blocks (S (length (pad m) / 64)) IV (pad m)).
  induction l; cbn [flat_map]; [constructor | apply wf_bytes_app; split; [apply bytes_of_word_wf | assumption]].
Qed.
Lemma hmac_length : forall k m, length (hmac_sm3 k m) = 32%nat.
Proof. intros. unfold hmac_sm3. apply sm3_length. Qed.
Lemma hmac_wf : forall k m, wf_bytes (hmac_sm3 k m).
Proof. intros. unfold hmac_sm3. apply sm3_wf. Qed.

(* ---------------------------------------------------------------- padding *)
Lemma rev_repeat {A} : forall (x : A) n, rev (repeat x n) = repeat x n.
Proof.
  induction n; [reflexivity |]. cbn [repeat rev]. rewrite IHn. clear IHn.
  induction n; [reflexivity |]. cbn [repeat app]. f_equal. exact IHn.
Qed.
Lemma forallb_repeat : forall p n, forallb (N.eqb p) (repeat p n) = true.
Proof. induction n; cbn; [reflexivity | rewrite N.eqb_refl; assumption]. Qed.

Lemma rev_padded : forall content pn,
  rev (content ++ repeat (N.of_nat pn) (S pn)) = N.of_nat pn :: (repeat (N.of_nat pn) pn ++ rev content).
Proof. intros. rewrite rev_app_distr, rev_repeat. reflexivity. Qed.

Lemma padding_good_padding : forall content pn,
  padding_good (content ++ repeat (N.of_nat pn) (S pn)) = true.
Proof.
  intros. unfold padding_good. rewrite rev_padded. cbv beta iota.
  rewrite Nat2N.id. rewrite app_length, repeat_length.
  replace (S pn <=? length content + S pn)%nat with true by (symmetry; apply Nat.leb_le; lia).
  change (N.of_nat pn :: repeat (N.of_nat pn) pn ++ rev content) with (repeat (N.of_nat pn) (S pn) ++ rev content).
  rewrite firstn_app, repeat_length, Nat.sub_diag. rewrite firstn_all2 by (rewrite repeat_length; lia).
  cbn [firstn]. rewrite app_nil_r. rewrite forallb_repeat. reflexivity.
Qed.

Lemma unpad_padding : forall content pn,
  unpad (content ++ repeat (N.of_nat pn) (S pn)) = Some content.
Proof.
  intros. unfold unpad. rewrite padding_good_padding.
  rewrite rev_padded. cbv beta iota. rewrite Nat2N.id.
  rewrite app_length, repeat_length.
  replace (length content + S pn - S pn)%nat with (length content) by lia.
  rewrite firstn_app, Nat.sub_diag, firstn_all. cbn [firstn]. rewrite app_nil_r. reflexivity.
Qed.

Lemma cbc_padding_spec : forall n, exists pn, cbc_padding n = repeat (N.of_nat pn) (S pn) /\ (pn <= 15)%nat /\ ((n + S pn) mod 16 = 0)%nat.
Proof.
  intro n. exists (15 - n mod 16)%nat. split; [reflexivity |]. split; [lia |].
  pose proof (Nat.mod_upper_bound n 16 ltac:(lia)).
  rewrite (Nat.div_mod_eq n 16) at 1.
  replace (16 * (n / 16) + n mod 16 + S (15 - n mod 16))%nat with ((1 + n / 16) * 16)%nat by lia.
  apply Nat.mod_mul. lia.
Qed.

Lemma repeat_wf : forall x n, x < 256 -> wf_bytes (repeat x n).
Proof. intros. unfold wf_bytes. induction n; cbn; constructor; assumption. Qed.

(* ---------------------------------------------------------------- record body *)
Lemma open_protect_cbc : forall k s8 t v pt ex, wf_block ex -> wf_bytes pt ->
  open_body MCbc k s8 t v (protect_body MCbc k s8 t v pt ex) = Some pt.
Proof.
  intros k s8 t v pt ex [Lex Wex] Wpt. unfold open_body, protect_body.
  set (mac := hmac_sm3 (k_mac k) (mac_input s8 t v pt)).
  set (content := pt ++ mac).
  destruct (cbc_padding_spec (length content)) as (pn & Epad & Hpn & Hmod). rewrite Epad.
  set (padded := content ++ repeat (N.of_nat pn) (S pn)).
  assert (Lmac : length mac = 32%nat) by apply hmac_length.
  assert (Lcontent : length content = (length pt + 32)%nat) by (unfold content; rewrite app_length; lia).
  assert (Lpadded : length padded = (length content + S pn)%nat) by (unfold padded; rewrite app_length, repeat_length; reflexivity).
  assert (Hn : exists n, length padded = (16 * n)%nat).
  { exists (length padded / 16)%nat. rewrite Lpadded. pose proof (Nat.div_mod_eq (length content + S pn) 16). lia. }
  destruct Hn as [n Hn].
  assert (Wpadded : wf_bytes padded).
  { unfold padded, content. rewrite !wf_bytes_app. repeat split; [assumption | apply hmac_wf | apply repeat_wf; lia]. }
  assert (Lenc : length (cbc_encrypt (k_enc k) ex padded) = length padded) by (eapply cbc_encrypt_length; eassumption).
  rewrite app_length, Lenc, Lex.
  replace (Nat.ltb (16 + length padded) 32) with false by (symmetry; apply Nat.ltb_ge; lia).
  replace (Nat.eqb ((16 + length padded) mod 16) 0) with true
    by (symmetry; apply Nat.eqb_eq; rewrite Hn; replace (16 + 16 * n)%nat with ((1 + n) * 16)%nat by lia; apply Nat.mod_mul; lia).
  cbn [orb negb].
  rewrite firstn_app, skipn_app, Lex, Nat.sub_diag. rewrite (firstn_all2 ex) by lia. rewrite (skipn_all2 ex) by lia.
  cbn [firstn skipn app]. rewrite app_nil_r.
  rewrite (cbc_roundtrip _ _ _ n) by (try split; assumption).
  unfold padded. rewrite unpad_padding.
  replace (Nat.ltb (length content) 32) with false by (symmetry; apply Nat.ltb_ge; lia).
  replace (length content - 32)%nat with (length pt) by lia.
  unfold content. rewrite firstn_app, skipn_app, Nat.sub_diag, firstn_all, skipn_all. cbn [firstn skipn app]. rewrite app_nil_r.
  fold mac. rewrite bytes_eq_refl. reflexivity.
Qed.

Lemma open_protect_gcm : forall k s8 t v pt ex, length ex = 8%nat ->
  open_body MGcm k s8 t v (protect_body MGcm k s8 t v pt ex) = Some pt.
Proof.
  intros k s8 t v pt ex Lex. unfold open_body, protect_body.
  rewrite app_length, gcm_seal_length, Lex.
  replace (Nat.ltb (8 + (length pt + 16)) 24) with false by (symmetry; apply Nat.ltb_ge; lia).
  rewrite firstn_app, skipn_app, Lex, Nat.sub_diag. rewrite firstn_all2 by lia. rewrite skipn_all2 by lia.
  cbn [firstn skipn app]. rewrite app_nil_r. rewrite gcm_seal_length.
  replace (length pt + 16 - 16)%nat with (length pt) by lia.
  apply gcm_roundtrip.
Qed.


Lemma open_protect_body : forall m k s8 t v pt ex, wf_explicit m pt ex ->
  open_body m k s8 t v (protect_body m k s8 t v pt ex) = Some pt.
Proof. intros [] k s8 t v pt ex H; [destruct H; apply open_protect_cbc; assumption | apply open_protect_gcm; assumption]. Qed.

Lemma protect_body_length : forall m k s8 t v pt ex, wf_explicit m pt ex ->
  (length (protect_body m k s8 t v pt ex) <= length pt + 64)%nat.
Proof.
  intros [] k s8 t v pt ex H; unfold protect_body.
  - destruct H as [[Lex Wex] Wpt].
    set (content := pt ++ hmac_sm3 _ _).
    destruct (cbc_padding_spec (length content)) as (pn & Epad & Hpn & Hmod). rewrite Epad.
    assert (Lcontent : length content = (length pt + 32)%nat) by (unfold content; rewrite app_length, hmac_length; lia).
    set (padded := content ++ _).
    assert (Lpadded : length padded = (length content + S pn)%nat) by (unfold padded; rewrite app_length, repeat_length; reflexivity).
    assert (Wpadded : wf_bytes padded).
    { unfold padded, content. rewrite !wf_bytes_app. repeat split; [assumption | apply hmac_wf | apply repeat_wf; lia]. }
    rewrite app_length, Lex.
    rewrite (cbc_encrypt_length _ _ _ (length padded / 16)%nat); [lia | | assumption].
    rewrite Lpadded. pose proof (Nat.div_mod_eq (length content + S pn) 16). lia.
  - cbn in H. rewrite app_length, gcm_seal_length. lia.
Qed.

(* ---------------------------------------------------------------- header *)
Lemma n_of_be2 : forall x, x < 65536 -> n_of_bytes (be 2 x) = x.
Proof. intros. rewrite n_of_bytes_be. apply N.mod_small. assumption. Qed.
Lemma n_of_be6 : forall x, x < 281474976710656 -> n_of_bytes (be 6 x) = x.
Proof. intros. rewrite n_of_bytes_be. apply N.mod_small. assumption. Qed.

Lemma parse_header_header : forall f e s t v body,
  v < 65536 -> (f = HD -> e < 65536 /\ s < 281474976710656) -> N.of_nat (length body) < 65536 ->
  parse_header f s (header f e s t v (N.of_nat (length body)) ++ body) =
  Some (t, v, match f with HT => 0 | HD => e end, s, body).
Proof.
  intros f e s t v body Hv Hf Hlen.
  destruct f; unfold header, parse_header.
  - change (be 2 v) with [lo8 (N.shiftr v 8); lo8 v].
    change (be 2 (N.of_nat (length body))) with [lo8 (N.shiftr (N.of_nat (length body)) 8); lo8 (N.of_nat (length body))].
    cbn [app].
    change [lo8 (N.shiftr (N.of_nat (length body)) 8); lo8 (N.of_nat (length body))] with (be 2 (N.of_nat (length body))).
    change [lo8 (N.shiftr v 8); lo8 v] with (be 2 v).
    rewrite !n_of_be2 by assumption. rewrite N.eqb_refl. reflexivity.
  - destruct (Hf eq_refl) as [He Hs].
    change (be 2 v) with [lo8 (N.shiftr v 8); lo8 v].
    change (be 2 e) with [lo8 (N.shiftr e 8); lo8 e].
    change (be 2 (N.of_nat (length body))) with [lo8 (N.shiftr (N.of_nat (length body)) 8); lo8 (N.of_nat (length body))].
    change (be 6 s) with [lo8 (N.shiftr (N.shiftr (N.shiftr (N.shiftr (N.shiftr s 8) 8) 8) 8) 8); lo8 (N.shiftr (N.shiftr (N.shiftr (N.shiftr s 8) 8) 8) 8);
                          lo8 (N.shiftr (N.shiftr (N.shiftr s 8) 8) 8); lo8 (N.shiftr (N.shiftr s 8) 8); lo8 (N.shiftr s 8); lo8 s].
    cbn [app].
    change [lo8 (N.shiftr (N.of_nat (length body)) 8); lo8 (N.of_nat (length body))] with (be 2 (N.of_nat (length body))).
    change [lo8 (N.shiftr v 8); lo8 v] with (be 2 v).
    change [lo8 (N.shiftr e 8); lo8 e] with (be 2 e).
    change [lo8 (N.shiftr (N.shiftr (N.shiftr (N.shiftr (N.shiftr s 8) 8) 8) 8) 8); lo8 (N.shiftr (N.shiftr (N.shiftr (N.shiftr s 8) 8) 8) 8);
            lo8 (N.shiftr (N.shiftr (N.shiftr s 8) 8) 8); lo8 (N.shiftr (N.shiftr s 8) 8); lo8 (N.shiftr s 8); lo8 s] with (be 6 s).
    rewrite !n_of_be2 by assumption. rewrite n_of_be6 by assumption. rewrite N.eqb_refl. reflexivity.
Qed.

Theorem record_roundtrip : forall m f k e s t v pt ex,
  v < 65536 -> (f = HD -> e < 65536 /\ s < 281474976710656) -> N.of_nat (length pt) <= 18432 -> wf_explicit m pt ex ->
  unprotect m f k s (protect m f k e s t v pt ex) =
  Some (mkOpened t v (match f with HT => 0 | HD => e end) s pt).
Proof.
  intros m f k e s t v pt ex Hv Hf Hl Hex. unfold unprotect, protect.
  pose proof (protect_body_length m k (seq8 f e s) t v pt ex Hex) as Hb.
  rewrite parse_header_header by (try assumption; lia).
  replace (seq8 f (match f with HT => 0 | HD => e end) s) with (seq8 f e s) by (destruct f; reflexivity).
  rewrite open_protect_body by assumption. reflexivity.
Qed.


(* ---------------------------------------------------------------- what the authenticated string determines *)

Lemma seq8_length : forall f e s, length (seq8 f e s) = 8%nat.
Proof. intros [] e s; unfold seq8; rewrite ?app_length, !be_length; reflexivity. Qed.

Lemma seq8_inj : forall f e s e' s', wf_seq f e s -> wf_seq f e' s' ->
  seq8 f e s = seq8 f e' s' -> s = s' /\ (f = HD -> e = e').
Proof.
  intros [] e s e' s' H H' E; unfold seq8, wf_seq in *.
  - split; [| discriminate]. apply (be_inj 8); assumption.
  - destruct H, H'. apply app_inv_len in E as [E1 E2]; [| rewrite !be_length; reflexivity].
    split; [apply (be_inj 6); assumption | intros _; apply (be_inj 2); assumption].
Qed.

Lemma cons_inj {A} : forall (a b : A) l m, a :: l = b :: m -> a = b /\ l = m.
Proof. intros a b l m H. injection H; auto. Qed.

Lemma auth_header_inj : forall s8 t v l s8' t' v' l',
  length s8 = length s8' -> v < 65536 -> v' < 65536 -> l < 65536 -> l' < 65536 ->
  forall d d', auth_header s8 t v l ++ d = auth_header s8' t' v' l' ++ d' ->
  s8 = s8' /\ t = t' /\ v = v' /\ l = l' /\ d = d'.
Proof.
  intros s8 t v l s8' t' v' l' Hs Hv Hv' Hl Hl' d d' E. unfold auth_header in E.
  rewrite <- !app_assoc in E. apply app_inv_len in E as [E1 E]; [| assumption].
  cbn [app] in E. apply cons_inj in E as [Et E]. rewrite <- !app_assoc in E.
  apply app_inv_len in E as [Ev E]; [| rewrite !be_length; reflexivity].
  apply app_inv_len in E as [El E]; [| rewrite !be_length; reflexivity].
  repeat split; try assumption; [apply (be_inj 2); assumption | apply (be_inj 2); assumption].
Qed.

Theorem aad_injective : forall f e s t v l e' s' t' v' l',
  wf_seq f e s -> wf_seq f e' s' -> v < 65536 -> v' < 65536 -> l < 65536 -> l' < 65536 ->
  auth_header (seq8 f e s) t v l = auth_header (seq8 f e' s') t' v' l' ->
  s = s' /\ (f = HD -> e = e') /\ t = t' /\ v = v' /\ l = l'.
Proof.
  intros f e s t v l e' s' t' v' l' H H' Hv Hv' Hl Hl' E.
  assert (E' : auth_header (seq8 f e s) t v l ++ [] = auth_header (seq8 f e' s') t' v' l' ++ []) by (rewrite !app_nil_r; exact E).
  apply auth_header_inj in E' as (E1 & Et & Ev & El & _); try assumption; [| rewrite !seq8_length; reflexivity].
  apply seq8_inj in E1 as [Es Ee]; try assumption. tauto.
Qed.

Theorem mac_input_injective : forall f e s t v d e' s' t' v' d',
  wf_seq f e s -> wf_seq f e' s' -> v < 65536 -> v' < 65536 ->
  N.of_nat (length d) < 65536 -> N.of_nat (length d') < 65536 ->
  mac_input (seq8 f e s) t v d = mac_input (seq8 f e' s') t' v' d' ->
  s = s' /\ (f = HD -> e = e') /\ t = t' /\ v = v' /\ length d = length d' /\ d = d'.
Proof.
  intros f e s t v d e' s' t' v' d' H H' Hv Hv' Hl Hl' E. unfold mac_input in E.
  apply auth_header_inj in E as (E1 & Et & Ev & El & Ed); try assumption; [| rewrite !seq8_length; reflexivity].
  apply seq8_inj in E1 as [Es Ee]; try assumption. subst d'. tauto.
Qed.

(* ---------------------------------------------------------------- GCM nonces *)
Theorem gcm_nonce_unique : forall f k e s e' s',
  wf_seq f e s -> wf_seq f e' s' ->
  nonce k (seq8 f e s) = nonce k (seq8 f e' s') -> s = s' /\ (f = HD -> e = e').
Proof.
  intros f k e s e' s' H H' E. unfold nonce in E. apply app_inv_head in E.
  apply seq8_inj in E; assumption.
Qed.

(* ---------------------------------------------------------------- PRF output length *)
Lemma p_sm3_iter_length : forall k secret a seed, length (p_sm3_iter k secret a seed) = (32 * k)%nat.
Proof. induction k; intros; cbn [p_sm3_iter]; [reflexivity | rewrite app_length, hmac_length, IHk; lia]. Qed.
Lemma p_sm3_length : forall secret seed n, length (p_sm3 secret seed n) = n.
Proof. intros. unfold p_sm3. rewrite firstn_length, p_sm3_iter_length. lia. Qed.
Lemma prf_length : forall secret label seed n, length (prf secret label seed n) = n.
Proof. intros. apply p_sm3_length. Qed.

(* ---------------------------------------------------------------- the key block *)
Lemma skipn_add {A} : forall a b (l : list A), skipn (a + b) l = skipn b (skipn a l).
Proof.
  induction a; intros b l; [reflexivity |]. destruct l; cbn [Nat.add skipn]; [rewrite skipn_nil; reflexivity | apply IHa].
Qed.
Lemma firstn_join {A} : forall b c (r : list A), firstn b r ++ firstn c (skipn b r) = firstn (b + c) r.
Proof.
  induction b; intros c r; [reflexivity |]. destruct r; cbn [Nat.add firstn skipn app]; [rewrite firstn_nil; reflexivity | f_equal; apply IHb].
Qed.
Lemma slices_join : forall (l : list byte) a b c, slice a b l ++ slice (a + b) c l = slice a (b + c) l.
Proof. intros. unfold slice. rewrite skipn_add. apply firstn_join. Qed.

Theorem keyblock_partition : forall l kb, (block_len l <= length kb)%nat ->
  let k := cut_keys l kb in
  client_mac k ++ server_mac k ++ client_key k ++ server_key k ++ client_iv k ++ server_iv k = firstn (block_len l) kb /\
  length (client_mac k) = mac_len l /\ length (server_mac k) = mac_len l /\
  length (client_key k) = key_len l /\ length (server_key k) = key_len l /\
  length (client_iv k) = iv_len l /\ length (server_iv k) = iv_len l /\
  client_mac k = slice 0 (mac_len l) kb /\
  server_mac k = slice (mac_len l) (mac_len l) kb /\
  client_key k = slice (2 * mac_len l) (key_len l) kb /\
  server_key k = slice (2 * mac_len l + key_len l) (key_len l) kb /\
  client_iv k = slice (2 * mac_len l + 2 * key_len l) (iv_len l) kb /\
  server_iv k = slice (2 * mac_len l + 2 * key_len l + iv_len l) (iv_len l) kb.
Proof.
  intros [m k i] kb H. unfold block_len in H. cbn [mac_len key_len iv_len] in H.
  cbn [cut_keys client_mac server_mac client_key server_key client_iv server_iv mac_len key_len iv_len block_len].
  split.
  - replace (slice (2 * m + 2 * k) i kb ++ slice (2 * m + 2 * k + i) i kb) with (slice (2 * m + 2 * k) (i + i) kb) by (symmetry; apply slices_join).
    replace (2 * m + 2 * k)%nat with ((2 * m + k) + k)%nat at 1 by lia. rewrite slices_join.
    replace (2 * m + k)%nat with (2 * m + k)%nat by lia.
    replace (slice (2 * m) k kb ++ slice (2 * m + k) (k + (i + i)) kb) with (slice (2 * m) (k + (k + (i + i))) kb) by (symmetry; apply slices_join).
    replace (2 * m)%nat with (m + m)%nat by lia. rewrite slices_join.
    change m with (0 + m)%nat at 2. rewrite slices_join.
    unfold slice, block_len. cbn [skipn mac_len key_len iv_len]. f_equal. lia.
  - unfold slice. rewrite !firstn_length, !skipn_length. repeat split; lia.
Qed.

Theorem working_keys_partition : forall master cr sr l,
  let kb := key_block master cr sr l in
  let k := working_keys master cr sr l in
  length kb = block_len l /\
  client_mac k ++ server_mac k ++ client_key k ++ server_key k ++ client_iv k ++ server_iv k = kb /\
  length (client_mac k) = mac_len l /\ length (server_mac k) = mac_len l /\
  length (client_key k) = key_len l /\ length (server_key k) = key_len l /\
  length (client_iv k) = iv_len l /\ length (server_iv k) = iv_len l.
Proof.
  intros master cr sr l kb k.
  assert (Hl : length kb = block_len l) by apply prf_length.
  destruct (keyblock_partition l kb ltac:(lia)) as (H1 & H2 & H3 & H4 & H5 & H6 & H7 & _).
  fold k in H1, H2, H3, H4, H5, H6, H7. rewrite firstn_all2 in H1 by lia. tauto.
Qed.

Theorem direction : forall k,
  write_keys (client_keys k) = read_keys (server_keys k) /\
  write_keys (server_keys k) = read_keys (client_keys k) /\
  write_keys (client_keys k) = mkDK (client_mac k) (client_key k) (client_iv k) /\
  write_keys (server_keys k) = mkDK (server_mac k) (server_key k) (server_iv k).
Proof. intro k. repeat split; reflexivity. Qed.


(* ---------------------------------------------------------------- byte-level facts by exhaustive evaluation *)
Definition all_bytes : list N := map N.of_nat (seq 0 256).
Lemma in_all_bytes : forall x, x < 256 -> In x all_bytes.
Proof. intros x H. unfold all_bytes. apply in_map_iff. exists (N.to_nat x). split; [apply N2Nat.id | apply in_seq; lia]. Qed.
Lemma forall_byte : forall P : N -> bool, forallb P all_bytes = true -> forall x, x < 256 -> P x = true.
Proof. intros P H x Hx. rewrite forallb_forall in H. apply H, in_all_bytes, Hx. Qed.
Lemma forall_byte2 : forall P : N -> N -> bool, forallb (fun x => forallb (P x) all_bytes) all_bytes = true ->
  forall x y, x < 256 -> y < 256 -> P x y = true.
Proof. intros P H x y Hx Hy. apply forall_byte; [| exact Hy]. apply (forall_byte (fun x => forallb (P x) all_bytes)); assumption. Qed.

Lemma andnot8_lt : forall g x, g < 256 -> x < 256 -> andnot8 g x < 256.
Proof.
  intros g x Hg Hx. apply N.ltb_lt. revert g x Hg Hx. apply (forall_byte2 (fun g x => andnot8 g x <? 256)).
  vm_compute. reflexivity.
Qed.
Lemma andnot8_255 : forall g x, g < 256 -> x < 256 -> (andnot8 g x = 255 <-> g = 255 /\ x = 0).
Proof.
  intros g x Hg Hx.
  assert (H : Bool.eqb (andnot8 g x =? 255) ((g =? 255) && (x =? 0)) = true).
  { revert g x Hg Hx. apply (forall_byte2 (fun g x => Bool.eqb (andnot8 g x =? 255) ((g =? 255) && (x =? 0)))). vm_compute. reflexivity. }
  apply Bool.eqb_prop in H. rewrite <- N.eqb_eq, H, andb_true_iff, !N.eqb_eq. tauto.
Qed.
Lemma andnot8_0 : forall g, g < 256 -> andnot8 g 0 = g.
Proof.
  intros g Hg. apply N.eqb_eq. revert g Hg. apply (forall_byte (fun g => andnot8 g 0 =? g)). vm_compute. reflexivity.
Qed.
Lemma land_255 : forall p, p < 256 -> N.land 255 p = p.
Proof. intros p Hp. apply N.eqb_eq. revert p Hp. apply (forall_byte (fun p => N.land 255 p =? p)). vm_compute. reflexivity. Qed.
Lemma land_r_255 : forall p, p < 256 -> N.land p 255 = p.
Proof. intros. rewrite N.land_comm. apply land_255. assumption. Qed.
Lemma fold_good_spec : forall g, g < 256 -> fold_good g = if g =? 255 then 255 else 0.
Proof.
  intros g Hg. apply N.eqb_eq. revert g Hg.
  apply (forall_byte (fun g => fold_good g =? (if g =? 255 then 255 else 0))). vm_compute. reflexivity.
Qed.
Lemma lxor_0_iff : forall a b, N.lxor a b = 0 <-> a = b.
Proof. intros. split; [apply N.lxor_eq | intros ->; apply N.lxor_nilpotent]. Qed.

(* ---------------------------------------------------------------- the two masks *)
Lemma mask_le : forall p i, p < 256 -> i < 256 -> sar31_byte (not64 (sub64 p i)) = if i <=? p then 255 else 0.
Proof.
  intros p i Hp Hi. unfold sar31_byte, not64, sub64, two64.
  destruct (N.leb_spec i p); destruct (N.ltb_spec ((18446744073709551616 - 1 - (p + 18446744073709551616 - i mod 18446744073709551616) mod 18446744073709551616 mod 18446744073709551616) mod 4294967296) 2147483648); try reflexivity; exfalso; lia.
Qed.
Lemma mask_len : forall n p, n < 2147483648 -> p < 256 -> sar31_byte (not64 (sub64 n p)) = if p <=? n then 255 else 0.
Proof.
  intros n p Hn Hp. unfold sar31_byte, not64, sub64, two64.
  destruct (N.leb_spec p n); destruct (N.ltb_spec ((18446744073709551616 - 1 - (n + 18446744073709551616 - p mod 18446744073709551616) mod 18446744073709551616 mod 18446744073709551616) mod 4294967296) 2147483648); try reflexivity; exfalso; lia.
Qed.

(* ---------------------------------------------------------------- the loop *)
Lemma nth_wf : forall (l : list N) i, wf_bytes l -> nth i l 0 < 256.
Proof.
  intros l i H. destruct (Nat.lt_ge_cases i (length l)).
  - unfold wf_bytes in H. rewrite Forall_forall in H. apply H, nth_In. assumption.
  - rewrite nth_overflow by assumption. lia.
Qed.

Lemma pad_step_spec : forall payload p g i, wf_bytes payload -> p < 256 -> g < 256 -> (i < 256)%nat ->
  let b := nth (length payload - 1 - i) payload 0 in
  pad_step payload p g i < 256 /\
  (pad_step payload p g i = 255 <-> g = 255 /\ (N.of_nat i <= p -> b = p)).
Proof.
  intros payload p g i Hw Hp Hg Hi b. unfold pad_step. fold b.
  assert (Hb : b < 256) by apply nth_wf, Hw.
  rewrite mask_le by lia.
  destruct (N.leb_spec (N.of_nat i) p) as [Hle | Hgt].
  - rewrite !land_255 by assumption.
    assert (Hx : N.lxor p b < 256) by (apply lxor_lt_256; assumption).
    split; [apply andnot8_lt; assumption |].
    rewrite andnot8_255 by assumption. rewrite lxor_0_iff. fold b.
    split; intros [H1 H2]; split; auto. symmetry. auto.
  - rewrite !N.land_0_l. cbn [N.lxor]. rewrite andnot8_0 by assumption.
    split; [assumption |]. split; [intro H; split; [assumption | lia] | tauto].
Qed.

Lemma loop_inv : forall payload p g0 j, wf_bytes payload -> p < 256 -> g0 < 256 -> (j <= 256)%nat ->
  let g := fold_left (pad_step payload p) (seq 0 j) g0 in
  g < 256 /\
  (g = 255 <-> g0 = 255 /\ forall i, (i < j)%nat -> N.of_nat i <= p -> nth (length payload - 1 - i) payload 0 = p).
Proof.
  intros payload p g0 j Hw Hp Hg0. induction j as [| j IH]; intro Hj.
  - cbn. split; [assumption |]. split; [intro; split; [assumption | intros; lia] | tauto].
  - rewrite seq_S, fold_left_app. cbn [fold_left Nat.add].
    destruct (IH ltac:(lia)) as [Hlt Hiff]. set (g := fold_left (pad_step payload p) (seq 0 j) g0) in *.
    destruct (pad_step_spec payload p g j Hw Hp Hlt ltac:(lia)) as [Hlt' Hiff'].
    split; [exact Hlt' |]. rewrite Hiff', Hiff. split.
    + intros [[H0 Hall] Hj']. split; [assumption |]. intros i Hi Hle.
      destruct (Nat.eq_dec i j) as [-> | Hne]; [apply Hj', Hle | apply Hall; [lia | assumption]].
    + intros [H0 Hall]. split; [split; [assumption | intros i Hi; apply Hall; lia] | apply Hall; lia].
Qed.

(* ---------------------------------------------------------------- the declarative check, pointwise *)
Lemma nth_firstn_lt {A} : forall n i (l : list A) d, (i < n)%nat -> nth i (firstn n l) d = nth i l d.
Proof.
  induction n; intros i l d H; [lia |]. destruct l; [destruct i; reflexivity |].
  destruct i; [reflexivity |]. cbn [firstn nth]. apply IHn. lia.
Qed.

Lemma padding_good_unfold : forall payload p r, rev payload = p :: r ->
  padding_good payload = ((S (N.to_nat p) <=? length payload)%nat && forallb (N.eqb p) (firstn (S (N.to_nat p)) (rev payload))).
Proof. intros payload p r H. unfold padding_good. rewrite H. reflexivity. Qed.

Lemma padding_good_iff : forall payload, payload <> [] -> wf_bytes payload ->
  let len := length payload in
  let p := nth (len - 1) payload 0 in
  padding_good payload = true <->
  (N.to_nat p + 1 <= len)%nat /\ forall i, (i <= N.to_nat p)%nat -> nth (len - 1 - i) payload 0 = p.
Proof.
  intros payload Hne Hw len p.
  assert (Hlen : (0 < len)%nat) by (subst len; destruct payload; [congruence | cbn; lia]).
  assert (Hrev : forall i, (i < len)%nat -> nth i (rev payload) 0 = nth (len - 1 - i) payload 0).
  { intros i Hi. rewrite rev_nth by assumption. f_equal. subst len. lia. }
  assert (Er : exists q r, rev payload = q :: r).
  { destruct (rev payload) as [| q r] eqn:Er; [| eauto]. apply (f_equal (@length N)) in Er. rewrite rev_length in Er. cbn in Er. lia. }
  destruct Er as (q & r & Er).
  assert (Hq : q = p). { specialize (Hrev 0%nat Hlen). rewrite Er in Hrev. cbn in Hrev. rewrite Nat.sub_0_r in Hrev. exact Hrev. }
  subst q. rewrite (padding_good_unfold _ _ _ Er). clear Er r. fold len.
  rewrite andb_true_iff, Nat.leb_le, forallb_forall.
  split.
  - intros [Hle Hall]. split; [lia |]. intros i Hi. rewrite <- Hrev by lia.
    symmetry. apply N.eqb_eq. apply Hall.
    assert (Hi' : (i < length (firstn (S (N.to_nat p)) (rev payload)))%nat) by (rewrite firstn_length, rev_length; lia).
    pose proof (nth_In _ 0 Hi') as HIn. rewrite nth_firstn_lt in HIn by lia. exact HIn.
  - intros [Hle Hall]. split; [lia |]. intros x Hx.
    apply (In_nth _ _ 0) in Hx as (i & Hi & <-). rewrite firstn_length, rev_length in Hi.
    rewrite nth_firstn_lt by lia.
    rewrite Hrev by lia. rewrite Hall by lia. apply N.eqb_refl.
Qed.

(* ---------------------------------------------------------------- extractPadding = the declarative check *)
Lemma extract_padding_nonempty : forall payload,
  payload <> [] -> wf_bytes payload -> N.of_nat (length payload) <= 2147483648 ->
  extract_padding payload =
  let p := nth (length payload - 1) payload 0 in
  if padding_good payload then (p + 1, 255) else (1, 0).
Proof.
  intros payload Hne Hw Hlen.
  assert (E : extract_padding payload =
     let len := length payload in
     let p := nth (len - 1) payload 0 in
     let g0 := sar31_byte (not64 (sub64 (N.of_nat (len - 1)) p)) in
     let g := fold_left (pad_step payload p) (seq 0 (Nat.min 256 len)) g0 in
     (N.land p (fold_good g) + 1, fold_good g)).
  { destruct payload; [congruence | reflexivity]. }
  rewrite E. clear E. cbv zeta.
  remember (length payload) as len eqn:Elen.
  remember (nth (len - 1) payload 0) as p eqn:Ep.
  assert (Hl0 : (0 < len)%nat) by (subst len; destruct payload; [congruence | cbn; lia]).
  assert (Hp : p < 256) by (subst p; apply nth_wf, Hw).
  rewrite mask_len by lia.
  remember (if p <=? N.of_nat (len - 1) then 255 else 0) as g0 eqn:Eg0.
  assert (Hg0 : g0 < 256) by (subst g0; destruct (p <=? _); lia).
  destruct (loop_inv payload p g0 (Nat.min 256 len) Hw Hp Hg0 ltac:(lia)) as [Hlt Hiff].
  remember (fold_left (pad_step payload p) (seq 0 (Nat.min 256 len)) g0) as g eqn:Eg.
  rewrite fold_good_spec by assumption.
  pose proof (padding_good_iff payload Hne Hw) as Hpg. cbv zeta in Hpg. rewrite <- Elen, <- Ep in Hpg.
  rewrite <- Elen in Hiff.
  assert (Hequiv : g = 255 <-> padding_good payload = true).
  { rewrite Hiff, Hpg. rewrite Eg0. split.
    - intros [H0 Hall]. destruct (N.leb_spec p (N.of_nat (len - 1))) as [Hle | Hgt]; [| discriminate].
      split; [lia |]. intros i Hi. apply Hall; lia.
    - intros [Hle Hall]. split; [destruct (N.leb_spec p (N.of_nat (len - 1))); [reflexivity | lia] |].
      intros i Hi Hip. apply Hall. lia. }
  destruct (padding_good payload).
  - rewrite (proj2 Hequiv eq_refl). cbn [N.eqb Pos.eqb]. rewrite land_r_255 by assumption. reflexivity.
  - destruct (N.eqb_spec g 255) as [E | _]; [apply Hequiv in E; discriminate |].
    rewrite N.land_0_r. reflexivity.
Qed.

Theorem extract_padding_spec : forall payload,
  wf_bytes payload -> N.of_nat (length payload) <= 2147483648 ->
  extract_padding payload =
  match payload with
  | [] => (0, 0)
  | _ => let p := nth (length payload - 1) payload 0 in
         if padding_good payload then (p + 1, 255) else (1, 0)
  end.
Proof.
  intros payload Hw Hlen. destruct payload as [| x0 rest]; [reflexivity |].
  apply extract_padding_nonempty; [discriminate | assumption | assumption].
Qed.

(* what extractPadding reports is what the specification's unpad removes *)
Theorem extract_padding_unpad : forall payload,
  payload <> [] -> wf_bytes payload -> N.of_nat (length payload) <= 2147483648 ->
  let '(to_remove, good) := extract_padding payload in
  (good = 255 \/ good = 0) /\
  (good = 255 -> unpad payload = Some (firstn (length payload - N.to_nat to_remove) payload)) /\
  (good = 0 -> unpad payload = None /\ to_remove = 1).
Proof.
  intros payload Hne Hw Hlen. rewrite extract_padding_nonempty by assumption. cbv zeta.
  assert (Er : exists r, rev payload = nth (length payload - 1) payload 0 :: r).
  { destruct (rev payload) as [| q r] eqn:Er.
    - apply (f_equal (@length N)) in Er. rewrite rev_length in Er. destruct payload; [congruence | discriminate Er].
    - exists r. f_equal. assert (H0 : (0 < length payload)%nat) by (destruct payload; [congruence | cbn; lia]).
      pose proof (rev_nth payload 0 H0) as H. rewrite Er in H. cbn in H. rewrite H. f_equal; lia. }
  destruct Er as [r Er]. unfold unpad. rewrite Er.
  destruct (padding_good payload).
  - split; [left; reflexivity |]. split; [| discriminate]. intros _. do 2 f_equal. lia.
  - split; [right; reflexivity |]. split; [discriminate | auto].
Qed.
