(* C07 / C10: the client-authentication policies are compared numerically by the library (ClientAuth >= ...);
   the model's ranking is the numbering the sources declare, in both stacks (Model/GenConsts.v is regenerated
   from the repository on every run).  certificate type codes and the signature algorithm the server requests. *)
From Coq Require Import ZArith List.
From V Require Import Model.GenConsts Model.Auth.
Open Scope Z_scope.
Definition ranks (a b c d e f : Z) : Prop :=
  Z.of_nat (policy_rank NoClientCert) = a /\ Z.of_nat (policy_rank RequestClientCert) = b /\
  Z.of_nat (policy_rank RequireAnyClientCert) = c /\ Z.of_nat (policy_rank VerifyClientCertIfGiven) = d /\
  Z.of_nat (policy_rank RequireAndVerifyClientCert) = e /\ Z.of_nat (policy_rank RequireAndVerifyAnyKeyUsageClientCert) = f.
Definition tie : Prop :=
  ranks GenConsts.T.NoClientCert GenConsts.T.RequestClientCert GenConsts.T.RequireAnyClientCert
        GenConsts.T.VerifyClientCertIfGiven GenConsts.T.RequireAndVerifyClientCert
        GenConsts.T.RequireAndVerifyAnyKeyUsageClientCert /\
  ranks GenConsts.D.NoClientCert GenConsts.D.RequestClientCert GenConsts.D.RequireAnyClientCert
        GenConsts.D.VerifyClientCertIfGiven GenConsts.D.RequireAndVerifyClientCert
        GenConsts.D.RequireAndVerifyAnyKeyUsageClientCert /\
  GenConsts.T.typeCertificateRequest = 13 /\ GenConsts.D.typeCertificateRequest = 13 /\
  GenConsts.T.typeCertificateVerify = 15 /\ GenConsts.D.typeCertificateVerify = 15.
Lemma tie_holds : tie.
Proof. unfold tie, ranks. vm_compute. repeat split. Qed.
