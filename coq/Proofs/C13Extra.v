(* C13, two more obligations on the skeleton regenerated from the sources:
   - the deadline setters acquire no mutex (a caller uses them to wake a Read or Write that is parked inside the
     transport holding the read- or write-half mutex: a setter that waits for that mutex can never do so);
   - the protocol adapter never holds its detection lock across the wrapped connection's blocking Read / Write
     (a Write parked in the transport would otherwise keep every concurrent Read out, and the reverse). *)
From Coq Require Import List NArith String Bool.
From V Require Import Model.Conc Model.Skeleton Proofs.ConcProofs Proofs.C13Inst.
Import ListNotations.
Open Scope string_scope.

Definition no_lock_acts (r : list (act label)) : bool :=
  forallb (fun a => match a with ALock _ => false | _ => true end) r.

Definition setter_entries (sk : skeleton) : list N :=
  ids_named sk ["Conn.SetDeadline"; "Conn.SetReadDeadline"; "Conn.SetWriteDeadline"].

Definition setters_ok (sk : skeleton) : bool :=
  forallb (fun e => no_lock_acts (main_thread sk e)) (setter_entries sk).

Lemma c13_setters_check : forallb setters_ok skeletons = true.
Proof. vm_cast_no_check (eq_refl true). Qed.

Theorem c13_setters_take_no_lock : forall sk e,
  In sk skeletons -> In e (setter_entries sk) -> no_lock_acts (main_thread sk e) = true.
Proof.
  intros sk e Hsk He. pose proof c13_setters_check as H. rewrite forallb_forall in H.
  specialize (H sk Hsk). unfold setters_ok in H. rewrite forallb_forall in H. exact (H e He).
Qed.

(* the three setters exist in both stacks (the statement above is not about an empty set) *)
Lemma c13_setters_exist : List.length (setter_entries sk_tlcp) = 3%nat /\ List.length (setter_entries sk_dtlcp) = 3%nat.
Proof. vm_compute. split; reflexivity. Qed.

(* --- protocol adapter *)
Definition is_wrapped_io (sk : skeleton) (b : N) : bool :=
  let n := nth (N.to_nat b) (sk_blocks sk) "" in String.eqb n "w.Read" || String.eqb n "w.Write".

Fixpoint wrapped_io_unlocked (sk : skeleton) (h : list mutex) (r : list (act label)) : bool :=
  match r with
  | [] => true
  | ALock m :: r' => wrapped_io_unlocked sk (m :: h) r'
  | AUnlock m :: r' => wrapped_io_unlocked sk (remove_m m h) r'
  | AEv (LBlock b _ _) :: r' => (negb (is_wrapped_io sk b) || negb (memM MPa h)) && wrapped_io_unlocked sk h r'
  | _ :: r' => wrapped_io_unlocked sk h r'
  end.

Definition adapter_entries (sk : skeleton) : list N :=
  ids_named sk ["ProtocolSwitchServerConn.Read"; "ProtocolSwitchServerConn.Write"].

Definition has_wrapped_io (sk : skeleton) (r : list (act label)) : bool :=
  existsb (fun a => match a with AEv (LBlock b _ _) => is_wrapped_io sk b | _ => false end) r.

Definition adapter_ok (sk : skeleton) : bool :=
  forallb (fun e => wrapped_io_unlocked sk [] (main_thread sk e) && has_wrapped_io sk (main_thread sk e)) (adapter_entries sk).

Lemma c13_adapter_check : forallb adapter_ok skeletons = true.
Proof. vm_cast_no_check (eq_refl true). Qed.

Theorem c13_adapter_io_outside_its_lock : forall sk e,
  In sk skeletons -> In e (adapter_entries sk) ->
  wrapped_io_unlocked sk [] (main_thread sk e) = true /\ has_wrapped_io sk (main_thread sk e) = true.
Proof.
  intros sk e Hsk He. pose proof c13_adapter_check as H. rewrite forallb_forall in H.
  specialize (H sk Hsk). unfold adapter_ok in H. rewrite forallb_forall in H.
  specialize (H e He). apply andb_true_iff in H. exact H.
Qed.

Lemma c13_adapter_entries_exist : List.length (adapter_entries sk_pa) = 2%nat.
Proof. vm_compute. reflexivity. Qed.
