(* The per-message theorems of CodecProofs / CodecHelloProofs / CodecHello2Proofs, quantified
   over the stack and the message type (Model/CodecAll.v). *)
From V Require Import Model.Codec Model.CodecT Model.CodecD Model.CodecSpec Model.CodecAll
  Proofs.CodecBaseProofs Proofs.CodecProofs Proofs.CodecHelloProofs Proofs.CodecHello2Proofs.
From Coq Require Import ZArith ZifyNat ZifyN ZifyBool.
#[local] Ltac Zify.zify_post_hook ::= Z.div_mod_to_equations.
Open Scope N_scope.

Lemma rmap_ok : forall A B (f : A -> B) r b, rmap f r = Ok b -> exists a, r = Ok a /\ b = f a.
Proof. intros A B f [a| |s] b H; cbn in H; try discriminate. inversion H; eauto. Qed.
Lemma rmap_panic : forall A B (f : A -> B) r s, rmap f r = Panic s -> r = Panic s.
Proof. intros A B f [a| |s'] s H; cbn in H; try discriminate. congruence. Qed.

(* ---------- totality: no input makes any decoder index or slice out of range ---------- *)
Theorem all_total : forall st m bs site, decode st m bs <> Panic site.
Proof.
  intros st m bs site H. destruct st, m; cbn [decode] in H; try discriminate; apply rmap_panic in H; revert H.
  - apply T_ch_total. - apply T_sh_total. - apply T_cert_total. - apply T_skx_total. - apply T_creq_total.
  - apply T_shd_total. - apply T_cv_total. - apply T_ckx_total. - apply T_fin_total.
  - apply D_ch_total. - apply D_sh_total. - apply D_hvr_total. - apply D_cert_total. - apply D_skx_total.
  - apply D_creq_total. - apply D_shd_total. - apply D_cv_total. - apply D_ckx_total. - apply D_fin_total.
Qed.

Lemma len_d_msg : forall typ h body, len (d_msg typ h body) = 12 + len body.
Proof. intros. unfold d_msg. rewrite len_app, len_d_hdr. reflexivity. Qed.

(* ---------- decode after encode ---------- *)
Theorem all_decode_encode : forall st m h f, wf st m h f ->
  exists bs, encode st m h f = Some bs /\ decode st m bs = Ok (decoded_hdr st bs h, f).
Proof.
  intros st m h f [Hh Hf].
  destruct st.
  - subst h. unfold decoded_hdr.
    destruct m, f; try contradiction; try (destruct Hf as [Hf _]; discriminate Hf);
      cbn [encode decode]; eexists; (split; [reflexivity|]).
    + rewrite T_ch_decode_encode by auto. reflexivity.
    + rewrite T_sh_decode_encode by auto. reflexivity.
    + rewrite T_cert_decode_encode by auto. reflexivity.
    + rewrite T_skx_decode_encode by auto. reflexivity.
    + rewrite T_creq_decode_encode by auto. reflexivity.
    + reflexivity.
    + rewrite T_cv_decode_encode by auto. reflexivity.
    + rewrite T_ckx_decode_encode by auto. reflexivity.
    + destruct Hf as [Hf _]. rewrite T_fin_decode_encode by auto. reflexivity.
  - unfold decoded_hdr.
    destruct m, f; try contradiction; cbn [encode decode]; eexists; (split; [reflexivity|]).
    + rewrite D_ch_decode_encode by auto. cbn [rmap fst snd]. unfold D_ch_enc. rewrite len_d_msg.
      cbn [fst snd]. replace (12 + len (ch_body_enc true m) - 12) with (len (ch_body_enc true m)) by lia. reflexivity.
    + rewrite D_sh_decode_encode by auto. cbn [rmap fst snd]. unfold D_sh_enc. rewrite len_d_msg.
      cbn [fst snd]. replace (12 + len (sh_body_enc m) - 12) with (len (sh_body_enc m)) by lia. reflexivity.
    + destruct Hf as [_ Hf]. rewrite D_hvr_decode_encode by auto. cbn [rmap fst snd]. unfold D_hvr_enc. rewrite len_d_msg.
      cbn [fst snd]. replace (12 + len (u16 ver ++ vec8 cookie) - 12) with (len (u16 ver ++ vec8 cookie)) by lia. reflexivity.
    + rewrite D_cert_decode_encode by auto. cbn [rmap fst snd]. unfold D_cert_enc. rewrite len_d_msg.
      cbn [fst snd]. replace (12 + len (vec24 (certs_enc cs)) - 12) with (len (vec24 (certs_enc cs))) by lia. reflexivity.
    + rewrite D_skx_decode_encode by auto. cbn [rmap fst snd]. unfold D_skx_enc. rewrite len_d_msg.
      cbn [fst snd]. replace (12 + len b - 12) with (len b) by lia. reflexivity.
    + rewrite D_creq_decode_encode by auto. cbn [rmap fst snd]. unfold D_creq_enc. rewrite len_d_msg.
      cbn [fst snd]. replace (12 + len (creq_body_enc types cas) - 12) with (len (creq_body_enc types cas)) by lia. reflexivity.
    + rewrite D_shd_decode_encode by auto. reflexivity.
    + rewrite D_cv_decode_encode by auto. cbn [rmap fst snd]. unfold D_cv_enc. rewrite len_d_msg.
      cbn [fst snd]. replace (12 + len (vec16 b) - 12) with (len (vec16 b)) by lia. reflexivity.
    + rewrite D_ckx_decode_encode by auto. cbn [rmap fst snd]. unfold D_ckx_enc. rewrite len_d_msg.
      cbn [fst snd]. replace (12 + len b - 12) with (len b) by lia. reflexivity.
    + destruct Hf as [Hf Hm]. rewrite D_fin_decode_encode by auto. cbn [rmap fst snd]. unfold D_fin_enc. rewrite len_d_msg.
      cbn [fst snd]. replace (12 + len b - 12) with (len b) by lia. reflexivity.
Qed.

(* ---------- encode after decode, on canonical input ---------- *)
Theorem all_encode_decode : forall st m bs h f, decode st m bs = Ok (h, f) -> bytes_ok bs ->
  canonical st m bs = true -> encode st m h f = Some bs.
Proof.
  intros st m bs h f H Hok Hc.
  destruct st, m; cbn [decode] in H; try discriminate; apply rmap_ok in H as (a & Ha & Hb); inversion Hb; subst;
    cbn [encode]; f_equal.
  - apply T_ch_encode_decode; auto. - apply T_sh_encode_decode; auto. - apply T_cert_encode_decode; auto.
  - apply T_skx_encode_decode; auto. - destruct a; apply T_creq_encode_decode; auto.
  - destruct a; apply T_shd_encode_decode; auto. - apply T_cv_encode_decode; auto.
  - apply T_ckx_encode_decode; auto. - apply T_fin_encode_decode; auto.
  - destruct a; apply D_ch_encode_decode; auto. - destruct a; apply D_sh_encode_decode; auto.
  - destruct a as [? [? ?]]; apply D_hvr_encode_decode; auto. - destruct a; apply D_cert_encode_decode; auto.
  - destruct a; apply D_skx_encode_decode; auto. - destruct a as [? [? ?]]; apply D_creq_encode_decode; auto.
  - destruct a as [? []]; apply D_shd_encode_decode; auto. - destruct a; apply D_cv_encode_decode; auto.
  - destruct a; apply D_ckx_encode_decode; auto. - destruct a; apply D_fin_encode_decode; auto.
Qed.

Lemma outer_ok_len : forall st bs, outer_ok st bs = true -> bytes_ok bs -> len bs < 4294967296.
Proof.
  intros st bs H Hok. unfold outer_ok in H.
  destruct bs as [|x [|a [|b [|c r]]]]; try discriminate.
  apply andb_prop in H as [H1 H2]. apply N.leb_le in H1. apply N.eqb_eq in H2.
  apply bytes_ok_cons in Hok as [_ Hok]. apply bytes_ok_cons in Hok as [Ha Hok].
  apply bytes_ok_cons in Hok as [Hb Hok]. apply bytes_ok_cons in Hok as [Hc _].
  pose proof (be24_lt a b c Ha Hb Hc). destruct st; cbn [hlen] in *; lia.
Qed.

(* ---------- strictness under the framing readHandshake guarantees ---------- *)
Theorem all_strict : forall st m bs h f, decode st m bs = Ok (h, f) -> bytes_ok bs ->
  outer_ok st bs = true -> (st = SD -> frag_whole bs = true) -> strict st m bs = true.
Proof.
  intros st m bs h f H Hok Ho Hfr. pose proof (outer_ok_len _ _ Ho Hok) as Hlen.
  destruct st, m; cbn [decode] in H; try discriminate; apply rmap_ok in H as (a & Ha & Hb).
  - eapply T_ch_strict; eauto. - eapply T_sh_strict; eauto. - eapply T_cert_strict; eauto.
  - eapply T_skx_strict; eauto. - eapply T_creq_strict; eauto. - eapply T_shd_strict; eauto.
  - eapply T_cv_strict; eauto. - eapply T_ckx_strict; eauto. - eapply T_fin_strict; eauto.
  - eapply D_ch_strict; eauto. - eapply D_sh_strict; eauto. - eapply D_hvr_strict; eauto.
  - eapply D_cert_strict; eauto. - eapply D_skx_strict; eauto. - eapply D_creq_strict; eauto.
  - eapply D_shd_strict; eauto. - eapply D_cv_strict; eauto. - eapply D_ckx_strict; eauto.
  - eapply D_fin_strict; eauto.
Qed.

(* ---------- the decoders that compare the header length with the size themselves ---------- *)
Definition checks_outer (st : stack) (m : mt) : bool :=
  match st, m with
  | ST, mFIN | ST, mCKX | ST, mCREQ | SD, mCKX | SD, mCREQ => true
  | _, _ => false
  end.
Lemma strict_outer : forall st m bs, strict st m bs = true -> outer_ok st bs = true.
Proof. unfold strict; intros st m bs H. apply andb_prop in H as [H _]; exact H. Qed.

Theorem self_strict : forall st m bs h f, checks_outer st m = true -> decode st m bs = Ok (h, f) ->
  bytes_ok bs -> len bs < 4294967296 -> strict st m bs = true.
Proof.
  intros st m bs h f Hc H Hok Hlen.
  destruct st, m; try discriminate; cbn [decode] in H; apply rmap_ok in H as (a & Ha & Hb).
  - eapply T_creq_strict; eauto. - eapply T_ckx_strict; eauto. - eapply T_fin_strict; eauto.
  - eapply D_creq_strict; eauto. - eapply D_ckx_strict; eauto.
Qed.
