(* Correspondence runner for C11: evaluates the Lru model and the timestamp-LRU
   specification on operation sequences executed by the Go implementation. *)
From V Require Export Model.Lru.
Open Scope N_scope.

(* one call of a concurrent history: the operation, what it returned, and two stamps drawn from one
   atomic counter immediately before the call and immediately after it returned *)
Record cop := mkCop { co_op : op; co_res : option val; co_start : N; co_end : N }.

Inductive case :=
| mkCase (c_cap : nat) (c_ops : list op) (c_res : list (option val)) (c_harm : N)
| ConcCase (cap : nat) (ops : list cop)
| StressCase (puts gets : list (key * val)).

Definition opt_eqb (a b : option val) : bool :=
  match a, b with
  | None, None => true
  | Some x, Some y => x =? y
  | _, _ => false
  end.

Fixpoint res_eqb (a b : list (option val)) : bool :=
  match a, b with
  | [], [] => true
  | x :: a', y :: b' => opt_eqb x y && res_eqb a' b'
  | _, _ => false
  end.

(* model vs implementation *)
(* ---- linearizability of a small concurrent history, by search: repeatedly choose a pending call
   that no other pending call precedes in real time (ended before it started) and whose result
   is what the sequential object returns in the current state *)
Fixpoint remove_nth {A} (n : nat) (l : list A) : list A :=
  match n, l with
  | _, [] => []
  | O, _ :: t => t
  | S k, x :: t => x :: remove_nth k t
  end.
Definition minimal (c : cop) (pending : list cop) : bool :=
  forallb (fun d => negb (co_end d <? co_start c)) pending.

(* vm_compute is call-by-value: && and || would evaluate both sides, so the search is written with if *)
Fixpoint first_ok (f : nat -> bool) (l : list nat) : bool :=
  match l with [] => false | i :: t => if f i then true else first_ok f t end.

Section Lin.
  Context {St : Type} (stp : St -> op -> St * option val).
  Fixpoint lin (fuel : nat) (st : St) (pending : list cop) : bool :=
    match fuel with
    | O => false
    | S f =>
        match pending with
        | [] => true
        | _ =>
            first_ok (fun i =>
              match nth_error pending i with
              | Some c =>
                  if minimal c pending then
                    let '(st', r) := stp st (co_op c) in
                    if opt_eqb r (co_res c) then lin f st' (remove_nth i pending) else false
                  else false
              | None => false
              end) (seq 0 (length pending))
        end
    end.
End Lin.

Definition stress_sane (puts gets : list (key * val)) : bool :=
  forallb (fun g => if fst g =? 0 then existsb (fun p => snd p =? snd g) puts
                    else existsb (fun p => (fst p =? fst g) && (snd p =? snd g)) puts) gets.

(* model vs implementation *)
Definition mismatch (c : case) : bool :=
  match c with
  | mkCase cp ops res _ => negb (res_eqb (snd (run (lru_init cp) ops)) res)
  | ConcCase cp ops => negb (lin step (S (length ops)) (lru_init cp) ops)
  | StressCase puts gets => negb (stress_sane puts gets)
  end.

(* property-level predicate on the implementation's own output, stated with the
   abstract specification only:
     1 = some lookup did not return what a least-recently-used map of that capacity returns
     2 = a session still in use / reachable was altered (c_harm counted by the harness) *)
(*   3 = a concurrent history that no sequential order of its calls explains (against the abstract LRU)
     4 = under concurrent load a lookup returned a session that was never stored under that key, or a damaged one *)
Definition spec_code (c : case) : N :=
  match c with
  | mkCase cp ops res harm =>
      if negb (res_eqb (snd (srun (spec_init cp) ops)) res) then 1
      else if 0 <? harm then 2 else 0
  | ConcCase cp ops => if lin sstep (S (length ops)) (spec_init cp) ops then 0 else 3
  | StressCase puts gets => if stress_sane puts gets then 0 else 4
  end.

Definition mismatches (cs : list (N * case)) : list N :=
  map fst (filter (fun x => mismatch (snd x)) cs).

Definition spec_violations (cs : list (N * case)) : list (N * N) :=
  filter (fun x => negb (snd x =? 0)) (map (fun x => (fst x, spec_code (snd x))) cs).

Definition evaluate (cs : list (N * case)) : list N * list (N * N) :=
  (mismatches cs, spec_violations cs).
