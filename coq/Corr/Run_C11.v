(* Correspondence runner for C11: evaluates the Lru model and the timestamp-LRU
   specification on operation sequences executed by the Go implementation. *)
From V Require Export Model.Lru.
Open Scope N_scope.

Record case := mkCase { c_cap : nat; c_ops : list op; c_res : list (option val); c_harm : N }.

Definition opt_eqb (a b : option val) : bool :=
  match a, b with
  | None, None => true
  | Some x, Some y => x =? y
  | _, _ => false
  end.

Fixpoint res_eqb (a b : list (option val)) : bool :=
  match a, b with
  | [], [] => true
  | x :: a', y :: b' => opt_eqb x y && res_eqb a' b'
  | _, _ => false
  end.

(* model vs implementation *)
Definition mismatch (c : case) : bool :=
  negb (res_eqb (snd (run (lru_init (c_cap c)) (c_ops c))) (c_res c)).

(* property-level predicate on the implementation's own output, stated with the
   abstract specification only:
     1 = some lookup did not return what a least-recently-used map of that capacity returns
     2 = a session still in use / reachable was altered (c_harm counted by the harness) *)
Definition spec_code (c : case) : N :=
  if negb (res_eqb (snd (srun (spec_init (c_cap c)) (c_ops c))) (c_res c)) then 1
  else if 0 <? c_harm c then 2 else 0.

Definition mismatches (cs : list (N * case)) : list N :=
  map fst (filter (fun x => mismatch (snd x)) cs).

Definition spec_violations (cs : list (N * case)) : list (N * N) :=
  filter (fun x => negb (snd x =? 0)) (map (fun x => (fst x, spec_code (snd x))) cs).

Definition evaluate (cs : list (N * case)) : list N * list (N * N) :=
  (mismatches cs, spec_violations cs).
