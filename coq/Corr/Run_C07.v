(* Correspondence runner for C07. *)
From V Require Export Model.Auth.
From Coq Require Import NArith.

Inductive case :=
| SrvFullCase (p : policy) (ecdhe : bool) (v : client_view) (accepted peer_nonempty chains_nonempty : bool)
| SrvResumeCase (p : policy) (s : session_view) (resumed accepted chains_nonempty : bool).

Definition mismatch (c : case) : bool :=
  match c with
  | SrvFullCase p ecdhe v acc pn cn =>
      negb (Bool.eqb (server_full_accepts p ecdhe v) acc) ||
      (acc && (negb (Bool.eqb (peer_certs_nonempty p ecdhe v) pn) ||
               negb (Bool.eqb (verified_chains_nonempty p ecdhe v) cn)))
  | SrvResumeCase p s resumed acc cn => negb (Bool.eqb (session_satisfies p s) resumed)
  end.

(* property level, from the declarative table only *)
Definition spec_code (c : case) : N :=
  match c with
  | SrvFullCase p ecdhe v acc pn cn =>
      if acc then
        if requests_cert p ecdhe && negb (policy_allows p (cv_ncerts v) (cv_chain_ok v)) then 1%N   (* policy not satisfied *)
        else if negb (Nat.eqb (cv_ncerts v) 0) && requests_cert p ecdhe && negb (cv_verify_msg v && cv_verify_ok v) then 2%N  (* certificate without proof of possession *)
        else if pn && negb (cv_verify_msg v && cv_verify_ok v) then 3%N       (* peer certificates reported without the proof *)
        else if cn && negb (cv_chain_ok v) then 4%N                           (* verified chains reported without verification *)
        else if ecdhe && verifies_cert p && Nat.leb 2 (cv_ncerts v) && negb (cv_chain_enc_ok v) then 7%N   (* ECDHE: the encryption certificate, whose key enters the key agreement, was not verified *)
        else if negb (cv_fin_ok v) then 5%N
        else 0%N
      else 0%N
  | SrvResumeCase p s resumed acc cn =>
      if resumed && negb (policy_allows p (se_ncerts s) (se_chain_ok s)) then 6%N   (* resumed under a policy the session does not satisfy *)
      else 0%N
  end.

Definition mismatches (cs : list (N * case)) : list N :=
  map fst (filter (fun x => mismatch (snd x)) cs).
Definition spec_violations (cs : list (N * case)) : list (N * N) :=
  filter (fun x => negb (N.eqb (snd x) 0)) (map (fun x => (fst x, spec_code (snd x))) cs).
Definition evaluate (cs : list (N * case)) : list N * list (N * N) :=
  (mismatches cs, spec_violations cs).
