(* Correspondence runner for C12. *)
From V Require Export Model.ConnApi.
From Coq Require Import NArith.

(* what the implementation did at one step of a history *)
Record obs := mkObs {
  b_err : option eclass;
  b_n : nat;                 (* Write: returned count; Read: bytes returned *)
  b_data : list byte;        (* Read: the bytes *)
  b_sent : list sitem;       (* application data and alerts the peer received since the previous step *)
  b_rawclosed : bool;        (* the endpoint has closed its transport *)
  b_hsdone : bool            (* ConnectionState().HandshakeComplete after the step *)
}.

Inductive case :=
| ApiCase (p : plan) (h : list (call * obs))
(* the dialing entry points (DialWithDialer with a Timeout / Deadline, Dialer.DialContext with a context):
   the bound is the context of the handshake; honest = the server completes the handshake, otherwise it
   accepts the connection and stays silent; err = what the call returned (XBlock: still blocked well
   after the bound); works = the established connection still carried data after the bound had passed *)
| DialCase (how : N) (honest : bool) (err : option eclass) (in_time works : bool).

Definition eclass_eqb (a b : eclass) : bool :=
  match a, b with
  | XEof, XEof | XUnexpectedEof, XUnexpectedEof | XClosed, XClosed | XShutdown, XShutdown
  | XCtx, XCtx | XEarlyCloseWrite, XEarlyCloseWrite | XFirstRecord, XFirstRecord
  | XTooMany, XTooMany | XInternal, XInternal | XBlock, XBlock => true
  | XRemote x, XRemote y | XLocal x, XLocal y => N.eqb x y
  | _, _ => false
  end.

Definition oerr_eqb (a b : option eclass) : bool :=
  match a, b with
  | None, None => true
  | Some x, Some y => eclass_eqb x y
  | _, _ => false
  end.

Fixpoint bytes_eqb (a b : list byte) : bool :=
  match a, b with
  | [], [] => true
  | x :: a', y :: b' => N.eqb x y && bytes_eqb a' b'
  | _, _ => false
  end.

Definition sitem_eqb (a b : sitem) : bool :=
  match a, b with
  | SApp x, SApp y => bytes_eqb x y
  | SAlert l c, SAlert l' c' => N.eqb l l' && N.eqb c c'
  | _, _ => false
  end.

Fixpoint sent_eqb (a b : list sitem) : bool :=
  match a, b with
  | [], [] => true
  | x :: a', y :: b' => sitem_eqb x y && sent_eqb a' b'
  | _, _ => false
  end.

(* ---------------- model against implementation, call by call ---------------- *)
Definition agree (c : call) (st' : state) (o : outcome) (b : obs) : bool :=
  match c with
  | CArrive _ | CEnd _ | CGone => true
  | _ =>
      oerr_eqb (o_err o) (b_err b) && bytes_eqb (o_data o) (b_data b) && sent_eqb (o_sent o) (b_sent b) &&
      Bool.eqb (s_rawclosed st') (b_rawclosed b) &&
      Bool.eqb (match s_hs st' with HDone => true | _ => false end) (b_hsdone b) &&
      match c with CWrite _ => Nat.eqb (o_n o) (b_n b) | CRead _ => Nat.eqb (length (o_data o)) (b_n b) | _ => true end
  end.

Fixpoint disagree (st : state) (h : list (call * obs)) : bool :=
  match h with
  | [] => false
  | (c, b) :: t => let '(st', o) := step st c in negb (agree c st' o b) || disagree st' t
  end.

(* the model's answer for a handshake under a context that ends while the peer is silent (no step
   done), resp. for an undisturbed handshake with no cancellation *)
Definition dial_plan : plan := mkPlan 7 0 true None.
Definition dial_expected (honest : bool) : option eclass :=
  snd (fst (handshake (init dial_plan) (if honest then None else Some 0%nat))).

Definition mismatch (c : case) : bool :=
  match c with
  | ApiCase p h => disagree (init p) h
  | DialCase _ honest err in_time works =>
      negb (oerr_eqb err (dial_expected honest) && in_time && (negb honest || works))
  end.

(* ---------------- the property, on the implementation's own results ----------------
   Bookkeeping over the history that does not use the model's step function: what has arrived,
   what was delivered, which calls were made and what they returned. *)
Record spst := mkSp {
  q_arr : list event;
  q_end : option (option (N * bool));
  q_deliv : list byte;
  q_called : bool;               (* a Read / Write / Handshake call was made *)
  q_done : bool;                 (* the handshake has completed (ConnectionState) *)
  q_early : bool;                (* application data arrived before that *)
  q_closed : bool;               (* Close was called *)
  q_cw : bool;                   (* CloseWrite was accepted *)
  q_fatal : option (call * eclass); (* first fatal error returned by Read / Write / Handshake, and by which: from then on
                                       neither half delivers or sends (end-of-stream from Read, "shutdown" from Write
                                       and a call that would block are not fatal) *)
  q_eof : bool;                  (* a Read returned end-of-stream *)
  q_hsfail : bool                (* a Handshake call returned an error *)
}.

Definition sp0 : spst := mkSp [] None [] false false false false false None false false.

Fixpoint all_app (evs : list event) : list byte :=
  match evs with
  | [] => []
  | EApp d :: r => d ++ all_app r
  | _ :: r => all_app r
  end.

Fixpoint is_prefixb (a b : list byte) : bool :=
  match a, b with
  | [], _ => true
  | x :: a', y :: b' => N.eqb x y && is_prefixb a' b'
  | _, _ => false
  end.

(* application bytes of the records preceding the first record the protocol answers with a fatal
   error (a handshake record outside the handshake, change_cipher_spec, a record that does not
   authenticate, a truncated record, close_notify or an alert that is not a warning) *)
Fixpoint app_before_fatal (evs : list event) : list byte :=
  match evs with
  | [] => []
  | EApp d :: r => d ++ app_before_fatal r
  | EAlert l c :: r => if negb (N.eqb c 0) && N.eqb l 1 then app_before_fatal r else []
  | _ => []
  end.

Definition has_app (evs : list event) : bool := existsb (fun e => match e with EApp _ => true | _ => false end) evs.

(* the first record that is not one of at most 16 warning alerts is application data *)
Fixpoint first_decisive_is_app_from (fuel : nat) (evs : list event) : bool :=
  match evs with
  | EAlert l c :: r =>
      match fuel with
      | O => false
      | S f => if negb (N.eqb c 0) && N.eqb l 1 then first_decisive_is_app_from f r else false
      end
  | EApp _ :: _ => true
  | _ => false
  end.
Definition first_decisive_is_app := first_decisive_is_app_from 16.

(* early application data must be refused on the spot: unexpected_message, or the first-record check *)
Definition refuse_check (q : spst) (b : obs) : list N :=
  if q_early q && negb (q_called q) && negb (q_closed q) && first_decisive_is_app (q_arr q) &&
     negb (oerr_eqb (b_err b) (Some (XLocal 10)) || oerr_eqb (b_err b) (Some XFirstRecord))
  then [11%N] else [].

Definition is_some {A} (o : option A) : bool := match o with Some _ => true | None => false end.
Definition is_nil {A} (l : list A) : bool := match l with [] => true | _ => false end.

(* the codes of the clauses the step violates (0 = none) *)
Definition check (p : plan) (q : spst) (c : call) (b : obs) : list N :=
  let failed := is_some (b_err b) in
  let quiet := failed && is_nil (b_data b) && negb (sent_app (b_sent b)) in
  let after_close := if q_closed q && sent_app (b_sent b) then [14%N] else [] in
  after_close ++
  match c with
  | CRead n =>
      let deliv := q_deliv q ++ b_data b in
      (if q_closed q then (if quiet then [] else [4%N])
       else match q_fatal q with
            | Some _ => if Nat.eqb n 0 || quiet then [] else [15%N]   (* delivered (or did not fail) after a fatal error of either half *)
            | None => if q_eof q && negb (Nat.eqb n 0) && negb quiet then [7%N] else []
            end) ++
      (match b_err b with
       | Some XEof =>
           (if bytes_eqb deliv (app_before_close (q_arr q)) then [] else [1%N]) ++
           (if existsb is_close_notify (q_arr q) || match q_end q with Some None => true | _ => false end then [] else [2%N])
       | Some XUnexpectedEof => match q_end q with Some (Some _) => [] | _ => [3%N] end
       | _ => []
       end) ++
      (if is_prefixb deliv (all_app (q_arr q)) then [] else [12%N]) ++
      (if is_prefixb deliv (app_before_fatal (q_arr q)) then [] else [17%N]) ++   (* delivered data that follows a record answered with a fatal error *)
      (if q_early q && (negb failed || negb (is_nil (b_data b))) then [11%N] else []) ++
      refuse_check q b
  | CWrite bs =>
      (if q_closed q then (if quiet then [] else [4%N])
       else match q_fatal q with
            | Some _ => if quiet then [] else [16%N]                  (* sent (or did not fail) after a fatal error of either half *)
            | None => if q_cw q && negb quiet then [10%N] else []
            end) ++
      (if q_early q && negb failed then [11%N] else []) ++
      refuse_check q b
  | CHandshake k =>
      (if q_hsfail q && negb failed then [8%N] else []) ++
      (if q_early q && negb failed then [11%N] else []) ++
      (match k with None => refuse_check q b | Some _ => [] end) ++
      (match k with
       | Some kk =>
           if negb (q_called q) && negb (q_closed q) && Nat.ltb kk (p_steps p) &&
              ((is_nil (q_arr q) && negb (is_some (q_end q))) || Nat.leb kk (p_pos p)) &&
              negb (oerr_eqb (b_err b) (Some XCtx) && b_rawclosed b)
           then [13%N] else []
       | None => []
       end)
  | CClose => if q_closed q && negb (oerr_eqb (b_err b) (Some XClosed)) then [9%N] else []
  | _ => []
  end.

Definition fatal_of (c : call) (e : eclass) : bool :=
  match c, e with
  | _, XBlock => false
  | CRead _, XEof => false
  | CWrite _, XShutdown => false
  | (CRead _ | CWrite _ | CHandshake _), _ => true
  | _, _ => false
  end.

Definition update (q : spst) (c : call) (b : obs) : spst :=
  match c with
  | CArrive evs =>
      if is_some (q_end q) then q
      else mkSp (q_arr q ++ evs) (q_end q) (q_deliv q) (q_called q) (q_done q)
                (q_early q || (negb (q_done q) && has_app evs)) (q_closed q) (q_cw q) (q_fatal q) (q_eof q) (q_hsfail q)
  | CEnd pt =>
      if is_some (q_end q) then q
      else mkSp (q_arr q) (Some pt) (q_deliv q) (q_called q) (q_done q) (q_early q) (q_closed q) (q_cw q) (q_fatal q) (q_eof q) (q_hsfail q)
  | CGone =>
      if is_some (q_end q) then q
      else mkSp (q_arr q) (Some None) (q_deliv q) (q_called q) (q_done q) (q_early q) (q_closed q) (q_cw q) (q_fatal q) (q_eof q) (q_hsfail q)
  | CClose => mkSp (q_arr q) (q_end q) (q_deliv q) (q_called q) (q_done q) (q_early q) true (q_cw q) (q_fatal q) (q_eof q) (q_hsfail q)
  | CCloseWrite =>
      mkSp (q_arr q) (q_end q) (q_deliv q) (q_called q) (q_done q) (q_early q) (q_closed q)
           (q_cw q || negb (oerr_eqb (b_err b) (Some XEarlyCloseWrite))) (q_fatal q) (q_eof q) (q_hsfail q)
  | _ =>
      let fatal := match q_fatal q, b_err b with
                   | Some e, _ => Some e
                   | None, Some e => if fatal_of c e then Some (c, e) else None
                   | None, None => None
                   end in
      mkSp (q_arr q) (q_end q) (q_deliv q ++ b_data b) true (b_hsdone b) (q_early q) (q_closed q) (q_cw q)
           fatal
           (q_eof q || match c, b_err b with CRead _, Some XEof => true | _, _ => false end)
           (q_hsfail q || match c with CHandshake _ => is_some (b_err b) | _ => false end)
  end.

Fixpoint codes (p : plan) (q : spst) (h : list (call * obs)) : list N :=
  match h with
  | [] => []
  | (c, b) :: t => check p q c b ++ codes p (update q c b) t
  end.

(* one code per case: the first clause violated *)
Definition spec_code (c : case) : N :=
  match c with
  | ApiCase p h => match codes p sp0 h with x :: _ => x | [] => 0%N end
  | DialCase _ honest err in_time works =>
      if honest then (if oerr_eqb err None && in_time && works then 0%N else 18%N)
      else (if oerr_eqb err (Some XCtx) && in_time then 0%N else 13%N)
  end.

Definition mismatches (cs : list (N * case)) : list N :=
  map fst (filter (fun x => mismatch (snd x)) cs).
Definition spec_violations (cs : list (N * case)) : list (N * N) :=
  filter (fun x => negb (N.eqb (snd x) 0)) (map (fun x => (fst x, spec_code (snd x))) cs).
Definition evaluate (cs : list (N * case)) : list N * list (N * N) :=
  (mismatches cs, spec_violations cs).
