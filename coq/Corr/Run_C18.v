(* Correspondence runner for C18: the cookie bytes are recomputed with the Gallina SM3/HMAC. *)
From V Require Export Model.Cookie.
From V Require Import Spec.SM3.

Record resp := mkResp { r_n : nat; r_first : N; r_maxsize : nat; r_reqsize : nat; r_keyops : nat; r_cookie : list byte }.

Inductive case :=
| CookieCase (secret addr params cookie : list byte)
| ParamsCase (h : hello) (params : list byte)
| VerifyCase (s a p s2 a2 p2 presented : list byte) (same accepted : bool)
| LoopCase (secret drawn addr : list byte) (hs : list hello) (rs : list resp)
(* a server connection bound to one UDP address received, from the same or from another address, the hello
   carrying the cookie that had been issued to the bound address: got_cookie = the cookie was obtained;
   n / first / keyops = datagrams sent in answer, type of the first, private-key operations *)
| ForeignCase (got_cookie same_addr : bool) (n : nat) (first : N) (keyops : nat)
(* no secret is configured; a second server connection (same configuration object, same listener, same client address)
   received the hello carrying the cookie that the FIRST connection had issued for exactly these fields: every
   connection draws its own secret (C18_unconfigured_secret_is_drawn), so the answer is one fresh
   HelloVerifyRequest with another cookie and no private-key operation *)
| OtherConnCase (got_cookie : bool) (n : nat) (first : N) (keyops : nat) (same_cookie : bool).

Definition HVR_T : N := 5635.   (* record type 22, handshake type 3 *)

Definition gen (s a p : list byte) := gen_cookie hmac_sm3 s a p.

(* walk the script: before acceptance every response must be a lone HelloVerifyRequest with the
   model's cookie (when the secret is known), no key operation; the accepting hello must not be
   answered by a HelloVerifyRequest.  Returns 0 or the code of the first deviation. *)
Fixpoint loop_scan (known : bool) (secret addr : list byte) (hs : list hello) (rs : list resp) : N :=
  match hs, rs with
  | h :: ht, r :: rt =>
      let params := marshal_for_cookie h in
      let valid := negb (Nat.eqb (length (h_cookie h)) 0) && verify_cookie hmac_sm3 secret addr params (h_cookie h) in
      if known && valid then (if N.eqb (r_first r) HVR_T then 14%N else 0%N)
      else if negb known && negb (N.eqb (r_first r) HVR_T) && negb (Nat.eqb (length (h_cookie h)) 0) then 0%N
      else if negb (Nat.eqb (r_n r) 1) then 10%N
      else if negb (N.eqb (r_first r) HVR_T) then 11%N
      else if Nat.ltb (r_reqsize r) (r_maxsize r) then 12%N
      else if negb (Nat.eqb (r_keyops r) 0) then 13%N
      else if known && negb (bytes_eqb (r_cookie r) (gen secret addr params)) then 15%N
      else loop_scan known secret addr ht rt
  | _, _ => 0%N
  end.

Definition code (c : case) : N :=
  match c with
  | CookieCase s a p c => if bytes_eqb (gen s a p) c then 0%N else 1%N
  | ParamsCase h p => if bytes_eqb (marshal_for_cookie h) p then 0%N else 4%N
  | VerifyCase s a p s2 a2 p2 pres same ok =>
      if ok && negb same then 2%N else if negb ok && same then 3%N else 0%N
  | ForeignCase got same n first keyops =>
      if negb got then 3%N
      else if same then (if Nat.eqb n 0 || N.eqb first HVR_T then 3%N else 0%N)   (* the valid cookie from the right address is accepted *)
      else if negb (Nat.eqb n 0) || negb (Nat.eqb keyops 0) then 2%N               (* anything from another address is ignored *)
      else 0%N
  | OtherConnCase got n first keyops same_cookie =>
      if negb got then 3%N
      else if Nat.eqb n 1 && N.eqb first HVR_T && Nat.eqb keyops 0 && negb same_cookie then 0%N else 16%N
  | LoopCase secret drawn addr hs rs =>
      (* an unconfigured (empty) secret is the 32 bytes the connection drew from Config.Rand,
         which the harness supplies and therefore knows *)
      let eff := effective_secret secret drawn in
      loop_scan (negb (Nat.eqb (length eff) 0)) eff addr hs rs
  end.

Definition mismatch (c : case) : bool :=
  match c with
  | VerifyCase s a p s2 a2 p2 pres same ok => negb (Bool.eqb ok (verify_cookie hmac_sm3 s2 a2 p2 pres))
  | _ => negb (N.eqb (code c) 0)
  end.

(* property level: the same scan is the property (only HelloVerifyRequests no larger than the
   request, no key operation, acceptance exactly of cookies valid for address, fields and
   secret); for VerifyCase it is independent of the model's verify_cookie *)
Definition spec_code (c : case) : N := code c.

(* one pass: (index, mismatch, code) *)
Definition evaluate (cs : list (N * case)) : list N * list (N * N) :=
  let rs := map (fun x => let c := code (snd x) in
                          (fst x, (match snd x with
                                   | VerifyCase _ _ _ _ _ _ _ _ _ => mismatch (snd x)
                                   | _ => negb (N.eqb c 0)
                                   end, c))) cs in
  (map fst (filter (fun r => fst (snd r)) rs),
   map (fun r => (fst r, snd (snd r))) (filter (fun r => negb (N.eqb (snd (snd r)) 0)) rs)).
