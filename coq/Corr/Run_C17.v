(* Correspondence runner for C17. *)
From V Require Export Model.Fragment.
From Coq Require Import ZArith.

Inductive case :=
| BufCase (total : nat) (adds : list (nat * nat * list byte)) (slices : bool) (msg : list byte)
          (rs : list bool) (comp : bool) (asm : list byte)
| RecvCase (frags : list frag) (calls : nat) (msgs : list (list byte)) (err : N) (pending pbytes : nat)
| SendCase (pmtu : Z) (typ : byte) (seq : N) (body : list byte) (frags : list frag)
           (transcript : list byte) (err : N) (maxlen : nat)
| PairCase (cp sp : Z) (ok agree : bool).

Fixpoint bytes_eqb (a b : list byte) : bool :=
  match a, b with
  | [], [] => true
  | x :: a', y :: b' => N.eqb x y && bytes_eqb a' b'
  | _, _ => false
  end.
Fixpoint bl_eqb (a b : list bool) : bool :=
  match a, b with
  | [], [] => true
  | x :: a', y :: b' => Bool.eqb x y && bl_eqb a' b'
  | _, _ => false
  end.
Fixpoint lbytes_eqb (a b : list (list byte)) : bool :=
  match a, b with
  | [], [] => true
  | x :: a', y :: b' => bytes_eqb x y && lbytes_eqb a' b'
  | _, _ => false
  end.
Definition frag_eqb (f g : frag) : bool :=
  N.eqb (f_type f) (f_type g) && Nat.eqb (f_blen f) (f_blen g) && N.eqb (f_seq f) (f_seq g) &&
  Nat.eqb (f_off f) (f_off g) && Nat.eqb (f_len f) (f_len g) && bytes_eqb (f_body f) (f_body g).
Fixpoint frags_eqb (a b : list frag) : bool :=
  match a, b with
  | [], [] => true
  | x :: a', y :: b' => frag_eqb x y && frags_eqb a' b'
  | _, _ => false
  end.

(* ---------- model side ---------- *)
Fixpoint buf_run (fb : fragbuf) (adds : list (nat * nat * list byte)) : fragbuf * list bool :=
  match adds with
  | [] => (fb, [])
  | (off, len, fr) :: t =>
      let '(fb1, b) := add_fragment fb off len fr in
      let '(fb2, bs) := buf_run fb1 t in (fb2, b :: bs)
  end.

Fixpoint recv_run (calls : nat) (pend : pending) (fs : list frag) : list (list byte) * N * pending :=
  match calls with
  | O => ([], 0%N, pend)
  | S k =>
      match read_handshake pend fs with
      | (p', Some (Msg b), rest) => let '(ms, e, p2) := recv_run k p' rest in (b :: ms, e, p2)
      | (p', Some (RErr a), _) => ([], a, p')
      | (p', Some Cont, _) => ([], 998%N, p')
      | (p', None, _) => ([], 1%N, p')
      end
  end.

Definition pend_bytes (p : pending) : nat :=
  fold_right (fun kv acc => length (fb_data (snd kv)) + length (fb_recv (snd kv)) + acc) 0 p.

Definition eff_pmtu (pmtu : Z) : nat := if (pmtu <=? 0)%Z then 1400 else Z.to_nat pmtu.
Definition plain_max_payload (pmtu : Z) : nat :=
  let m := eff_pmtu pmtu - 13 in
  let m := if Nat.ltb 16384 m then 16384 else m in
  if Nat.ltb m 1 then 1 else m.

Definition mismatch (c : case) : bool :=
  match c with
  | BufCase total adds _ _ rs comp asm =>
      let '(fb, bs) := buf_run (new_buf total) adds in
      negb (bl_eqb bs rs && Bool.eqb (complete fb) comp && bytes_eqb (assembled fb) asm)
  | RecvCase frags calls msgs err pending pbytes =>
      let '(ms, e, p) := recv_run calls [] frags in
      negb (lbytes_eqb ms msgs && N.eqb e err && Nat.eqb (length p) pending && Nat.eqb (pend_bytes p) pbytes)
  | SendCase pmtu typ seq body frags transcript err _ =>
      match send_fragments (plain_max_payload pmtu) typ seq body with
      | Some fs => negb (frags_eqb fs frags && N.eqb err 0 && bytes_eqb transcript (whole typ seq body))
      | None => negb (N.eqb err 1)
      end
  | PairCase _ _ ok agree => negb (ok && agree)
  end.

(* ---------- property-level predicates, independent of the bitmask buffer ---------- *)
Definition covered_b (n : nat) (adds : list (nat * nat * list byte)) (i : nat) : bool :=
  existsb (fun a => let '(off, len, _) := a in
                    Nat.leb (off + len) n && Nat.leb off i && Nat.ltb i (off + len)) adds.

(* reference reassembly of a fragment stream: per message_seq the list of fragments seen;
   complete when every index is covered; byte i comes from the latest fragment covering it *)
Definition ref_byte (fs : list frag) (i : nat) : byte :=   (* fs newest first *)
  match find (fun f => Nat.leb (f_off f) i && Nat.ltb i (f_off f + f_len f)) fs with
  | Some f => nth (i - f_off f) (f_body f) 0%N
  | None => 0%N
  end.
Definition ref_complete (n : nat) (fs : list frag) : bool :=
  forallb (fun i => existsb (fun f => Nat.leb (f_off f) i && Nat.ltb i (f_off f + f_len f)) fs) (seq 0 n).

Fixpoint ref_get (k : N) (st : list (N * list frag)) : list frag :=
  match st with [] => [] | (k', v) :: t => if N.eqb k k' then v else ref_get k t end.
Fixpoint ref_del (k : N) (st : list (N * list frag)) : list (N * list frag) :=
  match st with [] => [] | (k', v) :: t => if N.eqb k k' then ref_del k t else (k', v) :: ref_del k t end.

(* returns the messages produced by up to `calls` reads; stops at the first error / exhaustion.
   A fragment whose total length differs from the first one seen for its message_seq, or that
   does not fit, is ignored (as an out-of-range add). *)
Fixpoint ref_recv (calls : nat) (st : list (N * list frag)) (fs : list frag) : list (list byte) :=
  match fs with
  | [] => []
  | f :: t =>
      match calls with
      | O => []
      | S k =>
          if Nat.ltb maxHandshake (f_blen f) then []
          else if Nat.ltb (f_blen f) (f_off f + f_len f) then []
          else if Nat.ltb (f_len f) (f_blen f) || Nat.ltb 0 (f_off f) then
            let old := ref_get (f_seq f) st in
            let n := match rev old with g :: _ => Nat.max 1 (f_blen g) | [] => Nat.max 1 (f_blen f) end in
            let cur := if Nat.leb (f_off f + f_len f) n then f :: old else old in
            let cur := match cur with [] => [mkFrag (f_type f) (f_blen f) (f_seq f) 0 0 []] | _ => cur end in
            if ref_complete n cur
            then (hs_header (f_type f) (f_blen f) (f_seq f) 0 (f_blen f) ++ map (ref_byte cur) (seq 0 n))
                   :: ref_recv k (ref_del (f_seq f) st) t
            else ref_recv (S k) ((f_seq f, cur) :: ref_del (f_seq f) st) t
          else frag_bytes f :: ref_recv k st t
      end
  end.

Fixpoint tiles (off : nat) (fs : list frag) : bool :=
  match fs with
  | [] => true
  | f :: t => Nat.eqb (f_off f) off && Nat.eqb (f_len f) (length (f_body f)) && tiles (off + f_len f) t
  end.

Definition spec_code (c : case) : N :=
  match c with
  | BufCase total adds slices msg rs comp asm =>
      let n := Nat.max 1 total in
      if negb (bl_eqb rs (map (fun a => let '(off, len, _) := a in Nat.leb (off + len) n) adds)) then 3%N
      else if negb (Bool.eqb comp (forallb (covered_b n adds) (seq 0 n))) then 1%N
      else if slices && comp && negb (bytes_eqb asm msg) then 2%N
      else 0%N
  | RecvCase frags calls msgs err pending _ =>
      if Nat.ltb (256 * calls) pending then 10%N       (* more reassembly buffers than the read loops may create *)
      else if Nat.ltb 60 (length frags) then 0%N
      else if negb (lbytes_eqb (ref_recv calls [] frags) msgs) then 4%N else 0%N
  | SendCase pmtu typ seq body frags transcript err maxlen =>
      if N.eqb err 0 then
        if negb (bytes_eqb (concat (map f_body frags)) body && tiles 0 frags &&
                 forallb (fun f => N.eqb (f_type f) typ && N.eqb (f_seq f) seq && Nat.eqb (f_blen f) (length body)) frags)
        then 6%N
        else if Nat.ltb (eff_pmtu pmtu) maxlen then 7%N
        else if negb (bytes_eqb transcript (whole typ seq body)) then 8%N
        else 0%N
      else 0%N
  | PairCase _ _ ok agree => if ok && agree then 0%N else 9%N
  end.

Definition mismatches (cs : list (N * case)) : list N :=
  map fst (filter (fun x => mismatch (snd x)) cs).
Definition spec_violations (cs : list (N * case)) : list (N * N) :=
  filter (fun x => negb (N.eqb (snd x) 0)) (map (fun x => (fst x, spec_code (snd x))) cs).

Definition evaluate (cs : list (N * case)) : list N * list (N * N) :=
  (mismatches cs, spec_violations cs).
