(* Correspondence runner for C09.
   Four kinds of cases:
   - Kx*   : a key-exchange parser of the real code was called (through the add-only hooks) on a
             body; the case carries the body, the answers of the cryptographic library as the
             harness observed or recomputed them, and what the Go function did (class: 0 no
             error, 1 the sentinel "invalid ... message" error, 2 any other error, 9 panic);
   - TraceT / TraceD : a real endpoint at a given handshake state was sent a scripted sequence of
             records / datagrams; the case carries the script and, after each step, what the
             endpoint holds (hooks) and whether it is still running;
   - Ep    : a whole puppet-driven scenario against a real endpoint (either role, either stack,
             any state): the case carries only observed facts: panic, hang, maxima of the buffer
             sizes sampled at every transport read, call-stack depth (datagram stack: frames of
             readDatagram and of readRecordOrCCS on the stack at a ReadFrom call).
   mismatch  = the Gallina model and the implementation disagree;
   spec_code = the implementation's own observable behaviour violates a clause of C09
               (independent of the model): 1 panic, 2 hang / spin, 3 stream handshake buffer above
               bound, 4 stream raw input buffer above bound, 5 handshake bytes buffered after
               completion grow, 6 more than 16 consecutive non-advancing records tolerated,
               7 datagram handshake buffer above bound, 8 more reassembly buffers than
               maxHandshakeFragments, 9 reassembly buffer bytes above bound, 10 call stack grows
               with the input (datagram stack: more than one frame of readRecordOrCCS or more
               than rdMax of readDatagram at a ReadFrom call), 11 datagram raw buffer above bound.
   Every finding of the datagram stack (K12 .. K15) is repaired in the library: there is no known
   class, the behaviour of the code before any of those fixes is an ordinary violation. *)
From V Require Export Model.Codec Model.Kx Model.ConnT Model.Fragment Model.ConnD.
Open Scope nat_scope.

(* ---------- compact payloads ---------- *)
Inductive chunk := Lit (b : bytes) | Zeros (n : nat).
Definition expand1 (c : chunk) : bytes := match c with Lit b => b | Zeros n => repeat 0%N n end.
Definition expand (p : list chunk) : bytes := concat (map expand1 p).

Fixpoint bytes_eqb (a b : bytes) : bool :=
  match a, b with
  | [], [] => true
  | x :: a', y :: b' => N.eqb x y && bytes_eqb a' b'
  | _, _ => false
  end.
Definition obytes_eqb (a b : option bytes) : bool :=
  match a, b with
  | None, None => true
  | Some x, Some y => bytes_eqb x y
  | _, _ => false
  end.

(* ---------- stream traces ---------- *)
Inductive tev :=
| THs (p : list chunk) (glued : bool)            (* handshake record *)
| TAlert (p : list chunk) (glued : bool)         (* alert record with this body *)
| TCcs (p : list chunk) (glued : bool)
| TApp (n : nat) (glued : bool)                  (* application data, n zero bytes *)
| TOther (typ : N) (n : nat)                     (* a record of another type *)
| TVers (typ vers : N) (n : nat)                 (* a record with this version *)
| TBadMac.                                       (* an undecryptable record *)

(* observation after an event: None = not sampled (the next event was written together with it) *)
Definition tobs := option (bool * nat * nat).     (* running, |hand|, retryCount *)

(* ---------- datagram traces ---------- *)
Record drecord := mkDR {
  dr_typ : N;
  dr_epoch_other : bool;       (* epoch differs from the one the endpoint reads *)
  dr_replay : bool;            (* sequence number already seen *)
  dr_bad : bool;               (* undecryptable *)
  dr_payload : list chunk
}.
Inductive dev :=
| DGram (recs : list drecord)
| DForeign
| DShort (n : nat).            (* a datagram of n < 13 bytes *)
(* running, |handBuf|, reassembly buffers, their bytes (pend_bytes of Model/ConnD.v), retryCount *)
Definition dobs := (bool * nat * nat * nat * nat)%type.

Inductive case :=
| KxCkxEcc (ct : bytes) (cls : N) (dec_in : option bytes) (dec_len : option nat)
| KxPub (ct : bytes) (cls : N) (point : option bytes)
| KxCkxEcdhe (kinds : list keykind) (ct : bytes) (cls : N) (tmp : option bytes)
| KxSkxEcc (kinds : list keykind) (key : bytes) (verify_ok : bool) (cls : N)
| KxSkxEcdhe (kinds : list keykind) (key : bytes) (point_ok verify_ok : bool) (cls : N) (tmp : option bytes)
| KxGenEcc (kinds : list keykind) (cls : N) (body : bytes)
| KxGenEcdhe (kinds : list keykind) (skx : bytes) (point_ok verify_ok : bool) (own_enc : option bool)
             (as_vector : bool) (cls_skx cls_ckx : N) (body : bytes)
| TraceT (w : want) (vers_known cipher : bool) (evs : list tev) (obs : list tobs)
| TraceD (w : want) (vers_known cipher dwell : bool) (evs : list dev) (obs : list dobs) (max_depth max_frames : nat)
| EpT (panic hung : bool) (hand_len raw_len raw_cap post_hand retry depth : nat)
| EpD (panic hung : bool) (hand_len raw_len pending pending_bytes post_hand retry depth frames : nat).

(* ---------- model side: key exchange ---------- *)
Definition cls_of {A} (r : res (kx A)) : N :=
  match r with
  | Ok (Done _) => 0
  | Ok (Fail 1%N) => 1
  | Ok (Fail _) => 2
  | Reject => 8
  | Panic _ => 9
  end%N.

Definition keykind_eqb (a b : keykind) : bool :=
  match a, b with KSm2, KSm2 | KEcOther, KEcOther | KRsa, KRsa | KOtherKey, KOtherKey => true | _, _ => false end.
Definition sm2_only (k : keykind) : bool := keykind_eqb k KSm2.

Definition mm_ckx_ecc (ct : bytes) (cls : N) (dec_in : option bytes) (dec_len : option nat) : bool :=
  match ecc_ckx_cipher false ct with
  | Ok (Done c) =>
      negb (obytes_eqb dec_in (Some c)) ||
      negb (N.eqb cls (cls_of (ecc_ckx_finish true (fun _ => option_map (repeat 0%N) dec_len) c)))
  | r => negb (N.eqb cls (cls_of r)) || negb (obytes_eqb dec_in None)
  end.

Definition mm_pub (ct : bytes) (cls : N) (point : option bytes) : bool :=
  match get_ecdhe_point ct with
  | Ok (Done p) => match point with
                   | Some q => negb (bytes_eqb p q && N.eqb cls 0)
                   | None => negb (N.eqb cls 2)
                   end
  | r => negb (N.eqb cls (cls_of r)) || negb (obytes_eqb point None)
  end.

Definition mm_ckx_ecdhe (kinds : list keykind) (ct : bytes) (cls : N) (tmp : option bytes) : bool :=
  let point_ok := fun p => match tmp with Some t => bytes_eqb t p | None => false end in
  negb (N.eqb cls (cls_of (ecdhe_process_ckx kinds sm2_only point_ok (fun _ => Some (repeat 0%N 48)) ct))).

Definition mm_skx_ecc (kinds : list keykind) (key : bytes) (verify_ok : bool) (cls : N) : bool :=
  negb (N.eqb cls (cls_of (ecc_process_skx kinds (fun k _ => sm2_only k && verify_ok) key))).

Definition mm_skx_ecdhe (kinds : list keykind) (key : bytes) (point_ok verify_ok : bool) (cls : N) (tmp : option bytes) : bool :=
  let r := ecdhe_process_skx kinds (fun _ => point_ok) (fun k _ _ => sm2_only k && verify_ok) key in
  let want_tmp :=
    match ecdhe_skx_point kinds key with
    | Ok (Done (params, _)) => if point_ok then Some (skipn 4 params) else None
    | _ => None
    end in
  negb (N.eqb cls (cls_of r)) || negb (obytes_eqb tmp want_tmp).

Definition mm_gen_ecc (kinds : list keykind) (cls : N) (body : bytes) : bool :=
  let r := ecc_generate_ckx kinds (fun k => if sm2_only k then Some (skipn 2 body) else None) in
  match r with
  | Ok (Done b) => negb (N.eqb cls 0 && bytes_eqb b body)
  | _ => negb (N.eqb cls (cls_of r))
  end.

Definition mm_gen_ecdhe (kinds : list keykind) (skx : bytes) (point_ok verify_ok : bool) (own_enc : option bool)
           (as_vector : bool) (cls_skx cls_ckx : N) (body : bytes) : bool :=
  let r1 := ecdhe_process_skx kinds (fun _ => point_ok) (fun k _ _ => sm2_only k && verify_ok) skx in
  match r1 with
  | Ok (Done (params, _)) =>
      let pub := skipn (if as_vector then 6 else 4) body in
      let r2 := ecdhe_generate_ckx (Some (skipn 4 params)) own_enc kinds sm2_only (fun _ => Some pub) as_vector in
      negb (N.eqb cls_skx 0) ||
      match r2 with
      | Ok (Done b) => negb (N.eqb cls_ckx 0 && bytes_eqb b body)
      | _ => negb (N.eqb cls_ckx (cls_of r2))
      end
  | _ => negb (N.eqb cls_skx (cls_of r1))
  end.

(* ---------- model side: stream traces ---------- *)
(* record protection in a trace: the identity, except on the marker of an undecryptable record *)
Definition tr_dec (_ : bool) (_ : N) (b : bytes) : option bytes :=
  match b with 255%N :: 254%N :: 253%N :: _ => None | _ => Some b end.
(* the handshake layer in a trace: every completed message is refused (the scripts only
   complete messages of the unknown type 0xEE); after a ChangeCipherSpec it reads Finished *)
Definition tr_msg (_ : unit) (_ : bytes) : option (unit * want * option N) := None.
Definition tr_ccs (_ : unit) : option (unit * want) := Some (tt, WMsg).

Definition tev_record (e : tev) : trec :=
  match e with
  | THs p g => mkRec 22 257 (expand p) g
  | TAlert p g => mkRec 21 257 (expand p) g
  | TCcs p g => mkRec 20 257 (expand p) g
  | TApp n g => mkRec 23 257 (repeat 0%N n) g
  | TOther typ n => mkRec typ 257 (repeat 0%N n) false
  | TVers typ vers n => mkRec typ vers (repeat 0%N n) false
  | TBadMac => mkRec 23 257 [255; 254; 253]%N false
  end.

Definition tobs_of (c : tconn unit) : bool * nat * nat := (t_alive c, length (t_hand c), t_retry c).

Definition tobs_agree (o : tobs) (c : tconn unit) : bool :=
  match o with
  | None => true
  | Some (running, hl, rt) =>
      Bool.eqb running (t_alive c) &&
      (negb running || (Nat.eqb hl (length (t_hand c)) && Nat.eqb rt (t_retry c)))
  end.

Fixpoint trace_t (c : tconn unit) (evs : list tev) (obs : list tobs) : bool :=
  match evs, obs with
  | e :: et, o :: ot =>
      let c' := tstep unit tr_msg tr_ccs tr_dec c (tev_record e) in
      tobs_agree o c' && trace_t c' et ot
  | [], [] => true
  | _, _ => false
  end.

Definition t_start (w : want) (vers_known cipher : bool) : tconn unit :=
  mkT unit true w tt [] 0 (if vers_known then Some 257%N else None) cipher 0 false false.

(* ---------- model side: datagram traces ---------- *)
Definition d_msg (_ : unit) (m : bytes) : option (unit * want * option N) :=
  match m with 1%N :: _ => Some (tt, WMsg, Some 257%N) | _ => None end.   (* a cookie-less ClientHello: version fixed, HelloVerifyRequest sent, next hello read *)

Definition dr_bytes (epoch : N) (r : drecord) : bytes :=
  let body := if dr_bad r then [255; 254; 253]%N else expand (dr_payload r) in
  let n := length body in
  [dr_typ r; 1; 1; 0; if dr_epoch_other r then (epoch + 1) mod 256 else epoch; 0; 0; 0; 0; 0; 0;
   N.of_nat (n / 256); N.of_nat (n mod 256)]%N ++ body.

Definition dev_dgram (epoch : N) (e : dev) : dgram :=
  match e with
  | DGram recs => FromPeer (concat (map (dr_bytes epoch) recs))
  | DForeign => Foreign
  | DShort n => FromPeer (repeat 0%N n)
  end.
Definition dev_fresh (e : dev) : list bool :=
  match e with DGram recs => map (fun r => negb (dr_replay r)) recs | _ => [] end.

Definition dobs_agree (o : dobs) (c : dconn unit) : bool :=
  let '(running, hl, pn, pb, rt) := o in
  Bool.eqb running (d_alive c) &&
  (negb running ||
   (Nat.eqb hl (length (d_hand c)) && Nat.eqb pn (length (d_pend c)) && Nat.eqb pb (pend_bytes (d_pend c)) &&
    Nat.eqb rt (d_retry c))).

Definition dstep_dgram (fresh : nat -> bool) (c : dconn unit) (d : dgram) : dconn unit :=
  fst (fst (drun unit d_msg tr_ccs tr_dec fresh (fun _ => true) true
                 (4 * (match d with FromPeer b => length b | Foreign => 0 end) + 8) c [d])).

(* the endpoint asks for the next datagram in the state each event leaves *)
Fixpoint trace_d (fresh : list bool) (c : dconn unit) (evs : list dev) (obs : list dobs) : bool :=
  match evs, obs with
  | e :: et, o :: ot =>
      (* the replay verdicts of this datagram's records, counted from the first record the
         endpoint takes from it (a warning alert discards the rest of its datagram) *)
      let c' := dstep_dgram (fun i => nth (i - d_n c) (dev_fresh e) true) c (dev_dgram (d_epoch c) e) in
      dobs_agree o c' && trace_d fresh c' et ot
  | [], [] => true
  | _, _ => false
  end.

Definition d_start (w : want) (vers_known cipher dwell : bool) : dconn unit :=
  mkD unit true w tt [] [] [] 0 (if vers_known then Some 257%N else None) cipher (if cipher then 1%N else 0%N)
      false false dwell 0 0 false 0 0 0 1.

Definition mismatch (c : case) : bool :=
  match c with
  | KxCkxEcc ct cls dec_in dec_len => mm_ckx_ecc ct cls dec_in dec_len
  | KxPub ct cls point => mm_pub ct cls point
  | KxCkxEcdhe kinds ct cls tmp => mm_ckx_ecdhe kinds ct cls tmp
  | KxSkxEcc kinds key v cls => mm_skx_ecc kinds key v cls
  | KxSkxEcdhe kinds key p v cls tmp => mm_skx_ecdhe kinds key p v cls tmp
  | KxGenEcc kinds cls body => mm_gen_ecc kinds cls body
  | KxGenEcdhe kinds skx p v own vec c1 c2 body => mm_gen_ecdhe kinds skx p v own vec c1 c2 body
  | TraceT w vk ci evs obs => negb (trace_t (t_start w vk ci) evs obs)
  | TraceD w vk ci dw evs obs max_depth max_frames =>
      (* frames on the stack at a ReadFrom call: one of readDatagram (it loops over datagrams from
         other addresses) and one of readRecordOrCCS (a warning alert is counted and its loop goes
         on: the model has no recursion) *)
      negb (trace_d [] (d_start w vk ci dw) evs obs) || negb (Nat.eqb max_depth 1) || negb (Nat.eqb max_frames 1)
  | EpT _ _ _ _ _ _ _ _ => false
  | EpD _ _ _ _ _ _ _ _ _ _ => false
  end.

(* ---------- the property on the implementation's own output ---------- *)
(* stream: hand <= 4 + 65536 - 1 at every transport read (the endpoint waits for input there);
   rawInput <= one maximal record + one read (its capacity, itself below a fixed constant) *)
Definition handWaitT : nat := 64 * 1024 + 3.
Definition rawCapMax : nat := 9 * (18 * 1024 + 5 + 512).
(* datagram: handBuf <= 12 + 65536 - 1 + one datagram's payload; reassembly buffers <= maxHandshakeFragments,
   each <= 65536 + 8192 bytes; datagram buffer <= 18432 + 13 *)
Definition handMaxD : nat := 12 + 64 * 1024 - 1 + 18 * 1024.
Definition stackMax : nat := 96.    (* stream: frames on the stack at a transport read (retry recursion included) *)
Definition rdMax : nat := 4.        (* datagram: frames of readDatagram on the stack at a ReadFrom call *)
Definition rrMax : nat := 1.        (* datagram: frames of readRecordOrCCS on the stack at a ReadFrom call: the call depth of the
                                       record reader does not depend on the input (before bfc7028: one more per warning alert) *)

Definition running_after_stall (obs : list (option (bool * nat * nat))) : bool :=
  (* some live observation shows retryCount above 16 *)
  existsb (fun o => match o with Some (true, _, rt) => Nat.ltb 16 rt | _ => false end) obs.

Definition spec_code (c : case) : N :=
  match c with
  | KxCkxEcc _ cls _ _ | KxPub _ cls _ | KxCkxEcdhe _ _ cls _ | KxSkxEcc _ _ _ cls
  | KxSkxEcdhe _ _ _ _ cls _ | KxGenEcc _ cls _ => if N.eqb cls 9 then 1%N else 0%N
  | KxGenEcdhe _ _ _ _ _ _ c1 c2 _ => if N.eqb c1 9 || N.eqb c2 9 then 1%N else 0%N
  | TraceT w _ _ _ obs =>
      if running_after_stall obs then 6%N
      else if existsb (fun o => match o with Some (true, hl, _) => Nat.ltb handWaitT hl | _ => false end) obs then 3%N
      else if want_eqb w WApp &&
              existsb (fun o => match o with Some (true, hl, _) => Nat.ltb (16 * 1024) hl | _ => false end) obs then 5%N
      else 0%N
  | TraceD w _ _ _ evs obs max_depth max_frames =>
      if existsb (fun o => let '(running, _, _, _, rt) := o in running && Nat.ltb 16 rt) obs then 6%N
      else if existsb (fun o => let '(running, hl, _, _, _) := o in running && Nat.ltb handMaxD hl) obs then 7%N
      else if existsb (fun o => let '(running, _, pn, _, _) := o in running && Nat.ltb 256 pn) obs then 8%N
      else if existsb (fun o => let '(running, _, pn, pb, _) := o in running && Nat.ltb (pn * (72 * 1024)) pb) obs then 9%N
      else if Nat.ltb rdMax max_depth || Nat.ltb rrMax max_frames then 10%N
      else if want_eqb w WApp && existsb (fun o => let '(running, hl, _, _, _) := o in running && Nat.ltb 0 hl) obs then 5%N
      else 0%N
  | EpT panic hung hand_len raw_len raw_cap post_hand retry depth =>
      if panic then 1%N else if hung then 2%N
      else if Nat.ltb handWaitT hand_len then 3%N
      (* at a transport read rawInput holds an incomplete record: fewer than 5 + 18432 bytes *)
      else if Nat.ltb rawCapMax raw_cap || Nat.ltb raw_cap raw_len || Nat.ltb (18 * 1024 + 5) raw_len then 4%N
      else if Nat.ltb (16 * 1024) post_hand then 5%N
      else if Nat.ltb 17 retry then 6%N
      else if Nat.ltb stackMax depth then 10%N
      else 0%N
  | EpD panic hung hand_len raw_len pending pending_bytes post_hand retry depth frames =>
      if panic then 1%N else if hung then 2%N
      else if Nat.ltb handMaxD hand_len then 7%N
      else if Nat.ltb 256 pending then 8%N
      else if Nat.ltb (pending * (72 * 1024)) pending_bytes then 9%N
      else if Nat.ltb 0 post_hand then 5%N
      else if Nat.ltb 17 retry then 6%N
      else if Nat.ltb rdMax depth || Nat.ltb rrMax frames then 10%N
      else if Nat.ltb (18 * 1024 + 13) raw_len then 11%N
      else 0%N
  end.

Definition mismatches (cs : list (N * case)) : list N :=
  map fst (filter (fun x => mismatch (snd x)) cs).
Definition spec_violations (cs : list (N * case)) : list (N * N) :=
  filter (fun x => negb (N.eqb (snd x) 0)) (map (fun x => (fst x, spec_code (snd x))) cs).

Definition evaluate (cs : list (N * case)) : list N * list (N * N) :=
  (mismatches cs, spec_violations cs).
