(* Correspondence runner for C06. *)
From V Require Export Model.RecordT.
Open Scope Z_scope.

Inductive case :=
| StreamCase (dyn_off : bool) (m : mode) (bytes0 : Z) (writes wire_lens rets bufs read_sizes : list Z)
             (intact eof_ok : bool).

Fixpoint zl_eqb (a b : list Z) : bool :=
  match a, b with
  | [], [] => true
  | x :: a', y :: b' => (x =? y) && zl_eqb a' b'
  | _, _ => false
  end.

(* cycle the buffer-size pattern to n entries *)
Fixpoint cycle (fuel : nat) (pat cur : list Z) : list nat :=
  match fuel with
  | O => []
  | S k => match cur with
           | [] => match pat with [] => [] | p :: t => Z.to_nat p :: cycle k pat t end
           | c :: t => Z.to_nat c :: cycle k pat t
           end
  end.

Definition model_chunks (dyn_off : bool) (m : mode) (bytes0 : Z) (writes : list Z) : list Z :=
  concat (fst (writes_sizes dyn_off m (mkW bytes0 0) writes)).

Definition mismatch (c : case) : bool :=
  match c with
  | StreamCase dyn_off m bytes0 writes wire_lens rets bufs read_sizes intact eof_ok =>
      let chunks := model_chunks dyn_off m bytes0 writes in
      let recs := map (fun s => repeat 0%N (Z.to_nat s)) chunks in
      let reads := conn_reads [] recs (cycle (length read_sizes) bufs []) in
      negb (zl_eqb (map (wire_len m) chunks) wire_lens && zl_eqb rets writes &&
            zl_eqb (map (fun r => Z.of_nat (length r)) reads) read_sizes && intact && eof_ok)
  end.

(* property level, independent of the ramp: exact delivery, full write lengths, EOF after all
   data, no record above 16384 plaintext bytes (derived from the wire length by the inverse of
   the expansion) or above 16384+2048 bytes of ciphertext *)
Definition plain_of_wire (m : mode) (l : Z) : Z :=
  match m with MGcm => l - 5 - 24 | MCbc => l - 5 - 16 - 32 - 1 end.   (* CBC: lower bound of the plaintext *)

Definition spec_code (c : case) : N :=
  match c with
  | StreamCase dyn_off m bytes0 writes wire_lens rets bufs read_sizes intact eof_ok =>
      if negb intact then 1%N
      else if negb (zl_eqb rets writes) then 2%N
      else if negb eof_ok then 3%N
      else if existsb (fun l => 16384 + 2048 <? l - 5) wire_lens then 4%N
      else if existsb (fun l => 16384 <? plain_of_wire m l - (match m with MGcm => 0 | MCbc => 15 end)) wire_lens then 5%N
      else if negb (fold_right Z.add 0 read_sizes =? fold_right Z.add 0 writes) then 6%N
      else 0%N
  end.

Definition mismatches (cs : list (N * case)) : list N :=
  map fst (filter (fun x => mismatch (snd x)) cs).
Definition spec_violations (cs : list (N * case)) : list (N * N) :=
  filter (fun x => negb (N.eqb (snd x) 0)) (map (fun x => (fst x, spec_code (snd x))) cs).
Definition evaluate (cs : list (N * case)) : list N * list (N * N) :=
  (mismatches cs, spec_violations cs).
