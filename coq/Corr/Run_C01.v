(* Correspondence runner for C01. *)
From V Require Export Model.Negotiate.
Open Scope N_scope.

Inductive case :=
| PairCase (c : ccfg) (s : scfg) (c_ok s_ok : bool) (suite alpn : N) (srv_sees_certs : nat)
           (verified_chains agree certs_match echo : bool)
(* a later connection of a pair with session caches (configurations possibly changed in between):
   when it was resumed the suite is the session's (prev), which both configurations must still
   enable; otherwise it is judged like a first connection *)
| SecondCase (c : ccfg) (s : scfg) (c_ok s_ok : bool) (suite alpn : N) (srv_sees_certs : nat)
             (verified_chains agree certs_match echo resumed : bool) (prev : N).

Definition resumed_suite_ok (c : ccfg) (s : scfg) (suite prev : N) : bool :=
  (suite =? prev) && memN suite (client_offer c) && memN suite (cfg_suites (s_suites s)) && s_has_keys s.

Definition alpn_ok (c : ccfg) (s : scfg) (alpn : N) : bool :=
  match alpn_pick (s_alpn s) (c_alpn c) with Some p => p =? alpn | None => false end.

Definition mismatch (k : case) : bool :=
  match k with
  | PairCase c s c_ok s_ok suite alpn n vc agree cm echo =>
      match honest_run c s with
      | None => c_ok || s_ok
      | Some o => negb (c_ok && s_ok && (o_suite o =? suite) && (o_alpn o =? alpn) &&
                        Nat.eqb (o_client_certs_at_server o) n && Bool.eqb (o_verified_chains o) vc &&
                        agree && cm && echo)
      end
  | SecondCase c s c_ok s_ok suite alpn n vc agree cm echo resumed prev =>
      if resumed then negb (c_ok && s_ok && resumed_suite_ok c s suite prev && alpn_ok c s alpn && agree && cm && echo)
      else
      match honest_run c s with
      | None => c_ok || s_ok
      | Some o => negb (c_ok && s_ok && (o_suite o =? suite) && (o_alpn o =? alpn) &&
                        Nat.eqb (o_client_certs_at_server o) n && Bool.eqb (o_verified_chains o) vc &&
                        agree && cm && echo)
      end
  end.

(* property level, from the declarative side only (common_suite / compatible / alpn_pick) *)
Definition spec_code (k : case) : N :=
  match k with
  | PairCase c s c_ok s_ok suite alpn n vc agree cm echo =>
      if negb (Bool.eqb c_ok s_ok) then 1                      (* one side succeeded, the other failed *)
      else if negb (Bool.eqb c_ok (compatible c s)) then 2     (* succeeds exactly when compatible *)
      else if c_ok then
        if negb (match common_suite c s with Some x => x =? suite | None => false end) then 3  (* not the first common suite in priority order *)
        else if negb agree then 4                              (* the two sides report different parameters *)
        else if negb cm then 5                                 (* peer certificates are not what the other side presented *)
        else if negb echo then 6                               (* data not delivered unchanged *)
        else if negb (match alpn_pick (s_alpn s) (c_alpn c) with Some p => p =? alpn | None => false end) then 7
        else 0
      else 0
  | SecondCase c s c_ok s_ok suite alpn n vc agree cm echo resumed prev =>
      if negb (Bool.eqb c_ok s_ok) then 1
      else if resumed then
        if negb c_ok then 0
        else if negb (resumed_suite_ok c s suite prev) then 8      (* resumed on a suite that is not the session's or that one side no longer enables *)
        else if negb agree then 4
        else if negb cm then 5
        else if negb echo then 6
        else if negb (alpn_ok c s alpn) then 7
        else 0
      else if negb (Bool.eqb c_ok (compatible c s)) then 2
      else if c_ok then
        if negb (match common_suite c s with Some x => x =? suite | None => false end) then 3
        else if negb agree then 4
        else if negb cm then 5
        else if negb echo then 6
        else if negb (alpn_ok c s alpn) then 7
        else 0
      else 0
  end.

Definition mismatches (cs : list (N * case)) : list N :=
  map fst (filter (fun x => mismatch (snd x)) cs).
Definition spec_violations (cs : list (N * case)) : list (N * N) :=
  filter (fun x => negb (N.eqb (snd x) 0)) (map (fun x => (fst x, spec_code (snd x))) cs).
Definition evaluate (cs : list (N * case)) : list N * list (N * N) :=
  (mismatches cs, spec_violations cs).
