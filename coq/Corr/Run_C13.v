(* Correspondence runner for C13.  Three kinds of cases:
     CStream  what one stress run of the real library observed (cmd/hxrace under the race detector);
     CRace    one report of the Go race detector (the racing call sites are the case's scenario);
     CField   a lockset query about one struct field, answered from the skeleton generated
              from the Go sources of this run.
   The models (write path, handshake latch, Close interlock) predict exactly the property-level
   predicate below: C13_writes_whole => the received stream is a concatenation of whole
   payloads each once; C13_handshake_same_result => all Handshake callers of one connection
   agree; C13_close_interlock => the interlock word is 1 when the datagram Close returns;
   C13_lock_order / C13_lockset => no goroutine stuck, no race report.  So `mismatch` (the
   implementation left the model's allowed set) coincides with spec_code <> 0. *)
From Coq Require Import List NArith String Bool.
From V Require Export Model.Conc Model.Skeleton.
Import ListNotations.
Open Scope N_scope.

Inductive case :=
| CStream (tail sub : bool) (tags : list (N * N)) (stream : list N)
          (hs_cli hs_srv : list N) (stuck active bad : N) (panicked stalled : bool)
| CRace
| CField (pkg : string) (o : own) (field : string).

(* ---- the stream predicate: header A5 tagHi tagLo lenHi lenLo, then len bytes (tag*131+i*7+3) mod 251 *)
Inductive pres := POk (rest : list N) | PPartial | PBad.

Fixpoint take_body (tag i : N) (n : nat) (s : list N) : pres :=
  match n with
  | O => POk s
  | S n' => match s with
            | [] => PPartial
            | b :: s' => if b =? (tag * 131 + i * 7 + 3) mod 251 then take_body tag (i + 1) n' s' else PBad
            end
  end.

Fixpoint lookup_tag (t : N) (tags : list (N * N)) : option N :=
  match tags with [] => None | (t', n) :: r => if t =? t' then Some n else lookup_tag t r end.

(* result: (well-formed, ended inside a payload, tags seen) *)
Fixpoint parse (fuel : nat) (tags : list (N * N)) (used : list N) (s : list N) : bool * bool * list N :=
  match fuel with
  | O => (false, false, used)
  | S f =>
      match s with
      | [] => (true, false, used)
      | m :: r =>
          if negb (m =? 165) then (false, false, used) else
          match r with
          | th :: tl :: lh :: ll :: s' =>
              let tag := th * 256 + tl in
              let n := lh * 256 + ll in
              match lookup_tag tag tags with
              | Some n' =>
                  if (n =? n') && negb (memN tag used) then
                    match take_body tag 0 (N.to_nat n) s' with
                    | POk rest => parse f tags (tag :: used) rest
                    | PPartial => (true, true, used)
                    | PBad => (false, false, used)
                    end
                  else (false, false, used)
              | None => (false, false, used)
              end
          | _ => (true, true, used)        (* the stream ends inside a header *)
          end
      end
  end.

(* the received plaintext is a concatenation of whole tagged payloads, each exactly once
   (when Close raced with the writers: possibly not all of them, and one may be cut at the end) *)
Definition stream_ok (tail sub : bool) (tags : list (N * N)) (s : list N) : bool :=
  match parse (S (List.length tags)) tags [] s with
  | (ok, partial, used) =>
      ok && (negb partial || tail) && (sub || Nat.eqb (List.length used) (List.length tags))
  end.

Definition all_equal (l : list N) : bool :=
  match l with [] => true | x :: r => forallb (N.eqb x) r end.

(* ---- lockset answers, computed once from the generated skeleton *)
Definition failing_all : list (string * list string) :=
  Eval vm_compute in map (fun sk => (sk_name sk, failing_fields sk c13_exemptions [])) skeletons.

Fixpoint assoc_f (k : string) (l : list (string * list string)) : list string :=
  match l with [] => [] | (k', v) :: r => if String.eqb k k' then v else assoc_f k r end.

Definition field_fails (pkg : string) (o : own) (field : string) : bool :=
  existsb (String.eqb (own_prefix o ++ "." ++ field)%string) (assoc_f pkg failing_all).

(* property-level verdict on the implementation's own behaviour:
     1 received stream is not whole payloads each exactly once    2 Handshake callers disagree
     3 goroutine still blocked 5 s after Close (deadlock / Close does not unblock)
     4 panic   5 a Write that had to succeed failed or was short
     6 datagram Close returned while calls were still inside
     7 a call made no progress on a fault-free network until the connection was closed
     10 data race reported
     20 conflicting accesses to the field hold no common mutex *)
Definition spec_code (c : case) : N :=
  match c with
  | CStream tail sub tags s hc hs stuck active bad pan stalled =>
      if pan then 4
      else if negb (stuck =? 0) then 3
      else if stalled then 7
      else if negb (stream_ok tail sub tags s) then 1
      else if negb (all_equal hc && all_equal hs) then 2
      else if negb sub && negb (bad =? 0) then 5
      (* byte-accounting runs (short reads next to ReadFrom) carry no stream: bad counts the byte values
         that were delivered another number of times than they were written *)
      else if sub && tail && (match s with [] => true | _ => false end) && negb (bad =? 0) then 5
      else if negb (active =? 9999) && negb (active =? 1) then 6
      else 0
  | CRace => 10
  | CField pkg o f => if field_fails pkg o f then 20 else 0
  end.

Definition mismatch (c : case) : bool := negb (spec_code c =? 0).

Definition mismatches (cs : list (N * case)) : list N :=
  map fst (filter (fun x => mismatch (snd x)) cs).

Definition spec_violations (cs : list (N * case)) : list (N * N) :=
  filter (fun x => negb (snd x =? 0)) (map (fun x => (fst x, spec_code (snd x))) cs).

Definition evaluate (cs : list (N * case)) : list N * list (N * N) :=
  (mismatches cs, spec_violations cs).
