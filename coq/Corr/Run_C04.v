(* Correspondence runner for C04: every captured connection is re-derived from the standard by
   the Gallina specification (Spec/SM3, PRF, SM4, Modes, RecordProt): master secret, key block,
   every protected record of both directions, both Finished values, application plaintext.
   There is no separate model of the Go code here: the specification is the reference, so a
   disagreement is at once a property-level violation (mismatch = spec_code <> 0). *)
From V Require Export Spec.RecordProt.
Open Scope N_scope.

(* where the master secret comes from: the pre-master secret (decrypted from the
   ClientKeyExchange with the server's encryption key) and the hello randoms of the handshake
   that created the session; or trusted from the session cache (ECDHE suites) *)
Inductive msrc := MPre (pre cr0 sr0 : list byte) | MTrusted.

Inductive case :=
| Conn (f : hform) (suite : N) (resumed : bool) (ms : msrc)
       (master_c master_c2 master_s : list byte)   (* client cache by session id / by address, server cache *)
       (hs : list (list byte))                     (* transcript messages before the Finished messages *)
       (c2s s2c : list (list byte))                (* protected wire records, client->server / server->client *)
       (wr_c wr_s : list byte)                     (* application bytes written by client / server *)
       (ivs_c ivs_s : list (list byte))            (* CBC: predicted explicit IVs of the non-handshake records *)
       (base : N).                                 (* datagram stack: 0, or the record sequence number both ends were moved to
                                                      after their Finished (hook VerifSetWriteSeq), to reach numbers above 2^32 *)

Definition hs_hdr_len (f : hform) : nat := match f with HT => 4 | HD => 12 end%nat.
Definition hello_random (f : hform) (m : list byte) : list byte := slice (hs_hdr_len f + 2) 32 m.
Definition msg_type (m : list byte) : N := nth 0 m 255.

Fixpoint open_all (m : mode) (f : hform) (k : dir_keys) (i : N) (recs : list (list byte)) : list (option opened) :=
  match recs with
  | [] => []
  | r :: t => unprotect m f k i r :: open_all m f k (i + 1) t
  end.

(* does a record authenticate when the sequence number (epoch || sequence number) is left out of
   the authenticated string?  only evaluated on records that failed to open *)
Definition opens_without_seq (m : mode) (f : hform) (k : dir_keys) (rec : list byte) : bool :=
  match parse_header f 0 rec with
  | Some (t, v, _, _, body) => match open_body m k [] t v body with Some _ => true | None => false end
  | None => false
  end.

Fixpoint all_some {A} (l : list (option A)) : option (list A) :=
  match l with
  | [] => Some []
  | Some x :: t => match all_some t with Some r => Some (x :: r) | None => None end
  | None :: _ => None
  end.

Fixpoint distinct (l : list (list byte)) : bool :=
  match l with
  | [] => true
  | x :: t => negb (existsb (bytes_eq x) t) && distinct t
  end.

Fixpoint seqs_ok (f : hform) (i : N) (os : list opened) : bool :=
  match os with
  | [] => true
  | o :: t => N.eqb (o_seq o) i && (match f with HT => true | HD => N.eqb (o_epoch o) 1 end) && seqs_ok f (i + 1) t
  end.

(* consecutive from 0; with a base, the first record (Finished) is number 0 and the rest count from base *)
Definition seqs_from (f : hform) (base : N) (os : list opened) : bool :=
  if N.eqb base 0 then seqs_ok f 0 os
  else match os with
       | [] => true
       | o :: t => seqs_ok f 0 [o] && seqs_ok f base t
       end.

Definition app_data (os : list opened) : list byte :=
  flat_map (fun o => if N.eqb (o_typ o) 23 then o_pt o else []) os.

(* the Finished message carried by the first protected record of a direction *)
Definition finished_of (f : hform) (os : list opened) : option (list byte * list byte) :=
  match os with
  | o :: _ =>
      let m := o_pt o in
      if N.eqb (o_typ o) 22 && N.eqb (msg_type m) 20 && Nat.eqb (length m) (hs_hdr_len f + 12)
      then Some (m, skipn (hs_hdr_len f) m) else None
  | [] => None
  end.

Definition types_ok (os : list opened) : bool :=
  match os with
  | [] => false
  | _ :: t => forallb (fun o => N.eqb (o_typ o) 23 || N.eqb (o_typ o) 21) t
  end.

Definition non_handshake (f : hform) (recs : list (list byte)) : list (list byte) :=
  filter (fun r => negb (N.eqb (nth 0 r 0) 22)) recs.

Definition first_failing {A} (l : list (option A)) (recs : list (list byte)) : list byte :=
  nth 0 (map snd (filter (fun p => match fst p with None => true | Some _ => false end) (combine l recs))) [].

Definition code (c : case) : N :=
  match c with
  | Conn f suite resumed ms master_c master_c2 master_s hs c2s s2c wr_c wr_s ivs_c ivs_s base =>
    match mode_of_suite suite with
    | None => 20
    | Some m =>
      let ch := nth 0 hs [] in
      let sh := nth 1 hs [] in
      let cr := hello_random f ch in
      let sr := hello_random f sh in
      if negb (N.eqb (msg_type ch) 1 && N.eqb (msg_type sh) 2 && Nat.eqb (length cr) 32 && Nat.eqb (length sr) 32) then 21
      else
      (* ---- master secret *)
      let '(master, pre_ok, rand_ok) :=
        match ms with
        | MPre pre cr0 sr0 =>
            (master_secret pre cr0 sr0,
             Nat.eqb (length pre) 48 && bytes_eq (firstn 2 pre) [1; 1],
             resumed || (bytes_eq cr0 cr && bytes_eq sr0 sr))
        | MTrusted => (master_c, true, true)
        end in
      if negb rand_ok then 21
      else if negb pre_ok then 9
      else if negb (Nat.eqb (length master) 48 && bytes_eq master master_c && bytes_eq master master_c2 && bytes_eq master master_s) then 1
      else
      (* ---- working keys, every record of each direction under that direction's key *)
      let ks := working_keys master cr sr (lens_of m) in
      let oc := open_all m f (client_write ks) 0 c2s in
      let os := open_all m f (server_write ks) 0 s2c in
      match all_some oc, all_some os with
      | None, _ => if opens_without_seq m f (client_write ks) (first_failing oc c2s) then 8 else 2
      | _, None => if opens_without_seq m f (server_write ks) (first_failing os s2c) then 8 else 3
      | Some oc, Some os =>
        if negb (seqs_from f base oc && seqs_from f base os) then 8
        else if negb (forallb (fun o => N.eqb (o_ver o) 0x0101) (oc ++ os) && types_ok oc && types_ok os) then 11
        else
        (* ---- Finished values from the SM3 transcript *)
        match finished_of f oc, finished_of f os with
        | Some (fc_msg, fc), Some (fs_msg, fs) =>
            let t := concat hs in
            let exp_c := client_verify_data master (if resumed then t ++ fs_msg else t) in
            let exp_s := server_verify_data master (if resumed then t else t ++ fc_msg) in
            if negb (bytes_eq fc exp_c) then 4
            else if negb (bytes_eq fs exp_s) then 5
            (* ---- application plaintext *)
            else if negb (bytes_eq (app_data oc) wr_c && bytes_eq (app_data os) wr_s) then 6
            (* ---- per-record nonces / IVs *)
            else if negb (distinct (map (explicit_of m f) c2s) && distinct (map (explicit_of m f) s2c)) then 7
            else if negb ((match ivs_c with [] => true | _ => bytes_eq (concat (map (explicit_of m f) (non_handshake f c2s))) (concat ivs_c) end) &&
                          (match ivs_s with [] => true | _ => bytes_eq (concat (map (explicit_of m f) (non_handshake f s2c))) (concat ivs_s) end)) then 12
            else 0
        | None, _ => 4
        | _, None => 5
        end
      end
    end
  end.

Definition spec_code (c : case) : N := code c.
Definition mismatch (c : case) : bool := negb (N.eqb (spec_code c) 0).

Definition evaluate (cs : list (N * case)) : list N * list (N * N) :=
  let rs := map (fun x => (fst x, code (snd x))) cs in
  let bad := filter (fun r => negb (N.eqb (snd r) 0)) rs in
  (map fst bad, bad).
