(* Correspondence runner for C20. *)
From V Require Export Model.Pa.

Inductive case :=
| DetectCase (chunks : transport) (sizes : list nat) (hdr_err : N) (outs : list (list byte * N))
| RouteCase (ht hs : bool) (chunks : transport) (code : N)
| E2ECase (adapter_ok direct_ok : bool).

Fixpoint bytes_eqb (a b : list byte) : bool :=
  match a, b with
  | [], [] => true
  | x :: a', y :: b' => N.eqb x y && bytes_eqb a' b'
  | _, _ => false
  end.

Definition err_code (e : rerr) : N := match e with NoErr => 0 | EOF => 1 | UnexpectedEOF => 2 end%N.

Fixpoint outs_eqb (a : list (list byte * rerr)) (b : list (list byte * N)) : bool :=
  match a, b with
  | [], [] => true
  | (x, e) :: a', (y, c) :: b' => bytes_eqb x y && N.eqb (err_code e) c && outs_eqb a' b'
  | _, _ => false
  end.

Definition route_code (r : route) : N :=
  match r with
  | RTlcp => 1 | RTls => 3 | RUnsupported => 10 | RNoConfig => 11
  | RReadErr EOF => 20 | RReadErr UnexpectedEOF => 21 | RReadErr NoErr => 99
  end%N.

Definition mismatch (c : case) : bool :=
  match c with
  | DetectCase chunks sizes hdr_err outs =>
      let '(p, e) := read_first_header chunks in
      match e with
      | NoErr => negb (N.eqb hdr_err 0 && outs_eqb (fst (pd_reads p sizes)) outs)
      | _ => negb (N.eqb hdr_err (err_code e))
      end
  | RouteCase ht hs chunks code => negb (N.eqb (route_code (fst (detect ht hs chunks))) code)
  | E2ECase a d => negb (a && d)
  end.

(* property-level predicates, stated on the stream (concat chunks) only *)
Fixpoint is_prefix (a b : list byte) : bool :=
  match a, b with
  | [], _ => true
  | x :: a', y :: b' => N.eqb x y && is_prefix a' b'
  | _, _ => false
  end.

Definition spec_code (c : case) : N :=
  match c with
  | DetectCase chunks sizes hdr_err outs =>
      let s := concat chunks in
      if Nat.ltb (length s) 5 then (if N.eqb hdr_err 0 then 1 else 0)%N       (* short stream must be an error *)
      else if negb (N.eqb hdr_err 0) then 2%N                                  (* long enough: no error *)
      else
        let got := concat (map fst outs) in
        if negb (is_prefix got s) then 3%N                                     (* bytes lost / altered / reordered *)
        else if existsb (fun o => negb (N.eqb (snd o) 0) && negb (N.eqb (snd o) 1)) outs then 4%N
        else if existsb (fun o => N.eqb (snd o) 1) outs && negb (Nat.eqb (length got) (length s)) then 5%N (* EOF before all bytes *)
        else 0%N
  | RouteCase ht hs chunks code =>
      let s := concat chunks in
      let want :=
        if Nat.ltb (length s) 5 then (match s with [] => 20 | _ => 21 end)%N
        else if N.eqb (nth 1 s 0%N) 1 then (if ht then 1 else 11)%N
        else if N.eqb (nth 1 s 0%N) 3 then (if hs then 3 else 11)%N
        else 10%N in
      if N.eqb want code then 0%N else 6%N
  | E2ECase a d => if d && negb a then 7%N else 0%N
  end.

Definition mismatches (cs : list (N * case)) : list N :=
  map fst (filter (fun x => mismatch (snd x)) cs).
Definition spec_violations (cs : list (N * case)) : list (N * N) :=
  filter (fun x => negb (N.eqb (snd x) 0)) (map (fun x => (fst x, spec_code (snd x))) cs).

Definition evaluate (cs : list (N * case)) : list N * list (N * N) :=
  (mismatches cs, spec_violations cs).
