(* Correspondence runner for C10: the Resume model driven by Negotiate.honest_run for the
   outcome of each full handshake. *)
From V Require Export Model.Resume.
From V Require Export Model.Negotiate.
Open Scope N_scope.

Record obs := mkObs { ob_offered : N; ob_res_c : bool; ob_res_s : bool; ob_ok_c : bool; ob_ok_s : bool; ob_new : N }.

Inductive hev :=
| HConnect (j : N) (c : ccfg) (s : scfg) (revalid sess_chain_ok : bool) (o : obs)
| HLoss (j : N) (cap : nat)
| HForge (j : N) (suite : N).

Inductive case := HistCase (ccap scap : nat) (evs : list hev).

Definition conn_of (j : N) (c : ccfg) (s : scfg) (revalid sess_chain_ok : bool) : conn :=
  match honest_run c s with
  | Some o => mkConn j (client_offer c) revalid (cfg_suites (s_suites s)) (s_has_keys s) (s_policy s) sess_chain_ok
                     true (o_suite o) (o_client_certs_at_server o)
  | None => mkConn j (client_offer c) revalid (cfg_suites (s_suites s)) (s_has_keys s) (s_policy s) sess_chain_ok
                   false 0 0%nat
  end.

Definition optN (o : option N) : N := match o with Some x => x | None => 0 end.

Definition obs_matches (r : report) (o : obs) : bool :=
  (optN (r_offered r) =? ob_offered o) &&
  Bool.eqb (r_resumed r) (ob_res_c o) && Bool.eqb (r_resumed r) (ob_res_s o) &&
  Bool.eqb (r_ok r) (ob_ok_c o) && Bool.eqb (r_ok r) (ob_ok_s o) &&
  (optN (r_new r) =? ob_new o).

(* a server that was never mentioned gets the default capacity on first use *)
Fixpoint hrun (scap : nat) (w : world) (evs : list hev) : bool :=
  match evs with
  | [] => true
  | HConnect j c s rv sc o :: t =>
      let w0 := match sc_get j (scaches w) with
                | Some _ => w
                | None => mkW (ccache w) (sc_set j (lru_init scap) (scaches w)) (table w) (next w)
                end in
      let '(w', r) := connect w0 (conn_of j c s rv sc) in
      obs_matches r o && hrun scap w' t
  | HLoss j cap :: t => hrun scap (fst (step w (ServerCacheLoss j cap))) t
  | HForge j suite :: t => hrun scap (fst (step w (ForgeClientSession j suite))) t
  end.

Definition mismatch (k : case) : bool :=
  match k with HistCase ccap scap evs => negb (hrun scap (world_init ccap []) evs) end.

(* property level, on the observations alone:
   1 = the two ends disagree on resumption or on success
   2 = resumed although nothing was offered, or an identifier that no successful handshake with
       this server created, or one the server has lost since (cache loss)
   3 = a session offered in a connection that failed is offered again by the next connection to that server
   4 = a new session reuses an identifier
   5 = the handshake failed although the same pair succeeds without a session (no transparent fallback)
   6 = the client offered an identifier that no successful handshake of this history created
       (a session kept from a handshake that ended in an error)
   7 = resumed a session whose suite the client no longer offers or the server no longer enables
   8 = the client offered to one server a session created with another one
   `made` : the sessions created so far and still held by their server: (identifier, server, suite) *)
Fixpoint find_made (i : N) (made : list (N * (N * N))) : option (N * N) :=
  match made with [] => None | (k, v) :: r => if i =? k then Some v else find_made i r end.

Fixpoint scan (last_failed : list (N * N)) (seen_new : list N) (made : list (N * (N * N))) (evs : list hev) : N :=
  match evs with
  | [] => 0
  | HConnect j c s rv sc o :: t =>
      if negb (Bool.eqb (ob_res_c o) (ob_res_s o)) || negb (Bool.eqb (ob_ok_c o) (ob_ok_s o)) then 1
      else if ob_offered o =? 9999 then 6
      else if ob_res_c o && (ob_offered o =? 0) then 2
      else if match find_made (ob_offered o) made with Some (j', _) => negb (j' =? j) | None => false end then 8
      else if ob_res_c o && match find_made (ob_offered o) made with
                            | Some (j', _) => negb (j' =? j)
                            | None => true end then 2
      else if ob_res_c o && match find_made (ob_offered o) made with
                            | Some (_, su) => negb (memN su (client_offer c) && memN su (cfg_suites (s_suites s)))
                            | None => false end then 7
      else if existsb (fun p => (fst p =? j) && (snd p =? ob_offered o)) last_failed && negb (ob_offered o =? 0) then 3
      else if negb (ob_new o =? 0) && memN (ob_new o) seen_new then 4
      else if negb (ob_ok_c o) && (match honest_run c s with Some _ => true | None => false end) then 5
      else
        let lf := if negb (ob_ok_c o) && negb (ob_offered o =? 0)
                  then (j, ob_offered o) :: last_failed
                  else filter (fun p => negb (fst p =? j)) last_failed in
        let made' := if ob_new o =? 0 then made
                     else match honest_run c s with
                          | Some r => (ob_new o, (j, o_suite r)) :: made
                          | None => made end in
        scan lf (if ob_new o =? 0 then seen_new else ob_new o :: seen_new) made' t
  | HLoss j _ :: t => scan last_failed seen_new (filter (fun m => negb (fst (snd m) =? j)) made) t
  | _ :: t => scan last_failed seen_new made t
  end.

Definition spec_code (k : case) : N := match k with HistCase _ _ evs => scan [] [] [] evs end.

Definition mismatches (cs : list (N * case)) : list N :=
  map fst (filter (fun x => mismatch (snd x)) cs).
Definition spec_violations (cs : list (N * case)) : list (N * N) :=
  filter (fun x => negb (N.eqb (snd x) 0)) (map (fun x => (fst x, spec_code (snd x))) cs).
Definition evaluate (cs : list (N * case)) : list N * list (N * N) :=
  (mismatches cs, spec_violations cs).
