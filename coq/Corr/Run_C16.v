(* Correspondence runner for C16 (window level and connection level). *)
From V Require Export Model.Replay Model.ReplayConn.
Open Scope N_scope.

Inductive case :=
| mkCase (c_cfg : Z) (c_seqs : list N) (c_res : list bool)
    (* decisions of replayWindow.check on a sequence of numbers *)
| ConnCase (cfg : Z) (its : list item) (outs : list outcome).
    (* an established connection: what arrived (genuine record s / anything else), and what the
       receiving application got after each arrival *)

Definition outcome_eqb (a b : outcome) : bool :=
  match a, b with
  | Delivered s, Delivered s' => s =? s'
  | Nothing, Nothing | Failed, Failed => true
  | _, _ => false
  end.
Fixpoint ol_eqb (a b : list outcome) : bool :=
  match a, b with
  | [], [] => true
  | x :: a', y :: b' => outcome_eqb x y && ol_eqb a' b'
  | _, _ => false
  end.

Fixpoint bl_eqb (a b : list bool) : bool :=
  match a, b with
  | [], [] => true
  | x :: a', y :: b' => Bool.eqb x y && bl_eqb a' b'
  | _, _ => false
  end.

Definition mismatch (c : case) : bool :=
  match c with
  | mkCase cfg seqs res => negb (bl_eqb (snd (run (conn_window cfg) seqs)) res)
  | ConnCase cfg its outs => negb (ol_eqb (snd (conn_run (established cfg) its)) outs)
  end.

(* property-level predicate on the implementation's decisions, independent of the bitmap:
     1 = a sequence number was accepted twice
     2 = a first arrival that is newer than everything accepted, or less than
         W = max(32, min(configured,64)) behind the newest accepted, was refused   *)
Definition prop_w (cfg : Z) : N :=
  let c := cfg_size cfg in N.max 32 (N.min c 64).

Fixpoint prop_scan (W : N) (acc : list N) (seqs : list N) (res : list bool) : N :=
  match seqs, res with
  | s :: t, b :: bt =>
      if mem s acc then (if b then 1 else prop_scan W acc t bt)
      else if (maxl acc <? s) || (maxl acc - s <? W)
           then (if b then prop_scan W (s :: acc) t bt else 2)
           else prop_scan W (if b then s :: acc else acc) t bt
  | _, _ => 0
  end.

(* connection level, on the payloads the application got (acc: numbers delivered so far, the
   Finished's 0 included):
     3 = something was delivered that is not the genuine record that arrived at that point
     4 = a payload was delivered twice
     5 = a first arrival newer than everything delivered, or within the window, was not delivered
     6 = the connection failed (a discarded record must not change what is accepted later) *)
Fixpoint conn_scan (W : N) (acc : list N) (its : list item) (outs : list outcome) : N :=
  match its, outs with
  | it :: t, o :: ot =>
      match o with
      | Failed => 6
      | Delivered s =>
          match it with
          | Gen s' => if negb (s =? s') then 3 else if mem s acc then 4 else conn_scan W (s :: acc) t ot
          | Bogus => 3
          end
      | Nothing =>
          match it with
          | Gen s => if negb (mem s acc) && ((maxl acc <? s) || (maxl acc - s <? W)) then 5 else conn_scan W acc t ot
          | Bogus => conn_scan W acc t ot
          end
      end
  | _, _ => 0
  end.

Definition spec_code (c : case) : N :=
  match c with
  | mkCase cfg seqs res => prop_scan (prop_w cfg) [] seqs res
  | ConnCase cfg its outs => conn_scan (prop_w cfg) [0] its outs
  end.

Definition mismatches (cs : list (N * case)) : list N :=
  map fst (filter (fun x => mismatch (snd x)) cs).
Definition spec_violations (cs : list (N * case)) : list (N * N) :=
  filter (fun x => negb (snd x =? 0)) (map (fun x => (fst x, spec_code (snd x))) cs).

Definition evaluate (cs : list (N * case)) : list N * list (N * N) :=
  (mismatches cs, spec_violations cs).
