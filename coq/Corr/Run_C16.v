(* Correspondence runner for C16 (window level). *)
From V Require Export Model.Replay.
Open Scope N_scope.

Record case := mkCase { c_cfg : Z; c_seqs : list N; c_res : list bool }.

Fixpoint bl_eqb (a b : list bool) : bool :=
  match a, b with
  | [], [] => true
  | x :: a', y :: b' => Bool.eqb x y && bl_eqb a' b'
  | _, _ => false
  end.

Definition mismatch (c : case) : bool :=
  negb (bl_eqb (snd (run (conn_window (c_cfg c)) (c_seqs c))) (c_res c)).

(* property-level predicate on the implementation's decisions, independent of the bitmap:
     1 = a sequence number was accepted twice
     2 = a first arrival that is newer than everything accepted, or less than
         W = max(32, min(configured,64)) behind the newest accepted, was refused   *)
Definition prop_w (cfg : Z) : N :=
  let c := cfg_size cfg in N.max 32 (N.min c 64).

Fixpoint prop_scan (W : N) (acc : list N) (seqs : list N) (res : list bool) : N :=
  match seqs, res with
  | s :: t, b :: bt =>
      if mem s acc then (if b then 1 else prop_scan W acc t bt)
      else if (maxl acc <? s) || (maxl acc - s <? W)
           then (if b then prop_scan W (s :: acc) t bt else 2)
           else prop_scan W (if b then s :: acc else acc) t bt
  | _, _ => 0
  end.

Definition spec_code (c : case) : N := prop_scan (prop_w (c_cfg c)) [] (c_seqs c) (c_res c).

Definition mismatches (cs : list (N * case)) : list N :=
  map fst (filter (fun x => mismatch (snd x)) cs).
Definition spec_violations (cs : list (N * case)) : list (N * N) :=
  filter (fun x => negb (snd x =? 0)) (map (fun x => (fst x, spec_code (snd x))) cs).

Definition evaluate (cs : list (N * case)) : list N * list (N * N) :=
  (mismatches cs, spec_violations cs).
